/-
Core E, helper lemmas: the retained store over histories - which message the
specification's store holds for a topic after any list of accepted PUBLISHes,
and the model's trie against it along any interleaving with other events.
-/
import Mqtt.Proofs.BrokerFanoutGen

set_option linter.unusedSimpArgs false

namespace Mqtt.Proofs.Broker
open Mqtt.Iface.Broker Mqtt.Model.Broker
open Mqtt.Proofs.Topics (good absR abs)
open Mqtt.Spec.Match (split validName validFilter)
open Mqtt.Spec.Broker (Ret Held addHeld)

/-- the specification's retained store after accepting the messages `ps` in order -/
def specRets (rets : List Ret) (ps : List Pub) : List Ret :=
  (ps.foldl (fun s p => Mqtt.Spec.Broker.retainStep s p) ({ rets := rets } : Mqtt.Spec.Broker.S)).rets

theorem specRets_nil (rets : List Ret) : specRets rets [] = rets := rfl

theorem retainStep_rets_only (s : Mqtt.Spec.Broker.S) (p : Pub) :
    (Mqtt.Spec.Broker.retainStep s p).rets = (Mqtt.Spec.Broker.retainStep { rets := s.rets } p).rets := by
  unfold Mqtt.Spec.Broker.retainStep
  split
  · rfl
  · split <;> rfl

theorem foldl_rets_only (ps : List Pub) : ∀ s : Mqtt.Spec.Broker.S,
    (ps.foldl (fun s p => Mqtt.Spec.Broker.retainStep s p) s).rets = specRets s.rets ps := by
  induction ps with
  | nil => intro s; rfl
  | cons p rest ih =>
    intro s
    simp only [List.foldl_cons, specRets]
    rw [ih, ih, retainStep_rets_only]

theorem specRets_cons (rets : List Ret) (p : Pub) (ps : List Pub) :
    specRets rets (p :: ps) = specRets (Mqtt.Spec.Broker.retainStep { rets := rets } p).rets ps := by
  simp only [specRets, List.foldl_cons]
  rw [foldl_rets_only]
  rfl

theorem specRets_snoc (rets : List Ret) (ps : List Pub) (p : Pub) :
    specRets rets (ps ++ [p]) = (Mqtt.Spec.Broker.retainStep { rets := specRets rets ps } p).rets := by
  simp only [specRets, List.foldl_append, List.foldl_cons, List.foldl_nil]
  rw [retainStep_rets_only]

theorem list_reverse_induction {α} (P : List α → Prop) (h0 : P [])
    (hs : ∀ l a, P l → P (l ++ [a])) : ∀ l, P l := by
  intro l
  have h : ∀ r : List α, P r.reverse := by
    intro r
    induction r with
    | nil => exact h0
    | cons a r ih => rw [List.reverse_cons]; exact hs _ _ ih
  have := h l.reverse
  rwa [List.reverse_reverse] at this

/-- what the store holds for topic `T` in terms of the last retained PUBLISH on `T` -/
def lastRetained (T : Bytes) (ps : List Pub) : List Ret :=
  match (ps.filter (fun p => p.retain && p.topic == T)).getLast? with
  | some p => if p.payload.isEmpty then [] else [⟨T, p.qos, p.payload⟩]
  | none => []

/-- The specification's store, started empty: for every topic `T` it holds at
most one message - that of the most recent PUBLISH with RETAIN = 1 on `T`, if
its payload is non-empty; nothing if that payload is empty or there was none. -/
theorem specRets_char (T : Bytes) (ps : List Pub) :
    (specRets [] ps).filter (fun r => r.topic == T) = lastRetained T ps := by
  refine list_reverse_induction (fun ps => (specRets [] ps).filter (fun r => r.topic == T) = lastRetained T ps)
    rfl ?_ ps
  · intro qs p ih
    rw [specRets_snoc]
    unfold lastRetained at ih ⊢
    simp only [List.filter_append, List.filter_cons, List.filter_nil]
    unfold Mqtt.Spec.Broker.retainStep
    cases hr : p.retain with
    | false =>
      simp only [Bool.not_false, ↓reduceIte, Bool.false_and, Bool.false_eq_true, List.append_nil]
      exact ih
    | true =>
      by_cases ht : p.topic = T
      · subst ht
        simp only [Bool.not_true, Bool.false_eq_true, ↓reduceIte, Bool.true_and, beq_self_eq_true,
          List.getLast?_append, List.getLast?_singleton, Option.some_or]
        cases hp : p.payload.isEmpty with
        | true =>
          simp only [↓reduceIte, List.filter_filter]
          rw [List.filter_eq_nil_iff]
          intro r _
          by_cases h : r.topic = p.topic <;> simp [h]
        | false =>
          simp only [Bool.false_eq_true, ↓reduceIte, List.filter_append, List.filter_filter, List.filter_cons,
            beq_self_eq_true, List.filter_nil]
          have : (specRets [] qs).filter (fun r => r.topic == p.topic && r.topic != p.topic) = [] := by
            rw [List.filter_eq_nil_iff]
            intro r _
            by_cases h : r.topic = p.topic <;> simp [h]
          rw [this]; rfl
      · have hb : (p.topic == T) = false := by simpa using ht
        simp only [Bool.not_true, Bool.false_eq_true, ↓reduceIte, hb, Bool.and_false, List.append_nil]
        rw [← ih]
        have hkeep : ∀ l : List Ret, (l.filter (fun r => r.topic != p.topic)).filter (fun r => r.topic == T) =
            l.filter (fun r => r.topic == T) := by
          intro l
          rw [List.filter_filter]
          apply List.filter_congr
          intro r _
          by_cases h : r.topic = T
          · have h2 : ¬ T = p.topic := fun x => ht x.symm
            simp [h, h2]
          · simp [h]
        split
        · exact hkeep _
        · rw [List.filter_append, hkeep]
          simp [hb]

/-! ### the model along a history -/

/-- one move of a history: an event that carries no application message into
the broker, or the acceptance of a message (`onPublish`: what a QoS 0/1 PUBLISH,
a released QoS 2 PUBLISH, a will and the in-process `Publish` all end in) -/
inductive Act where
  | ev (e : Ev)
  | pub (m : Msg)

def Act.ok : Act → Bool
  | .ev e => carriesNoMessage e
  | .pub m => good m.p.topic && validName m.p.topic

def actStep (b : B) : Act → B
  | .ev e => (step b e).1
  | .pub m => (onPublish b m).1

def pubsOf : List Act → List Pub
  | [] => []
  | .ev _ :: rest => pubsOf rest
  | .pub m :: rest => m.p :: pubsOf rest

theorem acts_refine (acts : List Act) : ∀ (b : B) (rets : List Ret), Inv b → RetInv b.topics.rroot rets →
    (∀ a ∈ acts, a.ok = true) →
    Inv (acts.foldl actStep b) ∧ RetInv (acts.foldl actStep b).topics.rroot (specRets rets (pubsOf acts)) := by
  induction acts with
  | nil => intro b rets hi hr _; exact ⟨hi, hr⟩
  | cons a rest ih =>
    intro b rets hi hr hok
    have hrest : ∀ x ∈ rest, x.ok = true := fun x hx => hok x (List.mem_cons_of_mem _ hx)
    have ha := hok a (by simp)
    cases a with
    | ev e =>
      simp only [List.foldl_cons, actStep, pubsOf]
      refine ih _ rets (Inv_step b e hi) ?_ hrest
      rw [step_rroot b hi e ha]
      exact hr
    | pub m =>
      simp only [List.foldl_cons, actStep, pubsOf]
      rw [specRets_cons]
      simp only [Act.ok, Bool.and_eq_true] at ha
      refine ih _ _ (Inv_onPublish b m hi) ?_ hrest
      rw [onPublish_topics]
      exact retainStep_refines b m rets hr ha.1 ha.2

/-! ### the subscription trie along a history -/

theorem releaseAll_sroot (l : List QEntry) : ∀ b : B, (releaseAll b l).1.topics.sroot = b.topics.sroot := by
  induction l with
  | nil => intro b; rfl
  | cons e rest ih =>
    intro b
    unfold releaseAll
    simp only
    rw [ih, onPublish_topics]
    exact (retainStep_frame b _).1

theorem onPublish_sroot (b : B) (m : Msg) : (onPublish b m).1.topics.sroot = b.topics.sroot := by
  rw [onPublish_topics]; exact (retainStep_frame b m).1

/-- the events of a subscribe/unsubscribe/publish history: SUBSCRIBE and
UNSUBSCRIBE packets and the in-process Subscribe/Unsubscribe with good filters,
and everything that does not end or begin a connection -/
def heldOk : Ev → Bool
  | .packet _ (.subscribe _ topics) => topics.all (fun tq => good tq.1)
  | .packet _ (.unsubscribe _ topics) => topics.all (fun t => good t)
  | .packet _ .disconnect => false
  | .packet _ _ => true
  | .srvSub _ f _ => good f
  | .srvUnsub _ f => good f
  | .srvPub _ => true
  | .first _ _ _ => false
  | .close _ => false

/-- the specification's held set after one such event (`b`: the model state, for
the liveness of the connection a packet arrives on) -/
def heldNext (b : B) (held : List Held) : Ev → List Held
  | .packet c (.subscribe _ topics) => if b.alive c then specSubHeld c topics held else held
  | .packet c (.unsubscribe _ topics) =>
      if b.alive c then held.filter (fun h => !(h.owner == c && topics.contains h.filter)) else held
  | .srvSub cb f q =>
      if (!validFilter f || decide (q > 2)) = true then held else addHeld held cb f (min q Mqtt.Spec.Broker.maxQos)
  | .srvUnsub cb f => held.filter (fun h => !(h.owner == cb && h.filter == f))
  | _ => held

def heldRun (b : B) (held : List Held) : List Ev → List Held
  | [] => held
  | e :: es => heldRun (step b e).1 (heldNext b held e) es

theorem packet_dead (b : B) (c : Nat) (p : Packet) (h : b.alive c = false) : packet b c p = (b, []) := by
  unfold packet
  unfold B.alive at h
  split
  · rfl
  · rename_i cn hc
    rw [hc] at h
    simp only at h
    simp [h]

theorem packet_other_sroot (b : B) (c : Nat) (p : Packet)
    (hp : match p with | .subscribe _ _ => False | .unsubscribe _ _ => False | .disconnect => False | _ => True) :
    (packet b c p).1.topics.sroot = b.topics.sroot := by
  unfold packet
  split
  · rfl
  · split
    · rfl
    · split
      · rfl
      · cases p with
        | publish pub =>
          simp only
          split
          · rfl
          · split
            · exact onPublish_sroot _ _
            · exact onPublish_sroot _ _
        | pubrel id =>
          simp only
          rw [releaseAll_sroot]; rfl
        | subscribe id ts => exact hp.elim
        | unsubscribe id ts => exact hp.elim
        | disconnect => exact hp.elim
        | pubrec id => rfl
        | pingreq => rfl
        | puback _ => rfl
        | pubcomp _ => rfl
        | pingresp => rfl
        | suback _ _ => rfl
        | unsuback _ => rfl
        | connack _ _ => rfl
        | connectAgain => rfl

theorem held_step (b : B) (held : List Held) (e : Ev) (hinv : Inv b) (hh : HeldInv b.topics.sroot held)
    (hok : heldOk e = true) : HeldInv (step b e).1.topics.sroot (heldNext b held e) := by
  cases e with
  | first c f a => simp [heldOk] at hok
  | close c => simp [heldOk] at hok
  | srvPub p =>
    simp only [step, heldNext, srvPub]
    rw [onPublish_sroot]; exact hh
  | srvSub cb f q => exact srvSub_held b hinv cb f q hok held hh
  | srvUnsub cb f => exact srvUnsub_held b hinv cb f hok held hh
  | packet c p =>
    cases p with
    | subscribe id topics =>
      simp only [step, heldNext]
      cases hl : b.alive c with
      | false => rw [packet_dead b c _ hl]; simpa using hh
      | true =>
        simp only [↓reduceIte]
        have hg : ∀ tq ∈ topics, good tq.1 = true := by
          simpa [heldOk, List.all_eq_true] using hok
        have hp := packet_subscribe_sroot b hinv c id topics hl
        obtain ⟨e1, e2⟩ := entriesAfterSub_held c topics hg held hh.valid
        exact ⟨(hp.trans (entriesAfterSub_perm c topics _ _ hh.perm)).trans (by rw [e1]), e2⟩
    | unsubscribe id topics =>
      simp only [step, heldNext]
      cases hl : b.alive c with
      | false => rw [packet_dead b c _ hl]; simpa using hh
      | true =>
        simp only [↓reduceIte]
        have hg : ∀ t ∈ topics, good t = true := by
          simpa [heldOk, List.all_eq_true] using hok
        have hp := packet_unsubscribe_sroot b hinv c id topics hl
        have e1 := entriesAfterUnsub_held c topics hg held hh.valid
        exact ⟨(hp.trans (entriesAfterUnsub_perm c topics _ _ hh.perm)).trans (by rw [e1]),
          fun h hm => hh.valid h (List.mem_filter.mp hm).1⟩
    | disconnect => simp [heldOk] at hok
    | publish pub => simp only [step, heldNext]; rw [packet_other_sroot b c _ trivial]; exact hh
    | pubrel id => simp only [step, heldNext]; rw [packet_other_sroot b c _ trivial]; exact hh
    | pubrec id => simp only [step, heldNext]; rw [packet_other_sroot b c _ trivial]; exact hh
    | pingreq => simp only [step, heldNext]; rw [packet_other_sroot b c _ trivial]; exact hh
    | puback _ => simp only [step, heldNext]; rw [packet_other_sroot b c _ trivial]; exact hh
    | pubcomp _ => simp only [step, heldNext]; rw [packet_other_sroot b c _ trivial]; exact hh
    | pingresp => simp only [step, heldNext]; rw [packet_other_sroot b c _ trivial]; exact hh
    | suback _ _ => simp only [step, heldNext]; rw [packet_other_sroot b c _ trivial]; exact hh
    | unsuback _ => simp only [step, heldNext]; rw [packet_other_sroot b c _ trivial]; exact hh
    | connack _ _ => simp only [step, heldNext]; rw [packet_other_sroot b c _ trivial]; exact hh
    | connectAgain => simp only [step, heldNext]; rw [packet_other_sroot b c _ trivial]; exact hh

theorem held_run (es : List Ev) : ∀ (b : B) (held : List Held), Inv b → HeldInv b.topics.sroot held →
    (∀ e ∈ es, heldOk e = true) →
    Inv (run b es).1 ∧ HeldInv (run b es).1.topics.sroot (heldRun b held es) := by
  induction es with
  | nil => intro b held hi hh _; exact ⟨hi, hh⟩
  | cons e rest ih =>
    intro b held hi hh hok
    unfold run heldRun
    exact ih _ _ (Inv_step b e hi) (held_step b held e hi hh (hok e (by simp)))
      (fun x hx => hok x (List.mem_cons_of_mem _ hx))

end Mqtt.Proofs.Broker
