/-
`onPublish` of the broker model against `accept` of the reference broker: the
retained stores stay related (`RetInv`, and every stored message keeps an
identifier when its QoS is not 0), and the outputs are a fan-out (`Fan`) of the
`deliver` items the reference broker demands.
-/
import Mqtt.Proofs.BrokerRefineFanout

set_option linter.unusedSimpArgs false

namespace Mqtt.Proofs.BrokerRefine
open Mqtt.Iface.Broker Mqtt.Model.Broker
open Mqtt.Spec.Broker (SOut Held wild idOk pubOf outOwner modelGroup specGroup)
open Mqtt.Model.Topics (MemTopics RMsg RNode)
open Mqtt.Proofs.Topics (WF RWF abs absR good entryLevels)
open Mqtt.Spec.Match (split validName validFilter topicMatches)
open Mqtt.Proofs.Broker (HeldInv RetInv heldEntry)

/-- every stored retained message has an identifier unless its QoS is 0 -/
def IdsOk (root : RNode) : Prop := ∀ e ∈ absR root, e.2.qos = 0 ∨ e.2.pktid ≠ 0

theorem retain_ids (mt : MemTopics) (r : RMsg) (hwf : RWF mt.rroot) (hf : IdsOk mt.rroot)
    (hr : r.payload.isEmpty = false → (entryLevels r.topic).2 = true → r.qos = 0 ∨ r.pktid ≠ 0) :
    IdsOk (mt.retain r).1.rroot := by
  unfold IdsOk
  rw [Mqtt.Proofs.Broker.retain_rroot]
  obtain ⟨_, _, h3, h4, h5, h6⟩ := Mqtt.Properties.C06.C06_retained_trie_refines mt.rroot (entryLevels r.topic).1 r hwf
  intro e he
  split at he
  · cases hl : (entryLevels r.topic).2 with
    | true =>
      rw [hl] at he
      exact hf e (List.mem_filter.mp (h5.mem_iff.mp he)).1
    | false =>
      rw [hl, h6] at he
      exact hf e he
  · rename_i hpe
    cases hl : (entryLevels r.topic).2 with
    | true =>
      rw [hl] at he
      have := h3.mem_iff.mp he
      simp only [List.mem_append, List.mem_filter, List.mem_singleton] at this
      rcases this with hx | rfl
      · exact hf e hx.1
      · exact hr (by simpa using hpe) hl
    | false =>
      rw [hl] at he
      exact hf e (h4.mem_iff.mp he)

/-- the retain step keeps `IdsOk`, and leaves the message object with an
identifier, or dirty, or at QoS 0, as it found it -/
theorem retainStep_ids (b : B) (m : Msg) (hwf : RWF b.topics.rroot) (hf : IdsOk b.topics.rroot)
    (ht : m.p.topic ≠ []) (hok : m.p.pktid ≠ 0 ∨ m.dirty = true ∨ m.p.qos = 0) :
    IdsOk (retainStep b m).1.topics.rroot ∧
    ((retainStep b m).2.p.pktid ≠ 0 ∨ (retainStep b m).2.dirty = true ∨ (retainStep b m).2.p.qos = 0) := by
  unfold retainStep
  split
  · exact ⟨hf, hok⟩
  · split
    · refine ⟨retain_ids _ _ hwf hf ?_, hok⟩
      rename_i hpe
      intro h; simp [toRMsg, hpe] at h
    · split
      · rename_i hbad
        refine ⟨retain_ids _ _ hwf hf ?_, hok⟩
        intro _ hl
        rw [Mqtt.Proofs.Topics.entryLevels_snd] at hl
        simp only [toRMsg] at hl
        simp only [Bool.or_eq_true, Bool.not_eq_true'] at hbad
        rcases hbad with h | h <;> simp [h] at hl
      · obtain ⟨w, m', ctr', he, h1, h2, _, _, _, h6, _, _, _, h10, h11, h12⟩ := encode_spec m b.ctr ht hok
        rw [he]
        simp only
        refine ⟨retain_ids _ _ hwf hf ?_, ?_⟩
        · intro _ _
          simp only [toRMsg]
          unfold idOk at h1
          by_cases hq : w.qos = 0
          · exact .inl hq
          · right
            have : (w.qos == 0) = false := by simpa using hq
            simpa [this] using h1
        · rcases hok with h | h | h
          · exact .inl (h10 h)
          · rcases h11 h with h' | h'
            · exact .inl h'
            · exact .inr (.inl h')
          · exact .inr (.inr (by rw [h6]; exact h))

theorem spec_retainStep_held (s : Spec.Broker.S) (p : Pub) : (Spec.Broker.retainStep s p).held = s.held := by
  unfold Spec.Broker.retainStep
  split
  · rfl
  · split <;> rfl

theorem spec_retainStep_frame (s : Spec.Broker.S) (p : Pub) :
    (Spec.Broker.retainStep s p).held = s.held ∧ (Spec.Broker.retainStep s p).stored = s.stored ∧
    (Spec.Broker.retainStep s p).conns = s.conns := by
  unfold Spec.Broker.retainStep
  split
  · exact ⟨rfl, rfl, rfl⟩
  · split <;> exact ⟨rfl, rfl, rfl⟩

theorem spec_accept_fst (s : Spec.Broker.S) (p : Pub) : (Spec.Broker.accept s p).1 = Spec.Broker.retainStep s p := rfl

theorem spec_accept_snd (s : Spec.Broker.S) (p : Pub) :
    (Spec.Broker.accept s p).2 = Spec.Broker.fanout (Spec.Broker.retainStep s p) p.topic p.payload p.qos := rfl

theorem matching_congr (s s' : Spec.Broker.S) (h : s'.held = s.held) (t : Bytes) :
    Spec.Broker.matching s' t = Spec.Broker.matching s t := by
  unfold Spec.Broker.matching; rw [h]

/-- the subscriber list of the store against the subscriptions the reference broker holds -/
theorem subscribers_held (mt : MemTopics) (held : List Held) (hh : HeldInv mt.sroot held) (hwf : WF mt.sroot)
    (t : Bytes) (q : Nat) (hg : good t = true) (hn : validName t = true) (hq : q ≤ 2) :
    ∃ subs, mt.subscribers t q = some subs ∧
      subs.Perm ((held.filter (fun h => topicMatches h.filter t)).map (fun h => (h.owner, min q h.qos))) := by
  obtain ⟨subs, h1, h2⟩ := Mqtt.Proofs.Broker.subscribers_char mt t q hwf hg hn hq
  refine ⟨subs, h1, h2.trans ?_⟩
  have := ((hh.perm.filter (fun e => Mqtt.Spec.Match.matchLevels e.1 (split t))).map (fun e => (e.2.1, min q e.2.2)))
  refine this.trans ?_
  rw [List.filter_map, List.map_map]
  exact List.Perm.refl _

/-- **`onPublish` refines `accept`** -/
theorem onPublish_refines (b : B) (m : Msg) (s : Spec.Broker.S)
    (hwf : WF b.topics.sroot) (hh : HeldInv b.topics.sroot s.held)
    (hal : ∀ h ∈ s.held, h.owner < cbBase → b.alive h.owner = true)
    (hret : RetInv b.topics.rroot s.rets) (hids : IdsOk b.topics.rroot)
    (hg : good m.p.topic = true) (hn : validName m.p.topic = true) (hq : m.p.qos ≤ 2)
    (hok : m.p.pktid ≠ 0 ∨ m.dirty = true ∨ m.p.qos = 0) :
    (onPublish b m).2.2.2 = true ∧
    RetInv (onPublish b m).1.topics.rroot (Spec.Broker.accept s m.p).1.rets ∧
    IdsOk (onPublish b m).1.topics.rroot ∧
    Fan (Spec.Broker.accept s m.p).2 (onPublish b m).2.2.1 := by
  have ht : m.p.topic ≠ [] := by
    intro h0; rw [h0] at hn; exact absurd hn (by decide)
  obtain ⟨m1, m2, m3, m4, _⟩ := Mqtt.Proofs.Broker.retainStep_msg b m
  obtain ⟨f1, f2, _, _, _⟩ := Mqtt.Proofs.Broker.retainStep_frame b m
  obtain ⟨i1, i2⟩ := retainStep_ids b m hret.wf hids ht hok
  have hr1 : RetInv (retainStep b m).1.topics.rroot (Spec.Broker.accept s m.p).1.rets := by
    rw [spec_accept_fst, Mqtt.Proofs.Broker.retainStep_rets_only]
    exact Mqtt.Proofs.Broker.retainStep_refines b m s.rets hret hg hn
  have hwf1 : WF (retainStep b m).1.topics.sroot := by rw [f1]; exact hwf
  have hh1 : HeldInv (retainStep b m).1.topics.sroot s.held := by rw [f1]; exact hh
  obtain ⟨subs, hsubs, hperm⟩ := subscribers_held (retainStep b m).1.topics s.held hh1 hwf1 m.p.topic m.p.qos hg hn hq
  have hmem : ∀ sq ∈ subs, ∃ h ∈ s.held, sq = (h.owner, min m.p.qos h.qos) := by
    intro sq hsq
    have := hperm.mem_iff.mp hsq
    simp only [List.mem_map, List.mem_filter] at this
    obtain ⟨h, ⟨hh', _⟩, rfl⟩ := this
    exact ⟨h, hh', rfl⟩
  have hrt : (onPublish b m).1.topics.rroot = (retainStep b m).1.topics.rroot := by
    rw [Mqtt.Proofs.Broker.onPublish_topics]
  rw [hrt]
  refine ⟨?_, hr1, i1, ?_⟩
  · unfold onPublish
    simp only
    rw [m2, m4, hsubs]
  · have hout : (onPublish b m).2.2.1 =
        (fanout (retainStep b m).1 (if (retainStep b m).2.p.retain then (retainStep b m).2.setRetain false
          else (retainStep b m).2) subs).2.2 := by
      unfold onPublish
      simp only
      rw [m2, m4, hsubs]
      rfl
    rw [hout]
    have hmc := Mqtt.Proofs.Broker.loopMsg_eq (retainStep b m).2
    generalize (if (retainStep b m).2.p.retain then (retainStep b m).2.setRetain false else (retainStep b m).2) = mc
      at hmc
    have c1 : mc.p.retain = false := by rw [hmc]
    have c2 : mc.p.topic = m.p.topic := by rw [hmc]; exact m2
    have c3 : mc.p.payload = m.p.payload := by rw [hmc]; exact m3
    have c4 : mc.p.pktid = (retainStep b m).2.p.pktid := by rw [hmc]
    have c5 : mc.dirty = (retainStep b m).2.dirty := by rw [hmc]
    have ho := fanout_outsFor subs (retainStep b m).1 mc c1 (by rw [c2]; exact ht)
      (by
        rcases i2 with h | h | h
        · exact .inl (by rw [c4]; exact h)
        · exact .inr (.inl (by rw [c5]; exact h))
        · refine .inr (.inr (fun sq hsq => ?_))
          obtain ⟨h', _, rfl⟩ := hmem sq hsq
          rw [m4] at h
          simp only [h]; omega)
      (by
        intro sq hsq hlt
        obtain ⟨h', hh', rfl⟩ := hmem sq hsq
        rw [Mqtt.Proofs.Broker.alive_congr b _ f2]
        exact hal h' hh' hlt)
    rw [c2, c3] at ho
    rw [spec_accept_snd]
    refine fan_of_outsFor _ _ _ _ subs _ ho ?_
    rw [matching_congr s (Spec.Broker.retainStep s m.p) (spec_retainStep_held s m.p)]
    exact hperm

end Mqtt.Proofs.BrokerRefine
