/-
Core E, helper lemmas: retained delivery at subscribe time - the pending list
the SUBSCRIBE loop builds, what `sendRetained` writes for it, and `srvSub`
(C08 h, i).
-/
import Mqtt.Proofs.BrokerFanoutHeld

set_option linter.unusedSimpArgs false

namespace Mqtt.Proofs.Broker
open Mqtt.Iface.Broker Mqtt.Model.Broker
open Mqtt.Model.Topics (MemTopics RMsg SNode RNode levels validQos Level)
open Mqtt.Proofs.Topics (entryLevels)
open Mqtt.Proofs.Topics (WF RWF abs absR good Entry REntry rwalk)
open Mqtt.Properties.C06
open Mqtt.Spec.Match (split validName validFilter matchLevels topicMatches)

/-- `Clone` + `SetQoS` of a stored message for a subscription granted at `rq` -/
def conv (rq : Nat) (r : RMsg) : Msg :=
  if r.qos > rq then (⟨ofRMsg r, false⟩ : Msg).setQoS rq else ⟨ofRMsg r, false⟩

/-- what `Retained(filter)` returns (nothing on error) -/
def retainedOf (mt : MemTopics) (t : Bytes) : List RMsg := (mt.retained t).getD []

/-- `Retained` depends on the retained trie only -/
theorem retained_congr (ts mt : MemTopics) (t : Bytes) (h : ts.rroot = mt.rroot) :
    ts.retained t = mt.retained t := by
  unfold MemTopics.retained; rw [h]

/-- the PUBLISH a subscriber granted at `g` gets for the stored message `r`:
stored topic, payload, DUP bit and RETAIN flag, QoS min(stored, granted), the
stored identifier (none at QoS 0) -/
def retainedPub (r : RMsg) (g : Nat) : Pub :=
  { dup := r.dup, qos := min r.qos g, retain := r.retain, topic := r.topic,
    pktid := if min r.qos g = 0 then 0 else r.pktid, payload := r.payload }

theorem conv_p (rq : Nat) (r : RMsg) : (conv rq r).p = { ofRMsg r with qos := min r.qos rq } := by
  unfold conv
  split
  · rename_i h
    have : min r.qos rq = rq := by omega
    rw [this]; rfl
  · rename_i h
    have : min r.qos rq = r.qos := by omega
    rw [this]; rfl

theorem conv_dirty (rq : Nat) (r : RMsg) (h : (conv rq r).dirty = true) : (conv rq r).p.qos = 0 := by
  unfold conv at h ⊢
  split
  · rename_i hq
    simp only [hq, ↓reduceIte, Msg.setQoS, ofRMsg, Bool.false_or] at h
    simp only [Msg.setQoS]
    by_cases h0 : rq = 0
    · exact h0
    · have h1 : r.qos > 0 := by omega
      have h2 : rq > 0 := by omega
      simp [h1, h2] at h
  · rename_i hq
    simp [hq] at h

/-! ### the pending list of the SUBSCRIBE loop -/

theorem subscribeLoop_rms (c : Nat) (topics : List (Bytes × Nat)) :
    ∀ (b : B) (s : Sess) (codes : List Nat) (rms : List Msg),
      (subscribeLoop b c s topics codes rms).2.2.2 = rms ++ topics.flatMap (fun tq =>
        if accepts tq.1 tq.2 then
          (retainedOf b.topics tq.1).map (conv (min tq.2 Mqtt.Generated.maxQosAllowed))
        else []) := by
  induction topics with
  | nil => intro b s codes rms; simp [subscribeLoop]
  | cons tq rest ih =>
    intro b s codes rms
    obtain ⟨t, q⟩ := tq
    unfold subscribeLoop
    have hs := subscribe_snd b.topics Mqtt.Generated.maxQosAllowed t q c
    have hr := subscribe_rroot b.topics Mqtt.Generated.maxQosAllowed t q c
    generalize b.topics.subscribe Mqtt.Generated.maxQosAllowed t q c = r at hs hr
    obtain ⟨ts, o⟩ := r
    simp only at hs hr
    have hret : ∀ x, retainedOf ({ b with topics := ts } : B).topics x = retainedOf b.topics x := by
      intro x; simp only [retainedOf, MemTopics.retained, hr]
    cases o with
    | none =>
      have ha : accepts t q = false := by
        cases h : accepts t q with
        | false => rfl
        | true => rw [h] at hs; simp at hs
      simp only
      rw [ih]
      simp only [List.flatMap_cons, ha, Bool.false_eq_true, ↓reduceIte, List.nil_append, hret]
    | some rq =>
      have ha : accepts t q = true ∧ rq = min q Mqtt.Generated.maxQosAllowed := by
        cases h : accepts t q with
        | false => rw [h] at hs; simp at hs
        | true => rw [h] at hs; simp at hs; exact ⟨rfl, hs⟩
      simp only
      rw [ih]
      simp only [List.flatMap_cons, ha.1, ↓reduceIte, hret, List.append_assoc]
      congr 1
      congr 1
      simp only [retainedOf, retained_congr ts b.topics t hr, ha.2]
      cases b.topics.retained t with
      | none => rfl
      | some l => rfl

/-! ### writing the pending list -/

theorem encode_pending (m : Msg) (ctr : Nat) (ht : m.p.topic ≠ []) (hd : m.dirty = true → m.p.qos = 0) :
    m.encode ctr = some ({ m.p with pktid := if m.p.qos = 0 then 0 else m.p.pktid }, m, ctr) := by
  obtain ⟨⟨dup, qos, retain, topic, pktid, payload⟩, dirty⟩ := m
  simp only at ht hd
  unfold Msg.encode
  have hte : topic.isEmpty = false := by cases topic <;> simp_all
  cases dirty with
  | false =>
    by_cases hq : qos = 0 <;> simp [hq]
  | true =>
    have hq : qos = 0 := hd rfl
    simp [hte, hq]

theorem sendRetained_char (c : Nat) (rms : List Msg) : ∀ b : B, b.alive c = true →
    (∀ m ∈ rms, m.p.topic ≠ [] ∧ (m.dirty = true → m.p.qos = 0)) →
    sendRetained b c rms =
      (b, rms.map (fun m => Out.send c (.publish { m.p with pktid := if m.p.qos = 0 then 0 else m.p.pktid }))) := by
  induction rms with
  | nil => intro b _ _; rfl
  | cons m rest ih =>
    intro b hal hm
    unfold sendRetained
    obtain ⟨h1, h2⟩ := hm m (by simp)
    simp only [hal, Bool.not_true, Bool.false_eq_true, ↓reduceIte, encode_pending m b.ctr h1 h2]
    have : ({ b with ctr := b.ctr } : B) = b := rfl
    rw [this, ih b hal (fun x hx => hm x (List.mem_cons_of_mem _ hx))]
    rfl

theorem conv_wire (rq : Nat) (r : RMsg) :
    ({ (conv rq r).p with pktid := if (conv rq r).p.qos = 0 then 0 else (conv rq r).p.pktid } : Pub) =
      retainedPub r rq := by
  rw [conv_p]
  rfl

/-! ### what `Retained(filter)` returns -/

theorem retained_char (mt : MemTopics) (t : Bytes) (hwf : RWF mt.rroot) (hl : (entryLevels t).2 = true) :
    ∃ l, mt.retained t = some l ∧
      l.Perm ((absR mt.rroot).filterMap (fun e => if rwalk (entryLevels t).1 e.1 then some e.2 else none)) := by
  obtain ⟨r, hr, hp⟩ := C06_rmatch_char mt.rroot (entryLevels t).1 hwf
  refine ⟨r, ?_, hp⟩
  rw [Mqtt.Proofs.Topics.retained_entry]
  rw [← hl] at hr
  exact hr

theorem filterMap_eq_filter_map (es : List REntry) (f : REntry → Bool) :
    es.filterMap (fun e => if f e then some e.2 else none) = (es.filter f).map (·.2) := by
  induction es with
  | nil => rfl
  | cons e rest ih =>
    simp only [List.filterMap_cons, List.filter_cons]
    cases f e <;> simp [ih]

/-- for a valid filter without empty levels, not beginning with '$': the stored messages
whose path matches the filter under section 4.7 -/
theorem retained_char_good (mt : MemTopics) (t : Bytes) (hwf : RWF mt.rroot)
    (hg : good t = true) (hv : validFilter t = true) :
    ∃ l, mt.retained t = some l ∧
      l.Perm (((absR mt.rroot).filter (fun e => matchLevels (split t) e.1)).map (·.2)) := by
  obtain ⟨e1, e2⟩ := Mqtt.Proofs.Topics.entryLevels_valid t hg hv
  obtain ⟨l, h1, h2⟩ := retained_char mt t hwf e2
  refine ⟨l, h1, ?_⟩
  rw [e1, filterMap_eq_filter_map] at h2
  have hvl : Mqtt.Spec.Match.validFilterLevels (split t) = true := by
    simp only [validFilter, Bool.and_eq_true] at hv; exact hv.2
  have : (fun e : REntry => rwalk (split t) e.1) = (fun e => matchLevels (split t) e.1) := by
    funext e; exact C06_rwalk_eq_spec _ _ hvl
  rw [this] at h2
  exact h2

theorem retainedOf_mem (mt : MemTopics) (t : Bytes) (hwf : RWF mt.rroot) (hl : (entryLevels t).2 = true) (r : RMsg)
    (hr : r ∈ retainedOf mt t) : ∃ e ∈ absR mt.rroot, e.2 = r := by
  unfold retainedOf at hr
  obtain ⟨l, h1, h2⟩ := retained_char mt t hwf hl
  rw [h1] at hr
  have := h2.mem_iff.mp hr
  simp only [List.mem_filterMap] at this
  obtain ⟨e, he, hx⟩ := this
  split at hx
  · cases hx; exact ⟨e, he, rfl⟩
  · cases hx

/-! ### the whole SUBSCRIBE step's output -/

theorem accepts_levels (t : Bytes) (q : Nat) (h : accepts t q = true) : (entryLevels t).2 = true := by
  unfold accepts at h
  simp only [Bool.and_eq_true] at h
  exact h.2

/-- (h) SUBACK, then per accepted filter in request order what `Retained(filter)`
returned, each message as `retainedPub` -/
theorem packet_subscribe_out (b : B) (hinv : Inv b) (c id : Nat) (topics : List (Bytes × Nat))
    (hl : b.alive c = true) (htop : ∀ e ∈ absR b.topics.rroot, e.2.topic ≠ []) :
    (packet b c (.subscribe id topics)).2 =
      Out.send c (.suback id (topics.map (fun tq => modelCode tq.1 tq.2))) ::
      topics.flatMap (fun tq =>
        if accepts tq.1 tq.2 then
          (retainedOf b.topics tq.1).map (fun r =>
            Out.send c (.publish (retainedPub r (min tq.2 Mqtt.Generated.maxQosAllowed))))
        else []) := by
  obtain ⟨cn, s, hc, ha, hs⟩ := hinv.live b c hl
  rw [packet_subscribe b c cn s id topics hc ha hs]
  have hcodes := subscribeLoop_codes c topics b s [] []
  have hrms := subscribeLoop_rms c topics b s [] []
  have hconns := (subscribeLoop_conns c topics b s [] []).1
  generalize subscribeLoop b c s topics [] [] = r at *
  obtain ⟨b1, s1, codes, rms⟩ := r
  simp only [List.nil_append] at hcodes hrms hconns ⊢
  have hal : (b1.setSess s1).alive c = true := by
    rw [alive_congr b (b1.setSess s1) (by simp [hconns]) c]; exact hl
  have hpend : ∀ m ∈ rms, m.p.topic ≠ [] ∧ (m.dirty = true → m.p.qos = 0) := by
    intro m hm
    rw [hrms] at hm
    simp only [List.mem_flatMap] at hm
    obtain ⟨tq, _, hm⟩ := hm
    split at hm
    · rename_i hacc
      obtain ⟨r, hr, rfl⟩ := List.mem_map.mp hm
      obtain ⟨e, he, rfl⟩ := retainedOf_mem b.topics tq.1 hinv.rwf (accepts_levels _ _ hacc) r hr
      refine ⟨?_, conv_dirty _ _⟩
      rw [conv_p]
      exact htop e he
    · cases hm
  rw [sendRetained_char c rms _ hal hpend]
  simp only [send, hal, ↓reduceIte, List.singleton_append, hcodes]
  congr 1
  rw [hrms, List.map_flatMap]
  apply Mqtt.Proofs.Topics.flatMap_congr'
  intro tq _
  split
  · simp only [List.map_map]
    apply List.map_congr_left
    intro r _
    simp only [Function.comp, conv_wire]
  · rfl

/-! ### `Server.Subscribe` -/

/-- what an in-process callback granted at `g` is called with for the stored
message `r` (no encoding: the stored identifier stays) -/
def retainedCall (r : RMsg) (g : Nat) : Pub :=
  { dup := r.dup, qos := min r.qos g, retain := r.retain, topic := r.topic, pktid := r.pktid, payload := r.payload }

theorem srvSub_char (b : B) (cb : Nat) (f : Bytes) (q : Nat) :
    (srvSub b cb f q).2 =
      (if accepts f q then
        (retainedOf b.topics f).map (fun r => Out.call cb (retainedCall r (min q Mqtt.Generated.maxQosAllowed)))
       else [.apiErr]) ∧
    (srvSub b cb f q).1 = { b with topics := (b.topics.subscribe Mqtt.Generated.maxQosAllowed f q cb).1 } := by
  unfold srvSub
  have hs := subscribe_snd b.topics Mqtt.Generated.maxQosAllowed f q cb
  have hr := subscribe_rroot b.topics Mqtt.Generated.maxQosAllowed f q cb
  generalize b.topics.subscribe Mqtt.Generated.maxQosAllowed f q cb = r at hs hr
  obtain ⟨ts, o⟩ := r
  simp only at hs hr
  cases o with
  | none =>
    have ha : accepts f q = false := by
      cases h : accepts f q with
      | false => rfl
      | true => rw [h] at hs; simp at hs
    simp [ha]
  | some rq =>
    have ha : accepts f q = true ∧ rq = min q Mqtt.Generated.maxQosAllowed := by
      cases h : accepts f q with
      | false => rw [h] at hs; simp at hs
      | true => rw [h] at hs; simp at hs; exact ⟨rfl, hs⟩
    simp only [ha.1, ↓reduceIte, and_true]
    simp only [retainedOf, retained_congr ts b.topics f hr, ha.2]
    cases b.topics.retained f with
    | none => rfl
    | some l =>
      simp only [List.map_map, Option.getD_some]
      apply List.map_congr_left
      intro r _
      simp only [Function.comp]
      congr 1
      have := conv_p (min q Mqtt.Generated.maxQosAllowed) r
      unfold conv at this
      split
      · rename_i hq; simp only [hq, ↓reduceIte] at this; rw [this]; rfl
      · rename_i hq; simp only [hq, ↓reduceIte] at this; rw [this]; rfl

/-- every invocation the in-process `Subscribe` makes carries RETAIN = 1 (any filter) -/
theorem srvSub_retain (b : B) (hinv : Inv b) (cb : Nat) (f : Bytes) (q : Nat) (w : Pub)
    (ho : Out.call cb w ∈ (srvSub b cb f q).2) : w.retain = true := by
  rw [(srvSub_char b cb f q).1] at ho
  cases ha : accepts f q with
  | false => simp [ha] at ho
  | true =>
    simp only [ha, ↓reduceIte, List.mem_map] at ho
    obtain ⟨r, hr, heq⟩ := ho
    obtain ⟨e, he, rfl⟩ := retainedOf_mem b.topics f hinv.rwf (accepts_levels f q ha) r hr
    have hw : w = retainedCall e.2 (min q Mqtt.Generated.maxQosAllowed) := by
      injection heq with _ h2; exact h2.symm
    rw [hw]
    exact hinv.rflag e he

/-! ### against the specification's retained store -/

/-- a PUBLISH without the fields the specification leaves open (DUP, identifier) -/
def normPub (p : Pub) : Pub := { p with dup := false, pktid := 0 }

theorem retained_spec (mt : MemTopics) (rets : List Mqtt.Spec.Broker.Ret) (h : RetInv mt.rroot rets)
    (t : Bytes) (g : Nat) (hg : good t = true) (hv : validFilter t = true) :
    ((retainedOf mt t).map (fun r => normPub (retainedPub r g))).Perm
      (Mqtt.Spec.Broker.retainedFor { rets := rets } t g) := by
  obtain ⟨l, h1, h2⟩ := retained_char_good mt t h.wf hg hv
  simp only [retainedOf, h1, Option.getD_some]
  refine (h2.map _).trans ?_
  rw [List.map_map]
  -- through `retOf`
  let ψ' : List Level × Mqtt.Spec.Broker.Ret → Pub := fun x =>
    { qos := min x.2.qos g, retain := true, topic := x.2.topic, payload := x.2.payload }
  have e1 : ((absR mt.rroot).filter (fun e => matchLevels (split t) e.1)).map
        ((fun r => normPub (retainedPub r g)) ∘ (·.2)) =
      (((absR mt.rroot).map retOf).filter (fun x => matchLevels (split t) x.1)).map ψ' := by
    rw [List.filter_map, List.map_map]
    apply List.map_congr_left
    intro e he
    have hf := h.flag e (List.mem_filter.mp he).1
    simp only [Function.comp, normPub, retainedPub, retOf, ψ', hf]
  rw [e1]
  refine ((h.perm.filter _).map _).trans ?_
  rw [List.filter_map, List.map_map]
  unfold Mqtt.Spec.Broker.retainedFor
  exact List.Perm.refl _

/-! ### the in-process API against the specification's held set -/

theorem srvSub_held (b : B) (hinv : Inv b) (cb : Nat) (f : Bytes) (q : Nat) (hg : good f = true)
    (held : List Mqtt.Spec.Broker.Held) (hh : HeldInv b.topics.sroot held) :
    HeldInv (srvSub b cb f q).1.topics.sroot
      (if (!validFilter f || decide (q > 2)) = true then held
       else Mqtt.Spec.Broker.addHeld held cb f (min q Mqtt.Spec.Broker.maxQos)) := by
  rw [(srvSub_char b cb f q).2]
  have hp := subscribe_abs b.topics f q cb hinv.wf
  rw [accepts_good f q hg] at hp
  cases hv : validFilter f with
  | false =>
    simp only [hv, Bool.false_and, Bool.false_eq_true, ↓reduceIte] at hp
    simp only [Bool.not_false, Bool.true_or, ↓reduceIte]
    exact ⟨hp.trans hh.perm, hh.valid⟩
  | true =>
    by_cases hq : q ≤ 2
    · have hq' : ¬ q > 2 := by omega
      simp only [hv, hq, decide_true, Bool.and_self, ↓reduceIte] at hp
      simp only [Bool.not_true, hq', decide_false, Bool.or_self, Bool.false_eq_true, ↓reduceIte]
      rw [(Mqtt.Proofs.Topics.entryLevels_valid f hg hv).1] at hp
      refine ⟨(hp.trans (addEntry_perm _ _ _ _ _ hh.perm)).trans ?_, ?_⟩
      · rw [addEntry_held]; exact List.Perm.refl _
      · intro h hm
        simp only [Mqtt.Spec.Broker.addHeld, List.mem_append, List.mem_filter, List.mem_singleton] at hm
        rcases hm with hm | rfl
        · exact hh.valid h hm.1
        · exact hv
    · have hq' : q > 2 := by omega
      simp only [hv, hq, decide_false, Bool.and_false, Bool.false_eq_true, ↓reduceIte] at hp
      simp only [Bool.not_true, hq', decide_true, Bool.or_true, ↓reduceIte]
      exact ⟨hp.trans hh.perm, hh.valid⟩

theorem srvUnsub_held (b : B) (hinv : Inv b) (cb : Nat) (f : Bytes) (hg : good f = true)
    (held : List Mqtt.Spec.Broker.Held) (hh : HeldInv b.topics.sroot held) :
    HeldInv (srvUnsub b cb f).1.topics.sroot (held.filter (fun h => !(h.owner == cb && h.filter == f))) := by
  have hp := unsubscribe_abs b.topics f cb hinv.wf
  refine ⟨?_, fun h hm => hh.valid h (List.mem_filter.mp hm).1⟩
  show (abs (b.topics.unsubscribe f (some cb)).1.sroot).Perm _
  refine hp.trans ?_
  cases hv : validFilter f with
  | true =>
    obtain ⟨e1, e2⟩ := Mqtt.Proofs.Topics.entryLevels_valid f hg hv
    rw [e1, e2]
    simp only [↓reduceIte]
    rw [← delEntry_held]
    exact delEntry_perm _ _ _ _ hh.perm
  | false =>
    rw [Mqtt.Proofs.Topics.entryLevels_invalid f hg hv]
    simp only [Bool.false_eq_true, ↓reduceIte]
    have : held.filter (fun h => !(h.owner == cb && h.filter == f)) = held := by
      rw [List.filter_eq_self]
      intro h hm
      have : h.filter ≠ f := by intro hx; rw [← hx, hh.valid h hm] at hv; exact absurd hv (by simp)
      simp [this]
    rw [this]
    exact hh.perm

/-! ### which events can change the retained trie -/

theorem onPublish_topics (b : B) (m : Msg) : (onPublish b m).1.topics = (retainStep b m).1.topics := by
  unfold onPublish
  simp only
  split
  · rfl
  · exact (fanout_state _ _ _).1

/-- an event that carries no application message into the broker: everything
except PUBLISH, PUBREL (which releases stored QoS 2 messages), DISCONNECT and
connection end (which may publish the will), a CONNECT with a supplied client
identifier (it ends an existing connection of that client, MQTT-3.1.4-2, whose
will is then published) and the in-process `Publish` -/
def carriesNoMessage : Ev → Bool
  | .first _ (.connect req) _ => req.clientId.isEmpty
  | .first _ _ _ => true
  | .packet _ (.publish _) => false
  | .packet _ (.pubrel _) => false
  | .packet _ .disconnect => false
  | .packet _ _ => true
  | .close _ => false
  | .srvPub _ => false
  | .srvSub _ _ _ => true
  | .srvUnsub _ _ => true

theorem first_rroot (b : B) (hinv : Inv b) (c : Nat) (f : First) (a : Bool) :
    (first b c f a).1.topics.rroot = b.topics.rroot := by
  unfold first
  split
  · rfl
  · rfl
  · split
    · rfl
    · rfl
    · split
      · rfl
      · simp only
        split
        · exact (resubscribe_frame c _ _ hinv.wf).2
        · exact (resubscribe_frame c _ _ hinv.wf).2

theorem packet_rroot (b : B) (hinv : Inv b) (c : Nat) (p : Packet)
    (hp : carriesNoMessage (.packet c p) = true) : (packet b c p).1.topics.rroot = b.topics.rroot := by
  unfold packet
  split
  · rfl
  · split
    · rfl
    · split
      · rfl
      · rename_i cn _ s hs
        cases p with
        | publish pub => simp [carriesNoMessage] at hp
        | pubrel id => simp [carriesNoMessage] at hp
        | disconnect => simp [carriesNoMessage] at hp
        | subscribe id ts =>
          simp only
          rw [(sendRetained_shape c _ _).2.2.1, setSess_topics]
          exact (subscribeLoop_conns c ts b s [] []).2.2.2.1
        | unsubscribe id ts =>
          simp only [setSess_topics]
          exact (unsubFold_frame c ts b.topics hinv.wf).2
        | pubrec id => rfl
        | pingreq => rfl
        | puback _ => rfl
        | pubcomp _ => rfl
        | pingresp => rfl
        | suback _ _ => rfl
        | unsuback _ => rfl
        | connack _ _ => rfl
        | connectAgain => rfl

theorem step_rroot (b : B) (hinv : Inv b) (e : Ev) (he : carriesNoMessage e = true) :
    (step b e).1.topics.rroot = b.topics.rroot := by
  cases e with
  | first c f a =>
    have ht : takeOver b f a = (b, []) := by
      rcases Mqtt.Proofs.Connect.takeOver_cases b f a with h0 | ⟨req, rfl, _, _, hne, _⟩
      · exact h0
      · simp [carriesNoMessage, hne] at he
    rw [Mqtt.Proofs.Connect.step_first_eq, Mqtt.Proofs.Connect.connect_eq, ht]
    exact first_rroot b hinv c f a
  | packet c p => exact packet_rroot b hinv c p he
  | close c => simp [carriesNoMessage] at he
  | srvPub p => simp [carriesNoMessage] at he
  | srvSub cb f q =>
    simp only [step, (srvSub_char b cb f q).2]
    exact subscribe_rroot _ _ _ _ _
  | srvUnsub cb f => exact unsubscribe_rroot b.topics f (some cb)

end Mqtt.Proofs.Broker
