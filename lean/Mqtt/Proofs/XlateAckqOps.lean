import Mqtt.Proofs.XlateAckqBase
import Mqtt.Proofs.XlatePow2

namespace Mqtt.Proofs.XlateAckq

open Mqtt.Generated
open Mqtt.Generated.Xlate
open Mqtt.Model.AckQueue
open Mqtt.Proofs.AckQueue (Inv)
open Mqtt.Iface.AckQ

theorem ops_mapGet (m : List (UInt16 × Int)) (k : UInt16) :
    emapGet (m.map (fun p => (p.1.toNat, p.2.toNat))) k.toNat = (Go.mapGet m k).map Int.toNat := by
  induction m with
  | nil => rfl
  | cons p m ih =>
    obtain ⟨a, b⟩ := p
    unfold emapGet Go.mapGet at *
    simp only [List.map_cons, List.lookup_cons]
    by_cases h : k = a
    · subst h; simp
    · have h1 : (k == a) = false := by simp [h]
      have h2 : (k.toNat == a.toNat) = false := by
        simp only [beq_eq_false_iff_ne, ne_eq, UInt16.toNat_inj]; exact h
      simp only [h1, h2, ih]

theorem ops_mapDel (m : List (UInt16 × Int)) (k : UInt16) :
    (Go.mapDel m k).map (fun p => (p.1.toNat, p.2.toNat))
      = emapDel (m.map (fun p => (p.1.toNat, p.2.toNat))) k.toNat := by
  induction m with
  | nil => rfl
  | cons p m ih =>
    obtain ⟨a, b⟩ := p
    unfold emapDel Go.mapDel at *
    simp only [List.map_cons, List.filter_cons]
    by_cases h : a = k
    · subst h; simp [ih]
    · have h1 : (a != k) = true := by simp [h]
      have h2 : (a.toNat != k.toNat) = true := by
        simp only [bne_iff_ne, ne_eq, UInt16.toNat_inj]; exact h
      simp only [h1, h2, ih, if_true, List.map_cons]

theorem ops_mapSet (m : List (UInt16 × Int)) (k : UInt16) (v : Int) :
    (Go.mapSet m k v).map (fun p => (p.1.toNat, p.2.toNat))
      = emapSet (m.map (fun p => (p.1.toNat, p.2.toNat))) k.toNat v.toNat := by
  unfold Go.mapSet emapSet
  rw [List.map_cons, ops_mapDel]

theorem ops_mapDel_nonneg (m : List (UInt16 × Int)) (k : UInt16) (h : ∀ p ∈ m, 0 ≤ p.2) :
    ∀ p ∈ Go.mapDel m k, 0 ≤ p.2 := by
  intro p hp
  unfold Go.mapDel at hp
  exact h p (List.mem_filter.mp hp).1

theorem ops_mapSet_nonneg (m : List (UInt16 × Int)) (k : UInt16) (v : Int) (hv : 0 ≤ v)
    (h : ∀ p ∈ m, 0 ≤ p.2) : ∀ p ∈ Go.mapSet m k v, 0 ≤ p.2 := by
  intro p hp
  unfold Go.mapSet at hp
  rcases List.mem_cons.mp hp with rfl | hp
  · exact hv
  · exact ops_mapDel_nonneg m k h p hp

theorem ops_mapGet_nonneg (m : List (UInt16 × Int)) (k : UInt16) (i : Int) (h : ∀ p ∈ m, 0 ≤ p.2)
    (hg : Go.mapGet m k = some i) : 0 ≤ i := by
  induction m with
  | nil => cases hg
  | cons p m ih =>
    obtain ⟨a, b⟩ := p
    unfold Go.mapGet at hg ih
    rw [List.lookup_cons] at hg
    split at hg
    · cases hg; exact h (a, i) (by simp)
    · exact ih (fun p hp => h p (by simp [hp])) hg

/-- `aq.index n` on non-negative operands in range is the model's `&&&` -/
theorem ops_index (aq : Sessions.Ackqueue) (n : Int) (hn : 0 ≤ n) (hn' : n < 2 ^ 63)
    (hm : 0 ≤ aq.mask) (hm' : aq.mask < 2 ^ 64) :
    Sessions.Ackqueue.index aq n = ((n.toNat &&& aq.mask.toNat : Nat) : Int) := by
  unfold Sessions.Ackqueue.index
  have := Mqtt.Proofs.XlatePow2.andInt_natCast n.toNat aq.mask.toNat (by omega) (by omega)
  rw [← this]
  congr 1 <;> omega


theorem ops_absQ_get (aq : Sessions.Ackqueue) (i : Nat) :
    (absQ aq).get i = absMsg (aq.ring.getD i Sessions.AckMsg.zero) := by
  unfold Q.get absQ
  simp only [List.getD_eq_getElem?_getD, List.getElem?_map]
  cases aq.ring[i]? <;> rfl

/-- the part of the model's `Q.insert` after the optional `grow` -/
def opsJoin (q : Q) (mtype pktid : Nat) (enc : Option (List UInt8)) (tag : Nat) : Q :=
  match emapGet q.emap pktid with
  | some _ => q
  | none =>
    match enc with
    | none => q
    | some bytes =>
      let am : AckMsg := ⟨mtype, 0, pktid, bytes, [], tag⟩
      { q with ring := q.ring.set q.tail am,
               emap := emapSet q.emap pktid q.tail,
               tail := q.increment q.tail,
               count := q.count + 1 }

theorem ops_insert_eq (q : Q) (mtype pktid : Nat) (enc : Option (List UInt8)) (tag : Nat) :
    q.insert mtype pktid enc tag = opsJoin (if q.full then q.grow else q) mtype pktid enc tag := rfl

/-- the error `insert` returns (`Wait` ignores it): `known` = the identifier is already in the map -/
def insertErr (known : Bool) (msg : Message.Message) : Err :=
  if known then
    (if msg.dyn = "*message.PublishMessage" then (if msg.Dup then Err.dyn else Err.nil) else Err.dyn)
  else (msg.Encode (List.replicate msg.Len.toNat 0)).2.2

theorem ops_join1 (aq : Sessions.Ackqueue) (pktid : UInt16) (msg : Message.Message) (tag : Nat)
    (hw : GWf aq) (hi : Inv (absQ aq)) (hsz : aq.size ≤ 2 ^ 62)
    (hid : msg.PacketID = pktid) (hlen : 0 ≤ msg.Len) :
    ∃ aq', Sessions.Ackqueue.insert.join1 aq pktid msg tag
        = .ok (aq', insertErr (emapGet (absQ aq).emap pktid.toNat).isSome msg) ∧
      absQ aq' = opsJoin (absQ aq) msg.Type_.toNat pktid.toNat (encOf msg) tag ∧
      GWf aq' ∧ aq'.ackdone = aq.ackdone := by
  have hget := ops_mapGet aq.emap pktid
  have hemap : (absQ aq).emap = aq.emap.map (fun p => (p.1.toNat, p.2.toNat)) := rfl
  rw [← hemap] at hget
  unfold Sessions.Ackqueue.insert.join1
  cases hg : Go.mapGet aq.emap pktid with
  | some i =>
    rw [hg] at hget
    simp only [Option.map_some] at hget
    refine ⟨aq, ?_, ?_, hw, rfl⟩
    · simp only [Option.isSome_some, Bool.not_true, Bool.false_eq_true, ↓reduceIte, hget, insertErr]
      by_cases hd : msg.dyn = "*message.PublishMessage"
      · by_cases hdup : msg.Dup = true <;> simp [hd, hdup]
      · simp [hd]
    · unfold opsJoin; rw [hget]
  | none =>
    rw [hg] at hget
    simp only [Option.map_none] at hget
    simp only [Option.isSome_none, Bool.not_false, ↓reduceIte, hlen, decide_true, hget, insertErr,
      Bool.false_eq_true]
    by_cases he : (msg.Encode (List.replicate msg.Len.toNat 0)).2.2 = Err.nil
    · have htl : (absQ aq).tail < (absQ aq).size := Mqtt.Proofs.AckQueue.tail_lt hi
      have hlen' : (absQ aq).ring.length = (absQ aq).size := hi.len
      have hmask : (absQ aq).mask = (absQ aq).size - 1 := hi.mask
      have h0 := hw.tail
      have h1 := hw.size
      have h2 := hw.mask
      have h3 := hw.count
      simp only [absQ, List.length_map] at htl hlen' hmask
      have hb : (decide (0 ≤ aq.tail) && decide (aq.tail.toNat < aq.ring.length)) = true := by
        simp only [Bool.and_eq_true, decide_eq_true_eq]; omega
      have hinc : Sessions.Ackqueue.increment aq aq.tail
          = ((((aq.tail.toNat + 1) &&& aq.mask.toNat : Nat)) : Int) := by
        unfold Sessions.Ackqueue.increment
        rw [ops_index aq (aq.tail + 1) (by omega) (by omega) h2 (by omega)]
        congr 2; omega
      simp only [he, bne_self_eq_false, Bool.false_eq_true, ↓reduceIte, hb]
      refine ⟨_, rfl, ?_, ?_, rfl⟩
      · unfold opsJoin encOf
        rw [hget]
        simp only [he, ↓reduceIte]
        unfold Sessions.Ackqueue.increment Sessions.Ackqueue.index
        unfold Sessions.Ackqueue.increment Sessions.Ackqueue.index at hinc
        simp only [absQ, hinc, List.map_set, ops_mapSet, Q.increment, Q.index, Int.toNat_natCast]
        congr 1
        · omega
        · simp [absMsg, hid]
      · unfold Sessions.Ackqueue.increment Sessions.Ackqueue.index
        unfold Sessions.Ackqueue.increment Sessions.Ackqueue.index at hinc
        refine ⟨h1, h2, ?_, hw.head, ?_, ?_⟩
        · show 0 ≤ aq.count + 1; omega
        · show 0 ≤ Go.andInt 64 (aq.tail + 1) aq.mask
          rw [hinc]; omega
        · exact ops_mapSet_nonneg aq.emap pktid aq.tail h0 hw.emap
    · have hne : ((msg.Encode (List.replicate msg.Len.toNat 0)).2.2 != Err.nil) = true := by
        simp [he]
      simp only [hne, ↓reduceIte]
      refine ⟨aq, rfl, ?_, hw, rfl⟩
      unfold opsJoin encOf
      rw [hget]
      simp [he]


theorem ops_full (aq : Sessions.Ackqueue) (hw : GWf aq) :
    Sessions.Ackqueue.full aq = (absQ aq).full := by
  have h1 := hw.size
  have h2 := hw.count
  unfold Sessions.Ackqueue.full Q.full absQ
  rw [Bool.eq_iff_iff]
  simp only [beq_iff_eq]
  omega

theorem ops_empty (aq : Sessions.Ackqueue) (hw : GWf aq) :
    Sessions.Ackqueue.empty aq = (absQ aq).empty := by
  have h2 := hw.count
  unfold Sessions.Ackqueue.empty Q.empty absQ
  rw [Bool.eq_iff_iff]
  simp only [beq_iff_eq]
  omega

/-- **`insert` is the model's `Q.insert`.**  `e` (ignored by `Wait`): the `fmt.Errorf` values of the
duplicate branch / nil when the identifier is already in the map (after the optional `grow`), else
the error of `msg.Encode`. -/
theorem insert_is_source (hgrow : GrowSpec) (aq : Sessions.Ackqueue) (pktid : UInt16)
    (msg : Message.Message) (tag : Nat)
    (hw : GWf aq) (hi : Inv (absQ aq)) (hsz : aq.size ≤ 2 ^ 61)
    (hid : msg.PacketID = pktid) (hlen : 0 ≤ msg.Len) :
    ∃ aq', Sessions.Ackqueue.insert aq pktid msg tag
        = .ok (aq', insertErr (emapGet (if (absQ aq).full then (absQ aq).grow else absQ aq).emap
                  pktid.toNat).isSome msg) ∧
      absQ aq' = (absQ aq).insert msg.Type_.toNat pktid.toNat (encOf msg) tag ∧
      GWf aq' ∧ aq'.ackdone = aq.ackdone := by
  unfold Sessions.Ackqueue.insert
  rw [ops_insert_eq, ops_full aq hw]
  by_cases hf : (absQ aq).full = true
  · obtain ⟨aq1, hg, habs, hw1, hd1⟩ := hgrow aq hw hi hsz
    have hfull : (absQ aq).count = (absQ aq).size := by simpa [Q.full] using hf
    have hi1 : Inv (absQ aq1) := by rw [habs]; exact Mqtt.Proofs.AckQueue.grow_inv hi hfull
    have hs1 : aq1.size ≤ 2 ^ 62 := by
      have : (absQ aq1).size = (absQ aq).size * 2 := by rw [habs]; rfl
      have h1 := hw1.size
      have h2 := hw.size
      simp only [absQ] at this
      omega
    obtain ⟨aq', h1, h2, h3, h4⟩ := ops_join1 aq1 pktid msg tag hw1 hi1 hs1 hid hlen
    refine ⟨aq', ?_, ?_, h3, by rw [h4, hd1]⟩
    · simp only [hf, ↓reduceIte, hg, Res.bind, h1, habs]
    · simp only [hf, ↓reduceIte, h2, habs]
  · obtain ⟨aq', h1, h2, h3, h4⟩ := ops_join1 aq pktid msg tag hw hi (by omega) hid hlen
    refine ⟨aq', ?_, ?_, h3, h4⟩
    · simp only [hf, ↓reduceIte, h1, Bool.false_eq_true]
    · simp only [hf, ↓reduceIte, h2, Bool.false_eq_true]

end Mqtt.Proofs.XlateAckq
