/-
Core E, helper lemmas: the representation invariant of the broker model and
its preservation by `step`; the shape of the SUBSCRIBE / UNSUBSCRIBE steps
(codes, outputs).  Helper lemmas only - the property theorems are in
`Properties/C07.lean`, `C08.lean`, `C01.lean`.
-/
import Mqtt.Model.Broker
import Mqtt.Spec.Broker
import Mqtt.Proofs.TopicsRetainedHistory

set_option linter.unusedSimpArgs false

namespace Mqtt.Proofs.Broker
open Mqtt.Iface.Broker Mqtt.Model.Broker
open Mqtt.Model.Topics (MemTopics RMsg SNode RNode levels validQos Level)
open Mqtt.Proofs.Topics (WF RWF abs absR good entryLevels)

/-! ### bridge: the regenerated table against the protocol constant -/

theorem facts_maxQos : Mqtt.Generated.maxQosAllowed = Mqtt.Spec.Broker.maxQos := rfl
theorem facts_cbBase : Mqtt.Model.Broker.cbBase = Mqtt.Spec.Broker.cbBase := rfl

/-! ### the session / connection tables -/

theorem getSess_setSess_isSome (b : B) (s : Sess) (r : Nat)
    (h : (b.getSess r).isSome = true ∨ r = s.ref) : ((b.setSess s).getSess r).isSome = true := by
  unfold B.getSess B.setSess at *
  simp only [List.find?_isSome] at *
  by_cases hany : b.sess.any (fun x => x.ref == s.ref) = true
  · simp only [hany, ↓reduceIte]
    rcases h with ⟨x, hx, hr⟩ | rfl
    · by_cases hxs : x.ref == s.ref
      · exact ⟨s, List.mem_map.mpr ⟨x, hx, by simp [hxs]⟩, by
          have h1 : x.ref = r := by simpa using hr
          have h2 : x.ref = s.ref := by simpa using hxs
          simp [← h1, h2]⟩
      · exact ⟨x, List.mem_map.mpr ⟨x, hx, by simp [hxs]⟩, hr⟩
    · obtain ⟨x, hx, hr⟩ := List.any_eq_true.mp hany
      exact ⟨s, List.mem_map.mpr ⟨x, hx, by simp [hr]⟩, by simp⟩
  · simp only [hany, Bool.false_eq_true, ↓reduceIte, List.mem_append, List.mem_singleton]
    rcases h with ⟨x, hx, hr⟩ | rfl
    · exact ⟨x, Or.inl hx, hr⟩
    · exact ⟨s, Or.inr rfl, by simp⟩

@[simp] theorem setSess_conns (b : B) (s : Sess) : (b.setSess s).conns = b.conns := rfl
@[simp] theorem setSess_topics (b : B) (s : Sess) : (b.setSess s).topics = b.topics := rfl
@[simp] theorem setSess_ctr (b : B) (s : Sess) : (b.setSess s).ctr = b.ctr := rfl
@[simp] theorem storeDel_conns (b : B) (k : Bytes) : (b.storeDel k).conns = b.conns := rfl
@[simp] theorem storeDel_topics (b : B) (k : Bytes) : (b.storeDel k).topics = b.topics := rfl
@[simp] theorem storeDel_sess (b : B) (k : Bytes) : (b.storeDel k).sess = b.sess := rfl
@[simp] theorem storeSet_conns (b : B) (k : Bytes) (r : Nat) : (b.storeSet k r).conns = b.conns := rfl
@[simp] theorem storeSet_topics (b : B) (k : Bytes) (r : Nat) : (b.storeSet k r).topics = b.topics := rfl
@[simp] theorem storeSet_sess (b : B) (k : Bytes) (r : Nat) : (b.storeSet k r).sess = b.sess := rfl

theorem alive_congr (b b' : B) (h : b'.conns = b.conns) (c : Nat) : b'.alive c = b.alive c := by
  unfold B.alive B.getConn; rw [h]

theorem getSess_congr (b b' : B) (h : b'.sess = b.sess) (r : Nat) : b'.getSess r = b.getSess r := by
  unfold B.getSess; rw [h]

theorem alive_of_getConn (b : B) (c : Nat) (cn : Conn) (hc : b.getConn c = some cn) (ha : cn.alive = true) :
    b.alive c = true := by
  unfold B.alive; rw [hc]; exact ha

theorem getConn_of_alive (b : B) (c : Nat) (h : b.alive c = true) :
    ∃ cn, b.getConn c = some cn ∧ cn.alive = true ∧ cn ∈ b.conns ∧ cn.id = c := by
  unfold B.alive at h
  cases hc : b.getConn c with
  | none => rw [hc] at h; exact absurd h (by simp)
  | some cn =>
    rw [hc] at h
    refine ⟨cn, rfl, h, ?_, ?_⟩
    · exact List.mem_of_find?_eq_some hc
    · have := List.find?_some hc; simpa using this

/-! ### acceptance of a requested filter does not depend on the store -/

/-- `Subscribe` accepts (filter, QoS byte): the QoS byte is 0, 1 or 2, the
filter does not begin with '$' and its level walk ends without error
(`entryLevels t = levels t` unless `checkTopic t` - the topic is empty or begins
with '$' -, and then it is `([], false)`) -/
def accepts (t : Bytes) (q : Nat) : Bool := validQos q && (entryLevels t).2

theorem subscribe_snd (mt : MemTopics) (mq : Nat) (t : Bytes) (q c : Nat) :
    (mt.subscribe mq t q c).2 = if accepts t q then some (min q mq) else none := by
  rw [Mqtt.Proofs.Topics.subscribe_entry]
  unfold accepts
  cases hv : validQos q with
  | false => simp
  | true =>
    simp only [Bool.not_true, Bool.false_eq_true, ↓reduceIte, Bool.true_and]
    have hm : (if q > mq then mq else q) = min q mq := by
      by_cases h : q > mq
      · simp [h]; omega
      · simp [h]; omega
    rw [hm]

theorem subscribe_rroot (mt : MemTopics) (mq : Nat) (t : Bytes) (q c : Nat) :
    (mt.subscribe mq t q c).1.rroot = mt.rroot := by
  rw [Mqtt.Proofs.Topics.subscribe_entry]
  cases validQos q <;> rfl

theorem subscribe_sroot (mt : MemTopics) (mq : Nat) (t : Bytes) (q c : Nat) :
    (mt.subscribe mq t q c).1.sroot =
      if validQos q then mt.sroot.sinsertL (entryLevels t).1 (entryLevels t).2 c (min q mq) else mt.sroot := by
  rw [Mqtt.Proofs.Topics.subscribe_entry]
  cases hv : validQos q with
  | false => simp
  | true =>
    simp only [Bool.not_true, Bool.false_eq_true, ↓reduceIte]
    have hm : (if q > mq then mq else q) = min q mq := by
      by_cases h : q > mq
      · simp [h]; omega
      · simp [h]; omega
    rw [hm]

theorem unsubscribe_rroot (mt : MemTopics) (t : Bytes) (sub : Option Nat) :
    (mt.unsubscribe t sub).1.rroot = mt.rroot := by
  rw [Mqtt.Proofs.Topics.unsubscribe_entry]

theorem unsubscribe_sroot (mt : MemTopics) (t : Bytes) (sub : Option Nat) :
    (mt.unsubscribe t sub).1.sroot = (mt.sroot.sremoveL (entryLevels t).1 (entryLevels t).2 sub).1 := by
  rw [Mqtt.Proofs.Topics.unsubscribe_entry]

/-- the return code the model gives a requested (filter, QoS byte) -/
def modelCode (t : Bytes) (q : Nat) : Nat := if accepts t q then min q Mqtt.Generated.maxQosAllowed else 0x80

theorem accepts_good (t : Bytes) (q : Nat) (hg : good t = true) :
    accepts t q = (Mqtt.Spec.Match.validFilter t && decide (q ≤ 2)) := by
  unfold accepts
  rw [Mqtt.Proofs.Topics.validQos_iff, Mqtt.Proofs.Topics.entryLevels_good t hg]
  cases hv : Mqtt.Spec.Match.validFilter t with
  | true => rw [(Mqtt.Proofs.Topics.levels_valid t hg hv).2]; simp
  | false => rw [Mqtt.Proofs.Topics.levels_invalid t hg hv]; simp

theorem modelCode_good (t : Bytes) (q : Nat) (hg : good t = true) :
    modelCode t q = Mqtt.Spec.Broker.subCode t q := by
  unfold modelCode Mqtt.Spec.Broker.subCode
  rw [accepts_good t q hg, facts_maxQos]

/-- acceptance for every filter that does not begin with '$' - empty levels
(finding B3) and the empty filter (finding B6, repaired) included: the store
accepts exactly the valid filters -/
theorem accepts_not_dollar (t : Bytes) (q : Nat) (hd : Mqtt.Spec.Match.dollar t = false) :
    accepts t q = (Mqtt.Spec.Match.validFilter t && decide (q ≤ 2)) := by
  unfold accepts
  rw [Mqtt.Proofs.Topics.validQos_iff, Mqtt.Proofs.Topics.entryLevels_ok t, hd]
  cases Mqtt.Spec.Match.validFilter t <;> cases decide (q ≤ 2) <;> rfl

theorem modelCode_not_dollar (t : Bytes) (q : Nat) (hd : Mqtt.Spec.Match.dollar t = false) :
    modelCode t q = Mqtt.Spec.Broker.subCode t q := by
  unfold modelCode Mqtt.Spec.Broker.subCode
  rw [accepts_not_dollar t q hd, facts_maxQos]

/-! ### the SUBSCRIBE loop -/

theorem subscribeLoop_conns (c : Nat) (topics : List (Bytes × Nat)) :
    ∀ (b : B) (s : Sess) (codes : List Nat) (rms : List Msg),
      (subscribeLoop b c s topics codes rms).1.conns = b.conns ∧
      (subscribeLoop b c s topics codes rms).1.sess = b.sess ∧
      (subscribeLoop b c s topics codes rms).1.ctr = b.ctr ∧
      (subscribeLoop b c s topics codes rms).1.topics.rroot = b.topics.rroot ∧
      (subscribeLoop b c s topics codes rms).2.1.ref = s.ref := by
  induction topics with
  | nil => intro b s codes rms; exact ⟨rfl, rfl, rfl, rfl, rfl⟩
  | cons tq rest ih =>
    intro b s codes rms
    obtain ⟨t, q⟩ := tq
    unfold subscribeLoop
    have hr := subscribe_rroot b.topics Mqtt.Generated.maxQosAllowed t q c
    generalize b.topics.subscribe Mqtt.Generated.maxQosAllowed t q c = r at hr
    obtain ⟨ts, o⟩ := r
    cases o with
    | none =>
      simp only
      obtain ⟨h1, h2, h3, h4, h5⟩ := ih { b with topics := ts } s (codes ++ [0x80]) rms
      exact ⟨h1, h2, h3, h4.trans hr, h5⟩
    | some rq =>
      simp only
      obtain ⟨h1, h2, h3, h4, h5⟩ := ih { b with topics := ts }
        { s with topics := (t, q) :: s.topics.filter (fun p => p.1 != t) } (codes ++ [rq])
        (rms ++ (match ({ b with topics := ts } : B).topics.retained t with
          | none => []
          | some l => l.map (fun r =>
              let m : Msg := ⟨ofRMsg r, false⟩
              if r.qos > rq then m.setQoS rq else m)))
      exact ⟨h1, h2, h3, h4.trans hr, h5⟩

theorem subscribeLoop_codes (c : Nat) (topics : List (Bytes × Nat)) :
    ∀ (b : B) (s : Sess) (codes : List Nat) (rms : List Msg),
      (subscribeLoop b c s topics codes rms).2.2.1 = codes ++ topics.map (fun tq => modelCode tq.1 tq.2) := by
  induction topics with
  | nil => intro b s codes rms; simp [subscribeLoop]
  | cons tq rest ih =>
    intro b s codes rms
    obtain ⟨t, q⟩ := tq
    unfold subscribeLoop
    have hr := subscribe_snd b.topics Mqtt.Generated.maxQosAllowed t q c
    generalize b.topics.subscribe Mqtt.Generated.maxQosAllowed t q c = r at hr
    obtain ⟨ts, o⟩ := r
    simp only at hr
    cases o with
    | none =>
      simp only
      rw [ih]
      have ha : accepts t q = false := by
        cases h : accepts t q with
        | false => rfl
        | true => rw [h] at hr; simp at hr
      simp [modelCode, ha]
    | some rq =>
      simp only
      rw [ih]
      have ha : accepts t q = true ∧ rq = min q Mqtt.Generated.maxQosAllowed := by
        cases h : accepts t q with
        | false => rw [h] at hr; simp at hr
        | true => rw [h] at hr; simp at hr; exact ⟨rfl, hr⟩
      simp [modelCode, ha.1, ha.2]

/-! ### retained delivery after the SUBACK -/

/-- a PUBLISH written to connection `c` -/
def isPublishTo (c : Nat) : Out → Bool
  | .send d (.publish _) => d == c
  | _ => false

theorem sendRetained_shape (c : Nat) (rms : List Msg) :
    ∀ b : B, (sendRetained b c rms).1.conns = b.conns ∧ (sendRetained b c rms).1.sess = b.sess ∧
      (sendRetained b c rms).1.topics = b.topics ∧
      ∀ o ∈ (sendRetained b c rms).2, isPublishTo c o = true := by
  induction rms with
  | nil => intro b; simp [sendRetained]
  | cons m rest ih =>
    intro b
    unfold sendRetained
    cases ha : b.alive c with
    | false => simp
    | true =>
      simp only [Bool.not_true, Bool.false_eq_true, ↓reduceIte]
      cases he : m.encode b.ctr with
      | none => simp
      | some r =>
        obtain ⟨wire, m', ctr⟩ := r
        simp only
        obtain ⟨h1, h2, h3, h4⟩ := ih { b with ctr := ctr }
        refine ⟨h1, h2, h3, ?_⟩
        intro o ho
        simp only [List.mem_cons] at ho
        rcases ho with rfl | ho
        · simp [isPublishTo]
        · exact h4 o ho

/-! ### the SUBSCRIBE and UNSUBSCRIBE steps, unfolded -/

theorem packet_subscribe (b : B) (c : Nat) (cn : Conn) (s : Sess) (id : Nat) (topics : List (Bytes × Nat))
    (hc : b.getConn c = some cn) (ha : cn.alive = true) (hs : b.getSess cn.sess = some s) :
    packet b c (.subscribe id topics) =
      ((sendRetained ((subscribeLoop b c s topics [] []).1.setSess (subscribeLoop b c s topics [] []).2.1) c
          (subscribeLoop b c s topics [] []).2.2.2).1,
       send ((subscribeLoop b c s topics [] []).1.setSess (subscribeLoop b c s topics [] []).2.1) c
          (.suback id (subscribeLoop b c s topics [] []).2.2.1) ++
       (sendRetained ((subscribeLoop b c s topics [] []).1.setSess (subscribeLoop b c s topics [] []).2.1) c
          (subscribeLoop b c s topics [] []).2.2.2).2) := by
  unfold packet
  simp only [hc, ha, hs, Bool.not_true, Bool.false_eq_true, ↓reduceIte]

theorem packet_unsubscribe (b : B) (c : Nat) (cn : Conn) (s : Sess) (id : Nat) (topics : List Bytes)
    (hc : b.getConn c = some cn) (ha : cn.alive = true) (hs : b.getSess cn.sess = some s) :
    packet b c (.unsubscribe id topics) =
      (({ b with topics := topics.foldl (fun ts t => (ts.unsubscribe t (some c)).1) b.topics }).setSess
          { s with topics := s.topics.filter (fun p => !topics.contains p.1) },
       send b c (.unsuback id)) := by
  unfold packet
  simp only [hc, ha, hs, Bool.not_true, Bool.false_eq_true, ↓reduceIte]

/-! ### the fan-out loop -/

/-- what connection `d` is sent for message `p` at effective QoS `q`: the
publisher's DUP bit and packet identifier (none at QoS 0), RETAIN cleared,
topic and payload as received -/
def fwdConn (p : Pub) (q : Nat) : Pub :=
  { dup := p.dup, qos := q, retain := false, topic := p.topic, pktid := if q = 0 then 0 else p.pktid, payload := p.payload }

theorem encode_plain (m : Msg) (ctr : Nat) (ht : m.p.topic ≠ []) (hid : m.p.pktid ≠ 0 ∨ m.p.qos = 0) :
    m.encode ctr = some ({ m.p with pktid := if m.p.qos = 0 then 0 else m.p.pktid }, m, ctr) := by
  obtain ⟨⟨dup, qos, retain, topic, pktid, payload⟩, dirty⟩ := m
  simp only at ht hid
  unfold Msg.encode
  have hte : topic.isEmpty = false := by cases topic <;> simp_all
  cases dirty with
  | false =>
    by_cases hq : qos = 0 <;> simp [hq]
  | true =>
    simp only [Bool.not_true, Bool.false_eq_true, ↓reduceIte, hte]
    by_cases hq : qos = 0
    · simp [hq]
    · have hp : pktid ≠ 0 := by rcases hid with h | h; exact h; exact absurd h hq
      simp [hq, hp]

theorem deliverConn_char (b : B) (d : Nat) (m : Msg) (hal : b.alive d = true) (ht : m.p.topic ≠ [])
    (hid : m.p.pktid ≠ 0 ∨ m.p.qos = 0) :
    deliverConn b d m = (b, m, [.send d (.publish (fwdConn m.p m.p.qos))]) := by
  obtain ⟨⟨dup, qos, retain, topic, pktid, payload⟩, dirty⟩ := m
  simp only at ht hid
  unfold deliverConn
  simp only [hal, Bool.not_true, Bool.false_eq_true, ↓reduceIte]
  cases retain with
  | false =>
    simp only [Bool.false_eq_true, ↓reduceIte]
    rw [encode_plain _ b.ctr ht hid]
    rfl
  | true =>
    simp only [↓reduceIte]
    rw [encode_plain _ b.ctr ht hid]
    rfl

/-- what the loop hands subscriber `sq.1` for a message object with fields `p`
at effective QoS `sq.2`: a connection is sent `fwdConn`; an in-process callback
is called with the object as it is at that moment (the live fan-out clears the
RETAIN flag before the loop: `fanoutLive_char`) -/
def fwd (p : Pub) (sq : Nat × Nat) : Out :=
  if sq.1 < cbBase then .send sq.1 (.publish (fwdConn p sq.2)) else .call sq.1 { p with qos := sq.2 }

theorem fwd_qos (p : Pub) (q : Nat) (sq : Nat × Nat) : fwd { p with qos := q } sq = fwd p sq := rfl

theorem setQoS_p (m : Msg) (q : Nat) : (m.setQoS q).p = { m.p with qos := q } := rfl

/-- (d) the fan-out loop, for a message that has an identifier or needs none,
and a subscriber list whose connections are all alive: outputs in list order,
one per entry; the broker state is unchanged; of the message object only the
QoS field (and `dirty`) differs afterwards. -/
theorem fanout_char (subs : List (Nat × Nat)) :
    ∀ (b : B) (m : Msg), m.p.topic ≠ [] → (m.p.pktid ≠ 0 ∨ ∀ sq ∈ subs, sq.2 = 0) →
      (∀ sq ∈ subs, sq.1 < cbBase → b.alive sq.1 = true) →
      (fanout b m subs).1 = b ∧
      (fanout b m subs).2.1.p = { m.p with qos := subs.foldl (fun _ sq => sq.2) m.p.qos } ∧
      (fanout b m subs).2.2 = subs.map (fwd m.p) := by
  induction subs with
  | nil => intro b m _ _ _; exact ⟨rfl, rfl, rfl⟩
  | cons sq rest ih =>
    intro b m ht hid hal
    obtain ⟨s, eqos⟩ := sq
    have hid' : (m.setQoS eqos).p.pktid ≠ 0 ∨ ∀ sq ∈ rest, sq.2 = 0 := by
      rcases hid with h | h
      · exact Or.inl h
      · exact Or.inr (fun sq hsq => h sq (List.mem_cons_of_mem _ hsq))
    have hal' : ∀ sq ∈ rest, sq.1 < cbBase → b.alive sq.1 = true :=
      fun sq hsq => hal sq (List.mem_cons_of_mem _ hsq)
    unfold fanout
    by_cases hs : s < cbBase
    · have hd := deliverConn_char b s (m.setQoS eqos) (hal (s, eqos) (by simp) hs) ht (by
        rcases hid with h | h
        · exact Or.inl h
        · exact Or.inr (h (s, eqos) (by simp)))
      simp only [hs, ↓reduceIte, hd]
      obtain ⟨h1, h2, h3⟩ := ih b (m.setQoS eqos) ht hid' hal'
      refine ⟨h1, ?_, ?_⟩
      · rw [h2]; rfl
      · rw [h3]
        simp only [List.map_cons, setQoS_p, fwd_qos]
        simp [fwd, hs, fwdConn]
    · simp only [hs, ↓reduceIte]
      obtain ⟨h1, h2, h3⟩ := ih b (m.setQoS eqos) ht hid' hal'
      refine ⟨h1, ?_, ?_⟩
      · rw [h2]; rfl
      · rw [h3]
        simp only [List.map_cons, setQoS_p, fwd_qos]
        simp [fwd, hs, fwdConn]

/-- the message object the live fan-out runs the loop over -/
theorem loopMsg_eq (m : Msg) :
    (if m.p.retain then m.setRetain false else m) = ⟨{ m.p with retain := false }, m.dirty⟩ := by
  obtain ⟨⟨dup, qos, retain, topic, pktid, payload⟩, dirty⟩ := m
  cases retain <;> rfl

/-- (d) the live fan-out of `onPublish` / `Server.Publish` (RETAIN cleared before
the loop, restored after it), for a message that has an identifier or needs
none, and a subscriber list whose connections are all alive: outputs in list
order, one per entry, RETAIN = 0 for connections and in-process callbacks
alike; the broker state is unchanged; of the message object only the QoS field
(and `dirty`) differs afterwards - RETAIN is as it was. -/
theorem fanoutLive_char (subs : List (Nat × Nat)) (b : B) (m : Msg) (ht : m.p.topic ≠ [])
    (hid : m.p.pktid ≠ 0 ∨ ∀ sq ∈ subs, sq.2 = 0)
    (hal : ∀ sq ∈ subs, sq.1 < cbBase → b.alive sq.1 = true) :
    (fanoutLive b m subs).1 = b ∧
    (fanoutLive b m subs).2.1.p = { m.p with qos := subs.foldl (fun _ sq => sq.2) m.p.qos } ∧
    (fanoutLive b m subs).2.2 = subs.map (fwd { m.p with retain := false }) := by
  obtain ⟨h1, h2, h3⟩ := fanout_char subs b ⟨{ m.p with retain := false }, m.dirty⟩ ht hid hal
  unfold fanoutLive
  simp only
  rw [loopMsg_eq]
  refine ⟨h1, ?_, h3⟩
  obtain ⟨⟨dup, qos, retain, topic, pktid, payload⟩, dirty⟩ := m
  cases retain with
  | false => simp only [Bool.false_eq_true, ↓reduceIte]; rw [h2]
  | true => simp only [↓reduceIte, Msg.setRetain]; rw [h2]

/-! ### the representation invariant -/

/-- Representation invariant of the broker model: both tries have unique map
keys at every node (they are Go maps) and one entry per subscriber and node;
every stored retained message has its RETAIN flag set; every live connection's
session reference resolves to a session object. -/
structure Inv (b : B) : Prop where
  wf : WF b.topics.sroot
  rwf : RWF b.topics.rroot
  rflag : ∀ e ∈ absR b.topics.rroot, e.2.retain = true
  sess : ∀ cn ∈ b.conns, cn.alive = true → (b.getSess cn.sess).isSome = true

theorem Inv_init : Inv {} :=
  ⟨Mqtt.Proofs.Topics.WF_empty, Mqtt.Proofs.Topics.RWF_empty,
   by intro e h; simp [MemTopics.new, Mqtt.Proofs.Topics.absR_empty] at h, by intro cn h; cases h⟩

/-- a live connection of a state satisfying the invariant: its table entry and its session -/
theorem Inv.live (b : B) (h : Inv b) (c : Nat) (hl : b.alive c = true) :
    ∃ cn s, b.getConn c = some cn ∧ cn.alive = true ∧ b.getSess cn.sess = some s := by
  obtain ⟨cn, hc, ha, hm, _⟩ := getConn_of_alive b c hl
  have := h.sess cn hm ha
  cases hs : b.getSess cn.sess with
  | none => rw [hs] at this; exact absurd this (by simp)
  | some s => exact ⟨cn, s, hc, ha, hs⟩

end Mqtt.Proofs.Broker
