/-
An accepted CONNECT, part 1: transfer of `R` when a new live connection appears
(`R_connect`), the re-subscription of a stored session against the reference
broker's `addHeld` loop, and the reference broker's step in closed form.
-/
import Mqtt.Proofs.BrokerRefineEnd

set_option linter.unusedSimpArgs false

namespace Mqtt.Proofs.BrokerRefine
open Mqtt.Iface.Broker Mqtt.Model.Broker
open Mqtt.Model.Topics (MemTopics RMsg RNode)
open Mqtt.Proofs.Topics (WF RWF abs absR good entryLevels)
open Mqtt.Spec.Match (split validName validFilter topicMatches)
open Mqtt.Proofs.Broker (HeldInv RetInv heldEntry accepts specSubHeld)
open Mqtt.Proofs.BrokerQos (toOpen2)
open Mqtt.Spec.Broker (Accepts SOut Held addHeld subCode)

/-! ### a new live connection -/

theorem R_connect {b b' : B} {s s' : Spec.Broker.S} (h : R b s) {c : Nat} {σ' : Sess} {k' : Spec.Broker.Conn}
    (hclt : c < cbBase) (hdead : b.alive c = false)
    (inv' : Mqtt.Proofs.Broker.Inv b') (linv' : Mqtt.Proofs.BrokerLife.Inv b') (qinv' : Mqtt.Proofs.BrokerQos.BInv b')
    (hls : ∀ c', liveSess b' c' = if c' = c then some σ' else liveSess b c')
    (hal : ∀ c', b'.alive c' = if c' = c then true else b.alive c')
    (hrr : b'.topics.rroot = b.topics.rroot)
    (hheld : HeldInv b'.topics.sroot s'.held) (hgood : ∀ x ∈ s'.held, good x.filter = true)
    (hown : ∀ x ∈ s'.held, x.owner < cbBase → x.owner ≠ c → b.alive x.owner = true)
    (hother : ∀ c', c' ≠ c → Spec.Broker.heldOf s' c' = Spec.Broker.heldOf s c')
    (hrets : s'.rets = s.rets)
    (hmnd : (b'.conns.map (·.id)).Nodup) (hnd : (s'.conns.map (·.id)).Nodup)
    (hgc : ∀ c', Spec.Broker.getConn s' c' = if c' = c then some k' else Spec.Broker.getConn s c')
    (hrel : LiveRel b' s' c σ' k')
    (hcidfree : ∀ c' τ, liveSess b c' = some τ → τ.cid ≠ σ'.cid)
    (hstoreget : ∀ x, x ≠ σ'.cid → b'.storeGet x = b.storeGet x)
    (hresum : ∀ x, realCid x = true → x ≠ σ'.cid → resumable b' x = resumable b x)
    (hlookup : ∀ x, realCid x = true → x ≠ σ'.cid → s'.stored.lookup x = s.stored.lookup x) : R b' s' := by
  refine ⟨inv', linv', qinv', hheld, hgood, ?_, by rw [hrr, hrets]; exact h.rets,
    by rw [hrets]; exact h.retsOk, by unfold IdsOk; rw [hrr]; exact h.retIds, ?_, hmnd, hnd, ?_, ?_, ?_, ?_⟩
  · intro x hx hlt
    rw [hal]
    by_cases he : x.owner = c
    · simp [he]
    · simp only [he, ↓reduceIte]; exact hown x hx hlt he
  · intro c' hc'
    rw [hal] at hc'
    by_cases he : c' = c
    · rw [he]; exact hclt
    · simp only [he, ↓reduceIte] at hc'; exact h.connLt c' hc'
  · intro c'
    rw [hal, hgc]
    by_cases he : c' = c
    · simp [he]
    · simp only [he, ↓reduceIte]; exact h.connsIff c'
  · intro c' τ hτ
    rw [hls] at hτ
    rw [hgc]
    by_cases he : c' = c
    · subst he
      simp only [↓reduceIte, Option.some.injEq] at hτ ⊢
      subst hτ
      exact ⟨k', rfl, hrel⟩
    · simp only [he, ↓reduceIte] at hτ ⊢
      obtain ⟨k0, hk0, r0⟩ := h.live c' τ hτ
      refine ⟨k0, hk0, r0.cid, r0.clean, r0.willFlag, r0.will, r0.willOk, r0.open2, r0.q2ok, ?_, ?_⟩
      · rw [hother c' he]; exact r0.topics
      · rw [hstoreget _ (hcidfree c' τ hτ)]; exact r0.store
  · intro c1 c2 τ1 τ2 h1 h2 hcid
    rw [hls] at h1 h2
    by_cases e1 : c1 = c
    · by_cases e2 : c2 = c
      · rw [e1, e2]
      · simp only [e1, e2, ↓reduceIte, Option.some.injEq] at h1 h2
        subst h1
        exact absurd hcid.symm (hcidfree c2 τ2 h2)
    · by_cases e2 : c2 = c
      · simp only [e1, e2, ↓reduceIte, Option.some.injEq] at h1 h2
        subst h2
        exact absurd hcid (hcidfree c1 τ1 h1)
      · simp only [e1, e2, ↓reduceIte] at h1 h2
        exact h.cidUniq c1 c2 τ1 τ2 h1 h2 hcid
  · intro x hx hfree
    have hxne : x ≠ σ'.cid := by
      have := hfree c σ' (by rw [hls]; simp)
      exact fun e => this e.symm
    have hfree0 : ∀ c' τ, liveSess b c' = some τ → τ.cid ≠ x := by
      intro c' τ hτ
      by_cases he : c' = c
      · subst he
        have := liveSess_alive hτ
        rw [hdead] at this; cases this
      · exact hfree c' τ (by rw [hls]; simp [he, hτ])
    exact (h.stored x hx hfree0).congr (hresum x hx hxne) (hlookup x hx hxne)

/-! ### the `addHeld` loops on a connection that holds nothing yet -/

def mkHeld (c : Nat) (p : Bytes × Nat) : Held := ⟨c, p.1, p.2⟩

theorem addHeld_fresh (held : List Held) (c : Nat) (t : Bytes) (g : Nat)
    (h : ∀ x ∈ held, x.owner = c → x.filter ≠ t) : addHeld held c t g = held ++ [⟨c, t, g⟩] := by
  unfold addHeld
  congr 1
  rw [List.filter_eq_self]
  intro x hx
  by_cases hc : x.owner = c
  · have := h x hx hc
    simp [hc, this]
  · simp [hc]

theorem foldl_addHeld_fresh (c : Nat) : ∀ (l : List (Bytes × Nat)) (held : List Held), (l.map (·.1)).Nodup →
    (∀ x ∈ held, x.owner = c → x.filter ∉ l.map (·.1)) →
    l.foldl (fun h p => addHeld h c p.1 p.2) held = held ++ l.map (mkHeld c) := by
  intro l
  induction l with
  | nil => intro held _ _; simp
  | cons p rest ih =>
    intro held hnd hfree
    obtain ⟨t, q⟩ := p
    simp only [List.map_cons, List.nodup_cons] at hnd
    simp only [List.foldl_cons]
    rw [addHeld_fresh held c t q (fun x hx hc => fun e => hfree x hx hc (by simp [e]))]
    rw [ih _ hnd.2]
    · simp [mkHeld]
    · intro x hx hc
      rcases List.mem_append.mp hx with hx | hx
      · intro hm; exact hfree x hx hc (List.mem_cons_of_mem _ hm)
      · simp only [List.mem_singleton] at hx; subst hx; exact hnd.1

theorem subCode_ok (p : Bytes × Nat) (h : subOk p = true) : subCode p.1 p.2 = p.2 ∧ (subCode p.1 p.2 != 0x80) = true := by
  simp only [subOk, Bool.and_eq_true, decide_eq_true_eq] at h
  obtain ⟨⟨_, hv⟩, hq⟩ := h
  unfold subCode Spec.Broker.maxQos
  simp only [hv, hq, decide_true, Bool.and_self, ↓reduceIte]
  have : min p.2 2 = p.2 := by omega
  rw [this]
  exact ⟨rfl, by simp; omega⟩

theorem specSubHeld_fresh (c : Nat) : ∀ (l : List (Bytes × Nat)) (held : List Held), (l.map (·.1)).Nodup →
    (∀ p ∈ l, subOk p = true) → (∀ x ∈ held, x.owner = c → x.filter ∉ l.map (·.1)) →
    specSubHeld c l held = held ++ l.map (mkHeld c) := by
  intro l
  induction l with
  | nil => intro held _ _ _; simp [specSubHeld]
  | cons p rest ih =>
    intro held hnd hok hfree
    obtain ⟨t, q⟩ := p
    simp only [List.map_cons, List.nodup_cons] at hnd
    obtain ⟨c1, c2⟩ := subCode_ok (t, q) (hok _ (List.mem_cons_self ..))
    simp only at c1 c2
    simp only [specSubHeld, List.foldl_cons]
    rw [if_pos c2, c1]
    rw [addHeld_fresh held c t q (fun x hx hc => fun e => hfree x hx hc (by simp [e]))]
    have := ih (held ++ [⟨c, t, q⟩]) hnd.2 (fun p hp => hok p (List.mem_cons_of_mem _ hp)) (by
      intro x hx hc
      rcases List.mem_append.mp hx with hx | hx
      · intro hm; exact hfree x hx hc (List.mem_cons_of_mem _ hm)
      · simp only [List.mem_singleton] at hx; subst hx; exact hnd.1)
    simp only [specSubHeld] at this
    rw [this]
    simp [mkHeld]

theorem heldOfL_append (a b : List Held) (o : Nat) : heldOfL (a ++ b) o = heldOfL a o ++ heldOfL b o := by
  simp [heldOfL]

theorem heldOfL_mkHeld_self (c : Nat) (l : List (Bytes × Nat)) : heldOfL (l.map (mkHeld c)) c = l := by
  induction l with
  | nil => rfl
  | cons p rest ih =>
    simp only [heldOfL, List.map_cons, List.filter_cons, mkHeld, BEq.rfl, ↓reduceIte] at ih ⊢
    rw [ih]

theorem heldOfL_mkHeld_ne (c o : Nat) (l : List (Bytes × Nat)) (h : o ≠ c) : heldOfL (l.map (mkHeld c)) o = [] := by
  unfold heldOfL
  rw [List.map_eq_nil_iff, List.filter_eq_nil_iff]
  intro x hx
  obtain ⟨p, _, rfl⟩ := List.mem_map.mp hx
  simp only [mkHeld, beq_iff_eq]
  exact fun e => h e.symm

/-- `resubscribe` against the trie's entries -/
theorem resubscribe_abs (c : Nat) (l : List (Bytes × Nat)) : ∀ ts : MemTopics, WF ts.sroot →
    (abs (resubscribe ts c l).sroot).Perm (Mqtt.Proofs.Broker.entriesAfterSub c l (abs ts.sroot)) := by
  induction l with
  | nil => intro ts _; exact List.Perm.refl _
  | cons tq rest ih =>
    intro ts h
    obtain ⟨t, q⟩ := tq
    simp only [resubscribe, Mqtt.Proofs.Broker.entriesAfterSub, List.foldl_cons]
    have hw := Mqtt.Proofs.Broker.subscribe_WF ts Mqtt.Generated.maxQosAllowed t q c h
    have ha := Mqtt.Proofs.Broker.subscribe_abs ts t q c h
    exact (ih _ hw).trans (Mqtt.Proofs.Broker.entriesAfterSub_perm c rest _ _ ha)

/-! ### the side condition, unfolded -/

theorem cidFree_spec {b : B} {cid : Bytes} (h : cidFree b cid = true) {c : Nat} {τ : Sess}
    (hl : liveSess b c = some τ) : τ.cid ≠ cid := by
  obtain ⟨cn, hc, ha, hs⟩ := liveSess_some hl
  have hm : cn ∈ b.conns := by unfold B.getConn at hc; exact List.mem_of_find?_eq_some hc
  unfold cidFree at h
  rw [List.all_eq_true] at h
  have := h cn hm
  simp only [ha, Bool.not_true, Bool.false_or, hs, bne_iff_ne, ne_eq] at this
  exact this

theorem realCid_of_accepts {req : Connect} {a : Bool} (h : Mqtt.Proofs.BrokerLife.accepts (.connect req) a = true)
    (hne : req.clientId.isEmpty = false) : realCid req.clientId = true := by
  simp only [Mqtt.Proofs.BrokerLife.accepts, Bool.and_eq_true, Bool.not_eq_true'] at h
  have hid := h.1.2
  simp only [Mqtt.Proofs.BrokerLife.idBad, hne, Bool.false_and, Bool.not_false, Bool.true_and, Bool.false_or,
    Bool.not_eq_false', Bool.and_eq_true, decide_eq_true_eq] at hid
  unfold realCid
  simp only [hne, Bool.not_false, Bool.true_and]
  exact hid.1

/-! ### the reference broker's accepted CONNECT in closed form -/

def specCid (c : Nat) (req : Connect) : Bytes := if req.clientId.isEmpty then anonSpec c else req.clientId
def specClean (req : Connect) : Bool := req.clean || req.clientId.isEmpty

theorem spec_first_resumed (s : Spec.Broker.S) (c : Nat) (req : Connect) (a : Bool)
    (h : Spec.Broker.refusals req a = []) (subs : List (Bytes × Nat)) (o2 : List (Nat × Bool × Pub))
    (hcl : specClean req = false) (hl : s.stored.lookup (specCid c req) = some (subs, o2)) :
    Spec.Broker.first s c (.connect req) a =
      ({ held := subs.foldl (fun h p => addHeld h c p.1 p.2) s.held, rets := s.rets,
         stored := (specCid c req, (subs, o2)) :: s.stored.filter (fun p => p.1 != specCid c req),
         conns := s.conns.filter (fun (x : Spec.Broker.Conn) => x.id != c) ++ [⟨c, specCid c req, false, req.will, o2⟩] },
       [.send c (.connack true 0)]) := by
  unfold specClean at hcl
  unfold specCid anonSpec at hl ⊢
  simp only [Spec.Broker.first, h, List.isEmpty_nil, Bool.not_true, Bool.false_eq_true, ↓reduceIte, hcl, hl,
    Option.getD_some, Option.isSome_some, Spec.Broker.setConn]

theorem spec_first_fresh (s : Spec.Broker.S) (c : Nat) (req : Connect) (a : Bool)
    (h : Spec.Broker.refusals req a = [])
    (hp : specClean req = true ∨ s.stored.lookup (specCid c req) = none) :
    Spec.Broker.first s c (.connect req) a =
      ({ held := s.held, rets := s.rets,
         stored := if specClean req then s.stored.filter (fun p => p.1 != specCid c req)
                   else (specCid c req, ([], [])) :: s.stored.filter (fun p => p.1 != specCid c req),
         conns := s.conns.filter (fun (x : Spec.Broker.Conn) => x.id != c) ++ [⟨c, specCid c req, specClean req, req.will, []⟩] },
       [.send c (.connack false 0)]) := by
  unfold specClean at hp ⊢
  unfold specCid anonSpec at hp ⊢
  cases hcl : (req.clean || req.clientId.isEmpty) with
  | true =>
    simp only [Spec.Broker.first, h, List.isEmpty_nil, Bool.not_true, Bool.false_eq_true, ↓reduceIte, hcl,
      Option.getD_none, Option.isSome_none, Spec.Broker.setConn, List.foldl_nil]
  | false =>
    rw [hcl] at hp
    have hl := hp.resolve_left (by simp)
    simp only [Spec.Broker.first, h, List.isEmpty_nil, Bool.not_true, Bool.false_eq_true, ↓reduceIte, hcl, hl,
      Option.getD_none, Option.isSome_none, Spec.Broker.setConn, List.foldl_nil]

end Mqtt.Proofs.BrokerRefine
