/-
`copied dst src s`: the ring `dst` after `ringCopy(dst, src, s)`, written out as a list expression,
with its length and position lemmas.  Plain list facts: nothing here depends on the regenerated
translation.  Moved unchanged out of `Proofs/XlateRingCopy.lean` (the namespace is kept so that the
names stay `Mqtt.Proofs.XlateRingCopy.copied…`), so that the model side of C17 (`Proofs/WriteWrapRing`:
`ringPut = copied`) is not built from `Mqtt.Generated.Xlate`.  That `service.ringCopy` returns
`copied` is `XlateRingCopy.ringCopy_eq` (translation side).  `copied_spec` is new: the position part
of `XlateRingCopy.ringCopy_spec` for `copied` alone, which `WriteWrap.ringPut_spec` used to obtain
through the translated function.
-/

namespace Mqtt.Proofs.XlateRingCopy

/-- `dst` after `ringCopy dst src s`, written out -/
def copied (dst src : List UInt8) (s : Nat) : List UInt8 :=
  if src.length ≤ dst.length - s then dst.take s ++ (src ++ dst.drop (s + src.length))
  else src.drop (dst.length - s) ++
    ((dst.take s).drop (src.length - (dst.length - s)) ++ src.take (dst.length - s))

theorem copied_length (dst src : List UInt8) (s : Nat)
    (hS : src.length ≤ dst.length) (hs : s ≤ dst.length) :
    (copied dst src s).length = dst.length := by
  unfold copied
  split <;> simp <;> omega

/-- position by position, without `%` -/
theorem copied_getElem? (dst src : List UInt8) (s : Nat)
    (hS : src.length ≤ dst.length) (hs : s ≤ dst.length) (p : Nat) (hp : p < dst.length) :
    (copied dst src s)[p]? =
      if s ≤ p ∧ p < s + src.length then src[p - s]?
      else if p + dst.length < s + src.length then src[p + dst.length - s]?
      else dst[p]? := by
  unfold copied
  by_cases hc : src.length ≤ dst.length - s
  · rw [if_pos hc]
    by_cases h1 : p < s
    · rw [List.getElem?_append_left (by simp; omega), List.getElem?_take_of_lt h1,
        if_neg (by omega), if_neg (by omega)]
    · rw [List.getElem?_append_right (by simp; omega)]
      have hl : (List.take s dst).length = s := by simp; omega
      rw [hl]
      by_cases h2 : p < s + src.length
      · rw [List.getElem?_append_left (by omega), if_pos ⟨by omega, h2⟩]
      · rw [List.getElem?_append_right (by omega), List.getElem?_drop,
          if_neg (by omega), if_neg (by omega)]
        congr 1; omega
  · rw [if_neg hc]
    have hl1 : (List.drop (dst.length - s) src).length = src.length - (dst.length - s) := by simp
    have hl2 : (List.drop (src.length - (dst.length - s)) (List.take s dst)).length =
        s - (src.length - (dst.length - s)) := by simp; omega
    by_cases h1 : p < src.length - (dst.length - s)
    · rw [List.getElem?_append_left (by omega), List.getElem?_drop,
        if_neg (by omega), if_pos (by omega)]
      congr 1; omega
    · rw [List.getElem?_append_right (by omega), hl1]
      by_cases h2 : p < s
      · rw [List.getElem?_append_left (by omega), List.getElem?_drop,
          List.getElem?_take_of_lt (by omega), if_neg (by omega), if_neg (by omega)]
        congr 1; omega
      · rw [List.getElem?_append_right (by omega), hl2, List.getElem?_take_of_lt (by omega),
          if_pos ⟨by omega, by omega⟩]
        congr 1; omega

theorem add_mod_wrap {s j D : Nat} (hs : s ≤ D) (hj : j < D) :
    (s + j) % D = if s + j < D then s + j else s + j - D := by
  by_cases h : s + j < D
  · rw [if_pos h, Nat.mod_eq_of_lt h]
  · rw [if_neg h, Nat.mod_eq_sub_mod (by omega), Nat.mod_eq_of_lt (by omega)]

/-- byte `j` of `src` lands at `(s + j) % len(dst)`, every other cell keeps its value (the position
part of `XlateRingCopy.ringCopy_spec`, stated for `copied` alone) -/
theorem copied_spec (dst src : List UInt8) (s : Nat) (hS : src.length ≤ dst.length) (hs : s ≤ dst.length) :
    (copied dst src s).length = dst.length ∧
    (∀ j : Nat, j < src.length → (copied dst src s)[(s + j) % dst.length]? = src[j]?) ∧
    (∀ p : Nat, (∀ j : Nat, j < src.length → p ≠ (s + j) % dst.length) →
      (copied dst src s)[p]? = dst[p]?) := by
  have hlen := copied_length dst src s hS hs
  refine ⟨hlen, ?_, ?_⟩
  · intro j hj
    rw [add_mod_wrap hs (by omega)]
    by_cases h : s + j < dst.length
    · rw [if_pos h, copied_getElem? dst src s hS hs _ h, if_pos ⟨by omega, by omega⟩]
      congr 1; omega
    · rw [if_neg h, copied_getElem? dst src s hS hs _ (by omega), if_neg (by omega),
        if_pos (by omega)]
      congr 1; omega
  · intro p hp
    by_cases hpD : p < dst.length
    · rw [copied_getElem? dst src s hS hs p hpD]
      by_cases h1 : s ≤ p ∧ p < s + src.length
      · exfalso
        apply hp (p - s) (by omega)
        rw [add_mod_wrap hs (by omega), if_pos (by omega)]; omega
      · rw [if_neg h1]
        by_cases h2 : p + dst.length < s + src.length
        · exfalso
          apply hp (p + dst.length - s) (by omega)
          rw [add_mod_wrap hs (by omega), if_neg (by omega)]; omega
        · rw [if_neg h2]
    · rw [List.getElem?_eq_none (by omega), List.getElem?_eq_none (by omega)]

end Mqtt.Proofs.XlateRingCopy
