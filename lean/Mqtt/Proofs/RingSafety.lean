/-
Core D — the safety invariant of the concurrent ring program and its
preservation by every step of every thread (layer 2 of DESIGN §5 "Core D").

* `Glob`  : cursors, gate, the cells between the cursors hold the stream, the
            consumer's obtained bytes are the stream prefix;
* `PInv`  : what the producer thread knows at each program counter (its
            reservation lies below `cseq + size` — it knows a lower bound of the
            consumer cursor: the gate, or the cursor `ReadFrom` has just loaded —,
            the cells it has written);
* `CInv`  : what the consumer thread knows (its window lies below `pseq`, the
            bytes it has read are the stream).
Each thread's invariant only mentions shared data the *other* threads change
monotonically (rely/guarantee): `PInv` is stable under consumer steps, `CInv`
under producer steps, both under closer steps.
-/
import Mqtt.Proofs.Ring

set_option linter.unusedSimpArgs false
set_option linter.unusedVariables false

namespace Mqtt.Proofs.Ring
open Mqtt.Model.Ring Mqtt.Iface.Ring Mqtt.Spec.Ring

/-! ### the core is untouched by lock operations -/

@[simp] theorem core_setOwner (sh : Sh) (m : Mx) (o : Option Tid) : (sh.setOwner m o).core = sh.core := by
  cases m <;> rfl
@[simp] theorem core_setNote (sh : Sh) (m : Mx) (b : Bool) : (sh.setNote m b).core = sh.core := by
  cases m <;> rfl
@[simp] theorem core_unlock (sh : Sh) (m : Mx) : (sh.unlock m).core = sh.core := by
  unfold Sh.unlock; split
  · rfl
  · exact core_setOwner _ _ _
@[simp] theorem core_bcast (sh : Sh) (m : Mx) : (sh.bcast m).core = sh.core := by simp [Sh.bcast]
@[simp] theorem core_park (sh : Sh) (m : Mx) : (sh.park m).core = sh.core := by simp [Sh.park]

/-! ### invariants -/

/-- global part: `base` is the stream position at which the ring started -/
structure Glob (cfg : Cfg) (base : Nat) (c : Core) : Prop where
  bufsz : c.buf.size = cfg.size
  cp : c.cseq ≤ c.pseq
  pc : c.pseq ≤ c.cseq + cfg.size
  gc : c.gate ≤ c.cseq
  cells : ∀ i, c.cseq ≤ i → i < c.pseq → rd c.buf (cfg.idx i) = cfg.src i
  basele : base ≤ c.cseq
  got : c.gotRev.reverse = segment cfg.src base (c.cseq - base)

/-- the cells `[pos, pos+k)` hold the stream -/
def Filled (cfg : Cfg) (buf : Array UInt8) (pos k : Nat) : Prop :=
  ∀ i, i < k → rd buf (cfg.idx (pos + i)) = cfg.src (pos + i)

/-- a `WriteCommit(n)` in progress (called by the thread program or by `ReadFrom`) commits only
filled bytes; the `waitForWriteSpace` at the head of `ReadFrom`'s loop asks for exactly one byte -/
def wcOK (th : Th) (n : Nat) : Prop :=
  (∀ m, th.cur = some (.wcommit m) → n ≤ th.filled) ∧
  (∀ tot ms, th.cur = some (.rfcommit tot ms) → n ≤ th.filled) ∧
  (∀ tot ms, th.cur = some (.rfrom tot ms) → n = 1)

/-- the `WriteCommit` called by `ReadFrom` is not in the wait loop of `waitForWriteSpace`: its space was
free when `ReadFrom` looked (the consumer cursor only moves forward) -/
def noRfc (th : Th) : Prop := ∀ tot ms, th.cur ≠ some (.rfcommit tot ms)

def pcP (cfg : Cfg) (c : Core) (th : Th) : Prop :=
  match th.pc with
  | .s30 n | .s31 n => wcOK th n
  | .w40 n => th.cur = some (.write n)
  | .s32 n ppos | .s33 n ppos | .s37 n ppos => ppos = c.pseq ∧ wcOK th n
  | .s34 n ppos | .s35 n ppos | .s36 n ppos | .s36w n ppos => ppos = c.pseq ∧ wcOK th n ∧ noRfc th
  | .s38 n ppos cpos => ppos = c.pseq ∧ ppos + n ≤ cpos + cfg.size ∧ cpos ≤ c.cseq ∧ c.gate ≤ cpos ∧ wcOK th n
  | .s39 n ppos => ppos = c.pseq ∧ ppos + n ≤ c.cseq + cfg.size ∧ wcOK th n
  | .w41c n ppos j => ppos = c.pseq ∧ ppos + n ≤ c.cseq + cfg.size ∧ j ≤ n ∧ Filled cfg c.buf ppos j
  | .w42 n ppos => ppos = c.pseq ∧ ppos + n ≤ c.cseq + cfg.size ∧ Filled cfg c.buf ppos n
  | .c50 n ppos => ppos = c.pseq ∧ n ≤ th.filled
  | .f0 start len j => start = c.pseq ∧ start + len ≤ c.cseq + cfg.size ∧ j ≤ len ∧ Filled cfg c.buf start j ∧ th.filled = 0
  | .g112 _ _ ppos => ppos = c.pseq ∧ ppos + 1 ≤ c.cseq + cfg.size
  | .g111 _ _ start len => start = c.pseq ∧ start + len ≤ c.cseq + cfg.size
  | .g111c _ _ start n j => start = c.pseq ∧ start + n ≤ c.cseq + cfg.size ∧ j ≤ n ∧ Filled cfg c.buf start j
  | .g111r _ _ n => Filled cfg c.buf c.pseq n ∧ c.pseq + n ≤ c.cseq + cfg.size
  | _ => True

structure PInv (cfg : Cfg) (c : Core) (th : Th) : Prop where
  pcinv : pcP cfg c th
  slice : ∀ st len, th.slice = some (st, len) → st = c.pseq ∧ st + len ≤ c.cseq + cfg.size
  fill : Filled cfg c.buf c.pseq th.filled ∧ (0 < th.filled → c.pseq + th.filled ≤ c.cseq + cfg.size)

def pcC (cfg : Cfg) (c : Core) (th : Th) : Prop :=
  match th.pc with
  | .r60 n => th.cur = some (.read n)
  | .r62 _ cpos => cpos = c.cseq
  | .r63c _ cpos k j acc => cpos = c.cseq ∧ cpos + k ≤ c.pseq ∧ j ≤ k ∧ acc.reverse = segment cfg.src cpos j
  | .r64 _ cpos acc => cpos = c.cseq ∧ cpos + acc.length ≤ c.pseq ∧ acc.reverse = segment cfg.src cpos acc.length
  | .r65 _ cpos acc | .r66 _ cpos acc | .r67 _ cpos acc =>
    cpos + acc.length ≤ c.pseq ∧ acc.reverse = segment cfg.src cpos acc.length
  | .r73 _ cpos | .r74 _ cpos | .r75 _ cpos | .r75r _ cpos | .r76 _ cpos | .r77 _ cpos | .r77w _ cpos | .r78 _ cpos => cpos = c.cseq
  | .r79 _ => c.cseq < c.pseq
  | .p81 _ _ cpos | .p82 _ _ cpos | .p83 _ _ cpos | .p84 _ _ cpos | .p84r _ _ cpos | .p85 _ _ cpos | .p86 _ _ cpos
  | .p86w _ _ cpos | .p87 _ _ cpos => cpos = c.cseq
  | .p88 w n cpos ppos => cpos = c.cseq ∧ ppos ≤ c.pseq ∧ mustWait w n cpos ppos = false
  | .p89c _ cpos m _ j acc => cpos = c.cseq ∧ cpos + m ≤ c.pseq ∧ j ≤ m ∧ acc.reverse = segment cfg.src cpos j
  | .k100 n => n ≤ th.pending.length
  | .k101 n cpos => cpos = c.cseq ∧ n ≤ th.pending.length
  | .k102 n cpos => cpos = c.cseq ∧ cpos + n ≤ c.pseq ∧ n ≤ th.pending.length
  | .u0 cpos m j acc => cpos = c.cseq ∧ cpos + m ≤ c.pseq ∧ j ≤ m ∧ acc.reverse = segment cfg.src cpos j
  | _ => True

def viewOK (cfg : Cfg) (c : Core) : View → Prop
  | .none => True
  | .alias cpos m => cpos = c.cseq ∧ cpos + m ≤ c.pseq
  | .tmp cpos bytes => cpos = c.cseq ∧ cpos + bytes.length ≤ c.pseq ∧ bytes = segment cfg.src cpos bytes.length

structure CInv (cfg : Cfg) (c : Core) (th : Th) : Prop where
  pcinv : pcC cfg c th
  view : viewOK cfg c th.view
  pend : th.pending = segment cfg.src c.cseq th.pending.length ∧ c.cseq + th.pending.length ≤ c.pseq

/-! ### stability (rely) -/

theorem PInv_stable (cfg : Cfg) (c c' : Core) (th : Th) (h : PInv cfg c th)
    (hb : c'.buf = c.buf) (hp : c'.pseq = c.pseq) (hg : c'.gate = c.gate) (hc : c.cseq ≤ c'.cseq) :
    PInv cfg c' th := by
  obtain ⟨buf, pseq, cseq, gate, got⟩ := c
  obtain ⟨buf', pseq', cseq', gate', got'⟩ := c'
  simp only at hb hp hg hc
  subst hb hp hg
  obtain ⟨h1, h2, h3⟩ := h
  refine ⟨?_, ?_, ⟨h3.1, fun h => Nat.le_trans (h3.2 h) (Nat.add_le_add_right hc _)⟩⟩
  · unfold pcP at h1 ⊢
    split at h1
    all_goals (first
      | exact h1
      | (obtain ⟨a, b, c, d, e⟩ := h1; exact ⟨a, b, Nat.le_trans c hc, d, e⟩)
      | (obtain ⟨a, b, c, d, e⟩ := h1; exact ⟨a, Nat.le_trans b (Nat.add_le_add_right hc _), c, d, e⟩)
      | (obtain ⟨a, b, c, d⟩ := h1; exact ⟨a, Nat.le_trans b (Nat.add_le_add_right hc _), c, d⟩)
      | (obtain ⟨a, b, c⟩ := h1; exact ⟨a, Nat.le_trans b (Nat.add_le_add_right hc _), c⟩)
      | (obtain ⟨a, b⟩ := h1; exact ⟨a, Nat.le_trans b (Nat.add_le_add_right hc _)⟩))
  · intro st len e
    obtain ⟨a, b⟩ := h2 st len e
    exact ⟨a, Nat.le_trans b (Nat.add_le_add_right hc _)⟩

theorem CInv_stable (cfg : Cfg) (c c' : Core) (th : Th) (h : CInv cfg c th)
    (hc : c'.cseq = c.cseq) (hp : c.pseq ≤ c'.pseq) : CInv cfg c' th := by
  obtain ⟨buf, pseq, cseq, gate, got⟩ := c
  obtain ⟨buf', pseq', cseq', gate', got'⟩ := c'
  simp only at hc hp
  subst hc
  obtain ⟨h1, h2, h3⟩ := h
  refine ⟨?_, ?_, ⟨h3.1, Nat.le_trans h3.2 hp⟩⟩
  · unfold pcC at h1 ⊢
    split at h1
    all_goals (first
      | exact h1
      | (obtain ⟨a, b, c, d⟩ := h1; exact ⟨a, Nat.le_trans b hp, c, d⟩)
      | (obtain ⟨a, b, c⟩ := h1; exact ⟨a, Nat.le_trans b hp, c⟩)
      | (obtain ⟨a, b⟩ := h1; exact ⟨Nat.le_trans a hp, b⟩)
      | exact Nat.lt_of_lt_of_le h1 hp)
  · unfold viewOK at h2 ⊢
    split at h2
    all_goals (first
      | exact h2
      | (obtain ⟨a, b, c⟩ := h2; exact ⟨a, Nat.le_trans b hp, c⟩)
      | (obtain ⟨a, b⟩ := h2; exact ⟨a, Nat.le_trans b hp⟩))

/-! ### steps: frame, producer -/

/-- the program counters whose step changes the core -/
def dataPc : Pc → Bool
  | .w41c _ _ _ | .w42 _ _ | .c50 _ _ | .f0 _ _ _ | .s38 _ _ _ | .g111c _ _ _ _ _ | .r64 _ _ _ | .k102 _ _ => true
  | _ => false

theorem core_frame (cfg : Cfg) (me : Tid) (sh sh' : Sh) (th th' : Th)
    (hs : tstep cfg sh me th = some (sh', th')) (hd : dataPc th.pc = false) : sh'.core = sh.core := by
  have hcr := tstep_crash _ _ _ _ _ hs
  obtain ⟨pc, prog, cur, slice, filled, view, pending, res⟩ := th
  simp only at hd
  cases pc
  case idle =>
    simp only [tstep, Bool.false_eq_true, ↓reduceIte, hcr] at hs
    cases prog with
    | nil => simp at hs
    | cons call rest => simp only [Option.some.injEq, Prod.mk.injEq] at hs; rw [← hs.1]
  case l21 cpos =>
    simp only [tstep, Bool.false_eq_true, ↓reduceIte, hcr] at hs
    repeat' split at hs
    all_goals (simp only [Option.some.injEq, Prod.mk.injEq] at hs; rw [← hs.1])
  case r62 n cpos =>
    simp only [tstep, Bool.false_eq_true, ↓reduceIte, hcr] at hs
    repeat' split at hs
    all_goals (simp only [Option.some.injEq, Prod.mk.injEq] at hs; rw [← hs.1])
  all_goals (first | (simp [dataPc] at hd; done) | skip)
  all_goals tstep_norm
  all_goals tstep_elim
  all_goals (first | rfl | simp only [core_setOwner, core_setNote, core_unlock, core_bcast, core_park])

theorem Filled_wr (cfg : Cfg) (buf : Array UInt8) (pos k q : Nat) (hsz : buf.size = cfg.size)
    (hk : k ≤ cfg.size) (hq1 : pos ≤ q) (hq2 : q < pos + cfg.size) (h : Filled cfg buf pos k) :
    Filled cfg (wr buf (cfg.idx q) (cfg.src q)) pos k := by
  intro i hi
  by_cases e : pos + i = q
  · rw [e]; exact rd_wr_same _ _ _ (by rw [hsz]; exact idx_lt cfg q)
  · rw [rd_wr_other _ _ _ _ (idx_ne' cfg (Ne.symm e) (by omega) (by omega))]
    exact h i hi

theorem Filled_wr_succ (cfg : Cfg) (buf : Array UInt8) (pos j : Nat) (hsz : buf.size = cfg.size)
    (hj : j < cfg.size) (h : Filled cfg buf pos j) :
    Filled cfg (wr buf (cfg.idx (pos + j)) (cfg.src (pos + j))) pos (j + 1) := by
  intro i hi
  by_cases e : i = j
  · subst e; exact rd_wr_same _ _ _ (by rw [hsz]; exact idx_lt cfg _)
  · rw [rd_wr_other _ _ _ _ (idx_ne' cfg (by omega) (by omega) (by omega))]
    exact h i (by omega)

theorem cells_wr (cfg : Cfg) (buf : Array UInt8) (cseq pseq q : Nat) (v : UInt8)
    (h : ∀ i, cseq ≤ i → i < pseq → rd buf (cfg.idx i) = cfg.src i) (hq1 : pseq ≤ q) (hq2 : q < cseq + cfg.size) :
    ∀ i, cseq ≤ i → i < pseq → rd (wr buf (cfg.idx q) v) (cfg.idx i) = cfg.src i := by
  intro i h1 h2
  rw [rd_wr_other _ _ _ _ (idx_ne' cfg (by omega) (by omega) (by omega))]
  exact h i h1 h2

theorem Filled_zero (cfg : Cfg) (buf : Array UInt8) (pos : Nat) : Filled cfg buf pos 0 := fun _ h => absurd h (Nat.not_lt_zero _)

/-- return of `waitForWriteSpace` into its caller, given the reservation it established -/
theorem pInv_wfsOk (cfg : Cfg) (c : Core) (th : Th) (ppos n : Nat)
    (h1 : ppos = c.pseq) (h2 : ppos + n ≤ c.cseq + cfg.size) (h3 : wcOK th n)
    (hsl : ∀ st len, th.slice = some (st, len) → st = c.pseq ∧ st + len ≤ c.cseq + cfg.size)
    (hf : Filled cfg c.buf c.pseq th.filled ∧ (0 < th.filled → c.pseq + th.filled ≤ c.cseq + cfg.size)) :
    PInv cfg c (wfsOk cfg th ppos n) := by
  unfold wfsOk
  dsimp only
  split
  · exact ⟨⟨h1, h2, Nat.zero_le _, Filled_zero _ _ _⟩, hsl, hf⟩
  · split
    · refine ⟨trivial, ?_, hf⟩
      intro st len e
      simp only [Th.ret, Option.some.injEq, Prod.mk.injEq] at e
      obtain ⟨rfl, rfl⟩ := e
      exact ⟨h1, by omega⟩
    · refine ⟨trivial, ?_, hf⟩
      intro st len e
      simp only [Th.ret, Option.some.injEq, Prod.mk.injEq] at e
      obtain ⟨rfl, rfl⟩ := e
      exact ⟨h1, h2⟩
  · rename_i m hm
    exact ⟨⟨h1, h3.1 _ hm⟩, hsl, hf⟩
  · rename_i tot ms hm
    have := h3.2.2 _ _ hm
    exact ⟨⟨h1, by omega⟩, hsl, hf⟩
  · rename_i tot ms hm
    exact ⟨⟨h1, h3.2.1 _ _ hm⟩, hsl, hf⟩
  · exact ⟨trivial, hsl, hf⟩

theorem pInv_rfExit (cfg : Cfg) (c : Core) (th : Th) (n : Nat) (e : Err) : PInv cfg c (rfExit th n e) :=
  ⟨trivial, nofun, ⟨Filled_zero _ _ _, fun h => absurd h (Nat.lt_irrefl 0)⟩⟩

theorem pInv_wfsErr (cfg : Cfg) (c : Core) (th : Th) (e : Err)
    (hsl : ∀ st len, th.slice = some (st, len) → st = c.pseq ∧ st + len ≤ c.cseq + cfg.size)
    (hf : Filled cfg c.buf c.pseq th.filled ∧ (0 < th.filled → c.pseq + th.filled ≤ c.cseq + cfg.size)) :
    PInv cfg c (wfsErr th e) := by
  unfold wfsErr
  split
  · exact pInv_rfExit cfg c th _ e
  · exact pInv_rfExit cfg c th _ e
  · exact ⟨trivial, hsl, hf⟩

theorem pInv_enterWfs (cfg : Cfg) (c : Core) (th : Th) (n : Nat) (hw : wcOK th n)
    (hsl : ∀ st len, th.slice = some (st, len) → st = c.pseq ∧ st + len ≤ c.cseq + cfg.size)
    (hf : Filled cfg c.buf c.pseq th.filled ∧ (0 < th.filled → c.pseq + th.filled ≤ c.cseq + cfg.size)) :
    PInv cfg c (enterWfs cfg th n) := by
  unfold enterWfs
  split
  · exact pInv_wfsErr cfg c th _ hsl hf
  · exact ⟨hw, hsl, hf⟩

theorem pInv_wcRet (cfg : Cfg) (c : Core) (th : Th) (n : Nat)
    (hsl : ∀ st len, th.slice = some (st, len) → st = c.pseq ∧ st + len ≤ c.cseq + cfg.size)
    (hf : Filled cfg c.buf c.pseq th.filled ∧ (0 < th.filled → c.pseq + th.filled ≤ c.cseq + cfg.size)) :
    PInv cfg c (wcRet th n) := by
  unfold wcRet
  split <;> exact ⟨trivial, hsl, hf⟩

theorem pInv_closeRet (cfg : Cfg) (c : Core) (th : Th)
    (hsl : ∀ st len, th.slice = some (st, len) → st = c.pseq ∧ st + len ≤ c.cseq + cfg.size)
    (hf : Filled cfg c.buf c.pseq th.filled ∧ (0 < th.filled → c.pseq + th.filled ≤ c.cseq + cfg.size)) :
    PInv cfg c (closeRet th) := by
  unfold closeRet
  split <;> exact ⟨trivial, hsl, hf⟩

theorem wcOK_of_cur (th : Th) (n : Nat) (call : Call) (hcur : th.cur = some call)
    (h1 : ∀ m, call ≠ .wcommit m) (h2 : ∀ tot ms, call ≠ .rfcommit tot ms) (h3 : ∀ tot ms, call ≠ .rfrom tot ms) :
    wcOK th n := by
  refine ⟨fun m h => ?_, fun tot ms h => ?_, fun tot ms h => ?_⟩
  · rw [hcur] at h; cases h; exact absurd rfl (h1 m)
  · rw [hcur] at h; cases h; exact absurd rfl (h2 tot ms)
  · rw [hcur] at h; cases h; exact absurd rfl (h3 tot ms)

theorem pInv_startCall (cfg : Cfg) (c : Core) (th : Th) (call : Call) (hi : PInv cfg c th)
    (hcur : th.cur = some call) (ha : Tid.p.allowed call = true) : PInv cfg c (startCall cfg th call) := by
  obtain ⟨hpc, hsl, hf⟩ := hi
  have hz : Filled cfg c.buf c.pseq 0 ∧ (0 < 0 → c.pseq + 0 ≤ c.cseq + cfg.size) :=
    ⟨Filled_zero _ _ _, fun h => absurd h (Nat.lt_irrefl 0)⟩
  cases call <;> simp only [startCall, Th.goto, Th.ret]
  case write n =>
    exact ⟨hcur, by simp, hz⟩
  case wwait n =>
    exact pInv_enterWfs cfg c _ n (wcOK_of_cur _ n _ hcur nofun nofun nofun) nofun hz
  case wcommit n =>
    refine pInv_enterWfs cfg c _ _ ?_ nofun hf
    refine ⟨fun m _ => Nat.min_le_right _ _, fun tot ms h => ?_, fun tot ms h => ?_⟩
    · rw [hcur] at h; cases h
    · rw [hcur] at h; cases h
  case wfill =>
    split
    · rename_i st len hsome
      obtain ⟨a, b⟩ := hsl st len hsome
      exact ⟨⟨a, b, Nat.zero_le _, Filled_zero _ _ _, rfl⟩, hsl, hz⟩
    · exact ⟨trivial, hsl, hf⟩
  case rfrom tot ms => exact ⟨trivial, nofun, hz⟩
  case rfcommit tot ms => exact ⟨trivial, hsl, hf⟩
  case rfret n e => exact ⟨trivial, hsl, hf⟩
  case close => exact ⟨trivial, hsl, hf⟩
  case len => exact ⟨trivial, hsl, hf⟩
  all_goals (simp [Tid.allowed, Call.isProducer] at ha)

/-- `waitForWriteSpace(n)` found no space: then it is not the `WriteCommit` of `ReadFrom` (whose `n`
bytes were free when `ReadFrom` loaded the consumer cursor) -/
theorem noRfc_of_wait (cfg : Cfg) (base : Nat) (sh : Sh) (th : Th) (n ppos : Nat) (hg : Glob cfg base sh.core)
    (h1 : ppos = sh.core.pseq) (hw : wcOK th n)
    (hf : Filled cfg sh.core.buf sh.core.pseq th.filled ∧ (0 < th.filled → sh.core.pseq + th.filled ≤ sh.core.cseq + cfg.size))
    (hfull : ppos + n > sh.cseq + cfg.size) : noRfc th := by
  intro tot ms hcur
  have hn := hw.2.1 tot ms hcur
  have hpc := hg.pc
  simp only [Sh.core] at h1 hf hpc
  by_cases hz : th.filled = 0
  · omega
  · have := hf.2 (by omega); omega

theorem prod_frame (cfg : Cfg) (base : Nat) (sh sh' : Sh) (th th' : Th)
    (hg : Glob cfg base sh.core) (hi : PInv cfg sh.core th) (hok : ThOK .p th)
    (hs : tstep cfg sh .p th = some (sh', th')) (hd : dataPc th.pc = false) : PInv cfg sh.core th' := by
  have hcr := tstep_crash _ _ _ _ _ hs
  obtain ⟨hp, hc, hr⟩ := hok
  obtain ⟨hpc, hsl, hf⟩ := hi
  obtain ⟨pc, prog, cur, slice, filled, view, pending, res⟩ := th
  simp only at hp hc hr hd hpc hsl hf
  cases pc
  case idle =>
    simp only [tstep, Bool.false_eq_true, ↓reduceIte, hcr] at hs
    cases prog with
    | nil => simp at hs
    | cons call rest =>
      simp only [Option.some.injEq, Prod.mk.injEq] at hs
      obtain ⟨rfl, rfl⟩ := hs
      exact pInv_startCall cfg _ _ call ⟨trivial, hsl, hf⟩ rfl (hp call (List.mem_cons_self ..))
  case l21 cpos =>
    simp only [tstep, Bool.false_eq_true, ↓reduceIte, hcr] at hs
    split at hs
    · have ha := hc _ rfl
      simp [Tid.allowed, Call.isProducer] at ha
    · simp only [Option.some.injEq, Prod.mk.injEq] at hs
      obtain ⟨rfl, rfl⟩ := hs
      exact ⟨trivial, hsl, hf⟩
  case s30 n =>
    simp only [pcP] at hpc
    tstep_norm
    rcases hs with ⟨h1, rfl, rfl⟩ | ⟨h1, rfl, rfl⟩
    · exact pInv_wfsErr cfg _ _ _ hsl hf
    · exact ⟨hpc, hsl, hf⟩
  case s31 n =>
    simp only [pcP] at hpc
    tstep_norm
    rcases hs with ⟨h1, rfl, rfl⟩ | ⟨h1, rfl, rfl⟩
    · exact ⟨⟨rfl, hpc⟩, hsl, hf⟩
    · have := hg.gc
      exact ⟨⟨rfl, by simp only [Sh.core] at this ⊢; omega, hpc⟩, hsl, hf⟩
  case s39 n ppos =>
    simp only [pcP] at hpc
    obtain ⟨e1, e2, e3⟩ := hpc
    tstep_norm
    rcases hs with ⟨h1, rfl, rfl⟩ | ⟨h1, rfl, rfl⟩
    · exact pInv_wfsErr cfg _ _ _ hsl hf
    · exact pInv_wfsOk cfg _ _ _ _ e1 e2 e3 hsl hf
  case s33 n ppos =>
    simp only [pcP] at hpc
    tstep_norm
    rcases hs with ⟨h1, rfl, rfl⟩ | ⟨h1, rfl, rfl⟩
    · exact ⟨⟨hpc.1, hpc.2, noRfc_of_wait cfg base sh _ n ppos hg hpc.1 hpc.2 hf h1⟩, hsl, hf⟩
    · exact ⟨⟨hpc.1, by omega, Nat.le_refl _, hg.gc, hpc.2⟩, hsl, hf⟩
  case s35 n ppos =>
    tstep_norm
    obtain ⟨rfl, rfl⟩ := hs
    exact pInv_wfsErr cfg _ _ _ hsl hf
  case s36w n ppos =>
    simp only [pcP] at hpc
    tstep_norm
    obtain ⟨_, _, rfl, rfl⟩ := hs
    exact ⟨⟨hpc.1, hpc.2.1⟩, hsl, hf⟩
  case s37 n ppos =>
    simp only [pcP] at hpc
    tstep_norm
    rcases hs with ⟨h1, rfl, rfl⟩ | ⟨h1, rfl, rfl⟩
    · exact ⟨⟨hpc.1, hpc.2, noRfc_of_wait cfg base sh _ n ppos hg hpc.1 hpc.2 hf h1⟩, hsl, hf⟩
    · exact ⟨⟨hpc.1, by omega, Nat.le_refl _, hg.gc, hpc.2⟩, hsl, hf⟩
  case w40 n =>
    simp only [pcP] at hpc
    tstep_norm
    rcases hs with ⟨h1, rfl, rfl⟩ | ⟨h1, rfl, rfl⟩
    · exact ⟨trivial, hsl, hf⟩
    · exact pInv_enterWfs cfg _ _ n (wcOK_of_cur _ n _ hpc nofun nofun nofun) hsl hf
  case c53 n =>
    tstep_norm
    obtain ⟨rfl, rfl⟩ := hs
    exact pInv_wcRet cfg _ _ n hsl hf
  case x16 =>
    tstep_norm
    obtain ⟨rfl, rfl⟩ := hs
    exact pInv_closeRet cfg _ _ hsl hf
  case g110 tot ms =>
    tstep_norm
    rcases hs with ⟨h1, rfl, rfl⟩ | ⟨h1, rfl, rfl⟩
    · exact pInv_rfExit cfg _ _ _ _
    · refine pInv_enterWfs cfg _ _ 1 ⟨fun m h => ?_, fun t m h => ?_, fun _ _ _ => rfl⟩ hsl hf
      · cases h
      · cases h
  case g112 tot ms ppos =>
    simp only [pcP] at hpc
    obtain ⟨e1, e2⟩ := hpc
    tstep_norm
    obtain ⟨rfl, rfl⟩ := hs
    refine ⟨⟨e1, ?_⟩, hsl, hf⟩
    have hcp := hg.cp
    simp only [Sh.core] at e1 e2 hcp ⊢
    have hm := Nat.min_le_right cfg.rblock (cfg.size - (ppos - sh.cseq))
    split <;> omega
  case g111 tot ms start len =>
    simp only [pcP] at hpc
    obtain ⟨e1, e2⟩ := hpc
    tstep_norm
    rcases hs with ⟨h1, rfl, rfl⟩ | ⟨h1, rfl, rfl⟩
    · exact pInv_rfExit cfg _ _ _ _
    · have hm := Nat.min_le_right (ms.headD 0) len
      exact ⟨⟨e1, by omega, Nat.zero_le _, Filled_zero _ _ _⟩, hsl, hf⟩
  case g111r tot ms n =>
    simp only [pcP] at hpc
    obtain ⟨e1, e2⟩ := hpc
    tstep_norm
    rcases hs with ⟨h1, rfl, rfl⟩ | ⟨h1, rfl, rfl⟩
    · -- the reader has delivered n > 0 bytes: total += n, WriteCommit(n)
      refine pInv_enterWfs cfg _ _ n ⟨fun m h => ?_, fun _ _ _ => Nat.le_refl _, fun t m h => ?_⟩ hsl ⟨e1, fun _ => e2⟩
      · cases h
      · cases h
    · exact ⟨trivial, hsl, hf⟩
  case r62 => simp [pcRole, roleOK] at hr
  all_goals (first | (simp [dataPc] at hd; done) | (simp [pcRole, roleOK] at hr; done) | skip)
  all_goals tstep_norm
  all_goals tstep_elim
  all_goals (first
    | exact ⟨trivial, hsl, hf⟩
    | exact ⟨hpc, hsl, hf⟩)

theorem prod_data (cfg : Cfg) (base : Nat) (sh sh' : Sh) (th th' : Th)
    (hg : Glob cfg base sh.core) (hi : PInv cfg sh.core th) (hok : ThOK .p th)
    (hs : tstep cfg sh .p th = some (sh', th')) (hd : dataPc th.pc = true) :
    Glob cfg base sh'.core ∧ PInv cfg sh'.core th' ∧ sh'.core.cseq = sh.core.cseq ∧
      sh.core.pseq ≤ sh'.core.pseq ∧ sh'.core.gotRev = sh.core.gotRev := by
  have hcr := tstep_crash _ _ _ _ _ hs
  obtain ⟨hp, hc, hr⟩ := hok
  obtain ⟨hpc, hsl, hf⟩ := hi
  obtain ⟨hbs, hcp, hpcs, hgc, hcells, hbase, hgot⟩ := hg
  obtain ⟨pc, prog, cur, slice, filled, view, pending, res⟩ := th
  simp only [Sh.core] at hbs hcp hpcs hgc hcells hbase hgot hpc hsl hf
  cases pc
  case s38 n ppos cpos =>
    simp only [pcP] at hpc
    obtain ⟨e1, e2, e3, e4, e5⟩ := hpc
    tstep_norm
    obtain ⟨rfl, rfl⟩ := hs
    simp only [core_unlock]
    refine ⟨⟨hbs, hcp, hpcs, e3, hcells, hbase, hgot⟩, ?_, rfl, Nat.le_refl _, rfl⟩
    exact ⟨⟨e1, by simp only [Sh.core]; omega, e5⟩, hsl, hf⟩
  case w41c n ppos j =>
    simp only [pcP] at hpc
    obtain ⟨e1, e2, e3, e4⟩ := hpc
    tstep_norm
    rcases hs with ⟨h1, rfl, rfl⟩ | ⟨h1, rfl, rfl⟩
    · have hn : n ≤ cfg.size := by omega
      refine ⟨⟨?_, hcp, hpcs, hgc, ?_, hbase, hgot⟩, ⟨?_, hsl, ?_⟩, rfl, Nat.le_refl _, rfl⟩
      · show (wr sh.buf _ _).size = cfg.size
        rw [wr_size]; exact hbs
      · exact cells_wr cfg sh.buf sh.cseq sh.pseq (ppos + j) _ hcells (by omega) (by omega)
      · exact ⟨e1, e2, by omega, Filled_wr_succ cfg sh.buf ppos j hbs (by omega) e4⟩
      · refine ⟨?_, hf.2⟩
        by_cases hz : filled = 0
        · simp only [hz]; exact Filled_zero _ _ _
        · have h2 : sh.pseq + filled ≤ sh.cseq + cfg.size := hf.2 (by omega)
          exact Filled_wr cfg sh.buf sh.pseq filled (ppos + j) hbs (by omega) (by omega) (by omega) hf.1
    · have : j = n := by omega
      subst this
      exact ⟨⟨hbs, hcp, hpcs, hgc, hcells, hbase, hgot⟩, ⟨⟨e1, e2, e4⟩, hsl, hf⟩, rfl, Nat.le_refl _, rfl⟩
  case w42 n ppos =>
    simp only [pcP] at hpc
    obtain ⟨e1, e2, e3⟩ := hpc
    tstep_norm
    obtain ⟨rfl, rfl⟩ := hs
    have hle : sh.pseq ≤ ppos + n := by omega
    refine ⟨⟨hbs, Nat.le_trans hcp hle, ?_, hgc, ?_, hbase, hgot⟩,
      ⟨trivial, nofun, ⟨Filled_zero _ _ _, fun h => absurd h (Nat.lt_irrefl 0)⟩⟩, rfl, hle, rfl⟩
    · show ppos + n ≤ sh.cseq + cfg.size
      omega
    · intro i h1 h2
      by_cases hlt : i < sh.pseq
      · exact hcells i h1 hlt
      · have h3 : i < ppos + n := h2
        have := e3 (i - ppos) (by omega)
        rwa [show ppos + (i - ppos) = i by omega] at this
  case c50 n ppos =>
    simp only [pcP] at hpc
    obtain ⟨e1, e2⟩ := hpc
    tstep_norm
    obtain ⟨rfl, rfl⟩ := hs
    have hle2 : ppos + n ≤ sh.cseq + cfg.size := by
      by_cases hz : filled = 0
      · have : n = 0 := by omega
        omega
      · have h2 : sh.pseq + filled ≤ sh.cseq + cfg.size := hf.2 (by omega)
        omega
    have hle : sh.pseq ≤ ppos + n := by omega
    refine ⟨⟨hbs, Nat.le_trans hcp hle, ?_, hgc, ?_, hbase, hgot⟩,
      ⟨trivial, nofun, ⟨Filled_zero _ _ _, fun h => absurd h (Nat.lt_irrefl 0)⟩⟩, rfl, hle, rfl⟩
    · show ppos + n ≤ sh.cseq + cfg.size
      omega
    · intro i h1 h2
      by_cases hlt : i < sh.pseq
      · exact hcells i h1 hlt
      · have h3 : i < ppos + n := h2
        have := hf.1 (i - ppos) (by omega)
        rwa [← e1, show ppos + (i - ppos) = i by omega] at this
  case f0 start len j =>
    simp only [pcP] at hpc
    obtain ⟨e1, e2, e3, e4, e5⟩ := hpc
    have e5' : filled = 0 := e5
    subst e5'
    tstep_norm
    rcases hs with ⟨h1, rfl, rfl⟩ | ⟨h1, rfl, rfl⟩
    · refine ⟨⟨?_, hcp, hpcs, hgc, ?_, hbase, hgot⟩,
        ⟨?_, hsl, ⟨Filled_zero _ _ _, fun h => absurd h (Nat.lt_irrefl 0)⟩⟩, rfl, Nat.le_refl _, rfl⟩
      · show (wr sh.buf _ _).size = cfg.size
        rw [wr_size]; exact hbs
      · exact cells_wr cfg sh.buf sh.cseq sh.pseq (start + j) _ hcells (by omega) (by omega)
      · exact ⟨e1, e2, by omega, Filled_wr_succ cfg sh.buf start j hbs (by omega) e4, rfl⟩
    · have : j = len := by omega
      subst this
      refine ⟨⟨hbs, hcp, hpcs, hgc, hcells, hbase, hgot⟩,
        ⟨trivial, hsl, ⟨?_, fun _ => ?_⟩⟩, rfl, Nat.le_refl _, rfl⟩
      · show Filled cfg sh.buf sh.pseq j
        rw [← e1]; exact e4
      · show sh.pseq + j ≤ sh.cseq + cfg.size
        omega
  case g111c tot ms start n j =>
    simp only [pcP] at hpc
    obtain ⟨e1, e2, e3, e4⟩ := hpc
    tstep_norm
    rcases hs with ⟨h1, rfl, rfl⟩ | ⟨h1, rfl, rfl⟩
    · have hn : n ≤ cfg.size := by omega
      refine ⟨⟨?_, hcp, hpcs, hgc, ?_, hbase, hgot⟩, ⟨?_, hsl, ?_⟩, rfl, Nat.le_refl _, rfl⟩
      · show (wr sh.buf _ _).size = cfg.size
        rw [wr_size]; exact hbs
      · exact cells_wr cfg sh.buf sh.cseq sh.pseq (start + j) _ hcells (by omega) (by omega)
      · exact ⟨e1, e2, by omega, Filled_wr_succ cfg sh.buf start j hbs (by omega) e4⟩
      · refine ⟨?_, hf.2⟩
        by_cases hz : filled = 0
        · simp only [hz]; exact Filled_zero _ _ _
        · have h2 : sh.pseq + filled ≤ sh.cseq + cfg.size := hf.2 (by omega)
          exact Filled_wr cfg sh.buf sh.pseq filled (start + j) hbs (by omega) (by omega) (by omega) hf.1
    · have : j = n := by omega
      subst this
      refine ⟨⟨hbs, hcp, hpcs, hgc, hcells, hbase, hgot⟩, ⟨⟨?_, ?_⟩, hsl, hf⟩, rfl, Nat.le_refl _, rfl⟩
      · show Filled cfg sh.buf sh.pseq j
        rw [← e1]; exact e4
      · show sh.pseq + j ≤ sh.cseq + cfg.size
        omega
  all_goals (first | (simp [dataPc] at hd; done) | (simp [pcRole, roleOK] at hr; done))

/-! ### steps: consumer -/

theorem read_acc (cfg : Cfg) (buf : Array UInt8) (cseq pseq cpos k j : Nat) (acc : List UInt8)
    (hcells : ∀ i, cseq ≤ i → i < pseq → rd buf (cfg.idx i) = cfg.src i)
    (h1 : cpos = cseq) (h2 : cpos + k ≤ pseq) (hj : j < k) (ha : acc.reverse = segment cfg.src cpos j) :
    (rd buf (cfg.idx (cpos + j)) :: acc).reverse = segment cfg.src cpos (j + 1) := by
  rw [List.reverse_cons, ha, segment_succ, hcells (cpos + j) (by omega) (by omega)]

theorem acc_len (src : Nat → UInt8) (cpos j : Nat) (acc : List UInt8) (ha : acc.reverse = segment src cpos j) :
    acc.length = j := by
  have := congrArg List.length ha
  simpa [segment_length] using this

theorem cInv_startCall (cfg : Cfg) (base : Nat) (c : Core) (th : Th) (call : Call) (hg : Glob cfg base c)
    (hi : CInv cfg c th) (hcur : th.cur = some call) (ha : Tid.c.allowed call = true) : CInv cfg c (startCall cfg th call) := by
  obtain ⟨hpc, hv, hpd⟩ := hi
  have hnil : ([] : List UInt8) = segment cfg.src c.cseq ([] : List UInt8).length ∧ c.cseq + ([] : List UInt8).length ≤ c.pseq :=
    ⟨by simp [segment_zero], by simpa using hg.cp⟩
  cases call <;> simp only [startCall, enterWfs, wfsErr, Th.goto, Th.ret]
  case read n => exact ⟨hcur, trivial, hnil⟩
  case peek n => split <;> exact ⟨trivial, trivial, hnil⟩
  case rwait n => split <;> exact ⟨trivial, trivial, hnil⟩
  case use =>
    split
    · rename_i cpos m hvw
      rw [hvw] at hv
      exact ⟨⟨hv.1, hv.2, Nat.zero_le _, by simp [segment_zero]⟩, by rw [hvw]; exact hv, hpd⟩
    · rename_i cpos bytes hvw
      rw [hvw] at hv
      obtain ⟨a, b, d⟩ := hv
      refine ⟨trivial, by rw [hvw]; exact ⟨a, b, d⟩, ?_⟩
      subst a
      exact ⟨d, b⟩
    · exact ⟨trivial, hv, hpd⟩
  case commit n =>
    split
    · exact ⟨trivial, trivial, hpd⟩
    · exact ⟨Nat.min_le_right _ _, trivial, hpd⟩
  case close => exact ⟨trivial, hv, hpd⟩
  case len => exact ⟨trivial, hv, hpd⟩
  all_goals (simp [Tid.allowed, Call.isConsumer] at ha)

theorem cons_frame (cfg : Cfg) (base : Nat) (sh sh' : Sh) (th th' : Th)
    (hg : Glob cfg base sh.core) (hi : CInv cfg sh.core th) (hok : ThOK .c th)
    (hs : tstep cfg sh .c th = some (sh', th')) (hd : dataPc th.pc = false) : CInv cfg sh.core th' := by
  have hcr := tstep_crash _ _ _ _ _ hs
  obtain ⟨hp, hc, hr⟩ := hok
  obtain ⟨hpc, hv, hpd⟩ := hi
  have hcells := hg.cells
  obtain ⟨pc, prog, cur, slice, filled, view, pending, res⟩ := th
  simp only at hp hc hr hd hpc hv hpd
  simp only [Sh.core] at hcells hpc hv hpd
  cases pc
  case idle =>
    simp only [tstep, Bool.false_eq_true, ↓reduceIte, hcr] at hs
    cases prog with
    | nil => simp at hs
    | cons call rest =>
      simp only [Option.some.injEq, Prod.mk.injEq] at hs
      obtain ⟨rfl, rfl⟩ := hs
      exact cInv_startCall cfg base _ _ call hg ⟨trivial, hv, hpd⟩ rfl (hp call (List.mem_cons_self ..))
  case l21 cpos =>
    simp only [tstep, Bool.false_eq_true, ↓reduceIte, hcr] at hs
    repeat' split at hs
    all_goals (simp only [Option.some.injEq, Prod.mk.injEq] at hs; obtain ⟨rfl, rfl⟩ := hs; exact ⟨trivial, hv, hpd⟩)
  case r61 n =>
    tstep_norm
    obtain ⟨rfl, rfl⟩ := hs
    exact ⟨rfl, hv, hpd⟩
  case r62 n cpos =>
    simp only [pcC] at hpc
    simp only [tstep, Bool.false_eq_true, ↓reduceIte, hcr] at hs
    split at hs
    · simp only [Option.some.injEq, Prod.mk.injEq] at hs; obtain ⟨rfl, rfl⟩ := hs
      refine ⟨⟨hpc, ?_, Nat.zero_le _, by simp [segment_zero]⟩, hv, hpd⟩
      show cpos + min n (cfg.size - cfg.idx cpos) ≤ sh.pseq
      have := Nat.min_le_left n (cfg.size - cfg.idx cpos)
      omega
    · split at hs
      · simp only [Option.some.injEq, Prod.mk.injEq] at hs; obtain ⟨rfl, rfl⟩ := hs
        refine ⟨⟨hpc, ?_, Nat.zero_le _, by simp [segment_zero]⟩, hv, hpd⟩
        show cpos + (if cfg.idx cpos + (sh.pseq - cpos) < cfg.size then min n (sh.pseq - cpos) else min n (cfg.size - cfg.idx cpos)) ≤ sh.pseq
        split
        · have := Nat.min_le_right n (sh.pseq - cpos); omega
        · have := Nat.min_le_right n (cfg.size - cfg.idx cpos); omega
      · simp only [Option.some.injEq, Prod.mk.injEq] at hs; obtain ⟨rfl, rfl⟩ := hs
        exact ⟨hpc, hv, hpd⟩
  case r74 n cpos =>
    simp only [pcC] at hpc
    tstep_norm
    rcases hs with ⟨h1, rfl, rfl⟩ | ⟨h1, rfl, rfl⟩
    · exact ⟨hpc, hv, hpd⟩
    · refine ⟨?_, hv, hpd⟩
      show sh.cseq < sh.pseq
      omega
  case r78 n cpos =>
    simp only [pcC] at hpc
    tstep_norm
    rcases hs with ⟨h1, rfl, rfl⟩ | ⟨h1, rfl, rfl⟩
    · exact ⟨hpc, hv, hpd⟩
    · refine ⟨?_, hv, hpd⟩
      show sh.cseq < sh.pseq
      omega
  case r75r n cpos =>
    simp only [pcC] at hpc
    tstep_norm
    rcases hs with ⟨h1, rfl, rfl⟩ | ⟨h1, rfl, rfl⟩
    · exact ⟨hpc, hv, hpd⟩
    · refine ⟨?_, hv, hpd⟩
      show sh.cseq < sh.pseq
      omega
  case p84r w n cpos =>
    simp only [pcC] at hpc
    tstep_norm
    rcases hs with ⟨h1, rfl, rfl⟩ | ⟨h1, rfl, rfl⟩
    · exact ⟨hpc, hv, hpd⟩
    · exact ⟨⟨hpc, Nat.le_refl _, by simpa using h1⟩, hv, hpd⟩
  case r63c b cpos k j acc =>
    simp only [pcC] at hpc
    obtain ⟨e1, e2, e3, e4⟩ := hpc
    tstep_norm
    rcases hs with ⟨h1, rfl, rfl⟩ | ⟨h1, rfl, rfl⟩
    · exact ⟨⟨e1, e2, by omega, read_acc cfg sh.buf sh.cseq sh.pseq cpos k j acc hcells e1 e2 h1 e4⟩, hv, hpd⟩
    · have hj : j = k := by omega
      subst hj
      have hl := acc_len _ _ _ _ e4
      exact ⟨⟨e1, by rw [hl]; exact e2, by rw [hl]; exact e4⟩, hv, hpd⟩
  case p80 w n =>
    tstep_norm
    obtain ⟨rfl, rfl⟩ := hs
    exact ⟨rfl, hv, hpd⟩
  case p83 w n cpos =>
    simp only [pcC] at hpc
    tstep_norm
    rcases hs with ⟨h1, rfl, rfl⟩ | ⟨h1, rfl, rfl⟩
    · exact ⟨hpc, hv, hpd⟩
    · exact ⟨⟨hpc, Nat.le_refl _, by simpa using h1⟩, hv, hpd⟩
  case p87 w n cpos =>
    simp only [pcC] at hpc
    tstep_norm
    rcases hs with ⟨h1, rfl, rfl⟩ | ⟨h1, rfl, rfl⟩
    · exact ⟨hpc, hv, hpd⟩
    · exact ⟨⟨hpc, Nat.le_refl _, by simpa using h1⟩, hv, hpd⟩
  case p88 w n cpos ppos =>
    simp only [pcC] at hpc
    obtain ⟨e1, e2, e3⟩ := hpc
    have hm : cpos + (if w = true then n else if ppos - cpos ≥ n then n else ppos - cpos) ≤ sh.pseq := by
      unfold mustWait at e3
      cases w
      · simp only [Bool.false_eq_true, ↓reduceIte, decide_eq_false_iff_not, Nat.not_le, ge_iff_le] at e3 ⊢
        split <;> omega
      · simp only [↓reduceIte, decide_eq_false_iff_not, Nat.not_lt, gt_iff_lt] at e3 ⊢
        omega
    tstep_norm
    rcases hs with ⟨h1, rfl, rfl⟩ | ⟨h1, rfl, rfl⟩
    · exact ⟨⟨e1, hm, Nat.zero_le _, by simp [segment_zero]⟩, hv, hpd⟩
    · exact ⟨trivial, ⟨e1, hm⟩, hpd⟩
  case p89c w cpos m err j acc =>
    simp only [pcC] at hpc
    obtain ⟨e1, e2, e3, e4⟩ := hpc
    tstep_norm
    rcases hs with ⟨h1, rfl, rfl⟩ | ⟨h1, rfl, rfl⟩
    · exact ⟨⟨e1, e2, by omega, read_acc cfg sh.buf sh.cseq sh.pseq cpos m j acc hcells e1 e2 h1 e4⟩, hv, hpd⟩
    · have hj : j = m := by omega
      subst hj
      refine ⟨trivial, ⟨e1, ?_, ?_⟩, hpd⟩
      · show cpos + acc.reverse.length ≤ sh.pseq
        rw [e4, segment_length]; exact e2
      · show acc.reverse = segment cfg.src cpos acc.reverse.length
        rw [e4, segment_length]
  case k100 n =>
    simp only [pcC] at hpc
    tstep_norm
    obtain ⟨rfl, rfl⟩ := hs
    exact ⟨⟨rfl, hpc⟩, hv, hpd⟩
  case k101 n cpos =>
    simp only [pcC] at hpc
    tstep_norm
    rcases hs with ⟨h1, rfl, rfl⟩ | ⟨h1, rfl, rfl⟩
    · exact ⟨⟨hpc.1, h1, hpc.2⟩, hv, hpd⟩
    · exact ⟨trivial, hv, hpd⟩
  case u0 cpos m j acc =>
    simp only [pcC] at hpc
    obtain ⟨e1, e2, e3, e4⟩ := hpc
    tstep_norm
    rcases hs with ⟨h1, rfl, rfl⟩ | ⟨h1, rfl, rfl⟩
    · exact ⟨⟨e1, e2, by omega, read_acc cfg sh.buf sh.cseq sh.pseq cpos m j acc hcells e1 e2 h1 e4⟩, hv, hpd⟩
    · have hj : j = m := by omega
      subst hj
      refine ⟨trivial, hv, ⟨?_, ?_⟩⟩
      · show acc.reverse = segment cfg.src sh.cseq acc.reverse.length
        rw [e4, segment_length, e1]
      · show sh.cseq + acc.reverse.length ≤ sh.pseq
        rw [e4, segment_length, ← e1]; exact e2
  case x16 =>
    tstep_norm
    obtain ⟨rfl, rfl⟩ := hs
    unfold closeRet
    split <;> exact ⟨trivial, hv, hpd⟩
  all_goals (first | (simp [dataPc] at hd; done) | (simp [pcRole, roleOK] at hr; done) | skip)
  all_goals tstep_norm
  all_goals tstep_elim
  all_goals (first
    | exact ⟨trivial, hv, hpd⟩
    | exact ⟨hpc, hv, hpd⟩)

theorem cons_data (cfg : Cfg) (base : Nat) (sh sh' : Sh) (th th' : Th)
    (hg : Glob cfg base sh.core) (hi : CInv cfg sh.core th) (hok : ThOK .c th)
    (hs : tstep cfg sh .c th = some (sh', th')) (hd : dataPc th.pc = true) :
    Glob cfg base sh'.core ∧ CInv cfg sh'.core th' ∧ sh'.core.buf = sh.core.buf ∧ sh'.core.pseq = sh.core.pseq ∧
      sh'.core.gate = sh.core.gate ∧ sh.core.cseq ≤ sh'.core.cseq := by
  have hcr := tstep_crash _ _ _ _ _ hs
  obtain ⟨hp, hc, hr⟩ := hok
  obtain ⟨hpc, hv, hpd⟩ := hi
  obtain ⟨hbs, hcp, hpcs, hgc, hcells, hbase, hgot⟩ := hg
  obtain ⟨pc, prog, cur, slice, filled, view, pending, res⟩ := th
  simp only [Sh.core] at hbs hcp hpcs hgc hcells hbase hgot hpc hv hpd
  cases pc
  case r64 b cpos acc =>
    simp only [pcC] at hpc
    obtain ⟨e1, e2, e3⟩ := hpc
    tstep_norm
    obtain ⟨rfl, rfl⟩ := hs
    subst e1
    refine ⟨⟨hbs, e2, ?_, ?_, ?_, ?_, ?_⟩, ⟨⟨e2, e3⟩, trivial, ⟨(segment_zero _ _).symm, ?_⟩⟩, rfl, rfl, rfl, ?_⟩
    · show sh.pseq ≤ sh.cseq + acc.length + cfg.size
      omega
    · show sh.gate ≤ sh.cseq + acc.length
      omega
    · intro i h1 h2
      exact hcells i (Nat.le_trans (Nat.le_add_right _ _) h1) h2
    · show base ≤ sh.cseq + acc.length
      omega
    · show (acc ++ sh.gotRev).reverse = segment cfg.src base (sh.cseq + acc.length - base)
      rw [List.reverse_append, hgot, e3, show sh.cseq + acc.length - base = (sh.cseq - base) + acc.length by omega,
        segment_append, show base + (sh.cseq - base) = sh.cseq by omega]
    · show sh.cseq + acc.length + ([] : List UInt8).length ≤ sh.pseq
      simpa using e2
    · show sh.cseq ≤ sh.cseq + acc.length
      omega
  case k102 n cpos =>
    simp only [pcC] at hpc
    obtain ⟨e1, e2, e3⟩ := hpc
    have e3' : n ≤ pending.length := e3
    tstep_norm
    obtain ⟨rfl, rfl⟩ := hs
    subst e1
    have hpd1 : pending = segment cfg.src sh.cseq pending.length := hpd.1
    refine ⟨⟨hbs, e2, ?_, ?_, ?_, ?_, ?_⟩, ⟨trivial, trivial, ⟨(segment_zero _ _).symm, ?_⟩⟩, rfl, rfl, rfl, ?_⟩
    · show sh.pseq ≤ sh.cseq + n + cfg.size
      omega
    · show sh.gate ≤ sh.cseq + n
      omega
    · intro i h1 h2
      exact hcells i (Nat.le_trans (Nat.le_add_right _ _) h1) h2
    · show base ≤ sh.cseq + n
      omega
    · show ((pending.take n).reverse ++ sh.gotRev).reverse = segment cfg.src base (sh.cseq + n - base)
      rw [List.reverse_append, List.reverse_reverse, hgot, hpd1, segment_take _ _ _ _ e3',
        show sh.cseq + n - base = (sh.cseq - base) + n by omega,
        segment_append, show base + (sh.cseq - base) = sh.cseq by omega]
    · show sh.cseq + n + ([] : List UInt8).length ≤ sh.pseq
      simpa using e2
    · show sh.cseq ≤ sh.cseq + n
      omega
  all_goals (first | (simp [dataPc] at hd; done) | (simp [pcRole, roleOK] at hr; done))

/-- the slice `ReadFrom` offers its reader (mark 112): at least one byte — so a reader is never handed
an empty slice, which it would answer with `(0, nil)` for ever —, at most one read block, not past the
end of the ring, and inside the free part of the ring as of the consumer cursor just loaded -/
theorem readfrom_len_arith (sz rb h b : Nat) (hrb : 0 < rb) (hb : b < sz) (h2 : h + 1 ≤ sz) :
    let c := min rb (sz - h)
    let len := if b + c > sz then sz - b else c
    1 ≤ len ∧ len ≤ rb ∧ b + len ≤ sz ∧ h + len ≤ sz := by
  intro c len
  have hm1 : c ≤ rb := Nat.min_le_left _ _
  have hm2 : c ≤ sz - h := Nat.min_le_right _ _
  have hm3 : 1 ≤ c := by show 1 ≤ min rb (sz - h); rw [Nat.le_min]; omega
  show 1 ≤ (if b + c > sz then sz - b else c) ∧ (if b + c > sz then sz - b else c) ≤ rb ∧
    b + (if b + c > sz then sz - b else c) ≤ sz ∧ h + (if b + c > sz then sz - b else c) ≤ sz
  generalize c = c' at hm1 hm2 hm3
  split <;> omega

theorem readfrom_len (cfg : Cfg) (cseq ppos : Nat) (hrb : 0 < cfg.rblock) (h1 : cseq ≤ ppos)
    (h2 : ppos + 1 ≤ cseq + cfg.size) :
    let len := if cfg.idx ppos + min cfg.rblock (cfg.size - (ppos - cseq)) > cfg.size then cfg.size - cfg.idx ppos
               else min cfg.rblock (cfg.size - (ppos - cseq))
    1 ≤ len ∧ len ≤ cfg.rblock ∧ cfg.idx ppos + len ≤ cfg.size ∧ ppos + len ≤ cseq + cfg.size := by
  intro len
  obtain ⟨a, b, c, d⟩ := readfrom_len_arith cfg.size cfg.rblock (ppos - cseq) (cfg.idx ppos) hrb (idx_lt cfg ppos) (by omega)
  refine ⟨a, b, c, ?_⟩
  have : ppos = cseq + (ppos - cseq) := by omega
  have d' : ppos - cseq + len ≤ cfg.size := d
  omega

/-! ### the invariant of the whole system -/

theorem role_any_noData (i : Nat) (pc : Pc) (h : roleOK (.k i) (pcRole pc) = true) : dataPc pc = false := by
  cases pc <;> first | rfl | (simp [pcRole, roleOK] at h)

/-- the safety invariant of the whole system; `base` = stream position at which the ring started -/
structure RInv (cfg : Cfg) (base : Nat) (s : St) : Prop where
  glob : Glob cfg base s.sh.core
  okP : ThOK .p s.P
  okC : ThOK .c s.C
  okK : ∀ i th, s.K[i]? = some th → ThOK (.k i) th
  invP : PInv cfg s.sh.core s.P
  invC : CInv cfg s.sh.core s.C

/-- what a step may do to the core, by role (guarantee) -/
def CoreStep (c c' : Core) : Prop :=
  c.cseq ≤ c'.cseq ∧ c.pseq ≤ c'.pseq

theorem inv_step (cfg : Cfg) (base : Nat) (s s' : St) (t : Tid) (h : RInv cfg base s)
    (hs : step cfg s t = some s') : RInv cfg base s' := by
  obtain ⟨hg, hP, hC, hK, hiP, hiC⟩ := h
  unfold step at hs
  cases t with
  | p =>
    simp only [St.getTh] at hs
    split at hs
    · simp at hs
    · rename_i sh' th' hst
      simp only [Option.some.injEq] at hs
      subst hs
      simp only [St.setTh]
      have hok := thOK_step cfg .p _ _ _ _ hP hst
      by_cases hd : dataPc s.P.pc = true
      · obtain ⟨g', p', e1, e2, e3⟩ := prod_data cfg base _ _ _ _ hg hiP hP hst hd
        exact ⟨g', hok, hC, hK, p', CInv_stable cfg _ _ _ hiC e1 e2⟩
      · have hd' : dataPc s.P.pc = false := by simpa using hd
        have hc := core_frame cfg _ _ _ _ _ hst hd'
        have p' := prod_frame cfg base _ _ _ _ hg hiP hP hst hd'
        refine ⟨?_, hok, hC, hK, ?_, ?_⟩ <;> (show _ ; rw [hc]) <;> assumption
  | c =>
    simp only [St.getTh] at hs
    split at hs
    · simp at hs
    · rename_i sh' th' hst
      simp only [Option.some.injEq] at hs
      subst hs
      simp only [St.setTh]
      have hok := thOK_step cfg .c _ _ _ _ hC hst
      by_cases hd : dataPc s.C.pc = true
      · obtain ⟨g', c', e1, e2, e3, e4⟩ := cons_data cfg base _ _ _ _ hg hiC hC hst hd
        exact ⟨g', hP, hok, hK, PInv_stable cfg _ _ _ hiP e1 e2 e3 e4, c'⟩
      · have hd' : dataPc s.C.pc = false := by simpa using hd
        have hc := core_frame cfg _ _ _ _ _ hst hd'
        have c' := cons_frame cfg base _ _ _ _ hg hiC hC hst hd'
        refine ⟨?_, hP, hok, hK, ?_, ?_⟩ <;> (show _ ; rw [hc]) <;> assumption
  | k i =>
    simp only [St.getTh] at hs
    split at hs
    · simp at hs
    · rename_i th hth
      split at hs
      · simp at hs
      · rename_i sh' th' hst
        simp only [Option.some.injEq] at hs
        subst hs
        simp only [St.setTh]
        have hok0 := hK i th hth
        have hok := thOK_step cfg (.k i) _ _ _ _ hok0 hst
        have hc := core_frame cfg _ _ _ _ _ hst (role_any_noData i _ hok0.role)
        refine ⟨?_, hP, hC, ?_, ?_, ?_⟩
        · show Glob cfg base sh'.core
          rw [hc]; exact hg
        · intro j th2 hj
          show ThOK (.k j) th2
          have hj' : (s.K.set i th')[j]? = some th2 := hj
          rw [List.getElem?_set] at hj'
          split at hj'
          · rename_i hij
            split at hj'
            · simp only [Option.some.injEq] at hj'; subst hj'; subst hij; exact hok
            · simp at hj'
          · exact hK j th2 hj'
        · show PInv cfg sh'.core s.P
          rw [hc]; exact hiP
        · show CInv cfg sh'.core s.C
          rw [hc]; exact hiC

/-- well-typed thread programs: producer calls on `p`, consumer calls on `c`, closers only close (or ask the length) -/
structure ProgsOK (progP progC : List Call) (progsK : List (List Call)) : Prop where
  p : ∀ c ∈ progP, Tid.p.allowed c = true
  c : ∀ c ∈ progC, Tid.c.allowed c = true
  k : ∀ pr ∈ progsK, ∀ c ∈ pr, (Tid.k 0).allowed c = true

theorem rinv_init (cfg : Cfg) (adv gate : Nat) (progP progC : List Call) (progsK : List (List Call))
    (hgate : gate ≤ adv) (hok : ProgsOK progP progC progsK) :
    RInv cfg adv (mkInit cfg adv gate progP progC progsK) := by
  refine ⟨⟨?_, Nat.le_refl _, Nat.le_add_right _ _, hgate, ?_, Nat.le_refl _, ?_⟩, ⟨hok.p, nofun, rfl⟩, ⟨hok.c, nofun, rfl⟩, ?_,
    ⟨trivial, nofun, ⟨Filled_zero _ _ _, fun h => absurd h (Nat.lt_irrefl 0)⟩⟩,
    ⟨trivial, trivial, ⟨(segment_zero _ _).symm, Nat.le_refl _⟩⟩⟩
  · show (Array.replicate cfg.size (0 : UInt8)).size = cfg.size
    simp
  · intro i h1 h2
    exact absurd h2 (Nat.not_lt.mpr h1)
  · show ([] : List UInt8).reverse = segment cfg.src adv (adv - adv)
    simp [segment_zero]
  · intro i th hi
    have hi' : (progsK.map (fun p => ({ prog := p } : Th)))[i]? = some th := hi
    rw [List.getElem?_map] at hi'
    cases hpr : progsK[i]? with
    | none => simp [hpr] at hi'
    | some pr =>
      simp only [hpr, Option.map_some, Option.some.injEq] at hi'
      subst hi'
      exact ⟨fun c hc => hok.k pr (List.mem_of_getElem? hpr) c hc, nofun, rfl⟩

theorem rinv_run (cfg : Cfg) (base : Nat) (s : St) (sched : List Tid) (h : RInv cfg base s) :
    RInv cfg base (run cfg s sched) := by
  induction sched generalizing s with
  | nil => exact h
  | cons t ts ih =>
    unfold run
    apply ih
    cases hs : step cfg s t with
    | none => exact h
    | some s' => exact inv_step cfg base s s' t h hs

/-- which parts of the core a step of thread `t` leaves alone -/
theorem step_core (cfg : Cfg) (base : Nat) (s s' : St) (t : Tid) (h : RInv cfg base s)
    (hs : step cfg s t = some s') :
    (t = .c → s'.sh.buf = s.sh.buf) ∧ (t ≠ .c → s'.sh.cseq = s.sh.cseq ∧ s.sh.pseq ≤ s'.sh.pseq) := by
  obtain ⟨hg, hP, hC, hK, hiP, hiC⟩ := h
  unfold step at hs
  cases t with
  | p =>
    simp only [St.getTh] at hs
    split at hs
    · simp at hs
    · rename_i sh' th' hst
      simp only [Option.some.injEq] at hs
      subst hs
      refine ⟨nofun, fun _ => ?_⟩
      by_cases hd : dataPc s.P.pc = true
      · obtain ⟨g', p', e1, e2, e3⟩ := prod_data cfg base _ _ _ _ hg hiP hP hst hd
        exact ⟨e1, e2⟩
      · have hc := core_frame cfg _ _ _ _ _ hst (by simpa using hd)
        exact ⟨congrArg Core.cseq hc, Nat.le_of_eq (congrArg Core.pseq hc).symm⟩
  | c =>
    simp only [St.getTh] at hs
    split at hs
    · simp at hs
    · rename_i sh' th' hst
      simp only [Option.some.injEq] at hs
      subst hs
      refine ⟨fun _ => ?_, fun h => absurd rfl h⟩
      by_cases hd : dataPc s.C.pc = true
      · obtain ⟨g', c', e1, e2, e3, e4⟩ := cons_data cfg base _ _ _ _ hg hiC hC hst hd
        exact e1
      · have hc := core_frame cfg _ _ _ _ _ hst (by simpa using hd)
        exact congrArg Core.buf hc
  | k i =>
    simp only [St.getTh] at hs
    split at hs
    · simp at hs
    · rename_i th hth
      split at hs
      · simp at hs
      · rename_i sh' th' hst
        simp only [Option.some.injEq] at hs
        subst hs
        have hc := core_frame cfg _ _ _ _ _ hst (role_any_noData i _ (hK i th hth).role)
        exact ⟨nofun, fun _ => ⟨congrArg Core.cseq hc, Nat.le_of_eq (congrArg Core.pseq hc).symm⟩⟩

/-! ### results handed to the consumer -/

/-- what a result handed to the consumer must be: the stream at its offset, below the producer's
commit position (`Spec.Ring.chunkOk`) -/
def resOK (cfg : Cfg) (pseq : Nat) (r : Res) : Prop := chunkOk cfg.src r.off pseq r.data

theorem resOK_nil (cfg : Cfg) (pseq : Nat) (r : Res) (hd : r.data = []) (ho : r.off ≤ pseq) : resOK cfg pseq r := by
  unfold resOK chunkOk
  rw [hd]; exact ⟨by simpa using ho, by simp [segment_zero]⟩

theorem startCall_res (cfg : Cfg) (base : Nat) (c : Core) (th : Th) (call : Call) (hg : Glob cfg base c)
    (hi : CInv cfg c th) (r : Res) (hr : (startCall cfg th call).res = some r) (h0 : th.res = none) :
    resOK cfg c.pseq r := by
  obtain ⟨hpc, hv, hpd⟩ := hi
  cases call <;> simp only [startCall, enterWfs, wfsErr, Th.goto, Th.ret] at hr
  case use =>
    split at hr
    · simp only [h0] at hr; cases hr
    · rename_i cpos bytes hvw
      simp only [Option.some.injEq] at hr
      subst hr
      rw [hvw] at hv
      obtain ⟨a, b, d⟩ := hv
      exact ⟨b, d⟩
    · simp only [Option.some.injEq] at hr
      subst hr
      exact resOK_nil cfg _ _ rfl (Nat.zero_le _)
  all_goals (repeat' split at hr)
  all_goals (first
    | (simp only [Option.some.injEq] at hr; subst hr; exact resOK_nil cfg _ _ rfl (Nat.zero_le _))
    | (simp only [h0] at hr; cases hr; done))

theorem closeRet_res (th : Th) (r : Res) (h : (closeRet th).res = some r) : r.data = [] ∧ r.off = 0 := by
  unfold closeRet at h
  split at h <;> (simp only [Th.ret, Option.some.injEq] at h; subst h; exact ⟨rfl, rfl⟩)

/-- **every result the consumer is handed is the stream at its offset** -/
theorem cons_res (cfg : Cfg) (base : Nat) (sh sh' : Sh) (th th' : Th)
    (hg : Glob cfg base sh.core) (hi : CInv cfg sh.core th) (hok : ThOK .c th)
    (hs : tstep cfg sh .c th = some (sh', th')) (r : Res) (hr : th'.res = some r) :
    resOK cfg sh'.pseq r := by
  have hcr := tstep_crash _ _ _ _ _ hs
  obtain ⟨hp, hc, hrl⟩ := hok
  obtain ⟨hpc, hv, hpd⟩ := hi
  have hcp : sh.cseq ≤ sh.pseq := hg.cp
  obtain ⟨pc, prog, cur, slice, filled, view, pending, res⟩ := th
  simp only at hp hc hrl hpc hv hpd
  simp only [Sh.core] at hpc hv hpd
  cases pc
  case idle =>
    simp only [tstep, Bool.false_eq_true, ↓reduceIte, hcr] at hs
    cases prog with
    | nil => simp at hs
    | cons call rest =>
      simp only [Option.some.injEq, Prod.mk.injEq] at hs
      obtain ⟨rfl, rfl⟩ := hs
      exact startCall_res cfg base sh.core ⟨Pc.idle, rest, some call, slice, filled, view, pending, none⟩ call hg
        ⟨trivial, hv, hpd⟩ r hr rfl
  case l21 cpos =>
    simp only [tstep, Bool.false_eq_true, ↓reduceIte, hcr] at hs
    repeat' split at hs
    all_goals (
      simp only [Option.some.injEq, Prod.mk.injEq] at hs
      obtain ⟨rfl, rfl⟩ := hs
      simp only [Th.goto, Th.ret, Option.some.injEq] at hr
      first
      | (subst hr; exact resOK_nil cfg _ _ rfl (Nat.zero_le _))
      | (cases hr; done))
  case r62 n cpos =>
    simp only [tstep, Bool.false_eq_true, ↓reduceIte, hcr] at hs
    repeat' split at hs
    all_goals (
      simp only [Option.some.injEq, Prod.mk.injEq] at hs
      obtain ⟨rfl, rfl⟩ := hs
      simp only [Th.goto] at hr
      cases hr)
  case r67 b cpos acc =>
    simp only [pcC] at hpc
    tstep_norm
    obtain ⟨rfl, rfl⟩ := hs
    simp only [Th.ret, Option.some.injEq] at hr
    subst hr
    refine ⟨?_, ?_⟩
    · show cpos + acc.reverse.length ≤ (sh.unlock .pL).pseq
      rw [List.length_reverse, show (sh.unlock .pL).pseq = sh.pseq from congrArg Core.pseq (core_unlock sh .pL)]; exact hpc.1
    · show acc.reverse = segment cfg.src cpos acc.reverse.length
      rw [List.length_reverse]; exact hpc.2
  case p88 w n cpos ppos =>
    simp only [pcC] at hpc
    tstep_norm
    rcases hs with ⟨h1, rfl, rfl⟩ | ⟨h1, rfl, rfl⟩
    · simp only [Th.goto] at hr; cases hr
    · simp only [Th.ret, Option.some.injEq] at hr
      subst hr
      refine resOK_nil cfg _ _ rfl ?_
      show cpos ≤ (sh.unlock .cL).pseq
      rw [show (sh.unlock .cL).pseq = sh.pseq from congrArg Core.pseq (core_unlock sh .cL)]; omega
  case p89c w cpos m err j acc =>
    simp only [pcC] at hpc
    tstep_norm
    rcases hs with ⟨h1, rfl, rfl⟩ | ⟨h1, rfl, rfl⟩
    · simp only [Th.goto] at hr; cases hr
    · simp only [Th.ret, Option.some.injEq] at hr
      subst hr
      refine resOK_nil cfg _ _ rfl ?_
      show cpos ≤ sh.pseq
      omega
  case u0 cpos m j acc =>
    simp only [pcC] at hpc
    obtain ⟨e1, e2, e3, e4⟩ := hpc
    tstep_norm
    rcases hs with ⟨h1, rfl, rfl⟩ | ⟨h1, rfl, rfl⟩
    · simp only [Th.goto] at hr; cases hr
    · have hj : j = m := by omega
      subst hj
      simp only [Th.ret, Option.some.injEq] at hr
      subst hr
      refine ⟨?_, ?_⟩
      · show cpos + acc.reverse.length ≤ sh.pseq
        rw [e4, segment_length]; exact e2
      · show acc.reverse = segment cfg.src cpos acc.reverse.length
        rw [e4, segment_length]
  case x16 =>
    tstep_norm
    obtain ⟨rfl, rfl⟩ := hs
    obtain ⟨hd, ho⟩ := closeRet_res _ r hr
    exact resOK_nil cfg _ _ hd (by rw [ho]; exact Nat.zero_le _)
  all_goals (first | (simp [pcRole, roleOK] at hrl; done) | skip)
  all_goals tstep_norm
  all_goals tstep_elim
  all_goals (simp only [Th.goto, Th.ret, Option.some.injEq] at hr)
  all_goals (first
    | (subst hr; exact resOK_nil cfg _ _ rfl (Nat.zero_le _))
    | (cases hr; done))


end Mqtt.Proofs.Ring
