/-
Core B, retained trie: abstraction `absR`, well-formedness `RWF`, the walk
`rwalk` of `rmatch` (recursion on the FILTER's levels), characterisation of
`rmatchL`, refinement lemmas for `rinsertL` / `rremoveL`.  Helper lemmas only.
-/
import Mqtt.Proofs.TopicsStore
import Mqtt.Proofs.TopicsLevels

set_option linter.unusedSimpArgs false

namespace Mqtt.Proofs.Topics
open Mqtt.Model.Topics

abbrev REntry := List Level × RMsg

/-! ### abstraction and well-formedness -/

mutual
  /-- every (path from this node, message) held in the retained trie -/
  def absR : RNode → List REntry
    | .mk m kids => m.toList.map (fun x => (([] : List Level), x)) ++ absRKids kids
  def absRKids : List (Level × RNode) → List REntry
    | [] => []
    | (k, n) :: rest => (absR n).map (fun e => (k :: e.1, e.2)) ++ absRKids rest
end

def absRKid (p : Level × RNode) : List REntry := (absR p.2).map (fun e => (p.1 :: e.1, e.2))

theorem absRKids_eq_flatMap (kids : List (Level × RNode)) : absRKids kids = kids.flatMap absRKid := by
  induction kids with
  | nil => simp [absRKids]
  | cons p rest ih => obtain ⟨k, n⟩ := p; simp [absRKids, absRKid, ih]

theorem absR_mk (m : Option RMsg) (kids : List (Level × RNode)) :
    absR (.mk m kids) = m.toList.map (fun x => (([] : List Level), x)) ++ kids.flatMap absRKid := by
  rw [absR, absRKids_eq_flatMap]

theorem absR_empty : absR RNode.empty = [] := by simp [RNode.empty, absR_mk]

mutual
  def RWF : RNode → Prop
    | .mk _ kids => (kids.map (·.1)).Nodup ∧ RWFKids kids
  def RWFKids : List (Level × RNode) → Prop
    | [] => True
    | (_, n) :: rest => RWF n ∧ RWFKids rest
end

theorem RWFKids_iff (kids : List (Level × RNode)) : RWFKids kids ↔ ∀ p ∈ kids, RWF p.2 := by
  induction kids with
  | nil => simp [RWFKids]
  | cons p rest ih => obtain ⟨k, n⟩ := p; simp [RWFKids, ih]

theorem RWF_mk (m : Option RMsg) (kids : List (Level × RNode)) :
    RWF (.mk m kids) ↔ (kids.map (·.1)).Nodup ∧ ∀ p ∈ kids, RWF p.2 := by
  rw [RWF, RWFKids_iff]

theorem RWF_empty : RWF RNode.empty := by simp [RNode.empty, RWF_mk]

/-! ### `allRetained` -/

mutual
  theorem allRetained_eq : ∀ n : RNode, n.allRetained = (absR n).map (·.2)
    | .mk m kids => by
      rw [RNode.allRetained, absR, List.map_append, allRetainedKids_eq kids]
      simp [List.map_map, Function.comp_def]
  theorem allRetainedKids_eq : ∀ kids : List (Level × RNode),
      RNode.allRetainedKids kids = (absRKids kids).map (·.2)
    | [] => by simp [RNode.allRetainedKids, absRKids]
    | (k, n) :: rest => by
      rw [RNode.allRetainedKids, absRKids, List.map_append, allRetained_eq n, allRetainedKids_eq rest]
      simp [List.map_map, Function.comp_def]
end

/-! ### the walk of `rmatch` -/

/-- `rwalk filter path`: does `rmatch`, walking along the filter's levels,
collect the message stored under `path`? -/
def rwalk : List Level → List Level → Bool
  | [], [] => true
  | [], _ :: _ => false
  | f :: _, [] => f == MWC
  | f :: fs, k :: p => if f == MWC then true else (f == SWC || f == k) && rwalk fs p

def selR (fs : List Level) (es : List REntry) : List RMsg :=
  es.filterMap (fun e => if rwalk fs e.1 then some e.2 else none)

theorem selR_append (fs : List Level) (a b : List REntry) : selR fs (a ++ b) = selR fs a ++ selR fs b := by
  simp [selR]

theorem selR_flatMap {α} (fs : List Level) (l : List α) (g : α → List REntry) :
    selR fs (l.flatMap g) = l.flatMap (fun a => selR fs (g a)) := by
  simp [selR, List.filterMap_flatMap]

theorem selR_msg_nil (m : Option RMsg) : selR [] (m.toList.map (fun x => (([] : List Level), x))) = m.toList := by
  cases m <;> simp [selR, rwalk]

theorem selR_msg_cons (l : Level) (ls : List Level) (m : Option RMsg) (h : (l == MWC) = false) :
    selR (l :: ls) (m.toList.map (fun x => (([] : List Level), x))) = [] := by
  cases m <;> simp [selR, rwalk, h]

theorem selR_kids_nil (kids : List (Level × RNode)) : selR [] (kids.flatMap absRKid) = [] := by
  rw [selR, List.filterMap_eq_nil_iff]
  intro e he
  obtain ⟨p, _, hp⟩ := List.mem_flatMap.mp he
  obtain ⟨e', _, rfl⟩ := List.mem_map.mp hp
  simp [rwalk]

theorem selR_mwc (ls : List Level) (es : List REntry) : selR (MWC :: ls) es = es.map (·.2) := by
  induction es with
  | nil => rfl
  | cons e rest ih =>
    have : rwalk (MWC :: ls) e.1 = true := by
      cases h : e.1 <;> simp [rwalk]
    simp only [selR, List.filterMap_cons, this, ↓reduceIte, List.map_cons]
    rw [← ih]; rfl

theorem selR_absRKid (l : Level) (ls : List Level) (p : Level × RNode) (h : (l == MWC) = false) :
    selR (l :: ls) (absRKid p) = if l == SWC || l == p.1 then selR ls (absR p.2) else [] := by
  rw [selR, absRKid, List.filterMap_map]
  by_cases h2 : (l == SWC || l == p.1) = true
  · simp [Function.comp_def, rwalk, h, h2, selR]
  · simp [Function.comp_def, rwalk, h, h2]

/-! ### characterisation of `rmatchL` -/

theorem rmatch_char_aux (fs : List Level) :
    ∀ n, RWF n → ∃ r, RNode.rmatchL fs true n = some r ∧ r.Perm (selR fs (absR n)) := by
  induction fs with
  | nil =>
    intro n _
    obtain ⟨m, kids⟩ := n
    refine ⟨_, by simp only [RNode.rmatchL, ↓reduceIte]; rfl, ?_⟩
    rw [absR_mk, selR_append, selR_msg_nil, selR_kids_nil, List.append_nil]
  | cons l ls ih =>
    intro n hwf
    obtain ⟨m, kids⟩ := n
    rw [RWF_mk] at hwf
    by_cases h1 : l = MWC
    · subst h1
      refine ⟨_, by simp only [RNode.rmatchL, beq_self_eq_true, ↓reduceIte]; rfl, ?_⟩
      rw [selR_mwc, allRetained_eq]
    · have h1' : (l == MWC) = false := by simpa using h1
      rw [absR_mk, selR_append, selR_msg_cons l ls m h1', List.nil_append, selR_flatMap]
      simp only [selR_absRKid l ls _ h1']
      by_cases h2 : l = SWC
      · subst h2
        simp only [RNode.rmatchL, h1', Bool.false_eq_true, ↓reduceIte, beq_self_eq_true, Bool.true_or]
        apply optConcat_map_perm
        intro p hp
        exact ih p.2 (hwf.2 p hp)
      · have h2' : (l == SWC) = false := by simpa using h2
        simp only [RNode.rmatchL, h1', h2', Bool.false_eq_true, ↓reduceIte, Bool.false_or]
        have hsw : ∀ p : Level × RNode, (l == p.1) = (p.1 == l) := fun p => by
          by_cases e : l = p.1
          · rw [e]
          · have : ¬ p.1 = l := fun x => e x.symm
            rw [beq_eq_false_iff_ne.mpr e, beq_eq_false_iff_ne.mpr this]
        simp only [hsw]
        rw [kidGet_flatMap_unique kids l (fun c => selR ls (absR c)) hwf.1]
        cases hk : kidGet kids l with
        | none => exact ⟨_, rfl, List.Perm.refl _⟩
        | some c => exact ih c (hwf.2 _ (kidGet_some_mem kids l c hk))

theorem rmatch_char (n : RNode) (fs : List Level) (hwf : RWF n) :
    ∃ r, n.rmatchL fs true = some r ∧
      r.Perm ((absR n).filterMap (fun e => if rwalk fs e.1 then some e.2 else none)) :=
  rmatch_char_aux fs n hwf

/-- for valid filters (`#` only in the last position) the walk is the section 4.7 relation -/
theorem rwalk_eq_matchLevels (fs : List Level) (hv : Mqtt.Spec.Match.validFilterLevels fs = true) :
    ∀ p, rwalk fs p = Mqtt.Spec.Match.matchLevels fs p := by
  induction fs with
  | nil => intro p; cases p <;> rfl
  | cons f fs ih =>
    intro p
    have hfs : (f == MWC) = true → fs = [] := by
      intro hf
      have : f = MWC := by simpa using hf
      subst this
      cases fs with
      | nil => rfl
      | cons x xs =>
        rw [validFilterLevels_cons] at hv
        have : lvalidMid MWC = false := lvalidMid_hash
        simp [this] at hv
    have hvs : Mqtt.Spec.Match.validFilterLevels fs = true := by
      cases fs with
      | nil => rfl
      | cons x xs =>
        rw [validFilterLevels_cons] at hv
        simp only [Bool.and_eq_true] at hv
        exact hv.2
    cases p with
    | nil =>
      simp only [rwalk, Mqtt.Spec.Match.matchLevels]
      by_cases hf : (f == MWC) = true
      · rw [hfs hf]
        have : (f == [Mqtt.Spec.Match.HASH]) = true := hf
        simp [hf, this]
      · have hf' : (f == MWC) = false := by simpa using hf
        have : (f == [Mqtt.Spec.Match.HASH]) = false := hf'
        simp [this, hf']
    | cons k p =>
      simp only [rwalk, Mqtt.Spec.Match.matchLevels]
      by_cases hf : (f == MWC) = true
      · rw [hfs hf]
        have : (f == [Mqtt.Spec.Match.HASH]) = true := hf
        simp [hf, this]
      · have hf' : (f == MWC) = false := by simpa using hf
        have : (f == [Mqtt.Spec.Match.HASH]) = false := hf'
        simp only [this, hf', Bool.false_eq_true, ↓reduceIte, ih hvs p]
        rfl

/-! ### entries addressed by a path -/

theorem filterR_msg_cons (m : Option RMsg) (l : Level) (ls : List Level) :
    (m.toList.map (fun x => (([] : List Level), x))).filter (fun e => !(e.1 == l :: ls)) =
      m.toList.map (fun x => (([] : List Level), x)) := by
  cases m <;> simp

theorem filterR_msg_nil (m : Option RMsg) :
    (m.toList.map (fun x => (([] : List Level), x))).filter (fun e => !(e.1 == ([] : List Level))) = [] := by
  cases m <;> simp

theorem absRKid_path_ne_nil (p : Level × RNode) (e : REntry) (he : e ∈ absRKid p) : e.1 ≠ [] := by
  obtain ⟨e', _, rfl⟩ := List.mem_map.mp he
  simp

theorem filterR_kids_nil (kids : List (Level × RNode)) :
    (kids.flatMap absRKid).filter (fun e => !(e.1 == ([] : List Level))) = kids.flatMap absRKid := by
  rw [List.filter_eq_self]
  intro e he
  obtain ⟨p, _, hp⟩ := List.mem_flatMap.mp he
  have := absRKid_path_ne_nil p e hp
  simp [this]

theorem filterR_absRKid (p : Level × RNode) (l : Level) (ls : List Level) :
    (absRKid p).filter (fun e => !(e.1 == l :: ls)) =
      if p.1 == l then ((absR p.2).filter (fun e => !(e.1 == ls))).map (fun e => (p.1 :: e.1, e.2))
      else absRKid p := by
  by_cases h : p.1 = l
  · simp only [h, beq_self_eq_true, ↓reduceIte, absRKid]
    rw [List.filter_map]
    congr 1
    apply List.filter_congr
    intro e _
    simp
  · have h1 : (p.1 == l) = false := by simp [h]
    simp only [h1, Bool.false_eq_true, ↓reduceIte]
    rw [List.filter_eq_self]
    intro e he
    obtain ⟨e', _, rfl⟩ := List.mem_map.mp he
    simp [h]

theorem filterR_kidDel (kids : List (Level × RNode)) (l : Level) (ls : List Level) :
    ((kidDel kids l).flatMap absRKid).filter (fun e => !(e.1 == l :: ls)) = (kidDel kids l).flatMap absRKid := by
  rw [List.filter_flatMap]
  apply flatMap_congr'
  intro p hp
  have := ((mem_kidDel kids l p).mp hp).2
  rw [filterR_absRKid]
  simp [this]

theorem filterR_absR_cons (m : Option RMsg) (kids : List (Level × RNode)) (l : Level) (ls : List Level)
    (hu : (kids.map (·.1)).Nodup) :
    ((absR (.mk m kids)).filter (fun e => !(e.1 == l :: ls))).Perm
      (m.toList.map (fun x => (([] : List Level), x)) ++
        ((((absR ((kidGet kids l).getD RNode.empty)).filter (fun e => !(e.1 == ls))).map (fun e => (l :: e.1, e.2))) ++
          (kidDel kids l).flatMap absRKid)) := by
  rw [absR_mk, List.filter_append, filterR_msg_cons]
  apply List.Perm.append_left
  refine ((flatMap_split kids l absRKid hu).filter _).trans ?_
  rw [List.filter_append, filterR_kidDel]
  apply List.Perm.append_right
  cases hk : kidGet kids l with
  | none => simp [absR_empty]
  | some c =>
    simp only [Option.getD_some]
    rw [filterR_absRKid]
    simp

theorem absR_kidSet (m : Option RMsg) (kids : List (Level × RNode)) (l : Level) (c : RNode)
    (hu : (kids.map (·.1)).Nodup) :
    (absR (.mk m (kidSet kids l c))).Perm
      (m.toList.map (fun x => (([] : List Level), x)) ++
        ((absR c).map (fun e => (l :: e.1, e.2)) ++ (kidDel kids l).flatMap absRKid)) := by
  rw [absR_mk]
  apply List.Perm.append_left
  exact flatMap_kidSet kids l c absRKid hu

/-! ### `rinsertL` -/

theorem RWF_getD (kids : List (Level × RNode)) (l : Level) (h : ∀ p ∈ kids, RWF p.2) :
    RWF ((kidGet kids l).getD RNode.empty) := by
  cases hk : kidGet kids l with
  | none => exact RWF_empty
  | some c => exact h _ (kidGet_some_mem kids l c hk)

theorem rinsertL_RWF (ls : List Level) (ok : Bool) (msg : RMsg) :
    ∀ n, RWF n → RWF (RNode.rinsertL ls ok msg n) := by
  induction ls with
  | nil =>
    intro n h
    obtain ⟨m, kids⟩ := n
    rw [RWF_mk] at h
    cases ok <;> simpa [RNode.rinsertL, RWF_mk] using h
  | cons l ls ih =>
    intro n h
    obtain ⟨m, kids⟩ := n
    rw [RWF_mk] at h
    simp only [RNode.rinsertL, RWF_mk]
    refine ⟨kidSet_nodup kids l _ h.1, ?_⟩
    intro p hp
    rcases mem_kidSet kids l _ p hp with hp | hp
    · exact h.2 p hp
    · subst hp; exact ih _ (RWF_getD kids l h.2)

/-- storing a message under a path replaces the message of that path and changes nothing else -/
theorem rinsertL_absR (ls : List Level) (msg : RMsg) :
    ∀ n, RWF n → (absR (RNode.rinsertL ls true msg n)).Perm
      ((absR n).filter (fun e => !(e.1 == ls)) ++ [(ls, msg)]) := by
  induction ls with
  | nil =>
    intro n _
    obtain ⟨m, kids⟩ := n
    simp only [RNode.rinsertL, ↓reduceIte]
    rw [absR_mk, absR_mk, List.filter_append, filterR_msg_nil, filterR_kids_nil]
    simp only [Option.toList_some, List.map_cons, List.map_nil, List.nil_append]
    perm_ac
  | cons l ls ih =>
    intro n h
    obtain ⟨m, kids⟩ := n
    rw [RWF_mk] at h
    simp only [RNode.rinsertL]
    refine (absR_kidSet m kids l _ h.1).trans ?_
    refine List.Perm.trans ?_ (List.Perm.append_right _ (filterR_absR_cons m kids l ls h.1).symm)
    have := (ih _ (RWF_getD kids l h.2)).map (fun e => (l :: e.1, e.2))
    refine (List.Perm.append_left _ (List.Perm.append_right _ this)).trans ?_
    rw [List.map_append]
    simp only [List.map_cons, List.map_nil]
    perm_ac

theorem rinsertL_absR_false (ls : List Level) (msg : RMsg) :
    ∀ n, RWF n → (absR (RNode.rinsertL ls false msg n)).Perm (absR n) := by
  induction ls with
  | nil => intro n _; obtain ⟨m, kids⟩ := n; simp [RNode.rinsertL]
  | cons l ls ih =>
    intro n h
    obtain ⟨m, kids⟩ := n
    rw [RWF_mk] at h
    simp only [RNode.rinsertL]
    refine (absR_kidSet m kids l _ h.1).trans ?_
    rw [absR_mk]
    apply List.Perm.append_left
    refine List.Perm.trans ?_ (flatMap_split kids l absRKid h.1).symm
    apply List.Perm.append_right
    have := (ih _ (RWF_getD kids l h.2)).map (fun e => (l :: e.1, e.2))
    refine this.trans ?_
    cases hk : kidGet kids l with
    | none => simp [absR_empty]
    | some c => simp [absRKid]

/-! ### `rremoveL` -/

theorem rremoveL_nil (ok : Bool) (m : Option RMsg) (kids : List (Level × RNode)) :
    RNode.rremoveL [] ok (.mk m kids) = if ok then (.mk none kids, true) else (.mk m kids, false) := by
  simp only [RNode.rremoveL]

theorem rremoveL_cons_none (l : Level) (ls : List Level) (ok : Bool)
    (m : Option RMsg) (kids : List (Level × RNode)) (hk : kidGet kids l = none) :
    RNode.rremoveL (l :: ls) ok (.mk m kids) = (.mk m kids, false) := by
  simp only [RNode.rremoveL, hk]

theorem rremoveL_cons_some (l : Level) (ls : List Level) (ok : Bool)
    (m : Option RMsg) (kids : List (Level × RNode)) (c : RNode) (hk : kidGet kids l = some c) :
    RNode.rremoveL (l :: ls) ok (.mk m kids) =
      if !(RNode.rremoveL ls ok c).2 then (.mk m (kidSet kids l (RNode.rremoveL ls ok c).1), false)
      else if (RNode.rremoveL ls ok c).1.kids.isEmpty && (RNode.rremoveL ls ok c).1.msg.isNone then
        (.mk m (kidDel kids l), true)
      else (.mk m (kidSet kids l (RNode.rremoveL ls ok c).1), true) := by
  simp only [RNode.rremoveL, hk]

theorem absR_of_void (n : RNode) (h : (n.kids.isEmpty && n.msg.isNone) = true) : absR n = [] := by
  obtain ⟨m, kids⟩ := n
  simp only [RNode.msg, RNode.kids, Bool.and_eq_true, List.isEmpty_iff, Option.isNone_iff_eq_none] at h
  simp [absR_mk, h.1, h.2]

theorem rremoveL_RWF (ls : List Level) (ok : Bool) :
    ∀ n, RWF n → RWF (RNode.rremoveL ls ok n).1 := by
  induction ls with
  | nil =>
    intro n h
    obtain ⟨m, kids⟩ := n
    rw [rremoveL_nil]
    cases ok
    · exact h
    · rw [RWF_mk] at h; simpa [RWF_mk] using h
  | cons l ls ih =>
    intro n h
    obtain ⟨m, kids⟩ := n
    cases hk : kidGet kids l with
    | none => rw [rremoveL_cons_none l ls ok m kids hk]; exact h
    | some c =>
      rw [rremoveL_cons_some l ls ok m kids c hk]
      rw [RWF_mk] at h
      have hc : RWF c := h.2 _ (kidGet_some_mem kids l c hk)
      have hset : RWF (.mk m (kidSet kids l (RNode.rremoveL ls ok c).1)) := by
        rw [RWF_mk]
        refine ⟨kidSet_nodup kids l _ h.1, ?_⟩
        intro p hp
        rcases mem_kidSet kids l _ p hp with hp | hp
        · exact h.2 p hp
        · subst hp; exact ih c hc
      have hdel : RWF (.mk m (kidDel kids l)) := by
        rw [RWF_mk]
        exact ⟨kidDel_nodup kids l h.1, fun p hp => h.2 p ((mem_kidDel kids l p).mp hp).1⟩
      split
      · exact hset
      · split
        · exact hdel
        · exact hset

theorem rremoveL_cons_absR (l : Level) (ls : List Level) (ok : Bool)
    (m : Option RMsg) (kids : List (Level × RNode)) (c : RNode) (hk : kidGet kids l = some c)
    (hu : (kids.map (·.1)).Nodup) :
    (absR (RNode.rremoveL (l :: ls) ok (.mk m kids)).1).Perm
      (m.toList.map (fun x => (([] : List Level), x)) ++
        ((absR (RNode.rremoveL ls ok c).1).map (fun e => (l :: e.1, e.2)) ++ (kidDel kids l).flatMap absRKid)) := by
  rw [rremoveL_cons_some l ls ok m kids c hk]
  split
  · exact absR_kidSet m kids l _ hu
  · split
    · rename_i _ he
      rw [absR_mk, absR_of_void _ he]
      simp
    · exact absR_kidSet m kids l _ hu

/-- clearing a path deletes exactly that path's message; pruning loses nothing else -/
theorem rremoveL_absR (ls : List Level) :
    ∀ n, RWF n → (absR (RNode.rremoveL ls true n).1).Perm ((absR n).filter (fun e => !(e.1 == ls))) := by
  induction ls with
  | nil =>
    intro n _
    obtain ⟨m, kids⟩ := n
    rw [rremoveL_nil]
    simp only [↓reduceIte]
    rw [absR_mk, absR_mk, List.filter_append, filterR_msg_nil, filterR_kids_nil]
    simp
  | cons l ls ih =>
    intro n h
    obtain ⟨m, kids⟩ := n
    rw [RWF_mk] at h
    cases hk : kidGet kids l with
    | none =>
      rw [rremoveL_cons_none l ls true m kids hk]
      refine List.Perm.trans ?_ (filterR_absR_cons m kids l ls h.1).symm
      rw [hk, absR_mk, kidDel_of_not_mem kids l ((kidGet_none_iff kids l).mp hk)]
      simp [absR_empty]
    | some c =>
      refine (rremoveL_cons_absR l ls true m kids c hk h.1).trans ?_
      refine List.Perm.trans ?_ (filterR_absR_cons m kids l ls h.1).symm
      rw [hk]
      simp only [Option.getD_some]
      have := (ih c (h.2 _ (kidGet_some_mem kids l c hk))).map (fun e => (l :: e.1, e.2))
      exact List.Perm.append_left _ (List.Perm.append_right _ this)

theorem rremoveL_false_snd (ls : List Level) : ∀ n, (RNode.rremoveL ls false n).2 = false := by
  induction ls with
  | nil => intro n; obtain ⟨m, kids⟩ := n; simp [rremoveL_nil]
  | cons l ls ih =>
    intro n
    obtain ⟨m, kids⟩ := n
    cases hk : kidGet kids l with
    | none => rw [rremoveL_cons_none l ls false m kids hk]
    | some c => rw [rremoveL_cons_some l ls false m kids c hk]; simp [ih c]

theorem kidSet_self {α : Type} (kids : List (Level × α)) (l : Level) (c : α) (hu : (kids.map (·.1)).Nodup)
    (hk : kidGet kids l = some c) : kidSet kids l c = kids := by
  have hm : l ∈ kids.map (·.1) := List.mem_map_of_mem (f := (·.1)) (kidGet_some_mem kids l c hk)
  rw [kidSet_of_mem kids l c hm]
  unfold kidRepl
  conv => rhs; rw [← List.map_id kids]
  apply List.map_congr_left
  intro p hp
  by_cases e : p.1 = l
  · have hpc : p = (l, c) := by
      have h1 := kidGet_some_mem kids l c hk
      obtain ⟨a, d⟩ := p
      simp only at e; subst e
      rw [kidGet_unique kids a d c hu hp h1]
    simp [hpc]
  · simp [e]

theorem rremoveL_false_eq (ls : List Level) (ok : Bool) :
    ∀ n, RWF n → (RNode.rremoveL ls ok n).2 = false → (RNode.rremoveL ls ok n).1 = n := by
  induction ls with
  | nil =>
    intro n _ hr
    obtain ⟨m, kids⟩ := n
    rw [rremoveL_nil] at hr ⊢
    cases ok
    · rfl
    · simp at hr
  | cons l ls ih =>
    intro n h hr
    obtain ⟨m, kids⟩ := n
    rw [RWF_mk] at h
    cases hk : kidGet kids l with
    | none => rw [rremoveL_cons_none l ls ok m kids hk]
    | some c =>
      rw [rremoveL_cons_some l ls ok m kids c hk] at hr ⊢
      have hc := h.2 _ (kidGet_some_mem kids l c hk)
      cases hr' : (RNode.rremoveL ls ok c).2 with
      | true =>
        rw [hr'] at hr
        simp only [Bool.not_true, Bool.false_eq_true, ↓reduceIte] at hr
        split at hr <;> simp at hr
      | false =>
        simp only [Bool.not_false, ↓reduceIte]
        rw [ih c hc hr', kidSet_self kids l c h.1 hk]

theorem rremoveL_false (ls : List Level) (n : RNode) (h : RWF n) : RNode.rremoveL ls false n = (n, false) :=
  Prod.ext (rremoveL_false_eq ls false n h (rremoveL_false_snd ls n)) (rremoveL_false_snd ls n)

/-! ### pruning invariant: every node below the root has a child or a message -/

def isVoidR (n : RNode) : Bool := n.kids.isEmpty && n.msg.isNone

mutual
  def RPruned : RNode → Prop
    | .mk _ kids => RPrunedKids kids
  def RPrunedKids : List (Level × RNode) → Prop
    | [] => True
    | (_, n) :: rest => (isVoidR n = false ∧ RPruned n) ∧ RPrunedKids rest
end

theorem RPrunedKids_iff (kids : List (Level × RNode)) :
    RPrunedKids kids ↔ ∀ p ∈ kids, isVoidR p.2 = false ∧ RPruned p.2 := by
  induction kids with
  | nil => simp [RPrunedKids]
  | cons p rest ih => obtain ⟨k, n⟩ := p; simp [RPrunedKids, ih]

theorem RPruned_mk (m : Option RMsg) (kids : List (Level × RNode)) :
    RPruned (.mk m kids) ↔ ∀ p ∈ kids, isVoidR p.2 = false ∧ RPruned p.2 := by
  rw [RPruned, RPrunedKids_iff]

theorem RPruned_empty : RPruned RNode.empty := by simp [RNode.empty, RPruned_mk]

theorem rinsertL_not_void (ls : List Level) (msg : RMsg) (n : RNode) :
    isVoidR (RNode.rinsertL ls true msg n) = false := by
  obtain ⟨m, kids⟩ := n
  cases ls with
  | nil => simp [RNode.rinsertL, isVoidR, RNode.msg]
  | cons l ls =>
    have := kidSet_ne_nil kids l (RNode.rinsertL ls true msg ((kidGet kids l).getD RNode.empty))
    simp [RNode.rinsertL, isVoidR, RNode.kids, this]

theorem rinsertL_RPruned (ls : List Level) (msg : RMsg) :
    ∀ n, RPruned n → RPruned (RNode.rinsertL ls true msg n) := by
  induction ls with
  | nil => intro n h; obtain ⟨m, kids⟩ := n; simpa [RNode.rinsertL, RPruned_mk] using h
  | cons l ls ih =>
    intro n h
    obtain ⟨m, kids⟩ := n
    rw [RPruned_mk] at h
    simp only [RNode.rinsertL, RPruned_mk]
    intro p hp
    rcases mem_kidSet kids l _ p hp with hp | hp
    · exact h p hp
    · subst hp
      refine ⟨rinsertL_not_void _ _ _, ih _ ?_⟩
      cases hk : kidGet kids l with
      | none => exact RPruned_empty
      | some c => exact (h _ (kidGet_some_mem kids l c hk)).2

theorem rremoveL_RPruned (ls : List Level) (ok : Bool) :
    ∀ n, RWF n → RPruned n → RPruned (RNode.rremoveL ls ok n).1 := by
  induction ls with
  | nil =>
    intro n _ h
    obtain ⟨m, kids⟩ := n
    rw [rremoveL_nil]
    cases ok
    · exact h
    · simpa [RPruned_mk] using h
  | cons l ls ih =>
    intro n hwf h
    obtain ⟨m, kids⟩ := n
    cases hk : kidGet kids l with
    | none => rw [rremoveL_cons_none l ls ok m kids hk]; exact h
    | some c =>
      rw [rremoveL_cons_some l ls ok m kids c hk]
      rw [RWF_mk] at hwf
      rw [RPruned_mk] at h
      have hc := hwf.2 _ (kidGet_some_mem kids l c hk)
      have hpc := h _ (kidGet_some_mem kids l c hk)
      have hdel : RPruned (.mk m (kidDel kids l)) := by
        rw [RPruned_mk]; exact fun p hp => h p ((mem_kidDel kids l p).mp hp).1
      have hset : isVoidR (RNode.rremoveL ls ok c).1 = false →
          RPruned (.mk m (kidSet kids l (RNode.rremoveL ls ok c).1)) := by
        intro hv
        rw [RPruned_mk]
        intro p hp
        rcases mem_kidSet kids l _ p hp with hp | hp
        · exact h p hp
        · subst hp; exact ⟨hv, ih c hc hpc.2⟩
      split
      · rename_i hr
        have hr' : (RNode.rremoveL ls ok c).2 = false := by simpa using hr
        apply hset
        rw [rremoveL_false_eq ls ok c hc hr']; exact hpc.1
      · split
        · exact hdel
        · rename_i hv
          apply hset
          exact Bool.eq_false_iff.mpr hv

end Mqtt.Proofs.Topics
