/-
Tie between the REGENERATED translation of `topics.nextTopicLevel`
(`Mqtt.Generated.Xlate`, produced from /repo's Go source by extract/cmd/xlate on
every check) and the hand-written level splitter of `Model/Topics.lean`.
-/
import Mqtt.Generated.Xlate
import Mqtt.Model.Topics

namespace Mqtt.Proofs.XlateTopics

open Mqtt.Model.Topics
open Mqtt.Generated.Xlate

/-- what the Go function returns for a model outcome: an error made by
`fmt.Errorf` with nil slices, or (level, remainder, nil).  The model's `remNil`
flag (Go returned a *nil* remainder) has no counterpart: the translation does
not distinguish nil from empty slices. -/
def ntlToSource : NTL → Res (List UInt8 × List UInt8 × Err)
  | .err => .ok ([], [], .dyn)
  | .ok l r _ => .ok (l, r, .nil)

/-- the byte values of `stateCHR`, `stateMWC`, `stateSWC` in the Go source -/
def stCode : LState → UInt8
  | .chr => 0
  | .mwc => 1
  | .swc => 2
  | .sys => 4

theorem take_rev_length (pre : List UInt8) (rest : List UInt8) :
    (pre.reverse ++ rest).take pre.length = pre.reverse := by
  have : pre.length = pre.reverse.length := by simp
  rw [this, List.take_left']
  rfl

theorem drop_rev_length_succ (pre : List UInt8) (c : UInt8) (rest : List UInt8) :
    (pre.reverse ++ c :: rest).drop (pre.length + 1) = rest := by
  have h : pre.reverse ++ c :: rest = (pre.reverse ++ [c]) ++ rest := by simp
  have hl : pre.length + 1 = (pre.reverse ++ [c]).length := by simp
  rw [h, hl, List.drop_left']
  rfl

/-- the loop of the translation, started in the middle of the topic, is the
model's loop (`pre` = the bytes already visited, reversed) -/
theorem loop_eq (rest : List UInt8) : ∀ (pre : List UInt8) (s : LState), s ≠ .sys →
    Topics.nextTopicLevel.loop1 (pre.reverse ++ rest) (stCode s) pre.length rest
      = ntlToSource (ntlLoop pre s rest) := by
  induction rest with
  | nil =>
    intro pre s _
    simp [Topics.nextTopicLevel.loop1, ntlLoop, ntlToSource]
  | cons c rest ih =>
    intro pre s hs
    have hstep : ∀ s' : LState, s' ≠ .sys →
        Topics.nextTopicLevel.loop1 (pre.reverse ++ c :: rest) (stCode s') (pre.length + 1) rest
          = ntlToSource (ntlLoop (c :: pre) s' rest) := by
      intro s' hs'
      have := ih (c :: pre) s' hs'
      simpa using this
    have hlen : (pre.length == 0) = pre.isEmpty := by cases pre <;> simp
    have hlen' : (pre.length != 0) = !pre.isEmpty := by cases pre <;> simp
    unfold Topics.nextTopicLevel.loop1 ntlLoop
    simp only [cSEP, cMWC, cSWC]
    by_cases h47 : c = 47
    · subst h47
      cases s <;> simp_all [stCode, ntlToSource, SWC, cSWC, drop_rev_length_succ]
      all_goals (cases pre <;> simp_all)
    · by_cases h35 : c = 35
      · subst h35
        have := hstep .mwc (by decide)
        cases pre <;> simp_all [stCode, ntlToSource]
      · by_cases h43 : c = 43
        · subst h43
          have := hstep .swc (by decide)
          cases pre <;> simp_all [stCode, ntlToSource]
        · have := hstep .chr (by decide)
          cases s <;> simp_all [stCode, ntlToSource]

/-- **the regenerated `nextTopicLevel` is the model's level splitter** (on every
input; in particular the Go function never panics on a slice bound) -/
theorem nextTopicLevel_is_source (bs : List UInt8) :
    Topics.nextTopicLevel bs = ntlToSource (Mqtt.Model.Topics.nextTopicLevel bs) := by
  have := loop_eq bs [] .chr (by decide)
  simpa [Topics.nextTopicLevel, Mqtt.Model.Topics.nextTopicLevel, stCode] using this

end Mqtt.Proofs.XlateTopics
