/-
Tie between the REGENERATED translation of the length arithmetic of the Go
package `message` (`Mqtt.Generated.Xlate.Message.*`, produced from
/repo/message/{header,connack,puback,publish,suback,subscribe,unsubscribe,
connect,disconnect}.go by extract/cmd/xlate on every check) and the hand-written
model of `Model/Codec.lean` (`hdrLen`, `Msg.msglen`, `Msg.len`, `connectMsglen`,
`pubQoS`, the CONNECT flag accessors, `versionName`).

For every message struct `T` of the Go package:
* `T_msglen_is_source`: the translated `T.msglen` is the model's `Msg.msglen`
  of the abstracted message;
* `T_Len_is_source`: the translated `T.Len` returns the model's `Msg.len` and
  leaves the receiver as `lenHdr` says (unchanged when it is not dirty or when
  the remaining length is out of range, otherwise `remlen := msglen`,
  `dirty := true`).
-/
import Mqtt.Generated.Xlate
import Mqtt.Model.Codec

namespace Mqtt.Proofs.XlateCodec

open Mqtt.Generated
open Mqtt.Generated.Xlate
open Mqtt.Model.Codec

/-! ## The abstraction: generated structures ↦ model structures -/

/-- the model header of a translated `message.header`.  The model keeps
`mtypeflags[0]` only (`headD 0`: the slice has length 1 after `New…Message`) and
a natural `remlen` (`toNat`: `SetRemainingLength` and `decode` reject negatives).
The alias flags `tfInBuf` / `pidOff` have no counterpart in the translation
(slices are lists there) and keep their defaults. -/
def hdrOf (h : Message.header) : Hdr :=
  { tf := h.mtypeflags.headD 0, pid := h.packetID, remlen := h.remlen.toNat, dbuf := h.dbuf, dirty := h.dirty }

def connectOf (m : Message.ConnectMessage) : ConnectF :=
  { connectFlags := m.connectFlags, version := m.version, keepAlive := m.keepAlive.toNat, protoName := m.protoName, clientID := m.clientID, willTopic := m.willTopic, willMessage := m.willMessage, username := m.username, password := m.password }

def msgOfConnack (m : Message.ConnackMessage) : Msg := .connack (hdrOf m.header) m.sessionPresent m.returnCode
def msgOfPuback (m : Message.PubackMessage) : Msg := .ack (hdrOf m.header)
def msgOfPublish (m : Message.PublishMessage) : Msg := .publish (hdrOf m.header) m.topic m.payload
def msgOfSuback (m : Message.SubackMessage) : Msg := .suback (hdrOf m.header) m.returnCodes
def msgOfSubscribe (m : Message.SubscribeMessage) : Msg := .subscribe (hdrOf m.header) m.topics m.qos
def msgOfUnsubscribe (m : Message.UnsubscribeMessage) : Msg := .unsubscribe (hdrOf m.header) m.topics
def msgOfConnect (m : Message.ConnectMessage) : Msg := .connect (hdrOf m.header) (connectOf m)
def msgOfDisconnect (m : Message.DisconnectMessage) : Msg := .bare (hdrOf m.header)

/-- what `T.Len()` leaves in the receiver's header for a computed remaining
length `ml`: nothing changes when the message is not dirty (the cached `dbuf`
answers) or when `SetRemainingLength` rejects `ml`; otherwise `remlen := ml`
and `dirty := true` (it was already). -/
def lenHdr (h : Message.header) (ml : Nat) : Message.header :=
  if !h.dirty || decide (ml > maxRemainingLength) then h else { h with remlen := (ml : Int), dirty := true }

/-! ## Bit facts about `UInt8` -/

theorem nat_and15 (x : Nat) : x &&& 15 = x % 16 := Nat.and_two_pow_sub_one_eq_mod x 4
theorem nat_and3 (x : Nat) : x &&& 3 = x % 4 := Nat.and_two_pow_sub_one_eq_mod x 2

/-- `(c >> 2) & 1 == 1` -/
theorem u8_bit2 (c : UInt8) :
    (((c >>> (2 : UInt8)) &&& (1 : UInt8)) == (1 : UInt8)) = decide (c.toNat / 4 % 2 = 1) := by
  rw [Bool.eq_iff_iff]
  simp only [beq_iff_eq, decide_eq_true_eq]
  rw [← UInt8.toNat_inj]
  simp [UInt8.toNat_and, UInt8.toNat_shiftRight, Nat.shiftRight_eq_div_pow, Nat.and_one_is_mod]

/-- `(c >> 6) & 1 == 1` -/
theorem u8_bit6 (c : UInt8) :
    (((c >>> (6 : UInt8)) &&& (1 : UInt8)) == (1 : UInt8)) = decide (c.toNat / 64 % 2 = 1) := by
  rw [Bool.eq_iff_iff]
  simp only [beq_iff_eq, decide_eq_true_eq]
  rw [← UInt8.toNat_inj]
  simp [UInt8.toNat_and, UInt8.toNat_shiftRight, Nat.shiftRight_eq_div_pow, Nat.and_one_is_mod]

/-- `(c >> 7) & 1 == 1` -/
theorem u8_bit7 (c : UInt8) :
    (((c >>> (7 : UInt8)) &&& (1 : UInt8)) == (1 : UInt8)) = decide (c.toNat / 128 % 2 = 1) := by
  rw [Bool.eq_iff_iff]
  simp only [beq_iff_eq, decide_eq_true_eq]
  rw [← UInt8.toNat_inj]
  simp [UInt8.toNat_and, UInt8.toNat_shiftRight, Nat.shiftRight_eq_div_pow, Nat.and_one_is_mod]

/-- `((c & 0x0f) >> 1) & 3` as a number: the QoS bits of the flags nibble -/
theorem u8_qos_toNat (c : UInt8) :
    ((((c &&& (15 : UInt8)) >>> (1 : UInt8)) &&& (3 : UInt8))).toNat = c.toNat % 16 / 2 % 4 := by
  simp [UInt8.toNat_and, UInt8.toNat_shiftRight, Nat.shiftRight_eq_div_pow, nat_and15, nat_and3]

/-- `((c & 0x0f) >> 1) & 3 != 0` -/
theorem u8_qos_ne_zero (c : UInt8) :
    ((((c &&& (15 : UInt8)) >>> (1 : UInt8)) &&& (3 : UInt8)) != (0 : UInt8)) = decide (c.toNat % 16 / 2 % 4 ≠ 0) := by
  rw [Bool.eq_iff_iff]
  simp only [bne_iff_ne, decide_eq_true_eq, ne_eq]
  rw [← UInt8.toNat_inj, u8_qos_toNat]
  simp

/-! ## header.go -/

/-- `header.msglen()` is `hdrLen` of the stored remaining length when that is not negative -/
theorem header_msglen_is_source (h : Message.header) (h0 : 0 ≤ h.remlen) :
    Message.header.msglen h = hdrLen h.remlen.toNat := by
  unfold Message.header.msglen hdrLen msglenT1 msglenT2 msglenT3
  simp only [decide_eq_true_eq]
  split
  · rw [if_pos (by omega)]
  · split
    · rw [if_neg (by omega), if_pos (by omega)]
    · split
      · rw [if_neg (by omega), if_neg (by omega), if_pos (by omega)]
      · rw [if_neg (by omega), if_neg (by omega), if_neg (by omega)]

/-- for a negative `remlen` the Go function answers 2 (the first comparison
`remlen <= 127` holds); the model has a natural number there, `hdrOf` maps it
to 0 and `hdrLen 0 = 2` as well -/
theorem header_msglen_neg (h : Message.header) (h0 : h.remlen < 0) :
    Message.header.msglen h = 2 ∧ hdrLen (hdrOf h).remlen = 2 := by
  constructor
  · unfold Message.header.msglen
    simp only [decide_eq_true_eq]
    rw [if_pos (by omega)]
  · have : (hdrOf h).remlen = 0 := by simp only [hdrOf]; omega
    rw [this]; decide

/-- hence `header.msglen()` is `hdrLen` of the abstracted header on EVERY header -/
theorem header_msglen_hdrOf (h : Message.header) :
    Message.header.msglen h = hdrLen (hdrOf h).remlen := by
  by_cases h0 : 0 ≤ h.remlen
  · exact header_msglen_is_source h h0
  · have := header_msglen_neg h (by omega)
    omega

theorem header_Len_is_source (h : Message.header) (h0 : 0 ≤ h.remlen) :
    Message.header.Len h = hdrLen h.remlen.toNat := by
  unfold Message.header.Len
  exact header_msglen_is_source h h0

/-- `SetRemainingLength`: rejected (receiver untouched, an error made on the
spot) exactly outside `0 … 268435455`, otherwise stored and marked dirty -/
theorem header_SetRemainingLength_spec (h : Message.header) (remlen : Int) :
    Message.header.SetRemainingLength h remlen =
      if remlen > 268435455 ∨ remlen < 0 then (h, Err.dyn)
      else ({ h with remlen := remlen, dirty := true }, Err.nil) := by
  unfold Message.header.SetRemainingLength
  by_cases hc : remlen > 268435455 ∨ remlen < 0
  · rw [if_pos hc, if_pos (by simpa using hc)]
  · rw [if_neg hc, if_neg (by simpa using hc)]

theorem header_SetRemainingLength_err_iff (h : Message.header) (remlen : Int) :
    Message.header.SetRemainingLength h remlen = (h, Err.dyn) ↔ (remlen > 268435455 ∨ remlen < 0) := by
  rw [header_SetRemainingLength_spec]
  by_cases hc : remlen > 268435455 ∨ remlen < 0
  · simp [hc]
  · simp [hc]

/-- the tail shared by every `T.Len()`: `SetRemainingLength(ml)` on the header,
then `0` on error and `header.msglen() + ml` otherwise -/
theorem len_tail (h : Message.header) (ml : Nat) :
    Message.header.SetRemainingLength h ((ml : Nat) : Int) =
      if ml > maxRemainingLength then (h, Err.dyn) else ({ h with remlen := (ml : Int), dirty := true }, Err.nil) := by
  rw [header_SetRemainingLength_spec]
  unfold maxRemainingLength
  by_cases hc : ml > 268435455
  · rw [if_pos hc, if_pos (by omega)]
  · rw [if_neg hc, if_neg (by omega)]

theorem header_msglen_after_set (h : Message.header) (ml : Nat) :
    Message.header.msglen { h with remlen := (ml : Int), dirty := true } = hdrLen ml := by
  rw [header_msglen_is_source _ (by simp)]
  simp

/-- generic form of `T.Len()` on the header level -/
theorem len_generic (h : Message.header) (ml : Nat) (hd : h.dirty = true) :
    ((Message.header.SetRemainingLength h ((ml : Nat) : Int)).1,
      if ((Message.header.SetRemainingLength h ((ml : Nat) : Int)).2 != Err.nil) then (0 : Nat)
      else Message.header.msglen (Message.header.SetRemainingLength h ((ml : Nat) : Int)).1 + ml)
    = (lenHdr h ml, if ml > maxRemainingLength then 0 else hdrLen ml + ml) := by
  rw [len_tail]
  unfold lenHdr
  by_cases hc : ml > maxRemainingLength
  · simp [hc, hd]
  · simp only [hc, if_false, hd]
    rw [header_msglen_after_set]
    simp

/-- the body shared by every translated `T.Len()`, on the header alone -/
def lenPair (h : Message.header) (ml : Nat) : Message.header × Nat :=
  if (!h.dirty) then (h, h.dbuf.length)
  else if ((Message.header.SetRemainingLength h ((ml : Nat) : Int)).2 != Err.nil) then
    ((Message.header.SetRemainingLength h ((ml : Nat) : Int)).1, (0 : Nat))
  else
    ((Message.header.SetRemainingLength h ((ml : Nat) : Int)).1,
      Message.header.msglen (Message.header.SetRemainingLength h ((ml : Nat) : Int)).1 + ml)

/-- the model's `Msg.len` on header data and a remaining length (every constructor but `.bare`) -/
def lenVal (h : Message.header) (ml : Nat) : Nat :=
  if !h.dirty then h.dbuf.length else if ml > maxRemainingLength then 0 else hdrLen ml + ml

theorem lenPair_spec (h : Message.header) (ml : Nat) : lenPair h ml = (lenHdr h ml, lenVal h ml) := by
  unfold lenPair lenVal
  by_cases hd : h.dirty = true
  · simp only [hd, Bool.not_true, Bool.false_eq_true, if_false]
    split
    · rename_i hc
      rw [len_tail] at hc
      by_cases hgt : ml > maxRemainingLength
      · rw [len_tail, if_pos hgt, if_pos hgt]; simp [lenHdr, hgt]
      · rw [if_neg hgt] at hc; simp at hc
    · rename_i hc
      rw [len_tail] at hc
      by_cases hgt : ml > maxRemainingLength
      · rw [if_pos hgt] at hc; simp at hc
      · rw [len_tail, if_neg hgt, if_neg hgt, header_msglen_after_set]; simp [lenHdr, hgt, hd]
  · simp [hd, lenHdr]

/-! ## What `lenHdr` says, case by case -/

theorem lenHdr_clean (h : Message.header) (ml : Nat) (hd : h.dirty = false) : lenHdr h ml = h := by
  simp [lenHdr, hd]

theorem lenHdr_out_of_range (h : Message.header) (ml : Nat) (hgt : ml > maxRemainingLength) : lenHdr h ml = h := by
  simp [lenHdr, hgt]

theorem lenHdr_stored (h : Message.header) (ml : Nat) (hd : h.dirty = true) (hle : ml ≤ maxRemainingLength) :
    lenHdr h ml = { h with remlen := (ml : Int), dirty := true } := by
  have : ¬ ml > maxRemainingLength := by omega
  simp [lenHdr, hd, this]

/-- after a successful `Len()` on a dirty message the stored remaining length is the model's `msglen` -/
theorem hdrOf_lenHdr_remlen (h : Message.header) (ml : Nat) (hd : h.dirty = true) (hle : ml ≤ maxRemainingLength) :
    (hdrOf (lenHdr h ml)).remlen = ml ∧ (hdrOf (lenHdr h ml)).dirty = true := by
  rw [lenHdr_stored h ml hd hle]
  simp [hdrOf]

/-! ## connack.go -/

theorem ConnackMessage_msglen_is_source (m : Message.ConnackMessage) :
    Message.ConnackMessage.msglen m = (msgOfConnack m).msglen := rfl

theorem ConnackMessage_Len_lenPair (m : Message.ConnackMessage) :
    Message.ConnackMessage.Len m =
      ({ m with header := (lenPair m.header (Message.ConnackMessage.msglen m)).1 }, (lenPair m.header (Message.ConnackMessage.msglen m)).2) := by
  unfold Message.ConnackMessage.Len lenPair
  dsimp only
  split
  · rfl
  · split <;> rfl

theorem ConnackMessage_Len_is_source (m : Message.ConnackMessage) :
    Message.ConnackMessage.Len m =
      ({ m with header := lenHdr m.header (msgOfConnack m).msglen }, (msgOfConnack m).len) := by
  rw [ConnackMessage_Len_lenPair, lenPair_spec, ConnackMessage_msglen_is_source]
  rfl

/-! ## puback.go (embedded by PUBREC, PUBREL, PUBCOMP, UNSUBACK) -/

theorem PubackMessage_msglen_is_source (m : Message.PubackMessage) :
    Message.PubackMessage.msglen m = (msgOfPuback m).msglen := rfl

theorem PubackMessage_Len_lenPair (m : Message.PubackMessage) :
    Message.PubackMessage.Len m =
      ({ m with header := (lenPair m.header (Message.PubackMessage.msglen m)).1 }, (lenPair m.header (Message.PubackMessage.msglen m)).2) := by
  unfold Message.PubackMessage.Len lenPair
  dsimp only
  split
  · rfl
  · split <;> rfl

theorem PubackMessage_Len_is_source (m : Message.PubackMessage) :
    Message.PubackMessage.Len m =
      ({ m with header := lenHdr m.header (msgOfPuback m).msglen }, (msgOfPuback m).len) := by
  rw [PubackMessage_Len_lenPair, lenPair_spec, PubackMessage_msglen_is_source]
  rfl

/-! ## suback.go -/

theorem SubackMessage_msglen_is_source (m : Message.SubackMessage) :
    Message.SubackMessage.msglen m = (msgOfSuback m).msglen := rfl

theorem SubackMessage_Len_lenPair (m : Message.SubackMessage) :
    Message.SubackMessage.Len m =
      ({ m with header := (lenPair m.header (Message.SubackMessage.msglen m)).1 }, (lenPair m.header (Message.SubackMessage.msglen m)).2) := by
  unfold Message.SubackMessage.Len lenPair
  dsimp only
  split
  · rfl
  · split <;> rfl

theorem SubackMessage_Len_is_source (m : Message.SubackMessage) :
    Message.SubackMessage.Len m =
      ({ m with header := lenHdr m.header (msgOfSuback m).msglen }, (msgOfSuback m).len) := by
  rw [SubackMessage_Len_lenPair, lenPair_spec, SubackMessage_msglen_is_source]
  rfl

/-! ## subscribe.go -/

/-- the `for _, t := range m.topics` loop with the accumulator generalised -/
theorem SubscribeMessage_msglen_loop (m : Message.SubscribeMessage) (total : Nat) (rest : List (List UInt8)) :
    Message.SubscribeMessage.msglen.loop1 m total rest = total + (rest.map (fun t => 2 + t.length + 1)).sum := by
  induction rest generalizing total with
  | nil => simp [Message.SubscribeMessage.msglen.loop1]
  | cons t rest ih =>
    unfold Message.SubscribeMessage.msglen.loop1
    simp only [ih, List.map_cons, List.sum_cons]
    omega

theorem SubscribeMessage_msglen_is_source (m : Message.SubscribeMessage) :
    Message.SubscribeMessage.msglen m = (msgOfSubscribe m).msglen := by
  unfold Message.SubscribeMessage.msglen
  simp only [SubscribeMessage_msglen_loop]
  rfl

theorem SubscribeMessage_Len_lenPair (m : Message.SubscribeMessage) :
    Message.SubscribeMessage.Len m =
      ({ m with header := (lenPair m.header (Message.SubscribeMessage.msglen m)).1 }, (lenPair m.header (Message.SubscribeMessage.msglen m)).2) := by
  unfold Message.SubscribeMessage.Len lenPair
  dsimp only
  split
  · rfl
  · split <;> rfl

theorem SubscribeMessage_Len_is_source (m : Message.SubscribeMessage) :
    Message.SubscribeMessage.Len m =
      ({ m with header := lenHdr m.header (msgOfSubscribe m).msglen }, (msgOfSubscribe m).len) := by
  rw [SubscribeMessage_Len_lenPair, lenPair_spec, SubscribeMessage_msglen_is_source]
  rfl

/-! ## unsubscribe.go -/

/-- the `for _, t := range m.topics` loop with the accumulator generalised -/
theorem UnsubscribeMessage_msglen_loop (m : Message.UnsubscribeMessage) (total : Nat) (rest : List (List UInt8)) :
    Message.UnsubscribeMessage.msglen.loop1 m total rest = total + (rest.map (fun t => 2 + t.length)).sum := by
  induction rest generalizing total with
  | nil => simp [Message.UnsubscribeMessage.msglen.loop1]
  | cons t rest ih =>
    unfold Message.UnsubscribeMessage.msglen.loop1
    simp only [ih, List.map_cons, List.sum_cons]
    omega

theorem UnsubscribeMessage_msglen_is_source (m : Message.UnsubscribeMessage) :
    Message.UnsubscribeMessage.msglen m = (msgOfUnsubscribe m).msglen := by
  unfold Message.UnsubscribeMessage.msglen
  simp only [UnsubscribeMessage_msglen_loop]
  rfl

theorem UnsubscribeMessage_Len_lenPair (m : Message.UnsubscribeMessage) :
    Message.UnsubscribeMessage.Len m =
      ({ m with header := (lenPair m.header (Message.UnsubscribeMessage.msglen m)).1 }, (lenPair m.header (Message.UnsubscribeMessage.msglen m)).2) := by
  unfold Message.UnsubscribeMessage.Len lenPair
  dsimp only
  split
  · rfl
  · split <;> rfl

theorem UnsubscribeMessage_Len_is_source (m : Message.UnsubscribeMessage) :
    Message.UnsubscribeMessage.Len m =
      ({ m with header := lenHdr m.header (msgOfUnsubscribe m).msglen }, (msgOfUnsubscribe m).len) := by
  rw [UnsubscribeMessage_Len_lenPair, lenPair_spec, UnsubscribeMessage_msglen_is_source]
  rfl

/-! ## connect.go -/

theorem ConnectMessage_WillFlag_is_source (m : Message.ConnectMessage) :
    Message.ConnectMessage.WillFlag m = (connectOf m).willFlag := by
  unfold Message.ConnectMessage.WillFlag ConnectF.willFlag
  exact u8_bit2 m.connectFlags

theorem ConnectMessage_UsernameFlag_is_source (m : Message.ConnectMessage) :
    Message.ConnectMessage.UsernameFlag m = (connectOf m).usernameFlag := by
  unfold Message.ConnectMessage.UsernameFlag ConnectF.usernameFlag
  exact u8_bit7 m.connectFlags

theorem ConnectMessage_PasswordFlag_is_source (m : Message.ConnectMessage) :
    Message.ConnectMessage.PasswordFlag m = (connectOf m).passwordFlag := by
  unfold Message.ConnectMessage.PasswordFlag ConnectF.passwordFlag
  exact u8_bit6 m.connectFlags

/-- the translated `SupportedVersions` map (byte keys) and the extracted table
of `Generated/Facts.lean` (natural keys) answer every look-up alike -/
theorem SupportedVersions_is_source (v : UInt8) :
    Go.mapGet Message.SupportedVersions v = versionName v.toNat := by
  unfold Go.mapGet Message.SupportedVersions versionName supportedVersions
  by_cases h3 : v = 3
  · subst h3; rfl
  · by_cases h4 : v = 4
    · subst h4; rfl
    · have n3 : ¬ v.toNat = 3 := fun h => h3 (UInt8.toNat_inj.mp h)
      have n4 : ¬ v.toNat = 4 := fun h => h4 (UInt8.toNat_inj.mp h)
      have b3 : (v == 3) = false := by simpa using h3
      have b4 : (v == 4) = false := by simpa using h4
      have c3 : (v.toNat == 3) = false := by simpa using n3
      have c4 : (v.toNat == 4) = false := by simpa using n4
      simp only [List.lookup, b3, b4, c3, c4]

theorem ConnectMessage_msglen_is_source (m : Message.ConnectMessage) :
    Message.ConnectMessage.msglen m = (msgOfConnect m).msglen := by
  show _ = connectMsglen (connectOf m)
  unfold Message.ConnectMessage.msglen connectMsglen
  rw [SupportedVersions_is_source, ConnectMessage_WillFlag_is_source, ConnectMessage_UsernameFlag_is_source,
    ConnectMessage_PasswordFlag_is_source]
  have hv : (connectOf m).version = m.version := rfl
  rw [hv]
  cases versionName m.version.toNat with
  | none => rfl
  | some verstr =>
    dsimp only [Option.isSome, Option.getD, Bool.not_true]
    have e1 : (connectOf m).clientID = m.clientID := rfl
    have e2 : (connectOf m).willTopic = m.willTopic := rfl
    have e3 : (connectOf m).willMessage = m.willMessage := rfl
    have e4 : (connectOf m).username = m.username := rfl
    have e5 : (connectOf m).password = m.password := rfl
    rw [e1, e2, e3, e4, e5]
    cases (connectOf m).willFlag <;> cases (connectOf m).usernameFlag <;> cases (connectOf m).passwordFlag <;>
      simp <;> omega

theorem ConnectMessage_Len_lenPair (m : Message.ConnectMessage) :
    Message.ConnectMessage.Len m =
      ({ m with header := (lenPair m.header (Message.ConnectMessage.msglen m)).1 }, (lenPair m.header (Message.ConnectMessage.msglen m)).2) := by
  unfold Message.ConnectMessage.Len lenPair
  dsimp only
  split
  · rfl
  · split <;> rfl

theorem ConnectMessage_Len_is_source (m : Message.ConnectMessage) :
    Message.ConnectMessage.Len m =
      ({ m with header := lenHdr m.header (msgOfConnect m).msglen }, (msgOfConnect m).len) := by
  rw [ConnectMessage_Len_lenPair, lenPair_spec, ConnectMessage_msglen_is_source]
  rfl

/-! ## publish.go -/

/-- `header.Flags()` reads `mtypeflags[0]`: it panics on an empty slice -/
theorem header_Flags_spec (h : Message.header) :
    Message.header.Flags h =
      if h.mtypeflags = [] then Res.panic else Res.ok ((h.mtypeflags.headD 0) &&& (15 : UInt8)) := by
  unfold Message.header.Flags
  cases h.mtypeflags with
  | nil => rfl
  | cons b rest => simp

/-- `QoS()` is the model's `pubQoS` (as a byte) when `mtypeflags` is not empty -/
theorem PublishMessage_QoS_is_source (m : Message.PublishMessage) (hf : 0 < m.header.mtypeflags.length) :
    ∃ q : UInt8, Message.PublishMessage.QoS m = Res.ok q ∧ q.toNat = pubQoS (hdrOf m.header) := by
  have hne : m.header.mtypeflags ≠ [] := fun h => by rw [h] at hf; exact Nat.lt_irrefl 0 hf
  refine ⟨(((m.header.mtypeflags.headD 0) &&& (15 : UInt8)) >>> (1 : UInt8)) &&& (3 : UInt8), ?_, ?_⟩
  · unfold Message.PublishMessage.QoS
    rw [header_Flags_spec, if_neg hne]
    rfl
  · rw [u8_qos_toNat]
    rfl

theorem PublishMessage_QoS_panics (m : Message.PublishMessage) (hf : m.header.mtypeflags = []) :
    Message.PublishMessage.QoS m = Res.panic := by
  unfold Message.PublishMessage.QoS
  rw [header_Flags_spec, if_pos hf]
  rfl

theorem PublishMessage_msglen_is_source (m : Message.PublishMessage) (hf : 0 < m.header.mtypeflags.length) :
    Message.PublishMessage.msglen m = Res.ok (msgOfPublish m).msglen := by
  obtain ⟨q, hq, hqn⟩ := PublishMessage_QoS_is_source m hf
  unfold Message.PublishMessage.msglen
  rw [hq]
  show Res.ok _ = Res.ok (2 + m.topic.length + m.payload.length + (if pubQoS (hdrOf m.header) ≠ 0 then 2 else 0))
  rw [← hqn]
  congr 1
  by_cases hz : q = 0
  · subst hz; simp
  · have : q.toNat ≠ 0 := fun h => hz (UInt8.toNat_inj.mp h)
    simp [hz, this]

/-- with an empty `mtypeflags` slice (a `PublishMessage{}` literal that did not
go through `NewPublishMessage`) the Go function panics with an index out of range -/
theorem PublishMessage_msglen_panics (m : Message.PublishMessage) (hf : m.header.mtypeflags = []) :
    Message.PublishMessage.msglen m = Res.panic := by
  unfold Message.PublishMessage.msglen
  rw [PublishMessage_QoS_panics m hf]
  rfl

theorem PublishMessage_Len_lenPair (m : Message.PublishMessage) (ml : Nat)
    (hml : Message.PublishMessage.msglen m = Res.ok ml) :
    Message.PublishMessage.Len m =
      Res.ok ({ m with header := (lenPair m.header ml).1 }, (lenPair m.header ml).2) := by
  unfold Message.PublishMessage.Len lenPair
  rw [hml]
  dsimp only [Res.bind]
  split
  · rfl
  · split <;> rfl

theorem PublishMessage_Len_is_source (m : Message.PublishMessage) (hf : 0 < m.header.mtypeflags.length) :
    Message.PublishMessage.Len m =
      Res.ok ({ m with header := lenHdr m.header (msgOfPublish m).msglen }, (msgOfPublish m).len) := by
  rw [PublishMessage_Len_lenPair m _ (PublishMessage_msglen_is_source m hf), lenPair_spec]
  rfl

/-- a message that is not dirty answers from the cached buffer, whatever `mtypeflags` holds -/
theorem PublishMessage_Len_clean (m : Message.PublishMessage) (hd : m.header.dirty = false) :
    Message.PublishMessage.Len m = Res.ok (m, (msgOfPublish m).len) := by
  unfold Message.PublishMessage.Len
  rw [hd]
  simp [Msg.len, msgOfPublish, Msg.hdr, hdrOf, hd]

theorem PublishMessage_Len_panics (m : Message.PublishMessage) (hd : m.header.dirty = true)
    (hf : m.header.mtypeflags = []) : Message.PublishMessage.Len m = Res.panic := by
  unfold Message.PublishMessage.Len
  rw [hd, PublishMessage_msglen_panics m hf]
  rfl

/-! ## disconnect.go (embedded by PINGREQ, PINGRESP) -/

theorem DisconnectMessage_Len_is_source (m : Message.DisconnectMessage) (h0 : 0 ≤ m.header.remlen) :
    Message.DisconnectMessage.Len m = (msgOfDisconnect m).len := by
  unfold Message.DisconnectMessage.Len
  rw [header_Len_is_source m.header h0]
  rfl

/-- the hypothesis is not needed: for a negative `remlen` both sides are 2 (`header_msglen_neg`) -/
theorem DisconnectMessage_Len_is_source' (m : Message.DisconnectMessage) :
    Message.DisconnectMessage.Len m = (msgOfDisconnect m).len := by
  unfold Message.DisconnectMessage.Len Message.header.Len
  rw [header_msglen_hdrOf]
  rfl

end Mqtt.Proofs.XlateCodec
