/-
Refinement step: the end of a connection - `close` (peer close, keep-alive
expiry, protocol error: the will is published) and DISCONNECT (no will).
-/
import Mqtt.Proofs.BrokerRefineEndLemmas

set_option linter.unusedSimpArgs false

namespace Mqtt.Proofs.BrokerRefine
open Mqtt.Iface.Broker Mqtt.Model.Broker
open Mqtt.Model.Topics (MemTopics RMsg RNode)
open Mqtt.Proofs.Topics (WF RWF abs absR good entryLevels)
open Mqtt.Spec.Match (split validName validFilter topicMatches)
open Mqtt.Proofs.Broker (HeldInv RetInv heldEntry)
open Mqtt.Proofs.BrokerQos (toOpen2)
open Mqtt.Proofs.BrokerLife (stopBase markDead)
open Mqtt.Spec.Broker (Accepts SOut Held)

theorem willOk_iff (w : Will) (h : willOk w = true) : good w.topic = true ∧ validName w.topic = true ∧ w.qos ≤ 2 := by
  simp only [willOk, Bool.and_eq_true, decide_eq_true_eq] at h
  exact ⟨h.1.1, h.1.2, h.2⟩

/-- deleting the store entry of the clean session of the connection that just ended -/
theorem R_storeDel_ended {b b' : B} {s s' : Spec.Broker.S} (h : R b s) (hb' : R b' s') {c : Nat} {σ σ' : Sess}
    (hl : liveSess b c = some σ)
    (hst : b'.storeGet σ.cid = some σ.ref) (hσ' : b'.getSess σ.ref = some σ') (hcl : σ'.clean = true)
    (hlive : ∀ c' τ, liveSess b' c' = some τ → c' ≠ c ∧ ∃ τ0, liveSess b c' = some τ0 ∧ τ0.cid = τ.cid) :
    R (b'.storeDel σ.cid) s' := by
  apply R_storeDel hb'
  · unfold resumable
    rw [hst]
    simp [hσ', Option.filter, hcl]
  · intro c' τ hτ
    obtain ⟨hne, τ0, hτ0, hc0⟩ := hlive c' τ hτ
    intro he
    exact hne (h.cidUniq c' c τ0 σ hτ0 hl (by rw [hc0, he]))

/-- the end of a live connection other than by DISCONNECT (`stop` / `endConn`): the
states stay related; both sides close the connection and then publish the will -
the model's outputs are a fan-out of what the reference broker demands; the
session objects of the other live connections are untouched -/
theorem stop_refines {b : B} {s : Spec.Broker.S} (h : R b s) (c : Nat) (hal : b.alive c = true) :
    R (stop b c).1 (Spec.Broker.endConn s c false).1 ∧
    ∃ fs fo, (Spec.Broker.endConn s c false).2 = .closed c :: fs ∧ (stop b c).2 = .closed c :: fo ∧ Fan fs fo := by
  obtain ⟨cn, σ, k, hc, ha, hs, hk, hrel⟩ := h.liveConn hal
  have hl := liveSess_eq hc ha hs
  have hσ := liveSess_ref hl
  rw [Mqtt.Proofs.BrokerLife.stop_live b c cn σ hc ha hs, spec_endConn_eq s c k false hk]
  have R0 := R_stopBase h hc ha hs hk hrel
  have hlive0 : ∀ c' τ, liveSess (stopBase b c σ) c' = some τ → c' ≠ c ∧ ∃ τ0, liveSess b c' = some τ0 ∧ τ0.cid = τ.cid := by
    intro c' τ hτ
    rw [liveSess_stopBase] at hτ
    by_cases he : c' = c
    · simp [he] at hτ
    · simp only [he, ↓reduceIte] at hτ; exact ⟨he, τ, hτ, rfl⟩
  by_cases hwf : σ.willFlag = true
  case neg =>
    have hkw : k.will = none := by
      have := hrel.willFlag
      cases hw : k.will with
      | none => rfl
      | some w => rw [hw] at this; exact absurd this hwf
    rw [if_neg hwf]
    simp only [hkw]
    refine ⟨?_, [], [], rfl, rfl, Fan.nil⟩
    by_cases hcl : σ.clean = true
    · rw [if_pos hcl]
      exact R_storeDel_ended h R0 hl hrel.store hσ hcl hlive0
    · rw [if_neg hcl]; exact R0
  case pos =>
    have hkw : ∃ w, k.will = some w := by
      have := hrel.willFlag; rw [hwf] at this
      cases hw : k.will with
      | none => rw [hw] at this; cases this
      | some w => exact ⟨w, rfl⟩
    obtain ⟨w, hkw⟩ := hkw
    have hσw : σ.will = some (willMsg w) := by rw [hrel.will, hkw]; rfl
    obtain ⟨wg, wn, wq⟩ := willOk_iff w (hrel.willOk w hkw)
    rw [if_pos hwf]
    simp only [hσw, hkw]
    have hfr := (Mqtt.Proofs.BrokerQos.onPublish_frame (stopBase b c σ) (willMsg w)).1
    obtain ⟨R1, fan, _⟩ := R_onPublish R0 (willMsg w) wg wn wq (.inr (.inl rfl))
      (Mqtt.Proofs.Broker.Inv_onPublish _ _ R0.inv)
      (Mqtt.Proofs.BrokerLife.inv_frame (Mqtt.Proofs.BrokerLife.onPublish_frame _ _) R0.linv)
      (R0.qinv.same hfr.same)
    have hls1 : ∀ c', liveSess (onPublish (stopBase b c σ) (willMsg w)).1 c' = liveSess (stopBase b c σ) c' :=
      liveSess_congr hfr.conns hfr.sess
    have hσ1 : (onPublish (stopBase b c σ) (willMsg w)).1.getSess σ.ref = some σ := by
      rw [Mqtt.Proofs.Broker.getSess_congr _ _ hfr.sess]; exact hσ
    have R2 := R_setSess_dead R1 σ { σ with will := some (onPublish (stopBase b c σ) (willMsg w)).2.1 } hσ1
      rfl rfl rfl rfl (fun _ => rfl)
      (by
        intro c' τ hτ
        rw [hls1] at hτ
        obtain ⟨hne, τ0, hτ0, _⟩ := hlive0 c' τ hτ
        rw [liveSess_stopBase] at hτ
        simp only [hne, ↓reduceIte] at hτ
        intro hr
        exact hne (h.refUniq hτ hl hr))
    refine ⟨?_, _, _, rfl, rfl, fan⟩
    by_cases hcl : σ.clean = true
    case neg => rw [if_neg hcl]; exact R2
    case pos =>
      rw [if_pos hcl]
      refine R_storeDel_ended (σ' := { σ with will := some (onPublish (stopBase b c σ) (willMsg w)).2.1 })
        h R2 hl ?_ ?_ hcl ?_
      · show (onPublish (stopBase b c σ) (willMsg w)).1.storeGet σ.cid = some σ.ref
        rw [storeGet_congr hfr.store]; exact hrel.store
      · exact Mqtt.Proofs.BrokerLife.getSess_setSess _ _
      · intro c' τ hτ
        have hgs := getSess_update (b := (onPublish (stopBase b c σ) (willMsg w)).1)
          (b' := (onPublish (stopBase b c σ) (willMsg w)).1.setSess
            { σ with will := some (onPublish (stopBase b c σ) (willMsg w)).2.1 }) rfl
        -- a live session of the new state is one of `stopBase` with the same identifier
        obtain ⟨cn', hc', ha', hs'⟩ := liveSess_some hτ
        rw [hgs] at hs'
        have hc'' : (onPublish (stopBase b c σ) (willMsg w)).1.getConn c' = some cn' := hc'
        by_cases hr : cn'.sess = σ.ref
        · simp only [hr, ↓reduceIte, Option.some.injEq] at hs'
          subst hs'
          have hl1 : liveSess (onPublish (stopBase b c σ) (willMsg w)).1 c' = some σ :=
            liveSess_eq hc'' ha' (by rw [hr]; exact hσ1)
          rw [hls1] at hl1
          obtain ⟨hne, τ0, hτ0, hcid⟩ := hlive0 c' σ hl1
          exact ⟨hne, τ0, hτ0, hcid⟩
        · simp only [hr, ↓reduceIte] at hs'
          have hl1 : liveSess (onPublish (stopBase b c σ) (willMsg w)).1 c' = some τ := liveSess_eq hc'' ha' hs'
          rw [hls1] at hl1
          exact hlive0 c' τ hl1

/-- `close` -/
theorem step_close {b : B} {s : Spec.Broker.S} (h : R b s) (c : Nat) :
    R (step b (.close c)).1 (Spec.Broker.step1 s (.close c)).1 ∧
    Accepts (Spec.Broker.step1 s (.close c)).2 (step b (.close c)).2 := by
  have hstep : step b (.close c) = stop b c := rfl
  have hsp : Spec.Broker.step1 s (.close c) = Spec.Broker.endConn s c false := rfl
  rw [hstep, hsp]
  cases hal : b.alive c with
  | false =>
    rw [Mqtt.Proofs.BrokerLife.stop_dead b c hal]
    have : Spec.Broker.endConn s c false = (s, []) := by
      unfold Spec.Broker.endConn; rw [h.specConn_none hal]
    rw [this]
    exact ⟨h, accepts_nil⟩
  | true =>
    obtain ⟨r1, fs, fo, e1, e2, fan⟩ := stop_refines h c hal
    refine ⟨r1, ?_⟩
    rw [e1, e2]
    have := accepts_shape (.cons (.closed c) .nil) fan .nil
    simpa using this

/-- DISCONNECT on a live connection -/
theorem step_disconnect {b : B} {s : Spec.Broker.S} (h : R b s) (c : Nat) (hal : b.alive c = true) :
    R (step b (.packet c .disconnect)).1 (Spec.Broker.step1 s (.packet c .disconnect)).1 ∧
    Accepts (Spec.Broker.step1 s (.packet c .disconnect)).2 (step b (.packet c .disconnect)).2 := by
  obtain ⟨cn, σ, k, hc, ha, hs, hk, hrel⟩ := h.liveConn hal
  have hl := liveSess_eq hc ha hs
  have hσ := liveSess_ref hl
  have hcnref : cn.sess = σ.ref := (Mqtt.Proofs.BrokerLife.getSess_ref hs).symm
  have hstep : step b (.packet c .disconnect) = stop (b.setSess { σ with willFlag := false }) c :=
    Mqtt.Proofs.BrokerLife.packet_disconnect_eq b c cn σ hc ha hs
  have hs0 : (b.setSess { σ with willFlag := false }).getSess cn.sess = some { σ with willFlag := false } := by
    rw [hcnref]; exact Mqtt.Proofs.BrokerLife.getSess_setSess b { σ with willFlag := false }
  have hsp : Spec.Broker.step1 s (.packet c .disconnect) = (endSpec s c k, [.closed c]) := by
    simp only [Spec.Broker.step1, hk]
    rw [spec_endConn_eq s c k true hk]
    cases k.will <;> rfl
  rw [hstep, hsp, Mqtt.Proofs.BrokerLife.stop_live _ c cn _ (by exact hc) ha hs0]
  simp only [Bool.false_eq_true, ↓reduceIte]
  have R0 := R_stopBase h hc ha hs hk hrel
  have hbase : stopBase (b.setSess { σ with willFlag := false }) c { σ with willFlag := false } =
      (stopBase b c σ).setSess { σ with willFlag := false } := rfl
  rw [hbase]
  have hlive0 : ∀ c' τ, liveSess (stopBase b c σ) c' = some τ → c' ≠ c ∧ liveSess b c' = some τ := by
    intro c' τ hτ
    rw [liveSess_stopBase] at hτ
    by_cases he : c' = c
    · simp [he] at hτ
    · simp only [he, ↓reduceIte] at hτ; exact ⟨he, hτ⟩
  have R1 := R_setSess_dead R0 σ { σ with willFlag := false } (show (stopBase b c σ).getSess σ.ref = some σ from hσ)
    rfl rfl rfl rfl (by intro hf; cases hf)
    (by
      intro c' τ hτ
      obtain ⟨hne, hτ0⟩ := hlive0 c' τ hτ
      intro hr
      exact hne (h.refUniq hτ0 hl hr))
  refine ⟨?_, accepts_lits (.cons (.closed c) .nil)⟩
  by_cases hcl : σ.clean = true
  case neg =>
    have : ({ σ with willFlag := false } : Sess).clean = σ.clean := rfl
    rw [this, if_neg hcl]; exact R1
  case pos =>
    have : ({ σ with willFlag := false } : Sess).clean = σ.clean := rfl
    rw [this, if_pos hcl]
    refine R_storeDel_ended (σ' := { σ with willFlag := false }) h R1 hl ?_ ?_ hcl ?_
    · exact hrel.store
    · exact Mqtt.Proofs.BrokerLife.getSess_setSess _ _
    · intro c' τ hτ
      have hgs := getSess_update (b := stopBase b c σ)
        (b' := (stopBase b c σ).setSess { σ with willFlag := false }) rfl
      obtain ⟨cn', hc', ha', hs'⟩ := liveSess_some hτ
      rw [hgs] at hs'
      have hc'' : (stopBase b c σ).getConn c' = some cn' := hc'
      by_cases hr : cn'.sess = σ.ref
      · simp only [hr, ↓reduceIte, Option.some.injEq] at hs'
        subst hs'
        have hl1 : liveSess (stopBase b c σ) c' = some σ :=
          liveSess_eq hc'' ha' (by rw [hr]; exact hσ)
        obtain ⟨hne, hτ0⟩ := hlive0 c' σ hl1
        exact ⟨hne, σ, hτ0, rfl⟩
      · simp only [hr, ↓reduceIte] at hs'
        have hl1 : liveSess (stopBase b c σ) c' = some τ := liveSess_eq hc'' ha' hs'
        obtain ⟨hne, hτ0⟩ := hlive0 c' τ hl1
        exact ⟨hne, τ, hτ0, rfl⟩

end Mqtt.Proofs.BrokerRefine
