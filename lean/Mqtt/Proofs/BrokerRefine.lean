/-
**The code-shaped broker model refines the reference broker.**

`step_refines`: from related states (`R`, Proofs/BrokerRefineDefs.lean), for every
event admitted by the decidable side condition `okEv`, the two `step` functions
lead to related states and the model's output lies in the set of outcomes the
reference broker's output describes (`Accepts`, Spec/BrokerAccepts.lean).
`Broker_refines_spec`: hence for every history admitted along the run of the
model, started in the initial states.
-/
import Mqtt.Proofs.BrokerRefineConnect
import Mqtt.Proofs.BrokerRefineQos2

set_option linter.unusedSimpArgs false

namespace Mqtt.Proofs.BrokerRefine
open Mqtt.Iface.Broker Mqtt.Model.Broker
open Mqtt.Proofs.Topics (good)
open Mqtt.Spec.Match (validName)
open Mqtt.Spec.Broker (Accepts)

/-- **one event** -/
theorem step_refines (b : B) (s : Spec.Broker.S) (e : Ev) (h : R b s) (hok : okEv b e = true) :
    R (step b e).1 (Spec.Broker.step s e).1 ∧ Accepts (Spec.Broker.step s e).2 (step b e).2 := by
  rw [spec_step_eq s e]
  cases e with
  | first c f a => exact step_first h c f a hok
  | close c => exact step_close h c
  | srvPub p =>
    simp only [okEv, Bool.and_eq_true, decide_eq_true_eq] at hok
    exact step_srvPub h p hok.1.1 hok.1.2 hok.2
  | srvSub cb f q =>
    simp only [okEv, Bool.and_eq_true, decide_eq_true_eq] at hok
    exact step_srvSub h cb f q hok.1 hok.2
  | srvUnsub cb f =>
    simp only [okEv, Bool.and_eq_true, decide_eq_true_eq] at hok
    exact step_srvUnsub h cb f hok.1 hok.2
  | packet c p =>
    cases hal : b.alive c with
    | false => exact step_packet_dead h c p hal
    | true =>
      cases p with
      | publish pub =>
        have hp : pubOk pub = true := hok
        have hq := (pubOk_iff pub hp).2.2.1
        have : pub.qos = 0 ∨ pub.qos = 1 ∨ pub.qos = 2 := by omega
        rcases this with h0 | h1 | h2
        · exact step_publish01 h c hal pub hp (.inl h0)
        · exact step_publish01 h c hal pub hp (.inr h1)
        · exact step_publish2 h c hal pub hp h2
      | pubrel id => exact step_pubrel h c hal id
      | subscribe id ts =>
        have hg : ∀ tq ∈ ts, good tq.1 = true := by
          have : ts.all (fun tq => good tq.1) = true := hok
          rw [List.all_eq_true] at this
          exact this
        exact step_subscribe h c hal id ts hg
      | unsubscribe id ts =>
        have hg : ∀ t ∈ ts, good t = true := by
          have : ts.all (fun t => good t) = true := hok
          rw [List.all_eq_true] at this
          exact this
        exact step_unsubscribe h c hal id ts hg
      | disconnect => exact step_disconnect h c hal
      | pingreq => exact step_packet_simple h c hal _ (.inl rfl)
      | pubrec id => exact step_packet_simple h c hal _ (.inr (.inl ⟨id, rfl⟩))
      | puback id => exact step_packet_simple h c hal _ (.inr (.inr (.inl ⟨id, rfl⟩)))
      | pubcomp id => exact step_packet_simple h c hal _ (.inr (.inr (.inr (.inl ⟨id, rfl⟩))))
      | pingresp => exact step_packet_simple h c hal _ (.inr (.inr (.inr (.inr (.inl rfl)))))
      | suback id cs => exact step_packet_simple h c hal _ (.inr (.inr (.inr (.inr (.inr (.inl ⟨id, cs, rfl⟩))))))
      | unsuback id =>
        exact step_packet_simple h c hal _ (.inr (.inr (.inr (.inr (.inr (.inr (.inl ⟨id, rfl⟩)))))))
      | connack sp k =>
        exact step_packet_simple h c hal _ (.inr (.inr (.inr (.inr (.inr (.inr (.inr (.inl ⟨sp, k, rfl⟩))))))))
      | connectAgain =>
        exact step_packet_simple h c hal _ (.inr (.inr (.inr (.inr (.inr (.inr (.inr (.inr rfl))))))))

/-- **every history**, from related states -/
theorem run_refines (es : List Ev) : ∀ (b : B) (s : Spec.Broker.S), R b s → okRun b es = true →
    R (run b es).1 (specRun s es).1 ∧ AcceptsAll (specRun s es).2 (run b es).2 := by
  induction es with
  | nil => intro b s h _; exact ⟨h, .nil⟩
  | cons e rest ih =>
    intro b s h hok
    simp only [okRun, Bool.and_eq_true] at hok
    obtain ⟨r1, a1⟩ := step_refines b s e h hok.1
    obtain ⟨r2, a2⟩ := ih (step b e).1 (Spec.Broker.step s e).1 r1 hok.2
    exact ⟨r2, .cons a1 a2⟩

/-- **The broker model refines the reference broker**: along every history all
of whose events are admitted (`okRun`: `okEv` in the state the model is in),
started in the initial states, the output of every event is accepted by the
reference broker's output for it, and the states stay related. -/
theorem Broker_refines_spec (es : List Ev) (hok : okRun {} es = true) :
    R (run {} es).1 (specRun {} es).1 ∧ AcceptsAll (specRun {} es).2 (run {} es).2 :=
  run_refines es {} {} R_init hok

/-- the `i`-th outputs -/
theorem AcceptsAll.get {sos : List (List Spec.Broker.SOut)} {os : List (List Out)} (h : AcceptsAll sos os) :
    sos.length = os.length ∧ ∀ i (h1 : i < sos.length) (h2 : i < os.length), Accepts sos[i] os[i] := by
  induction h with
  | nil => exact ⟨rfl, fun i h1 _ => absurd h1 (by simp)⟩
  | cons a _ ih =>
    refine ⟨by simp [ih.1], ?_⟩
    intro i h1 h2
    cases i with
    | zero => exact a
    | succ j => exact ih.2 j (by simpa using h1) (by simpa using h2)

/-! ### non-vacuity -/

namespace Ex

def mqtt : Bytes := [77, 81, 84, 84]
def conn (id : Bytes) (clean : Bool) (will : Option Will := none) : Connect :=
  { protoName := mqtt, version := 4, clean := clean, will := will, clientId := id }

def tAB : Bytes := [97, 47, 98]      -- "a/b"
def tAplus : Bytes := [97, 47, 43]   -- "a/+"
def tW : Bytes := [119]              -- "w"

/-- two clients: "A" (CleanSession=0, will on "w") subscribes to "a/+" and "w";
"B" (clean) subscribes to "w"; a retained PUBLISH on "a/b" from B (QoS 1); a
QoS 2 exchange from B on "a/b"; A's socket closes (will to B); A reconnects
(session present, subscriptions back), B publishes again; the in-process API
subscribes to "a/#" and publishes; A disconnects; a connection whose first
packet is a PUBLISH is refused;
"B" connects again (CleanSession=0, will on "a/b") while its first connection is still live: that
one is closed (MQTT-3.1.4-2); "B" subscribes, connects a third time: the second connection is
closed, its will published, the session resumed (SessionPresent=1) and the subscription still delivers;
an anonymous client (empty identifier) comes and goes. -/
def history : List Ev :=
  [.first 1 (.connect (conn [65] false (some ⟨tW, [1], 1, false⟩))) true,
   .packet 1 (.subscribe 1 [(tAplus, 1), (tW, 2)]),
   .first 2 (.connect (conn [66] true)) true,
   .packet 2 (.subscribe 1 [(tW, 1)]),
   .packet 2 (.publish { qos := 1, retain := true, topic := tAB, pktid := 7, payload := [7] }),
   .packet 2 (.publish { qos := 2, topic := tAB, pktid := 8, payload := [8] }),
   .packet 2 (.pubrel 8),
   .close 1,
   .first 3 (.connect (conn [65] false)) true,
   .packet 2 (.publish { qos := 0, topic := tAB, payload := [9] }),
   .srvSub 1000 [97, 47, 35] 1,
   .srvPub { qos := 1, topic := tAB, payload := [10] },
   .packet 3 .disconnect,
   .first 4 (.other 3) true,
   .first 6 (.connect (conn [66] false (some ⟨tAB, [2], 0, false⟩))) true,
   .packet 6 (.subscribe 3 [(tAB, 1)]),
   .first 7 (.connect (conn [66] false)) true,
   .srvPub { qos := 1, topic := tAB, payload := [11] },
   .first 5 (.connect (conn [] true)) true,
   .packet 5 (.subscribe 2 [(tW, 0)]),
   .close 5]

end Ex

/-- the history is admitted all along ... -/
example : okRun {} Ex.history = true := by decide

/-- ... so the theorem applies to it; and this is what the model does on it (the
will reaches B on close; the reconnect is answered SessionPresent=1 and A gets
the next PUBLISH without subscribing again) -/
example : (run {} Ex.history).2 =
    [[.send 1 (.connack false 0)],
     [.send 1 (.suback 1 [1, 2])],
     [.send 2 (.connack false 0)],
     [.send 2 (.suback 1 [1])],
     [.send 2 (.puback 7), .send 1 (.publish { qos := 1, topic := Ex.tAB, pktid := 7, payload := [7] })],
     [.send 2 (.pubrec 8)],
     [.send 1 (.publish { qos := 1, topic := Ex.tAB, pktid := 8, payload := [8] }), .send 2 (.pubcomp 8)],
     [.closed 1, .send 2 (.publish { qos := 1, topic := Ex.tW, pktid := 1, payload := [1] })],
     [.send 3 (.connack true 0)],
     [.send 3 (.publish { qos := 0, topic := Ex.tAB, payload := [9] })],
     [.call 1000 { qos := 1, retain := true, topic := Ex.tAB, pktid := 7, payload := [7] }],
     [.send 3 (.publish { qos := 1, topic := Ex.tAB, pktid := 2, payload := [10] }),
      .call 1000 { qos := 1, topic := Ex.tAB, pktid := 2, payload := [10] }],
     [.closed 3],
     [.closed 4],
     [.closed 2, .send 6 (.connack false 0)],
     [.send 6 (.suback 3 [1]), .send 6 (.publish { qos := 1, retain := true, topic := Ex.tAB, pktid := 7, payload := [7] })],
     [.closed 6, .call 1000 { qos := 0, topic := Ex.tAB, payload := [2] }, .send 7 (.connack true 0)],
     [.call 1000 { qos := 1, topic := Ex.tAB, payload := [11] },
      .send 7 (.publish { qos := 1, topic := Ex.tAB, pktid := 3, payload := [11] })],
     [.send 5 (.connack false 0)],
     [.send 5 (.suback 2 [0])],
     [.closed 5]] := by decide

example : R (run {} Ex.history).1 (specRun {} Ex.history).1 ∧
    AcceptsAll (specRun {} Ex.history).2 (run {} Ex.history).2 :=
  Broker_refines_spec Ex.history (by decide)

end Mqtt.Proofs.BrokerRefine
