/-
Refinement step: SUBSCRIBE, UNSUBSCRIBE and the in-process
`Server.Subscribe` / `Server.Unsubscribe`.
-/
import Mqtt.Proofs.BrokerRefineSubLemmas

set_option linter.unusedSimpArgs false

namespace Mqtt.Proofs.BrokerRefine
open Mqtt.Iface.Broker Mqtt.Model.Broker
open Mqtt.Model.Topics (MemTopics RMsg RNode)
open Mqtt.Proofs.Topics (WF RWF abs absR good entryLevels)
open Mqtt.Spec.Match (split validName validFilter topicMatches)
open Mqtt.Proofs.Broker (HeldInv RetInv heldEntry accepts modelCode retainedOf retainedPub retainedCall specSubHeld)
open Mqtt.Proofs.BrokerQos (toOpen2)
open Mqtt.Spec.Broker (Accepts SOut Held addHeld subCode wild idOk pubOf outOwner modelGroup specGroup)

theorem filterMap_pubOf_calls {α} (cb : Nat) (l : List α) (F : α → Pub) :
    (l.map (fun r => Out.call cb (F r))).filterMap pubOf = l.map (fun r => { F r with pktid := 0 }) := by
  induction l with
  | nil => rfl
  | cons x xs ih => simp only [List.map_cons, List.filterMap_cons, pubOf, ih]

theorem filterMap_pubOf_sends {α} (c : Nat) (l : List α) (F : α → Pub) :
    (l.map (fun r => Out.send c (.publish (F r)))).filterMap pubOf = l.map F := by
  induction l with
  | nil => rfl
  | cons x xs ih => simp only [List.map_cons, List.filterMap_cons, pubOf, ih]

/-! ### `Server.Subscribe` -/

theorem step_srvSub {b : B} {s : Spec.Broker.S} (h : R b s) (cb : Nat) (f : Bytes) (q : Nat)
    (hcb : cbBase ≤ cb) (hg : good f = true) :
    R (step b (.srvSub cb f q)).1 (Spec.Broker.step1 s (.srvSub cb f q)).1 ∧
    Accepts (Spec.Broker.step1 s (.srvSub cb f q)).2 (step b (.srvSub cb f q)).2 := by
  obtain ⟨i1, i2, i3⟩ := h.step_invs (.srvSub cb f q)
  have hstep : step b (.srvSub cb f q) = srvSub b cb f q := rfl
  rw [hstep] at i1 i2 i3 ⊢
  obtain ⟨hout, hst⟩ := Mqtt.Proofs.Broker.srvSub_char b cb f q
  have hheld := Mqtt.Proofs.Broker.srvSub_held b h.inv cb f q hg s.held h.held
  have hrr : (srvSub b cb f q).1.topics.rroot = b.topics.rroot := by
    rw [hst]; exact Mqtt.Proofs.Broker.subscribe_rroot _ _ _ _ _
  have hacc := Mqtt.Proofs.Broker.accepts_good f q hg
  by_cases hrej : (!validFilter f || decide (q > 2)) = true
  · have hsp : Spec.Broker.step1 s (.srvSub cb f q) = (s, [.apiErr]) := by
      simp only [Spec.Broker.step1]
      rw [if_pos hrej]
    have ha : accepts f q = false := by
      rw [hacc]
      simp only [Bool.or_eq_true, Bool.not_eq_true', decide_eq_true_eq] at hrej
      rcases hrej with h1 | h1
      · simp [h1]
      · have : ¬ q ≤ 2 := by omega
        simp [this]
    rw [hsp]
    simp only [hrej, ↓reduceIte] at hheld
    refine ⟨R_held h i1 i2 i3 (by rw [hst]) (by rw [hst]) (by rw [hst]) hrr hheld h.heldGood h.owners
      (fun _ _ => rfl) rfl rfl rfl, ?_⟩
    rw [hout, ha]
    exact accepts_apiErr
  · have hsp : Spec.Broker.step1 s (.srvSub cb f q) =
        ({ s with held := addHeld s.held cb f (min q Spec.Broker.maxQos) },
         [.retained cb (Spec.Broker.retainedFor { s with held := addHeld s.held cb f (min q Spec.Broker.maxQos) } f
            (min q Spec.Broker.maxQos))]) := by
      simp only [Spec.Broker.step1]
      rw [if_neg hrej]
    have hv : validFilter f = true ∧ q ≤ 2 := by
      simp only [Bool.or_eq_true, Bool.not_eq_true', decide_eq_true_eq, not_or, Bool.not_eq_false] at hrej
      exact ⟨hrej.1, by omega⟩
    have ha : accepts f q = true := by rw [hacc]; simp [hv.1, hv.2]
    rw [hsp]
    simp only [hrej, Bool.false_eq_true, ↓reduceIte] at hheld
    refine ⟨R_held (s' := { s with held := addHeld s.held cb f (min q Spec.Broker.maxQos) }) h i1 i2 i3
      (by rw [hst]) (by rw [hst]) (by rw [hst]) hrr hheld ?_ ?_ ?_ rfl rfl rfl, ?_⟩
    · intro x hx
      simp only [addHeld, List.mem_append, List.mem_filter, List.mem_singleton] at hx
      rcases hx with hx | rfl
      · exact h.heldGood x hx.1
      · exact hg
    · intro x hx hlt
      simp only [addHeld, List.mem_append, List.mem_filter, List.mem_singleton] at hx
      rcases hx with hx | rfl
      · exact h.owners x hx.1 hlt
      · simp only at hlt; omega
    · intro c hc
      have := h.connLt c hc
      rw [heldOf_eq, heldOf_eq]
      exact heldOfL_addHeld_ne _ _ _ _ _ (by omega)
    · rw [hout, ha]
      simp only [↓reduceIte]
      apply accepts_fan
      have hf := fan_retained cb
        [Spec.Broker.retainedFor { s with held := addHeld s.held cb f (min q Spec.Broker.maxQos) } f
          (min q Spec.Broker.maxQos)]
        ((retainedOf b.topics f).map (fun r => Out.call cb (retainedCall r (min q Mqtt.Generated.maxQosAllowed))))
        ?_ ?_ ?_
      · exact hf
      · intro y hy
        obtain ⟨r, _, rfl⟩ := List.mem_map.mp hy
        rfl
      · intro y hy
        obtain ⟨r, _, rfl⟩ := List.mem_map.mp hy
        have := Mqtt.Proofs.Broker.facts_cbBase
        simp only [okOut, decide_eq_true_eq]; omega
      · rw [filterMap_pubOf_calls, List.map_map]
        simp only [List.map_cons, List.map_nil, List.flatten_cons, List.flatten_nil, List.append_nil]
        rw [map_wild_retainedFor]
        have := retained_wild b.topics s h.rets f (min q Spec.Broker.maxQos) hg hv.1
        rw [retainedFor_congr s { s with held := addHeld s.held cb f (min q Spec.Broker.maxQos) } rfl]
        exact this

/-! ### `Server.Unsubscribe` -/

theorem step_srvUnsub {b : B} {s : Spec.Broker.S} (h : R b s) (cb : Nat) (f : Bytes)
    (hcb : cbBase ≤ cb) (hg : good f = true) :
    R (step b (.srvUnsub cb f)).1 (Spec.Broker.step1 s (.srvUnsub cb f)).1 ∧
    Accepts (Spec.Broker.step1 s (.srvUnsub cb f)).2 (step b (.srvUnsub cb f)).2 := by
  obtain ⟨i1, i2, i3⟩ := h.step_invs (.srvUnsub cb f)
  have hstep : step b (.srvUnsub cb f) = srvUnsub b cb f := rfl
  rw [hstep] at i1 i2 i3 ⊢
  have hheld := Mqtt.Proofs.Broker.srvUnsub_held b h.inv cb f hg s.held h.held
  have hsp : Spec.Broker.step1 s (.srvUnsub cb f) =
      ({ s with held := s.held.filter (fun h => !(h.owner == cb && h.filter == f)) }, [.unspecified]) := rfl
  rw [hsp]
  refine ⟨R_held (s' := { s with held := s.held.filter (fun h => !(h.owner == cb && h.filter == f)) }) h i1 i2 i3
    rfl rfl rfl (Mqtt.Proofs.Broker.unsubscribe_rroot _ _ _) hheld ?_ ?_ ?_ rfl rfl rfl, accepts_unspecified _⟩
  · intro x hx; exact h.heldGood x (List.mem_filter.mp hx).1
  · intro x hx hlt; exact h.owners x (List.mem_filter.mp hx).1 hlt
  · intro c hc
    have := h.connLt c hc
    rw [heldOf_eq, heldOf_eq]
    show heldOfL (s.held.filter (fun h => !(h.owner == cb && h.filter == f))) c = _
    rw [heldOfL_filter s.held _ cb c (fun t => t == f) (fun _ => rfl)]
    have : c ≠ cb := by omega
    simp [this]

/-! ### SUBSCRIBE -/

/-- the retained deliveries after the SUBACK against the `retained` items of the reference broker -/
theorem subscribe_retained_perm (mt : MemTopics) (s : Spec.Broker.S) (hr : RetInv mt.rroot s.rets) (c : Nat)
    (topics : List (Bytes × Nat)) (hg : ∀ tq ∈ topics, good tq.1 = true) :
    (((topics.flatMap (fun tq =>
        if accepts tq.1 tq.2 then
          (retainedOf mt tq.1).map (fun r =>
            Out.send c (.publish (retainedPub r (min tq.2 Mqtt.Generated.maxQosAllowed))))
        else [])).filterMap pubOf).map wild).Perm
      ((((topics.zip (topics.map (fun t => subCode t.1 t.2))).filter (fun p => p.2 != 0x80)).map
        (fun p => (Spec.Broker.retainedFor s p.1.1 p.2).map wild)).flatten) := by
  induction topics with
  | nil => exact List.Perm.refl _
  | cons tq rest ih =>
    obtain ⟨t, q⟩ := tq
    have hgt : good t = true := hg (t, q) (by simp)
    have ih' := ih (fun x hx => hg x (List.mem_cons_of_mem _ hx))
    obtain ⟨c1, c2⟩ := Mqtt.Proofs.Broker.subCode_granted t q
    simp only [List.flatMap_cons, List.filterMap_append, List.map_append, List.map_cons, List.zip_cons_cons,
      List.filter_cons]
    rw [c1, Mqtt.Proofs.Broker.accepts_good t q hgt]
    cases hcond : (validFilter t && decide (q ≤ 2)) with
    | false =>
      simp only [Bool.false_eq_true, ↓reduceIte, List.filterMap_nil, List.map_nil, List.nil_append]
      exact ih'
    | true =>
      simp only [↓reduceIte, List.map_cons, List.flatten_cons]
      refine List.Perm.append ?_ ih'
      have hvt : validFilter t = true := by simp only [Bool.and_eq_true] at hcond; exact hcond.1
      rw [filterMap_pubOf_sends, List.map_map, map_wild_retainedFor, c2 hcond]
      exact retained_wild mt s hr t _ hgt hvt

theorem step_subscribe {b : B} {s : Spec.Broker.S} (h : R b s) (c : Nat) (hl : b.alive c = true) (id : Nat)
    (topics : List (Bytes × Nat)) (hg : ∀ tq ∈ topics, good tq.1 = true) :
    R (step b (.packet c (.subscribe id topics))).1 (Spec.Broker.step1 s (.packet c (.subscribe id topics))).1 ∧
    Accepts (Spec.Broker.step1 s (.packet c (.subscribe id topics))).2 (step b (.packet c (.subscribe id topics))).2 := by
  obtain ⟨cn, σ, k, hc, ha, hs, hk, hrel⟩ := h.liveConn hl
  obtain ⟨i1, i2, i3⟩ := h.step_invs (.packet c (.subscribe id topics))
  have hstep : step b (.packet c (.subscribe id topics)) = packet b c (.subscribe id topics) := rfl
  rw [hstep] at i1 i2 i3 ⊢
  -- the reference broker's step
  have hsp : Spec.Broker.step1 s (.packet c (.subscribe id topics)) =
      ({ s with held := specSubHeld c topics s.held },
       .sendOrClose c (.suback id (topics.map (fun t => subCode t.1 t.2))) ::
         ((topics.zip (topics.map (fun t => subCode t.1 t.2))).filter (fun p => p.2 != 0x80)).map
           (fun p => SOut.retained c (Spec.Broker.retainedFor { s with held := specSubHeld c topics s.held } p.1.1 p.2))) := by
    simp only [Spec.Broker.step1, hk, Mqtt.Proofs.Broker.specSubHeld_eq]
  rw [hsp]
  -- the model's state
  have hpk := Mqtt.Proofs.Broker.packet_subscribe b c cn σ id topics hc ha hs
  have hσ1 := subscribeLoop_sess c topics b σ [] []
  obtain ⟨l1, l2, _, l4, _⟩ := Mqtt.Proofs.Broker.subscribeLoop_conns c topics b σ [] []
  obtain ⟨lf, _⟩ := Mqtt.Proofs.BrokerLife.subscribeLoop_frame c topics b σ [] []
  have hb' : (packet b c (.subscribe id topics)).1 =
      (sendRetained ((subscribeLoop b c σ topics [] []).1.setSess (subscribeLoop b c σ topics [] []).2.1) c
        (subscribeLoop b c σ topics [] []).2.2.2).1 := by rw [hpk]
  obtain ⟨sh1, sh2, sh3, _⟩ := Mqtt.Proofs.Broker.sendRetained_shape c (subscribeLoop b c σ topics [] []).2.2.2
    ((subscribeLoop b c σ topics [] []).1.setSess (subscribeLoop b c σ topics [] []).2.1)
  have sf := Mqtt.Proofs.BrokerLife.sendRetained_frame c (subscribeLoop b c σ topics [] []).2.2.2
    ((subscribeLoop b c σ topics [] []).1.setSess (subscribeLoop b c σ topics [] []).2.1)
  have hconns : (packet b c (.subscribe id topics)).1.conns = b.conns := by rw [hb', sh1]; exact l1
  have hstore : (packet b c (.subscribe id topics)).1.store = b.store := by
    rw [hb', sf.store]; exact lf.store
  have hsess : (packet b c (.subscribe id topics)).1.sess =
      (b.setSess { σ with topics := subTopics topics σ.topics }).sess := by
    rw [hb', sh2, hσ1]
    unfold B.setSess
    simp only [l2]
  have hrr : (packet b c (.subscribe id topics)).1.topics.rroot = b.topics.rroot := by
    rw [hb', sh3]; exact l4
  -- held subscriptions
  have hheld : HeldInv (packet b c (.subscribe id topics)).1.topics.sroot (specSubHeld c topics s.held) := by
    have hp := Mqtt.Proofs.Broker.packet_subscribe_sroot b h.inv c id topics hl
    obtain ⟨e1, e2⟩ := Mqtt.Proofs.Broker.entriesAfterSub_held c topics hg s.held h.held.valid
    exact ⟨(hp.trans (Mqtt.Proofs.Broker.entriesAfterSub_perm c topics _ _ h.held.perm)).trans (by rw [e1]), e2⟩
  have hsub_mem : ∀ x ∈ specSubHeld c topics s.held, x ∈ s.held ∨ (x.owner = c ∧ ∃ tq ∈ topics, x.filter = tq.1) := by
    have : ∀ (ts : List (Bytes × Nat)) (held : List Held), (∀ tq ∈ ts, tq ∈ topics) →
        ∀ x ∈ specSubHeld c ts held, x ∈ held ∨ (x.owner = c ∧ ∃ tq ∈ topics, x.filter = tq.1) := by
      intro ts
      induction ts with
      | nil => intro held _ x hx; exact .inl hx
      | cons tq rest ih =>
        intro held hsub x hx
        simp only [specSubHeld, List.foldl_cons] at hx
        have := ih _ (fun y hy => hsub y (List.mem_cons_of_mem _ hy)) x hx
        rcases this with h1 | h1
        · split at h1
          · simp only [addHeld, List.mem_append, List.mem_filter, List.mem_singleton] at h1
            rcases h1 with h1 | rfl
            · exact .inl h1.1
            · exact .inr ⟨rfl, tq, hsub tq (List.mem_cons_self ..), rfl⟩
          · exact .inl h1
        · exact .inr h1
    exact this topics s.held (fun _ h => h)
  have hother : ∀ c', c' ≠ c → heldOfL (specSubHeld c topics s.held) c' = heldOfL s.held c' := by
    intro c' hne
    have : ∀ (ts : List (Bytes × Nat)) (held : List Held),
        heldOfL (specSubHeld c ts held) c' = heldOfL held c' := by
      intro ts
      induction ts with
      | nil => intro held; rfl
      | cons tq rest ih =>
        intro held
        simp only [specSubHeld, List.foldl_cons]
        have := ih (if subCode tq.1 tq.2 != 0x80 then addHeld held c tq.1 (subCode tq.1 tq.2) else held)
        simp only [specSubHeld] at this
        rw [this]
        split
        · exact heldOfL_addHeld_ne _ _ _ _ _ hne
        · rfl
    exact this topics s.held
  have hR : R (packet b c (.subscribe id topics)).1 { s with held := specSubHeld c topics s.held } := by
    refine R_update (σ' := { σ with topics := subTopics topics σ.topics }) (k' := k) h (liveSess_eq hc ha hs) hk
      i1 i2 i3 hconns hstore hsess rfl rfl hrr hheld ?_ ?_ ?_ rfl rfl h.sconns ?_ ?_
    · intro x hx
      rcases hsub_mem x hx with h1 | ⟨_, tq, htq, he⟩
      · exact h.heldGood x h1
      · rw [he]; exact hg tq htq
    · intro x hx _
      rcases hsub_mem x hx with h1 | ⟨he, _⟩
      · exact h.owners x h1 ‹_›
      · rw [he]; exact hl
    · intro c' hne
      rw [heldOf_eq, heldOf_eq]; exact hother c' hne
    · intro c'
      show Spec.Broker.getConn s c' = _
      by_cases he : c' = c
      · subst he; simp [hk]
      · simp [he]
    · refine ⟨hrel.cid, hrel.clean, hrel.willFlag, hrel.will, hrel.willOk, hrel.open2, hrel.q2ok, ?_, ?_⟩
      · rw [heldOf_eq]
        exact topicsRel_subscribe c topics hg σ.topics s.held (by rw [← heldOf_eq]; exact hrel.topics)
      · rw [storeGet_congr hstore]; exact hrel.store
  refine ⟨hR, ?_⟩
  -- the outputs
  have htop : ∀ e ∈ absR b.topics.rroot, e.2.topic ≠ [] := by
    intro e he
    have hm : Mqtt.Proofs.Broker.retOf e ∈ (absR b.topics.rroot).map Mqtt.Proofs.Broker.retOf :=
      List.mem_map.mpr ⟨e, he, rfl⟩
    have := h.rets.perm.mem_iff.mp hm
    obtain ⟨r, hr, hre⟩ := List.mem_map.mp this
    have hn := h.retsOk r hr
    have ht : r.topic = e.2.topic := by
      have := congrArg (fun x => x.2.topic) hre
      simpa [Mqtt.Proofs.Broker.retOf] using this
    intro h0
    rw [ht, h0] at hn
    exact absurd hn (by decide)
  rw [Mqtt.Proofs.Broker.packet_subscribe_out b h.inv c id topics hl htop]
  have hcodes : topics.map (fun tq => modelCode tq.1 tq.2) = topics.map (fun t => subCode t.1 t.2) := by
    apply List.map_congr_left
    intro tq htq
    exact Mqtt.Proofs.Broker.modelCode_good tq.1 tq.2 (hg tq htq)
  rw [hcodes]
  have hfan := fan_retained c
    (((topics.zip (topics.map (fun t => subCode t.1 t.2))).filter (fun p => p.2 != 0x80)).map
      (fun p => Spec.Broker.retainedFor { s with held := specSubHeld c topics s.held } p.1.1 p.2))
    (topics.flatMap (fun tq =>
        if accepts tq.1 tq.2 then
          (retainedOf b.topics tq.1).map (fun r =>
            Out.send c (.publish (retainedPub r (min tq.2 Mqtt.Generated.maxQosAllowed))))
        else [])) ?_ ?_ ?_
  · rw [List.map_map] at hfan
    have := accepts_shape (.cons (.sent c (.suback id (topics.map (fun t => subCode t.1 t.2))) (by intro w h; cases h)) .nil)
      hfan .nil
    simpa [Function.comp_def] using this
  · intro y hy
    obtain ⟨tq, _, hy⟩ := List.mem_flatMap.mp hy
    split at hy
    · obtain ⟨r, _, rfl⟩ := List.mem_map.mp hy; rfl
    · cases hy
  · intro y hy
    obtain ⟨tq, _, hy⟩ := List.mem_flatMap.mp hy
    split at hy
    · rename_i hacc
      obtain ⟨r, hr, rfl⟩ := List.mem_map.mp hy
      obtain ⟨e, he, rfl⟩ := Mqtt.Proofs.Broker.retainedOf_mem b.topics tq.1 h.inv.rwf
        (Mqtt.Proofs.Broker.accepts_levels _ _ hacc) r hr
      exact idOk_retainedPub _ _ (h.retIds e he)
    · cases hy
  · rw [List.map_map]
    have := subscribe_retained_perm b.topics s h.rets c topics hg
    refine this.trans ?_
    exact List.Perm.refl _

/-! ### UNSUBSCRIBE -/

theorem step_unsubscribe {b : B} {s : Spec.Broker.S} (h : R b s) (c : Nat) (hl : b.alive c = true) (id : Nat)
    (topics : List Bytes) (hg : ∀ t ∈ topics, good t = true) :
    R (step b (.packet c (.unsubscribe id topics))).1 (Spec.Broker.step1 s (.packet c (.unsubscribe id topics))).1 ∧
    Accepts (Spec.Broker.step1 s (.packet c (.unsubscribe id topics))).2
      (step b (.packet c (.unsubscribe id topics))).2 := by
  obtain ⟨cn, σ, k, hc, ha, hs, hk, hrel⟩ := h.liveConn hl
  obtain ⟨i1, i2, i3⟩ := h.step_invs (.packet c (.unsubscribe id topics))
  have hstep : step b (.packet c (.unsubscribe id topics)) = packet b c (.unsubscribe id topics) := rfl
  rw [hstep] at i1 i2 i3 ⊢
  have hsp : Spec.Broker.step1 s (.packet c (.unsubscribe id topics)) =
      ({ s with held := s.held.filter (fun h => !(h.owner == c && topics.contains h.filter)) },
       [.send c (.unsuback id)]) := by
    simp only [Spec.Broker.step1, hk]
  have hpk := Mqtt.Proofs.Broker.packet_unsubscribe b c cn σ id topics hc ha hs
  have hsend : send b c (.unsuback id) = [.send c (.unsuback id)] := Mqtt.Proofs.BrokerQos.send_alive hl _
  have hheld : HeldInv (packet b c (.unsubscribe id topics)).1.topics.sroot
      (s.held.filter (fun h => !(h.owner == c && topics.contains h.filter))) := by
    have hp := Mqtt.Proofs.Broker.packet_unsubscribe_sroot b h.inv c id topics hl
    have e1 := Mqtt.Proofs.Broker.entriesAfterUnsub_held c topics hg s.held h.held.valid
    exact ⟨(hp.trans (Mqtt.Proofs.Broker.entriesAfterUnsub_perm c topics _ _ h.held.perm)).trans (by rw [e1]),
      fun x hm => h.held.valid x (List.mem_filter.mp hm).1⟩
  rw [hsp]
  have hfu := Mqtt.Proofs.Broker.unsubFold_frame c topics b.topics h.inv.wf
  rw [hpk] at i1 i2 i3 hheld ⊢
  simp only [hsend]
  refine ⟨?_, accepts_lits (.cons (.send c _ (by intro w h; cases h)) .nil)⟩
  refine R_update (σ' := { σ with topics := σ.topics.filter (fun p => !topics.contains p.1) }) (k' := k)
    (s' := { s with held := s.held.filter (fun h => !(h.owner == c && topics.contains h.filter)) })
    h (liveSess_eq hc ha hs) hk i1 i2 i3 rfl rfl rfl rfl rfl hfu.2 hheld ?_ ?_ ?_ rfl rfl h.sconns ?_ ?_
  · intro x hx; exact h.heldGood x (List.mem_filter.mp hx).1
  · intro x hx hlt; exact h.owners x (List.mem_filter.mp hx).1 hlt
  · intro c' hne
    rw [heldOf_eq, heldOf_eq]
    show heldOfL (s.held.filter (fun h => !(h.owner == c && topics.contains h.filter))) c' = _
    rw [heldOfL_filter s.held _ c c' (fun t => topics.contains t) (fun _ => rfl)]
    simp [hne]
  · intro c'
    show Spec.Broker.getConn s c' = _
    by_cases he : c' = c
    · subst he; simp [hk]
    · simp [he]
  · refine ⟨hrel.cid, hrel.clean, hrel.willFlag, hrel.will, hrel.willOk, hrel.open2, hrel.q2ok, ?_, hrel.store⟩
    rw [heldOf_eq]
    show TopicsRel _ (heldOfL (s.held.filter (fun h => !(h.owner == c && topics.contains h.filter))) c)
    rw [heldOfL_filter s.held _ c c (fun t => topics.contains t) (fun _ => rfl)]
    simp only [↓reduceIte]
    exact topicsRel_unsubscribe topics σ.topics _ (by rw [← heldOf_eq]; exact hrel.topics)

end Mqtt.Proofs.BrokerRefine
