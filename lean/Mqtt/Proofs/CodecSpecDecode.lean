/-
Core A (codec): completeness of the reference decoder of `Spec/Wire.lean` — it accepts the
reference encoding of every well-formed packet (followed by anything) and returns that packet.
With `Wire.decode_sound` this makes `Wire.decode` the inverse of `Wire.encode` on well-formed packets.
-/
import Mqtt.Proofs.CodecWire

set_option linter.unusedSimpArgs false
set_option linter.unusedVariables false

namespace Mqtt.Proofs.Codec

open Mqtt.Model.Codec Mqtt.Iface.Codec
open Mqtt.Spec

theorem getVarint_last (fuel x : Nat) (hx : x < 128) (r : Bytes) :
    Wire.getVarint (fuel + 1) (UInt8.ofNat x :: r) = some (x, r) := by
  unfold Wire.getVarint
  rw [u8_ofNat_toNat (by omega), if_pos hx]

theorem getVarint_cont (fuel x : Nat) (h1 : 128 ≤ x) (h2 : x < 256) (r : Bytes) (v : Nat) (r' : Bytes)
    (hr : Wire.getVarint fuel r = some (v, r')) :
    Wire.getVarint (fuel + 1) (UInt8.ofNat x :: r) = some (x % 128 + 128 * v, r') := by
  unfold Wire.getVarint
  rw [u8_ofNat_toNat h2, if_neg (by omega), hr]

theorem getVarint_varint (n : Nat) (h : n ≤ 268435455) (tail : Bytes) :
    Wire.getVarint 4 (Wire.varint n ++ tail) = some (n, tail) := by
  unfold Wire.varint
  split
  · exact getVarint_last 3 n (by omega) tail
  · split
    · have := getVarint_cont 3 (n % 128 + 128) (by omega) (by omega) _ _ _ (getVarint_last 2 (n / 128) (by omega) tail)
      simp only [List.cons_append, List.nil_append]
      rw [this]
      congr 2; omega
    · split
      · have := getVarint_cont 3 (n % 128 + 128) (by omega) (by omega) _ _ _
          (getVarint_cont 2 (n / 128 % 128 + 128) (by omega) (by omega) _ _ _ (getVarint_last 1 (n / 16384) (by omega) tail))
        simp only [List.cons_append, List.nil_append]
        rw [this]
        congr 2; omega
      · have := getVarint_cont 3 (n % 128 + 128) (by omega) (by omega) _ _ _
          (getVarint_cont 2 (n / 128 % 128 + 128) (by omega) (by omega) _ _ _
            (getVarint_cont 1 (n / 16384 % 128 + 128) (by omega) (by omega) _ _ _ (getVarint_last 0 (n / 2097152) (by omega) tail)))
        simp only [List.cons_append, List.nil_append]
        rw [this]
        congr 2; omega

theorem getU16_u16 (v : UInt16) (r : Bytes) : Wire.getU16 (Wire.u16 v ++ r) = some (v, r) := by
  unfold Wire.u16 Wire.getU16
  simp only [List.cons_append, List.nil_append]
  have := v.toNat_lt
  rw [u8_ofNat_toNat (show v.toNat / 256 < 256 by omega), u8_ofNat_toNat (show v.toNat % 256 < 256 by omega)]
  have e : v.toNat / 256 * 256 + v.toNat % 256 = v.toNat := by omega
  rw [e]
  simp

theorem takeN_append (a b : Bytes) : Wire.takeN a.length (a ++ b) = some (a, b) := by
  unfold Wire.takeN
  rw [if_pos (by simp)]
  simp

theorem getStr_str (s r : Bytes) (hs : s.length ≤ 65535) : Wire.getStr (Wire.str s ++ r) = some (s, r) := by
  unfold Wire.getStr Wire.str Wire.getU16
  simp only [List.cons_append]
  rw [u8_ofNat_toNat (show s.length / 256 < 256 by omega), u8_ofNat_toNat (show s.length % 256 < 256 by omega)]
  have e : s.length / 256 * 256 + s.length % 256 = s.length := by omega
  rw [e]
  have : (UInt16.ofNat s.length).toNat = s.length := by simp; omega
  simp only [this]
  exact takeN_append s r

/-- the body parser of the reference decoder returns the packet whose body it is given -/
def DecBody (p : Wire.Packet) : Prop := Wire.decodeBody p.type p.flags p.body = some p

theorem decBody_puback (id : UInt16) : DecBody (.puback id) := by
  show (match Wire.getU16 (Wire.u16 id) with | some (id, []) => some (Wire.Packet.puback id) | _ => none) = _
  have := getU16_u16 id []
  rw [List.append_nil] at this
  rw [this]
theorem decBody_pubrec (id : UInt16) : DecBody (.pubrec id) := by
  show (match Wire.getU16 (Wire.u16 id) with | some (id, []) => some (Wire.Packet.pubrec id) | _ => none) = _
  have := getU16_u16 id []
  rw [List.append_nil] at this
  rw [this]
theorem decBody_pubrel (id : UInt16) : DecBody (.pubrel id) := by
  show (match Wire.getU16 (Wire.u16 id) with | some (id, []) => some (Wire.Packet.pubrel id) | _ => none) = _
  have := getU16_u16 id []
  rw [List.append_nil] at this
  rw [this]
theorem decBody_pubcomp (id : UInt16) : DecBody (.pubcomp id) := by
  show (match Wire.getU16 (Wire.u16 id) with | some (id, []) => some (Wire.Packet.pubcomp id) | _ => none) = _
  have := getU16_u16 id []
  rw [List.append_nil] at this
  rw [this]
theorem decBody_unsuback (id : UInt16) : DecBody (.unsuback id) := by
  show (match Wire.getU16 (Wire.u16 id) with | some (id, []) => some (Wire.Packet.unsuback id) | _ => none) = _
  have := getU16_u16 id []
  rw [List.append_nil] at this
  rw [this]

theorem decBody_pingreq : DecBody .pingreq := rfl
theorem decBody_pingresp : DecBody .pingresp := rfl
theorem decBody_disconnect : DecBody .disconnect := rfl

theorem decBody_connack (sp : Bool) (code : UInt8) : DecBody (.connack sp code) := by
  cases sp <;> rfl

theorem decBody_suback (id : UInt16) (codes : List UInt8) : DecBody (.suback id codes) := by
  show (do let (id, r) ← Wire.getU16 (Wire.u16 id ++ codes); pure (Wire.Packet.suback id r)) = _
  rw [getU16_u16]
  rfl

theorem decBody_publish (dup : Bool) (qos : UInt8) (ret : Bool) (topic : Bytes) (id : UInt16) (payload : Bytes)
    (hwf : Wire.WF (.publish dup qos ret topic id payload)) : DecBody (.publish dup qos ret topic id payload) := by
  unfold Wire.WF Wire.wf at hwf
  simp only [Bool.and_eq_true, decide_eq_true_eq, Wire.strOk] at hwf
  obtain ⟨⟨⟨⟨hq, hts⟩, _⟩, hid⟩, _⟩ := hwf
  have hq' : qos.toNat ≤ 2 := hq
  unfold DecBody
  have hfl : (Wire.Packet.publish dup qos ret topic id payload).flags = Wire.b2n dup * 8 + qos.toNat * 2 + Wire.b2n ret := rfl
  have hbody : (Wire.Packet.publish dup qos ret topic id payload).body =
      Wire.str topic ++ ((if qos = 0 then [] else Wire.u16 id) ++ payload) := by
    simp [Wire.Packet.body]
  have hty : (Wire.Packet.publish dup qos ret topic id payload).type = 3 := rfl
  rw [hfl, hbody, hty]
  generalize hF : Wire.b2n dup * 8 + qos.toNat * 2 + Wire.b2n ret = F
  have hfq : F / 2 % 4 = qos.toNat := by rw [← hF]; cases dup <;> cases ret <;> simp [Wire.b2n] <;> omega
  have hb3 : Wire.bit F 3 = dup := by
    unfold Wire.bit; rw [← hF]; cases dup <;> cases ret <;> simp [Wire.b2n] <;> omega
  have hb0 : Wire.bit F 0 = ret := by
    unfold Wire.bit; rw [← hF]; cases dup <;> cases ret <;> simp [Wire.b2n] <;> omega
  show (do
    let (topic, r) ← Wire.getStr (Wire.str topic ++ ((if qos = 0 then [] else Wire.u16 id) ++ payload))
    let q := F / 2 % 4
    if q = 0 then pure (Wire.Packet.publish (Wire.bit F 3) 0 (Wire.bit F 0) topic 0 r)
    else do
      let (id, r) ← Wire.getU16 r
      pure (Wire.Packet.publish (Wire.bit F 3) (UInt8.ofNat q) (Wire.bit F 0) topic id r)) = _
  rw [getStr_str _ _ hts]
  simp only [Option.bind_eq_bind, Option.bind_some, Option.pure_def, hfq, hb3, hb0]
  by_cases hq0 : qos = 0
  · have hqn : qos.toNat = 0 := by rw [hq0]; rfl
    have hid' : id = 0 := by simpa [hq0] using hid
    simp only [hq0, hqn, if_true, List.nil_append, hid']
    rfl
  · have hqn : qos.toNat ≠ 0 := by
      intro e; apply hq0; exact UInt8.toNat_inj.mp e
    simp only [hq0, hqn, if_false]
    rw [getU16_u16]
    simp

theorem str_cons (s : Bytes) (r : Bytes) :
    Wire.str s ++ r = UInt8.ofNat (s.length / 256) :: UInt8.ofNat (s.length % 256) :: (s ++ r) := rfl

theorem getFilters_enc : ∀ (fs : List (Bytes × UInt8)) (fuel : Nat), fs.length ≤ fuel →
    (∀ f ∈ fs, f.1.length ≤ 65535) → Wire.getFilters fuel (encFilters fs) = some fs := by
  intro fs
  induction fs with
  | nil => intro fuel _ _; cases fuel <;> rfl
  | cons f fs ih =>
    intro fuel hf hs
    cases fuel with
    | zero => simp at hf
    | succ k =>
      rw [encFilters_cons]
      have hg := getStr_str f.1 (f.2 :: encFilters fs) (hs f (by simp))
      rw [str_cons] at hg ⊢
      unfold Wire.getFilters
      rw [hg]
      simp only []
      rw [ih k (by simpa using hf) (fun g hg => hs g (by simp [hg]))]

theorem getTopics_enc : ∀ (fs : List Bytes) (fuel : Nat), fs.length ≤ fuel →
    (∀ f ∈ fs, f.length ≤ 65535) → Wire.getTopics fuel (encTopics fs) = some fs := by
  intro fs
  induction fs with
  | nil => intro fuel _ _; cases fuel <;> rfl
  | cons f fs ih =>
    intro fuel hf hs
    cases fuel with
    | zero => simp at hf
    | succ k =>
      rw [encTopics_cons]
      have hg := getStr_str f (encTopics fs) (hs f (by simp))
      rw [str_cons] at hg ⊢
      unfold Wire.getTopics
      rw [hg]
      simp only []
      rw [ih k (by simpa using hf) (fun g hg => hs g (by simp [hg]))]

theorem encFilters_len_ge (fs : List (Bytes × UInt8)) : fs.length ≤ (encFilters fs).length := by
  induction fs with
  | nil => simp [encFilters]
  | cons f fs ih => rw [encFilters_cons]; simp [Wire.str]; omega

theorem encTopics_len_ge (fs : List Bytes) : fs.length ≤ (encTopics fs).length := by
  induction fs with
  | nil => simp [encTopics]
  | cons f fs ih => rw [encTopics_cons]; simp [Wire.str]; omega

theorem decBody_subscribe (id : UInt16) (fs : List (Bytes × UInt8)) (hwf : Wire.WF (.subscribe id fs)) :
    DecBody (.subscribe id fs) := by
  unfold Wire.WF Wire.wf at hwf
  simp only [Bool.and_eq_true, decide_eq_true_eq, Wire.strOk] at hwf
  obtain ⟨⟨⟨_, _⟩, hall⟩, _⟩ := hwf
  have hs : ∀ f ∈ fs, f.1.length ≤ 65535 := by
    intro f hf
    rw [List.all_eq_true] at hall
    have := hall f hf
    simp only [Bool.and_eq_true, decide_eq_true_eq] at this
    exact this.1
  show (do
    let (id, r) ← Wire.getU16 (Wire.u16 id ++ encFilters fs)
    let fs ← Wire.getFilters r.length r
    pure (Wire.Packet.subscribe id fs)) = _
  rw [getU16_u16]
  simp only [Option.bind_eq_bind, Option.bind_some]
  rw [getFilters_enc fs _ (encFilters_len_ge fs) hs]
  rfl

theorem decBody_unsubscribe (id : UInt16) (fs : List Bytes) (hwf : Wire.WF (.unsubscribe id fs)) :
    DecBody (.unsubscribe id fs) := by
  unfold Wire.WF Wire.wf at hwf
  simp only [Bool.and_eq_true, decide_eq_true_eq] at hwf
  obtain ⟨⟨⟨_, _⟩, hall⟩, _⟩ := hwf
  have hs : ∀ f ∈ fs, f.length ≤ 65535 := by
    intro f hf
    rw [List.all_eq_true] at hall
    have := hall f hf
    simpa [Wire.strOk] using this
  show (do
    let (id, r) ← Wire.getU16 (Wire.u16 id ++ encTopics fs)
    let fs ← Wire.getTopics r.length r
    pure (Wire.Packet.unsubscribe id fs)) = _
  rw [getU16_u16]
  simp only [Option.bind_eq_bind, Option.bind_some]
  rw [getTopics_enc fs _ (encTopics_len_ge fs) hs]
  rfl

theorem bit_eq (n k : Nat) (b : Bool) (h : n / 2 ^ k % 2 = 1 ↔ b = true) : Wire.bit n k = b := by
  unfold Wire.bit
  cases b with
  | true => exact decide_eq_true (h.mpr rfl)
  | false =>
    apply decide_eq_false
    intro e
    have := h.mp e
    cases this

theorem getStr_str_nil (s : Bytes) (hs : s.length ≤ 65535) : Wire.getStr (Wire.str s) = some (s, []) := by
  have := getStr_str s [] hs
  rwa [List.append_nil] at this

theorem decBody_connect (c : Wire.Connect) (hwf : Wire.WF (.connect c)) : DecBody (.connect c) := by
  have hq := willQos_le_of_wf c hwf
  obtain ⟨fb1, fb2, fb3, fb4, fb5, fb6, fb7, fb8⟩ := flags_bits c hq
  have hF : (UInt8.ofNat c.flags).toNat = c.flags := u8_ofNat_toNat fb1
  have hb1 : Wire.bit c.flags 1 = c.clean := bit_eq _ _ _ fb3
  have hb2 : Wire.bit c.flags 2 = c.will.isSome := bit_eq _ _ _ fb4
  have hb5 : Wire.bit c.flags 5 = willRetainOf c := bit_eq _ _ _ fb6
  have hb6 : Wire.bit c.flags 6 = c.password.isSome := bit_eq _ _ _ fb7
  have hb7 : Wire.bit c.flags 7 = c.username.isSome := bit_eq _ _ _ fb8
  unfold Wire.WF Wire.wf at hwf
  simp only [Bool.and_eq_true, Bool.or_eq_true, decide_eq_true_eq] at hwf
  obtain ⟨⟨⟨⟨hlev, hcid⟩, hwill⟩, hun⟩, hpw⟩ := hwf
  obtain ⟨hc1, _, _⟩ := validClientID_of_ok _ _ hcid
  have hcl : c.clientId.length ≤ 65535 := by omega
  have hnl : (Wire.protoName c.level).length ≤ 65535 := by
    rcases hlev with h | h <;> rw [h] <;> decide
  show Wire.decodeConnect (Wire.Packet.connect c).body = _
  rw [connect_body_eq]
  unfold Wire.decodeConnect
  rw [getStr_str _ _ hnl]
  simp only [Option.bind_eq_bind, Option.bind_some, Wire.getByte, ne_eq, not_true_eq_false, if_false, hF,
    getU16_u16, getStr_str _ _ hcl, hb1, hb2, hb5, hb6, hb7, fb5]
  obtain ⟨level, clean, ka, cid, will, un, pw⟩ := c
  simp only [] at *
  cases will with
  | none =>
    cases un with
    | none =>
      cases pw with
      | none => simp [willBytes, Wire.optStr]
      | some p =>
        simp only [Bool.and_eq_true, decide_eq_true_eq, Wire.strOk] at hpw
        simp [willBytes, Wire.optStr, getStr_str _ _ hpw.1, getStr_str_nil _ hpw.1]
    | some u =>
      simp only [decide_eq_true_eq, Wire.strOk] at hun
      cases pw with
      | none => simp [willBytes, Wire.optStr, getStr_str _ _ hun, getStr_str_nil _ hun]
      | some p =>
        simp only [Bool.and_eq_true, decide_eq_true_eq, Wire.strOk] at hpw
        simp [willBytes, Wire.optStr, getStr_str _ _ hun, getStr_str_nil _ hun, getStr_str _ _ hpw.1, getStr_str_nil _ hpw.1]
  | some w =>
    simp only [Bool.and_eq_true, decide_eq_true_eq, Wire.strOk] at hwill
    obtain ⟨⟨hw1, hw2⟩, hw3⟩ := hwill
    have hwq : UInt8.ofNat (willQosOf ⟨level, clean, ka, cid, some w, un, pw⟩) = w.qos := by simp [willQosOf]
    have hwr : willRetainOf ⟨level, clean, ka, cid, some w, un, pw⟩ = w.retain := rfl
    cases un with
    | none =>
      cases pw with
      | none => simp [willBytes, Wire.optStr, getStr_str _ _ hw1, getStr_str_nil _ hw1, getStr_str _ _ hw2, getStr_str_nil _ hw2, willQosOf, willRetainOf]
      | some p =>
        simp only [Bool.and_eq_true, decide_eq_true_eq, Wire.strOk] at hpw
        simp [willBytes, Wire.optStr, getStr_str _ _ hpw.1, getStr_str_nil _ hpw.1, getStr_str _ _ hw1, getStr_str_nil _ hw1, getStr_str _ _ hw2, getStr_str_nil _ hw2, willQosOf, willRetainOf]
    | some u =>
      simp only [decide_eq_true_eq, Wire.strOk] at hun
      cases pw with
      | none => simp [willBytes, Wire.optStr, getStr_str _ _ hun, getStr_str_nil _ hun, getStr_str _ _ hw1, getStr_str_nil _ hw1, getStr_str _ _ hw2, getStr_str_nil _ hw2, willQosOf, willRetainOf]
      | some p =>
        simp only [Bool.and_eq_true, decide_eq_true_eq, Wire.strOk] at hpw
        simp [willBytes, Wire.optStr, getStr_str _ _ hun, getStr_str_nil _ hun, getStr_str _ _ hpw.1, getStr_str_nil _ hpw.1, getStr_str _ _ hw1, getStr_str_nil _ hw1, getStr_str _ _ hw2, getStr_str_nil _ hw2, willQosOf, willRetainOf]
theorem packet_type_le (p : Wire.Packet) : 1 ≤ p.type ∧ p.type ≤ 14 := by
  cases p <;> simp [Wire.Packet.type]

theorem packet_flags_lt (p : Wire.Packet) (hwf : Wire.WF p) : p.flags < 16 := by
  cases p <;> simp only [Wire.Packet.flags] <;> try omega
  rename_i dup qos ret topic id payload
  unfold Wire.WF Wire.wf at hwf
  simp only [Bool.and_eq_true, decide_eq_true_eq] at hwf
  have hq : qos.toNat ≤ 2 := hwf.1.1.1.1
  cases dup <;> cases ret <;> simp [Wire.b2n] <;> omega

theorem packet_body_le (p : Wire.Packet) (hwf : Wire.WF p) : p.body.length ≤ 268435455 := by
  cases p with
  | connect c => exact connect_body_le c hwf
  | connack sp code => simp [Wire.Packet.body]
  | publish dup qos ret topic id payload =>
    unfold Wire.WF Wire.wf at hwf
    simp only [Bool.and_eq_true, decide_eq_true_eq, Wire.maxRemaining] at hwf
    have hl := of_decide_eq_true hwf.2
    simp only [Wire.Packet.body, List.length_append]
    split <;> rename_i h0 <;> simp [h0, Wire.str, Wire.u16] at hl ⊢ <;> omega
  | puback id => simp [Wire.Packet.body, Wire.u16]
  | pubrec id => simp [Wire.Packet.body, Wire.u16]
  | pubrel id => simp [Wire.Packet.body, Wire.u16]
  | pubcomp id => simp [Wire.Packet.body, Wire.u16]
  | unsuback id => simp [Wire.Packet.body, Wire.u16]
  | subscribe id fs =>
    unfold Wire.WF Wire.wf at hwf
    simp only [Bool.and_eq_true, decide_eq_true_eq, Wire.maxRemaining] at hwf
    exact of_decide_eq_true hwf.2
  | suback id codes =>
    unfold Wire.WF Wire.wf at hwf
    simp only [Bool.and_eq_true, decide_eq_true_eq, Wire.maxRemaining] at hwf
    have hl := of_decide_eq_true hwf.2
    simp [Wire.Packet.body, Wire.u16]; omega
  | unsubscribe id fs =>
    unfold Wire.WF Wire.wf at hwf
    simp only [Bool.and_eq_true, decide_eq_true_eq, Wire.maxRemaining] at hwf
    exact of_decide_eq_true hwf.2
  | pingreq => simp [Wire.Packet.body]
  | pingresp => simp [Wire.Packet.body]
  | disconnect => simp [Wire.Packet.body]

theorem decBody_wf (p : Wire.Packet) (hwf : Wire.WF p) : DecBody p := by
  cases p with
  | connect c => exact decBody_connect c hwf
  | connack sp code => exact decBody_connack sp code
  | publish dup qos ret topic id payload => exact decBody_publish _ _ _ _ _ _ hwf
  | puback id => exact decBody_puback id
  | pubrec id => exact decBody_pubrec id
  | pubrel id => exact decBody_pubrel id
  | pubcomp id => exact decBody_pubcomp id
  | subscribe id fs => exact decBody_subscribe id fs hwf
  | suback id codes => exact decBody_suback id codes
  | unsubscribe id fs => exact decBody_unsubscribe id fs hwf
  | unsuback id => exact decBody_unsuback id
  | pingreq => exact decBody_pingreq
  | pingresp => exact decBody_pingresp
  | disconnect => exact decBody_disconnect

/-- **completeness of the reference decoder**: the reference encoding of a well-formed packet, followed by
anything, decodes to exactly that packet and its length -/
theorem spec_decode_complete (p : Wire.Packet) (hwf : Wire.WF p) (rest : Bytes) :
    Wire.decode p.type (Wire.encode p ++ rest) = some (p, (Wire.encode p).length) := by
  have hb := decBody_wf p hwf
  have hL := packet_body_le p hwf
  have hfl := packet_flags_lt p hwf
  obtain ⟨ht1, ht14⟩ := packet_type_le p
  have hb0 : (UInt8.ofNat (p.type * 16 + p.flags)).toNat = p.type * 16 + p.flags := u8_ofNat_toNat (by omega)
  rw [encode_append]
  unfold Wire.decode
  simp only []
  rw [hb0, if_neg (by omega)]
  rw [getVarint_varint _ hL]
  simp only []
  rw [takeN_append]
  simp only []
  have hmod : (p.type * 16 + p.flags) % 16 = p.flags := by omega
  rw [hmod]
  unfold DecBody at hb
  rw [hb]
  simp only []
  have hn : (UInt8.ofNat (p.type * 16 + p.flags) :: (Wire.varint p.body.length ++ (p.body ++ rest))).length -
      (p.body ++ rest).length + p.body.length = (Wire.encode p).length := by
    unfold Wire.encode
    simp only [List.length_cons, List.length_append]; omega
  rw [hn]
  have htake : (UInt8.ofNat (p.type * 16 + p.flags) :: (Wire.varint p.body.length ++ (p.body ++ rest))).take (Wire.encode p).length =
      Wire.encode p := by
    rw [← encode_append]; simp
  rw [htake]
  have hwf' : Wire.wf p = true := hwf
  rw [hwf']
  simp

theorem getVarint_suffix : ∀ (fuel : Nat) (r : Bytes) (v : Nat) (r2 : Bytes),
    Wire.getVarint fuel r = some (v, r2) → r2.length < r.length := by
  intro fuel
  induction fuel with
  | zero => intro r v r2 h; simp [Wire.getVarint] at h
  | succ k ih =>
    intro r v r2 h
    cases r with
    | nil => simp [Wire.getVarint] at h
    | cons b r =>
      unfold Wire.getVarint at h
      split at h
      · injection h with h; injection h with h1 h2; rw [← h2]; simp
      · cases hg : Wire.getVarint k r with
        | none => rw [hg] at h; simp at h
        | some x =>
          rw [hg] at h
          simp only [Option.some.injEq, Prod.mk.injEq] at h
          have := ih r x.1 x.2 hg
          rw [← h.2]
          simp only [List.length_cons]; omega

/-- what an accepting run of the reference decoder says beyond `Wire.decode_sound`: the type and the count -/
theorem spec_decode_count {t : Nat} {bs : Bytes} {p : Wire.Packet} {n : Nat} (h : Wire.decode t bs = some (p, n)) :
    p.type = t ∧ n = (Wire.encode p).length ∧ n ≤ bs.length := by
  obtain ⟨hwf, henc⟩ := Wire.decode_sound h
  unfold Wire.decode at h
  split at h
  · simp at h
  · rename_i b0 r
    split at h
    · simp at h
    · rename_i ht
      split at h
      · simp at h
      · rename_i remlen r2 hv
        split at h
        · simp at h
        · rename_i body rest htk
          split at h
          · simp at h
          · simp only [] at h
            split at h
            · simp only [Option.some.injEq, Prod.mk.injEq] at h
              obtain ⟨_, hn⟩ := h
              have hsuf := getVarint_suffix 4 r remlen r2 hv
              have hrem : remlen ≤ r2.length := by
                unfold Wire.takeN at htk
                split at htk
                · assumption
                · cases htk
              have hnle : n ≤ (b0 :: r).length := by
                rw [← hn]; simp only [List.length_cons]; omega
              have hlen : (Wire.encode p).length = n := by rw [henc, List.length_take]; omega
              refine ⟨?_, hlen.symm, hnle⟩
              have hfl := packet_flags_lt p hwf
              obtain ⟨ht1, ht14⟩ := packet_type_le p
              have hn1 : 1 ≤ n := by rw [← hlen]; unfold Wire.encode; simp
              have hhead : UInt8.ofNat (p.type * 16 + p.flags) = b0 := by
                have := congrArg List.head? henc
                unfold Wire.encode at this
                cases n with
                | zero => omega
                | succ k => simpa using this
              have hb0 : b0.toNat = p.type * 16 + p.flags := by
                rw [← hhead]; exact u8_ofNat_toNat (by omega)
              simp only [ne_eq, Decidable.not_not] at ht
              omega
            · simp at h

/-- `Wire.decode` is the inverse of `Wire.encode` on well-formed packets: it answers `(p, n)` exactly when the
first `n` bytes of the input are the reference encoding of the well-formed packet `p` of the requested type -/
theorem spec_decode_iff (t : Nat) (bs : Bytes) (p : Wire.Packet) (n : Nat) :
    Wire.decode t bs = some (p, n) ↔
      Wire.WF p ∧ p.type = t ∧ n = (Wire.encode p).length ∧ n ≤ bs.length ∧ bs.take n = Wire.encode p := by
  constructor
  · intro h
    obtain ⟨hwf, henc⟩ := Wire.decode_sound h
    obtain ⟨ht, hn, hle⟩ := spec_decode_count h
    exact ⟨hwf, ht, hn, hle, henc.symm⟩
  · rintro ⟨hwf, ht, hn, hle, henc⟩
    have hbs : bs = Wire.encode p ++ bs.drop n := by rw [← henc, List.take_append_drop]
    rw [hbs, ← ht, hn]
    exact spec_decode_complete p hwf _

