/-
Bridge from the client model's ack queues (`Model/Client.lean`: `Queue := List Req`
with `Queue.wait` / `Queue.ack` / `Queue.acked`, and the ping FIFO
`pings : List (Nat × Nat)` with `pingAck` / `pingAcked`) to the FIFO
specification of an ack queue (`Spec/Fifo.lean`) that `Properties/C13` proves
the ring-based `sessions.Ackqueue` refines.

The client role uses six `Ackqueue` objects of its session:

  `Pub1ack`   `Wait`(QoS 1 PUBLISH, onComplete)  `Ack`(PUBACK)             `Acked`
  `Pub2out`   `Wait`(QoS 2 PUBLISH, onComplete)  `Ack`(PUBREC | PUBCOMP)   `Acked` (after PUBCOMP only)
  `Pub2in`    `Wait`(QoS 2 PUBLISH, nil)         `Ack`(PUBREL)             `Acked`
  `Suback`    `Wait`(SUBSCRIBE, closure)         `Ack`(SUBACK)             `Acked`
  `Unsuback`  `Wait`(UNSUBSCRIBE, closure)       `Ack`(UNSUBACK)           `Acked`
  `Pingack`   `Wait`(PINGREQ, onComplete)        `Ack`(PINGRESP)           `Acked`

Under the projection `proj cd k` of a request of the client model to a FIFO
entry the list operations are `Fifo.register`, `Fifo.ackId`, `Fifo.collect`
(`pproj`, `Fifo.answerPing`, `Fifo.collectPings` for the pings).

What the real queue keeps as *bytes* (`Msgbuf`, `Ackbuf`; `processAcked` decodes
them again) the client model keeps decoded (`Req.pub`, `Req.topics`,
`Req.codes`); what it keeps as an opaque `OnComplete` value the model keeps as
the pair (`Req.tag`, `Req.cb`).  `Coding` names the three maps; the forward
theorems hold for *every* `Coding`; the statement that nothing is lost on the
way back through the bytes (`unproj_proj`) assumes the maps have left inverses
(`RoundTrip`: the decoder inverts the encoder on what was registered).
-/
import Mqtt.Proofs.Client
import Mqtt.Proofs.AckQueue

set_option linter.unusedSimpArgs false

namespace Mqtt.Proofs.ClientQueues
open Mqtt.Iface.Broker (Pub Packet Bytes)
open Mqtt.Iface.Client
open Mqtt.Iface.AckQ
open Mqtt.Model.Client
open Mqtt.Proofs.Client
open Mqtt.Generated
open Mqtt.Spec

/-! ## vocabulary -/

/-- the five identifier-keyed ack queues of a client session -/
inductive QKind where
  | pub1ack | pub2out | pub2in | suback | unsuback
deriving DecidableEq, Repr

def qof : QKind → C → Queue
  | .pub1ack, c => c.pub1ack
  | .pub2out, c => c.pub2out
  | .pub2in, c => c.pub2in
  | .suback, c => c.suback
  | .unsuback, c => c.unsuback

/-- the four queues of the sending side are the `Kind`s of `Proofs/Client` -/
def ofKind : Kind → QKind
  | .pub1 => .pub1ack
  | .pub2 => .pub2out
  | .sub => .suback
  | .unsub => .unsuback

theorem qof_ofKind (k : Kind) (c : C) : qof (ofKind k) c = queue k c := by cases k <;> rfl

/-- packet type of the requests a queue holds (`AckMsg.Mtype`) -/
def QKind.mtype : QKind → Nat
  | .pub1ack | .pub2out | .pub2in => Fifo.PUBLISH
  | .suback => Fifo.SUBSCRIBE
  | .unsuback => Fifo.UNSUBSCRIBE

/-- What the real queue stores in another form than the client model:
* `enc id pub topics` - the bytes of the request as written (`Msgbuf`), a function of what is fixed
  at registration (identifier, PUBLISH fields, filters);
* `ackb t id codes` - the bytes of the acknowledgement of type `t` bearing identifier `id` (and, for a
  SUBACK, the return codes) (`Ackbuf`);
* `clo tag cb` - the `OnComplete` value: the caller's completion callback `tag` itself for publishes
  (`cb = 0`), the closure `onc` that `subscribe` / `unsubscribe` build around `tag` (and the message
  callback `cb`). -/
structure Coding where
  enc  : Nat → Option Pub → List (Bytes × Nat) → List UInt8
  ackb : Nat → Nat → List Nat → List UInt8
  clo  : Nat → Nat → Nat

/-- The FIFO entry a request of the client model stands for. -/
def proj (cd : Coding) (k : QKind) (r : Req) : Fifo.Entry :=
  ⟨k.mtype, r.state, r.id, cd.enc r.id r.pub r.topics,
   if r.state == 0 then [] else cd.ackb r.state r.id r.codes, cd.clo r.tag r.cb⟩

/-- the request as the client model registers it (`state := 0`, no return codes) -/
def mkReq (id tag : Nat) (pub : Option Pub) (topics : List (Bytes × Nat)) (cb : Nat) : Req :=
  { id := id, tag := tag, pub := pub, topics := topics, cb := cb }

/-- the operations the client model performs on one of its queues -/
inductive COp where
  | wait (id tag : Nat) (pub : Option Pub) (topics : List (Bytes × Nat)) (cb : Nat)   -- `Queue.wait (mkReq …)`
  | ack (t id : Nat) (codes : List Nat)                                               -- `Queue.ack t id codes`
  | acked                                                                             -- `Queue.acked`
deriving Repr

/-- list semantics: new queue and released requests -/
def cstep (q : Queue) : COp → Queue × List Req
  | .wait id tag pub topics cb => (q.wait (mkReq id tag pub topics cb), [])
  | .ack t id codes => (q.ack t id codes, [])
  | .acked => q.acked

def crun (q : Queue) : List COp → Queue × List (List Req)
  | [] => (q, [])
  | op :: ops =>
    let (q1, r) := cstep q op
    let (q2, rs) := crun q1 ops
    (q2, r :: rs)

/-- what `Wait` is handed for a request of queue `k`: the dynamic type of the message, the QoS
`sendPublish` / `processPublish` select the queue by, identifier and bytes -/
def waitMsg (k : QKind) (id : Nat) (bytes : List UInt8) : WaitMsg :=
  match k with
  | .pub1ack => .publish 1 id (some bytes)
  | .pub2out | .pub2in => .publish 2 id (some bytes)
  | .suback => .subscribe id (some bytes)
  | .unsuback => .unsubscribe id (some bytes)

/-- the same call on the ack-queue interface of Core C -/
def toOp (cd : Coding) (k : QKind) : COp → Op
  | .wait id tag pub topics cb => .wait (waitMsg k id (cd.enc id pub topics)) (cd.clo tag cb)
  | .ack t id codes => .ack t id (cd.ackb t id codes)
  | .acked => .acked

/-- what the FIFO specification answers -/
def cout (cd : Coding) (k : QKind) (rel : List Req) : COp → Fifo.SOut
  | .acked => .released (rel.map (proj cd k))
  | _ => .ok true

/-- the acknowledgement types `Ackqueue.Ack` looks up by identifier (every `Ack` of the client role
on these five queues bears one of them: `step_qof`).  For other types the two sides differ:
`Queue.ack 13 id` marks the request bearing `id`, `Ackqueue.Ack` of a PINGRESP marks a ping. -/
def okOp : COp → Bool
  | .ack t _ _ => Fifo.isIdAck t
  | _ => true

def OkOps (ops : List COp) : Prop := ops.all okOp = true

instance (ops : List COp) : Decidable (OkOps ops) := by unfold OkOps; infer_instance

theorem okOps_cons {op : COp} {ops : List COp} (h : OkOps (op :: ops)) : okOp op = true ∧ OkOps ops := by
  unfold OkOps at *
  simpa [List.all_cons] using h

theorem okOps_append {a b : List COp} (ha : OkOps a) (hb : OkOps b) : OkOps (a ++ b) := by
  unfold OkOps at *
  rw [List.all_append, ha, hb]; rfl

/-! ## the identifier-keyed queues: simulation -/

section sim
variable (cd : Coding) (k : QKind)

theorem any_proj (q : Queue) (id : Nat) :
    ((q.map (proj cd k)).any fun x => x.id == id) = q.any fun e => e.id == id := by
  rw [List.any_map]; rfl

/-- `Queue.wait` is `Fifo.register`: in particular a registration under an identifier that is in
flight in this queue is dropped on both sides (the list's `any` test, `insert`'s `emap` test) -/
theorem sim_register (q : Queue) (pg : List Fifo.Entry) (id tag : Nat) (pub : Option Pub)
    (topics : List (Bytes × Nat)) (cb : Nat) :
    Fifo.register ⟨q.map (proj cd k), pg⟩ ⟨k.mtype, 0, id, cd.enc id pub topics, [], cd.clo tag cb⟩ =
      ⟨(q.wait (mkReq id tag pub topics cb)).map (proj cd k), pg⟩ := by
  unfold Fifo.register Queue.wait
  simp only [any_proj, mkReq]
  by_cases h : (q.any fun e => e.id == id) = true
  · simp only [h, ↓reduceIte]
  · simp only [h, Bool.false_eq_true, ↓reduceIte, List.map_append, List.map_cons, List.map_nil, proj,
      BEq.rfl]

theorem isIdAck_ne_zero {t : Nat} (h : Fifo.isIdAck t = true) : (t == 0) = false := by
  cases ht : t == 0
  · rfl
  · have : t = 0 := by simpa using ht
    subst this
    exact absurd h (by decide)

/-- `Queue.ack` is `Fifo.ackId`: the request bearing the identifier takes the acknowledgement's type
and bytes (the model: its type and the SUBACK's return codes), every other request is untouched, an
identifier that is not in flight changes nothing -/
theorem sim_ackId (q : Queue) (pg : List Fifo.Entry) (t id : Nat) (codes : List Nat)
    (ht : Fifo.isIdAck t = true) :
    Fifo.ackId ⟨q.map (proj cd k), pg⟩ t id (cd.ackb t id codes) =
      ⟨(q.ack t id codes).map (proj cd k), pg⟩ := by
  have h0 := isIdAck_ne_zero ht
  unfold Fifo.ackId Queue.ack
  simp only [List.map_map, Fifo.S.mk.injEq, and_true]
  apply List.map_congr_left
  intro e _
  simp only [Function.comp_apply, proj]
  by_cases h : (e.id == id) = true
  · have : e.id = id := by simpa using h
    simp [this, h0]
  · simp [h]

/-- the model's `terminal` (from the regenerated `ackedReleaseStates`) is the protocol's -/
theorem terminal_eq (t : Nat) : Mqtt.Model.Client.terminal t = Fifo.terminal t :=
  Mqtt.Proofs.AckQueue.facts_terminal t

/-- `Queue.acked` is `Fifo.collect`: the maximal prefix of requests whose last acknowledgement ends
the exchange is handed back, in order -/
theorem sim_collect (q : Queue) (pg : List Fifo.Entry) :
    Fifo.collect ⟨q.map (proj cd k), pg⟩ =
      (⟨q.acked.1.map (proj cd k), pg⟩, q.acked.2.map (proj cd k)) := by
  unfold Fifo.collect Queue.acked
  simp only
  have hd : ∀ l : Queue,
      (l.map (proj cd k)).dropWhile (fun e => Fifo.terminal e.state) =
        (l.dropWhile fun e => Mqtt.Model.Client.terminal e.state).map (proj cd k) ∧
      (l.map (proj cd k)).takeWhile (fun e => Fifo.terminal e.state) =
        (l.takeWhile fun e => Mqtt.Model.Client.terminal e.state).map (proj cd k) := by
    intro l
    induction l with
    | nil => exact ⟨rfl, rfl⟩
    | cons x xs ih =>
      have hpx : Fifo.terminal (proj cd k x).state = Mqtt.Model.Client.terminal x.state := (terminal_eq _).symm
      simp only [List.map_cons, List.dropWhile_cons, List.takeWhile_cons, hpx]
      by_cases hs : Mqtt.Model.Client.terminal x.state = true
      · simp only [hs, ↓reduceIte, List.map_cons, ih.1, ih.2, and_self]
      · simp only [hs, Bool.false_eq_true, ↓reduceIte, List.map_cons, List.map_nil, and_self]
  rw [(hd q).1, (hd q).2]

/-- One call: the FIFO specification's step on the projected queue is the list operation, output
included; the ping FIFO of the object is not touched. -/
theorem sim_step (q : Queue) (pg : List Fifo.Entry) (hpg : ∀ e ∈ pg, (e.state == Fifo.PINGRESP) = false)
    (op : COp) (hop : okOp op = true) :
    Fifo.step ⟨q.map (proj cd k), pg⟩ (toOp cd k op) =
      (⟨(cstep q op).1.map (proj cd k), pg⟩, cout cd k (cstep q op).2 op) := by
  cases op with
  | wait id tag pub topics cb =>
    cases k <;>
      simp only [toOp, waitMsg, Fifo.step, Fifo.regOpt, cstep, cout] <;>
      first
        | (rw [← sim_register]; rfl)
        | (rw [if_neg (by decide), ← sim_register]; rfl)
  | ack t id codes =>
    have ht : Fifo.isIdAck t = true := hop
    simp only [toOp, Fifo.step, ht, ↓reduceIte, cstep, cout]
    rw [sim_ackId cd k q pg t id codes ht]
  | acked =>
    have h1 : pg.dropWhile (fun e => e.state == Fifo.PINGRESP) = pg := by
      cases pg with
      | nil => rfl
      | cons a l => rw [List.dropWhile_cons, hpg a (List.mem_cons_self)]; rfl
    have h2 : pg.takeWhile (fun e => e.state == Fifo.PINGRESP) = [] := by
      cases pg with
      | nil => rfl
      | cons a l => rw [List.takeWhile_cons, hpg a (List.mem_cons_self)]; rfl
    simp only [toOp, Fifo.step, cstep, cout, Fifo.collectPings, h1, h2, List.nil_append]
    rw [sim_collect cd k q]

/-- Any history of calls: the FIFO specification run on the projected queue ends in the projection
of the list run's queue and answers the projected releases. -/
theorem sim_run (q : Queue) (ops : List COp) (hops : OkOps ops) :
    (Fifo.run ⟨q.map (proj cd k), []⟩ (ops.map (toOp cd k))).1 =
      ⟨(crun q ops).1.map (proj cd k), []⟩ ∧
    (Fifo.run ⟨q.map (proj cd k), []⟩ (ops.map (toOp cd k))).2 =
      (List.zip (crun q ops).2 ops).map (fun x => cout cd k x.1 x.2) := by
  induction ops generalizing q with
  | nil => exact ⟨rfl, rfl⟩
  | cons op ops ih =>
    obtain ⟨ho, hr⟩ := okOps_cons hops
    have h1 := sim_step cd k q [] (by intro e he; cases he) op ho
    obtain ⟨i1, i2⟩ := ih (cstep q op).1 hr
    simp only [List.map_cons, Fifo.run, crun, h1]
    refine ⟨i1, ?_⟩
    simp only [List.zip_cons_cons, List.map_cons, i2]

end sim

theorem crun_append (q : Queue) (a b : List COp) :
    (crun q (a ++ b)).1 = (crun (crun q a).1 b).1 ∧
    (crun q (a ++ b)).2 = (crun q a).2 ++ (crun (crun q a).1 b).2 := by
  induction a generalizing q with
  | nil => exact ⟨rfl, rfl⟩
  | cons op a ih =>
    obtain ⟨i1, i2⟩ := ih (cstep q op).1
    simp only [List.cons_append, crun, i1, i2, and_self]

/-! ## the ping FIFO (`Pingack`) -/

/-- the operations the client model performs on its ping FIFO -/
inductive POp where
  | ping (tag : Nat)     -- `apiRegister (.ping tag)`: `Pingack.Wait(pingreq, onComplete)`
  | resp                 -- `pingAck`: `Pingack.Ack(pingresp)`
  | acked                -- `pingAcked`: `Pingack.Acked()`
deriving Repr

def pstep (l : List (Nat × Nat)) : POp → List (Nat × Nat) × List (Nat × Nat)
  | .ping tag => (l ++ [(0, tag)], [])
  | .resp => (pingAck l, [])
  | .acked => pingAcked l

def prun (l : List (Nat × Nat)) : List POp → List (Nat × Nat) × List (List (Nat × Nat))
  | [] => (l, [])
  | op :: ops =>
    let (l1, r) := pstep l op
    let (l2, rs) := prun l1 ops
    (l2, r :: rs)

/-- The FIFO entry a ping of the client model `(state, tag)` stands for: `preq` are the bytes of a
PINGREQ, `presp` those of a PINGRESP (neither has fields, so there is one byte string each); the
`OnComplete` value is the caller's callback itself (`ping` registers no closure). -/
def pproj (preq presp : List UInt8) (e : Nat × Nat) : Fifo.Entry :=
  ⟨Fifo.PINGREQ, e.1, 0, preq, if e.1 == Fifo.PINGRESP then presp else [], e.2⟩

def toPOp (preq presp : List UInt8) : POp → Op
  | .ping tag => .wait (.pingreq preq) tag
  | .resp => .ack Fifo.PINGRESP 0 presp
  | .acked => .acked

def pout (preq presp : List UInt8) (rel : List (Nat × Nat)) : POp → Fifo.SOut
  | .acked => .released (rel.map (pproj preq presp))
  | _ => .ok true

section psim
variable (preq presp : List UInt8)

/-- `pingAck` is `Fifo.answerPing`: the oldest ping without a PINGRESP takes it; with none
outstanding nothing changes -/
theorem sim_answerPing (l : List (Nat × Nat)) :
    Fifo.answerPing presp (l.map (pproj preq presp)) = (pingAck l).map (pproj preq presp) := by
  induction l with
  | nil => rfl
  | cons e l ih =>
    rw [List.map_cons, Fifo.answerPing, pingAck]
    have hst : (pproj preq presp e).state = e.1 := rfl
    rw [hst]
    by_cases h : e.1 = 13
    · have h1 : (e.1 == Fifo.PINGRESP) = true := by simp [h, Fifo.PINGRESP]
      have h2 : (e.1 != tPINGRESP) = false := by simp [h, tPINGRESP]
      simp only [h1, h2, ↓reduceIte, Bool.false_eq_true, ih, List.map_cons]
    · have h1 : (e.1 == Fifo.PINGRESP) = false := by simp [h, Fifo.PINGRESP]
      have h2 : (e.1 != tPINGRESP) = true := by simp [h, tPINGRESP]
      simp only [h1, h2, ↓reduceIte, Bool.false_eq_true, List.map_cons]
      rfl

/-- `pingAcked` is `Fifo.collectPings`: the leading pings that have their PINGRESP -/
theorem sim_collectPings (l : List (Nat × Nat)) :
    (l.map (pproj preq presp)).dropWhile (fun e => e.state == Fifo.PINGRESP) =
      (pingAcked l).1.map (pproj preq presp) ∧
    (l.map (pproj preq presp)).takeWhile (fun e => e.state == Fifo.PINGRESP) =
      (pingAcked l).2.map (pproj preq presp) := by
  unfold pingAcked
  induction l with
  | nil => exact ⟨rfl, rfl⟩
  | cons x xs ih =>
    have hpx : ((pproj preq presp x).state == Fifo.PINGRESP) = (x.1 == tPINGRESP) := rfl
    simp only [List.map_cons, List.dropWhile_cons, List.takeWhile_cons, hpx]
    by_cases hs : (x.1 == tPINGRESP) = true
    · simp only [hs, ↓reduceIte, List.map_cons, ih.1, ih.2, and_self]
    · simp only [hs, Bool.false_eq_true, ↓reduceIte, List.map_cons, List.map_nil, and_self]

/-- One call on `Pingack`: the FIFO specification's step on the projected ping FIFO (ring part
empty) is the list operation, output included; the ring part stays empty. -/
theorem psim_step (l : List (Nat × Nat)) (op : POp) :
    Fifo.step ⟨[], l.map (pproj preq presp)⟩ (toPOp preq presp op) =
      (⟨[], (pstep l op).1.map (pproj preq presp)⟩, pout preq presp (pstep l op).2 op) := by
  cases op with
  | ping tag =>
    simp only [toPOp, Fifo.step, pstep, pout, List.map_append, List.map_cons, List.map_nil, pproj]
    rfl
  | resp =>
    have h1 : Fifo.isIdAck Fifo.PINGRESP = false := by decide
    simp only [toPOp, Fifo.step, h1, Bool.false_eq_true, ↓reduceIte, BEq.rfl, pstep, pout, sim_answerPing]
  | acked =>
    obtain ⟨h1, h2⟩ := sim_collectPings preq presp l
    simp only [toPOp, Fifo.step, pstep, pout, Fifo.collectPings, Fifo.collect, h1, h2, List.dropWhile_nil,
      List.takeWhile_nil, List.append_nil]

theorem psim_run (l : List (Nat × Nat)) (ops : List POp) :
    (Fifo.run ⟨[], l.map (pproj preq presp)⟩ (ops.map (toPOp preq presp))).1 =
      ⟨[], (prun l ops).1.map (pproj preq presp)⟩ ∧
    (Fifo.run ⟨[], l.map (pproj preq presp)⟩ (ops.map (toPOp preq presp))).2 =
      (List.zip (prun l ops).2 ops).map (fun x => pout preq presp x.1 x.2) := by
  induction ops generalizing l with
  | nil => exact ⟨rfl, rfl⟩
  | cons op ops ih =>
    have h1 := psim_step preq presp l op
    obtain ⟨i1, i2⟩ := ih (pstep l op).1
    simp only [List.map_cons, Fifo.run, prun, h1]
    refine ⟨i1, ?_⟩
    simp only [List.zip_cons_cons, List.map_cons, i2]

end psim

theorem prun_append (l : List (Nat × Nat)) (a b : List POp) :
    (prun l (a ++ b)).1 = (prun (prun l a).1 b).1 ∧
    (prun l (a ++ b)).2 = (prun l a).2 ++ (prun (prun l a).1 b).2 := by
  induction a generalizing l with
  | nil => exact ⟨rfl, rfl⟩
  | cons op a ih =>
    obtain ⟨i1, i2⟩ := ih (pstep l op).1
    simp only [List.cons_append, prun, i1, i2, and_self]

/-! ## which calls a client event makes on which queue

`peerOps k p`: the calls `processIncoming` makes on queue `k` for packet `p`; `regOps k call`: the
`Wait` that ends an API call (the call as it is after `apiWrite`: identifier assigned);
`evOps k c ev`: those of one event of the client model (nothing before `Connect` has succeeded),
`histOps`: along a history. -/

def peerOps : QKind → Packet → List COp
  | .pub2in, .publish pub => if pub.qos == 2 then [.wait pub.pktid 0 (some pub) [] 0] else []
  | .pub2in, .pubrel id => [.ack tPUBREL id [], .acked]
  | .pub1ack, .puback id => [.ack tPUBACK id [], .acked]
  | .pub2out, .pubrec id => [.ack tPUBREC id []]
  | .pub2out, .pubcomp id => [.ack tPUBCOMP id [], .acked]
  | .suback, .suback id codes => [.ack tSUBACK id codes, .acked]
  | .unsuback, .unsuback id => [.ack tUNSUBACK id [], .acked]
  | _, _ => []

def regOps : QKind → Api → List COp
  | .pub1ack, .publish p tag => if p.qos == 1 then [.wait p.pktid tag (some p) [] 0] else []
  | .pub2out, .publish p tag => if p.qos == 0 || p.qos == 1 then [] else [.wait p.pktid tag (some p) [] 0]
  | .suback, .subscribe id topics tag cb => [.wait id tag none topics cb]
  | .unsuback, .unsubscribe id topics tag => [.wait id tag none (topics.map (fun t => (t, 0))) 0]
  | _, _ => []

def evOps (k : QKind) (c : C) : Ev → List COp
  | .connect _ => []
  | .api call => if c.connected then regOps k (apiWrite c call).2.2 else []
  | .peer p => if c.connected then peerOps k p else []
  | .apiEarlyAck call ack => if c.connected then regOps k (apiWrite c call).2.2 ++ peerOps k ack else []

def histOps (k : QKind) (c : C) : List Ev → List COp
  | [] => []
  | ev :: evs => evOps k c ev ++ histOps k (step c ev).1 evs

theorem peerOps_ok (k : QKind) (p : Packet) : OkOps (peerOps k p) := by
  unfold OkOps
  cases k <;> cases p <;> simp only [peerOps] <;> first | rfl | (split <;> rfl)

theorem regOps_ok (k : QKind) (call : Api) : OkOps (regOps k call) := by
  unfold OkOps
  cases k <;> cases call <;> simp only [regOps] <;> first | rfl | (split <;> rfl)

theorem frame_qof {c c' : C} (h : Frame c c') (k : QKind) : qof k c' = qof k c := by
  unfold Frame at h
  rw [h]; cases k <;> rfl

theorem apiWrite_qof (k : QKind) (c : C) (call : Api) : qof k (apiWrite c call).1 = qof k c := by
  cases call with
  | publish p tag =>
    simp only [apiWrite, assignId]
    by_cases h0 : (p.qos == 0) = true
    · simp [h0]
    · by_cases hi : (p.pktid == 0) = true <;> cases k <;> simp [h0, hi, qof]
  | subscribe id topics tag cb =>
    simp only [apiWrite, assignId]
    by_cases hi : (id == 0) = true <;> cases k <;> simp [hi, qof]
  | unsubscribe id topics tag =>
    simp only [apiWrite, assignId]
    by_cases hi : (id == 0) = true <;> cases k <;> simp [hi, qof]
  | ping tag => rfl

/-- the registration that ends an API call is one `Wait` on the queue of the request's kind
(QoS 0 and `ping` touch none of the five queues) -/
theorem apiRegister_qof (k : QKind) (c : C) (call : Api) :
    qof k (apiRegister c call).1 = (crun (qof k c) (regOps k call)).1 := by
  cases call with
  | publish p tag =>
    simp only [apiRegister, regOps]
    by_cases h0 : p.qos = 0
    · cases k <;> simp [h0, qof, crun]
    · by_cases h1 : p.qos = 1
      · cases k <;> simp [h0, h1, qof, crun, cstep, mkReq]
      · cases k <;> simp [h0, h1, qof, crun, cstep, mkReq]
  | subscribe id topics tag cb => cases k <;> simp [apiRegister, regOps, qof, crun, cstep, mkReq]
  | unsubscribe id topics tag => cases k <;> simp [apiRegister, regOps, qof, crun, cstep, mkReq]
  | ping tag => cases k <;> simp [apiRegister, regOps, qof, crun]

/-- what `processIncoming` does to queue `k` for one packet is `peerOps k p`: one `Wait` (inbound
QoS 2 PUBLISH), one `Ack` (PUBREC), or one `Ack` followed by `Acked` -/
theorem peer_qof (k : QKind) (c : C) (p : Packet) :
    qof k (peer c p).1 = (crun (qof k c) (peerOps k p)).1 := by
  cases p with
  | publish pub =>
    simp only [peer, peerOps]
    by_cases h2 : pub.qos = 2
    · cases k <;> simp [h2, qof, crun, cstep, mkReq]
    · by_cases h1 : pub.qos = 1 <;> cases k <;> simp [h2, h1, qof, crun]
  | pubrel id => cases k <;> simp [peer, peerOps, qof, crun, cstep]
  | puback id => cases k <;> simp [peer, peerOps, qof, crun, cstep]
  | pubrec id => cases k <;> simp [peer, peerOps, qof, crun, cstep]
  | pubcomp id => cases k <;> simp [peer, peerOps, qof, crun, cstep]
  | suback id codes =>
    have hf := fun c' => foldDone_frame subscribeDone subscribeDone_frame c'
      ((c.suback.ack tSUBACK id codes).acked.2)
    cases k <;> simp only [peer, peerOps, frame_qof (hf _)] <;> simp [qof, crun, cstep]
  | unsuback id =>
    have hf := fun c' => foldDone_frame unsubscribeDone unsubscribeDone_frame c'
      ((c.unsuback.ack tUNSUBACK id).acked.2)
    cases k <;> simp only [peer, peerOps, frame_qof (hf _)] <;> simp [qof, crun, cstep]
  | pingresp => cases k <;> simp [peer, peerOps, qof, crun]
  | connack sp code => cases k <;> simp [peer, peerOps, crun]
  | subscribe id ts => cases k <;> simp [peer, peerOps, crun]
  | unsubscribe id ts => cases k <;> simp [peer, peerOps, crun]
  | pingreq => cases k <;> simp [peer, peerOps, crun]
  | disconnect => cases k <;> simp [peer, peerOps, crun]
  | connectAgain => cases k <;> simp [peer, peerOps, crun]

theorem connect_qof (k : QKind) (c : C) (a : Answer) : qof k (connect c a).1 = qof k c := by
  cases a with
  | connack sp code => simp only [connect]; split <;> cases k <;> rfl
  | _ => rfl

/-- **One event.**  Queue `k` after any event of the client model is the queue before it taken
through the calls `evOps k c ev`, and these are calls `Ackqueue` answers by identifier. -/
theorem step_qof (k : QKind) (c : C) (ev : Ev) :
    qof k (step c ev).1 = (crun (qof k c) (evOps k c ev)).1 ∧ OkOps (evOps k c ev) := by
  by_cases hc : c.connected = true
  · cases ev with
    | connect a => exact ⟨connect_qof k c a, rfl⟩
    | api call =>
      rw [step_api c hc]
      simp only [evOps, hc, ↓reduceIte, apiRegister_qof, apiWrite_qof]
      exact ⟨trivial, regOps_ok _ _⟩
    | peer p =>
      rw [step_peer c hc]
      simp only [evOps, hc, ↓reduceIte, peer_qof]
      exact ⟨trivial, peerOps_ok _ _⟩
    | apiEarlyAck call ack =>
      have hc1 : (step c (.api call)).1.connected = true := step_connected c (.api call) hc
      rw [step_early, step_peer _ hc1, step_api c hc]
      simp only [evOps, hc, ↓reduceIte, peer_qof, apiRegister_qof, apiWrite_qof, (crun_append _ _ _).1]
      exact ⟨trivial, okOps_append (regOps_ok _ _) (peerOps_ok _ _)⟩
  · have hc' : c.connected = false := by simpa using hc
    cases ev with
    | connect a => exact ⟨connect_qof k c a, rfl⟩
    | _ => simp [step, evOps, hc', crun, OkOps]

/-- **Every history.**  Queue `k` after any history of events is the initial queue taken through
`histOps k c evs`. -/
theorem run_qof (k : QKind) (c : C) (evs : List Ev) :
    qof k (runState c evs) = (crun (qof k c) (histOps k c evs)).1 ∧ OkOps (histOps k c evs) := by
  induction evs generalizing c with
  | nil => exact ⟨rfl, rfl⟩
  | cons ev evs ih =>
    obtain ⟨h1, h2⟩ := step_qof k c ev
    obtain ⟨i1, i2⟩ := ih (step c ev).1
    rw [runState_cons]
    simp only [histOps, (crun_append _ _ _).1]
    exact ⟨by rw [i1, h1], okOps_append h2 i2⟩

/-! ### … and on the ping FIFO -/

def regPOps : Api → List POp
  | .ping tag => [.ping tag]
  | _ => []

def peerPOps : Packet → List POp
  | .pingresp => [.resp, .acked]
  | _ => []

def evPOps (c : C) : Ev → List POp
  | .connect _ => []
  | .api call => if c.connected then regPOps call else []
  | .peer p => if c.connected then peerPOps p else []
  | .apiEarlyAck call ack => if c.connected then regPOps call ++ peerPOps ack else []

def histPOps (c : C) : List Ev → List POp
  | [] => []
  | ev :: evs => evPOps c ev ++ histPOps (step c ev).1 evs

theorem regPOps_apiWrite (c : C) (call : Api) : regPOps (apiWrite c call).2.2 = regPOps call := by
  cases call with
  | publish p tag => simp only [apiWrite]; split <;> rfl
  | _ => rfl

theorem apiRegister_pings_ops (c : C) (call : Api) :
    (apiRegister c call).1.pings = (prun c.pings (regPOps call)).1 := by
  cases call with
  | publish p tag =>
    simp only [apiRegister, regPOps, prun]
    by_cases h0 : p.qos = 0
    · simp [h0]
    · by_cases h1 : p.qos = 1 <;> simp [h0, h1]
  | _ => rfl

theorem peer_pings_ops (c : C) (p : Packet) : (peer c p).1.pings = (prun c.pings (peerPOps p)).1 := by
  by_cases h : p = .pingresp
  · subst h; rfl
  · rw [peer_pings c p h]
    cases p <;> first | rfl | exact absurd rfl h

/-- **One event.**  The ping FIFO after any event is the FIFO before it taken through `evPOps c ev`. -/
theorem step_pings_ops (c : C) (ev : Ev) : (step c ev).1.pings = (prun c.pings (evPOps c ev)).1 := by
  by_cases hc : c.connected = true
  · cases ev with
    | connect a => exact connect_pings c a
    | api call =>
      rw [step_api c hc]
      simp only [evPOps, hc, ↓reduceIte, apiRegister_pings_ops, apiWrite_pings, regPOps_apiWrite]
    | peer p =>
      rw [step_peer c hc]
      simp only [evPOps, hc, ↓reduceIte, peer_pings_ops]
    | apiEarlyAck call ack =>
      have hc1 : (step c (.api call)).1.connected = true := step_connected c (.api call) hc
      rw [step_early, step_peer _ hc1, step_api c hc]
      simp only [evPOps, hc, ↓reduceIte, peer_pings_ops, apiRegister_pings_ops, apiWrite_pings, regPOps_apiWrite,
        (prun_append _ _ _).1]
  · have hc' : c.connected = false := by simpa using hc
    cases ev with
    | connect a => exact connect_pings c a
    | _ => simp [step, evPOps, hc', prun]

theorem run_pings_ops (c : C) (evs : List Ev) :
    (runState c evs).pings = (prun c.pings (histPOps c evs)).1 := by
  induction evs generalizing c with
  | nil => rfl
  | cons ev evs ih =>
    rw [runState_cons, ih, step_pings_ops]
    simp only [histPOps, (prun_append _ _ _).1]

/-! ## what is handed back

The requests `processAcked` gets from `Acked()` while packet `p` is processed: the outputs of the
calls `peerOps k p` (only an `acked` call has any). -/

def relOf (k : QKind) (c : C) (p : Packet) : List Req := (crun (qof k c) (peerOps k p)).2.flatten

def pingRelOf (c : C) (p : Packet) : List (Nat × Nat) := (prun c.pings (peerPOps p)).2.flatten

/-- The requests the client model hands to the completion wrappers (`Proofs/Client.peerReleased`,
the `rel` of `Model.Client.peer`) are the outputs of those calls: for the four queues of the sending
side, for the inbound QoS 2 queue (handed to `onPublish`), and for the pings. -/
theorem peer_released (c : C) (p : Packet) (id : Nat) :
    (∀ k : Kind, peerReleased k c p = relOf (ofKind k) c p) ∧
    peer c (.pubrel id) =
      ({ c with pub2in := (crun c.pub2in (peerOps .pub2in (.pubrel id))).1 },
       (relOf .pub2in c (.pubrel id)).flatMap
          (fun r => match r.pub with
            | some pb => onPublish { c with pub2in := (crun c.pub2in (peerOps .pub2in (.pubrel id))).1 } pb
            | none => []) ++
        [.wrote (.pubcomp id)]) ∧
    peer c .pingresp =
      ({ c with pings := (prun c.pings (peerPOps .pingresp)).1 },
       (pingRelOf c .pingresp).flatMap (fun e => completeOut e.2 false)) := by
  refine ⟨fun k => ?_, ?_, ?_⟩
  · cases k <;> cases p <;>
      simp [peerReleased, ackedQueue, relOf, ofKind, peerOps, crun, cstep, qof]
  · simp only [peer, relOf, peerOps, crun, cstep, qof, List.flatten_cons, List.flatten_nil, List.nil_append,
      List.append_nil]
    rfl
  · simp only [peer, pingRelOf, peerPOps, prun, pstep, List.flatten_cons, List.flatten_nil, List.nil_append,
      List.append_nil]

/-! ## back through the bytes

`processAcked` does not get the request and its acknowledgement, it gets `Msgbuf` and `Ackbuf` and
decodes them (`Mtype.New()`, `Decode`, `State.New()`, `Decode`); the completion wrapper of
`subscribe` reads the filters from the decoded SUBSCRIBE and the return codes from the decoded
SUBACK.  The client model keeps the decoded values.  `Decoding` names the decoders, `RoundTrip`
what is assumed of them - and nothing else is. -/

structure Decoding where
  dec   : List UInt8 → Nat × Option Pub × List (Bytes × Nat)   -- identifier, PUBLISH fields, filters of `Msgbuf`
  ackd  : List UInt8 → List Nat                                -- SUBACK return codes of `Ackbuf` (none for other types)
  unclo : Nat → Nat × Nat                                      -- the callbacks an `OnComplete` value was built from

/-- **The round-trip hypothesis.**  Decoding the bytes of a request gives back what was encoded;
decoding the bytes of a SUBACK gives back its return codes, an acknowledgement of another type has
none; an `OnComplete` value determines the callbacks it was made of.  (For `message.*.Encode` /
`Decode` this is C03's round trip, `C03.decode_encode`, stated there on the codec model's `Msg`,
not on the fields kept here: the tie between the two is by the correspondence runs only.) -/
structure RoundTrip (cd : Coding) (dc : Decoding) : Prop where
  req    : ∀ id pub topics, dc.dec (cd.enc id pub topics) = (id, pub, topics)
  suback : ∀ id codes, dc.ackd (cd.ackb tSUBACK id codes) = codes
  other  : ∀ t id, t ≠ tSUBACK → dc.ackd (cd.ackb t id []) = []
  clo    : ∀ tag cb, dc.unclo (cd.clo tag cb) = (tag, cb)

/-- what the client model would hold for a FIFO entry -/
def unproj (dc : Decoding) (e : Fifo.Entry) : Req :=
  { id := e.id, state := e.state, tag := (dc.unclo e.tag).1, pub := (dc.dec e.req).2.1,
    topics := (dc.dec e.req).2.2, cb := (dc.unclo e.tag).2,
    codes := if e.state == 0 then [] else dc.ackd e.ack }

/-- return codes are kept with a SUBACK only (every `Ack` of the client role: `evOps_tidy`) -/
def tidyOp : COp → Bool
  | .ack t _ codes => t == tSUBACK || codes.isEmpty
  | _ => true

def TidyOps (ops : List COp) : Prop := ops.all tidyOp = true

instance (ops : List COp) : Decidable (TidyOps ops) := by unfold TidyOps; infer_instance

/-- a request that has not seen a SUBACK has no return codes -/
def Tidy (q : Queue) : Prop := ∀ r ∈ q, r.state ≠ tSUBACK → r.codes = []

theorem tidy_cstep {q : Queue} (h : Tidy q) (op : COp) (hop : tidyOp op = true) :
    Tidy (cstep q op).1 ∧ ∀ r ∈ (cstep q op).2, r.state ≠ tSUBACK → r.codes = [] := by
  cases op with
  | wait id tag pub topics cb =>
    refine ⟨?_, by intro r hr; cases hr⟩
    simp only [cstep, Queue.wait]
    split
    · exact h
    · intro r hr
      rcases List.mem_append.mp hr with h1 | h1
      · exact h r h1
      · simp only [List.mem_singleton] at h1; subst h1; intro _; rfl
  | ack t id codes =>
    refine ⟨?_, by intro r hr; cases hr⟩
    intro r hr
    simp only [cstep, Queue.ack] at hr
    obtain ⟨x, hx, hxr⟩ := List.mem_map.mp hr
    split at hxr
    · subst hxr
      intro hne
      simp only [tidyOp, Bool.or_eq_true, beq_iff_eq, List.isEmpty_iff] at hop
      rcases hop with h1 | h1
      · exact absurd h1 hne
      · exact h1
    · subst hxr; exact h x hx
  | acked =>
    have hc := acked_conservation q
    constructor
    · intro r hr
      exact h r (by rw [← hc]; exact List.mem_append_right _ hr)
    · intro r hr
      exact h r (by rw [← hc]; exact List.mem_append_left _ hr)

theorem tidy_crun {q : Queue} (h : Tidy q) (ops : List COp) (hops : TidyOps ops) :
    Tidy (crun q ops).1 ∧ ∀ l ∈ (crun q ops).2, ∀ r ∈ l, r.state ≠ tSUBACK → r.codes = [] := by
  induction ops generalizing q with
  | nil => exact ⟨h, by intro l hl; cases hl⟩
  | cons op ops ih =>
    unfold TidyOps at hops
    rw [List.all_cons, Bool.and_eq_true] at hops
    obtain ⟨s1, s2⟩ := tidy_cstep h op hops.1
    obtain ⟨i1, i2⟩ := ih s1 hops.2
    refine ⟨i1, ?_⟩
    intro l hl
    simp only [crun, List.mem_cons] at hl
    rcases hl with rfl | hl
    · exact s2
    · exact i2 l hl

/-- nothing is lost on the way through the bytes: decoding the entry a request stands for gives
the request back -/
theorem unproj_proj {cd : Coding} {dc : Decoding} (rt : RoundTrip cd dc) (k : QKind) (r : Req)
    (hr : r.state ≠ tSUBACK → r.codes = []) : unproj dc (proj cd k r) = r := by
  obtain ⟨id, state, tag, pub, topics, cb, codes⟩ := r
  simp only [unproj, proj, rt.req, rt.clo, Req.mk.injEq, true_and]
  by_cases h0 : state = 0
  · subst h0
    exact (hr (show (0 : Nat) ≠ 9 by decide)).symm
  · have h0' : (state == 0) = false := by simpa using h0
    simp only [h0', Bool.false_eq_true, ↓reduceIte]
    by_cases h9 : state = tSUBACK
    · subst h9; exact rt.suback id codes
    · have hc : codes = [] := hr h9
      subst hc
      exact rt.other state id h9

theorem map_unproj_proj {cd : Coding} {dc : Decoding} (rt : RoundTrip cd dc) (k : QKind) (l : List Req)
    (hl : ∀ r ∈ l, r.state ≠ tSUBACK → r.codes = []) : (l.map (proj cd k)).map (unproj dc) = l := by
  induction l with
  | nil => rfl
  | cons r l ih =>
    simp only [List.map_cons, unproj_proj rt k r (hl r List.mem_cons_self),
      ih (fun x hx => hl x (List.mem_cons_of_mem _ hx))]

theorem peerOps_tidy (k : QKind) (p : Packet) : TidyOps (peerOps k p) := by
  unfold TidyOps
  cases k <;> cases p <;> simp only [peerOps] <;> first | rfl | (split <;> rfl)

theorem regOps_tidy (k : QKind) (call : Api) : TidyOps (regOps k call) := by
  unfold TidyOps
  cases k <;> cases call <;> simp only [regOps] <;> first | rfl | (split <;> rfl)

theorem tidyOps_append {a b : List COp} (ha : TidyOps a) (hb : TidyOps b) : TidyOps (a ++ b) := by
  unfold TidyOps at *
  rw [List.all_append, ha, hb]; rfl

theorem evOps_tidy (k : QKind) (c : C) (ev : Ev) : TidyOps (evOps k c ev) := by
  cases ev <;> simp only [evOps] <;> first | rfl | split <;> first | rfl | skip
  · exact regOps_tidy _ _
  · exact peerOps_tidy _ _
  · exact tidyOps_append (regOps_tidy _ _) (peerOps_tidy _ _)

theorem histOps_tidy (k : QKind) (c : C) (evs : List Ev) : TidyOps (histOps k c evs) := by
  induction evs generalizing c with
  | nil => rfl
  | cons ev evs ih => exact tidyOps_append (evOps_tidy k c ev) (ih _)

end Mqtt.Proofs.ClientQueues
