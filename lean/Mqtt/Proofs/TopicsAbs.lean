/-
Core B, subscription trie: abstraction `abs` (all (path, subscriber, qos)
entries of a trie), well-formedness `WF` (Go-map keys unique at every node,
one entry per subscriber at every node), the code-level walk `walk`, and the
characterisation of `smatchL` (`smatch_char`).  Helper lemmas only.
-/
import Mqtt.Proofs.Topics

set_option linter.unusedSimpArgs false

namespace Mqtt.Proofs.Topics
open Mqtt.Model.Topics

abbrev Entry := List Level × Nat × Nat

/-! ### abstraction -/

mutual
  /-- every (path from this node, subscriber, qos) held in the trie -/
  def abs : SNode → List Entry
    | .mk subs kids => subs.map (fun p => (([] : List Level), p.1, p.2)) ++ absKids kids
  def absKids : List (Level × SNode) → List Entry
    | [] => []
    | (k, n) :: rest => (abs n).map (fun e => (k :: e.1, e.2)) ++ absKids rest
end

/-- the entries below one child, seen from the parent -/
def absKid (p : Level × SNode) : List Entry := (abs p.2).map (fun e => (p.1 :: e.1, e.2))

theorem absKids_eq_flatMap (kids : List (Level × SNode)) : absKids kids = kids.flatMap absKid := by
  induction kids with
  | nil => simp [absKids]
  | cons p rest ih => obtain ⟨k, n⟩ := p; simp [absKids, absKid, ih]

theorem abs_mk (subs : List (Nat × Nat)) (kids : List (Level × SNode)) :
    abs (.mk subs kids) = subs.map (fun p => (([] : List Level), p.1, p.2)) ++ kids.flatMap absKid := by
  rw [abs, absKids_eq_flatMap]

theorem abs_empty : abs SNode.empty = [] := by simp [SNode.empty, abs_mk]

/-! ### well-formedness -/

mutual
  /-- child keys unique (a Go map) and one entry per subscriber, at every node -/
  def WF : SNode → Prop
    | .mk subs kids => (subs.map (·.1)).Nodup ∧ (kids.map (·.1)).Nodup ∧ WFKids kids
  def WFKids : List (Level × SNode) → Prop
    | [] => True
    | (_, n) :: rest => WF n ∧ WFKids rest
end

theorem WFKids_iff (kids : List (Level × SNode)) : WFKids kids ↔ ∀ p ∈ kids, WF p.2 := by
  induction kids with
  | nil => simp [WFKids]
  | cons p rest ih => obtain ⟨k, n⟩ := p; simp [WFKids, ih]

theorem WF_mk (subs : List (Nat × Nat)) (kids : List (Level × SNode)) :
    WF (.mk subs kids) ↔ (subs.map (·.1)).Nodup ∧ (kids.map (·.1)).Nodup ∧ ∀ p ∈ kids, WF p.2 := by
  rw [WF, WFKids_iff]

theorem WF_empty : WF SNode.empty := by simp [SNode.empty, WF_mk]

/-! ### the walk the code performs -/

/-- `walk path name`: does the trie walk of `smatch` along the name's levels
collect the subscribers stored under `path`? -/
def walk : List Level → List Level → Bool
  | [], [] => true
  | [], _ :: _ => false
  | f :: fs, [] => f == MWC && fs.isEmpty
  | f :: fs, n :: ns => if f == MWC then fs.isEmpty else (f == SWC || f == n) && walk fs ns

/-- what `smatch` is to return for the entries `es` -/
def sel (q : Nat) (ns : List Level) (es : List Entry) : List (Nat × Nat) :=
  es.filterMap (fun e => if walk e.1 ns then some (e.2.1, min q e.2.2) else none)

theorem sel_append (q : Nat) (ns : List Level) (a b : List Entry) :
    sel q ns (a ++ b) = sel q ns a ++ sel q ns b := by simp [sel]

theorem sel_flatMap {α} (q : Nat) (ns : List Level) (l : List α) (g : α → List Entry) :
    sel q ns (l.flatMap g) = l.flatMap (fun a => sel q ns (g a)) := by
  simp [sel, List.filterMap_flatMap]

theorem matchQos_eq (q : Nat) (subs : List (Nat × Nat)) :
    matchQos q subs = subs.map (fun p => (p.1, min q p.2)) := by
  unfold matchQos
  apply List.map_congr_left
  intro p _
  by_cases h : q > p.2
  · simp only [h, ↓reduceIte]; rw [Nat.min_eq_right (Nat.le_of_lt h)]
  · simp only [h, ↓reduceIte]; rw [Nat.min_eq_left (Nat.le_of_not_gt h)]

/-- the entries stored at the node itself (empty path) -/
theorem sel_here (q : Nat) (n : SNode) :
    (abs n).filterMap (fun e => if e.1.isEmpty then some (e.2.1, min q e.2.2) else none) = matchQos q n.subs := by
  obtain ⟨subs, kids⟩ := n
  rw [abs_mk, List.filterMap_append, matchQos_eq]
  have h2 : (kids.flatMap absKid).filterMap
      (fun e => if e.1.isEmpty then some (e.2.1, min q e.2.2) else none) = [] := by
    rw [List.filterMap_eq_nil_iff]
    intro e he
    obtain ⟨p, _, hp⟩ := List.mem_flatMap.mp he
    obtain ⟨e', _, rfl⟩ := List.mem_map.mp hp
    simp
  rw [h2, List.append_nil, List.filterMap_map]
  simp [SNode.subs, Function.comp_def]

theorem sel_subs_nil (q : Nat) (subs : List (Nat × Nat)) :
    sel q [] (subs.map (fun p => (([] : List Level), p.1, p.2))) = matchQos q subs := by
  rw [matchQos_eq, sel, List.filterMap_map]
  simp [Function.comp_def, walk]

theorem sel_subs_cons (q : Nat) (l : Level) (ls : List Level) (subs : List (Nat × Nat)) :
    sel q (l :: ls) (subs.map (fun p => (([] : List Level), p.1, p.2))) = [] := by
  rw [sel, List.filterMap_map]
  simp [Function.comp_def, walk]

/-- one child's contribution when the name is exhausted -/
theorem sel_absKid_nil (q : Nat) (p : Level × SNode) :
    sel q [] (absKid p) = if p.1 == MWC then matchQos q p.2.subs else [] := by
  rw [sel, absKid, List.filterMap_map]
  by_cases h : p.1 == MWC
  · simp only [h, ↓reduceIte]
    rw [← sel_here]
    simp [Function.comp_def, walk, h]
  · simp [Function.comp_def, walk, h]

/-- one child's contribution while the name has levels left -/
theorem sel_absKid_cons (q : Nat) (l : Level) (ls : List Level) (p : Level × SNode) :
    sel q (l :: ls) (absKid p) =
      if p.1 == MWC then matchQos q p.2.subs
      else if p.1 == SWC || p.1 == l then sel q ls (abs p.2) else [] := by
  rw [sel, absKid, List.filterMap_map]
  by_cases h : p.1 == MWC
  · simp only [h, ↓reduceIte]
    rw [← sel_here]
    simp [Function.comp_def, walk, h]
  · by_cases h2 : (p.1 == SWC || p.1 == l) = true
    · simp [Function.comp_def, walk, h, h2, sel]
    · simp [Function.comp_def, walk, h, h2]

/-! ### `optConcat` -/

theorem optConcat_map_perm {α β} (l : List α) (f : α → Option (List β)) (g : α → List β)
    (h : ∀ a ∈ l, ∃ r, f a = some r ∧ r.Perm (g a)) :
    ∃ r, optConcat (l.map f) = some r ∧ r.Perm (l.flatMap g) := by
  induction l with
  | nil => exact ⟨[], rfl, by simp⟩
  | cons a rest ih =>
    obtain ⟨r1, hf, hp1⟩ := h a (by simp)
    obtain ⟨r2, hr, hp2⟩ := ih (fun b hb => h b (by simp [hb]))
    refine ⟨r1 ++ r2, ?_, ?_⟩
    · simp [optConcat, hf, hr]
    · rw [List.flatMap_cons]; exact hp1.append hp2

/-! ### unique keys: the `#` child -/

theorem kidGet_flatMap_unique {α β} (kids : List (Level × α)) (k : Level) (g : α → List β)
    (hu : (kids.map (·.1)).Nodup) :
    kids.flatMap (fun p => if p.1 == k then g p.2 else []) =
      match kidGet kids k with
      | some n => g n
      | none => [] := by
  induction kids with
  | nil => simp [kidGet]
  | cons p rest ih =>
    obtain ⟨a, n⟩ := p
    simp only [List.map_cons, List.nodup_cons] at hu
    rw [List.flatMap_cons]
    by_cases h : a = k
    · subst h
      have hrest : rest.flatMap (fun p => if p.1 == a then g p.2 else []) = [] := by
        rw [List.flatMap_eq_nil_iff]
        intro p hp
        have : p.1 ≠ a := fun e => hu.1 (e ▸ List.mem_map_of_mem hp)
        simp [this]
      rw [hrest]
      simp [kidGet, List.lookup_cons]
    · have hne : (a == k) = false := by simp [h]
      have hne' : (k == a) = false := by simp [Ne.symm h]
      rw [ih hu.2]
      simp only [hne, kidGet, List.lookup_cons, hne']
      simp

/-! ### characterisation of `smatchL` -/

theorem smatch_char_aux (ns : List Level) (q : Nat) :
    ∀ n, WF n → ∃ r, SNode.smatchL ns true q n = some r ∧ r.Perm (sel q ns (abs n)) := by
  induction ns with
  | nil =>
    intro n hwf
    obtain ⟨subs, kids⟩ := n
    rw [WF_mk] at hwf
    refine ⟨_, by simp only [SNode.smatchL, ↓reduceIte]; rfl, ?_⟩
    rw [abs_mk, sel_append, sel_subs_nil, sel_flatMap]
    simp only [sel_absKid_nil]
    rw [kidGet_flatMap_unique kids MWC (fun n => matchQos q n.subs) hwf.2.1]
    cases kidGet kids MWC <;> exact List.Perm.refl _
  | cons l ls ih =>
    intro n hwf
    obtain ⟨subs, kids⟩ := n
    rw [WF_mk] at hwf
    rw [abs_mk, sel_append, sel_subs_cons, List.nil_append, sel_flatMap]
    simp only [SNode.smatchL]
    apply optConcat_map_perm
    intro p hp
    rw [sel_absKid_cons]
    by_cases h : p.1 == MWC
    · simp only [h, ↓reduceIte]; exact ⟨_, rfl, List.Perm.refl _⟩
    · by_cases h2 : (p.1 == SWC || p.1 == l) = true
      · simp only [h, h2, ↓reduceIte]
        exact ih p.2 (hwf.2.2 p hp)
      · simp only [h, h2, ↓reduceIte]; exact ⟨_, rfl, List.Perm.refl _⟩

/-- the statement about the exported `smatch` on level lists -/
theorem smatch_char (n : SNode) (ns : List Level) (q : Nat) (hwf : WF n) :
    ∃ r, n.smatchL ns true q = some r ∧
      r.Perm ((abs n).filterMap (fun e => if walk e.1 ns then some (e.2.1, min q e.2.2) else none)) :=
  smatch_char_aux ns q n hwf

/-- an error of `nextTopicLevel` in the name surfaces only when a branch is walked that far -/
theorem smatchL_false_nil (q : Nat) (n : SNode) : SNode.smatchL [] false q n = none := by
  obtain ⟨subs, kids⟩ := n; simp [SNode.smatchL]

/-! ### `walk` is the section 4.7 relation -/

theorem walk_eq_matchLevels (fs ns : List Level) : walk fs ns = Mqtt.Spec.Match.matchLevels fs ns := by
  induction fs generalizing ns with
  | nil => cases ns <;> rfl
  | cons f fs ih =>
    cases ns with
    | nil => rfl
    | cons n ns =>
      simp only [walk, Mqtt.Spec.Match.matchLevels, ih]
      rfl

end Mqtt.Proofs.Topics
