/-
Client role: helper definitions and lemmas for properties C12 and C20
(histories, the per-queue bookkeeping of registered / released requests).
Helper lemmas only; the property theorems are in `Properties/C12.lean` and
`Properties/C20.lean`.
-/
import Mqtt.Model.Client
import Mqtt.Spec.Client

set_option linter.unusedSimpArgs false

namespace Mqtt.Proofs.Client
open Mqtt.Iface.Broker (Pub Packet Bytes)
open Mqtt.Iface.Client
open Mqtt.Model.Client
open Mqtt.Generated

/-! ### histories -/

/-- the model after a history -/
def runState (c : C) (evs : List Ev) : C := evs.foldl (fun c ev => (step c ev).1) c

/-- the outputs of a history, one list per event -/
def runOuts (c : C) : List Ev → List (List Out)
  | [] => []
  | ev :: evs => (step c ev).2 :: runOuts (step c ev).1 evs

theorem runState_cons (c : C) (ev : Ev) (evs : List Ev) :
    runState c (ev :: evs) = runState (step c ev).1 evs := rfl

theorem runState_append (c : C) (a b : List Ev) : runState c (a ++ b) = runState (runState c a) b := by
  simp [runState, List.foldl_append]

/-- the client a fresh `Client` value stands for -/
def init : C := {}

/-! ### one step, unfolded -/

theorem step_peer (c : C) (hc : c.connected = true) (p : Packet) : step c (.peer p) = peer c p := by
  simp [step, hc]

theorem step_api (c : C) (hc : c.connected = true) (call : Api) :
    step c (.api call) =
      ((apiRegister (apiWrite c call).1 (apiWrite c call).2.2).1,
       (apiWrite c call).2.1 ++ (apiRegister (apiWrite c call).1 (apiWrite c call).2.2).2) := by
  simp [step, hc]

/-! ### the four identified ack queues -/

inductive Kind where
  | pub1 | pub2 | sub | unsub
deriving DecidableEq, Repr

def queue : Kind → C → Queue
  | .pub1, c => c.pub1ack
  | .pub2, c => c.pub2out
  | .sub, c => c.suback
  | .unsub, c => c.unsuback

/-- everything about a request that is fixed when it is registered -/
def key (r : Req) : Nat × Nat × Option Pub × List (Bytes × Nat) × Nat := (r.id, r.tag, r.pub, r.topics, r.cb)

/-- the non-zero tags (tag 0 = no completion callback) -/
def nz (l : List Nat) : List Nat := l.filter (· != 0)

/-- tags of the completion callbacks invoked in a list of outputs, in order -/
def doneTags : List Out → List Nat
  | [] => []
  | .complete tag _ :: rest => tag :: doneTags rest
  | _ :: rest => doneTags rest

theorem doneTags_append (a b : List Out) : doneTags (a ++ b) = doneTags a ++ doneTags b := by
  induction a with
  | nil => rfl
  | cons x a ih => cases x <;> simp [doneTags, ih]

theorem doneTags_completeOut (tag : Nat) (err : Bool) : doneTags (completeOut tag err) = nz [tag] := by
  unfold completeOut nz
  by_cases h : tag = 0
  · subst h; rfl
  · have : (tag == 0) = false := by simpa using h
    simp [this, doneTags, h]

theorem nz_append (a b : List Nat) : nz (a ++ b) = nz a ++ nz b := by simp [nz]

theorem nz_cons (a : Nat) (l : List Nat) : nz (a :: l) = nz [a] ++ nz l := nz_append [a] l

/-- the request a call registers in queue `k` (the call as it is after `apiWrite`) -/
def reqOf : Kind → Api → Option Req
  | .pub1, .publish p tag => if p.qos == 1 then some { id := p.pktid, tag := tag, pub := some p } else none
  | .pub2, .publish p tag =>
    if p.qos == 0 then none else if p.qos == 1 then none else some { id := p.pktid, tag := tag, pub := some p }
  | .sub, .subscribe id topics tag cb => some { id := id, tag := tag, topics := topics, cb := cb }
  | .unsub, .unsubscribe id topics tag => some { id := id, tag := tag, topics := topics.map (fun t => (t, 0)) }
  | _, _ => none

/-- the queue after the acknowledgement part of a terminal acknowledgement of kind `k` -/
def ackedQueue : Kind → C → Packet → Option Queue
  | .pub1, c, .puback id => some (c.pub1ack.ack tPUBACK id)
  | .pub2, c, .pubcomp id => some (c.pub2out.ack tPUBCOMP id)
  | .sub, c, .suback id codes => some (c.suback.ack tSUBACK id codes)
  | .unsub, c, .unsuback id => some (c.unsuback.ack tUNSUBACK id)
  | _, _, _ => none

/-- identifier of the terminal acknowledgement of kind `k` carried by a packet -/
def termId : Kind → Packet → Option Nat
  | .pub1, .puback id => some id
  | .pub2, .pubcomp id => some id
  | .sub, .suback id _ => some id
  | .unsub, .unsuback id => some id
  | _, _ => none

/-- requests put in flight by the registration of `call` -/
def regAccepted (k : Kind) (c : C) (call : Api) : List Req :=
  match reqOf k call with
  | some r => if (queue k c).any (fun e => e.id == r.id) then [] else [r]
  | none => []

/-- requests handed back (completed) while packet `p` is processed -/
def peerReleased (k : Kind) (c : C) (p : Packet) : List Req :=
  match ackedQueue k c p with
  | some q => q.acked.2
  | none => []

theorem apiWrite_queue (k : Kind) (c : C) (call : Api) : queue k (apiWrite c call).1 = queue k c := by
  cases call with
  | publish p tag =>
    simp only [apiWrite, assignId]
    by_cases h0 : (p.qos == 0) = true
    · simp [h0]
    · by_cases hi : (p.pktid == 0) = true <;> cases k <;> simp [h0, hi, queue]
  | subscribe id topics tag cb =>
    simp only [apiWrite, assignId]
    by_cases hi : (id == 0) = true <;> cases k <;> simp [hi, queue]
  | unsubscribe id topics tag =>
    simp only [apiWrite, assignId]
    by_cases hi : (id == 0) = true <;> cases k <;> simp [hi, queue]
  | ping tag => rfl

theorem apiWrite_connected (c : C) (call : Api) : (apiWrite c call).1.connected = c.connected := by
  cases call with
  | publish p tag =>
    simp only [apiWrite, assignId]
    by_cases h0 : (p.qos == 0) = true
    · simp [h0]
    · by_cases hi : (p.pktid == 0) = true <;> simp [h0, hi]
  | subscribe id topics tag cb =>
    simp only [apiWrite, assignId]
    by_cases hi : (id == 0) = true <;> simp [hi]
  | unsubscribe id topics tag =>
    simp only [apiWrite, assignId]
    by_cases hi : (id == 0) = true <;> simp [hi]
  | ping tag => rfl

theorem apiRegister_queue (k : Kind) (c : C) (call : Api) :
    queue k (apiRegister c call).1 = queue k c ++ regAccepted k c call := by
  cases call with
  | publish p tag =>
    simp only [apiRegister, regAccepted]
    by_cases h0 : p.qos = 0
    · cases k <;> simp [h0, reqOf, queue]
    · by_cases h1 : p.qos = 1
      · cases k <;> simp [h0, h1, reqOf, queue, Queue.wait]
        split <;> simp_all
      · cases k <;> simp [h0, h1, reqOf, queue, Queue.wait]
        split <;> simp_all
  | subscribe id topics tag cb =>
    cases k <;> simp [apiRegister, regAccepted, reqOf, queue, Queue.wait]
    split <;> simp_all
  | unsubscribe id topics tag =>
    cases k <;> simp [apiRegister, regAccepted, reqOf, queue, Queue.wait]
    split <;> simp_all
  | ping tag => cases k <;> simp [apiRegister, regAccepted, reqOf, queue]

/-! ### the completion wrappers change the topic trie only -/

/-- `c'` is `c` except for the topic trie -/
def Frame (c c' : C) : Prop := c' = { c with topics := c'.topics }

theorem Frame.refl (c : C) : Frame c c := rfl

theorem Frame.trans {a b c : C} (h1 : Frame a b) (h2 : Frame b c) : Frame a c := by
  unfold Frame at *
  rw [h2, h1]

theorem Frame.queue {c c' : C} (h : Frame c c') (k : Kind) : queue k c' = queue k c := by
  unfold Frame at h
  rw [h]; cases k <;> rfl

theorem Frame.connected {c c' : C} (h : Frame c c') : c'.connected = c.connected := by
  unfold Frame at h
  rw [h]

theorem Frame.pings {c c' : C} (h : Frame c c') : c'.pings = c.pings := by
  unfold Frame at h
  rw [h]

theorem Frame.pub2in {c c' : C} (h : Frame c c') : c'.pub2in = c.pub2in := by
  unfold Frame at h
  rw [h]

theorem Frame.ctr {c c' : C} (h : Frame c c') : c'.ctr = c.ctr := by
  unfold Frame at h
  rw [h]

theorem subscribeDone_frame (c : C) (r : Req) : Frame c (subscribeDone c r).1 := by
  unfold subscribeDone
  split
  · rfl
  · rfl

theorem unsubscribeDone_frame (c : C) (r : Req) : Frame c (unsubscribeDone c r).1 := by
  unfold unsubscribeDone
  rfl

theorem foldDone_frame (f : C → Req → C × List Out) (hf : ∀ c r, Frame c (f c r).1) (c : C) (rs : List Req) :
    Frame c (foldDone f c rs).1 := by
  induction rs generalizing c with
  | nil => rfl
  | cons r rs ih => exact (hf c r).trans (ih (f c r).1)

theorem foldDone_doneTags (f : C → Req → C × List Out) (hf : ∀ c r, doneTags (f c r).2 = nz [r.tag]) (c : C)
    (rs : List Req) : doneTags (foldDone f c rs).2 = nz (rs.map (·.tag)) := by
  induction rs generalizing c with
  | nil => rfl
  | cons r rs ih =>
    simp only [foldDone, doneTags_append, hf, ih, List.map_cons]
    exact (nz_cons _ _).symm

theorem subscribeDone_doneTags (c : C) (r : Req) : doneTags (subscribeDone c r).2 = nz [r.tag] := by
  unfold subscribeDone
  split
  · exact doneTags_completeOut _ _
  · exact doneTags_completeOut _ _

theorem unsubscribeDone_doneTags (c : C) (r : Req) : doneTags (unsubscribeDone c r).2 = nz [r.tag] := by
  unfold unsubscribeDone
  exact doneTags_completeOut _ _

theorem flatMap_completeOut_doneTags (rs : List Req) :
    doneTags (rs.flatMap (fun r => completeOut r.tag false)) = nz (rs.map (·.tag)) := by
  induction rs with
  | nil => rfl
  | cons r rs ih =>
    simp only [List.flatMap_cons, doneTags_append, doneTags_completeOut, ih, List.map_cons]
    exact (nz_cons _ _).symm

/-! ### one packet from the peer -/

theorem ack_map_key (q : Queue) (t id : Nat) (codes : List Nat) : (q.ack t id codes).map key = q.map key := by
  simp only [Queue.ack, List.map_map]
  apply List.map_congr_left
  intro e _
  simp only [Function.comp_apply, key]
  split <;> rfl

theorem acked_conservation (q : Queue) : q.acked.2 ++ q.acked.1 = q := by
  simp [Queue.acked, List.takeWhile_append_dropWhile]

/-- queue `k` after packet `p`: the released requests are a prefix that left it, nothing else changed
(on everything fixed at registration) -/
theorem peer_conservation (k : Kind) (c : C) (p : Packet) :
    (peerReleased k c p ++ queue k (peer c p).1).map key = (queue k c).map key := by
  cases p with
  | publish pub =>
    simp only [peer]
    by_cases h2 : pub.qos = 2
    · cases k <;> simp [h2, peerReleased, ackedQueue, queue]
    · by_cases h1 : pub.qos = 1 <;> cases k <;> simp [h2, h1, peerReleased, ackedQueue, queue]
  | pubrel id => cases k <;> simp [peer, peerReleased, ackedQueue, queue]
  | puback id =>
    cases k <;> simp only [peer, peerReleased, ackedQueue, queue, List.nil_append]
    rw [acked_conservation, ack_map_key]
  | pubrec id =>
    cases k <;> simp only [peer, peerReleased, ackedQueue, queue, List.nil_append]
    rw [ack_map_key]
  | pubcomp id =>
    cases k <;> simp only [peer, peerReleased, ackedQueue, queue, List.nil_append]
    rw [acked_conservation, ack_map_key]
  | suback id codes =>
    have hf := fun c' => foldDone_frame subscribeDone subscribeDone_frame c'
      ((c.suback.ack tSUBACK id codes).acked.2)
    cases k <;> simp only [peer, peerReleased, ackedQueue, List.nil_append, (hf _).queue] <;> simp only [queue]
    rw [acked_conservation, ack_map_key]
  | unsuback id =>
    have hf := fun c' => foldDone_frame unsubscribeDone unsubscribeDone_frame c'
      ((c.unsuback.ack tUNSUBACK id).acked.2)
    cases k <;> simp only [peer, peerReleased, ackedQueue, List.nil_append, (hf _).queue] <;> simp only [queue]
    rw [acked_conservation, ack_map_key]
  | pingresp => cases k <;> simp [peer, peerReleased, ackedQueue, queue]
  | connack sp code => cases k <;> simp [peer, peerReleased, ackedQueue]
  | subscribe id ts => cases k <;> simp [peer, peerReleased, ackedQueue]
  | unsubscribe id ts => cases k <;> simp [peer, peerReleased, ackedQueue]
  | pingreq => cases k <;> simp [peer, peerReleased, ackedQueue]
  | disconnect => cases k <;> simp [peer, peerReleased, ackedQueue]
  | connectAgain => cases k <;> simp [peer, peerReleased, ackedQueue]

theorem peerReleased_of_termId_none (k : Kind) (c : C) (p : Packet) (h : termId k p = none) :
    peerReleased k c p = [] := by
  cases k <;> cases p <;> simp_all [termId, peerReleased, ackedQueue]

/-- the completions fired while a terminal acknowledgement of kind `k` is processed are those of the
requests released from queue `k`, in order -/
theorem peer_doneTags (k : Kind) (c : C) (p : Packet) (h : (termId k p).isSome = true) :
    doneTags (peer c p).2 = nz ((peerReleased k c p).map (·.tag)) := by
  cases k <;> cases p <;> simp [termId] at h
  · simp only [peer, peerReleased, ackedQueue]; exact flatMap_completeOut_doneTags _
  · simp only [peer, peerReleased, ackedQueue]; exact flatMap_completeOut_doneTags _
  · simp only [peer, peerReleased, ackedQueue]
    exact foldDone_doneTags subscribeDone subscribeDone_doneTags _ _
  · simp only [peer, peerReleased, ackedQueue]
    exact foldDone_doneTags unsubscribeDone unsubscribeDone_doneTags _ _

theorem peer_connected (c : C) (p : Packet) : (peer c p).1.connected = c.connected := by
  cases p with
  | publish pub =>
    simp only [peer]
    by_cases h2 : pub.qos = 2
    · simp [h2]
    · by_cases h1 : pub.qos = 1 <;> simp [h2, h1]
  | suback id codes =>
    simp only [peer]
    rw [(foldDone_frame subscribeDone subscribeDone_frame _ _).connected]
  | unsuback id =>
    simp only [peer]
    rw [(foldDone_frame unsubscribeDone unsubscribeDone_frame _ _).connected]
  | _ => rfl

theorem apiRegister_connected (c : C) (call : Api) : (apiRegister c call).1.connected = c.connected := by
  cases call with
  | publish p tag =>
    simp only [apiRegister]
    by_cases h0 : p.qos = 0
    · simp [h0]
    · by_cases h1 : p.qos = 1 <;> simp [h0, h1]
  | _ => rfl

theorem step_connected (c : C) (ev : Ev) (hc : c.connected = true) : (step c ev).1.connected = true := by
  cases ev with
  | connect a =>
    cases a with
    | connack sp code => simp only [step, connect]; split <;> simp [hc]
    | _ => exact hc
  | api call => rw [step_api c hc, apiRegister_connected, apiWrite_connected]; exact hc
  | peer p => rw [step_peer c hc, peer_connected]; exact hc
  | apiEarlyAck call ack =>
    simp only [step, hc, Bool.not_true, Bool.false_eq_true, ↓reduceIte]
    rw [peer_connected, apiRegister_connected, apiWrite_connected]; exact hc

/-- **the acknowledgement inside the window is the call followed by the packet**: `service.ackmu`
makes the acknowledgement wait for the registration, so the composite event is exactly `.api call`
followed by `.peer ack` - state and outputs, connected or not -/
theorem step_early (c : C) (call : Api) (ack : Packet) :
    step c (.apiEarlyAck call ack) =
      ((step (step c (.api call)).1 (.peer ack)).1,
       (step c (.api call)).2 ++ (step (step c (.api call)).1 (.peer ack)).2) := by
  by_cases hc : c.connected = true
  · have hc1 : (step c (.api call)).1.connected = true := step_connected c (.api call) hc
    rw [step_peer _ hc1, step_api c hc]
    simp only [step, hc, Bool.not_true, Bool.false_eq_true, ↓reduceIte, List.append_assoc]
  · have hc' : c.connected = false := by simpa using hc
    simp [step, hc']

def isEarly : Ev → Bool
  | .apiEarlyAck _ _ => true
  | _ => false

/-- a property of the state kept by every simple event is kept by the composite event too -/
theorem step_inv_of_basic {P : C → Prop} (hb : ∀ c ev, isEarly ev = false → P c → P (step c ev).1)
    (c : C) (ev : Ev) (h : P c) : P (step c ev).1 := by
  cases ev with
  | apiEarlyAck call ack => rw [step_early]; exact hb _ (.peer ack) rfl (hb c (.api call) rfl h)
  | connect a => exact hb c _ rfl h
  | api call => exact hb c _ rfl h
  | peer p => exact hb c _ rfl h

theorem runState_connected (c : C) (evs : List Ev) (hc : c.connected = true) : (runState c evs).connected = true := by
  induction evs generalizing c with
  | nil => exact hc
  | cons ev evs ih => exact ih _ (step_connected c ev hc)

/-! ### one event; histories -/

/-- requests newly put in flight in queue `k` by one event -/
def stepAccepted (k : Kind) (c : C) : Ev → List Req
  | .api call => if c.connected then regAccepted k (apiWrite c call).1 (apiWrite c call).2.2 else []
  | .apiEarlyAck call _ => if c.connected then regAccepted k (apiWrite c call).1 (apiWrite c call).2.2 else []
  | _ => []

/-- requests of queue `k` handed back (their completions fired) by one event -/
def stepReleased (k : Kind) (c : C) : Ev → List Req
  | .peer p => if c.connected then peerReleased k c p else []
  | .apiEarlyAck call ack => if c.connected then peerReleased k (step c (.api call)).1 ack else []
  | _ => []

def accepted (k : Kind) (c : C) : List Ev → List Req
  | [] => []
  | ev :: evs => stepAccepted k c ev ++ accepted k (step c ev).1 evs

def released (k : Kind) (c : C) : List Ev → List Req
  | [] => []
  | ev :: evs => stepReleased k c ev ++ released k (step c ev).1 evs

theorem step_conservation (k : Kind) (c : C) (ev : Ev) :
    (stepReleased k c ev ++ queue k (step c ev).1).map key = (queue k c ++ stepAccepted k c ev).map key := by
  by_cases hc : c.connected = true
  · cases ev with
    | connect a =>
      cases a with
      | connack sp code =>
        simp only [step, connect, stepReleased, stepAccepted]
        split <;> cases k <;> simp [queue]
      | _ => simp [step, connect, stepReleased, stepAccepted]
    | api call =>
      rw [step_api c hc]
      simp only [stepReleased, stepAccepted, hc, ↓reduceIte, List.nil_append, apiRegister_queue, apiWrite_queue]
    | peer p =>
      rw [step_peer c hc]
      simp only [stepReleased, stepAccepted, hc, ↓reduceIte, List.append_nil]
      exact peer_conservation k c p
    | apiEarlyAck call ack =>
      have hc1 : (step c (.api call)).1.connected = true := step_connected c (.api call) hc
      rw [step_early, step_peer _ hc1]
      simp only [stepReleased, stepAccepted, hc, ↓reduceIte]
      rw [peer_conservation k (step c (.api call)).1 ack, step_api c hc]
      simp only [apiRegister_queue, apiWrite_queue]
  · have hc' : c.connected = false := by simpa using hc
    cases ev with
    | connect a =>
      cases a with
      | connack sp code =>
        simp only [step, connect, stepReleased, stepAccepted]
        split <;> cases k <;> simp [queue]
      | _ => simp [step, connect, stepReleased, stepAccepted]
    | _ => simp [step, stepReleased, stepAccepted, hc']

/-- conservation over a history, per queue -/
theorem run_conservation (k : Kind) (c : C) (evs : List Ev) :
    (released k c evs ++ queue k (runState c evs)).map key = (queue k c ++ accepted k c evs).map key := by
  induction evs generalizing c with
  | nil => simp [released, accepted, runState]
  | cons ev evs ih =>
    rw [runState_cons]
    simp only [released, accepted]
    have h1 := step_conservation k c ev
    have h2 := ih (step c ev).1
    simp only [List.map_append] at *
    rw [List.append_assoc, h2, ← List.append_assoc, h1, List.append_assoc]

/-! ### completions fired, identifiers supplied by the caller -/

/-- the completion tags the model fires while it processes a terminal acknowledgement of kind `k` -/
def stepFired (k : Kind) (c : C) : Ev → List Nat
  | .peer p => if (termId k p).isSome then doneTags (step c (.peer p)).2 else []
  | .apiEarlyAck call ack =>
    if (termId k ack).isSome then doneTags (step (step c (.api call)).1 (.peer ack)).2 else []
  | _ => []

def fired (k : Kind) (c : C) : List Ev → List Nat
  | [] => []
  | ev :: evs => stepFired k c ev ++ fired k (step c ev).1 evs

theorem stepFired_eq_basic (k : Kind) (c : C) (ev : Ev) (he : isEarly ev = false) :
    stepFired k c ev = nz ((stepReleased k c ev).map (·.tag)) := by
  cases ev with
  | peer p =>
    simp only [stepFired, stepReleased]
    by_cases hc : c.connected = true
    · rw [step_peer c hc]
      simp only [hc, ↓reduceIte]
      cases ht : termId k p with
      | none => simp [peerReleased_of_termId_none k c p ht, nz]
      | some id => simp only [Option.isSome_some, ↓reduceIte]; exact peer_doneTags k c p (by simp [ht])
    · have hc' : c.connected = false := by simpa using hc
      simp [step, hc', doneTags, nz]
  | apiEarlyAck call ack => simp [isEarly] at he
  | _ => simp [stepFired, stepReleased, nz]

theorem stepFired_eq (k : Kind) (c : C) (ev : Ev) :
    stepFired k c ev = nz ((stepReleased k c ev).map (·.tag)) := by
  cases ev with
  | apiEarlyAck call ack =>
    have h := stepFired_eq_basic k (step c (.api call)).1 (.peer ack) rfl
    simp only [stepFired, stepReleased] at h ⊢
    by_cases hc : c.connected = true
    · rw [step_connected c (.api call) hc] at h
      simpa only [hc, ↓reduceIte] using h
    · have hc' : c.connected = false := by simpa using hc
      have h1 : (step c (.api call)).1 = c := by simp [step, hc']
      have h2 : (step c (.peer ack)).2 = [] := by simp [step, hc']
      simp [h1, h2, hc', doneTags, nz]
  | connect a => exact stepFired_eq_basic k c _ rfl
  | api call => exact stepFired_eq_basic k c _ rfl
  | peer p => exact stepFired_eq_basic k c _ rfl

theorem fired_eq (k : Kind) (c : C) (evs : List Ev) :
    fired k c evs = nz ((released k c evs).map (·.tag)) := by
  induction evs generalizing c with
  | nil => rfl
  | cons ev evs ih =>
    simp only [fired, released, List.map_append, nz_append]
    rw [stepFired_eq k c ev, ih _]

theorem map_key_tag (l : List Req) : (l.map key).map (fun x => x.2.1) = l.map (·.tag) := by
  simp [key, List.map_map, Function.comp_def]

/-- tags version of `run_conservation` -/
theorem run_conservation_tags (k : Kind) (c : C) (evs : List Ev) :
    fired k c evs ++ nz ((queue k (runState c evs)).map (·.tag)) =
      nz ((queue k c).map (·.tag)) ++ nz ((accepted k c evs).map (·.tag)) := by
  have := congrArg (fun l => nz (l.map (fun x => x.2.1))) (run_conservation k c evs)
  simp only [List.map_append, map_key_tag, nz_append] at this
  rw [fired_eq k c evs]
  exact this

/-- kind, identifier and completion tag under which an API call asks to be registered -/
def callReq : Api → Option (Kind × Nat × Nat)
  | .publish p tag => if p.qos == 0 then none else if p.qos == 1 then some (.pub1, p.pktid, tag) else some (.pub2, p.pktid, tag)
  | .subscribe id _ tag _ => some (.sub, id, tag)
  | .unsubscribe id _ tag => some (.unsub, id, tag)
  | .ping _ => none

/-- the call supplies an identifier that is non-zero and not in flight in its queue -/
def freshStep (c : C) : Ev → Bool
  | .api call | .apiEarlyAck call _ =>
    match callReq call with
    | some (k, id, _) => id != 0 && !(queue k c).any (fun e => e.id == id)
    | none => true
  | _ => true

def Fresh (c : C) : List Ev → Bool
  | [] => true
  | ev :: evs => freshStep c ev && Fresh (step c ev).1 evs

/-- completion tags of the requests of kind `k` the caller made, in call order -/
def requestedTags (k : Kind) : List Ev → List Nat
  | [] => []
  | .api call :: evs =>
    (match callReq call with
     | some (k', _, tag) => if k' = k then [tag] else []
     | none => []) ++ requestedTags k evs
  | .apiEarlyAck call _ :: evs =>
    (match callReq call with
     | some (k', _, tag) => if k' = k then [tag] else []
     | none => []) ++ requestedTags k evs
  | _ :: evs => requestedTags k evs

theorem assignId_of_ne (c : C) (id : Nat) (h : id ≠ 0) : assignId c id = (c, id) := by
  have : (id == 0) = false := by simpa using h
  simp [assignId, this]

theorem stepAccepted_fresh_id (k : Kind) (c : C) (call : Api) (hc : c.connected = true)
    (hf : freshStep c (.api call) = true) :
    (stepAccepted k c (.api call)).map (fun r => (r.id, r.tag)) =
      (match callReq call with
       | some (k', id, tag) => if k' = k then [(id, tag)] else []
       | none => []) := by
  simp only [stepAccepted, hc, ↓reduceIte]
  cases call with
  | publish p tag =>
    simp only [freshStep, callReq] at hf ⊢
    by_cases h0 : p.qos = 0
    · cases k <;> simp [h0, apiWrite, regAccepted, reqOf]
    · have hb0 : (p.qos == 0) = false := by simpa using h0
      have hp : ({ p with pktid := p.pktid } : Pub) = p := by cases p; rfl
      by_cases h1 : p.qos = 1
      · have hb1 : (p.qos == 1) = true := by simpa using h1
        simp only [hb0, hb1, Bool.false_eq_true, ↓reduceIte, Bool.and_eq_true, bne_iff_ne, ne_eq,
          Bool.not_eq_true'] at hf ⊢
        obtain ⟨hn, hq⟩ := hf
        have hw : apiWrite c (.publish p tag) = (c, [.wrote (.publish p)], .publish p tag) := by
          simp [apiWrite, hb0, assignId_of_ne c p.pktid hn, hp]
        rw [hw]
        cases k <;> simp only [regAccepted, reqOf, hb0, hb1, queue] at hq ⊢ <;> simp [hq]
      · have hb1 : (p.qos == 1) = false := by simpa using h1
        simp only [hb0, hb1, Bool.false_eq_true, ↓reduceIte, Bool.and_eq_true, bne_iff_ne, ne_eq,
          Bool.not_eq_true'] at hf ⊢
        obtain ⟨hn, hq⟩ := hf
        have hw : apiWrite c (.publish p tag) = (c, [.wrote (.publish p)], .publish p tag) := by
          simp [apiWrite, hb0, assignId_of_ne c p.pktid hn, hp]
        rw [hw]
        cases k <;> simp only [regAccepted, reqOf, hb0, hb1, queue] at hq ⊢ <;> simp [hq]
  | subscribe id topics tag cb =>
    simp only [freshStep, callReq, Bool.and_eq_true, bne_iff_ne, ne_eq, Bool.not_eq_true'] at hf ⊢
    obtain ⟨hn, hq⟩ := hf
    simp only [apiWrite, assignId_of_ne c id hn]
    cases k <;> simp only [regAccepted, reqOf, queue] at hq ⊢ <;> simp [hq]
  | unsubscribe id topics tag =>
    simp only [freshStep, callReq, Bool.and_eq_true, bne_iff_ne, ne_eq, Bool.not_eq_true'] at hf ⊢
    obtain ⟨hn, hq⟩ := hf
    simp only [apiWrite, assignId_of_ne c id hn]
    cases k <;> simp only [regAccepted, reqOf, queue] at hq ⊢ <;> simp [hq]
  | ping tag => cases k <;> simp [apiWrite, regAccepted, reqOf, callReq]

theorem stepAccepted_fresh (k : Kind) (c : C) (call : Api) (hc : c.connected = true)
    (hf : freshStep c (.api call) = true) :
    (stepAccepted k c (.api call)).map (·.tag) =
      (match callReq call with
       | some (k', _, tag) => if k' = k then [tag] else []
       | none => []) := by
  have := congrArg (List.map (·.2)) (stepAccepted_fresh_id k c call hc hf)
  simp only [List.map_map, Function.comp_def] at this
  rw [this]
  cases callReq call with
  | none => rfl
  | some x =>
    obtain ⟨k', id, tag⟩ := x
    simp only
    split <;> rfl

theorem accepted_fresh (k : Kind) (c : C) (evs : List Ev) (hc : c.connected = true)
    (hf : Fresh c evs = true) : (accepted k c evs).map (·.tag) = requestedTags k evs := by
  induction evs generalizing c with
  | nil => rfl
  | cons ev evs ih =>
    simp only [Fresh, Bool.and_eq_true] at hf
    have ih' := ih (step c ev).1 (step_connected c ev hc) hf.2
    cases ev with
    | api call =>
      simp only [accepted, requestedTags, List.map_append, ih']
      rw [stepAccepted_fresh k c call hc hf.1]
    | apiEarlyAck call ack =>
      simp only [accepted, requestedTags, List.map_append, ih']
      have := stepAccepted_fresh k c call hc hf.1
      simp only [stepAccepted] at this ⊢
      rw [this]
    | connect a => simp only [accepted, requestedTags, stepAccepted, List.nil_append, ih']
    | peer p => simp only [accepted, requestedTags, stepAccepted, List.nil_append, ih']

/-! ### never early, no later than, eager -/

theorem terminal_zero : terminal 0 = false := by decide
theorem terminal_PUBREC : terminal tPUBREC = false := by decide
theorem terminal_PUBACK : terminal tPUBACK = true := by decide
theorem terminal_PUBCOMP : terminal tPUBCOMP = true := by decide
theorem terminal_SUBACK : terminal tSUBACK = true := by decide
theorem terminal_UNSUBACK : terminal tUNSUBACK = true := by decide
theorem terminal_PUBREL : terminal tPUBREL = true := by decide

/-- the released prefix after a terminal acknowledgement `t` for `id`: the longest prefix of
requests each of which either was terminal already or is the one acknowledged now -/
theorem takeWhile_ack (q : Queue) (t id : Nat) (codes : List Nat) (ht : terminal t = true) :
    ((q.ack t id codes).takeWhile (fun e => terminal e.state)).map key =
      (q.takeWhile (fun e => terminal e.state || e.id == id)).map key := by
  induction q with
  | nil => rfl
  | cons e q ih =>
    unfold Queue.ack at ih ⊢
    rw [List.map_cons, List.takeWhile_cons, List.takeWhile_cons]
    by_cases he : (e.id == id) = true
    · simp only [he, ↓reduceIte, ht, Bool.or_true, List.map_cons, ih]
      rfl
    · have he' : (e.id == id) = false := by simpa using he
      simp only [he', Bool.false_eq_true, ↓reduceIte, Bool.or_false]
      cases terminal e.state with
      | true => simp only [↓reduceIte, List.map_cons, ih]
      | false => simp only [Bool.false_eq_true, ↓reduceIte]

theorem ackedQueue_isSome (k : Kind) (c : C) (p : Packet) : (ackedQueue k c p).isSome = (termId k p).isSome := by
  cases k <;> cases p <;> rfl

theorem peerReleased_char (k : Kind) (c : C) (p : Packet) (id : Nat) (h : termId k p = some id) :
    (peerReleased k c p).map key =
      ((queue k c).takeWhile (fun e => terminal e.state || e.id == id)).map key := by
  cases k <;> cases p <;> simp [termId] at h <;> subst h <;>
    simp only [peerReleased, ackedQueue, Queue.acked, queue]
  · exact takeWhile_ack _ _ _ _ terminal_PUBACK
  · exact takeWhile_ack _ _ _ _ terminal_PUBCOMP
  · exact takeWhile_ack _ _ _ _ terminal_SUBACK
  · exact takeWhile_ack _ _ _ _ terminal_UNSUBACK

theorem peer_queue_acked (k : Kind) (c : C) (p : Packet) (q : Queue) (h : ackedQueue k c p = some q) :
    queue k (peer c p).1 = q.acked.1 := by
  cases k <;> cases p <;> simp [ackedQueue] at h <;> subst h
  · rfl
  · rfl
  · simp only [peer]; rw [(foldDone_frame subscribeDone subscribeDone_frame _ _).queue]; rfl
  · simp only [peer]; rw [(foldDone_frame unsubscribeDone unsubscribeDone_frame _ _).queue]; rfl

theorem peer_queue_pubrec (c : C) (id : Nat) : queue .pub2 (peer c (.pubrec id)).1 = c.pub2out.ack tPUBREC id := rfl

/-- every other (queue, packet) pair: the queue is untouched -/
theorem peer_queue_other (k : Kind) (c : C) (p : Packet) (h : termId k p = none)
    (h2 : k = .pub2 → ∀ id, p ≠ .pubrec id) : queue k (peer c p).1 = queue k c := by
  cases p with
  | publish pub =>
    simp only [peer]
    by_cases hq2 : pub.qos = 2
    · cases k <;> simp [hq2, queue]
    · by_cases hq1 : pub.qos = 1 <;> cases k <;> simp [hq2, hq1, queue]
  | pubrec id =>
    cases k with
    | pub2 => exact absurd rfl (h2 rfl id)
    | _ => rfl
  | suback id codes =>
    simp only [peer]
    rw [(foldDone_frame subscribeDone subscribeDone_frame _ _).queue]
    cases k <;> simp [termId] at h <;> rfl
  | unsuback id =>
    simp only [peer]
    rw [(foldDone_frame unsubscribeDone unsubscribeDone_frame _ _).queue]
    cases k <;> simp [termId] at h <;> rfl
  | pingresp => cases k <;> rfl
  | puback id => cases k <;> simp [termId] at h <;> rfl
  | pubcomp id => cases k <;> simp [termId] at h <;> rfl
  | pubrel id => cases k <;> rfl
  | connack sp code => rfl
  | subscribe id ts => rfl
  | unsubscribe id ts => rfl
  | pingreq => rfl
  | disconnect => rfl
  | connectAgain => rfl

/-- the oldest request of every queue is not terminal: completions are never held back -/
def Eager (c : C) : Prop := ∀ k e, (queue k c).head? = some e → terminal e.state = false

theorem eager_init : Eager init := by
  intro k e h
  cases k <;> simp [init, queue] at h

theorem head_append_of_head {α} (l m : List α) (e : α) (h : (l ++ m).head? = some e) :
    l.head? = some e ∨ (l = [] ∧ m.head? = some e) := by
  cases l with
  | nil => exact Or.inr ⟨rfl, by simpa using h⟩
  | cons a l => exact Or.inl (by simpa using h)

theorem regAccepted_state (k : Kind) (c : C) (call : Api) : ∀ r ∈ regAccepted k c call, r.state = 0 := by
  intro r hr
  unfold regAccepted at hr
  cases hq : reqOf k call with
  | none => simp [hq] at hr
  | some r0 =>
    simp only [hq] at hr
    split at hr
    · simp at hr
    · have : r = r0 := by simpa using hr
      subst this
      cases k <;> cases call <;> simp [reqOf] at hq
      · obtain ⟨_, rfl⟩ := hq; rfl
      · obtain ⟨_, _, rfl⟩ := hq; rfl
      · subst hq; rfl
      · subst hq; rfl

theorem eager_apiRegister (c : C) (call : Api) (h : Eager c) : Eager (apiRegister c call).1 := by
  intro k e he
  rw [apiRegister_queue] at he
  rcases head_append_of_head _ _ _ he with h1 | ⟨_, h2⟩
  · exact h k e h1
  · have := regAccepted_state k c call e (List.mem_of_mem_head? h2)
    rw [this]; exact terminal_zero

theorem eager_apiWrite (c : C) (call : Api) (h : Eager c) : Eager (apiWrite c call).1 := by
  intro k e he
  rw [apiWrite_queue] at he
  exact h k e he

theorem eager_peer (c : C) (p : Packet) (h : Eager c) : Eager (peer c p).1 := by
  intro k e he
  cases ha : ackedQueue k c p with
  | some q =>
    rw [peer_queue_acked k c p q ha] at he
    have := List.head?_dropWhile_not (fun e => terminal e.state) q
    simp only [Queue.acked] at he
    rw [he] at this
    simpa using this
  | none =>
    have ht : termId k p = none := by
      have := ackedQueue_isSome k c p
      rw [ha] at this
      cases h' : termId k p with
      | none => rfl
      | some x => rw [h'] at this; cases this
    by_cases hp : k = .pub2 ∧ ∃ id, p = .pubrec id
    · obtain ⟨rfl, id, rfl⟩ := hp
      rw [peer_queue_pubrec] at he
      simp only [Queue.ack] at he
      cases hq : c.pub2out with
      | nil => simp [hq] at he
      | cons a rest =>
        simp only [hq, List.map_cons, List.head?_cons, Option.some.injEq] at he
        have ha' : terminal a.state = false := h .pub2 a (by simp [queue, hq])
        by_cases hid : (a.id == id) = true
        · simp only [hid, ↓reduceIte] at he
          rw [← he]; exact terminal_PUBREC
        · have hid' : (a.id == id) = false := by simpa using hid
          simp only [hid', Bool.false_eq_true, ↓reduceIte] at he
          rw [← he]; exact ha'
    · rw [peer_queue_other k c p ht (by
        intro hk id hpe
        exact hp ⟨hk, id, hpe⟩)] at he
      exact h k e he

theorem eager_step (c : C) (ev : Ev) (h : Eager c) : Eager (step c ev).1 := by
  by_cases hc : c.connected = true
  · cases ev with
    | connect a =>
      cases a with
      | connack sp code =>
        simp only [step, connect]
        split
        · intro k e he; exact h k e (by cases k <;> exact he)
        · exact h
      | _ => exact h
    | api call => rw [step_api c hc]; exact eager_apiRegister _ _ (eager_apiWrite _ _ h)
    | peer p => rw [step_peer c hc]; exact eager_peer _ _ h
    | apiEarlyAck call ack =>
      simp only [step, hc, Bool.not_true, Bool.false_eq_true, ↓reduceIte]
      exact eager_peer _ _ (eager_apiRegister _ _ (eager_apiWrite _ _ h))
  · have hc' : c.connected = false := by simpa using hc
    cases ev with
    | connect a =>
      cases a with
      | connack sp code =>
        simp only [step, connect]
        split
        · intro k e he; exact h k e (by cases k <;> exact he)
        · exact h
      | _ => exact h
    | _ => simp only [step, hc', Bool.not_false, ↓reduceIte]; exact h

theorem eager_run (c : C) (evs : List Ev) (h : Eager c) : Eager (runState c evs) := by
  induction evs generalizing c with
  | nil => exact h
  | cons ev evs ih => exact ih _ (eager_step c ev h)

/-- the terminal acknowledgement of kind `k` an event delivers, if any -/
def evAck (k : Kind) : Ev → Option Nat
  | .peer p => termId k p
  | .apiEarlyAck _ p => termId k p
  | _ => none

theorem ackedQueue_eq (k : Kind) (c : C) (p : Packet) (q : Queue) (h : ackedQueue k c p = some q) :
    ∃ t id codes, q = (queue k c).ack t id codes ∧ termId k p = some id := by
  cases k <;> cases p <;> simp [ackedQueue] at h <;> subst h
  · exact ⟨_, _, [], rfl, rfl⟩
  · exact ⟨_, _, [], rfl, rfl⟩
  · exact ⟨_, _, _, rfl, rfl⟩
  · exact ⟨_, _, [], rfl, rfl⟩

theorem mem_ack (q : Queue) (t id : Nat) (codes : List Nat) (r : Req) (h : r ∈ q.ack t id codes) :
    ∃ e ∈ q, key e = key r ∧ ((e.id = id ∧ r.state = t) ∨ r = e) := by
  simp only [Queue.ack, List.mem_map] at h
  obtain ⟨e, he, hr⟩ := h
  refine ⟨e, he, ?_⟩
  by_cases hid : (e.id == id) = true
  · simp only [hid, ↓reduceIte] at hr
    subst hr
    exact ⟨rfl, Or.inl ⟨by simpa using hid, rfl⟩⟩
  · have hid' : (e.id == id) = false := by simpa using hid
    simp only [hid', Bool.false_eq_true, ↓reduceIte] at hr
    subst hr
    exact ⟨rfl, Or.inr rfl⟩

theorem peer_terminal_origin (k : Kind) (c : C) (p : Packet) (r : Req) (hr : r ∈ queue k (peer c p).1)
    (ht : terminal r.state = true) :
    (∃ r0 ∈ queue k c, key r0 = key r ∧ r0.state = r.state) ∨ termId k p = some r.id := by
  cases ha : ackedQueue k c p with
  | some q =>
    rw [peer_queue_acked k c p q ha] at hr
    obtain ⟨t, id, codes, rfl, hid⟩ := ackedQueue_eq k c p q ha
    have hr' : r ∈ (queue k c).ack t id codes := (List.dropWhile_sublist _).subset hr
    obtain ⟨e, he, hk, h | h⟩ := mem_ack _ _ _ _ _ hr'
    · right
      have : r.id = e.id := by
        have := congrArg (·.1) hk
        exact this.symm
      rw [hid, this, h.1]
    · left; exact ⟨e, he, hk, by rw [h]⟩
  | none =>
    have hti : termId k p = none := by
      have := ackedQueue_isSome k c p
      rw [ha] at this
      cases h' : termId k p with
      | none => rfl
      | some x => rw [h'] at this; cases this
    by_cases hp : k = .pub2 ∧ ∃ id, p = .pubrec id
    · obtain ⟨rfl, id, rfl⟩ := hp
      rw [peer_queue_pubrec] at hr
      obtain ⟨e, he, hk, h | h⟩ := mem_ack _ _ _ _ _ hr
      · rw [h.2, terminal_PUBREC] at ht; cases ht
      · left; exact ⟨e, he, hk, by rw [h]⟩
    · rw [peer_queue_other k c p hti (by
        intro hk id hpe
        exact hp ⟨hk, id, hpe⟩)] at hr
      left; exact ⟨r, hr, rfl, rfl⟩

theorem apiRegister_terminal_origin (k : Kind) (c : C) (call : Api) (r : Req)
    (hr : r ∈ queue k (apiRegister c call).1) (ht : terminal r.state = true) : r ∈ queue k c := by
  rw [apiRegister_queue, List.mem_append] at hr
  rcases hr with h | h
  · exact h
  · rw [regAccepted_state k c call r h, terminal_zero] at ht; cases ht

/-- a request is in a terminal state only through the terminal acknowledgement bearing its own identifier -/
theorem step_terminal_origin (k : Kind) (c : C) (ev : Ev) (r : Req) (hr : r ∈ queue k (step c ev).1)
    (ht : terminal r.state = true) :
    (∃ r0 ∈ queue k c, key r0 = key r ∧ r0.state = r.state) ∨ evAck k ev = some r.id := by
  by_cases hc : c.connected = true
  · cases ev with
    | connect a =>
      left
      refine ⟨r, ?_, rfl, rfl⟩
      cases a with
      | connack sp code =>
        simp only [step, connect] at hr
        split at hr
        · cases k <;> exact hr
        · exact hr
      | _ => exact hr
    | api call =>
      rw [step_api c hc] at hr
      have := apiRegister_terminal_origin k _ _ r hr ht
      rw [apiWrite_queue] at this
      exact Or.inl ⟨r, this, rfl, rfl⟩
    | peer p =>
      rw [step_peer c hc] at hr
      exact peer_terminal_origin k c p r hr ht
    | apiEarlyAck call ack =>
      simp only [step, hc, Bool.not_true, Bool.false_eq_true, ↓reduceIte] at hr
      rcases peer_terminal_origin k _ ack r hr ht with ⟨r0, hr0, hk, hs⟩ | h2
      · have h1 := apiRegister_terminal_origin k _ _ r0 hr0 (by rw [hs]; exact ht)
        rw [apiWrite_queue] at h1
        exact Or.inl ⟨r0, h1, hk, hs⟩
      · exact Or.inr h2
  · have hc' : c.connected = false := by simpa using hc
    left
    refine ⟨r, ?_, rfl, rfl⟩
    cases ev with
    | connect a =>
      cases a with
      | connack sp code =>
        simp only [step, connect] at hr
        split at hr
        · cases k <;> exact hr
        · exact hr
      | _ => exact hr
    | _ => simpa [step, hc'] using hr

/-! ### the ping FIFO -/

/-- tags of the ping requests in flight, oldest first -/
def pingTags (c : C) : List Nat := c.pings.map (·.2)

def pingFiredStep (c : C) : Ev → List Nat
  | .peer .pingresp => doneTags (step c (.peer .pingresp)).2
  | .apiEarlyAck call .pingresp => doneTags (step (step c (.api call)).1 (.peer .pingresp)).2
  | _ => []

def pingFired (c : C) : List Ev → List Nat
  | [] => []
  | ev :: evs => pingFiredStep c ev ++ pingFired (step c ev).1 evs

def pingRequested : List Ev → List Nat
  | [] => []
  | .api (.ping tag) :: evs => tag :: pingRequested evs
  | .apiEarlyAck (.ping tag) _ :: evs => tag :: pingRequested evs
  | _ :: evs => pingRequested evs

theorem pingAck_tags (l : List (Nat × Nat)) : (pingAck l).map (·.2) = l.map (·.2) := by
  induction l with
  | nil => rfl
  | cons e l ih =>
    simp only [pingAck]
    split
    · rfl
    · simp only [List.map_cons, ih]

theorem pingAcked_conservation (l : List (Nat × Nat)) : (pingAcked l).2 ++ (pingAcked l).1 = l := by
  simp [pingAcked, List.takeWhile_append_dropWhile]

theorem flatMap_completeOut_doneTags_pairs (rs : List (Nat × Nat)) :
    doneTags (rs.flatMap (fun e => completeOut e.2 false)) = nz (rs.map (·.2)) := by
  induction rs with
  | nil => rfl
  | cons r rs ih =>
    simp only [List.flatMap_cons, doneTags_append, doneTags_completeOut, ih, List.map_cons]
    exact (nz_cons _ _).symm

theorem peer_pings (c : C) (p : Packet) (h : p ≠ .pingresp) : (peer c p).1.pings = c.pings := by
  cases p with
  | publish pub =>
    simp only [peer]
    by_cases h2 : pub.qos = 2
    · simp [h2]
    · by_cases h1 : pub.qos = 1 <;> simp [h2, h1]
  | suback id codes =>
    simp only [peer]
    rw [(foldDone_frame subscribeDone subscribeDone_frame _ _).pings]
  | unsuback id =>
    simp only [peer]
    rw [(foldDone_frame unsubscribeDone unsubscribeDone_frame _ _).pings]
  | pingresp => exact absurd rfl h
  | _ => rfl

theorem peer_pingresp (c : C) :
    peer c .pingresp = ({ c with pings := (pingAcked (pingAck c.pings)).1 },
      (pingAcked (pingAck c.pings)).2.flatMap (fun e => completeOut e.2 false)) := rfl

theorem apiWrite_pings (c : C) (call : Api) : (apiWrite c call).1.pings = c.pings := by
  cases call with
  | publish p tag =>
    simp only [apiWrite, assignId]
    by_cases h0 : (p.qos == 0) = true
    · simp [h0]
    · by_cases hi : (p.pktid == 0) = true <;> simp [h0, hi]
  | subscribe id topics tag cb =>
    simp only [apiWrite, assignId]
    by_cases hi : (id == 0) = true <;> simp [hi]
  | unsubscribe id topics tag =>
    simp only [apiWrite, assignId]
    by_cases hi : (id == 0) = true <;> simp [hi]
  | ping tag => rfl

theorem apiRegister_pings (c : C) (call : Api) (h : ∀ tag, call ≠ .ping tag) : (apiRegister c call).1.pings = c.pings := by
  cases call with
  | publish p tag =>
    simp only [apiRegister]
    by_cases h0 : p.qos = 0
    · simp [h0]
    · by_cases h1 : p.qos = 1 <;> simp [h0, h1]
  | ping tag => exact absurd rfl (h tag)
  | _ => rfl

theorem apiWrite_snd_ping (c : C) (call : Api) (h : ∀ tag, call ≠ .ping tag) : ∀ tag, (apiWrite c call).2.2 ≠ .ping tag := by
  intro tag
  cases call with
  | publish p tag' =>
    simp only [apiWrite]
    split <;> simp
  | ping tag' => exact absurd rfl (h tag')
  | _ => simp [apiWrite]

theorem connect_pings (c : C) (a : Answer) : (connect c a).1.pings = c.pings := by
  cases a with
  | connack sp code => simp only [connect]; split <;> rfl
  | _ => rfl

/-- one event: the completions fired by a PINGRESP followed by the pings still in flight are the
pings that were in flight followed by the ping the event requests - for *every* number of
outstanding pings -/
theorem step_ping_conservation_basic (c : C) (ev : Ev) (hc : c.connected = true) (he : isEarly ev = false) :
    pingFiredStep c ev ++ nz (pingTags (step c ev).1) =
      nz (pingTags c) ++ nz (pingRequested [ev]) := by
  cases ev with
  | connect a =>
    have : (step c (.connect a)).1.pings = c.pings := connect_pings c a
    simp [pingFiredStep, pingRequested, pingTags, this, nz]
  | api call =>
    by_cases hpg : ∃ tag, call = .ping tag
    · obtain ⟨tag, rfl⟩ := hpg
      simp [step, hc, apiWrite, apiRegister, pingFiredStep, pingRequested, pingTags, nz]
    · have hpg' : ∀ tag, call ≠ .ping tag := fun tag h => hpg ⟨tag, h⟩
      have : (step c (.api call)).1.pings = c.pings := by
        rw [step_api c hc, apiRegister_pings _ _ (apiWrite_snd_ping c call hpg'), apiWrite_pings]
      have hr : pingRequested [Ev.api call] = [] := by
        cases call with
        | ping tag => exact absurd rfl (hpg' tag)
        | _ => rfl
      simp [pingFiredStep, hr, pingTags, this, nz]
  | peer p =>
    by_cases hpr : p = .pingresp
    · subst hpr
      simp only [pingFiredStep, pingRequested, List.append_nil]
      rw [step_peer c hc, peer_pingresp]
      simp only [pingTags, flatMap_completeOut_doneTags_pairs]
      rw [← nz_append, ← List.map_append, pingAcked_conservation, pingAck_tags]
      simp [nz]
    · have : (step c (.peer p)).1.pings = c.pings := by rw [step_peer c hc, peer_pings c p hpr]
      have hf : pingFiredStep c (.peer p) = [] := by
        cases p with
        | pingresp => exact absurd rfl hpr
        | _ => rfl
      simp [hf, pingRequested, pingTags, this, nz]
  | apiEarlyAck call ack => simp [isEarly] at he

/-- … the composite event included: the call, then the packet -/
theorem step_ping_conservation (c : C) (ev : Ev) (hc : c.connected = true) :
    pingFiredStep c ev ++ nz (pingTags (step c ev).1) =
      nz (pingTags c) ++ nz (pingRequested [ev]) := by
  cases ev with
  | apiEarlyAck call ack =>
    have hc1 : (step c (.api call)).1.connected = true := step_connected c (.api call) hc
    have h1 := step_ping_conservation_basic c (.api call) hc rfl
    have h2 := step_ping_conservation_basic (step c (.api call)).1 (.peer ack) hc1 rfl
    have hf1 : pingFiredStep c (.api call) = [] := rfl
    have hr2 : pingRequested [Ev.peer ack] = [] := rfl
    have hfe : pingFiredStep c (.apiEarlyAck call ack) = pingFiredStep (step c (.api call)).1 (.peer ack) := by
      cases ack <;> rfl
    have hre : pingRequested [Ev.apiEarlyAck call ack] = pingRequested [Ev.api call] := by
      cases call <;> rfl
    rw [hf1, List.nil_append] at h1
    rw [hr2] at h2
    rw [step_early, hfe, hre, h2, h1]
    simp [nz]
  | connect a => exact step_ping_conservation_basic c _ hc rfl
  | api call => exact step_ping_conservation_basic c _ hc rfl
  | peer p => exact step_ping_conservation_basic c _ hc rfl

theorem pingRequested_cons (ev : Ev) (evs : List Ev) :
    pingRequested (ev :: evs) = pingRequested [ev] ++ pingRequested evs := by
  cases ev with
  | api call => cases call <;> rfl
  | apiEarlyAck call ack => cases call <;> rfl
  | _ => rfl

theorem run_ping_conservation (c : C) (evs : List Ev) (hc : c.connected = true) :
    pingFired c evs ++ nz (pingTags (runState c evs)) = nz (pingTags c) ++ nz (pingRequested evs) := by
  induction evs generalizing c with
  | nil => simp [pingFired, pingRequested, runState, nz]
  | cons ev evs ih =>
    have h1 := step_ping_conservation c ev hc
    have h2 := ih (step c ev).1 (step_connected c ev hc)
    rw [runState_cons, pingRequested_cons]
    simp only [pingFired, nz_append, List.append_assoc]
    rw [h2, ← List.append_assoc, h1, List.append_assoc]

/-- no ping in flight carries a PINGRESP: `processIncoming` collects (`Acked`) right after it
acknowledges (`Ack`), so between two events every queued ping is still waiting -/
def PingsWaiting (c : C) : Prop := ∀ e ∈ c.pings, e.1 ≠ tPINGRESP

theorem pingsWaiting_init : PingsWaiting init := by intro e he; cases he

/-- with every queued ping waiting, a PINGRESP takes the oldest one out and hands back exactly it -/
theorem pingAcked_pingAck_waiting (l : List (Nat × Nat)) (h : ∀ e ∈ l, e.1 ≠ tPINGRESP) :
    pingAcked (pingAck l) = (l.tail, (l.head?.map (fun e => (tPINGRESP, e.2))).toList) := by
  cases l with
  | nil => rfl
  | cons e l =>
    have he : (e.1 != tPINGRESP) = true := by simpa using h e (by simp)
    have hd : l.dropWhile (fun e => e.1 == tPINGRESP) = l := by
      cases l with
      | nil => rfl
      | cons a l =>
        have : (a.1 == tPINGRESP) = false := by simpa using h a (by simp)
        simp [List.dropWhile_cons, this]
    have ht : l.takeWhile (fun e => e.1 == tPINGRESP) = [] := by
      cases l with
      | nil => rfl
      | cons a l =>
        have : (a.1 == tPINGRESP) = false := by simpa using h a (by simp)
        simp [List.takeWhile_cons, this]
    simp only [pingAck, he, ↓reduceIte, pingAcked, List.dropWhile_cons, List.takeWhile_cons, BEq.rfl, hd, ht,
      List.tail_cons, List.head?_cons, Option.map_some, Option.toList_some]

theorem peer_pingsWaiting (c : C) (p : Packet) (h : PingsWaiting c) : PingsWaiting (peer c p).1 := by
  by_cases hp : p = .pingresp
  · subst hp
    rw [peer_pingresp, pingAcked_pingAck_waiting c.pings h]
    intro e he
    exact h e (List.mem_of_mem_tail he)
  · unfold PingsWaiting; rw [peer_pings c p hp]; exact h

theorem apiRegister_pingsWaiting (c : C) (call : Api) (h : PingsWaiting c) : PingsWaiting (apiRegister c call).1 := by
  by_cases hpg : ∃ tag, call = .ping tag
  · obtain ⟨tag, rfl⟩ := hpg
    intro e he
    simp only [apiRegister, List.mem_append, List.mem_singleton] at he
    rcases he with he | rfl
    · exact h e he
    · simp [tPINGRESP]
  · unfold PingsWaiting; rw [apiRegister_pings c call (fun tag h => hpg ⟨tag, h⟩)]; exact h

theorem apiWrite_pingsWaiting (c : C) (call : Api) (h : PingsWaiting c) : PingsWaiting (apiWrite c call).1 := by
  unfold PingsWaiting; rw [apiWrite_pings]; exact h

/-- the invariant is inductive over every event (early acknowledgements included) -/
theorem pingsWaiting_step (c : C) (ev : Ev) (h : PingsWaiting c) : PingsWaiting (step c ev).1 := by
  cases ev with
  | connect a => unfold PingsWaiting; rw [show (step c (.connect a)).1 = (connect c a).1 from rfl, connect_pings]; exact h
  | api call =>
    simp only [step]
    split
    · exact h
    · exact apiRegister_pingsWaiting _ _ (apiWrite_pingsWaiting c call h)
  | peer p =>
    simp only [step]
    split
    · exact h
    · exact peer_pingsWaiting c p h
  | apiEarlyAck call ack =>
    simp only [step]
    split
    · exact h
    · exact peer_pingsWaiting _ ack (apiRegister_pingsWaiting _ _ (apiWrite_pingsWaiting c call h))

theorem pingsWaiting_run (c : C) (evs : List Ev) (h : PingsWaiting c) : PingsWaiting (runState c evs) := by
  induction evs generalizing c with
  | nil => exact h
  | cons ev evs ih => exact ih _ (pingsWaiting_step c ev h)

/-- when a ping completion fires: a PINGRESP completes the oldest ping in flight, nothing else; the
younger pings stay in flight, in order -/
theorem pingresp_completes_oldest (c : C) (hc : c.connected = true) (h : PingsWaiting c) :
    doneTags (step c (.peer .pingresp)).2 = nz ((pingTags c).take 1) ∧
    pingTags (step c (.peer .pingresp)).1 = (pingTags c).tail := by
  rw [step_peer c hc, peer_pingresp, pingAcked_pingAck_waiting c.pings h]
  simp only [flatMap_completeOut_doneTags_pairs, pingTags]
  cases c.pings with
  | nil => exact ⟨rfl, rfl⟩
  | cons e l => exact ⟨rfl, rfl⟩

/-! ### when exactly a completion fires -/

theorem peer_doneTags_char (k : Kind) (c : C) (hc : c.connected = true) (p : Packet) (id : Nat)
    (h : termId k p = some id) :
    doneTags (step c (.peer p)).2 =
      nz (((queue k c).takeWhile (fun e => terminal e.state || e.id == id)).map (·.tag)) := by
  rw [step_peer c hc, peer_doneTags k c p (by simp [h])]
  have := congrArg (List.map (fun x => x.2.1)) (peerReleased_char k c p id h)
  simp only [map_key_tag] at this
  rw [this]

theorem takeWhile_prefix {α} (p : α → Bool) (pre rest : List α) (h : ∀ e ∈ pre, p e = true) :
    (pre ++ rest).takeWhile p = pre ++ rest.takeWhile p := by
  induction pre with
  | nil => rfl
  | cons a pre ih =>
    have ha : p a = true := h a (by simp)
    simp only [List.cons_append, List.takeWhile_cons, ha, ↓reduceIte]
    rw [ih (fun e he => h e (by simp [he]))]

theorem peer_fires_no_later (k : Kind) (c : C) (hc : c.connected = true) (p : Packet) (id : Nat)
    (h : termId k p = some id) (pre post : List Req) (r : Req) (hq : queue k c = pre ++ r :: post)
    (hpre : ∀ e ∈ pre, terminal e.state = true ∨ e.id = id) (hr : terminal r.state = true ∨ r.id = id) :
    ∃ rest, doneTags (step c (.peer p)).2 = nz (pre.map (·.tag)) ++ nz [r.tag] ++ rest := by
  rw [peer_doneTags_char k c hc p id h, hq]
  have h1 : ∀ e ∈ pre ++ [r], (terminal e.state || e.id == id) = true := by
    intro e he
    simp only [List.mem_append, List.mem_singleton] at he
    rcases he with he | rfl
    · rcases hpre e he with h | h <;> simp [h]
    · rcases hr with h | h <;> simp [h]
  have : pre ++ r :: post = (pre ++ [r]) ++ post := by simp
  rw [this, takeWhile_prefix _ _ _ h1]
  refine ⟨nz ((post.takeWhile (fun e => terminal e.state || e.id == id)).map (·.tag)), ?_⟩
  simp only [List.map_append, List.map_cons, List.map_nil, nz_append, List.append_assoc]

theorem map_key_id_tag (l : List Req) : (l.map key).map (fun x => (x.1, x.2.1)) = l.map (fun r => (r.id, r.tag)) := by
  simp [key, List.map_map, Function.comp_def]

/-- the ordinary interleaving: the call returns (request registered), then its terminal
acknowledgement is processed - with nothing else in the queue the completion fires in that step -/
theorem completes_after_return (c : C) (call : Api) (k : Kind) (id tag : Nat) (ack : Packet)
    (hc : c.connected = true) (hreq : callReq call = some (k, id, tag)) (hid : id ≠ 0)
    (hq : queue k c = []) (ht : termId k ack = some id) :
    doneTags (step (step c (.api call)).1 (.peer ack)).2 = nz [tag] := by
  have hf : freshStep c (.api call) = true := by
    simp [freshStep, hreq, hq, hid]
  have h1 := stepAccepted_fresh_id k c call hc hf
  simp only [hreq, ↓reduceIte] at h1
  have h2 := congrArg (List.map (fun x => (x.1, x.2.1))) (step_conservation k c (.api call))
  simp only [stepReleased, List.nil_append, hq, map_key_id_tag, h1] at h2
  rw [peer_doneTags_char k _ (step_connected c _ hc) ack id ht]
  cases hq1 : queue k (step c (.api call)).1 with
  | nil => simp [hq1] at h2
  | cons r rest =>
    simp only [hq1, List.map_cons, List.cons.injEq, Prod.mk.injEq, List.map_eq_nil_iff] at h2
    obtain ⟨⟨hrid, hrtag⟩, hrest⟩ := h2
    subst hrest
    simp [List.takeWhile_cons, hrid, hrtag]

/-! ### inbound QoS 2 -/

theorem runOuts_append (c : C) (a b : List Ev) : runOuts c (a ++ b) = runOuts c a ++ runOuts (runState c a) b := by
  induction a generalizing c with
  | nil => rfl
  | cons ev a ih => simp [runOuts, runState_cons, ih]

theorem peer_publish2 (c : C) (p : Pub) (hq : p.qos = 2) :
    peer c (.publish p) =
      ({ c with pub2in := c.pub2in.wait { id := p.pktid, pub := some p } }, [.wrote (.pubrec p.pktid)]) := by
  simp [peer, hq]

theorem wait_dup (q : Queue) (r : Req) (h : ∃ e ∈ q, e.id = r.id) : q.wait r = q := by
  obtain ⟨e, he, hid⟩ := h
  have : q.any (fun e => e.id == r.id) = true := List.any_eq_true.mpr ⟨e, he, by simpa using hid⟩
  simp [Queue.wait, this]

/-- a QoS 2 PUBLISH whose identifier is already open changes nothing and is only answered by PUBREC -/
theorem peer_publish2_dup (c : C) (p : Pub) (hq : p.qos = 2) (h : ∃ e ∈ c.pub2in, e.id = p.pktid) :
    peer c (.publish p) = (c, [.wrote (.pubrec p.pktid)]) := by
  rw [peer_publish2 c p hq, wait_dup c.pub2in _ h]

theorem run_dups (c : C) (hc : c.connected = true) (id : Nat) (h : ∃ e ∈ c.pub2in, e.id = id) (dups : List Pub)
    (hd : ∀ d ∈ dups, d.qos = 2 ∧ d.pktid = id) :
    runState c (dups.map (fun d => Ev.peer (.publish d))) = c ∧
    runOuts c (dups.map (fun d => Ev.peer (.publish d))) = dups.map (fun _ => [Out.wrote (.pubrec id)]) := by
  induction dups with
  | nil => exact ⟨rfl, rfl⟩
  | cons d dups ih =>
    obtain ⟨hq, hid⟩ := hd d (by simp)
    have hs : step c (.peer (.publish d)) = (c, [.wrote (.pubrec id)]) := by
      rw [step_peer c hc, peer_publish2_dup c d hq (by rw [hid]; exact h), hid]
    have ih' := ih (fun x hx => hd x (by simp [hx]))
    simp only [List.map_cons, runState_cons, runOuts, hs, ih'.1, ih'.2, and_self]

theorem onPublish_congr (c c' : C) (h : c'.topics = c.topics) (p : Pub) : onPublish c' p = onPublish c p := by
  simp [onPublish, h]

/-- one whole inbound QoS 2 exchange, with any number of repeated PUBLISHes, on an empty receive queue -/
theorem qos2_exchange (c : C) (hc : c.connected = true) (he : c.pub2in = []) (p : Pub) (hq : p.qos = 2)
    (dups : List Pub) (hd : ∀ d ∈ dups, d.qos = 2 ∧ d.pktid = p.pktid) :
    runOuts c (.peer (.publish p) :: dups.map (fun d => Ev.peer (.publish d)) ++ [.peer (.pubrel p.pktid)]) =
      [.wrote (.pubrec p.pktid)] :: dups.map (fun _ => [Out.wrote (.pubrec p.pktid)]) ++
        [onPublish c p ++ [.wrote (.pubcomp p.pktid)]] ∧
    runState c (.peer (.publish p) :: dups.map (fun d => Ev.peer (.publish d)) ++ [.peer (.pubrel p.pktid)]) = c := by
  have h1 : step c (.peer (.publish p)) =
      ({ c with pub2in := [{ id := p.pktid, pub := some p }] }, [.wrote (.pubrec p.pktid)]) := by
    rw [step_peer c hc, peer_publish2 c p hq, he]; rfl
  let c1 : C := { c with pub2in := [{ id := p.pktid, pub := some p }] }
  have hc1 : c1.connected = true := hc
  have hopen : ∃ e ∈ c1.pub2in, e.id = p.pktid := ⟨_, List.mem_singleton.mpr rfl, rfl⟩
  obtain ⟨d1, d2⟩ := run_dups c1 hc1 p.pktid hopen dups hd
  have h3 : step c1 (.peer (.pubrel p.pktid)) = (c, onPublish c p ++ [.wrote (.pubcomp p.pktid)]) := by
    rw [step_peer c1 hc1]
    have hacked : (Queue.ack c1.pub2in tPUBREL p.pktid).acked =
        ([], [{ id := p.pktid, state := tPUBREL, pub := some p }]) := by
      simp [c1, Queue.ack, Queue.acked, terminal_PUBREL, List.takeWhile_cons, List.dropWhile_cons]
    simp only [peer, hacked, List.flatMap_cons, List.flatMap_nil, List.append_nil]
    have hcc : ({ c1 with pub2in := [] } : C) = c := by
      simp only [c1]; rw [← he]
    rw [hcc]
  constructor
  · rw [List.cons_append, runOuts, h1]
    show _ :: runOuts c1 _ = _
    rw [runOuts_append, d1, d2]
    simp only [runOuts, h3, List.cons_append]
  · rw [List.cons_append, runState_cons, h1]
    show runState c1 _ = _
    rw [runState_append, d1]
    simp only [runState, List.foldl_cons, List.foldl_nil, h3]

/-! ### packet identifiers -/

/-- the identifier `Encode` puts into a request: the caller's, or the next identifier of the
process-wide counter (`nextPacketID`: 0 is skipped) -/
def assigned (c : C) (id : Nat) : Nat := if id = 0 then (Mqtt.Model.Broker.nextPacketID c.ctr).1 else id

/-- `nextPacketID` in closed form: the identifier is the new counter value modulo 2^16, never 0,
and the counter advances by 1, or by 2 when its low 16 bits pass 0 -/
theorem nextPacketID_spec (ctr : Nat) :
    (Mqtt.Model.Broker.nextPacketID ctr).1 = (Mqtt.Model.Broker.nextPacketID ctr).2 % 65536 ∧
    (Mqtt.Model.Broker.nextPacketID ctr).1 ≠ 0 ∧ (Mqtt.Model.Broker.nextPacketID ctr).1 < 65536 ∧
    ((Mqtt.Model.Broker.nextPacketID ctr).2 = ctr + 1 ∨
      ((ctr + 1) % 65536 = 0 ∧ (Mqtt.Model.Broker.nextPacketID ctr).2 = ctr + 2)) := by
  unfold Mqtt.Model.Broker.nextPacketID
  by_cases h : (ctr + 1) % 65536 = 0
  · rw [if_neg (by simpa using h)]
    refine ⟨rfl, ?_, ?_, Or.inr ⟨h, rfl⟩⟩ <;> dsimp only <;> omega
  · rw [if_pos h]
    refine ⟨rfl, ?_, ?_, Or.inl rfl⟩ <;> dsimp only <;> omega

/-- the identifier a request is written with is never 0: a caller-supplied identifier is
non-zero by definition (0 = none supplied), an assigned one by `nextPacketID` -/
theorem assigned_ne_zero (c : C) (id : Nat) : assigned c id ≠ 0 := by
  unfold assigned
  by_cases h : id = 0
  · simp only [h, ↓reduceIte]; exact (nextPacketID_spec c.ctr).2.1
  · simp only [h, ↓reduceIte]; exact h

/-- identifier of a written PUBLISH (QoS > 0), SUBSCRIBE or UNSUBSCRIBE -/
def writtenId : Out → Option Nat
  | .wrote (.publish p) => if p.qos == 0 then none else some p.pktid
  | .wrote (.subscribe id _) => some id
  | .wrote (.unsubscribe id _) => some id
  | _ => none

theorem assignId_snd (c : C) (id : Nat) : (assignId c id).2 = assigned c id := by
  unfold assignId assigned
  by_cases h : id = 0
  · subst h; rfl
  · have : (id == 0) = false := by simpa using h
    simp [this, h]

/-- the request is written with the assigned identifier and registered under the same one -/
theorem apiWrite_ids (c : C) (call : Api) (k : Kind) (id tag : Nat) (h : callReq call = some (k, id, tag)) :
    (apiWrite c call).2.1.filterMap writtenId = [assigned c id] ∧
    callReq (apiWrite c call).2.2 = some (k, assigned c id, tag) := by
  cases call with
  | publish p tag' =>
    simp only [callReq] at h
    by_cases h0 : (p.qos == 0) = true
    · simp [h0] at h
    · have h0' : (p.qos == 0) = false := by simpa using h0
      simp only [h0', Bool.false_eq_true, ↓reduceIte] at h
      by_cases h1 : (p.qos == 1) = true
      · simp only [h1, ↓reduceIte, Option.some.injEq, Prod.mk.injEq] at h
        obtain ⟨rfl, rfl, rfl⟩ := h
        simp [apiWrite, h0', writtenId, callReq, h1, assignId_snd]
      · have h1' : (p.qos == 1) = false := by simpa using h1
        simp only [h1', Bool.false_eq_true, ↓reduceIte, Option.some.injEq, Prod.mk.injEq] at h
        obtain ⟨rfl, rfl, rfl⟩ := h
        simp [apiWrite, h0', writtenId, callReq, h1', assignId_snd]
  | subscribe id' topics tag' cb =>
    simp only [callReq, Option.some.injEq, Prod.mk.injEq] at h
    obtain ⟨rfl, rfl, rfl⟩ := h
    simp [apiWrite, writtenId, callReq, assignId_snd]
  | unsubscribe id' topics tag' =>
    simp only [callReq, Option.some.injEq, Prod.mk.injEq] at h
    obtain ⟨rfl, rfl, rfl⟩ := h
    simp [apiWrite, writtenId, callReq, assignId_snd]
  | ping tag' => simp [callReq] at h

theorem regAccepted_ids (k : Kind) (c : C) (call : Api) (r : Req) (hr : r ∈ regAccepted k c call) :
    (∃ tag, callReq call = some (k, r.id, tag)) ∧ ∀ e ∈ queue k c, e.id ≠ r.id := by
  unfold regAccepted at hr
  cases hq : reqOf k call with
  | none => simp [hq] at hr
  | some r0 =>
    simp only [hq] at hr
    split at hr
    · simp at hr
    · rename_i hany
      have : r = r0 := by simpa using hr
      subst this
      refine ⟨?_, ?_⟩
      · cases call with
        | publish p tag' =>
          cases k <;> simp [reqOf] at hq
          · obtain ⟨h1, rfl⟩ := hq; exact ⟨tag', by simp [callReq, h1]⟩
          · obtain ⟨h0, h1, rfl⟩ := hq; exact ⟨tag', by simp [callReq, h0, h1]⟩
        | subscribe id' topics tag' cb =>
          cases k <;> simp [reqOf] at hq
          subst hq; exact ⟨tag', rfl⟩
        | unsubscribe id' topics tag' =>
          cases k <;> simp [reqOf] at hq
          subst hq; exact ⟨tag', rfl⟩
        | ping tag' => cases k <;> simp [reqOf] at hq
      · intro e he hid
        exact hany (List.any_eq_true.mpr ⟨e, he, by simpa using hid⟩)

/-- identifiers within each queue are pairwise distinct -/
def IdsNodup (c : C) : Prop := ∀ k, ((queue k c).map (·.id)).Nodup

/-- identifiers in flight are non-zero -/
def IdsNonzero (c : C) : Prop := ∀ k, ∀ e ∈ queue k c, e.id ≠ 0

theorem map_key_id (l : List Req) : (l.map key).map (·.1) = l.map (·.id) := by
  simp [key, List.map_map, Function.comp_def]

theorem peer_ids_sublist (k : Kind) (c : C) (p : Packet) :
    ((queue k (peer c p).1).map (·.id)).Sublist ((queue k c).map (·.id)) := by
  have := congrArg (List.map (·.1)) (peer_conservation k c p)
  simp only [List.map_append, map_key_id] at this
  rw [← this]
  exact List.sublist_append_right _ _

theorem idsNodup_peer (c : C) (p : Packet) (h : IdsNodup c) : IdsNodup (peer c p).1 :=
  fun k => (h k).sublist (peer_ids_sublist k c p)

theorem idsNodup_apiWrite (c : C) (call : Api) (h : IdsNodup c) : IdsNodup (apiWrite c call).1 := by
  intro k; rw [apiWrite_queue]; exact h k

theorem idsNodup_apiRegister (c : C) (call : Api) (h : IdsNodup c) : IdsNodup (apiRegister c call).1 := by
  intro k
  rw [apiRegister_queue, List.map_append, List.nodup_append]
  refine ⟨h k, ?_, ?_⟩
  · unfold regAccepted
    split
    · split <;> simp
    · simp
  · intro a ha b hb hab
    simp only [List.mem_map] at ha hb
    obtain ⟨e, he, rfl⟩ := ha
    obtain ⟨r, hr, rfl⟩ := hb
    exact (regAccepted_ids k c call r hr).2 e he hab

theorem idsNodup_init : IdsNodup init := by
  intro k; cases k <;> simp [init, queue]

theorem idsNodup_step (c : C) (ev : Ev) (h : IdsNodup c) : IdsNodup (step c ev).1 := by
  by_cases hc : c.connected = true
  · cases ev with
    | connect a =>
      cases a with
      | connack sp code =>
        simp only [step, connect]
        split
        · intro k; have := h k; cases k <;> exact this
        · exact h
      | _ => exact h
    | api call => rw [step_api c hc]; exact idsNodup_apiRegister _ _ (idsNodup_apiWrite _ _ h)
    | peer p => rw [step_peer c hc]; exact idsNodup_peer _ _ h
    | apiEarlyAck call ack =>
      simp only [step, hc, Bool.not_true, Bool.false_eq_true, ↓reduceIte]
      exact idsNodup_peer _ _ (idsNodup_apiRegister _ _ (idsNodup_apiWrite _ _ h))
  · have hc' : c.connected = false := by simpa using hc
    cases ev with
    | connect a =>
      cases a with
      | connack sp code =>
        simp only [step, connect]
        split
        · intro k; have := h k; cases k <;> exact this
        · exact h
      | _ => exact h
    | _ => simp only [step, hc', Bool.not_false, ↓reduceIte]; exact h

theorem idsNodup_run (c : C) (evs : List Ev) (h : IdsNodup c) : IdsNodup (runState c evs) := by
  induction evs generalizing c with
  | nil => exact h
  | cons ev evs ih => exact ih _ (idsNodup_step c ev h)

theorem idsNonzero_peer (c : C) (p : Packet) (h : IdsNonzero c) : IdsNonzero (peer c p).1 := by
  intro k e he
  have hm : e.id ∈ (queue k (peer c p).1).map (·.id) := List.mem_map.mpr ⟨e, he, rfl⟩
  have := (peer_ids_sublist k c p).subset hm
  obtain ⟨e', he', hid⟩ := List.mem_map.mp this
  rw [← hid]; exact h k e' he'

theorem idsNonzero_api (c : C) (call : Api) (h : IdsNonzero c)
    (hok : ∀ k id tag, callReq call = some (k, id, tag) → assigned c id ≠ 0) (c' : C)
    (hq : ∀ k, queue k c' = queue k c) :
    IdsNonzero (apiRegister c' (apiWrite c call).2.2).1 := by
  intro k e he
  rw [apiRegister_queue, List.mem_append] at he
  rcases he with he | he
  · rw [hq] at he; exact h k e he
  · obtain ⟨⟨tag, hreq⟩, _⟩ := regAccepted_ids k c' _ e he
    cases hcr : callReq call with
    | none =>
      exfalso
      cases call with
      | publish p tag' =>
        simp only [callReq] at hcr
        by_cases h0 : (p.qos == 0) = true
        · simp [apiWrite, h0, callReq] at hreq
        · have h0' : (p.qos == 0) = false := by simpa using h0
          simp only [h0', Bool.false_eq_true, ↓reduceIte] at hcr
          split at hcr <;> cases hcr
      | subscribe id' topics tag' cb => cases hcr
      | unsubscribe id' topics tag' => cases hcr
      | ping tag' => simp [apiWrite, callReq] at hreq
    | some x =>
      obtain ⟨k', id, tag'⟩ := x
      have := (apiWrite_ids c call k' id tag' hcr).2
      rw [this] at hreq
      simp only [Option.some.injEq, Prod.mk.injEq] at hreq
      rw [← hreq.2.1]
      exact hok k' id tag' hcr

theorem idsNonzero_init : IdsNonzero init := by
  intro k e he; cases k <;> simp [init, queue] at he

theorem idsNonzero_step_basic (c : C) (ev : Ev) (he : isEarly ev = false) (h : IdsNonzero c) :
    IdsNonzero (step c ev).1 := by
  by_cases hc : c.connected = true
  · cases ev with
    | connect a =>
      cases a with
      | connack sp code =>
        simp only [step, connect]
        split
        · intro k; have := h k; cases k <;> exact this
        · exact h
      | _ => exact h
    | api call =>
      rw [step_api c hc]
      refine idsNonzero_api c call h ?_ _ (fun k => apiWrite_queue k c call)
      intro k id tag _
      exact assigned_ne_zero c id
    | peer p => rw [step_peer c hc]; exact idsNonzero_peer _ _ h
    | apiEarlyAck call ack => simp [isEarly] at he
  · have hc' : c.connected = false := by simpa using hc
    cases ev with
    | connect a =>
      cases a with
      | connack sp code =>
        simp only [step, connect]
        split
        · intro k; have := h k; cases k <;> exact this
        · exact h
      | _ => exact h
    | _ => simp only [step, hc', Bool.not_false, ↓reduceIte]; exact h

theorem idsNonzero_step (c : C) (ev : Ev) (h : IdsNonzero c) : IdsNonzero (step c ev).1 :=
  step_inv_of_basic idsNonzero_step_basic c ev h

theorem idsNonzero_run (c : C) (evs : List Ev) (h : IdsNonzero c) : IdsNonzero (runState c evs) := by
  induction evs generalizing c with
  | nil => exact h
  | cons ev evs ih => exact ih _ (idsNonzero_step c ev h)

theorem apiRegister_out_nil (c : C) (call : Api) (k : Kind) (id tag : Nat) (h : callReq call = some (k, id, tag)) :
    (apiRegister c call).2 = [] := by
  cases call with
  | publish p tag' =>
    simp only [callReq] at h
    by_cases h0 : (p.qos == 0) = true
    · simp [h0] at h
    · have h0' : (p.qos == 0) = false := by simpa using h0
      simp only [apiRegister, h0', Bool.false_eq_true, ↓reduceIte]
      split <;> rfl
  | subscribe id' topics tag' cb => rfl
  | unsubscribe id' topics tag' => rfl
  | ping tag' => simp [callReq] at h

theorem step_api_written (c : C) (hc : c.connected = true) (call : Api) (k : Kind) (id tag : Nat)
    (h : callReq call = some (k, id, tag)) :
    (step c (.api call)).2.filterMap writtenId = [assigned c id] ∧
    ∀ r ∈ stepAccepted k c (.api call), r.id = assigned c id := by
  obtain ⟨h1, h2⟩ := apiWrite_ids c call k id tag h
  constructor
  · rw [step_api c hc, List.filterMap_append, h1, apiRegister_out_nil _ _ k _ tag h2]
    rfl
  · intro r hr
    simp only [stepAccepted, hc, ↓reduceIte] at hr
    obtain ⟨⟨tag', hreq⟩, _⟩ := regAccepted_ids k _ _ r hr
    rw [h2] at hreq
    simp only [Option.some.injEq, Prod.mk.injEq] at hreq
    exact hreq.2.1.symm

/-! ### the acknowledgement inside the window (E5 repaired) -/

theorem apiWrite_doneTags (c : C) (call : Api) : doneTags (apiWrite c call).2.1 = [] := by
  cases call with
  | publish p tag => simp only [apiWrite]; split <;> rfl
  | _ => rfl

/-- a call that registers a request fires no completion itself -/
theorem api_doneTags_nil (c : C) (hc : c.connected = true) (call : Api) (k : Kind) (id tag : Nat)
    (h : callReq call = some (k, id, tag)) : doneTags (step c (.api call)).2 = [] := by
  rw [step_api c hc, doneTags_append, apiWrite_doneTags,
    apiRegister_out_nil _ _ k _ tag (apiWrite_ids c call k id tag h).2]
  rfl

/-- the other interleaving: the terminal acknowledgement arrives between the write and the
registration - it waits for the registration (`service.ackmu`) and completes the request -/
theorem completes_in_window (c : C) (call : Api) (k : Kind) (id tag : Nat) (ack : Packet)
    (hc : c.connected = true) (hreq : callReq call = some (k, id, tag)) (hid : id ≠ 0)
    (hq : queue k c = []) (ht : termId k ack = some id) :
    doneTags (step c (.apiEarlyAck call ack)).2 = nz [tag] := by
  rw [step_early, doneTags_append, api_doneTags_nil c hc call k id tag hreq, List.nil_append]
  exact completes_after_return c call k id tag ack hc hreq hid hq ht

/-- … and takes it out of its queue: nothing is left that a later acknowledgement could complete again -/
theorem completes_in_window_queue (c : C) (call : Api) (k : Kind) (id tag : Nat) (ack : Packet)
    (hc : c.connected = true) (hreq : callReq call = some (k, id, tag)) (hid : id ≠ 0) (htag : tag ≠ 0)
    (hq : queue k c = []) (ht : termId k ack = some id) :
    queue k (step c (.apiEarlyAck call ack)).1 = [] := by
  have hf : freshStep c (.api call) = true := by simp [freshStep, hreq, hq, hid]
  have hacc := congrArg List.length (stepAccepted_fresh_id k c call hc hf)
  simp only [hreq, ↓reduceIte, List.length_map, List.length_cons, List.length_nil] at hacc
  have hcons := congrArg List.length (step_conservation k c (.apiEarlyAck call ack))
  have hacc' : (stepAccepted k c (.apiEarlyAck call ack)).length = 1 := hacc
  simp only [List.length_map, List.length_append, hq, List.length_nil, hacc'] at hcons
  have hfire : stepFired k c (.apiEarlyAck call ack) = [tag] := by
    simp only [stepFired, ht, Option.isSome_some, ↓reduceIte]
    rw [completes_after_return c call k id tag ack hc hreq hid hq ht]
    simp [nz, htag]
  rw [stepFired_eq] at hfire
  have hrel : (stepReleased k c (.apiEarlyAck call ack)).length ≠ 0 := by
    intro h0
    rw [List.length_eq_zero_iff.mp h0] at hfire
    simp [nz] at hfire
  exact List.length_eq_zero_iff.mp (by omega)

end Mqtt.Proofs.Client
