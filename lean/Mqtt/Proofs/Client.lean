/-
Client role: helper definitions and lemmas for properties C12 and C20
(histories, the per-queue bookkeeping of registered / released requests).
Helper lemmas only; the property theorems are in `Properties/C12.lean` and
`Properties/C20.lean`.
-/
import Mqtt.Model.Client
import Mqtt.Spec.Client

set_option linter.unusedSimpArgs false

namespace Mqtt.Proofs.Client
open Mqtt.Iface.Broker (Pub Packet Bytes)
open Mqtt.Iface.Client
open Mqtt.Model.Client
open Mqtt.Generated

/-! ### histories -/

/-- the model after a history -/
def runState (c : C) (evs : List Ev) : C := evs.foldl (fun c ev => (step c ev).1) c

/-- the outputs of a history, one list per event -/
def runOuts (c : C) : List Ev → List (List Out)
  | [] => []
  | ev :: evs => (step c ev).2 :: runOuts (step c ev).1 evs

theorem runState_cons (c : C) (ev : Ev) (evs : List Ev) :
    runState c (ev :: evs) = runState (step c ev).1 evs := rfl

theorem runState_append (c : C) (a b : List Ev) : runState c (a ++ b) = runState (runState c a) b := by
  simp [runState, List.foldl_append]

/-- the client a fresh `Client` value stands for -/
def init : C := {}

/-! ### one step, unfolded -/

theorem step_peer (c : C) (hc : c.connected = true) (p : Packet) : step c (.peer p) = peer c p := by
  simp [step, hc]

theorem step_api (c : C) (hc : c.connected = true) (call : Api) :
    step c (.api call) =
      ((apiRegister (apiWrite c call).1 (apiWrite c call).2.2).1,
       (apiWrite c call).2.1 ++ (apiRegister (apiWrite c call).1 (apiWrite c call).2.2).2) := by
  simp [step, hc]

end Mqtt.Proofs.Client
