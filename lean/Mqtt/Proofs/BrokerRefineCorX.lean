/-
The per-property consequences of the refinement theorem (`BrokerRefineCor.lean`, and their
restatements `Cxx_refines_reference` in the property files), lifted to histories that may contain
first packets whose answer cannot be written (`EvX`, `BrokerRefineFail.lean`).

All of them use the history only to obtain `R b s` for the states it reaches, and then speak about
the NEXT event.  So each is stated here once on related states (`…_of_R`), and then instantiated
with the states after a history of `EvX` (`…X`); the same `…_of_R` statement gives the `Ev` version
with `reach`.
-/
import Mqtt.Proofs.BrokerRefineCor
import Mqtt.Proofs.BrokerRefineFail

set_option linter.unusedSimpArgs false

namespace Mqtt.Proofs.BrokerRefine
open Mqtt.Iface.Broker Mqtt.Model.Broker
open Mqtt.Model.Topics (MemTopics RMsg RNode)
open Mqtt.Proofs.Topics (WF RWF abs absR good entryLevels)
open Mqtt.Spec.Match (split validName validFilter topicMatches)
open Mqtt.Proofs.Broker (HeldInv RetInv heldEntry specSubHeld)
open Mqtt.Proofs.BrokerQos (toOpen2 specReleaseAll)
open Mqtt.Spec.Broker (Accepts SOut Held addHeld subCode MatchGroup wild pubOf modelGroup specGroup)

/-! ### reachable states -/

/-- one admitted event from related states (`reach_step` without the history) -/
theorem reach_step_of_R (b : B) (s : Spec.Broker.S) (h : R b s) (e : Ev) (he : okEv b e = true) :
    R (step b e).1 (Spec.Broker.step s e).1 ∧
    Accepts (Spec.Broker.step s e).2 (step b e).2 ∧
    Spec.Broker.step s e = Spec.Broker.step1 s e :=
  ⟨(step_refines _ _ e h he).1, (step_refines _ _ e h he).2, spec_step_eq _ e⟩

/-- the states after an admitted history with failed handshakes are related -/
theorem reachX (es : List EvX) (hok : okRunX {} es = true) : R (runX {} es).1 (specRunX {} es).1 :=
  (BrokerX_refines_spec es hok).1

/-- one more admitted event after an admitted history with failed handshakes -/
theorem reach_stepX (es : List EvX) (hok : okRunX {} es = true) (e : Ev) (he : okEv (runX {} es).1 e = true) :
    R (step (runX {} es).1 e).1 (Spec.Broker.step (specRunX {} es).1 e).1 ∧
    Accepts (Spec.Broker.step (specRunX {} es).1 e).2 (step (runX {} es).1 e).2 ∧
    Spec.Broker.step (specRunX {} es).1 e = Spec.Broker.step1 (specRunX {} es).1 e :=
  reach_step_of_R _ _ (reachX es hok) e he

/-- one more admitted event of either kind after an admitted history with failed handshakes -/
theorem reach_stepXX (es : List EvX) (hok : okRunX {} es = true) (e : EvX) (he : okEvX (runX {} es).1 e = true) :
    R (stepX (runX {} es).1 e).1 (specStepX (specRunX {} es).1 e).1 ∧
    Accepts (specStepX (specRunX {} es).1 e).2 (stepX (runX {} es).1 e).2 :=
  stepX_refines _ _ e (reachX es hok) he

/-! ### C01: who gets a PUBLISH -/

/-- the statement of `C01_refines_reference` on related states -/
theorem publish01_refines_of_R (b : B) (s : Spec.Broker.S) (h : R b s) (c : Nat) (p : Pub)
    (hl : b.alive c = true) (hp : pubOk p = true) (hq : p.qos ≤ 1) :
    Accepts (Spec.Broker.step s (.packet c (.publish p))).2 (step b (.packet c (.publish p))).2 ∧
    (step b (.packet c (.publish p))).2 =
      (if p.qos = 1 then [.send c (.puback p.pktid)] else []) ++ (onPublish b ⟨p, false⟩).2.2.1 ∧
    ∀ g,
      (((modelGroup g (onPublish b ⟨p, false⟩).2.2.1).filterMap pubOf).map wild).Perm
        ((s.held.filter (fun x => topicMatches x.filter p.topic && x.owner == g)).map
          (fun x => mkCopy p.topic p.payload (min p.qos x.qos))) ∧
      ((∀ x ∈ s.held, x.owner = g → topicMatches x.filter p.topic = false) →
        modelGroup g (onPublish b ⟨p, false⟩).2.2.1 = []) := by
  obtain ⟨hg, hn, hq2, hid⟩ := pubOk_iff p hp
  have hmok : (⟨p, false⟩ : Msg).p.pktid ≠ 0 ∨ (⟨p, false⟩ : Msg).dirty = true ∨ (⟨p, false⟩ : Msg).p.qos = 0 := by
    rcases hid with h0 | h0
    · exact .inr (.inr h0)
    · exact .inl h0
  refine ⟨(reach_step_of_R b s h (.packet c (.publish p)) hp).2.1, ?_, ?_⟩
  · obtain ⟨cn, σ, hc, ha, hs⟩ := h.inv.live _ c hl
    have : p.qos = 0 ∨ p.qos = 1 := by omega
    rcases this with h0 | h1
    · have := Mqtt.Proofs.BrokerQos.packet_publish0 hc ha hs p h0
      show (packet _ c (.publish p)).2 = _
      rw [this]; simp [h0]
    · have := Mqtt.Proofs.BrokerQos.packet_publish1 hc ha hs p h1
      show (packet _ c (.publish p)).2 = _
      rw [this]; simp [h1]
  · intro g
    exact ⟨(publish_copies h ⟨p, false⟩ hg hn hq2 hmok g).1,
      publish_nobody_else h ⟨p, false⟩ hg hn hq2 hmok g⟩

/-- ... after a history with failed handshakes -/
theorem publish01_refinesX (es : List EvX) (hok : okRunX {} es = true) (c : Nat) (p : Pub)
    (hl : (runX {} es).1.alive c = true) (hp : pubOk p = true) (hq : p.qos ≤ 1) :
    Accepts (Spec.Broker.step (specRunX {} es).1 (.packet c (.publish p))).2
      (step (runX {} es).1 (.packet c (.publish p))).2 ∧
    (step (runX {} es).1 (.packet c (.publish p))).2 =
      (if p.qos = 1 then [.send c (.puback p.pktid)] else []) ++ (onPublish (runX {} es).1 ⟨p, false⟩).2.2.1 ∧
    ∀ g,
      (((modelGroup g (onPublish (runX {} es).1 ⟨p, false⟩).2.2.1).filterMap pubOf).map wild).Perm
        (((specRunX {} es).1.held.filter (fun x => topicMatches x.filter p.topic && x.owner == g)).map
          (fun x => mkCopy p.topic p.payload (min p.qos x.qos))) ∧
      ((∀ x ∈ (specRunX {} es).1.held, x.owner = g → topicMatches x.filter p.topic = false) →
        modelGroup g (onPublish (runX {} es).1 ⟨p, false⟩).2.2.1 = []) :=
  publish01_refines_of_R (runX {} es).1 (specRunX {} es).1 (BrokerX_refines_spec es hok).1 c p hl hp hq

/-! ### C02: the inbound QoS 2 exchange -/

/-- the statement of `C02_refines_reference` on related states -/
theorem qos2_accepted_of_R (b : B) (s : Spec.Broker.S) (h : R b s) (c : Nat) (hl : b.alive c = true) :
    (∀ p : Pub, pubOk p = true →
      Accepts (Spec.Broker.step s (.packet c (.publish p))).2 (step b (.packet c (.publish p))).2) ∧
    (∀ id, Accepts (Spec.Broker.step s (.packet c (.pubrel id))).2 (step b (.packet c (.pubrel id))).2) ∧
    ∃ σ k, liveSess b c = some σ ∧ Spec.Broker.getConn s c = some k ∧
      k.open2 = toOpen2 σ.pub2in ∧
      (∀ p : Pub, p.qos = 2 → (step b (.packet c (.publish p))).2 = [.send c (.pubrec p.pktid)] ∧
        (Spec.Broker.step s (.packet c (.publish p))).2 = [.send c (.pubrec p.pktid)]) ∧
      (∀ id, ∃ outs,
        (step b (.packet c (.pubrel id))).2 = outs ++ [.send c (.pubcomp id)] ∧
        (Spec.Broker.step s (.packet c (.pubrel id))).2 =
          (specReleaseAll (Spec.Broker.setConn s { k with open2 := toOpen2 (q2Acked (q2Ack σ.pub2in id)).1 })
            ((q2Acked (q2Ack σ.pub2in id)).2.map (·.msg))).2 ++ [.send c (.pubcomp id)] ∧
        Fan (specReleaseAll (Spec.Broker.setConn s { k with open2 := toOpen2 (q2Acked (q2Ack σ.pub2in id)).1 })
            ((q2Acked (q2Ack σ.pub2in id)).2.map (·.msg))).2 outs) := by
  refine ⟨fun p hp => (reach_step_of_R b s h (.packet c (.publish p)) hp).2.1,
    fun id => (reach_step_of_R b s h (.packet c (.pubrel id)) rfl).2.1, ?_⟩
  obtain ⟨σ, k, h1, h2, h3, h4, h5⟩ := qos2_refines h c hl
  refine ⟨σ, k, h1, h2, h3, ?_, ?_⟩
  · intro p hq
    rw [spec_step_eq _ _]
    exact h4 p hq
  · intro id
    obtain ⟨outs, a1, a2, a3⟩ := h5 id
    exact ⟨outs, a1, by rw [spec_step_eq _ _]; exact a2, a3⟩

/-- ... after a history with failed handshakes -/
theorem qos2_acceptedX (es : List EvX) (hok : okRunX {} es = true) (c : Nat)
    (hl : (runX {} es).1.alive c = true) :
    (∀ p : Pub, pubOk p = true →
      Accepts (Spec.Broker.step (specRunX {} es).1 (.packet c (.publish p))).2
        (step (runX {} es).1 (.packet c (.publish p))).2) ∧
    (∀ id, Accepts (Spec.Broker.step (specRunX {} es).1 (.packet c (.pubrel id))).2
      (step (runX {} es).1 (.packet c (.pubrel id))).2) ∧
    ∃ σ k, liveSess (runX {} es).1 c = some σ ∧ Spec.Broker.getConn (specRunX {} es).1 c = some k ∧
      k.open2 = toOpen2 σ.pub2in ∧
      (∀ p : Pub, p.qos = 2 → (step (runX {} es).1 (.packet c (.publish p))).2 = [.send c (.pubrec p.pktid)] ∧
        (Spec.Broker.step (specRunX {} es).1 (.packet c (.publish p))).2 = [.send c (.pubrec p.pktid)]) ∧
      (∀ id, ∃ outs,
        (step (runX {} es).1 (.packet c (.pubrel id))).2 = outs ++ [.send c (.pubcomp id)] ∧
        (Spec.Broker.step (specRunX {} es).1 (.packet c (.pubrel id))).2 =
          (specReleaseAll (Spec.Broker.setConn (specRunX {} es).1
              { k with open2 := toOpen2 (q2Acked (q2Ack σ.pub2in id)).1 })
            ((q2Acked (q2Ack σ.pub2in id)).2.map (·.msg))).2 ++ [.send c (.pubcomp id)] ∧
        Fan (specReleaseAll (Spec.Broker.setConn (specRunX {} es).1
              { k with open2 := toOpen2 (q2Acked (q2Ack σ.pub2in id)).1 })
            ((q2Acked (q2Ack σ.pub2in id)).2.map (·.msg))).2 outs) :=
  qos2_accepted_of_R (runX {} es).1 (specRunX {} es).1 (BrokerX_refines_spec es hok).1 c hl

/-! ### C07: SUBSCRIBE / UNSUBSCRIBE -/

/-- the statement of `C07_refines_reference` on related states -/
theorem subunsub_refines_of_R (b : B) (s : Spec.Broker.S) (h : R b s) (c id : Nat) (hl : b.alive c = true) :
    (∀ ts : List (Bytes × Nat), (∀ tq ∈ ts, good tq.1 = true) →
      Accepts (Spec.Broker.step s (.packet c (.subscribe id ts))).2 (step b (.packet c (.subscribe id ts))).2 ∧
      (∃ rest, (step b (.packet c (.subscribe id ts))).2 =
        .send c (.suback id (ts.map (fun t => subCode t.1 t.2))) :: rest) ∧
      HeldInv (step b (.packet c (.subscribe id ts))).1.topics.sroot
        (Spec.Broker.step s (.packet c (.subscribe id ts))).1.held) ∧
    (∀ ts : List Bytes, (∀ t ∈ ts, good t = true) →
      Accepts (Spec.Broker.step s (.packet c (.unsubscribe id ts))).2 (step b (.packet c (.unsubscribe id ts))).2 ∧
      (step b (.packet c (.unsubscribe id ts))).2 = [.send c (.unsuback id)] ∧
      HeldInv (step b (.packet c (.unsubscribe id ts))).1.topics.sroot
        (Spec.Broker.step s (.packet c (.unsubscribe id ts))).1.held) := by
  constructor
  · intro ts hg
    have hokev : okEv b (.packet c (.subscribe id ts)) = true := by
      show ts.all (fun tq => good tq.1) = true
      rw [List.all_eq_true]; exact hg
    obtain ⟨r1, r2, r3⟩ := reach_step_of_R b s h _ hokev
    obtain ⟨⟨rest, h1, _, _⟩, _, _⟩ := subscribe_refines h c hl id ts hg
    exact ⟨r2, ⟨rest, h1⟩, r1.held⟩
  · intro ts hg
    have hokev : okEv b (.packet c (.unsubscribe id ts)) = true := by
      show ts.all (fun t => good t) = true
      rw [List.all_eq_true]; exact hg
    obtain ⟨r1, r2, r3⟩ := reach_step_of_R b s h _ hokev
    exact ⟨r2, (unsubscribe_refines h c hl id ts hg).1, r1.held⟩

/-- ... after a history with failed handshakes -/
theorem subunsub_refinesX (es : List EvX) (hok : okRunX {} es = true) (c id : Nat)
    (hl : (runX {} es).1.alive c = true) :
    (∀ ts : List (Bytes × Nat), (∀ tq ∈ ts, good tq.1 = true) →
      Accepts (Spec.Broker.step (specRunX {} es).1 (.packet c (.subscribe id ts))).2
        (step (runX {} es).1 (.packet c (.subscribe id ts))).2 ∧
      (∃ rest, (step (runX {} es).1 (.packet c (.subscribe id ts))).2 =
        .send c (.suback id (ts.map (fun t => subCode t.1 t.2))) :: rest) ∧
      HeldInv (step (runX {} es).1 (.packet c (.subscribe id ts))).1.topics.sroot
        (Spec.Broker.step (specRunX {} es).1 (.packet c (.subscribe id ts))).1.held) ∧
    (∀ ts : List Bytes, (∀ t ∈ ts, good t = true) →
      Accepts (Spec.Broker.step (specRunX {} es).1 (.packet c (.unsubscribe id ts))).2
        (step (runX {} es).1 (.packet c (.unsubscribe id ts))).2 ∧
      (step (runX {} es).1 (.packet c (.unsubscribe id ts))).2 = [.send c (.unsuback id)] ∧
      HeldInv (step (runX {} es).1 (.packet c (.unsubscribe id ts))).1.topics.sroot
        (Spec.Broker.step (specRunX {} es).1 (.packet c (.unsubscribe id ts))).1.held) :=
  subunsub_refines_of_R (runX {} es).1 (specRunX {} es).1 (BrokerX_refines_spec es hok).1 c id hl

/-! ### C08: retained messages -/

/-- the statement of `C08_refines_reference` on related states -/
theorem retained_refines_of_R (b : B) (s : Spec.Broker.S) (h : R b s) (c id : Nat)
    (hl : b.alive c = true) (ts : List (Bytes × Nat)) (hg : ∀ tq ∈ ts, good tq.1 = true) :
    RetInv b.topics.rroot s.rets ∧
    Accepts (Spec.Broker.step s (.packet c (.subscribe id ts))).2 (step b (.packet c (.subscribe id ts))).2 ∧
    ∃ rest, (step b (.packet c (.subscribe id ts))).2 =
        .send c (.suback id (ts.map (fun t => subCode t.1 t.2))) :: rest ∧
      ((rest.filterMap pubOf).map wild).Perm
        ((((ts.zip (ts.map (fun t => subCode t.1 t.2))).filter (fun p => p.2 != 0x80)).map
          (fun p => Spec.Broker.retainedFor s p.1.1 p.2)).flatten) ∧
      ∀ y ∈ rest, ∃ w, y = .send c (.publish w) ∧ w.retain = true := by
  have hokev : okEv b (.packet c (.subscribe id ts)) = true := by
    show ts.all (fun tq => good tq.1) = true
    rw [List.all_eq_true]; exact hg
  exact ⟨h.rets, (reach_step_of_R b s h _ hokev).2.1, (subscribe_refines h c hl id ts hg).1⟩

/-- ... after a history with failed handshakes -/
theorem retained_refinesX (es : List EvX) (hok : okRunX {} es = true) (c id : Nat)
    (hl : (runX {} es).1.alive c = true) (ts : List (Bytes × Nat)) (hg : ∀ tq ∈ ts, good tq.1 = true) :
    RetInv (runX {} es).1.topics.rroot (specRunX {} es).1.rets ∧
    Accepts (Spec.Broker.step (specRunX {} es).1 (.packet c (.subscribe id ts))).2
      (step (runX {} es).1 (.packet c (.subscribe id ts))).2 ∧
    ∃ rest, (step (runX {} es).1 (.packet c (.subscribe id ts))).2 =
        .send c (.suback id (ts.map (fun t => subCode t.1 t.2))) :: rest ∧
      ((rest.filterMap pubOf).map wild).Perm
        ((((ts.zip (ts.map (fun t => subCode t.1 t.2))).filter (fun p => p.2 != 0x80)).map
          (fun p => Spec.Broker.retainedFor (specRunX {} es).1 p.1.1 p.2)).flatten) ∧
      ∀ y ∈ rest, ∃ w, y = .send c (.publish w) ∧ w.retain = true :=
  retained_refines_of_R (runX {} es).1 (specRunX {} es).1 (BrokerX_refines_spec es hok).1 c id hl ts hg

/-! ### C09: the will -/

/-- the statement of `C09_refines_reference` on related states -/
theorem end_accepted_of_R (b : B) (s : Spec.Broker.S) (h : R b s) (c : Nat) (hl : b.alive c = true) :
    (step b (.packet c .disconnect)).2 = [.closed c] ∧
    Accepts (Spec.Broker.step s (.close c)).2 (step b (.close c)).2 ∧
    ∃ σ k, liveSess b c = some σ ∧ Spec.Broker.getConn s c = some k ∧
      σ.willFlag = k.will.isSome ∧ σ.will = k.will.map willMsg ∧
      (k.will = none → (step b (.close c)).2 = [.closed c]) ∧
      (∀ w, k.will = some w →
        (step b (.close c)).2 =
          .closed c :: (onPublish (Mqtt.Proofs.BrokerLife.stopBase b c σ) (willMsg w)).2.2.1 ∧
        (Spec.Broker.step s (.close c)).2 =
          .closed c :: (Spec.Broker.accept (endSpec s c k)
            { qos := w.qos, retain := w.retain, topic := w.topic, payload := w.payload }).2) := by
  obtain ⟨r1, r2, r3⟩ := reach_step_of_R b s h (.close c) rfl
  obtain ⟨e1, _, σ, k, e3, e4, e5, e6, e7, e8⟩ := end_refines h c hl
  refine ⟨e1, r2, σ, k, e3, e4, e5, e6, e7, ?_⟩
  intro w hw
  obtain ⟨a1, a2⟩ := e8 w hw
  refine ⟨a1, ?_⟩
  rw [r3]; exact a2

/-- ... after a history with failed handshakes -/
theorem end_acceptedX (es : List EvX) (hok : okRunX {} es = true) (c : Nat)
    (hl : (runX {} es).1.alive c = true) :
    (step (runX {} es).1 (.packet c .disconnect)).2 = [.closed c] ∧
    Accepts (Spec.Broker.step (specRunX {} es).1 (.close c)).2 (step (runX {} es).1 (.close c)).2 ∧
    ∃ σ k, liveSess (runX {} es).1 c = some σ ∧ Spec.Broker.getConn (specRunX {} es).1 c = some k ∧
      σ.willFlag = k.will.isSome ∧ σ.will = k.will.map willMsg ∧
      (k.will = none → (step (runX {} es).1 (.close c)).2 = [.closed c]) ∧
      (∀ w, k.will = some w →
        (step (runX {} es).1 (.close c)).2 =
          .closed c :: (onPublish (Mqtt.Proofs.BrokerLife.stopBase (runX {} es).1 c σ) (willMsg w)).2.2.1 ∧
        (Spec.Broker.step (specRunX {} es).1 (.close c)).2 =
          .closed c :: (Spec.Broker.accept (endSpec (specRunX {} es).1 c k)
            { qos := w.qos, retain := w.retain, topic := w.topic, payload := w.payload }).2) :=
  end_accepted_of_R (runX {} es).1 (specRunX {} es).1 (BrokerX_refines_spec es hok).1 c hl

/-! ### C10: an accepted CONNECT -/

/-- the statement of `C10_refines_reference` on related states -/
theorem connect_accepted_of_R (b : B) (s : Spec.Broker.S) (h : R b s) (c : Nat) (req : Connect) (a : Bool)
    (he : okEv b (.first c (.connect req) a) = true)
    (hacc : Mqtt.Proofs.BrokerLife.accepts (.connect req) a = true) :
    Accepts (Spec.Broker.step s (.first c (.connect req) a)).2 (step b (.first c (.connect req) a)).2 ∧
    (step b (.first c (.connect req) a)).2 = (takeOver b (.connect req) a).2 ++
      [.send c (.connack (specPrior (Spec.Broker.takeOver s (.connect req) a).1 c req).isSome 0)] ∧
    HeldInv (step b (.first c (.connect req) a)).1.topics.sroot
      (((specPrior (Spec.Broker.takeOver s (.connect req) a).1 c req).getD ([], [])).1.foldl
        (fun h p => addHeld h c p.1 p.2) (Spec.Broker.takeOver s (.connect req) a).1.held) ∧
    ((takeOver b (.connect req) a = (b, []) ∧ Spec.Broker.takeOver s (.connect req) a = (s, [])) ∨
     ∃ c0 σ k, liveSess b c0 = some σ ∧ σ.cid = req.clientId ∧
       Spec.Broker.getConn s c0 = some k ∧ k.clean = σ.clean ∧
       takeOver b (.connect req) a = stop b c0 ∧
       Spec.Broker.takeOver s (.connect req) a = Spec.Broker.endConn s c0 false ∧
       (specPrior (Spec.Broker.takeOver s (.connect req) a).1 c req).isSome = (!req.clean && !k.clean)) := by
  obtain ⟨_, c1, _, c3⟩ := connect_refines h c req a he hacc
  refine ⟨(reach_step_of_R b s h _ he).2.1, c1, c3, ?_⟩
  have hdead : b.alive c = false := by
    simp only [okEv, Bool.and_eq_true, decide_eq_true_eq, Bool.not_eq_true'] at he
    exact he.1.2
  obtain ⟨_, _, _, hto⟩ := takeOver_refines h c req a hacc hdead
  rcases hto with h0 | ⟨c0, σ, fs, fo, hσ, hcid, hne, t1, t2, _⟩
  · exact .inl h0
  · obtain ⟨k, hk, hkc, hp⟩ := takeOver_prior h c req hne (realCid_of_accepts hacc hne) c0 σ hσ hcid
    exact .inr ⟨c0, σ, k, hσ, hcid, hk, hkc, t1, t2, by rw [t2]; exact hp⟩

/-- ... after a history with failed handshakes -/
theorem connect_acceptedX (es : List EvX) (hok : okRunX {} es = true) (c : Nat) (req : Connect) (a : Bool)
    (he : okEv (runX {} es).1 (.first c (.connect req) a) = true)
    (hacc : Mqtt.Proofs.BrokerLife.accepts (.connect req) a = true) :
    Accepts (Spec.Broker.step (specRunX {} es).1 (.first c (.connect req) a)).2 (step (runX {} es).1 (.first c (.connect req) a)).2 ∧
    (step (runX {} es).1 (.first c (.connect req) a)).2 = (takeOver (runX {} es).1 (.connect req) a).2 ++
      [.send c (.connack (specPrior (Spec.Broker.takeOver (specRunX {} es).1 (.connect req) a).1 c req).isSome 0)] ∧
    HeldInv (step (runX {} es).1 (.first c (.connect req) a)).1.topics.sroot
      (((specPrior (Spec.Broker.takeOver (specRunX {} es).1 (.connect req) a).1 c req).getD ([], [])).1.foldl
        (fun h p => addHeld h c p.1 p.2) (Spec.Broker.takeOver (specRunX {} es).1 (.connect req) a).1.held) ∧
    ((takeOver (runX {} es).1 (.connect req) a = ((runX {} es).1, []) ∧ Spec.Broker.takeOver (specRunX {} es).1 (.connect req) a = ((specRunX {} es).1, [])) ∨
     ∃ c0 σ k, liveSess (runX {} es).1 c0 = some σ ∧ σ.cid = req.clientId ∧
       Spec.Broker.getConn (specRunX {} es).1 c0 = some k ∧ k.clean = σ.clean ∧
       takeOver (runX {} es).1 (.connect req) a = stop (runX {} es).1 c0 ∧
       Spec.Broker.takeOver (specRunX {} es).1 (.connect req) a = Spec.Broker.endConn (specRunX {} es).1 c0 false ∧
       (specPrior (Spec.Broker.takeOver (specRunX {} es).1 (.connect req) a).1 c req).isSome = (!req.clean && !k.clean)) :=
  connect_accepted_of_R (runX {} es).1 (specRunX {} es).1 (BrokerX_refines_spec es hok).1 c req a he hacc

/-! ### C11: refusals -/

/-- the statement of `C11_refines_reference` on related states -/
theorem refusal_accepted_of_R (b : B) (s : Spec.Broker.S) (h : R b s) (c : Nat) (f : First) (a : Bool)
    (he : okEv b (.first c f a) = true) (hacc : Mqtt.Proofs.BrokerLife.accepts f a = false) :
    Accepts (Spec.Broker.step s (.first c f a)).2 (step b (.first c f a)).2 ∧
    (step b (.first c f a)).1 = b ∧
    (Spec.Broker.step s (.first c f a)).1 = s ∧
    ∃ codes, (Spec.Broker.step s (.first c f a)).2 = [.refused c codes] ∧
      codes = reasons f a ∧
      (((step b (.first c f a)).2 = [.closed c] ∧ none ∈ codes) ∨
       ∃ k, k ≠ 0 ∧ some k ∈ codes ∧
         (step b (.first c f a)).2 = [.send c (.connack false k), .closed c]) := by
  obtain ⟨_, r2, r3⟩ := reach_step_of_R b s h _ he
  obtain ⟨h1, h2, codes, h3, h4, h5⟩ := refusal_refines (b := b) c f a hacc s
  rw [r3]
  exact ⟨by rw [← r3]; exact r2, h1, h2, codes, h3, h4, h5⟩

/-- ... after a history with failed handshakes -/
theorem refusal_acceptedX (es : List EvX) (hok : okRunX {} es = true) (c : Nat) (f : First) (a : Bool)
    (he : okEv (runX {} es).1 (.first c f a) = true) (hacc : Mqtt.Proofs.BrokerLife.accepts f a = false) :
    Accepts (Spec.Broker.step (specRunX {} es).1 (.first c f a)).2 (step (runX {} es).1 (.first c f a)).2 ∧
    (step (runX {} es).1 (.first c f a)).1 = (runX {} es).1 ∧
    (Spec.Broker.step (specRunX {} es).1 (.first c f a)).1 = (specRunX {} es).1 ∧
    ∃ codes, (Spec.Broker.step (specRunX {} es).1 (.first c f a)).2 = [.refused c codes] ∧
      codes = reasons f a ∧
      (((step (runX {} es).1 (.first c f a)).2 = [.closed c] ∧ none ∈ codes) ∨
       ∃ k, k ≠ 0 ∧ some k ∈ codes ∧
         (step (runX {} es).1 (.first c f a)).2 = [.send c (.connack false k), .closed c]) :=
  refusal_accepted_of_R (runX {} es).1 (specRunX {} es).1 (BrokerX_refines_spec es hok).1 c f a he hacc

end Mqtt.Proofs.BrokerRefine
