/-
Core F — helper lemmas for C16, part 5: what persists once a connection has ended, what a
state in which nothing can run looks like after `stop()` was called, late deliveries.
-/
import Mqtt.Proofs.LifecycleProgress

set_option linter.unusedSimpArgs false
set_option linter.unusedVariables false

namespace Mqtt.Proofs.Lifecycle
open Mqtt.Model.Lifecycle

/-- what persists along thread steps: the end of the connection, a successful CAS, the state of the
connection a delivery is addressed to -/
theorem persist_tstep (c : Cfg) (hw : WF c) (s s' : St) (t : Tid) (k : Nat) (h : tstep c s t k = some s') :
    (Ended s = true → Ended s' = true) ∧ (s.sh.closed = true → s'.sh.closed = true) ∧
    s'.sh.extBlocked = s.sh.extBlocked := by
  have key : ∀ (sh' : Sh) (r' : RPc) (p' : PPc), FrameE s.sh sh' →
      (RPc.pastLoop s.recv = true → RPc.pastLoop r' = true) → (PPc.pastLoop s.proc = true → PPc.pastLoop p' = true) →
      ((s.sh.sock != .open || s.sh.timeout || s.sh.closed || RPc.pastLoop s.recv || PPc.pastLoop s.proc) = true →
       (sh'.sock != .open || sh'.timeout || sh'.closed || RPc.pastLoop r' || PPc.pastLoop p') = true) := by
    intro sh' r' p' hf hr hp he
    simp only [Bool.or_eq_true, bne_iff_ne, ne_eq] at he ⊢
    rcases he with (((he | he) | he) | he) | he
    · exact Or.inl (Or.inl (Or.inl (Or.inl (hf.sock he))))
    · exact Or.inl (Or.inl (Or.inl (Or.inr (by rw [hf.timeout]; exact he))))
    · exact Or.inl (Or.inl (Or.inr (hf.closed he)))
    · exact Or.inl (Or.inr (hr he))
    · exact Or.inr (hp he)
  cases t with
  | recv =>
    simp only [tstep] at h
    cases hr : rstep c s.sh k s.recv with
    | none => simp [hr] at h
    | some q =>
      obtain ⟨sh', pc'⟩ := q; simp [hr] at h; subst h
      obtain ⟨hf, hp⟩ := rstep_frameE c hw _ _ _ _ _ hr
      exact ⟨key sh' pc' s.proc hf hp id, hf.closed, hf.ext⟩
  | send =>
    simp only [tstep] at h
    cases hr : sstep c s.sh s.send with
    | none => simp [hr] at h
    | some q =>
      obtain ⟨sh', pc'⟩ := q; simp [hr] at h; subst h
      have hf := sstep_frameE c hw _ _ _ _ hr
      exact ⟨key sh' s.recv s.proc hf id id, hf.closed, hf.ext⟩
  | proc =>
    simp only [tstep] at h
    cases hr : pstep c s.sh s.proc with
    | none => simp [hr] at h
    | some q =>
      obtain ⟨sh', pc'⟩ := q; simp [hr] at h; subst h
      obtain ⟨hf, hp⟩ := pstep_frameE c hw _ _ _ _ hr
      exact ⟨key sh' s.recv pc' hf id hp, hf.closed, hf.ext⟩
  | k i =>
    simp only [tstep] at h
    cases hk : s.ks[i]? with
    | none => simp [hk] at h
    | some pc =>
      cases hr : kstep c s.sh (.k i) pc with
      | none => simp [hk, hr] at h
      | some q =>
        obtain ⟨sh', pc'⟩ := q
        simp [hk, hr] at h; subst h
        have hf := (kstep_frameE c hw _ _ _ _ _ hr).1
        exact ⟨key sh' s.recv s.proc hf id id, hf.closed, hf.ext⟩
  | w i =>
    simp only [tstep] at h
    cases hk : s.ws[i]? with
    | none => simp [hk] at h
    | some w =>
      cases hr : wstep c s.sh (.w i) w with
      | none => simp [hk, hr] at h
      | some q =>
        obtain ⟨sh', w'⟩ := q
        simp [hk, hr] at h; subst h
        have hf := wstep_frameE c hw _ _ _ _ _ hr
        exact ⟨key sh' s.recv s.proc hf id id, hf.closed, hf.ext⟩

/-- along a schedule of thread steps -/
theorem persist_run (c : Cfg) (hw : WF c) (s : St) (sched : List Label) (hth : ∀ l, l ∈ sched → ∃ t k, l = .th t k) :
    (Ended s = true → Ended (run c s sched) = true) ∧ (s.sh.closed = true → (run c s sched).sh.closed = true) ∧
    (run c s sched).sh.extBlocked = s.sh.extBlocked := by
  induction sched generalizing s with
  | nil => exact ⟨id, id, rfl⟩
  | cons l ls ih =>
    have hls : ∀ l', l' ∈ ls → ∃ t k, l' = .th t k := fun l' hl' => hth l' (List.mem_cons_of_mem _ hl')
    simp only [run]
    cases h : step c s l with
    | none => exact ih s hls
    | some s' =>
      obtain ⟨t, k, rfl⟩ := hth l (List.mem_cons_self ..)
      obtain ⟨h1, h2, h3⟩ := persist_tstep c hw s s' t k h
      obtain ⟨i1, i2, i3⟩ := ih s' hls
      exact ⟨fun he => i1 (h1 he), fun hc => i2 (h2 hc), by rw [i3, h3]⟩

/-- the receiver's read fails or has failed: it is inside a socket read on a socket that is not open (closed by
either side, or HALF-closed by the peer: the read returns end-of-stream) or whose deadline has fired, or it is
already past its loop -/
def ReadFails (s : St) : Prop :=
  (s.recv = .read ∧ (s.sh.sock ≠ .open ∨ s.sh.timeout = true)) ∨ RPc.pastLoop s.recv = true

/-- no thread step undoes that: the read fails, the receiver leaves its loop and does not come back -/
theorem readFails_tstep (c : Cfg) (hw : WF c) (s s' : St) (t : Tid) (k : Nat) (h : tstep c s t k = some s')
    (hrd : ReadFails s) : ReadFails s' := by
  have same : ∀ sh', FrameE s.sh sh' → ReadFails { s with sh := sh' } := by
    intro sh' hf
    rcases hrd with ⟨hr, hso | hto⟩ | hp
    · exact Or.inl ⟨hr, Or.inl (hf.sock hso)⟩
    · exact Or.inl ⟨hr, Or.inr (by rw [hf.timeout]; exact hto)⟩
    · exact Or.inr hp
  cases t with
  | recv =>
    simp only [tstep] at h
    cases hr : rstep c s.sh k s.recv with
    | none => simp [hr] at h
    | some q =>
      obtain ⟨sh', pc'⟩ := q; simp [hr] at h; subst h
      obtain ⟨hf, hp⟩ := rstep_frameE c hw _ _ _ _ _ hr
      refine Or.inr ?_
      rcases hrd with ⟨hrd, h1⟩ | hrd
      · rw [hrd] at hr
        simp only [rstep] at hr
        simp [h1] at hr
        show RPc.pastLoop pc' = true
        rw [← hr.2]; rfl
      · exact hp hrd
  | send =>
    simp only [tstep] at h
    cases hr : sstep c s.sh s.send with
    | none => simp [hr] at h
    | some q =>
      obtain ⟨sh', pc'⟩ := q; simp [hr] at h; subst h
      exact same sh' (sstep_frameE c hw _ _ _ _ hr)
  | proc =>
    simp only [tstep] at h
    cases hr : pstep c s.sh s.proc with
    | none => simp [hr] at h
    | some q =>
      obtain ⟨sh', pc'⟩ := q; simp [hr] at h; subst h
      exact same sh' (pstep_frameE c hw _ _ _ _ hr).1
  | k i =>
    simp only [tstep] at h
    cases hk : s.ks[i]? with
    | none => simp [hk] at h
    | some pc =>
      cases hr : kstep c s.sh (.k i) pc with
      | none => simp [hk, hr] at h
      | some q =>
        obtain ⟨sh', pc'⟩ := q
        simp [hk, hr] at h; subst h
        exact same sh' (kstep_frameE c hw _ _ _ _ _ hr).1
  | w i =>
    simp only [tstep] at h
    cases hk : s.ws[i]? with
    | none => simp [hk] at h
    | some w =>
      cases hr : wstep c s.sh (.w i) w with
      | none => simp [hk, hr] at h
      | some q =>
        obtain ⟨sh', w'⟩ := q
        simp [hk, hr] at h; subst h
        exact same sh' (wstep_frameE c hw _ _ _ _ _ hr)

/-- along a schedule of thread steps -/
theorem readFails_run (c : Cfg) (hw : WF c) (s : St) (sched : List Label) (hth : ∀ l, l ∈ sched → ∃ t k, l = .th t k)
    (hrd : ReadFails s) : ReadFails (run c s sched) := by
  induction sched generalizing s with
  | nil => exact hrd
  | cons l ls ih =>
    have hls : ∀ l', l' ∈ ls → ∃ t k, l' = .th t k := fun l' hl' => hth l' (List.mem_cons_of_mem _ hl')
    simp only [run]
    cases h : step c s l with
    | none => exact ih s hls hrd
    | some s' =>
      obtain ⟨t, k, rfl⟩ := hth l (List.mem_cons_self ..)
      exact ih s' hls (readFails_tstep c hw s s' t k h hrd)

/-- a receiver whose read fails is not waiting for ring space -/
theorem readFails_not_space (s : St) (h : ReadFails s) : s.recv ≠ .space := by
  intro hr
  rcases h with ⟨h, _⟩ | h
  · rw [hr] at h; cases h
  · rw [hr] at h; cases h

theorem effAt_full (sh : Sh) : effAt sh 100 = expectedEffects sh := by
  by_cases h1 : sh.willFlag = true <;> by_cases h2 : sh.clean = true <;> simp [effAt, expectedEffects, h1, h2]

/-- a complete teardown: `Final` after a successful CAS means `stop()` ran to its end, effects and all -/
theorem final_torn (c : Cfg) (s : St) (hi : Inv c s) (hf : Final s = true) (hc : s.sh.closed = true) :
    TornDown s = true ∧ s.sh.effects = expectedEffects s.sh := by
  obtain ⟨t, kk, hwin, hkk⟩ := hi.k.cls hc
  have kv := hi.k.ks t kk hkk
  simp only [Final, Bool.and_eq_true, beq_iff_eq] at hf
  obtain ⟨⟨⟨⟨hr, hs⟩, hp⟩, hks⟩, hws⟩ := hf
  have h1 := (kv.won hwin).1
  have hkkf : kk = .finished := by
    cases t with
    | proc => simp [kOf, hp] at hkk; exact hkk.symm
    | k i =>
      simp [kOf] at hkk
      have := (List.all_eq_true.mp hks) kk (List.mem_iff_getElem?.mpr ⟨i, hkk⟩)
      cases kk with
      | idle => simp [stage] at h1
      | finished => rfl
      | run j => simp [KPc.isFinal] at this
    | _ => simp [kOf] at hkk
  subst hkkf
  simp only [stage] at kv
  obtain ⟨_, _, _, _, _, w6, w7⟩ := kv.won hwin
  rw [effAt_full] at w7
  refine ⟨?_, w7⟩
  simp only [TornDown, hc, w6 (by omega), w7, hwin]
  cases t with
  | proc => simp [kOf] at hkk; simp [hp]
  | k i => simp [kOf] at hkk; simp [hkk]
  | _ => simp [kOf] at hkk

/-- in a state in which nothing can run a `stop()` call that has won the CAS is at `Wait` or has
returned: socket and both rings are closed -/
theorem winner_closed_all (c : Cfg) (hw : WF c) (s : St) (hi : Inv c s) (hq : ∀ t, en c s t = false)
    (hc : s.sh.closed = true) :
    s.sh.sock = .closed ∧ s.sh.inR.done = true ∧ s.sh.outR.done = true := by
  obtain ⟨t, kk, hwin, hkk⟩ := hi.k.cls hc
  have kv := hi.k.ks t kk hkk
  have hst : 5 ≤ stage kk := by
    have h1 := (kv.won hwin).1
    cases kk with
    | idle => simp [stage] at h1
    | finished => simp [stage]
    | run j =>
      have hb : kstep c s.sh t (.run j) = none := by
        cases t with
        | proc =>
          have hp : s.proc = .stop (.run j) := by
            simp only [kOf] at hkk
            cases hpc : s.proc with
            | stop k => simp [hpc] at hkk; rw [hkk]
            | _ => simp [hpc] at hkk
          have := hq .proc
          rw [en_proc, hp] at this
          simp only [pstep] at this
          cases hk : kstep c s.sh .proc (.run j) with
          | none => rfl
          | some q => simp [hk] at this
        | k i =>
          simp only [kOf] at hkk
          have := hq (.k i)
          simp only [en, tstep, hkk] at this
          cases hk : kstep c s.sh (.k i) (.run j) with
          | none => rfl
          | some q => simp [hk] at this
        | _ => simp [kOf] at hkk
      have := (kstep_blocked c hw _ _ _ hb).1
      simp [stage, this]
  obtain ⟨_, _, w3, w4, w5, _, _⟩ := kv.won hwin
  exact ⟨w3 (by omega), w4 (by omega), w5 (by omega)⟩

/-- the half-closed form of the end that is not noticed (finding F8): the peer has shut down its sending
direction (`peerShut`) and does not read; the socket is still writable, so the sender's write blocks and the
processor stays parked in the connection's own outgoing ring; the receiver waits for room in the completely
full incoming ring, issues no socket read and so never sees the end-of-stream — and never closes the socket.
Nobody has called `stop()`, no deadline has fired (none is armed). -/
def HalfClosedHeld (c : Cfg) (s : St) : Prop :=
  HeldBySelf s = true ∧ s.sh.sock = .peerShut ∧ s.recv = .space ∧ s.sh.inR.done = false ∧ c.cap ≤ s.sh.inR.buf ∧
  s.sh.timeout = false ∧ s.sh.closed = false

/-- **a connection whose processor is parked behind its own non-reading client has not ended**
(repair b77088f) — in any way the broker has noticed.  In a state in which nothing can run, `HeldBySelf` —
socket writable (open or half-closed), peer not reading, processor inside a write to its own outgoing ring —
excludes a fired read deadline (the receiver, inside that read, could step), a receiver past its loop (it
could step until it has exited, and then it has closed the socket), a `stop()` past its CAS (it
could step until `Wait`, and then it has closed the socket).  What is left of `Ended` is the socket itself:
it is open (the connection has not ended), or the peer has HALF-closed it and the receiver, parked for room in
the completely full incoming ring, is not reading (`HalfClosedHeld`). -/
theorem self_held_not_ended (c : Cfg) (hw : WF c) (s : St) (hi : Inv c s) (hq : ∀ t, en c s t = false)
    (hs : HeldBySelf s = true) :
    (Ended s = false ∨ (s.sh.sock = .peerShut ∧ s.recv = .space ∧ s.sh.inR.done = false ∧ c.cap ≤ s.sh.inR.buf)) ∧
    s.sh.timeout = false ∧ RPc.pastLoop s.recv = false ∧ s.sh.closed = false := by
  have hs0 := hs
  simp only [HeldBySelf, Bool.and_eq_true, beq_iff_eq, Bool.not_eq_true'] at hs
  obtain ⟨⟨hso, hpr⟩, hown⟩ := hs
  have hrecv : RPc.pastLoop s.recv = false := by
    cases hp : RPc.pastLoop s.recv with
    | false => rfl
    | true =>
      exfalso
      rcases recv_blocked c hw s hi.a (hq .recv) with ⟨hr, _⟩ | ⟨hr, _⟩ | hr
      · simp [hr, RPc.pastLoop] at hp
      · simp [hr, RPc.pastLoop] at hp
      · have := hi.r.rsock (by simp [hr, RPc.sockClosed]); rw [this] at hso; cases hso
  have hto : s.sh.timeout = false := by
    cases ht : s.sh.timeout with
    | false => rfl
    | true =>
      exfalso
      rcases hi.r.tmo ht with hr | hr
      · rcases recv_blocked c hw s hi.a (hq .recv) with ⟨hr', _⟩ | ⟨_, _, hto, _⟩ | hr'
        · rw [hr] at hr'; cases hr'
        · rw [ht] at hto; cases hto
        · rw [hr] at hr'; cases hr'
      · rw [hrecv] at hr; cases hr
  have hcl : s.sh.closed = false := by
    cases hc : s.sh.closed with
    | false => rfl
    | true => exfalso; have := (winner_closed_all c hw s hi hq hc).1; rw [this] at hso; cases hso
  have hproc : PPc.pastLoop s.proc = false := by
    cases hpc : s.proc <;> rw [hpc] at hown <;> first | rfl | (simp [PPc.inOwnWrite] at hown)
  refine ⟨?_, hto, hrecv, hcl⟩
  cases hsk : s.sh.sock with
  | «open» => left; simp [Ended, hsk, hto, hcl, hrecv, hproc]
  | peerClosed => rw [hsk] at hso; cases hso
  | closed => rw [hsk] at hso; cases hso
  | peerShut =>
    right
    rcases recv_blocked c hw s hi.a (hq .recv) with ⟨hr, hd, hb⟩ | ⟨_, hso', _⟩ | hr
    · exact ⟨rfl, hr, hd, hb⟩
    · rw [hsk] at hso'; cases hso'
    · rw [hr] at hrecv; cases hrecv

/-- **what a state in which nothing can run looks like, with the repaired receiver (b77088f) and
the repaired `ReadFrom` (8f682d1)**: the teardown is complete, or the processor is inside a delivery
to ANOTHER connection that is still open, has stopped reading and is full, or the connection has not
ended — or it has been HALF-closed by a peer that does not read, and the receiver, parked for room in the
completely full incoming ring, does not read either (`HalfClosedHeld`) -/
theorem quiescent_cases_fixed (c : Cfg) (hw : WF c) (s : St) (hi : Inv c s) (hq : ∀ t, en c s t = false) :
    Final s = true ∨ HeldByThird s = true ∨ Ended s = false ∨ HalfClosedHeld c s := by
  rcases quiescent_cases c hw s hi.a hi.w hi.k hq with h | h | h | h
  · exact Or.inl h
  · exact Or.inr (Or.inl h)
  · obtain ⟨h1, h2, _, h4⟩ := self_held_not_ended c hw s hi hq h
    rcases h1 with h1 | ⟨a, b, d, e⟩
    · exact Or.inr (Or.inr (Or.inl h1))
    · exact Or.inr (Or.inr (Or.inr ⟨h, a, b, d, e, h2, h4⟩))
  · exact Or.inr (Or.inr (Or.inl h))

/-- **after `stop()` has been called (CAS passed) a state in which nothing can run is the complete
teardown**, unless the processor is inside a delivery to another connection that is still open,
not reading and full -/
theorem quiescent_closed (c : Cfg) (hw : WF c) (s : St) (hi : Inv c s) (hq : ∀ t, en c s t = false)
    (hc : s.sh.closed = true) (hx : s.sh.extBlocked = false) :
    Final s = true ∧ TornDown s = true := by
  rcases quiescent_cases_fixed c hw s hi hq with hf | h | h | h
  · exact ⟨hf, (final_torn c s hi hf hc).1⟩
  · simp [HeldByThird, hx] at h
  · simp [Ended, hc] at h
  · rw [h.2.2.2.2.2.2] at hc; cases hc

/-- no writer has panicked (and `stop()` does not clear the ring pointers: `InvK.nil`) -/
def NoPanic (s : St) : Prop := ∀ w, w ∈ s.ws → w.pc ≠ .panicked

theorem noPanic_step (c : Cfg) (hw : WF c) (s s' : St) (l : Label) (hi : Inv c s) (hn : NoPanic s)
    (h : step c s l = some s') : NoPanic s' := by
  cases l with
  | env e =>
    simp only [step] at h
    have hws : s'.ws = s.ws := by
      cases e with
      | peerClose => simp only [estep] at h; by_cases h1 : s.sh.sock = .open ∨ s.sh.sock = .peerShut <;> simp [h1] at h; subst h; rfl
      | peerShut => simp only [estep] at h; by_cases h1 : s.sh.sock = .open <;> simp [h1] at h; subst h; rfl
      | kaExpire =>
        simp only [estep] at h
        by_cases h1 : s.recv = .read ∧ s.sh.sock = .open
        · rw [if_pos h1] at h; injection h with h; subst h; rfl
        · rw [if_neg h1] at h; cases h
      | peerReads b => simp [estep] at h; subst h; rfl
      | extBlock b => simp [estep] at h; subst h; rfl
      | serverClose i =>
        simp only [estep] at h
        cases hk : s.ks[i]? with
        | none => simp [hk] at h
        | some pc => cases pc <;> simp [hk] at h; subst h; rfl
      | preClose =>
        simp only [estep] at h
        cases hc : s.sh.outR.close c <;> simp [hc] at h
        subst h; rfl
    intro w hm; rw [hws] at hm; exact hn w hm
  | th t k =>
    simp only [step] at h
    cases t with
    | recv => simp only [tstep] at h; cases hr : rstep c s.sh k s.recv <;> simp [hr] at h; subst h; exact hn
    | send => simp only [tstep] at h; cases hr : sstep c s.sh s.send <;> simp [hr] at h; subst h; exact hn
    | proc => simp only [tstep] at h; cases hr : pstep c s.sh s.proc <;> simp [hr] at h; subst h; exact hn
    | k i =>
      simp only [tstep] at h
      cases hk : s.ks[i]? with
      | none => simp [hk] at h
      | some pc => cases hr : kstep c s.sh (.k i) pc <;> simp [hk, hr] at h; subst h; exact hn
    | w i =>
      simp only [tstep] at h
      cases hk : s.ws[i]? with
      | none => simp [hk] at h
      | some w =>
        cases hr : wstep c s.sh (.w i) w with
        | none => simp [hk, hr] at h
        | some q =>
          obtain ⟨sh', w'⟩ := q
          simp [hk, hr] at h; subst h
          intro x hx
          rcases List.mem_or_eq_of_mem_set hx with hx | rfl
          · exact hn x hx
          · -- the step of a writer ends in `panicked` only through a nil ring pointer
            have hnil := hi.k.nil
            have hwp := hn w (List.mem_iff_getElem?.mpr ⟨i, hk⟩)
            obtain ⟨pc, len⟩ := w
            cases pc <;> simp [wstep, hnil] at hr
            case check => obtain ⟨_, rfl⟩ := hr; simp
            case lock => obtain ⟨_, _, rfl⟩ := hr; simp
            case wait =>
              cases hs : s.sh.outR.waitSpace c len with
              | none => simp [hs] at hr
              | some q => obtain ⟨ret, r⟩ := q; cases ret <;> simp [hs] at hr <;> obtain ⟨_, rfl⟩ := hr <;> simp
            case commit =>
              cases hs : s.sh.outR.commitP c len with
              | none => simp [hs] at hr
              | some q => obtain ⟨ret, r⟩ := q; simp [hs] at hr; obtain ⟨_, rfl⟩ := hr; simp

theorem noPanic_run (c : Cfg) (hw : WF c) (s : St) (sched : List Label) (hi : Inv c s) (hn : NoPanic s) :
    NoPanic (run c s sched) := by
  induction sched generalizing s with
  | nil => exact hn
  | cons l ls ih =>
    simp only [run]
    cases h : step c s l with
    | none => exact ih s hi hn
    | some s' => exact ih s' (inv_step c hw s s' l hi h) (noPanic_step c hw s s' l hi hn h)

/-- **a delivery to a connection whose outgoing ring is closed fails at once**: a writer past the
lock is enabled and its step returns (end-of-stream) without committing anything and releases `wmu`;
a writer before the lock is enabled unless `wmu` is held, and then the holder is enabled -/
theorem late_delivery (c : Cfg) (hw : WF c) (s : St) (hi : Inv c s) (hd : s.sh.outR.done = true)
    (i : Nat) (w : WTh) (hwi : s.ws[i]? = some w) :
    (w.pc = .check → en c s (.w i) = true) ∧
    ((w.pc = .wait ∨ w.pc = .commit) →
      ∃ sh', wstep c s.sh (.w i) w = some (sh', { w with pc := .finished }) ∧ sh'.outR = s.sh.outR ∧ sh'.wmu = none) ∧
    (w.pc = .lock → en c s (.w i) = true ∨ ∃ t, s.sh.wmu = some t ∧ en c s t = true) := by
  have hnil := hi.k.nil
  refine ⟨?_, ?_, ?_⟩
  · intro hp
    obtain ⟨pc, len⟩ := w; simp at hp; subst hp
    simp [en, tstep, hwi, wstep, hnil]
  · intro hp
    obtain ⟨pc, len⟩ := w; simp at hp
    rcases hp with rfl | rfl
    · simp [wstep, hnil, done_waitSpace c hw.d2 _ _ hd]
      by_cases h1 : c.cap < len <;> simp [h1]
    · simp [wstep, hnil, done_commitP c hw.d2 _ _ hd]
  · intro hp
    obtain ⟨pc, len⟩ := w; simp at hp; subst hp
    cases hm : s.sh.wmu with
    | none => left; simp [en, tstep, hwi, wstep, hm]
    | some t =>
      right
      refine ⟨t, rfl, ?_⟩
      rcases hi.w.other t hm with rfl | ⟨j, rfl⟩
      · have hh := hi.w.proc.mp hm
        rw [en_proc]
        cases hpc : s.proc <;> simp [hpc, PPc.holdsWmu] at hh
        case ownWait l rest =>
          simp [pstep, done_waitSpace c hw.d2 _ _ hd]
          by_cases h1 : c.cap < l <;> simp [h1]
        case ownCommit l rest =>
          simp [pstep, done_commitP c hw.d2 _ _ hd]
      · obtain ⟨w', hw', hh⟩ := (hi.w.w j).mp hm
        obtain ⟨pc', len'⟩ := w'
        simp only [en, tstep, hw']
        cases pc' <;> simp [WPc.holdsWmu] at hh
        case wait =>
          simp [wstep, hnil, done_waitSpace c hw.d2 _ _ hd]
          by_cases h1 : c.cap < len' <;> simp [h1]
        case commit =>
          simp [wstep, hnil, done_commitP c hw.d2 _ _ hd]

/-- a `stop()` call that has started never becomes "not called" again, and a thread other than the
processor does not move the processor -/
theorem started_persist (c : Cfg) (hw : WF c) (s s' : St) (t : Tid) (k : Nat) (h : tstep c s t k = some s') :
    (∀ i : Nat, s'.ks[i]? = some KPc.idle → s.ks[i]? = some KPc.idle) ∧ (t ≠ .proc → s'.proc = s.proc) := by
  cases t with
  | recv => simp only [tstep] at h; cases hr : rstep c s.sh k s.recv <;> simp [hr] at h; subst h; exact ⟨fun i hi => hi, fun _ => rfl⟩
  | send => simp only [tstep] at h; cases hr : sstep c s.sh s.send <;> simp [hr] at h; subst h; exact ⟨fun i hi => hi, fun _ => rfl⟩
  | proc => simp only [tstep] at h; cases hr : pstep c s.sh s.proc <;> simp [hr] at h; subst h; exact ⟨fun i hi => hi, fun hne => absurd rfl hne⟩
  | w i =>
    simp only [tstep] at h
    cases hk : s.ws[i]? with
    | none => simp [hk] at h
    | some w => cases hr : wstep c s.sh (.w i) w <;> simp [hk, hr] at h; subst h; exact ⟨fun i hi => hi, fun _ => rfl⟩
  | k i =>
    simp only [tstep] at h
    cases hk : s.ks[i]? with
    | none => simp [hk] at h
    | some pc =>
      cases hr : kstep c s.sh (.k i) pc with
      | none => simp [hk, hr] at h
      | some q =>
        obtain ⟨sh', pc'⟩ := q
        simp [hk, hr] at h; subst h
        refine ⟨?_, fun _ => rfl⟩
        intro j hj
        by_cases hij : i = j
        · subst hij
          have hlt : i < s.ks.length := (List.getElem?_eq_some_iff.mp hk).1
          simp [List.getElem?_set_self hlt] at hj
          exact absurd hj (kstep_frameE c hw _ _ _ _ _ hr).2
        · simpa [List.getElem?_set_ne hij] using hj

theorem started_persist_run (c : Cfg) (hw : WF c) (s : St) (sched : List Label)
    (hth : ∀ l, l ∈ sched → ∃ t k, l = .th t k) :
    ∀ i : Nat, (run c s sched).ks[i]? = some KPc.idle → s.ks[i]? = some KPc.idle := by
  induction sched generalizing s with
  | nil => exact fun i hi => hi
  | cons l ls ih =>
    have hls : ∀ l', l' ∈ ls → ∃ t k, l' = .th t k := fun l' hl' => hth l' (List.mem_cons_of_mem _ hl')
    simp only [run]
    cases h : step c s l with
    | none => exact ih s hls
    | some s' =>
      obtain ⟨t, k, rfl⟩ := hth l (List.mem_cons_self ..)
      intro i hi
      exact (started_persist c hw s s' t k h).1 i (ih s' hls i hi)

/-- while the connection a delivery is addressed to stays open, not reading and full, no step of
this connection's threads gets the processor out of that delivery -/
theorem held_persist_run (c : Cfg) (hw : WF c) (s : St) (sched : List Label)
    (hth : ∀ l, l ∈ sched → ∃ t k, l = .th t k) (hh : HeldByThird s = true) :
    HeldByThird (run c s sched) = true ∧ Final (run c s sched) = false := by
  induction sched generalizing s with
  | nil =>
    refine ⟨hh, ?_⟩
    simp only [HeldByThird, Bool.and_eq_true] at hh
    cases hp : s.proc <;> simp [hp] at hh
    simp [run, Final, hp]
  | cons l ls ih =>
    have hls : ∀ l', l' ∈ ls → ∃ t k, l' = .th t k := fun l' hl' => hth l' (List.mem_cons_of_mem _ hl')
    simp only [run]
    cases h : step c s l with
    | none => exact ih s hls hh
    | some s' =>
      obtain ⟨t, k, rfl⟩ := hth l (List.mem_cons_self ..)
      apply ih s' hls
      have hx := (persist_tstep c hw s s' t k h).2.2
      simp only [HeldByThird, Bool.and_eq_true] at hh ⊢
      by_cases htp : t = .proc
      · subst htp
        exfalso
        simp only [step, tstep] at h
        cases hp : s.proc <;> simp [hp] at hh
        rename_i as
        cases as with
        | nil => simp at hh
        | cons a rest =>
          cases a with
          | own l => simp at hh
          | foreign => simp [hp, pstep, hh.1] at h
      · have := (started_persist c hw s s' t k h).2 htp
        rw [hx, this]; exact hh

/-- in a state in which nothing can run and no read is pending, silence changes nothing: thread
turns and attempts of the read deadline to fire leave the state as it is -/
theorem silent_stuck (c : Cfg) (s : St) (hq : quiescent c s = true) (hk : estep c s .kaExpire = none)
    (sched : List Label) (hs : ∀ l, l ∈ sched → (∃ t k, l = .th t k) ∨ l = .env .kaExpire) :
    run c s sched = s := by
  induction sched with
  | nil => rfl
  | cons l ls ih =>
    have hl : step c s l = none := by
      rcases hs l (List.mem_cons_self ..) with ⟨t, k, rfl⟩ | rfl
      · have h1 := (quiescent_iff c s).mp hq t
        have h2 := tstep_isSome_k c s t k 1
        simp only [en] at h1
        rw [h1] at h2
        simp only [step]
        cases h3 : tstep c s t k with
        | none => rfl
        | some x => rw [h3] at h2; cases h2
      · exact hk
    simp only [run, hl]
    exact ih (fun l' hl' => hs l' (List.mem_cons_of_mem _ hl'))

/-- the configuration of the closed counterexamples and examples of `Properties/C16.lean`: a
16-byte ring, 8-byte blocks -/
def c0 : Cfg := { cap := 16, rblock := 8, wblock := 8 }

theorem c0_wf : WF c0 := ⟨rfl, rfl, rfl, rfl, by decide, by decide, by decide⟩

end Mqtt.Proofs.Lifecycle
