/-
Client role: packet identifiers of the requests in flight on one connection
(property C12, last clause).  Helper lemmas only; the property theorems are in
`Properties/C12.lean`.

The library numbers a request that comes without an identifier from a
process-wide counter (`message.nextPacketID`, `Model.Broker.nextPacketID`)
without looking at what is in flight, and a caller may supply identifiers of
its own.  This file says exactly when a request is written with an identifier
that no request in flight bears (`clearStep`), what follows when it is and when
it is not, and gives the condition on a history - in terms of the counter, i.e.
of the number of identifiers drawn process-wide - under which it always is
(`Roomy`).
-/
import Mqtt.Proofs.Client

set_option linter.unusedSimpArgs false

namespace Mqtt.Proofs.Client
open Mqtt.Iface.Broker (Pub Packet Bytes)
open Mqtt.Iface.Client
open Mqtt.Model.Client
open Mqtt.Model.Broker (nextPacketID)

/-! ### the counter -/

/-- two counter values that produce the same identifier are a multiple of 2^16 apart -/
theorem nextPacketID_fst (ctr : Nat) : (nextPacketID ctr).1 = (nextPacketID ctr).2 % 65536 :=
  (nextPacketID_spec ctr).1

theorem nextPacketID_gt (ctr : Nat) : ctr < (nextPacketID ctr).2 := by
  rcases (nextPacketID_spec ctr).2.2.2 with h | ⟨_, h⟩ <;> omega

/-- the number of identifiers drawn while the counter went from 0 to `n`: every value but the
multiples of 2^16 is one draw -/
def drawn (n : Nat) : Nat := n - n / 65536

/-- every call of `nextPacketID` is one draw, whether or not it passes a multiple of 2^16 -/
theorem drawn_next (ctr : Nat) : drawn (nextPacketID ctr).2 = drawn ctr + 1 := by
  unfold drawn
  have h1 := (nextPacketID_spec ctr).1
  have h2 := (nextPacketID_spec ctr).2.1
  rcases (nextPacketID_spec ctr).2.2.2 with h | ⟨h0, h⟩ <;> rw [h] at h1 ⊢ <;> omega

/-- between two counter values `n < n'` that produce identifiers lie fewer than 2^16 counter
steps exactly when fewer than 2^16 - 1 identifiers were drawn after `n`, up to and including `n'` -/
theorem window_iff_draws (n n' : Nat) (hn : n % 65536 ≠ 0) (h : n ≤ n') :
    n' - n < 65536 ↔ drawn n' - drawn n < 65535 := by
  unfold drawn; omega

/-- equal identifiers from different counter values: at least 2^16 counter steps apart, i.e. the
later one is at least the 65535th identifier drawn after the earlier one -/
theorem same_id_far_apart (n n' : Nat) (hlt : n < n') (h : n % 65536 = n' % 65536) :
    65536 ≤ n' - n ∧ 65535 ≤ drawn n' - drawn n := by
  unfold drawn; omega

theorem peer_ctr (c : C) (p : Packet) : (peer c p).1.ctr = c.ctr := by
  cases p with
  | publish pub =>
    simp only [peer]
    by_cases h2 : pub.qos = 2
    · simp [h2]
    · by_cases h1 : pub.qos = 1 <;> simp [h2, h1]
  | suback id codes =>
    simp only [peer]
    rw [(foldDone_frame subscribeDone subscribeDone_frame _ _).ctr]
  | unsuback id =>
    simp only [peer]
    rw [(foldDone_frame unsubscribeDone unsubscribeDone_frame _ _).ctr]
  | _ => rfl

theorem apiRegister_ctr (c : C) (call : Api) : (apiRegister c call).1.ctr = c.ctr := by
  cases call with
  | publish p tag =>
    simp only [apiRegister]
    by_cases h0 : p.qos = 0
    · simp [h0]
    · by_cases h1 : p.qos = 1 <;> simp [h0, h1]
  | _ => rfl

/-- the call draws an identifier: it is a request that needs one and comes without -/
def drawsId (call : Api) : Bool :=
  match callReq call with
  | some (_, id, _) => id == 0
  | none => false

theorem apiWrite_ctr (c : C) (call : Api) :
    (apiWrite c call).1.ctr = if drawsId call then (nextPacketID c.ctr).2 else c.ctr := by
  cases call with
  | publish p tag =>
    simp only [apiWrite, assignId, drawsId, callReq]
    by_cases h0 : (p.qos == 0) = true
    · simp [h0]
    · have h0' : (p.qos == 0) = false := by simpa using h0
      by_cases hi : (p.pktid == 0) = true <;> by_cases h1 : (p.qos == 1) = true <;> simp [h0', hi, h1]
  | subscribe id topics tag cb =>
    simp only [apiWrite, assignId, drawsId, callReq]
    by_cases hi : (id == 0) = true <;> simp [hi]
  | unsubscribe id topics tag =>
    simp only [apiWrite, assignId, drawsId, callReq]
    by_cases hi : (id == 0) = true <;> simp [hi]
  | ping tag => rfl

/-- the event makes this (connected) client draw an identifier -/
def evDraws (c : C) : Ev → Bool
  | .api call | .apiEarlyAck call _ => c.connected && drawsId call
  | _ => false

/-- only a request without identifier moves the counter: to the value `nextPacketID` returns -/
theorem step_ctr (c : C) (ev : Ev) :
    (step c ev).1.ctr = if evDraws c ev then (nextPacketID c.ctr).2 else c.ctr := by
  by_cases hc : c.connected = true
  · cases ev with
    | connect a =>
      cases a with
      | connack sp code => simp only [step, connect, evDraws]; split <;> rfl
      | _ => rfl
    | api call => rw [step_api c hc, apiRegister_ctr, apiWrite_ctr]; simp [evDraws, hc]
    | peer p => rw [step_peer c hc, peer_ctr]; rfl
    | apiEarlyAck call ack =>
      simp only [step, hc, Bool.not_true, Bool.false_eq_true, ↓reduceIte]
      rw [peer_ctr, apiRegister_ctr, apiWrite_ctr]; simp [evDraws, hc]
  · have hc' : c.connected = false := by simpa using hc
    cases ev with
    | connect a =>
      cases a with
      | connack sp code => simp only [step, connect, evDraws]; split <;> rfl
      | _ => rfl
    | _ => simp [step, hc', evDraws]

theorem step_ctr_mono (c : C) (ev : Ev) : c.ctr ≤ (step c ev).1.ctr := by
  rw [step_ctr]; split
  · exact Nat.le_of_lt (nextPacketID_gt c.ctr)
  · exact Nat.le_refl _

/-! ### identifiers in flight on the connection -/

/-- the identifiers of the requests in flight: the QoS 1 and QoS 2 publishes, subscribes and
unsubscribes of one connection share one identifier space (MQTT-2.3.1) -/
def inFlightIds (c : C) : List Nat := (c.pub1ack ++ c.pub2out ++ c.suback ++ c.unsuback).map (·.id)

theorem mem_inFlightIds (c : C) (i : Nat) : i ∈ inFlightIds c ↔ ∃ k, ∃ e ∈ queue k c, e.id = i := by
  unfold inFlightIds
  simp only [List.mem_map, List.mem_append]
  constructor
  · rintro ⟨e, h, rfl⟩
    rcases h with ((h | h) | h) | h
    · exact ⟨.pub1, e, h, rfl⟩
    · exact ⟨.pub2, e, h, rfl⟩
    · exact ⟨.sub, e, h, rfl⟩
    · exact ⟨.unsub, e, h, rfl⟩
  · rintro ⟨k, e, he, rfl⟩
    cases k <;> simp only [queue] at he <;> exact ⟨e, by simp [he], rfl⟩

/-- the requests in flight bear pairwise distinct identifiers -/
def AllDistinct (c : C) : Prop := (inFlightIds c).Nodup

/-- … that is: within each ack queue, and between any two of them -/
theorem allDistinct_iff (c : C) :
    AllDistinct c ↔ IdsNodup c ∧
      ∀ k1 k2, k1 ≠ k2 → ∀ e1 ∈ queue k1 c, ∀ e2 ∈ queue k2 c, e1.id ≠ e2.id := by
  unfold AllDistinct inFlightIds IdsNodup
  simp only [List.map_append, List.nodup_append, List.mem_append, List.mem_map]
  constructor
  · rintro ⟨⟨⟨h1, h2, h12⟩, h3, h123⟩, h4, h1234⟩
    refine ⟨fun k => by cases k <;> assumption, ?_⟩
    intro k1 k2 hk e1 he1 e2 he2 heq
    cases k1 <;> cases k2 <;> simp only [queue, ne_eq, not_true_eq_false] at he1 he2 hk
    · exact h12 _ ⟨e1, he1, rfl⟩ _ ⟨e2, he2, rfl⟩ heq
    · exact h123 _ (Or.inl ⟨e1, he1, rfl⟩) _ ⟨e2, he2, rfl⟩ heq
    · exact h1234 _ (Or.inl (Or.inl ⟨e1, he1, rfl⟩)) _ ⟨e2, he2, rfl⟩ heq
    · exact h12 _ ⟨e2, he2, rfl⟩ _ ⟨e1, he1, rfl⟩ heq.symm
    · exact h123 _ (Or.inr ⟨e1, he1, rfl⟩) _ ⟨e2, he2, rfl⟩ heq
    · exact h1234 _ (Or.inl (Or.inr ⟨e1, he1, rfl⟩)) _ ⟨e2, he2, rfl⟩ heq
    · exact h123 _ (Or.inl ⟨e2, he2, rfl⟩) _ ⟨e1, he1, rfl⟩ heq.symm
    · exact h123 _ (Or.inr ⟨e2, he2, rfl⟩) _ ⟨e1, he1, rfl⟩ heq.symm
    · exact h1234 _ (Or.inr ⟨e1, he1, rfl⟩) _ ⟨e2, he2, rfl⟩ heq
    · exact h1234 _ (Or.inl (Or.inl ⟨e2, he2, rfl⟩)) _ ⟨e1, he1, rfl⟩ heq.symm
    · exact h1234 _ (Or.inl (Or.inr ⟨e2, he2, rfl⟩)) _ ⟨e1, he1, rfl⟩ heq.symm
    · exact h1234 _ (Or.inr ⟨e2, he2, rfl⟩) _ ⟨e1, he1, rfl⟩ heq.symm
  · rintro ⟨hn, hx⟩
    refine ⟨⟨⟨hn .pub1, hn .pub2, ?_⟩, hn .sub, ?_⟩, hn .unsub, ?_⟩
    · rintro a ⟨e1, he1, rfl⟩ b ⟨e2, he2, rfl⟩
      exact hx .pub1 .pub2 (by decide) e1 he1 e2 he2
    · rintro a (⟨e1, he1, rfl⟩ | ⟨e1, he1, rfl⟩) b ⟨e2, he2, rfl⟩
      · exact hx .pub1 .sub (by decide) e1 he1 e2 he2
      · exact hx .pub2 .sub (by decide) e1 he1 e2 he2
    · rintro a ((⟨e1, he1, rfl⟩ | ⟨e1, he1, rfl⟩) | ⟨e1, he1, rfl⟩) b ⟨e2, he2, rfl⟩
      · exact hx .pub1 .unsub (by decide) e1 he1 e2 he2
      · exact hx .pub2 .unsub (by decide) e1 he1 e2 he2
      · exact hx .sub .unsub (by decide) e1 he1 e2 he2

theorem allDistinct_init : AllDistinct init := by
  unfold AllDistinct inFlightIds init; simp

/-! ### registration -/

/-- a call that asks to be registered as `(k, a, tag)` registers one request, in queue `k`, under `a` -/
theorem reqOf_of_callReq (call : Api) (k : Kind) (a tag : Nat) (h : callReq call = some (k, a, tag)) :
    (∃ r, reqOf k call = some r ∧ r.id = a ∧ r.tag = tag) ∧ ∀ k', k' ≠ k → reqOf k' call = none := by
  cases call with
  | publish p tag' =>
    simp only [callReq] at h
    by_cases h0 : (p.qos == 0) = true
    · simp [h0] at h
    · have h0' : (p.qos == 0) = false := by simpa using h0
      simp only [h0', Bool.false_eq_true, ↓reduceIte] at h
      by_cases h1 : (p.qos == 1) = true
      · simp only [h1, ↓reduceIte, Option.some.injEq, Prod.mk.injEq] at h
        obtain ⟨rfl, rfl, rfl⟩ := h
        refine ⟨⟨{ id := p.pktid, tag := tag', pub := some p }, by simp [reqOf, h1], rfl, rfl⟩, ?_⟩
        intro k' hk; cases k' <;> simp [reqOf, h0', h1] at hk ⊢
      · have h1' : (p.qos == 1) = false := by simpa using h1
        simp only [h1', Bool.false_eq_true, ↓reduceIte, Option.some.injEq, Prod.mk.injEq] at h
        obtain ⟨rfl, rfl, rfl⟩ := h
        refine ⟨⟨{ id := p.pktid, tag := tag', pub := some p }, by simp [reqOf, h0', h1'], rfl, rfl⟩, ?_⟩
        intro k' hk; cases k' <;> simp [reqOf, h0', h1'] at hk ⊢
  | subscribe id topics tag' cb =>
    simp only [callReq, Option.some.injEq, Prod.mk.injEq] at h
    obtain ⟨rfl, rfl, rfl⟩ := h
    exact ⟨⟨_, rfl, rfl, rfl⟩, fun k' hk => by cases k' <;> simp [reqOf] at hk ⊢⟩
  | unsubscribe id topics tag' =>
    simp only [callReq, Option.some.injEq, Prod.mk.injEq] at h
    obtain ⟨rfl, rfl, rfl⟩ := h
    exact ⟨⟨_, rfl, rfl, rfl⟩, fun k' hk => by cases k' <;> simp [reqOf] at hk ⊢⟩
  | ping tag' => simp [callReq] at h

/-- `Wait` under an identifier that is not in flight in the queue: the request is registered … -/
theorem regAccepted_clear (c : C) (call : Api) (k : Kind) (a tag : Nat) (h : callReq call = some (k, a, tag))
    (hq : ∀ e ∈ queue k c, e.id ≠ a) :
    ∃ r, regAccepted k c call = [r] ∧ r.id = a ∧ r.tag = tag := by
  obtain ⟨⟨r, hr, hid, htag⟩, _⟩ := reqOf_of_callReq call k a tag h
  refine ⟨r, ?_, hid, htag⟩
  unfold regAccepted
  rw [hr]
  have : (queue k c).any (fun e => e.id == r.id) = false := by
    rw [List.any_eq_false]; intro e he; rw [hid]; simpa using hq e he
  simp [this]

/-- … under one that is: `Wait` drops the registration (the request has been written all the same) -/
theorem regAccepted_clash (c : C) (call : Api) (k : Kind) (a tag : Nat) (h : callReq call = some (k, a, tag))
    (hq : ∃ e ∈ queue k c, e.id = a) : ∀ k', regAccepted k' c call = [] := by
  obtain ⟨⟨r, hr, hid, _⟩, hne⟩ := reqOf_of_callReq call k a tag h
  intro k'
  unfold regAccepted
  by_cases hk : k' = k
  · subst hk
    rw [hr]
    obtain ⟨e, he, hea⟩ := hq
    have : (queue k' c).any (fun e => e.id == r.id) = true :=
      List.any_eq_true.mpr ⟨e, he, by rw [hid]; simpa using hea⟩
    simp [this]
  · rw [hne k' hk]

/-- in the other queues nothing is registered -/
theorem regAccepted_other (c : C) (call : Api) (k : Kind) (a tag : Nat) (h : callReq call = some (k, a, tag))
    (k' : Kind) (hk : k' ≠ k) : regAccepted k' c call = [] := by
  unfold regAccepted
  rw [(reqOf_of_callReq call k a tag h).2 k' hk]

/-- a call that asks for no registration registers nothing -/
theorem regAccepted_none (c : C) (call : Api) (h : callReq call = none) (k : Kind) : regAccepted k c call = [] := by
  unfold regAccepted
  have : reqOf k call = none := by
    cases call with
    | publish p tag =>
      simp only [callReq] at h
      by_cases h0 : (p.qos == 0) = true
      · cases k <;> simp [reqOf, h0]
        have : p.qos = 0 := by simpa using h0
        omega
      · have h0' : (p.qos == 0) = false := by simpa using h0
        simp only [h0', Bool.false_eq_true, ↓reduceIte] at h
        split at h <;> cases h
    | subscribe id topics tag cb => cases h
    | unsubscribe id topics tag => cases h
    | ping tag => cases k <;> rfl
  rw [this]

/-- registering under an identifier that no request in flight bears keeps the identifiers in flight
pairwise distinct -/
theorem allDistinct_apiRegister (c : C) (call : Api) (h : AllDistinct c)
    (hclear : ∀ k a tag, callReq call = some (k, a, tag) → a ∉ inFlightIds c) :
    AllDistinct (apiRegister c call).1 := by
  rw [allDistinct_iff] at h ⊢
  refine ⟨idsNodup_apiRegister c call h.1, ?_⟩
  intro k1 k2 hk e1 he1 e2 he2
  rw [apiRegister_queue, List.mem_append] at he1 he2
  cases hcr : callReq call with
  | none =>
    rw [regAccepted_none c call hcr] at he1 he2
    simp only [List.not_mem_nil, or_false] at he1 he2
    exact h.2 k1 k2 hk e1 he1 e2 he2
  | some x =>
    obtain ⟨k, a, tag⟩ := x
    have hnot := hclear k a tag hcr
    rw [mem_inFlightIds] at hnot
    rcases he1 with he1 | he1 <;> rcases he2 with he2 | he2
    · exact h.2 k1 k2 hk e1 he1 e2 he2
    · obtain ⟨⟨t, hreq⟩, _⟩ := regAccepted_ids k2 c call e2 he2
      rw [hcr] at hreq
      simp only [Option.some.injEq, Prod.mk.injEq] at hreq
      intro heq
      exact hnot ⟨k1, e1, he1, by rw [heq]; exact hreq.2.1.symm⟩
    · obtain ⟨⟨t, hreq⟩, _⟩ := regAccepted_ids k1 c call e1 he1
      rw [hcr] at hreq
      simp only [Option.some.injEq, Prod.mk.injEq] at hreq
      intro heq
      exact hnot ⟨k2, e2, he2, by rw [← heq]; exact hreq.2.1.symm⟩
    · obtain ⟨⟨t1, hreq1⟩, _⟩ := regAccepted_ids k1 c call e1 he1
      obtain ⟨⟨t2, hreq2⟩, _⟩ := regAccepted_ids k2 c call e2 he2
      rw [hcr] at hreq1 hreq2
      simp only [Option.some.injEq, Prod.mk.injEq] at hreq1 hreq2
      exact absurd (hreq1.1.symm.trans hreq2.1) hk

theorem inFlightIds_peer_subset (c : C) (p : Packet) : ∀ i ∈ inFlightIds (peer c p).1, i ∈ inFlightIds c := by
  intro i hi
  rw [mem_inFlightIds] at hi ⊢
  obtain ⟨k, e, he, rfl⟩ := hi
  have hm : e.id ∈ (queue k (peer c p).1).map (·.id) := List.mem_map.mpr ⟨e, he, rfl⟩
  obtain ⟨e', he', hid⟩ := List.mem_map.mp ((peer_ids_sublist k c p).subset hm)
  exact ⟨k, e', he', hid⟩

theorem allDistinct_peer (c : C) (p : Packet) (h : AllDistinct c) : AllDistinct (peer c p).1 := by
  rw [allDistinct_iff] at h ⊢
  refine ⟨idsNodup_peer c p h.1, ?_⟩
  intro k1 k2 hk e1 he1 e2 he2
  obtain ⟨e1', he1', hid1⟩ := List.mem_map.mp ((peer_ids_sublist k1 c p).subset (List.mem_map.mpr ⟨e1, he1, rfl⟩))
  obtain ⟨e2', he2', hid2⟩ := List.mem_map.mp ((peer_ids_sublist k2 c p).subset (List.mem_map.mpr ⟨e2, he2, rfl⟩))
  rw [← hid1, ← hid2]
  exact h.2 k1 k2 hk e1' he1' e2' he2'

theorem inFlightIds_apiWrite (c : C) (call : Api) : inFlightIds (apiWrite c call).1 = inFlightIds c := by
  have h := fun k => apiWrite_queue k c call
  have h1 := h .pub1; have h2 := h .pub2; have h3 := h .sub; have h4 := h .unsub
  simp only [queue] at h1 h2 h3 h4
  unfold inFlightIds
  rw [h1, h2, h3, h4]

theorem inFlightIds_connect (c : C) (a : Answer) : inFlightIds (connect c a).1 = inFlightIds c := by
  cases a with
  | connack sp code => simp only [connect]; split <;> rfl
  | _ => rfl

/-! ### one event -/

/-- the request of this event is written with an identifier that no request in flight on the
connection bears (vacuous for events that write no request with an identifier) -/
def clearStep (c : C) : Ev → Bool
  | .api call | .apiEarlyAck call _ =>
    match callReq call with
    | some (_, id, _) => !c.connected || !(inFlightIds c).contains (assigned c id)
    | none => true
  | _ => true

/-- **Preservation.**  A step whose request is written with an identifier not in flight keeps
the identifiers in flight pairwise distinct - early acknowledgements included. -/
theorem allDistinct_step_basic (c : C) (ev : Ev) (he : isEarly ev = false) (h : AllDistinct c)
    (hclear : clearStep c ev = true) :
    AllDistinct (step c ev).1 := by
  by_cases hc : c.connected = true
  · cases ev with
    | connect a =>
      show AllDistinct (connect c a).1
      unfold AllDistinct; rw [inFlightIds_connect]; exact h
    | api call =>
      rw [step_api c hc]
      refine allDistinct_apiRegister _ _ (by unfold AllDistinct; rw [inFlightIds_apiWrite]; exact h) ?_
      intro k a tag hreq
      rw [inFlightIds_apiWrite]
      cases hcr : callReq call with
      | none =>
        exfalso
        cases call with
        | publish p tag' =>
          simp only [callReq] at hcr
          by_cases h0 : (p.qos == 0) = true
          · simp [apiWrite, h0, callReq] at hreq
          · have h0' : (p.qos == 0) = false := by simpa using h0
            simp only [h0', Bool.false_eq_true, ↓reduceIte] at hcr
            split at hcr <;> cases hcr
        | subscribe id' topics tag' cb => cases hcr
        | unsubscribe id' topics tag' => cases hcr
        | ping tag' => simp [apiWrite, callReq] at hreq
      | some x =>
        obtain ⟨k', id, tag'⟩ := x
        rw [(apiWrite_ids c call k' id tag' hcr).2] at hreq
        simp only [Option.some.injEq, Prod.mk.injEq] at hreq
        simp only [clearStep, hcr, hc, Bool.not_true, Bool.false_or, Bool.not_eq_true',
          List.contains_eq_mem, decide_eq_false_iff_not] at hclear
        rw [← hreq.2.1]; exact hclear
    | peer p => rw [step_peer c hc]; exact allDistinct_peer _ _ h
    | apiEarlyAck call ack => simp [isEarly] at he
  · have hc' : c.connected = false := by simpa using hc
    cases ev with
    | connect a =>
      show AllDistinct (connect c a).1
      unfold AllDistinct; rw [inFlightIds_connect]; exact h
    | _ => simp only [step, hc', Bool.not_false, ↓reduceIte]; exact h

/-- **Preservation.**  A step whose request is written with an identifier not in flight keeps
the identifiers in flight pairwise distinct - the composite event (the call, then the packet)
included. -/
theorem allDistinct_step (c : C) (ev : Ev) (h : AllDistinct c) (hclear : clearStep c ev = true) :
    AllDistinct (step c ev).1 := by
  cases ev with
  | apiEarlyAck call ack =>
    rw [step_early]
    exact allDistinct_step_basic _ (.peer ack) rfl (allDistinct_step_basic c (.api call) rfl h hclear) rfl
  | connect a => exact allDistinct_step_basic c _ rfl h hclear
  | api call => exact allDistinct_step_basic c _ rfl h hclear
  | peer p => exact allDistinct_step_basic c _ rfl h hclear

/-- the request written by a step with a clear identifier is registered, under that identifier
(also when its acknowledgement arrives before the registration) -/
theorem clear_registered (c : C) (hc : c.connected = true) (ev : Ev) (call : Api)
    (hev : ev = .api call ∨ ∃ ack, ev = .apiEarlyAck call ack) (k : Kind) (id tag : Nat)
    (hreq : callReq call = some (k, id, tag)) (hclear : clearStep c ev = true) :
    ∃ r, stepAccepted k c ev = [r] ∧ r.id = assigned c id ∧ r.tag = tag := by
  have hnot : assigned c id ∉ inFlightIds c := by
    rcases hev with rfl | ⟨ack, rfl⟩ <;>
      simpa only [clearStep, hreq, hc, Bool.not_true, Bool.false_or, Bool.not_eq_true',
        List.contains_eq_mem, decide_eq_false_iff_not] using hclear
  have h2 := (apiWrite_ids c call k id tag hreq).2
  rcases hev with rfl | ⟨ack, rfl⟩
  · simp only [stepAccepted, hc, ↓reduceIte]
    refine regAccepted_clear _ _ k _ tag h2 ?_
    intro e he heq
    rw [apiWrite_queue] at he
    exact hnot ((mem_inFlightIds c _).mpr ⟨k, e, he, heq⟩)
  · simp only [stepAccepted, hc, ↓reduceIte]
    refine regAccepted_clear _ _ k _ tag h2 ?_
    intro e he heq
    rw [apiWrite_queue] at he
    exact hnot ((mem_inFlightIds c _).mpr ⟨k, e, he, heq⟩)

/-- **Exactness** (a call that returns before its acknowledgement is processed).  From a state
whose identifiers in flight are pairwise distinct, the step leaves them pairwise distinct *and*
registers its request if and only if the identifier it writes is not in flight: otherwise either
the registration is dropped (same ack queue) or two requests in flight bear the identifier. -/
theorem api_clear_iff (c : C) (hc : c.connected = true) (h : AllDistinct c) (call : Api) (k : Kind) (id tag : Nat)
    (hreq : callReq call = some (k, id, tag)) :
    (AllDistinct (step c (.api call)).1 ∧ stepAccepted k c (.api call) ≠ []) ↔ assigned c id ∉ inFlightIds c := by
  have h2 := (apiWrite_ids c call k id tag hreq).2
  constructor
  · rintro ⟨hd, hacc⟩ hin
    obtain ⟨k2, e, he, heq⟩ := (mem_inFlightIds c _).mp hin
    by_cases hsame : ∃ e ∈ queue k c, e.id = assigned c id
    · apply hacc
      simp only [stepAccepted, hc, ↓reduceIte]
      refine regAccepted_clash _ _ k _ tag h2 ?_ k
      obtain ⟨e', he', heq'⟩ := hsame
      exact ⟨e', by rw [apiWrite_queue]; exact he', heq'⟩
    · have hk : k2 ≠ k := by
        rintro rfl; exact hsame ⟨e, he, heq⟩
      obtain ⟨r, hr, hid, _⟩ := regAccepted_clear (apiWrite c call).1 _ k _ tag h2 (by
        intro e' he' heq'; rw [apiWrite_queue] at he'; exact hsame ⟨e', he', heq'⟩)
      rw [step_api c hc, allDistinct_iff] at hd
      refine hd.2 k2 k hk e ?_ r ?_ (heq.trans hid.symm)
      · rw [apiRegister_queue, apiWrite_queue]; exact List.mem_append_left _ he
      · rw [apiRegister_queue, hr]; simp
  · intro hnot
    have hclear : clearStep c (.api call) = true := by
      simp only [clearStep, hreq, hc, Bool.not_true, Bool.false_or, Bool.not_eq_true',
        List.contains_eq_mem, decide_eq_false_iff_not]
      exact hnot
    refine ⟨allDistinct_step c _ h hclear, ?_⟩
    obtain ⟨r, hr, _⟩ := clear_registered c hc _ call (Or.inl rfl) k id tag hreq hclear
    rw [hr]; simp

/-! ### histories of a connection inside a process

The counter is process-wide: between two events of one connection other
connections may draw identifiers.  `others d`: the counter advances by `d`. -/

inductive PEv where
  | own (ev : Ev)
  | others (d : Nat)
deriving Repr

def pstep (c : C) : PEv → C
  | .own ev => (step c ev).1
  | .others d => { c with ctr := c.ctr + d }

def prunState (c : C) (xs : List PEv) : C := xs.foldl pstep c

theorem prunState_append (c : C) (a b : List PEv) : prunState c (a ++ b) = prunState (prunState c a) b := by
  simp [prunState, List.foldl_append]

/-- every request of the history is written with an identifier that is not in flight at that moment -/
def Clear (c : C) : List PEv → Bool
  | [] => true
  | .own ev :: xs => clearStep c ev && Clear (step c ev).1 xs
  | .others d :: xs => Clear { c with ctr := c.ctr + d } xs

theorem clear_append (c : C) (a b : List PEv) : Clear c (a ++ b) = (Clear c a && Clear (prunState c a) b) := by
  induction a generalizing c with
  | nil => simp [Clear, prunState]
  | cons x a ih =>
    cases x with
    | own ev => simp only [List.cons_append, Clear, ih, Bool.and_assoc]; rfl
    | others d => simp only [List.cons_append, Clear, ih]; rfl

theorem allDistinct_pstep (c : C) (x : PEv) (h : AllDistinct c) (hclear : Clear c [x] = true) :
    AllDistinct (pstep c x) := by
  cases x with
  | own ev =>
    simp only [Clear, Bool.and_true] at hclear
    exact allDistinct_step c ev h hclear
  | others d => exact h

theorem allDistinct_prun (c : C) (xs : List PEv) (h : AllDistinct c) (hclear : Clear c xs = true) :
    AllDistinct (prunState c xs) := by
  induction xs generalizing c with
  | nil => exact h
  | cons x xs ih =>
    have hx : Clear c [x] = true ∧ Clear (pstep c x) xs = true := by
      cases x with
      | own ev => simpa [Clear, pstep] using hclear
      | others d => simpa [Clear, pstep] using hclear
    exact ih _ (allDistinct_pstep c x h hx.1) hx.2

/-! ### when every identifier is clear: the window of the counter

Ghost bookkeeping: `born` lists, for the requests in flight whose identifier the
library assigned, the identifier and the counter value that produced it. -/

structure G where
  c : C
  born : List (Nat × Nat) := []

def gstep (g : G) : PEv → G
  | .others d => ⟨{ g.c with ctr := g.c.ctr + d }, g.born⟩
  | .own ev =>
    ⟨(step g.c ev).1,
     (if evDraws g.c ev then ((nextPacketID g.c.ctr).1, (nextPacketID g.c.ctr).2) :: g.born else g.born).filter
       (fun b => (inFlightIds (step g.c ev).1).contains b.1)⟩

theorem gstep_c (g : G) (x : PEv) : (gstep g x).c = pstep g.c x := by cases x <;> rfl

/-- every recorded identifier is its counter value modulo 2^16, and the counter has not gone back -/
def GInv (g : G) : Prop := ∀ b ∈ g.born, b.1 = b.2 % 65536 ∧ b.2 ≤ g.c.ctr

theorem gInv_gstep (g : G) (x : PEv) (h : GInv g) : GInv (gstep g x) := by
  cases x with
  | others d =>
    intro b hb
    obtain ⟨h1, h2⟩ := h b hb
    exact ⟨h1, Nat.le_trans h2 (Nat.le_add_right _ _)⟩
  | own ev =>
    intro b hb
    simp only [gstep] at hb
    have hb' := (List.mem_filter.mp hb).1
    have hmono := step_ctr_mono g.c ev
    by_cases hd : evDraws g.c ev = true
    · simp only [hd, ↓reduceIte, List.mem_cons] at hb'
      rcases hb' with rfl | hb'
      · refine ⟨nextPacketID_fst _, ?_⟩
        show _ ≤ (step g.c ev).1.ctr
        rw [step_ctr, hd]; exact Nat.le_refl _
      · obtain ⟨h1, h2⟩ := h b hb'
        exact ⟨h1, Nat.le_trans h2 hmono⟩
    · simp only [hd, Bool.false_eq_true, ↓reduceIte] at hb'
      obtain ⟨h1, h2⟩ := h b hb'
      exact ⟨h1, Nat.le_trans h2 hmono⟩

/-- the condition on one event.  A request with a caller-supplied identifier: the identifier is
not in flight.  A request the library numbers: (window) every library-assigned identifier in
flight was produced fewer than 2^16 counter steps before the new one - fewer than 2^16 - 1
identifiers have been drawn process-wide since (`window_iff_draws`) -, and (caller) the new
identifier is not a caller-supplied one in flight. -/
def roomyStep (g : G) : PEv → Bool
  | .others _ => true
  | .own ev =>
    match ev with
    | .api call | .apiEarlyAck call _ =>
      match callReq call with
      | some (_, id, _) =>
        !g.c.connected ||
        (if id == 0 then
           g.born.all (fun b => (nextPacketID g.c.ctr).2 - b.2 < 65536) &&
           !((inFlightIds g.c).filter (fun i => !(g.born.map (·.1)).contains i)).contains (nextPacketID g.c.ctr).1
         else !(inFlightIds g.c).contains id)
      | none => true
    | _ => true

def Roomy (g : G) : List PEv → Bool
  | [] => true
  | x :: xs => roomyStep g x && Roomy (gstep g x) xs

theorem roomy_clearStep (g : G) (hinv : GInv g) (ev : Ev) (h : roomyStep g (.own ev) = true) :
    clearStep g.c ev = true := by
  have key : ∀ call, (match callReq call with
      | some (_, id, _) =>
        !g.c.connected ||
        (if id == 0 then
           g.born.all (fun b => (nextPacketID g.c.ctr).2 - b.2 < 65536) &&
           !((inFlightIds g.c).filter (fun i => !(g.born.map (·.1)).contains i)).contains (nextPacketID g.c.ctr).1
         else !(inFlightIds g.c).contains id)
      | none => true) = true →
      (match callReq call with
      | some (_, id, _) => !g.c.connected || !(inFlightIds g.c).contains (assigned g.c id)
      | none => true) = true := by
    intro call hh
    cases hcr : callReq call with
    | none => rfl
    | some x =>
      obtain ⟨k, id, tag⟩ := x
      simp only [hcr] at hh ⊢
      by_cases hc : g.c.connected = true
      · simp only [hc, Bool.not_true, Bool.false_or] at hh ⊢
        by_cases hid : id = 0
        · subst hid
          simp only [BEq.rfl, ↓reduceIte, Bool.and_eq_true, List.all_eq_true, decide_eq_true_eq,
            Bool.not_eq_true', List.contains_eq_mem, decide_eq_false_iff_not, List.mem_filter,
            List.mem_map, not_and, Bool.not_eq_eq_eq_not, Bool.not_true] at hh
          obtain ⟨hwin, hcaller⟩ := hh
          simp only [assigned, ↓reduceIte, Bool.not_eq_true', List.contains_eq_mem, decide_eq_false_iff_not]
          intro hin
          by_cases hb : ∃ b ∈ g.born, b.1 = (nextPacketID g.c.ctr).1
          · obtain ⟨b, hb, hbe⟩ := hb
            have hw := hwin b hb
            obtain ⟨h1, h2⟩ := hinv b hb
            have hgt := nextPacketID_gt g.c.ctr
            have hf := nextPacketID_fst g.c.ctr
            omega
          · exact hcaller hin hb
        · have hid' : (id == 0) = false := by simpa using hid
          simp only [hid', Bool.false_eq_true, ↓reduceIte] at hh
          simp only [assigned, hid, ↓reduceIte]
          exact hh
      · have hc' : g.c.connected = false := by simpa using hc
        simp [hc']
  cases ev with
  | api call => exact key call h
  | apiEarlyAck call ack => exact key call h
  | connect a => rfl
  | peer p => rfl

/-- **The window.**  A history in which every event meets the condition writes every request with
an identifier that is not in flight. -/
theorem roomy_clear (g : G) (xs : List PEv) (hinv : GInv g) (h : Roomy g xs = true) : Clear g.c xs = true := by
  induction xs generalizing g with
  | nil => rfl
  | cons x xs ih =>
    simp only [Roomy, Bool.and_eq_true] at h
    have ih' := ih (gstep g x) (gInv_gstep g x hinv) h.2
    rw [gstep_c] at ih'
    cases x with
    | own ev =>
      simp only [Clear, Bool.and_eq_true]
      exact ⟨roomy_clearStep g hinv ev h.1, ih'⟩
    | others d => exact ih'

/-! ### every identifier written is non-zero -/

theorem written_completeOut (tag : Nat) (err : Bool) : (completeOut tag err).filterMap writtenId = [] := by
  unfold completeOut; split <;> rfl

theorem written_onPublish (c : C) (p : Pub) : (onPublish c p).filterMap writtenId = [] := by
  unfold onPublish
  split
  · rfl
  · rw [List.filterMap_map]
    apply List.filterMap_eq_nil_iff.mpr
    intro a _; rfl

theorem written_flatMap_nil {α} (l : List α) (f : α → List Out) (h : ∀ a, (f a).filterMap writtenId = []) :
    (l.flatMap f).filterMap writtenId = [] := by
  induction l with
  | nil => rfl
  | cons a l ih => rw [List.flatMap_cons, List.filterMap_append, h a, ih]; rfl

theorem written_foldDone (f : C → Req → C × List Out) (hf : ∀ c r, (f c r).2.filterMap writtenId = []) (c : C)
    (rs : List Req) : (foldDone f c rs).2.filterMap writtenId = [] := by
  induction rs generalizing c with
  | nil => rfl
  | cons r rs ih =>
    simp only [foldDone]
    rw [List.filterMap_append, hf, ih]; rfl

theorem written_subscribeDone (c : C) (r : Req) : (subscribeDone c r).2.filterMap writtenId = [] := by
  unfold subscribeDone
  split
  · exact written_completeOut _ _
  · exact written_completeOut _ _

theorem written_unsubscribeDone (c : C) (r : Req) : (unsubscribeDone c r).2.filterMap writtenId = [] := by
  unfold unsubscribeDone
  exact written_completeOut _ _

/-- processing a packet from the peer writes no request -/
theorem written_peer (c : C) (p : Packet) : (peer c p).2.filterMap writtenId = [] := by
  cases p with
  | publish pub =>
    simp only [peer]
    by_cases h2 : (pub.qos == 2) = true
    · simp [h2, writtenId]
    · have h2' : (pub.qos == 2) = false := by simpa using h2
      by_cases h1 : (pub.qos == 1) = true
      · simp only [h2', h1, Bool.false_eq_true, ↓reduceIte, List.filterMap_cons, writtenId]
        exact written_onPublish c pub
      · have h1' : (pub.qos == 1) = false := by simpa using h1
        simp only [h2', h1', Bool.false_eq_true, ↓reduceIte]
        exact written_onPublish c pub
  | pubrel id =>
    simp only [peer]
    rw [List.filterMap_append, written_flatMap_nil]
    · rfl
    · intro r; split
      · exact written_onPublish _ _
      · rfl
  | puback id =>
    simp only [peer]
    exact written_flatMap_nil _ _ (fun r => written_completeOut _ _)
  | pubcomp id =>
    simp only [peer]
    exact written_flatMap_nil _ _ (fun r => written_completeOut _ _)
  | suback id codes =>
    simp only [peer]
    exact written_foldDone _ written_subscribeDone _ _
  | unsuback id =>
    simp only [peer]
    exact written_foldDone _ written_unsubscribeDone _ _
  | pingresp =>
    simp only [peer]
    exact written_flatMap_nil _ _ (fun r => written_completeOut _ _)
  | _ => rfl

theorem written_apiRegister (c : C) (call : Api) : (apiRegister c call).2.filterMap writtenId = [] := by
  cases call with
  | publish p tag =>
    simp only [apiRegister]
    by_cases h0 : (p.qos == 0) = true
    · simp only [h0, ↓reduceIte]; exact written_completeOut _ _
    · have h0' : (p.qos == 0) = false := by simpa using h0
      simp only [h0', Bool.false_eq_true, ↓reduceIte]
      split <;> rfl
  | _ => rfl

/-- what a call writes: one request, with the identifier `assigned c id`, or (QoS 0, ping) none -/
theorem written_apiWrite (c : C) (call : Api) :
    (apiWrite c call).2.1.filterMap writtenId =
      match callReq call with
      | some (_, id, _) => [assigned c id]
      | none => [] := by
  cases hcr : callReq call with
  | some x => obtain ⟨k, id, tag⟩ := x; exact (apiWrite_ids c call k id tag hcr).1
  | none =>
    cases call with
    | publish p tag =>
      simp only [callReq] at hcr
      by_cases h0 : (p.qos == 0) = true
      · simp [apiWrite, h0, writtenId]
      · have h0' : (p.qos == 0) = false := by simpa using h0
        simp only [h0', Bool.false_eq_true, ↓reduceIte] at hcr
        split at hcr <;> cases hcr
    | subscribe id topics tag cb => cases hcr
    | unsubscribe id topics tag => cases hcr
    | ping tag => rfl

/-- the identifiers of the requests one event makes the client write -/
theorem step_written (c : C) (ev : Ev) :
    (step c ev).2.filterMap writtenId =
      match ev with
      | .api call | .apiEarlyAck call _ =>
        if c.connected then
          match callReq call with
          | some (_, id, _) => [assigned c id]
          | none => []
        else []
      | _ => [] := by
  by_cases hc : c.connected = true
  · cases ev with
    | connect a =>
      cases a with
      | connack sp code => simp only [step, connect]; split <;> rfl
      | _ => rfl
    | api call =>
      rw [step_api c hc, List.filterMap_append, written_apiWrite, written_apiRegister]
      simp [hc]
    | peer p => rw [step_peer c hc]; exact written_peer c p
    | apiEarlyAck call ack =>
      simp only [step, hc, Bool.not_true, Bool.false_eq_true, ↓reduceIte]
      rw [List.filterMap_append, List.filterMap_append, written_apiWrite, written_peer, written_apiRegister]
      simp
  · have hc' : c.connected = false := by simpa using hc
    cases ev with
    | connect a =>
      cases a with
      | connack sp code => simp only [step, connect]; split <;> rfl
      | _ => rfl
    | api call => simp [step, hc', writtenId]
    | peer p => simp [step, hc']
    | apiEarlyAck call ack => simp [step, hc', writtenId]

/-- no event, in no state, makes the client write a request with identifier 0 -/
theorem step_written_nonzero (c : C) (ev : Ev) : ∀ i ∈ (step c ev).2.filterMap writtenId, i ≠ 0 := by
  intro i hi
  rw [step_written] at hi
  have key : ∀ call, i ∈ (if c.connected then
          match callReq call with
          | some (_, id, _) => [assigned c id]
          | none => []
        else []) → i ≠ 0 := by
    intro call hi
    split at hi
    · split at hi
      · rw [List.mem_singleton.mp hi]; exact assigned_ne_zero c _
      · cases hi
    · cases hi
  cases ev with
  | api call => exact key call hi
  | apiEarlyAck call ack => exact key call hi
  | connect a => cases hi
  | peer p => cases hi

/-! ### exactly-once completion for requests the library numbers

`Fresh` (Proofs/Client) admits caller-supplied identifiers only.  `FreshA` asks
of every request just that the identifier it is *written with* - the caller's or
the one the library assigns - is not in flight in its ack queue. -/

def freshStepA (c : C) : Ev → Bool
  | .api call | .apiEarlyAck call _ =>
    match callReq call with
    | some (k, id, _) => !(queue k c).any (fun e => e.id == assigned c id)
    | none => true
  | _ => true

def FreshA (c : C) : List Ev → Bool
  | [] => true
  | ev :: evs => freshStepA c ev && FreshA (step c ev).1 evs

theorem freshStepA_of_freshStep (c : C) (ev : Ev) (h : freshStep c ev = true) : freshStepA c ev = true := by
  cases ev with
  | api call =>
    simp only [freshStep, freshStepA] at h ⊢
    cases hcr : callReq call with
    | none => rfl
    | some x =>
      obtain ⟨k, id, tag⟩ := x
      simp only [hcr, Bool.and_eq_true, bne_iff_ne, ne_eq] at h ⊢
      simp only [assigned, h.1, ↓reduceIte]
      exact h.2
  | apiEarlyAck call ack =>
    simp only [freshStep, freshStepA] at h ⊢
    cases hcr : callReq call with
    | none => rfl
    | some x =>
      obtain ⟨k, id, tag⟩ := x
      simp only [hcr, Bool.and_eq_true, bne_iff_ne, ne_eq] at h ⊢
      simp only [assigned, h.1, ↓reduceIte]
      exact h.2
  | _ => rfl

theorem freshA_of_fresh (c : C) (evs : List Ev) (h : Fresh c evs = true) : FreshA c evs = true := by
  induction evs generalizing c with
  | nil => rfl
  | cons ev evs ih =>
    simp only [Fresh, FreshA, Bool.and_eq_true] at h ⊢
    exact ⟨freshStepA_of_freshStep c ev h.1, ih _ h.2⟩

theorem callReq_apiWrite_none (c : C) (call : Api) (h : callReq call = none) :
    callReq (apiWrite c call).2.2 = none := by
  cases call with
  | publish p tag =>
    simp only [callReq] at h
    by_cases h0 : (p.qos == 0) = true
    · simp [apiWrite, h0, callReq]
    · have h0' : (p.qos == 0) = false := by simpa using h0
      simp only [h0', Bool.false_eq_true, ↓reduceIte] at h
      split at h <;> cases h
  | subscribe id topics tag cb => cases h
  | unsubscribe id topics tag => cases h
  | ping tag => rfl

theorem stepAccepted_freshA (k : Kind) (c : C) (call : Api) (hc : c.connected = true)
    (hf : freshStepA c (.api call) = true) :
    (stepAccepted k c (.api call)).map (·.tag) =
      (match callReq call with
       | some (k', _, tag) => if k' = k then [tag] else []
       | none => []) := by
  simp only [stepAccepted, hc, ↓reduceIte]
  cases hcr : callReq call with
  | none => rw [regAccepted_none _ _ (callReq_apiWrite_none c call hcr)]; rfl
  | some x =>
    obtain ⟨k', id, tag⟩ := x
    have h2 := (apiWrite_ids c call k' id tag hcr).2
    simp only
    by_cases hk : k' = k
    · subst hk
      simp only [freshStepA, hcr, Bool.not_eq_true', List.any_eq_false, beq_iff_eq] at hf
      obtain ⟨r, hr, _, htag⟩ := regAccepted_clear (apiWrite c call).1 _ k' _ tag h2 (by
        intro e he; rw [apiWrite_queue] at he; exact hf e he)
      simp [hr, htag]
    · rw [regAccepted_other _ _ k' _ tag h2 k (fun h => hk h.symm)]
      simp [hk]

theorem accepted_freshA (k : Kind) (c : C) (evs : List Ev) (hc : c.connected = true)
    (hf : FreshA c evs = true) : (accepted k c evs).map (·.tag) = requestedTags k evs := by
  induction evs generalizing c with
  | nil => rfl
  | cons ev evs ih =>
    simp only [FreshA, Bool.and_eq_true] at hf
    have ih' := ih (step c ev).1 (step_connected c ev hc) hf.2
    cases ev with
    | api call =>
      simp only [accepted, requestedTags, List.map_append, ih']
      rw [stepAccepted_freshA k c call hc hf.1]
      cases callReq call with
      | none => rfl
      | some x => obtain ⟨k', id, tag⟩ := x; rfl
    | apiEarlyAck call ack =>
      simp only [accepted, requestedTags, List.map_append, ih']
      have := stepAccepted_freshA k c call hc hf.1
      simp only [stepAccepted] at this ⊢
      rw [this]
      cases callReq call with
      | none => rfl
      | some x => obtain ⟨k', id, tag⟩ := x; rfl
    | connect a => simp only [accepted, requestedTags, stepAccepted, List.nil_append, ih']
    | peer p => simp only [accepted, requestedTags, stepAccepted, List.nil_append, ih']

end Mqtt.Proofs.Client
