/-
Core B: the byte state machine `nextTopicLevel` / `levels` against the
specification's `split` / `validFilter` (`levels_spec`), for byte strings
without empty levels and without '$'-led levels.  Helper lemmas only.
-/
import Mqtt.Model.Topics
import Mqtt.Spec.Match

set_option linter.unusedSimpArgs false

namespace Mqtt.Proofs.Topics
open Mqtt.Model.Topics
open Mqtt.Spec.Match (SEP HASH PLUS DOLLAR split splitAux validFilter validFilterLevels validName)

/-! ### `split` -/

theorem splitAux_append_nosep (l tail cur : List UInt8) (h : ∀ c ∈ l, c ≠ SEP) :
    splitAux (l ++ tail) cur = splitAux tail (l.reverse ++ cur) := by
  induction l generalizing cur with
  | nil => rfl
  | cons c l ih =>
    have hc : (c == SEP) = false := by simpa using h c (by simp)
    simp only [List.cons_append, splitAux, hc, Bool.false_eq_true, ↓reduceIte]
    rw [ih _ (fun d hd => h d (by simp [hd]))]
    simp

theorem split_nosep (l : List UInt8) (h : ∀ c ∈ l, c ≠ SEP) : split l = [l] := by
  have := splitAux_append_nosep l [] [] h
  simp only [List.append_nil] at this
  simp [split, this, splitAux]

theorem split_sep (l r : List UInt8) (h : ∀ c ∈ l, c ≠ SEP) : split (l ++ SEP :: r) = l :: split r := by
  have := splitAux_append_nosep l (SEP :: r) [] h
  simp [split, this, splitAux]

/-- every byte string is a '/'-free first level followed by nothing or by '/' and the rest -/
theorem chunk (s : List UInt8) :
    ∃ l tail, s = l ++ tail ∧ (∀ c ∈ l, c ≠ SEP) ∧ (tail = [] ∨ ∃ r, tail = SEP :: r) := by
  induction s with
  | nil => exact ⟨[], [], rfl, by simp, Or.inl rfl⟩
  | cons c s ih =>
    by_cases hc : c = SEP
    · exact ⟨[], c :: s, rfl, by simp, Or.inr ⟨s, by rw [hc]⟩⟩
    · obtain ⟨l, tail, e, hl, ht⟩ := ih
      refine ⟨c :: l, tail, by rw [e]; rfl, ?_, ht⟩
      intro d hd
      simp only [List.mem_cons] at hd
      rcases hd with rfl | hd
      · exact hc
      · exact hl d hd

theorem split_ne_nil (s : List UInt8) : split s ≠ [] := by
  obtain ⟨l, tail, e, hl, ht⟩ := chunk s
  rcases ht with rfl | ⟨r, rfl⟩
  · rw [e, List.append_nil, split_nosep l hl]; simp
  · rw [e, split_sep l r hl]; simp

/-- `split` has an inverse: joining with '/' -/
def join : List (List UInt8) → List UInt8
  | [] => []
  | [l] => l
  | l :: rest => l ++ SEP :: join rest

theorem join_split (s : List UInt8) : join (split s) = s := by
  have : ∀ n (s : List UInt8), s.length < n → join (split s) = s := by
    intro n
    induction n with
    | zero => intro s h; omega
    | succ n ih =>
      intro s hlen
      obtain ⟨l, tail, e, hl, ht⟩ := chunk s
      rcases ht with rfl | ⟨r, rfl⟩
      · rw [e, List.append_nil, split_nosep l hl]; rfl
      · rw [e, split_sep l r hl]
        have hr : r.length < n := by
          rw [e] at hlen; simp at hlen; omega
        cases hs : split r with
        | nil => exact absurd hs (split_ne_nil r)
        | cons x xs =>
          simp only [join]
          rw [← hs, ih r hr]
  exact this _ s (Nat.lt_succ_self _)

theorem split_inj (a b : List UInt8) (h : split a = split b) : a = b := by
  rw [← join_split a, ← join_split b, h]

/-! ### one level of `nextTopicLevel` -/

theorem cSEP_eq : cSEP = SEP := rfl
theorem cMWC_eq : cMWC = HASH := rfl
theorem cSWC_eq : cSWC = PLUS := rfl
theorem cSYS_eq : cSYS = DOLLAR := rfl

/-- the result at the end of a level: end of topic, or a separator -/
def fin (pre : List UInt8) : List UInt8 → NTL
  | [] => .ok pre.reverse [] true
  | _ :: r => .ok pre.reverse r false

theorem ntlLoop_fin (pre : List UInt8) (s : LState) (tail : List UInt8) (hp : pre ≠ []) (hs : s ≠ .mwc)
    (ht : tail = [] ∨ ∃ r, tail = cSEP :: r) : ntlLoop pre s tail = fin pre tail := by
  rcases ht with rfl | ⟨r, rfl⟩
  · simp [ntlLoop, fin]
  · have h1 : (s == LState.mwc) = false := by simpa using hs
    have h2 : pre.isEmpty = false := by simpa using hp
    simp [ntlLoop, fin, h1, h2]

/-- a level without wildcards, scanned from a non-initial, non-wildcard state -/
theorem ntlLoop_plain (l tail : List UInt8) :
    ∀ (pre : List UInt8) (s : LState), pre ≠ [] → (s = .chr ∨ s = .sys) →
      (∀ c ∈ l, c ≠ cSEP ∧ c ≠ cMWC ∧ c ≠ cSWC) → (tail = [] ∨ ∃ r, tail = cSEP :: r) →
      ntlLoop pre s (l ++ tail) = fin (l.reverse ++ pre) tail := by
  induction l with
  | nil =>
    intro pre s hp hs _ ht
    have : s ≠ .mwc := by rcases hs with rfl | rfl <;> decide
    exact ntlLoop_fin pre s tail hp this ht
  | cons c l ih =>
    intro pre s hp hs hl ht
    obtain ⟨h1, h2, h3⟩ := hl c (by simp)
    have e1 : (c == cSEP) = false := by simpa using h1
    have e2 : (c == cMWC) = false := by simpa using h2
    have e3 : (c == cSWC) = false := by simpa using h3
    have e4 : pre.isEmpty = false := by simpa using hp
    have e5 : (s == LState.mwc || s == LState.swc) = false := by rcases hs with rfl | rfl <;> decide
    have hl' : ∀ d ∈ l, d ≠ cSEP ∧ d ≠ cMWC ∧ d ≠ cSWC := fun d hd => hl d (by simp [hd])
    simp only [List.cons_append, ntlLoop, e1, e2, e3, e4, e5, Bool.false_eq_true, ↓reduceIte]
    have hr : l.reverse ++ c :: pre = (c :: l).reverse ++ pre := by simp
    by_cases h4 : c == cSYS
    · simp only [h4, ↓reduceIte]
      rw [ih (c :: pre) .sys (by simp) (Or.inr rfl) hl' ht, hr]
    · simp only [h4, Bool.false_eq_true, ↓reduceIte]
      rw [ih (c :: pre) .chr (by simp) (Or.inl rfl) hl' ht, hr]

/-- a wildcard character anywhere but first in a level is an error -/
theorem ntlLoop_bad (l tail : List UInt8) :
    ∀ (pre : List UInt8) (s : LState), pre ≠ [] →
      (∀ c ∈ l, c ≠ cSEP) → (∃ c ∈ l, c = cMWC ∨ c = cSWC) →
      ntlLoop pre s (l ++ tail) = .err := by
  induction l with
  | nil => intro pre s _ _ h; simp at h
  | cons c l ih =>
    intro pre s hp hl hex
    have e1 : (c == cSEP) = false := by simpa using hl c (by simp)
    have e4 : pre.isEmpty = false := by simpa using hp
    simp only [List.cons_append, ntlLoop, e1, e4, Bool.false_eq_true, ↓reduceIte, Bool.not_false]
    by_cases h2 : c == cMWC
    · simp [h2]
    · by_cases h3 : c == cSWC
      · simp [h2, h3]
      · have hex' : ∃ d ∈ l, d = cMWC ∨ d = cSWC := by
          obtain ⟨d, hd, hd2⟩ := hex
          simp only [List.mem_cons] at hd
          rcases hd with rfl | hd
          · rcases hd2 with rfl | rfl
            · simp at h2
            · simp at h3
          · exact ⟨d, hd, hd2⟩
        have hl' : ∀ d ∈ l, d ≠ cSEP := fun d hd => hl d (by simp [hd])
        simp only [h2, h3, Bool.false_eq_true, ↓reduceIte]
        by_cases h4 : c == cSYS
        · simp only [h4, ↓reduceIte]
          split
          · rfl
          · exact ih (c :: pre) .sys (by simp) hl' hex'
        · simp only [h4, Bool.false_eq_true, ↓reduceIte]
          split
          · rfl
          · exact ih (c :: pre) .chr (by simp) hl' hex'

/-- anything after a wildcard inside the same level is an error -/
theorem ntlLoop_after_wild (c : UInt8) (rest pre : List UInt8) (s : LState) (hp : pre ≠ [])
    (hs : s = .mwc ∨ s = .swc) (hc : c ≠ cSEP) : ntlLoop pre s (c :: rest) = .err := by
  have e1 : (c == cSEP) = false := by simpa using hc
  have e4 : pre.isEmpty = false := by simpa using hp
  have e5 : (s == LState.mwc || s == LState.swc) = true := by rcases hs with rfl | rfl <;> decide
  simp only [ntlLoop, e1, e4, e5, Bool.false_eq_true, ↓reduceIte, Bool.not_false]
  split
  · rfl
  · split
    · rfl
    · split <;> rfl

/-- a level is acceptable to section 4.7.1 in the last position … -/
def lvalidLast (l : List UInt8) : Bool := l == [HASH] || l == [PLUS] || (!l.contains HASH && !l.contains PLUS)
/-- … and before the last position -/
def lvalidMid (l : List UInt8) : Bool := l == [PLUS] || (!l.contains HASH && !l.contains PLUS)

theorem validFilterLevels_single (l : List UInt8) : validFilterLevels [l] = lvalidLast l := rfl

theorem validFilterLevels_cons (l x : List UInt8) (xs : List (List UInt8)) :
    validFilterLevels (l :: x :: xs) = (lvalidMid l && validFilterLevels (x :: xs)) := rfl

/-- `nextTopicLevel` on a non-empty, not '$'-led, '/'-free level `l` followed by the end or by '/' -/
theorem ntl_level (l tail : List UInt8) (hne : l ≠ []) (hl : ∀ c ∈ l, c ≠ cSEP)
    (hd : l.head? ≠ some cSYS) (ht : tail = [] ∨ ∃ r, tail = cSEP :: r) :
    nextTopicLevel (l ++ tail) =
      if l == [cMWC] then (if tail.isEmpty then .ok l [] true else .err)
      else if lvalidMid l then fin l.reverse tail
      else .err := by
  cases l with
  | nil => exact absurd rfl hne
  | cons c l =>
    have e1 : (c == cSEP) = false := by simpa using hl c (by simp)
    have hsys : (c == cSYS) = false := by simpa using hd
    have hl' : ∀ d ∈ l, d ≠ cSEP := fun d hd => hl d (by simp [hd])
    unfold nextTopicLevel
    simp only [List.cons_append, ntlLoop, e1, Bool.false_eq_true, ↓reduceIte, List.isEmpty_nil,
      Bool.not_true]
    by_cases h2 : c = cMWC
    · subst h2
      simp only [beq_self_eq_true, ↓reduceIte]
      cases l with
      | nil =>
        simp only [List.nil_append, beq_self_eq_true, ↓reduceIte]
        rcases ht with rfl | ⟨r, rfl⟩
        · simp [ntlLoop]
        · simp [ntlLoop]
      | cons d l =>
        have hd1 : d ≠ cSEP := hl' d (by simp)
        rw [List.cons_append, ntlLoop_after_wild d (l ++ tail) [cMWC] .mwc (by simp) (Or.inl rfl) hd1]
        have : ((cMWC :: d :: l) == [cMWC]) = false := by simp
        have h3 : lvalidMid (cMWC :: d :: l) = false := by
          simp [lvalidMid, ← cMWC_eq, ← cSWC_eq]
        simp [this, h3]
    · have e2 : (c == cMWC) = false := by simpa using h2
      have hne1 : ((c :: l) == [cMWC]) = false := by simp [h2]
      simp only [e2, hne1, Bool.false_eq_true, ↓reduceIte]
      by_cases h3 : c = cSWC
      · subst h3
        simp only [beq_self_eq_true, ↓reduceIte]
        cases l with
        | nil =>
          have : lvalidMid [cSWC] = true := by decide
          simp only [List.nil_append, this, ↓reduceIte]
          exact ntlLoop_fin [cSWC] .swc tail (by simp) (by decide) ht
        | cons d l =>
          have hd1 : d ≠ cSEP := hl' d (by simp)
          rw [List.cons_append, ntlLoop_after_wild d (l ++ tail) [cSWC] .swc (by simp) (Or.inr rfl) hd1]
          have h3 : lvalidMid (cSWC :: d :: l) = false := by
            simp [lvalidMid, ← cMWC_eq, ← cSWC_eq]
          simp [h3]
      · have e3 : (c == cSWC) = false := by simpa using h3
        simp only [e3, hsys, Bool.false_eq_true, ↓reduceIte]
        have hsw : (LState.chr == LState.mwc || LState.chr == LState.swc) = false := by decide
        simp only [hsw, Bool.false_eq_true, ↓reduceIte]
        by_cases hw : ∃ d ∈ l, d = cMWC ∨ d = cSWC
        · rw [ntlLoop_bad l tail [c] .chr (by simp) hl' hw]
          have : lvalidMid (c :: l) = false := by
            obtain ⟨d, hd, hd2⟩ := hw
            simp only [lvalidMid, ← cMWC_eq, ← cSWC_eq, Bool.or_eq_false_iff, Bool.and_eq_false_iff,
              Bool.not_eq_false', List.contains_iff_mem]
            refine ⟨by simp [h3], ?_⟩
            rcases hd2 with rfl | rfl
            · exact Or.inl (by simp [hd])
            · exact Or.inr (by simp [hd])
          simp [this]
        · have hpl : ∀ d ∈ l, d ≠ cSEP ∧ d ≠ cMWC ∧ d ≠ cSWC := by
            intro d hd
            refine ⟨hl' d hd, ?_, ?_⟩
            · intro e; exact hw ⟨d, hd, Or.inl e⟩
            · intro e; exact hw ⟨d, hd, Or.inr e⟩
          rw [ntlLoop_plain l tail [c] .chr (by simp) (Or.inl rfl) hpl ht]
          have : lvalidMid (c :: l) = true := by
            simp only [lvalidMid, ← cMWC_eq, ← cSWC_eq, Bool.or_eq_true, Bool.and_eq_true,
              Bool.not_eq_true', List.contains_eq_mem, decide_eq_false_iff_not, List.mem_cons, not_or]
            refine Or.inr ⟨⟨Ne.symm h2, fun hm => (hpl _ hm).2.1 rfl⟩, ⟨Ne.symm h3, fun hm => (hpl _ hm).2.2 rfl⟩⟩
          simp [this]

/-! ### the whole walk -/

/-- no empty level and no level beginning with '$' (the inputs outside findings B3 and B4) -/
def goodLevels (ls : List (List UInt8)) : Bool := ls.all (fun l => !l.isEmpty && l.head? != some DOLLAR)
def good (s : List UInt8) : Bool := goodLevels (split s)

theorem levelsFuel_succ (fuel : Nat) (s : List UInt8) (h : s ≠ []) :
    levelsFuel (fuel + 1) s =
      match nextTopicLevel s with
      | .err => ([], false)
      | .ok l rem _ => (l :: (levelsFuel fuel rem).1, (levelsFuel fuel rem).2) := by
  have : s.isEmpty = false := by simpa using h
  simp only [levelsFuel, this, Bool.false_eq_true, ↓reduceIte]
  cases nextTopicLevel s <;> rfl

theorem levelsFuel_nil (fuel : Nat) : levelsFuel (fuel + 1) [] = ([], true) := by
  simp [levelsFuel]

theorem lvalidLast_eq (l : List UInt8) : lvalidLast l = (l == [HASH] || lvalidMid l) := by
  simp [lvalidLast, lvalidMid, Bool.or_assoc]

theorem lvalidMid_hash : lvalidMid [cMWC] = false := by decide

theorem levelsFuel_spec : ∀ (fuel : Nat) (s : List UInt8), s.length < fuel → good s = true →
    (validFilterLevels (split s) = true → levelsFuel fuel s = (split s, true)) ∧
    (validFilterLevels (split s) = false → (levelsFuel fuel s).2 = false) := by
  intro fuel
  induction fuel with
  | zero => intro s h; omega
  | succ fuel ih =>
    intro s hlen hg
    obtain ⟨l, tail, e, hl, ht⟩ := chunk s
    subst e
    rcases ht with rfl | ⟨r, rfl⟩
    · -- last level
      rw [List.append_nil] at hlen hg ⊢
      rw [good, split_nosep l hl] at hg
      rw [split_nosep l hl]
      simp only [goodLevels, List.all_cons, List.all_nil, Bool.and_true, Bool.and_eq_true,
        Bool.not_eq_true', List.isEmpty_eq_false_iff, bne_iff_ne, ne_eq] at hg
      have hne : l ≠ [] := hg.1
      have hlen1 : 0 < l.length := List.length_pos_iff.mpr hne
      obtain ⟨f, rfl⟩ : ∃ f, fuel = f + 1 := ⟨fuel - 1, by omega⟩
      have hntl := ntl_level l [] hne hl hg.2 (Or.inl rfl)
      rw [List.append_nil] at hntl
      rw [levelsFuel_succ _ l hne, hntl, validFilterLevels_single, lvalidLast_eq, ← cMWC_eq]
      by_cases h1 : l = [cMWC]
      · subst h1; simp [levelsFuel_nil]
      · have h1' : (l == [cMWC]) = false := by simpa using h1
        simp only [h1', Bool.false_eq_true, ↓reduceIte, Bool.false_or]
        by_cases h2 : lvalidMid l = true
        · simp [h2, fin, levelsFuel_nil]
        · simp [h2]
    · -- a level followed by '/'
      have hg' := hg
      rw [good, split_sep l r hl] at hg'
      simp only [goodLevels, List.all_cons, Bool.and_eq_true, Bool.not_eq_true',
        List.isEmpty_eq_false_iff, bne_iff_ne, ne_eq] at hg'
      have hne : l ≠ [] := hg'.1.1
      have hgr : good r = true := hg'.2
      have hlr : r.length < fuel := by simp at hlen; omega
      have hs : l ++ SEP :: r ≠ [] := by simp
      have hntl := ntl_level l (SEP :: r) hne hl hg'.1.2 (Or.inr ⟨r, rfl⟩)
      obtain ⟨ih1, ih2⟩ := ih r hlr hgr
      rw [levelsFuel_succ _ _ hs, hntl, split_sep l r hl]
      cases hsr : split r with
      | nil => exact absurd hsr (split_ne_nil r)
      | cons x xs =>
        rw [validFilterLevels_cons, ← hsr]
        by_cases h1 : l = [cMWC]
        · subst h1; simp [lvalidMid_hash]
        · have h1' : (l == [cMWC]) = false := by simpa using h1
          simp only [h1', Bool.false_eq_true, ↓reduceIte]
          by_cases h2 : lvalidMid l = true
          · simp only [h2, ↓reduceIte, fin, List.reverse_reverse, Bool.true_and]
            constructor
            · intro hv; rw [ih1 hv]
            · intro hv; exact ih2 hv
          · simp [h2]

/-- `levels` computes the specification's `split` and succeeds exactly on valid filters -
for byte strings without empty and without '$'-led levels. -/
theorem levels_spec (s : List UInt8) (hg : good s = true) :
    (validFilter s = true → levels s = (split s, true)) ∧
    (validFilter s = false → (levels s).2 = false) := by
  have hne : s ≠ [] := by
    rintro rfl
    simp [good, goodLevels, split, splitAux] at hg
  have hv : validFilter s = validFilterLevels (split s) := by
    have : s.isEmpty = false := by simpa using hne
    simp [validFilter, this]
  rw [hv]
  exact levelsFuel_spec (s.length + 1) s (Nat.lt_succ_self _) hg

/-- a valid topic name is a valid filter -/
theorem validName_validFilter (s : List UInt8) (h : validName s = true) : validFilter s = true := by
  simp only [validName, Bool.and_eq_true, Bool.not_eq_true', List.isEmpty_eq_false_iff] at h
  obtain ⟨⟨hne, hh⟩, hp⟩ := h
  have key : ∀ n (s : List UInt8), s.length < n → s.contains HASH = false → s.contains PLUS = false →
      validFilterLevels (split s) = true := by
    intro n
    induction n with
    | zero => intro s h; omega
    | succ n ih =>
      intro s hlen hh hp
      obtain ⟨l, tail, e, hl, ht⟩ := chunk s
      subst e
      have hlh : l.contains HASH = false := by
        simp only [List.contains_eq_mem, List.mem_append, decide_eq_false_iff_not, not_or] at hh ⊢; exact hh.1
      have hlp : l.contains PLUS = false := by
        simp only [List.contains_eq_mem, List.mem_append, decide_eq_false_iff_not, not_or] at hp ⊢; exact hp.1
      rcases ht with rfl | ⟨r, rfl⟩
      · rw [List.append_nil, split_nosep l hl, validFilterLevels_single]
        have m1 : HASH ∉ l := by simpa using hlh
        have m2 : PLUS ∉ l := by simpa using hlp
        simp [lvalidLast, m1, m2]
      · rw [split_sep l r hl]
        have hrh : r.contains HASH = false := by
          simp only [List.contains_eq_mem, List.mem_append, List.mem_cons, decide_eq_false_iff_not, not_or] at hh ⊢
          exact hh.2.2
        have hrp : r.contains PLUS = false := by
          simp only [List.contains_eq_mem, List.mem_append, List.mem_cons, decide_eq_false_iff_not, not_or] at hp ⊢
          exact hp.2.2
        have hlr : r.length < n := by simp at hlen; omega
        cases hsr : split r with
        | nil => exact absurd hsr (split_ne_nil r)
        | cons x xs =>
          rw [validFilterLevels_cons, ← hsr, ih r hlr hrh hrp]
          have m1 : HASH ∉ l := by simpa using hlh
          have m2 : PLUS ∉ l := by simpa using hlp
          simp [lvalidMid, m1, m2]
  have : s.isEmpty = false := by simpa using hne
  simp [validFilter, this, key _ s (Nat.lt_succ_self _) hh hp]

theorem good_not_dollar (s : List UInt8) (hg : good s = true) : Mqtt.Spec.Match.dollar s = false := by
  obtain ⟨l, tail, e, hl, ht⟩ := chunk s
  have hl0 : l ≠ [] ∧ l.head? ≠ some DOLLAR := by
    rcases ht with rfl | ⟨r, rfl⟩
    · rw [e, List.append_nil, good, split_nosep l hl] at hg
      simpa [goodLevels] using hg
    · rw [e, good, split_sep l r hl] at hg
      simp only [goodLevels, List.all_cons, Bool.and_eq_true, Bool.not_eq_true',
        List.isEmpty_eq_false_iff, bne_iff_ne, ne_eq] at hg
      exact hg.1
  cases l with
  | nil => exact absurd rfl hl0.1
  | cons c l =>
    subst e
    have := hl0.2
    simp only [List.head?_cons, ne_eq, Option.some.injEq] at this
    simp [Mqtt.Spec.Match.dollar, this]

end Mqtt.Proofs.Topics
