/-
Core B: the byte state machine `nextTopicLevel` / `levels` against the
specification's `split` / `validFilter` (`levels_spec`), for byte strings
without empty levels ('$' is an ordinary byte of the state machine; topics that
begin with '$' - and the empty topic - are turned away by `checkTopic` at the `MemTopics` entry points).
Helper lemmas only.
-/
import Mqtt.Model.Topics
import Mqtt.Spec.Match

set_option linter.unusedSimpArgs false

namespace Mqtt.Proofs.Topics
open Mqtt.Model.Topics
open Mqtt.Spec.Match (SEP HASH PLUS DOLLAR split splitAux validFilter validFilterLevels validName)

/-! ### `split` -/

theorem splitAux_append_nosep (l tail cur : List UInt8) (h : ∀ c ∈ l, c ≠ SEP) :
    splitAux (l ++ tail) cur = splitAux tail (l.reverse ++ cur) := by
  induction l generalizing cur with
  | nil => rfl
  | cons c l ih =>
    have hc : (c == SEP) = false := by simpa using h c (by simp)
    simp only [List.cons_append, splitAux, hc, Bool.false_eq_true, ↓reduceIte]
    rw [ih _ (fun d hd => h d (by simp [hd]))]
    simp

theorem split_nosep (l : List UInt8) (h : ∀ c ∈ l, c ≠ SEP) : split l = [l] := by
  have := splitAux_append_nosep l [] [] h
  simp only [List.append_nil] at this
  simp [split, this, splitAux]

theorem split_sep (l r : List UInt8) (h : ∀ c ∈ l, c ≠ SEP) : split (l ++ SEP :: r) = l :: split r := by
  have := splitAux_append_nosep l (SEP :: r) [] h
  simp [split, this, splitAux]

/-- every byte string is a '/'-free first level followed by nothing or by '/' and the rest -/
theorem chunk (s : List UInt8) :
    ∃ l tail, s = l ++ tail ∧ (∀ c ∈ l, c ≠ SEP) ∧ (tail = [] ∨ ∃ r, tail = SEP :: r) := by
  induction s with
  | nil => exact ⟨[], [], rfl, by simp, Or.inl rfl⟩
  | cons c s ih =>
    by_cases hc : c = SEP
    · exact ⟨[], c :: s, rfl, by simp, Or.inr ⟨s, by rw [hc]⟩⟩
    · obtain ⟨l, tail, e, hl, ht⟩ := ih
      refine ⟨c :: l, tail, by rw [e]; rfl, ?_, ht⟩
      intro d hd
      simp only [List.mem_cons] at hd
      rcases hd with rfl | hd
      · exact hc
      · exact hl d hd

theorem split_ne_nil (s : List UInt8) : split s ≠ [] := by
  obtain ⟨l, tail, e, hl, ht⟩ := chunk s
  rcases ht with rfl | ⟨r, rfl⟩
  · rw [e, List.append_nil, split_nosep l hl]; simp
  · rw [e, split_sep l r hl]; simp

/-- `split` has an inverse: joining with '/' -/
def join : List (List UInt8) → List UInt8
  | [] => []
  | [l] => l
  | l :: rest => l ++ SEP :: join rest

theorem join_split (s : List UInt8) : join (split s) = s := by
  have : ∀ n (s : List UInt8), s.length < n → join (split s) = s := by
    intro n
    induction n with
    | zero => intro s h; omega
    | succ n ih =>
      intro s hlen
      obtain ⟨l, tail, e, hl, ht⟩ := chunk s
      rcases ht with rfl | ⟨r, rfl⟩
      · rw [e, List.append_nil, split_nosep l hl]; rfl
      · rw [e, split_sep l r hl]
        have hr : r.length < n := by
          rw [e] at hlen; simp at hlen; omega
        cases hs : split r with
        | nil => exact absurd hs (split_ne_nil r)
        | cons x xs =>
          simp only [join]
          rw [← hs, ih r hr]
  exact this _ s (Nat.lt_succ_self _)

theorem split_inj (a b : List UInt8) (h : split a = split b) : a = b := by
  rw [← join_split a, ← join_split b, h]

/-! ### one level of `nextTopicLevel` -/

theorem cSEP_eq : cSEP = SEP := rfl
theorem cMWC_eq : cMWC = HASH := rfl
theorem cSWC_eq : cSWC = PLUS := rfl
theorem cSYS_eq : cSYS = DOLLAR := rfl

/-- the result at the end of a level: end of topic, or a separator -/
def fin (pre : List UInt8) : List UInt8 → NTL
  | [] => .ok pre.reverse [] true
  | _ :: r => .ok pre.reverse r false

theorem ntlLoop_fin (pre : List UInt8) (s : LState) (tail : List UInt8) (hp : pre ≠ []) (hs : s ≠ .mwc)
    (ht : tail = [] ∨ ∃ r, tail = cSEP :: r) : ntlLoop pre s tail = fin pre tail := by
  rcases ht with rfl | ⟨r, rfl⟩
  · simp [ntlLoop, fin]
  · have h1 : (s == LState.mwc) = false := by simpa using hs
    have h2 : pre.isEmpty = false := by simpa using hp
    simp [ntlLoop, fin, h1, h2]

/-- a level without wildcards, scanned from a non-initial, non-wildcard state -/
theorem ntlLoop_plain (l tail : List UInt8) :
    ∀ (pre : List UInt8) (s : LState), pre ≠ [] → (s = .chr ∨ s = .sys) →
      (∀ c ∈ l, c ≠ cSEP ∧ c ≠ cMWC ∧ c ≠ cSWC) → (tail = [] ∨ ∃ r, tail = cSEP :: r) →
      ntlLoop pre s (l ++ tail) = fin (l.reverse ++ pre) tail := by
  induction l with
  | nil =>
    intro pre s hp hs _ ht
    have : s ≠ .mwc := by rcases hs with rfl | rfl <;> decide
    exact ntlLoop_fin pre s tail hp this ht
  | cons c l ih =>
    intro pre s hp hs hl ht
    obtain ⟨h1, h2, h3⟩ := hl c (by simp)
    have e1 : (c == cSEP) = false := by simpa using h1
    have e2 : (c == cMWC) = false := by simpa using h2
    have e3 : (c == cSWC) = false := by simpa using h3
    have e4 : pre.isEmpty = false := by simpa using hp
    have e5 : (s == LState.mwc || s == LState.swc) = false := by rcases hs with rfl | rfl <;> decide
    have hl' : ∀ d ∈ l, d ≠ cSEP ∧ d ≠ cMWC ∧ d ≠ cSWC := fun d hd => hl d (by simp [hd])
    simp only [List.cons_append, ntlLoop, e1, e2, e3, e4, e5, Bool.false_eq_true, ↓reduceIte]
    have hr : l.reverse ++ c :: pre = (c :: l).reverse ++ pre := by simp
    rw [ih (c :: pre) .chr (by simp) (Or.inl rfl) hl' ht, hr]

/-- a wildcard character anywhere but first in a level is an error -/
theorem ntlLoop_bad (l tail : List UInt8) :
    ∀ (pre : List UInt8) (s : LState), pre ≠ [] →
      (∀ c ∈ l, c ≠ cSEP) → (∃ c ∈ l, c = cMWC ∨ c = cSWC) →
      ntlLoop pre s (l ++ tail) = .err := by
  induction l with
  | nil => intro pre s _ _ h; simp at h
  | cons c l ih =>
    intro pre s hp hl hex
    have e1 : (c == cSEP) = false := by simpa using hl c (by simp)
    have e4 : pre.isEmpty = false := by simpa using hp
    simp only [List.cons_append, ntlLoop, e1, e4, Bool.false_eq_true, ↓reduceIte, Bool.not_false]
    by_cases h2 : c == cMWC
    · simp [h2]
    · by_cases h3 : c == cSWC
      · simp [h2, h3]
      · have hex' : ∃ d ∈ l, d = cMWC ∨ d = cSWC := by
          obtain ⟨d, hd, hd2⟩ := hex
          simp only [List.mem_cons] at hd
          rcases hd with rfl | hd
          · rcases hd2 with rfl | rfl
            · simp at h2
            · simp at h3
          · exact ⟨d, hd, hd2⟩
        have hl' : ∀ d ∈ l, d ≠ cSEP := fun d hd => hl d (by simp [hd])
        simp only [h2, h3, Bool.false_eq_true, ↓reduceIte]
        split
        · rfl
        · exact ih (c :: pre) .chr (by simp) hl' hex'

/-- anything after a wildcard inside the same level is an error -/
theorem ntlLoop_after_wild (c : UInt8) (rest pre : List UInt8) (s : LState) (hp : pre ≠ [])
    (hs : s = .mwc ∨ s = .swc) (hc : c ≠ cSEP) : ntlLoop pre s (c :: rest) = .err := by
  have e1 : (c == cSEP) = false := by simpa using hc
  have e4 : pre.isEmpty = false := by simpa using hp
  have e5 : (s == LState.mwc || s == LState.swc) = true := by rcases hs with rfl | rfl <;> decide
  simp only [ntlLoop, e1, e4, e5, Bool.false_eq_true, ↓reduceIte, Bool.not_false]
  split
  · rfl
  · split <;> rfl

/-- a level is acceptable to section 4.7.1 in the last position … -/
def lvalidLast (l : List UInt8) : Bool := l == [HASH] || l == [PLUS] || (!l.contains HASH && !l.contains PLUS)
/-- … and before the last position -/
def lvalidMid (l : List UInt8) : Bool := l == [PLUS] || (!l.contains HASH && !l.contains PLUS)

theorem validFilterLevels_single (l : List UInt8) : validFilterLevels [l] = lvalidLast l := rfl

theorem validFilterLevels_cons (l x : List UInt8) (xs : List (List UInt8)) :
    validFilterLevels (l :: x :: xs) = (lvalidMid l && validFilterLevels (x :: xs)) := rfl

/-- `nextTopicLevel` on a non-empty, '/'-free level `l` followed by the end or by '/' -/
theorem ntl_level (l tail : List UInt8) (hne : l ≠ []) (hl : ∀ c ∈ l, c ≠ cSEP)
    (ht : tail = [] ∨ ∃ r, tail = cSEP :: r) :
    nextTopicLevel (l ++ tail) =
      if l == [cMWC] then (if tail.isEmpty then .ok l [] true else .err)
      else if lvalidMid l then fin l.reverse tail
      else .err := by
  cases l with
  | nil => exact absurd rfl hne
  | cons c l =>
    have e1 : (c == cSEP) = false := by simpa using hl c (by simp)
    have hl' : ∀ d ∈ l, d ≠ cSEP := fun d hd => hl d (by simp [hd])
    unfold nextTopicLevel
    simp only [List.cons_append, ntlLoop, e1, Bool.false_eq_true, ↓reduceIte, List.isEmpty_nil,
      Bool.not_true]
    by_cases h2 : c = cMWC
    · subst h2
      simp only [beq_self_eq_true, ↓reduceIte]
      cases l with
      | nil =>
        simp only [List.nil_append, beq_self_eq_true, ↓reduceIte]
        rcases ht with rfl | ⟨r, rfl⟩
        · simp [ntlLoop]
        · simp [ntlLoop]
      | cons d l =>
        have hd1 : d ≠ cSEP := hl' d (by simp)
        rw [List.cons_append, ntlLoop_after_wild d (l ++ tail) [cMWC] .mwc (by simp) (Or.inl rfl) hd1]
        have : ((cMWC :: d :: l) == [cMWC]) = false := by simp
        have h3 : lvalidMid (cMWC :: d :: l) = false := by
          simp [lvalidMid, ← cMWC_eq, ← cSWC_eq]
        simp [this, h3]
    · have e2 : (c == cMWC) = false := by simpa using h2
      have hne1 : ((c :: l) == [cMWC]) = false := by simp [h2]
      simp only [e2, hne1, Bool.false_eq_true, ↓reduceIte]
      by_cases h3 : c = cSWC
      · subst h3
        simp only [beq_self_eq_true, ↓reduceIte]
        cases l with
        | nil =>
          have : lvalidMid [cSWC] = true := by decide
          simp only [List.nil_append, this, ↓reduceIte]
          exact ntlLoop_fin [cSWC] .swc tail (by simp) (by decide) ht
        | cons d l =>
          have hd1 : d ≠ cSEP := hl' d (by simp)
          rw [List.cons_append, ntlLoop_after_wild d (l ++ tail) [cSWC] .swc (by simp) (Or.inr rfl) hd1]
          have h3 : lvalidMid (cSWC :: d :: l) = false := by
            simp [lvalidMid, ← cMWC_eq, ← cSWC_eq]
          simp [h3]
      · have e3 : (c == cSWC) = false := by simpa using h3
        simp only [e3, Bool.false_eq_true, ↓reduceIte]
        have hsw : (LState.chr == LState.mwc || LState.chr == LState.swc) = false := by decide
        simp only [hsw, Bool.false_eq_true, ↓reduceIte]
        by_cases hw : ∃ d ∈ l, d = cMWC ∨ d = cSWC
        · rw [ntlLoop_bad l tail [c] .chr (by simp) hl' hw]
          have : lvalidMid (c :: l) = false := by
            obtain ⟨d, hd, hd2⟩ := hw
            simp only [lvalidMid, ← cMWC_eq, ← cSWC_eq, Bool.or_eq_false_iff, Bool.and_eq_false_iff,
              Bool.not_eq_false', List.contains_iff_mem]
            refine ⟨by simp [h3], ?_⟩
            rcases hd2 with rfl | rfl
            · exact Or.inl (by simp [hd])
            · exact Or.inr (by simp [hd])
          simp [this]
        · have hpl : ∀ d ∈ l, d ≠ cSEP ∧ d ≠ cMWC ∧ d ≠ cSWC := by
            intro d hd
            refine ⟨hl' d hd, ?_, ?_⟩
            · intro e; exact hw ⟨d, hd, Or.inl e⟩
            · intro e; exact hw ⟨d, hd, Or.inr e⟩
          rw [ntlLoop_plain l tail [c] .chr (by simp) (Or.inl rfl) hpl ht]
          have : lvalidMid (c :: l) = true := by
            simp only [lvalidMid, ← cMWC_eq, ← cSWC_eq, Bool.or_eq_true, Bool.and_eq_true,
              Bool.not_eq_true', List.contains_eq_mem, decide_eq_false_iff_not, List.mem_cons, not_or]
            refine Or.inr ⟨⟨Ne.symm h2, fun hm => (hpl _ hm).2.1 rfl⟩, ⟨Ne.symm h3, fun hm => (hpl _ hm).2.2 rfl⟩⟩
          simp [this]

/-! ### the whole walk -/

/-- no empty level (the inputs outside finding B3) -/
def goodLevels (ls : List (List UInt8)) : Bool := ls.all (fun l => !l.isEmpty)
/-- the byte string has no empty level: everything the state machine and the
tries treat as section 4.7 prescribes ('$' is an ordinary byte for them) -/
def noEmptyLevel (s : List UInt8) : Bool := goodLevels (split s)
/-- The topic arguments the `…_partial` theorems about the `MemTopics` entry
points (and about the broker and the client built on them) speak of: no empty
level (finding B3) and - outside the properties' quantifier, section 4.7.2 -
not beginning with '$'.  A '$' anywhere else is allowed ("a/$b" is good). -/
def good (s : List UInt8) : Bool := noEmptyLevel s && !Mqtt.Spec.Match.dollar s

theorem levelsFuel_succ (fuel : Nat) (s : List UInt8) (h : s ≠ []) :
    levelsFuel (fuel + 1) s =
      match nextTopicLevel s with
      | .err => ([], false)
      | .ok l rem _ => (l :: (levelsFuel fuel rem).1, (levelsFuel fuel rem).2) := by
  have : s.isEmpty = false := by simpa using h
  simp only [levelsFuel, this, Bool.false_eq_true, ↓reduceIte]
  cases nextTopicLevel s <;> rfl

theorem levelsFuel_nil (fuel : Nat) : levelsFuel (fuel + 1) [] = ([], true) := by
  simp [levelsFuel]

theorem lvalidLast_eq (l : List UInt8) : lvalidLast l = (l == [HASH] || lvalidMid l) := by
  simp [lvalidLast, lvalidMid, Bool.or_assoc]

theorem lvalidMid_hash : lvalidMid [cMWC] = false := by decide

theorem levelsFuel_spec : ∀ (fuel : Nat) (s : List UInt8), s.length < fuel → noEmptyLevel s = true →
    (validFilterLevels (split s) = true → levelsFuel fuel s = (split s, true)) ∧
    (validFilterLevels (split s) = false → (levelsFuel fuel s).2 = false) := by
  intro fuel
  induction fuel with
  | zero => intro s h; omega
  | succ fuel ih =>
    intro s hlen hg
    obtain ⟨l, tail, e, hl, ht⟩ := chunk s
    subst e
    rcases ht with rfl | ⟨r, rfl⟩
    · -- last level
      rw [List.append_nil] at hlen hg ⊢
      rw [noEmptyLevel, split_nosep l hl] at hg
      rw [split_nosep l hl]
      simp only [goodLevels, List.all_cons, List.all_nil, Bool.and_true,
        Bool.not_eq_true', List.isEmpty_eq_false_iff, ne_eq] at hg
      have hne : l ≠ [] := hg
      have hlen1 : 0 < l.length := List.length_pos_iff.mpr hne
      obtain ⟨f, rfl⟩ : ∃ f, fuel = f + 1 := ⟨fuel - 1, by omega⟩
      have hntl := ntl_level l [] hne hl (Or.inl rfl)
      rw [List.append_nil] at hntl
      rw [levelsFuel_succ _ l hne, hntl, validFilterLevels_single, lvalidLast_eq, ← cMWC_eq]
      by_cases h1 : l = [cMWC]
      · subst h1; simp [levelsFuel_nil]
      · have h1' : (l == [cMWC]) = false := by simpa using h1
        simp only [h1', Bool.false_eq_true, ↓reduceIte, Bool.false_or]
        by_cases h2 : lvalidMid l = true
        · simp [h2, fin, levelsFuel_nil]
        · simp [h2]
    · -- a level followed by '/'
      have hg' := hg
      rw [noEmptyLevel, split_sep l r hl] at hg'
      simp only [goodLevels, List.all_cons, Bool.and_eq_true, Bool.not_eq_true',
        List.isEmpty_eq_false_iff, ne_eq] at hg'
      have hne : l ≠ [] := hg'.1
      have hgr : noEmptyLevel r = true := hg'.2
      have hlr : r.length < fuel := by simp at hlen; omega
      have hs : l ++ SEP :: r ≠ [] := by simp
      have hntl := ntl_level l (SEP :: r) hne hl (Or.inr ⟨r, rfl⟩)
      obtain ⟨ih1, ih2⟩ := ih r hlr hgr
      rw [levelsFuel_succ _ _ hs, hntl, split_sep l r hl]
      cases hsr : split r with
      | nil => exact absurd hsr (split_ne_nil r)
      | cons x xs =>
        rw [validFilterLevels_cons, ← hsr]
        by_cases h1 : l = [cMWC]
        · subst h1; simp [lvalidMid_hash]
        · have h1' : (l == [cMWC]) = false := by simpa using h1
          simp only [h1', Bool.false_eq_true, ↓reduceIte]
          by_cases h2 : lvalidMid l = true
          · simp only [h2, ↓reduceIte, fin, List.reverse_reverse, Bool.true_and]
            constructor
            · intro hv; rw [ih1 hv]
            · intro hv; exact ih2 hv
          · simp [h2]

/-- `levels` computes the specification's `split` and succeeds exactly on valid filters -
for byte strings without empty levels ('$' anywhere is an ordinary byte here). -/
theorem levels_spec (s : List UInt8) (hg : noEmptyLevel s = true) :
    (validFilter s = true → levels s = (split s, true)) ∧
    (validFilter s = false → (levels s).2 = false) := by
  have hne : s ≠ [] := by
    rintro rfl
    simp [noEmptyLevel, goodLevels, split, splitAux] at hg
  have hv : validFilter s = validFilterLevels (split s) := by
    have : s.isEmpty = false := by simpa using hne
    simp [validFilter, this]
  rw [hv]
  exact levelsFuel_spec (s.length + 1) s (Nat.lt_succ_self _) hg

/-! ### acceptance, empty levels included

Whether the walk ends without an error depends on the validity of the levels
only, and on that the state machine agrees with the specification for EVERY
byte string - empty levels included (finding B3 changes which levels are
stored and matched, not which filters are accepted: a non-final empty level
becomes `+`, which is valid wherever an empty level is; a final one is dropped;
and `#` followed by anything, an empty level included, is an error on both
sides). -/

theorem ntl_sep (r : List UInt8) : nextTopicLevel (cSEP :: r) = .ok SWC r false := by
  simp [nextTopicLevel, ntlLoop]

theorem levelsFuel_ok : ∀ (fuel : Nat) (s : List UInt8), s.length < fuel →
    (levelsFuel fuel s).2 = validFilterLevels (split s) := by
  intro fuel
  induction fuel with
  | zero => intro s h; omega
  | succ fuel ih =>
    intro s hlen
    by_cases hs : s = []
    · subst hs; rw [levelsFuel_nil]; rfl
    obtain ⟨l, tail, e, hl, ht⟩ := chunk s
    subst e
    rcases ht with rfl | ⟨r, rfl⟩
    · -- the last level, not empty
      rw [List.append_nil] at hlen hs ⊢
      have hntl := ntl_level l [] hs hl (Or.inl rfl)
      rw [List.append_nil] at hntl
      obtain ⟨f, rfl⟩ : ∃ f, fuel = f + 1 := by
        have : 0 < l.length := List.length_pos_iff.mpr hs
        exact ⟨fuel - 1, by omega⟩
      rw [levelsFuel_succ _ l hs, hntl, split_nosep l hl, validFilterLevels_single, lvalidLast_eq, ← cMWC_eq]
      by_cases h1 : l = [cMWC]
      · subst h1; simp [levelsFuel_nil]
      · have h1' : (l == [cMWC]) = false := by simpa using h1
        simp only [h1', Bool.false_eq_true, ↓reduceIte, Bool.false_or]
        by_cases h2 : lvalidMid l = true
        · simp [h2, fin, levelsFuel_nil]
        · simp [h2]
    · -- a level followed by '/'
      have hlr : r.length < fuel := by simp at hlen; omega
      have hs' : l ++ SEP :: r ≠ [] := by simp
      rw [levelsFuel_succ _ _ hs', split_sep l r hl]
      cases hsr : split r with
      | nil => exact absurd hsr (split_ne_nil r)
      | cons x xs =>
        have hv : validFilterLevels (l :: x :: xs) = (lvalidMid l && validFilterLevels (x :: xs)) :=
          validFilterLevels_cons l x xs
        have ihr := ih r hlr
        rw [hsr] at ihr
        by_cases hne : l = []
        · subst hne
          rw [List.nil_append, ← cSEP_eq, ntl_sep]
          simp only
          rw [ihr]
          show validFilterLevels (x :: xs) = validFilterLevels ([] :: x :: xs)
          rw [validFilterLevels_cons]
          simp [lvalidMid]
        · have hntl := ntl_level l (SEP :: r) hne hl (Or.inr ⟨r, rfl⟩)
          rw [hntl]
          show _ = validFilterLevels (l :: x :: xs)
          rw [hv, ← ihr]
          by_cases h1 : l = [cMWC]
          · subst h1; simp [lvalidMid_hash]
          · have h1' : (l == [cMWC]) = false := by simpa using h1
            simp only [h1', Bool.false_eq_true, ↓reduceIte]
            by_cases h2 : lvalidMid l = true
            · simp [h2, fin]
            · simp [h2]

/-- the walk of `levels` ends without an error exactly when every level is valid
(4.7.1), for every byte string -/
theorem levels_ok (s : List UInt8) : (levels s).2 = validFilterLevels (split s) :=
  levelsFuel_ok (s.length + 1) s (Nat.lt_succ_self _)

/-- a valid topic name is a valid filter -/
theorem validName_validFilter (s : List UInt8) (h : validName s = true) : validFilter s = true := by
  simp only [validName, Bool.and_eq_true, Bool.not_eq_true', List.isEmpty_eq_false_iff] at h
  obtain ⟨⟨hne, hh⟩, hp⟩ := h
  have key : ∀ n (s : List UInt8), s.length < n → s.contains HASH = false → s.contains PLUS = false →
      validFilterLevels (split s) = true := by
    intro n
    induction n with
    | zero => intro s h; omega
    | succ n ih =>
      intro s hlen hh hp
      obtain ⟨l, tail, e, hl, ht⟩ := chunk s
      subst e
      have hlh : l.contains HASH = false := by
        simp only [List.contains_eq_mem, List.mem_append, decide_eq_false_iff_not, not_or] at hh ⊢; exact hh.1
      have hlp : l.contains PLUS = false := by
        simp only [List.contains_eq_mem, List.mem_append, decide_eq_false_iff_not, not_or] at hp ⊢; exact hp.1
      rcases ht with rfl | ⟨r, rfl⟩
      · rw [List.append_nil, split_nosep l hl, validFilterLevels_single]
        have m1 : HASH ∉ l := by simpa using hlh
        have m2 : PLUS ∉ l := by simpa using hlp
        simp [lvalidLast, m1, m2]
      · rw [split_sep l r hl]
        have hrh : r.contains HASH = false := by
          simp only [List.contains_eq_mem, List.mem_append, List.mem_cons, decide_eq_false_iff_not, not_or] at hh ⊢
          exact hh.2.2
        have hrp : r.contains PLUS = false := by
          simp only [List.contains_eq_mem, List.mem_append, List.mem_cons, decide_eq_false_iff_not, not_or] at hp ⊢
          exact hp.2.2
        have hlr : r.length < n := by simp at hlen; omega
        cases hsr : split r with
        | nil => exact absurd hsr (split_ne_nil r)
        | cons x xs =>
          rw [validFilterLevels_cons, ← hsr, ih r hlr hrh hrp]
          have m1 : HASH ∉ l := by simpa using hlh
          have m2 : PLUS ∉ l := by simpa using hlp
          simp [lvalidMid, m1, m2]
  have : s.isEmpty = false := by simpa using hne
  simp [validFilter, this, key _ s (Nat.lt_succ_self _) hh hp]

theorem good_noEmptyLevel (s : List UInt8) (hg : good s = true) : noEmptyLevel s = true := by
  simp only [good, Bool.and_eq_true] at hg; exact hg.1

theorem good_not_dollar (s : List UInt8) (hg : good s = true) : Mqtt.Spec.Match.dollar s = false := by
  simp only [good, Bool.and_eq_true, Bool.not_eq_true'] at hg; exact hg.2

theorem good_iff (s : List UInt8) :
    good s = true ↔ noEmptyLevel s = true ∧ Mqtt.Spec.Match.dollar s = false := by
  simp [good]

/-- the model's `checkSys` is the specification's `dollar` -/
theorem checkSys_eq_dollar (s : List UInt8) : checkSys s = Mqtt.Spec.Match.dollar s := rfl

/-- `checkTopic` turns away exactly the empty topic and the topics beginning with '$' -/
theorem checkTopic_eq (s : List UInt8) : checkTopic s = (s.isEmpty || Mqtt.Spec.Match.dollar s) := rfl

theorem checkTopic_nil : checkTopic [] = true := rfl

theorem checkTopic_of_dollar (s : List UInt8) (h : Mqtt.Spec.Match.dollar s = true) : checkTopic s = true := by
  rw [checkTopic_eq, h, Bool.or_true]

theorem checkTopic_false_iff (s : List UInt8) :
    checkTopic s = false ↔ s ≠ [] ∧ Mqtt.Spec.Match.dollar s = false := by
  rw [checkTopic_eq]
  cases s <;> simp

/-- the empty byte string has an empty level (its only one) -/
theorem noEmptyLevel_ne_nil (s : List UInt8) (h : noEmptyLevel s = true) : s ≠ [] := by
  rintro rfl
  simp [noEmptyLevel, goodLevels, split, splitAux] at h

theorem good_ne_nil (s : List UInt8) (hg : good s = true) : s ≠ [] :=
  noEmptyLevel_ne_nil s (good_noEmptyLevel s hg)

theorem good_checkTopic (s : List UInt8) (hg : good s = true) : checkTopic s = false :=
  (checkTopic_false_iff s).mpr ⟨good_ne_nil s hg, good_not_dollar s hg⟩

/-- every valid filter and every valid name passes the emptiness test of `checkTopic` -/
theorem checkTopic_of_validFilter (s : List UInt8) (hv : Mqtt.Spec.Match.validFilter s = true)
    (hd : Mqtt.Spec.Match.dollar s = false) : checkTopic s = false := by
  refine (checkTopic_false_iff s).mpr ⟨?_, hd⟩
  rintro rfl
  simp [Mqtt.Spec.Match.validFilter] at hv

/-! ### the `MemTopics` entry points behind `checkTopic`

For a topic that is not empty and does not begin with '$' every entry point is
the trie operation it wraps; for the empty topic and for one beginning with '$'
it fails and leaves the store alone.  (The lemma names `…_of_sys` /
`…_of_not_sys` date from the time when the test was `checkTopic`; their
hypothesis is the whole test `checkTopic`.) -/

theorem subscribe_of_not_sys (mt : MemTopics) (maxQos : Nat) (t : List UInt8) (q s : Nat)
    (hd : checkTopic t = false) :
    mt.subscribe maxQos t q s =
      (if !validQos q then (mt, none) else
        let qos := if q > maxQos then maxQos else q
        let (r, ok) := mt.sroot.sinsert t qos s
        ({ mt with sroot := r }, if ok then some qos else none)) := by
  simp [MemTopics.subscribe, hd]

theorem subscribe_of_sys (mt : MemTopics) (maxQos : Nat) (t : List UInt8) (q s : Nat)
    (hd : checkTopic t = true) : mt.subscribe maxQos t q s = (mt, none) := by
  unfold MemTopics.subscribe
  split
  · rfl
  · simp [hd]

theorem unsubscribe_of_not_sys (mt : MemTopics) (t : List UInt8) (sub : Option Nat)
    (hd : checkTopic t = false) :
    mt.unsubscribe t sub = (let (r, ok) := mt.sroot.sremove t sub; ({ mt with sroot := r }, ok)) := by
  simp [MemTopics.unsubscribe, hd]

theorem unsubscribe_of_sys (mt : MemTopics) (t : List UInt8) (sub : Option Nat)
    (hd : checkTopic t = true) : mt.unsubscribe t sub = (mt, false) := by
  simp [MemTopics.unsubscribe, hd]

theorem subscribers_of_not_sys (mt : MemTopics) (t : List UInt8) (q : Nat) (hd : checkTopic t = false) :
    mt.subscribers t q = (if !validQos q then none else mt.sroot.smatch t q) := by
  simp [MemTopics.subscribers, hd]

theorem subscribers_of_sys (mt : MemTopics) (t : List UInt8) (q : Nat) (hd : checkTopic t = true) :
    mt.subscribers t q = none := by
  simp [MemTopics.subscribers, hd]

theorem retain_of_not_sys (mt : MemTopics) (m : RMsg) (hd : checkTopic m.topic = false) :
    mt.retain m =
      (if m.payload.isEmpty then
        let (r, ok) := mt.rroot.rremove m.topic
        ({ mt with rroot := r }, ok)
      else
        let (r, ok) := mt.rroot.rinsert m.topic m
        ({ mt with rroot := r }, ok)) := by
  simp [MemTopics.retain, hd]

theorem retain_of_sys (mt : MemTopics) (m : RMsg) (hd : checkTopic m.topic = true) :
    mt.retain m = (mt, false) := by
  simp [MemTopics.retain, hd]

theorem retained_of_not_sys (mt : MemTopics) (t : List UInt8) (hd : checkTopic t = false) :
    mt.retained t = mt.rroot.rmatch t := by
  simp [MemTopics.retained, hd]

theorem retained_of_sys (mt : MemTopics) (t : List UInt8) (hd : checkTopic t = true) :
    mt.retained t = none := by
  simp [MemTopics.retained, hd]

/-! ### the levels an entry point walks

`entryLevels t` is what the trie operation behind an entry point gets to see of
`t`: nothing at all (and failure) when `checkTopic` turns the topic away, the
result of `levels` otherwise.  With it every entry point has one equation that
holds for all topics. -/

def entryLevels (t : List UInt8) : List Level × Bool := if checkTopic t then ([], false) else levels t

theorem entryLevels_of_not_sys (t : List UInt8) (h : checkTopic t = false) : entryLevels t = levels t := by
  simp [entryLevels, h]

theorem entryLevels_of_sys (t : List UInt8) (h : checkTopic t = true) : entryLevels t = ([], false) := by
  simp [entryLevels, h]

theorem entryLevels_good (t : List UInt8) (hg : good t = true) : entryLevels t = levels t :=
  entryLevels_of_not_sys t (good_checkTopic t hg)

theorem entryLevels_snd (t : List UInt8) : (entryLevels t).2 = (!checkTopic t && (levels t).2) := by
  cases h : checkTopic t <;> simp [entryLevels, h]

/-- **acceptance**: an entry point lets a topic through and its walk ends without
an error exactly when the topic is a valid filter not beginning with '$' - for
every byte string, empty levels (finding B3) and the empty topic (finding B6,
repaired) included -/
theorem entryLevels_ok (t : List UInt8) :
    (entryLevels t).2 = (Mqtt.Spec.Match.validFilter t && !Mqtt.Spec.Match.dollar t) := by
  rw [entryLevels_snd, levels_ok, checkTopic_eq]
  unfold Mqtt.Spec.Match.validFilter
  cases t.isEmpty <;> cases Mqtt.Spec.Match.dollar t <;> simp

theorem sinsertL_nil_false (n : SNode) (s q : Nat) : n.sinsertL [] false s q = n := by
  cases n; rfl
theorem sremoveL_nil_false (n : SNode) (sub : Option Nat) : n.sremoveL [] false sub = (n, false) := by
  cases n; rfl
theorem smatchL_nil_false (n : SNode) (q : Nat) : n.smatchL [] false q = none := by
  cases n; rfl
theorem rinsertL_nil_false (n : RNode) (m : RMsg) : n.rinsertL [] false m = n := by
  cases n; rfl
theorem rremoveL_nil_false (n : RNode) : n.rremoveL [] false = (n, false) := by
  cases n; rfl
theorem rmatchL_nil_false (n : RNode) : n.rmatchL [] false = none := by
  cases n; rfl

theorem subscribe_entry (mt : MemTopics) (mq : Nat) (t : List UInt8) (q s : Nat) :
    mt.subscribe mq t q s =
      if !validQos q then (mt, none) else
        ({ mt with sroot := mt.sroot.sinsertL (entryLevels t).1 (entryLevels t).2 s (if q > mq then mq else q) },
          if (entryLevels t).2 then some (if q > mq then mq else q) else none) := by
  cases hd : checkTopic t with
  | true =>
    rw [subscribe_of_sys _ _ _ _ _ hd, entryLevels_of_sys t hd]
    simp only [sinsertL_nil_false]
    split <;> rfl
  | false =>
    rw [subscribe_of_not_sys _ _ _ _ _ hd, entryLevels_of_not_sys t hd]
    rfl

theorem unsubscribe_entry (mt : MemTopics) (t : List UInt8) (sub : Option Nat) :
    mt.unsubscribe t sub =
      ({ mt with sroot := (mt.sroot.sremoveL (entryLevels t).1 (entryLevels t).2 sub).1 },
        (mt.sroot.sremoveL (entryLevels t).1 (entryLevels t).2 sub).2) := by
  cases hd : checkTopic t with
  | true => rw [unsubscribe_of_sys _ _ _ hd, entryLevels_of_sys t hd]; simp only [sremoveL_nil_false]
  | false => rw [unsubscribe_of_not_sys _ _ _ hd, entryLevels_of_not_sys t hd]; rfl

theorem subscribers_entry (mt : MemTopics) (t : List UInt8) (q : Nat) :
    mt.subscribers t q =
      if !validQos q then none else mt.sroot.smatchL (entryLevels t).1 (entryLevels t).2 q := by
  cases hd : checkTopic t with
  | true => rw [subscribers_of_sys _ _ _ hd, entryLevels_of_sys t hd]; simp [smatchL_nil_false]
  | false => rw [subscribers_of_not_sys _ _ _ hd, entryLevels_of_not_sys t hd]; rfl

theorem retain_entry (mt : MemTopics) (m : RMsg) :
    mt.retain m =
      if m.payload.isEmpty then
        ({ mt with rroot := (mt.rroot.rremoveL (entryLevels m.topic).1 (entryLevels m.topic).2).1 },
          (mt.rroot.rremoveL (entryLevels m.topic).1 (entryLevels m.topic).2).2)
      else
        ({ mt with rroot := mt.rroot.rinsertL (entryLevels m.topic).1 (entryLevels m.topic).2 m },
          (entryLevels m.topic).2) := by
  cases hd : checkTopic m.topic with
  | true =>
    rw [retain_of_sys _ _ hd, entryLevels_of_sys _ hd]
    simp only [rremoveL_nil_false, rinsertL_nil_false]
    split <;> rfl
  | false => rw [retain_of_not_sys _ _ hd, entryLevels_of_not_sys _ hd]; rfl

theorem retained_entry (mt : MemTopics) (t : List UInt8) :
    mt.retained t = mt.rroot.rmatchL (entryLevels t).1 (entryLevels t).2 := by
  cases hd : checkTopic t with
  | true => rw [retained_of_sys _ _ hd, entryLevels_of_sys t hd, rmatchL_nil_false]
  | false => rw [retained_of_not_sys _ _ hd, entryLevels_of_not_sys t hd]; rfl

/-- a topic beginning with '$' is turned away by all five entry points, the store unchanged -/
theorem sys_rejected (mt : MemTopics) (t : List UInt8) (hd : Mqtt.Spec.Match.dollar t = true) :
    (∀ mq q s, mt.subscribe mq t q s = (mt, none)) ∧ (∀ sub, mt.unsubscribe t sub = (mt, false)) ∧
    (∀ q, mt.subscribers t q = none) ∧ (∀ m : RMsg, m.topic = t → mt.retain m = (mt, false)) ∧
    mt.retained t = none := by
  have hc : checkTopic t = true := checkTopic_of_dollar t hd
  refine ⟨fun mq q s => subscribe_of_sys mt mq t q s hc, fun sub => unsubscribe_of_sys mt t sub hc,
    fun q => ?_, fun m hm => retain_of_sys mt m (hm ▸ hc), retained_of_sys mt t hc⟩
  unfold MemTopics.subscribers
  split
  · rfl
  · simp [hc]

/-- a topic `checkTopic` refuses is turned away by all five entry points, the store unchanged -/
theorem refused_rejected (mt : MemTopics) (t : List UInt8) (hc : checkTopic t = true) :
    (∀ mq q s, mt.subscribe mq t q s = (mt, none)) ∧ (∀ sub, mt.unsubscribe t sub = (mt, false)) ∧
    (∀ q, mt.subscribers t q = none) ∧ (∀ m : RMsg, m.topic = t → mt.retain m = (mt, false)) ∧
    mt.retained t = none := by
  refine ⟨fun mq q s => subscribe_of_sys mt mq t q s hc, fun sub => unsubscribe_of_sys mt t sub hc,
    fun q => ?_, fun m hm => retain_of_sys mt m (hm ▸ hc), retained_of_sys mt t hc⟩
  unfold MemTopics.subscribers
  split
  · rfl
  · simp [hc]

/-- the empty topic (no topic name and no filter, MQTT-4.7.3-1) is turned away
by all five entry points, the store unchanged (finding B6, repaired) -/
theorem empty_rejected (mt : MemTopics) :
    (∀ mq q s, mt.subscribe mq [] q s = (mt, none)) ∧ (∀ sub, mt.unsubscribe [] sub = (mt, false)) ∧
    (∀ q, mt.subscribers [] q = none) ∧ (∀ m : RMsg, m.topic = [] → mt.retain m = (mt, false)) ∧
    mt.retained [] = none :=
  refused_rejected mt [] checkTopic_nil

/-- the levels an entry point walks never are "no level at all, successfully":
the root node of either trie is not addressable through `MemTopics` -/
theorem entryLevels_ne_root (t : List UInt8) : entryLevels t ≠ ([], true) := by
  unfold entryLevels
  cases hc : checkTopic t with
  | true => simp
  | false =>
    simp only [Bool.false_eq_true, ↓reduceIte]
    have hne : t ≠ [] := ((checkTopic_false_iff t).mp hc).1
    unfold levels
    rw [levelsFuel_succ _ t hne]
    cases nextTopicLevel t <;> simp

end Mqtt.Proofs.Topics
