/-
Core E, helper lemmas: what SUBSCRIBE / UNSUBSCRIBE steps do to the entries of
the subscription trie (C07 c), and the publish fan-out against those entries
(C01 e).
-/
import Mqtt.Proofs.BrokerFanoutInv
import Mqtt.Properties.C06

set_option linter.unusedSimpArgs false

namespace Mqtt.Proofs.Broker
open Mqtt.Iface.Broker Mqtt.Model.Broker
open Mqtt.Model.Topics (MemTopics RMsg SNode RNode levels validQos Level)
open Mqtt.Proofs.Topics (entryLevels)
open Mqtt.Proofs.Topics (WF RWF abs absR good Entry)
open Mqtt.Properties.C06
open Mqtt.Spec.Match (split validName validFilter)

/-! ### entries -/

/-- replace or add the entry of (path, subscriber) -/
def addEntry (es : List Entry) (ls : List Level) (c q : Nat) : List Entry :=
  es.filter (fun e => !(e.1 == ls && e.2.1 == c)) ++ [(ls, c, q)]

/-- drop the entry of (path, subscriber) -/
def delEntry (es : List Entry) (ls : List Level) (c : Nat) : List Entry :=
  es.filter (fun e => !(e.1 == ls && e.2.1 == c))

theorem addEntry_perm (es es' : List Entry) (ls : List Level) (c q : Nat) (h : es.Perm es') :
    (addEntry es ls c q).Perm (addEntry es' ls c q) :=
  List.Perm.append_right _ (h.filter _)

theorem delEntry_perm (es es' : List Entry) (ls : List Level) (c : Nat) (h : es.Perm es') :
    (delEntry es ls c).Perm (delEntry es' ls c) := h.filter _

/-- the entries after the per-filter loop of a SUBSCRIBE from subscriber `c` -/
def entriesAfterSub (c : Nat) (topics : List (Bytes × Nat)) (es : List Entry) : List Entry :=
  topics.foldl (fun es tq =>
    if accepts tq.1 tq.2 then addEntry es (entryLevels tq.1).1 c (min tq.2 Mqtt.Generated.maxQosAllowed) else es) es

/-- the entries after the per-filter loop of an UNSUBSCRIBE from subscriber `c` -/
def entriesAfterUnsub (c : Nat) (topics : List Bytes) (es : List Entry) : List Entry :=
  topics.foldl (fun es t => if (entryLevels t).2 then delEntry es (entryLevels t).1 c else es) es

theorem entriesAfterSub_perm (c : Nat) (topics : List (Bytes × Nat)) :
    ∀ es es' : List Entry, es.Perm es' → (entriesAfterSub c topics es).Perm (entriesAfterSub c topics es') := by
  induction topics with
  | nil => intro es es' h; exact h
  | cons tq rest ih =>
    intro es es' h
    simp only [entriesAfterSub, List.foldl_cons]
    apply ih
    split
    · exact addEntry_perm _ _ _ _ _ h
    · exact h

theorem entriesAfterUnsub_perm (c : Nat) (topics : List Bytes) :
    ∀ es es' : List Entry, es.Perm es' → (entriesAfterUnsub c topics es).Perm (entriesAfterUnsub c topics es') := by
  induction topics with
  | nil => intro es es' h; exact h
  | cons t rest ih =>
    intro es es' h
    simp only [entriesAfterUnsub, List.foldl_cons]
    apply ih
    split
    · exact delEntry_perm _ _ _ _ h
    · exact h

/-! ### one `Subscribe` / `Unsubscribe` call of the store -/

theorem subscribe_abs (mt : MemTopics) (t : Bytes) (q c : Nat) (h : WF mt.sroot) :
    (abs (mt.subscribe Mqtt.Generated.maxQosAllowed t q c).1.sroot).Perm
      (if accepts t q then addEntry (abs mt.sroot) (entryLevels t).1 c (min q Mqtt.Generated.maxQosAllowed)
       else abs mt.sroot) := by
  rw [subscribe_sroot]
  unfold accepts
  obtain ⟨_, h2, h3⟩ := C06_sinsert_refines mt.sroot (entryLevels t).1 c (min q Mqtt.Generated.maxQosAllowed) h
  cases hv : validQos q with
  | false => simp
  | true =>
    cases hl : (entryLevels t).2 with
    | false => simpa using h3
    | true => simpa [addEntry] using h2

theorem unsubscribe_abs (mt : MemTopics) (t : Bytes) (c : Nat) (h : WF mt.sroot) :
    (abs (mt.unsubscribe t (some c)).1.sroot).Perm
      (if (entryLevels t).2 then delEntry (abs mt.sroot) (entryLevels t).1 c else abs mt.sroot) := by
  rw [unsubscribe_sroot]
  obtain ⟨_, h2, _, _, h5⟩ := C06_sremove_refines mt.sroot (entryLevels t).1 c h
  cases hl : (entryLevels t).2 with
  | false => rw [h5]; simp
  | true => simpa [delEntry] using h2

/-! ### the loops -/

theorem subscribeLoop_abs (c : Nat) (topics : List (Bytes × Nat)) :
    ∀ (b : B) (s : Sess) (codes : List Nat) (rms : List Msg), WF b.topics.sroot →
      (abs (subscribeLoop b c s topics codes rms).1.topics.sroot).Perm
        (entriesAfterSub c topics (abs b.topics.sroot)) := by
  induction topics with
  | nil => intro b s codes rms _; exact List.Perm.refl _
  | cons tq rest ih =>
    intro b s codes rms h
    obtain ⟨t, q⟩ := tq
    unfold subscribeLoop
    have hw := subscribe_WF b.topics Mqtt.Generated.maxQosAllowed t q c h
    have ha := subscribe_abs b.topics t q c h
    generalize b.topics.subscribe Mqtt.Generated.maxQosAllowed t q c = r at hw ha
    obtain ⟨ts, o⟩ := r
    simp only [entriesAfterSub, List.foldl_cons]
    cases o with
    | none => exact (ih _ _ _ _ hw).trans (entriesAfterSub_perm c rest _ _ ha)
    | some rq => exact (ih _ _ _ _ hw).trans (entriesAfterSub_perm c rest _ _ ha)

theorem unsubFold_abs (c : Nat) (topics : List Bytes) : ∀ ts : MemTopics, WF ts.sroot →
    (abs (topics.foldl (fun ts t => (ts.unsubscribe t (some c)).1) ts).sroot).Perm
      (entriesAfterUnsub c topics (abs ts.sroot)) := by
  induction topics with
  | nil => intro ts _; exact List.Perm.refl _
  | cons t rest ih =>
    intro ts h
    simp only [List.foldl_cons, entriesAfterUnsub]
    exact (ih _ (unsubscribe_WF ts t (some c) h)).trans
      (entriesAfterUnsub_perm c rest _ _ (unsubscribe_abs ts t c h))

/-! ### the steps -/

theorem packet_subscribe_sroot (b : B) (hinv : Inv b) (c id : Nat) (topics : List (Bytes × Nat))
    (hl : b.alive c = true) :
    (abs (packet b c (.subscribe id topics)).1.topics.sroot).Perm (entriesAfterSub c topics (abs b.topics.sroot)) := by
  obtain ⟨cn, s, hc, ha, hs⟩ := hinv.live b c hl
  rw [packet_subscribe b c cn s id topics hc ha hs]
  simp only
  rw [(sendRetained_shape c _ _).2.2.1, setSess_topics]
  exact subscribeLoop_abs c topics b s [] [] hinv.wf

theorem packet_unsubscribe_sroot (b : B) (hinv : Inv b) (c id : Nat) (topics : List Bytes)
    (hl : b.alive c = true) :
    (abs (packet b c (.unsubscribe id topics)).1.topics.sroot).Perm
      (entriesAfterUnsub c topics (abs b.topics.sroot)) := by
  obtain ⟨cn, s, hc, ha, hs⟩ := hinv.live b c hl
  rw [packet_unsubscribe b c cn s id topics hc ha hs]
  simp only [setSess_topics]
  exact unsubFold_abs c topics b.topics hinv.wf

/-! ### consequences of the loops: other subscribers, presence, absence -/

theorem entriesAfterSub_others (c : Nat) (topics : List (Bytes × Nat)) : ∀ es : List Entry,
    (entriesAfterSub c topics es).filter (fun e => e.2.1 != c) = es.filter (fun e => e.2.1 != c) := by
  induction topics with
  | nil => intro es; rfl
  | cons tq rest ih =>
    intro es
    simp only [entriesAfterSub, List.foldl_cons]
    have := ih (if accepts tq.1 tq.2 then addEntry es (entryLevels tq.1).1 c (min tq.2 Mqtt.Generated.maxQosAllowed) else es)
    simp only [entriesAfterSub] at this
    rw [this]
    split
    · simp only [addEntry, List.filter_append, List.filter_filter, List.filter_cons, List.filter_nil,
        bne_self_eq_false, Bool.false_eq_true, ↓reduceIte, List.append_nil]
      apply List.filter_congr
      intro e _
      by_cases hc : e.2.1 = c <;> simp [hc]
    · rfl

theorem entriesAfterUnsub_others (c : Nat) (topics : List Bytes) : ∀ es : List Entry,
    (entriesAfterUnsub c topics es).filter (fun e => e.2.1 != c) = es.filter (fun e => e.2.1 != c) := by
  induction topics with
  | nil => intro es; rfl
  | cons t rest ih =>
    intro es
    simp only [entriesAfterUnsub, List.foldl_cons]
    have := ih (if (entryLevels t).2 then delEntry es (entryLevels t).1 c else es)
    simp only [entriesAfterUnsub] at this
    rw [this]
    split
    · simp only [delEntry, List.filter_filter]
      apply List.filter_congr
      intro e _
      by_cases hc : e.2.1 = c <;> simp [hc]
    · rfl

theorem entriesAfterSub_keep (c : Nat) (post : List (Bytes × Nat)) (ls : List Level) (g : Nat)
    (hpost : ∀ tq ∈ post, accepts tq.1 tq.2 = true → (entryLevels tq.1).1 ≠ ls) :
    ∀ es : List Entry, (ls, c, g) ∈ es → (ls, c, g) ∈ entriesAfterSub c post es := by
  induction post with
  | nil => intro es h; exact h
  | cons tq rest ih =>
    intro es h
    simp only [entriesAfterSub, List.foldl_cons]
    apply ih (fun x hx => hpost x (List.mem_cons_of_mem _ hx))
    split
    · rename_i ha
      have hne := hpost tq (by simp) ha
      simp only [addEntry, List.mem_append, List.mem_filter, List.mem_singleton]
      left
      refine ⟨h, ?_⟩
      have : (ls == (entryLevels tq.1).1) = false := by simpa using fun hx => hne hx.symm
      simp [this]
    · exact h

/-- the request at position `pre.length` is granted and no later granted request
names the same filter: its entry, with its own return code, is in the result -/
theorem entriesAfterSub_mem (c : Nat) (pre post : List (Bytes × Nat)) (t : Bytes) (q : Nat) (es : List Entry)
    (ha : accepts t q = true)
    (hpost : ∀ tq ∈ post, accepts tq.1 tq.2 = true → (entryLevels tq.1).1 ≠ (entryLevels t).1) :
    ((entryLevels t).1, c, min q Mqtt.Generated.maxQosAllowed) ∈ entriesAfterSub c (pre ++ (t, q) :: post) es := by
  simp only [entriesAfterSub, List.foldl_append, List.foldl_cons, ha, ↓reduceIte]
  apply entriesAfterSub_keep c post _ _ hpost
  simp [addEntry]

theorem entriesAfterUnsub_subset (c : Nat) (topics : List Bytes) : ∀ (es : List Entry) (e : Entry),
    e ∈ entriesAfterUnsub c topics es → e ∈ es := by
  induction topics with
  | nil => intro es e h; exact h
  | cons t rest ih =>
    intro es e h
    simp only [entriesAfterUnsub, List.foldl_cons] at h
    have := ih _ e h
    split at this
    · exact (List.mem_filter.mp this).1
    · exact this

theorem entriesAfterUnsub_absent (c : Nat) (topics : List Bytes) (t : Bytes) (ht : t ∈ topics)
    (hl : (entryLevels t).2 = true) : ∀ (es : List Entry) (q : Nat),
    ((entryLevels t).1, c, q) ∉ entriesAfterUnsub c topics es := by
  induction topics with
  | nil => cases ht
  | cons t' rest ih =>
    intro es q hmem
    simp only [entriesAfterUnsub, List.foldl_cons] at hmem
    rcases List.mem_cons.mp ht with rfl | hr
    · have := entriesAfterUnsub_subset c rest _ _ hmem
      simp [hl, delEntry] at this
    · exact ih hr _ q hmem

/-! ### against the specification's set of held subscriptions -/

open Mqtt.Spec.Broker (Held addHeld subCode)

def heldEntry (h : Held) : Entry := (split h.filter, h.owner, h.qos)

/-- the subscription trie holds exactly the subscriptions `held` (each under
the path of its filter), and those filters are valid -/
structure HeldInv (root : SNode) (held : List Held) : Prop where
  perm : (abs root).Perm (held.map heldEntry)
  valid : ∀ h ∈ held, validFilter h.filter = true

theorem HeldInv_empty : HeldInv SNode.empty [] :=
  ⟨by simp [Mqtt.Proofs.Topics.abs_empty], by simp⟩

theorem addEntry_held (held : List Held) (c : Nat) (t : Bytes) (g : Nat) :
    addEntry (held.map heldEntry) (split t) c g = (addHeld held c t g).map heldEntry := by
  unfold addEntry addHeld
  rw [List.map_append, List.filter_map]
  congr 1
  congr 1
  apply List.filter_congr
  intro h _
  simp only [Function.comp, heldEntry]
  by_cases hf : h.filter = t
  · subst hf; simp [Bool.and_comm]
  · have : split h.filter ≠ split t := fun hs => hf (Mqtt.Proofs.Topics.split_inj _ _ hs)
    have hb : (split h.filter == split t) = false := by simpa using this
    have hb2 : (h.filter == t) = false := by simpa using hf
    simp [hb, hb2]

theorem delEntry_held (held : List Held) (c : Nat) (t : Bytes) :
    delEntry (held.map heldEntry) (split t) c =
      (held.filter (fun h => !(h.owner == c && h.filter == t))).map heldEntry := by
  unfold delEntry
  rw [List.filter_map]
  congr 1
  apply List.filter_congr
  intro h _
  simp only [Function.comp, heldEntry]
  by_cases hf : h.filter = t
  · subst hf; simp [Bool.and_comm]
  · have : split h.filter ≠ split t := fun hs => hf (Mqtt.Proofs.Topics.split_inj _ _ hs)
    have hb : (split h.filter == split t) = false := by simpa using this
    have hb2 : (h.filter == t) = false := by simpa using hf
    simp [hb, hb2]

/-- the specification's `held` after a SUBSCRIBE, as a loop over the request -/
def specSubHeld (c : Nat) (topics : List (Bytes × Nat)) (held : List Held) : List Held :=
  topics.foldl (fun h tq => if subCode tq.1 tq.2 != 0x80 then addHeld h c tq.1 (subCode tq.1 tq.2) else h) held

theorem specSubHeld_eq (c : Nat) (topics : List (Bytes × Nat)) : ∀ held : List Held,
    ((topics.zip (topics.map (fun t => subCode t.1 t.2))).filter (fun p => p.2 != 0x80)).foldl
      (fun h p => addHeld h c p.1.1 p.2) held = specSubHeld c topics held := by
  induction topics with
  | nil => intro held; rfl
  | cons tq rest ih =>
    intro held
    simp only [List.map_cons, List.zip_cons_cons, List.filter_cons, specSubHeld, List.foldl_cons]
    split
    · simp only [List.foldl_cons]
      rw [ih]; rfl
    · rw [ih]; rfl

theorem subCode_granted (t : Bytes) (q : Nat) :
    (subCode t q != 0x80) = (validFilter t && decide (q ≤ 2)) ∧
    ((validFilter t && decide (q ≤ 2)) = true → subCode t q = min q Mqtt.Generated.maxQosAllowed) := by
  unfold subCode
  cases h : (validFilter t && decide (q ≤ 2)) with
  | false => simp
  | true =>
    simp only [↓reduceIte, Mqtt.Spec.Broker.maxQos, facts_maxQos]
    refine ⟨?_, fun _ => trivial⟩
    have : min q 2 ≠ 128 := by omega
    simpa using this

theorem entriesAfterSub_held (c : Nat) (topics : List (Bytes × Nat)) (hg : ∀ tq ∈ topics, good tq.1 = true) :
    ∀ held : List Held, (∀ h ∈ held, validFilter h.filter = true) →
      entriesAfterSub c topics (held.map heldEntry) = (specSubHeld c topics held).map heldEntry ∧
      ∀ h ∈ specSubHeld c topics held, validFilter h.filter = true := by
  induction topics with
  | nil => intro held hv; exact ⟨rfl, hv⟩
  | cons tq rest ih =>
    intro held hv
    obtain ⟨t, q⟩ := tq
    have hgt : good t = true := hg (t, q) (by simp)
    simp only [entriesAfterSub, specSubHeld, List.foldl_cons]
    obtain ⟨c1, c2⟩ := subCode_granted t q
    rw [accepts_good t q hgt, c1]
    cases hcond : (validFilter t && decide (q ≤ 2)) with
    | false =>
      simp only [Bool.false_eq_true, ↓reduceIte]
      exact ih (fun x hx => hg x (List.mem_cons_of_mem _ hx)) held hv
    | true =>
      simp only [↓reduceIte]
      have hvt : validFilter t = true := by simp only [Bool.and_eq_true] at hcond; exact hcond.1
      rw [(Mqtt.Proofs.Topics.entryLevels_valid t hgt hvt).1, c2 hcond, addEntry_held]
      apply ih (fun x hx => hg x (List.mem_cons_of_mem _ hx))
      intro h hh
      simp only [addHeld, List.mem_append, List.mem_filter, List.mem_singleton] at hh
      rcases hh with hh | rfl
      · exact hv h hh.1
      · exact hvt

theorem entriesAfterUnsub_held (c : Nat) (topics : List Bytes) (hg : ∀ t ∈ topics, good t = true) :
    ∀ held : List Held, (∀ h ∈ held, validFilter h.filter = true) →
      entriesAfterUnsub c topics (held.map heldEntry) =
        (held.filter (fun h => !(h.owner == c && topics.contains h.filter))).map heldEntry := by
  induction topics with
  | nil =>
    intro held _
    have : held.filter (fun _ => true) = held := List.filter_eq_self.mpr (fun _ _ => rfl)
    simp [entriesAfterUnsub, this]
  | cons t rest ih =>
    intro held hv
    have hgt : good t = true := hg t (by simp)
    simp only [entriesAfterUnsub, List.foldl_cons]
    have hstep : (if (entryLevels t).2 then delEntry (held.map heldEntry) (entryLevels t).1 c else held.map heldEntry) =
        (held.filter (fun h => !(h.owner == c && h.filter == t))).map heldEntry := by
      cases hvt : validFilter t with
      | true =>
        obtain ⟨e1, e2⟩ := Mqtt.Proofs.Topics.entryLevels_valid t hgt hvt
        rw [e1, e2]
        simp only [↓reduceIte]
        exact delEntry_held held c t
      | false =>
        rw [Mqtt.Proofs.Topics.entryLevels_invalid t hgt hvt]
        simp only [Bool.false_eq_true, ↓reduceIte]
        congr 1
        symm
        rw [List.filter_eq_self]
        intro h hh
        have : h.filter ≠ t := by intro hx; rw [← hx, hv h hh] at hvt; exact absurd hvt (by simp)
        simp [this]
    rw [hstep]
    have := ih (fun x hx => hg x (List.mem_cons_of_mem _ hx)) (held.filter (fun h => !(h.owner == c && h.filter == t)))
      (fun h hh => hv h (List.mem_filter.mp hh).1)
    simp only [entriesAfterUnsub] at this
    rw [this, List.filter_filter]
    congr 1
    apply List.filter_congr
    intro h _
    simp only [List.contains_cons]
    cases h.owner == c <;> cases h.filter == t <;> simp

/-! ### (e) the publish fan-out against the entries of the trie -/

/-- the subscriber list the store computes for a good, valid name -/
theorem subscribers_char (mt : MemTopics) (t : Bytes) (q : Nat) (hwf : WF mt.sroot)
    (hg : good t = true) (hn : validName t = true) (hq : q ≤ 2) :
    ∃ r, mt.subscribers t q = some r ∧
      r.Perm (((abs mt.sroot).filter (fun e => Mqtt.Spec.Match.matchLevels e.1 (split t))).map
        (fun e => (e.2.1, min q e.2.2))) := by
  obtain ⟨e1, e2⟩ := Mqtt.Proofs.Topics.entryLevels_valid t hg (Mqtt.Proofs.Topics.validName_validFilter t hn)
  have hvq : validQos q = true := by rw [Mqtt.Proofs.Topics.validQos_iff]; simpa using hq
  obtain ⟨r, hr, hp⟩ := C06_smatch_char mt.sroot (split t) q hwf
  refine ⟨r, ?_, ?_⟩
  · rw [Mqtt.Proofs.Topics.subscribers_entry]
    simp only [hvq, Bool.not_true, Bool.false_eq_true, ↓reduceIte]
    rw [← e1, ← e2] at hr
    exact hr
  · refine hp.trans ?_
    have : ∀ l : List Entry,
        l.filterMap (fun e => if Mqtt.Proofs.Topics.walk e.1 (split t) then some (e.2.1, min q e.2.2) else none) =
        (l.filter (fun e => Mqtt.Spec.Match.matchLevels e.1 (split t))).map (fun e => (e.2.1, min q e.2.2)) := by
      intro l
      simp only [C06_walk_eq_spec]
      induction l with
      | nil => rfl
      | cons e rest ih =>
        simp only [List.filterMap_cons, List.filter_cons]
        cases Mqtt.Spec.Match.matchLevels e.1 (split t) <;> simp [ih]
    rw [this]

/-- (e) `onPublish` of a decoded PUBLISH on a good, valid topic name: the
outputs are, up to the order of map iteration, one forward per entry of the
trie whose path matches the name under section 4.7 - RETAIN = 0 for connections
and in-process callbacks alike -/
theorem onPublish_char (b : B) (p : Pub) (hinv : Inv b)
    (hg : good p.topic = true) (hn : validName p.topic = true) (hq : p.qos ≤ 2)
    (hid : p.pktid ≠ 0 ∨ p.qos = 0)
    (hal : ∀ e ∈ abs b.topics.sroot, e.2.1 < cbBase → b.alive e.2.1 = true) :
    (onPublish b ⟨p, false⟩).2.2.2 = true ∧
    (onPublish b ⟨p, false⟩).1 = (retainStep b ⟨p, false⟩).1 ∧
    (onPublish b ⟨p, false⟩).2.2.1.Perm
      (((abs b.topics.sroot).filter (fun e => Mqtt.Spec.Match.matchLevels e.1 (split p.topic))).map
        (fun e => fwd { p with retain := false } (e.2.1, min p.qos e.2.2))) := by
  obtain ⟨hm, hctr⟩ := retainStep_clean b ⟨p, false⟩ rfl
  obtain ⟨f1, f2, _, _, _⟩ := retainStep_frame b ⟨p, false⟩
  have ht : p.topic ≠ [] := by
    intro h0; rw [h0] at hn; exact absurd hn (by decide)
  have hwf1 : WF (retainStep b ⟨p, false⟩).1.topics.sroot := by rw [f1]; exact hinv.wf
  obtain ⟨subs, hsubs, hperm⟩ := subscribers_char (retainStep b ⟨p, false⟩).1.topics p.topic p.qos hwf1 hg hn hq
  rw [f1] at hperm
  have hmem : ∀ sq ∈ subs, ∃ e ∈ abs b.topics.sroot, sq = (e.2.1, min p.qos e.2.2) := by
    intro sq hsq
    have := hperm.mem_iff.mp hsq
    simp only [List.mem_map, List.mem_filter] at this
    obtain ⟨e, ⟨he, _⟩, rfl⟩ := this
    exact ⟨e, he, rfl⟩
  have hfan := fanoutLive_char subs (retainStep b ⟨p, false⟩).1 ⟨p, false⟩ ht
    (by
      rcases hid with h | h
      · exact Or.inl h
      · refine Or.inr (fun sq hsq => ?_)
        obtain ⟨e, _, rfl⟩ := hmem sq hsq
        simp only [h]; omega)
    (by
      intro sq hsq hlt
      obtain ⟨e, he, rfl⟩ := hmem sq hsq
      rw [alive_congr b _ f2]
      exact hal e he hlt)
  unfold onPublish
  simp only
  rw [hm, hsubs]
  simp only
  obtain ⟨g1, _, g3⟩ := hfan
  refine ⟨trivial, g1, ?_⟩
  rw [g3]
  have := hperm.map (fwd { p with retain := false })
  simpa [List.map_map, Function.comp_def] using this

end Mqtt.Proofs.Broker
