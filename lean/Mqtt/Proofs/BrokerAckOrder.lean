/-
Core E, bridge lemma: the regenerated statement order of `processSubscribe` /
`processUnsubscribe` (extract/facts_broker.go, section `brokerack`).  The broker
model (`Model/Broker.packet`) performs the effects of a SUBSCRIBE / UNSUBSCRIBE on
the subscription store and the session and emits the acknowledgement in ONE step;
for the code that is right only if the acknowledgement is written after the last
effect (an acknowledgement that leaves the broker first opens a window in which a
PUBLISH from another connection still sees the old subscriptions - no event order
of the sequential model describes that).
-/
import Mqtt.Generated.Facts

namespace Mqtt.Proofs.Broker

/-- in both functions every `writeMessage(resp)` comes after the last
`topicsMgr.Subscribe/Unsubscribe` / `sess.AddTopic/RemoveTopic` call -/
theorem facts_ack_after_effects :
    Mqtt.Generated.subscribeAckAfterEffects = true ∧ Mqtt.Generated.unsubscribeAckAfterEffects = true := by
  decide

end Mqtt.Proofs.Broker
