/-
Core F — helper lemmas for C16, part 3: `stop()`.  One winner of the CAS, how far it got
(what is closed once its program counter has passed the statement), effects exactly once and in order.
-/
import Mqtt.Proofs.LifecycleInv

set_option linter.unusedSimpArgs false
set_option linter.unusedVariables false

namespace Mqtt.Proofs.Lifecycle
open Mqtt.Model.Lifecycle

/-- number of statements of `stop()` a caller has executed (100 = returned) -/
def stage : KPc → Nat
  | .idle => 0
  | .run i => i
  | .finished => 100

/-- the `stop()` call of a thread, if it is inside / through one -/
def kOf (s : St) : Tid → Option KPc
  | .proc => match s.proc with
    | .stop k => some k
    | _ => none
  | .k i => s.ks[i]?
  | _ => none

/-- the effects a winner that has executed `n` statements has had -/
def effAt (sh : Sh) (n : Nat) : List Eff :=
  (if 7 ≤ n then [.unsub] else []) ++ (if 8 ≤ n ∧ sh.willFlag = true then [.will] else []) ++
  (if 9 ≤ n ∧ sh.clean = true then [.sessDel] else [])

/-- what holds of a `stop()` caller that has executed `n` statements -/
structure KInvN (sh : Sh) (me : Tid) (n : Nat) : Prop where
  prog : 1 ≤ n → n < 100 → sh.winner = some me
  won : sh.winner = some me →
    1 ≤ n ∧ (2 ≤ n → sh.doneCh = true) ∧ (3 ≤ n → sh.sock = .closed) ∧ (4 ≤ n → sh.inR.done = true) ∧
    (5 ≤ n → sh.outR.done = true) ∧ (6 ≤ n → sh.wg = 0) ∧ sh.effects = effAt sh n
  fin : n = 100 → sh.closed = true
  bound : n ≤ 9 ∨ n = 100

structure InvK (s : St) : Prop where
  opn : s.sh.closed = false → s.sh.winner = none ∧ s.sh.effects = []
  cls : s.sh.closed = true → ∃ t k, s.sh.winner = some t ∧ kOf s t = some k
  nil : s.sh.ringsNil = false
  ks : ∀ t k, kOf s t = some k → KInvN s.sh t (stage k)
  runs : ∀ t i, kOf s t = some (.run i) → i ≤ 9
  pidle : kOf s .proc ≠ some .idle

theorem invK_init (c : Cfg) (s : St) (h : Init c s) : InvK s := by
  have hidle : ∀ t k, kOf s t = some k → k = .idle := by
    intro t k hk
    cases t <;> simp [kOf, h.proc] at hk
    exact h.ks k (List.mem_iff_getElem?.mpr ⟨_, hk⟩)
  refine ⟨fun _ => ⟨h.winner, h.effects⟩, ?_, h.ringsNil, ?_, ?_, ?_⟩
  rotate_left 2
  · intro t i hk; have := hidle t _ hk; cases this
  · simp [kOf, h.proc]
  · intro hc; rw [h.closed] at hc; cases hc
  · intro t k hk
    have hk0 : stage k = 0 := by
      cases t <;> simp [kOf, h.proc] at hk
      have := h.ks k (List.mem_iff_getElem?.mpr ⟨_, hk⟩)
      simp [this, stage]
    rw [hk0]
    refine ⟨by omega, ?_, by omega, by omega⟩
    intro hw; rw [h.winner] at hw; cases hw

/-- steps that are not `stop()` statements leave what `InvK` talks about alone, or only push it
forward -/
structure FrameK (sh sh' : Sh) : Prop where
  winner : sh'.winner = sh.winner
  closed : sh'.closed = sh.closed
  doneCh : sh.doneCh = true → sh'.doneCh = true
  sock : sh.sock = .closed → sh'.sock = .closed
  inDone : sh.inR.done = true → sh'.inR.done = true
  outDone : sh.outR.done = true → sh'.outR.done = true
  wg : sh.wg = 0 → sh'.wg = 0
  effects : sh'.effects = sh.effects
  willFlag : sh'.willFlag = sh.willFlag ∨ sh.wg ≠ 0
  clean : sh'.clean = sh.clean
  nil : sh'.ringsNil = sh.ringsNil

theorem kinvN_frame (sh sh' : Sh) (hf : FrameK sh sh') (me : Tid) (n : Nat) (h : KInvN sh me n) :
    KInvN sh' me n := by
  refine ⟨?_, ?_, ?_, ?_⟩
  · intro h1 h2; rw [hf.winner]; exact h.prog h1 h2
  · intro hw; rw [hf.winner] at hw
    obtain ⟨a, b, c, d, e, f, g⟩ := h.won hw
    refine ⟨a, fun x => hf.doneCh (b x), fun x => hf.sock (c x), fun x => hf.inDone (d x),
      fun x => hf.outDone (e x), fun x => hf.wg (f x), ?_⟩
    rw [hf.effects, g]
    rcases hf.willFlag with hwf | hwg
    · simp [effAt, hwf, hf.clean]
    · have hn : n < 6 := by
        rcases Nat.lt_or_ge n 6 with h6 | h6
        · exact h6
        · exact absurd (f h6) hwg
      have h7 : ¬ 7 ≤ n := by omega
      have h8 : ¬ 8 ≤ n := by omega
      have h9 : ¬ 9 ≤ n := by omega
      simp [effAt, h7, h8, h9]
  · intro hn; rw [hf.closed]; exact h.fin hn
  · exact h.bound

/-- `InvK` survives a step that satisfies `FrameK` and moves no `stop()` caller to another stage;
a thread may newly appear as a caller that has executed nothing -/
theorem invK_frame (s s' : St) (hf : FrameK s.sh s'.sh)
    (hk : ∀ t k', kOf s' t = some k' → kOf s t = some k' ∨ (k' = .run 0 ∧ (kOf s t = none ∨ kOf s t = some .idle)))
    (hk2 : ∀ t k, kOf s t = some k → ∃ k', kOf s' t = some k')
    (hi : InvK s) : InvK s' := by
  refine ⟨?_, ?_, ?_, ?_, ?_, ?_⟩
  rotate_left 5
  · intro hk'
    rcases hk .proc _ hk' with h1 | ⟨h0, _⟩
    · exact hi.pidle h1
    · cases h0
  · intro hc; rw [hf.closed] at hc
    have := hi.opn hc
    rw [hf.winner, hf.effects]; exact this
  · intro hc; rw [hf.closed] at hc
    obtain ⟨t, k, h1, h2⟩ := hi.cls hc
    obtain ⟨k', h3⟩ := hk2 t k h2
    exact ⟨t, k', by rw [hf.winner]; exact h1, h3⟩
  · rw [hf.nil]; exact hi.nil
  · intro t k' hk'
    rcases hk t k' hk' with h1 | ⟨rfl, h1 | h1⟩
    · exact kinvN_frame _ _ hf t _ (hi.ks t k' h1)
    · simp only [stage]
      refine ⟨by omega, ?_, by omega, by omega⟩
      intro hw; rw [hf.winner] at hw
      -- the winner is a thread inside stop(); this one was not
      have hc : s.sh.closed = true := by
        cases hcl : s.sh.closed with
        | true => rfl
        | false => have := (hi.opn hcl).1; rw [this] at hw; cases hw
      obtain ⟨t', k, h3, h4⟩ := hi.cls hc
      rw [hw] at h3; cases h3
      rw [h1] at h4; cases h4
    · have := kinvN_frame _ _ hf t _ (hi.ks t .idle h1)
      simpa [stage] using this
  · intro t i hk'
    rcases hk t _ hk' with h1 | ⟨h0, _⟩
    · exact hi.runs t i h1
    · cases h0; omega

theorem rstep_frameK (c : Cfg) (hw : WF c) (sh sh' : Sh) (k : Nat) (pc pc' : RPc)
    (h : rstep c sh k pc = some (sh', pc')) : FrameK sh sh' := by
  cases pc with
  | space =>
    simp only [rstep] at h
    cases hs : sh.inR.waitSpace c c.spaceNeed with
    | none => simp [hs] at h
    | some q =>
      obtain ⟨ret, r⟩ := q
      obtain ⟨rfl, -⟩ := waitSpace_some c hw.d2 _ _ _ _ hs
      cases ret <;> simp [hs] at h <;> obtain ⟨rfl, rfl⟩ := h <;> constructor <;> simp
  | read =>
    simp only [rstep] at h
    by_cases h1 : sh.sock ≠ .open ∨ sh.timeout = true
    · simp [h1] at h; obtain ⟨rfl, rfl⟩ := h; constructor <;> simp
    · by_cases h2 : sh.wire = 0
      · simp [h1, h2] at h
      · simp only [h1, h2, if_false] at h; simp at h; obtain ⟨rfl, rfl⟩ := h; constructor <;> simp
  | commit n =>
    simp only [rstep] at h
    cases hs : sh.inR.commitP c n with
    | none => simp [hs] at h
    | some q =>
      obtain ⟨ret, r⟩ := q
      rcases commitP_some c hw.d2 _ _ _ _ hs with ⟨_, rfl, _⟩ | ⟨_, rfl, _⟩ <;>
        cases ret <;> simp [hs] at h <;> obtain ⟨rfl, rfl⟩ := h <;> constructor <;> simp
  | close => simp only [rstep, close_returns c hw.d2, hw.rc] at h; simp at h; obtain ⟨rfl, rfl⟩ := h; constructor <;> simp
  | connClose => simp [rstep] at h; obtain ⟨rfl, rfl⟩ := h; constructor <;> simp
  | wgDone =>
    simp [rstep] at h; obtain ⟨rfl, rfl⟩ := h; constructor <;> simp
    intro h0; simp [h0]
  | exited => simp [rstep] at h

theorem sstep_frameK (c : Cfg) (hw : WF c) (sh sh' : Sh) (pc pc' : SPc)
    (h : sstep c sh pc = some (sh', pc')) : FrameK sh sh' := by
  cases pc with
  | peek =>
    simp only [sstep] at h
    by_cases h1 : sh.outR.done = true
    · simp [h1] at h; obtain ⟨rfl, rfl⟩ := h; constructor <;> simp
    · by_cases h2 : 0 < sh.outR.buf <;> simp [h1, h2] at h
      obtain ⟨rfl, rfl⟩ := h; constructor <;> simp
  | write m =>
    simp only [sstep] at h
    by_cases h1 : sh.sock.wfail = true
    · simp [h1] at h; obtain ⟨rfl, rfl⟩ := h; constructor <;> simp
    · by_cases h2 : sh.peerReads = true <;> simp [h1, h2] at h
      obtain ⟨rfl, rfl⟩ := h; constructor <;> simp
  | commit m => simp only [sstep, commitC_returns c hw.d2] at h; simp at h; obtain ⟨rfl, rfl⟩ := h; constructor <;> simp
  | close => simp only [sstep, close_returns c hw.d2] at h; simp at h; obtain ⟨rfl, rfl⟩ := h; constructor <;> simp
  | wgDone =>
    simp [sstep] at h; obtain ⟨rfl, rfl⟩ := h; constructor <;> simp
    intro h0; simp [h0]
  | exited => simp [sstep] at h

theorem wstep_frameK (c : Cfg) (hw : WF c) (sh sh' : Sh) (me : Tid) (w w' : WTh)
    (h : wstep c sh me w = some (sh', w')) : FrameK sh sh' := by
  obtain ⟨pc, len⟩ := w
  cases pc with
  | check =>
    simp only [wstep] at h
    by_cases hn : sh.ringsNil = true <;> simp [hn] at h <;> obtain ⟨rfl, rfl⟩ := h <;> constructor <;> simp
  | lock =>
    simp only [wstep] at h
    by_cases hm : sh.wmu.isSome = true <;> simp [hm] at h
    obtain ⟨rfl, rfl⟩ := h; constructor <;> simp
  | wait =>
    simp only [wstep] at h
    by_cases hn : sh.ringsNil = true
    · simp [hn] at h; obtain ⟨rfl, rfl⟩ := h; constructor <;> simp [hn]
    · cases hs : sh.outR.waitSpace c len with
      | none => simp [hn, hs] at h
      | some q =>
        obtain ⟨ret, r⟩ := q
        obtain ⟨rfl, -⟩ := waitSpace_some c hw.d2 _ _ _ _ hs
        cases ret <;> simp [hn, hs] at h <;> obtain ⟨rfl, rfl⟩ := h <;> constructor <;> simp [hn]
  | commit =>
    simp only [wstep] at h
    by_cases hn : sh.ringsNil = true
    · simp [hn] at h; obtain ⟨rfl, rfl⟩ := h; constructor <;> simp [hn]
    · cases hs : sh.outR.commitP c len with
      | none => simp [hn, hs] at h
      | some q =>
        obtain ⟨ret, r⟩ := q
        simp [hn, hs] at h; obtain ⟨rfl, rfl⟩ := h
        rcases commitP_some c hw.d2 _ _ _ _ hs with ⟨_, rfl, _⟩ | ⟨_, rfl, _⟩ <;> constructor <;> simp [hn]
  | finished => simp [wstep] at h
  | panicked => simp [wstep] at h

/-- processor steps inside its loop (the will flag is cleared by DISCONNECT only while the
processor has not called Done, i.e. while `wg ≠ 0`) -/
theorem pstep_frameK (c : Cfg) (hw : WF c) (sh sh' : Sh) (pc pc' : PPc) (hp : PPc.past pc = false)
    (hwg : sh.wg ≠ 0) (h : pstep c sh pc = some (sh', pc')) : FrameK sh sh' := by
  cases pc with
  | size =>
    simp only [pstep] at h
    generalize hdrNeed sh.stream = need at h
    cases hs : sh.inR.waitData c need with
    | none => simp [hs] at h
    | some q =>
      obtain ⟨ret, r⟩ := q
      obtain ⟨rfl, -⟩ := waitData_some c hw.d2 _ _ _ _ hs
      cases ret
      · cases hst : sh.stream with
        | nil => simp [hs, hst] at h; obtain ⟨rfl, rfl⟩ := h; constructor <;> simp
        | cons p tl =>
          by_cases h5 : 5 < p.hdr <;> simp [hs, hst, h5] at h <;> obtain ⟨rfl, rfl⟩ := h <;> constructor <;> simp
      · simp [hs] at h; obtain ⟨rfl, rfl⟩ := h; constructor <;> simp
      · simp [hs] at h; obtain ⟨rfl, rfl⟩ := h; constructor <;> simp
  | msg =>
    simp only [pstep] at h
    cases hst : sh.stream with
    | nil => simp [hst] at h; obtain ⟨rfl, rfl⟩ := h; constructor <;> simp
    | cons p tl =>
      cases hs : sh.inR.waitData c p.total with
      | none => simp [hst, hs] at h
      | some q =>
        obtain ⟨ret, r⟩ := q
        obtain ⟨rfl, -⟩ := waitData_some c hw.d2 _ _ _ _ hs
        cases ret
        · cases hk : p.kind <;> simp [hst, hs, hk] at h <;> obtain ⟨rfl, rfl⟩ := h <;> constructor <;> simp
          exact Or.inr hwg
        · simp [hst, hs] at h; obtain ⟨rfl, rfl⟩ := h; constructor <;> simp
        · simp [hst, hs] at h; obtain ⟨rfl, rfl⟩ := h; constructor <;> simp
  | acts as =>
    cases as with
    | nil => simp [pstep] at h; obtain ⟨rfl, rfl⟩ := h; constructor <;> simp
    | cons a rest =>
      cases a with
      | foreign =>
        simp only [pstep] at h
        by_cases hb : sh.extBlocked = true <;> simp [hb] at h
        obtain ⟨rfl, rfl⟩ := h; constructor <;> simp
      | own l =>
        simp only [pstep] at h
        by_cases hm : sh.wmu.isSome = true <;> simp [hm] at h
        obtain ⟨rfl, rfl⟩ := h; constructor <;> simp
  | ownWait l rest =>
    simp only [pstep] at h
    cases hs : sh.outR.waitSpace c l with
    | none => simp [hs] at h
    | some q =>
      obtain ⟨ret, r⟩ := q
      obtain ⟨rfl, -⟩ := waitSpace_some c hw.d2 _ _ _ _ hs
      cases ret <;> simp [hs] at h <;> obtain ⟨rfl, rfl⟩ := h <;> constructor <;> simp
  | ownCommit l rest =>
    simp only [pstep] at h
    cases hs : sh.outR.commitP c l with
    | none => simp [hs] at h
    | some q =>
      obtain ⟨ret, r⟩ := q
      simp [hs] at h; obtain ⟨rfl, rfl⟩ := h
      rcases commitP_some c hw.d2 _ _ _ _ hs with ⟨_, rfl, _⟩ | ⟨_, rfl, _⟩ <;> constructor <;> simp
  | commit =>
    simp only [pstep] at h
    cases hst : sh.stream with
    | nil => simp [hst] at h; obtain ⟨rfl, rfl⟩ := h; constructor <;> simp
    | cons p tl =>
      simp [hst, commitC_returns c hw.d2] at h; obtain ⟨rfl, rfl⟩ := h
      constructor <;> simp
  | check =>
    simp only [pstep] at h
    by_cases hc : (sh.doneCh && sh.inR.buf == 0) = true <;> simp [hc] at h <;> obtain ⟨rfl, rfl⟩ := h <;> constructor <;> simp
  | wgDone =>
    simp [pstep] at h; obtain ⟨rfl, rfl⟩ := h; constructor <;> simp
    intro h0; simp [h0]
  | stop k => simp [PPc.past] at hp

/-- a winner implies the flag -/
theorem invK_winner_closed (s : St) (hi : InvK s) (t : Tid) (h : s.sh.winner = some t) : s.sh.closed = true := by
  cases hc : s.sh.closed with
  | true => rfl
  | false => have := (hi.opn hc).1; rw [this] at h; cases h

/-- while the winner executes a statement after the CAS nothing changes for the other callers -/
theorem others_ok (s s' : St) (me : Tid) (hwin : s.sh.winner = some me)
    (hw' : s'.sh.winner = s.sh.winner) (hc' : s'.sh.closed = s.sh.closed)
    (hoth : ∀ t, t ≠ me → kOf s' t = kOf s t) (hi : InvK s) :
    ∀ t kk, t ≠ me → kOf s' t = some kk → KInvN s'.sh t (stage kk) := by
  intro t kk hne hk
  rw [hoth t hne] at hk
  have old := hi.ks t kk hk
  refine ⟨?_, ?_, ?_, old.bound⟩
  · intro h1 h2
    have := old.prog h1 h2
    rw [hwin] at this; cases this; exact absurd rfl hne
  · intro hw; rw [hw', hwin] at hw; cases hw; exact absurd rfl hne
  · intro hn; rw [hc']; exact old.fin hn

/-- the winner executes a statement after the CAS (or returns) -/
theorem kinv_advance (s s' : St) (me : Tid) (k' : KPc)
    (hk' : kOf s' me = some k') (hoth : ∀ t, t ≠ me → kOf s' t = kOf s t) (hi : InvK s)
    (hwin : s.sh.winner = some me)
    (hw' : s'.sh.winner = s.sh.winner) (hc' : s'.sh.closed = s.sh.closed) (hnil : s'.sh.ringsNil = s.sh.ringsNil)
    (hmine : KInvN s'.sh me (stage k')) (hrun : ∀ j, k' = .run j → j ≤ 9) (hidle : k' ≠ .idle) : InvK s' := by
  have hcl := invK_winner_closed s hi me hwin
  refine ⟨?_, ?_, ?_, ?_, ?_, ?_⟩
  rotate_left 5
  · intro hp
    by_cases htm : Tid.proc = me
    · subst htm; rw [hk'] at hp; cases hp; exact hidle rfl
    · rw [hoth .proc htm] at hp; exact hi.pidle hp
  · intro hc; rw [hc', hcl] at hc; cases hc
  · intro _; exact ⟨me, k', by rw [hw']; exact hwin, hk'⟩
  · rw [hnil]; exact hi.nil
  · intro t kk hkk
    by_cases htm : t = me
    · subst htm; rw [hk'] at hkk; cases hkk; exact hmine
    · exact others_ok s s' me hwin hw' hc' hoth hi t kk htm hkk
  · intro t j hkj
    by_cases htm : t = me
    · subst htm; rw [hk'] at hkj; cases hkj; exact hrun j rfl
    · rw [hoth t htm] at hkj; exact hi.runs t j hkj

/-- **`stop()` statement by statement** -/
theorem invK_kstep (c : Cfg) (hw : WF c) (s s' : St) (me : Tid) (k k' : KPc)
    (hk : kOf s me = some k) (hk' : kOf s' me = some k')
    (hoth : ∀ t, t ≠ me → kOf s' t = kOf s t)
    (h : kstep c s.sh me k = some (s'.sh, k')) (hi : InvK s) : InvK s' := by
  have hme := hi.ks me k hk
  cases k with
  | idle => simp [kstep] at h
  | finished => simp [kstep] at h
  | run i =>
    have hi9 := hi.runs me i hk
    simp only [stage] at hme
    simp only [kstep, hw.prog] at h
    rcases i with _ | i
    · -- CAS
      simp [stopProgram, execStop] at h
      by_cases hc : s.sh.closed = true
      · -- lost: return
        simp [hc] at h
        obtain ⟨hsh, rfl⟩ := h
        have hne : s.sh.winner ≠ some me := fun hwm => by have := (hme.won hwm).1; omega
        refine ⟨?_, ?_, ?_, ?_, ?_, ?_⟩
        rotate_left 5
        · intro hp
          by_cases htm : Tid.proc = me
          · subst htm; rw [hk'] at hp; cases hp
          · rw [hoth .proc htm] at hp; exact hi.pidle hp
        · intro hc'; rw [← hsh, hc] at hc'; cases hc'
        · intro _
          obtain ⟨t, kk, h1, h2⟩ := hi.cls hc
          by_cases htm : t = me
          · subst htm; exact absurd h1 hne
          · exact ⟨t, kk, by rw [← hsh]; exact h1, by rw [hoth t htm]; exact h2⟩
        · rw [← hsh]; exact hi.nil
        · intro t kk hkk
          by_cases htm : t = me
          · subst htm; rw [hk'] at hkk; cases hkk
            rw [← hsh]
            exact ⟨by simp [stage], fun hwm => absurd hwm hne, fun _ => hc, by simp [stage]⟩
          · rw [hoth t htm] at hkk; rw [← hsh]; exact hi.ks t kk hkk
        · intro t j hkj
          by_cases htm : t = me
          · subst htm; rw [hk'] at hkj; cases hkj
          · rw [hoth t htm] at hkj; exact hi.runs t j hkj
      · -- won
        simp [hc] at h
        obtain ⟨hsh, rfl⟩ := h
        simp at hc
        obtain ⟨hwn, heff⟩ := hi.opn hc
        refine ⟨?_, ?_, ?_, ?_, ?_, ?_⟩
        rotate_left 5
        · intro hp
          by_cases htm : Tid.proc = me
          · subst htm; rw [hk'] at hp; cases hp
          · rw [hoth .proc htm] at hp; exact hi.pidle hp
        · intro hc'; rw [← hsh] at hc'; cases hc'
        · intro _; exact ⟨me, _, by rw [← hsh], hk'⟩
        · rw [← hsh]; exact hi.nil
        · intro t kk hkk
          by_cases htm : t = me
          · subst htm; rw [hk'] at hkk; cases hkk
            rw [← hsh]
            refine ⟨fun _ _ => rfl, fun _ => ?_, by simp [stage], by simp [stage]⟩
            simp [stage, heff, effAt]
          · rw [hoth t htm] at hkk
            have old := hi.ks t kk hkk
            rw [← hsh]
            refine ⟨?_, ?_, fun _ => rfl, old.bound⟩
            · intro h1 h2; have := old.prog h1 h2; rw [hwn] at this; cases this
            · intro hwm; simp at hwm; exact absurd hwm.symm htm
        · intro t j hkj
          by_cases htm : t = me
          · subst htm; rw [hk'] at hkj; cases hkj; omega
          · rw [hoth t htm] at hkj; exact hi.runs t j hkj
    · -- after the CAS: I am the winner
      have hwin : s.sh.winner = some me := hme.prog (by omega) (by omega)
      obtain ⟨w1, w2, w3, w4, w5, w6, w7⟩ := hme.won hwin
      have hcl := invK_winner_closed s hi me hwin
      simp [effAt] at w7
      rcases i with _ | _ | _ | _ | _ | _ | _ | _ | i
      · -- close(done)
        simp [stopProgram, execStop] at h
        obtain ⟨hsh, rfl⟩ := h
        refine kinv_advance s s' me _ hk' hoth hi hwin (by rw [← hsh]) (by rw [← hsh]) (by rw [← hsh]) ?_ (by intro j hj; cases hj; omega) (by intro hx; cases hx)
        rw [← hsh]
        refine ⟨fun _ _ => hwin, fun _ => ?_, by simp [stage], by simp [stage]⟩
        simp [stage, w7, effAt]
      · -- conn.Close()
        simp [stopProgram, execStop] at h
        obtain ⟨hsh, rfl⟩ := h
        refine kinv_advance s s' me _ hk' hoth hi hwin (by rw [← hsh]) (by rw [← hsh]) (by rw [← hsh]) ?_ (by intro j hj; cases hj; omega) (by intro hx; cases hx)
        rw [← hsh]
        refine ⟨fun _ _ => hwin, fun _ => ?_, by simp [stage], by simp [stage]⟩
        simp [stage, w7, effAt, w2]
      · -- in.Close()
        simp [stopProgram, execStop, close_returns c hw.d2] at h
        obtain ⟨hsh, rfl⟩ := h
        refine kinv_advance s s' me _ hk' hoth hi hwin (by rw [← hsh]) (by rw [← hsh]) (by rw [← hsh]) ?_ (by intro j hj; cases hj; omega) (by intro hx; cases hx)
        rw [← hsh]
        refine ⟨fun _ _ => hwin, fun _ => ?_, by simp [stage], by simp [stage]⟩
        simp [stage, w7, effAt, w2, w3]
      · -- out.Close()
        simp [stopProgram, execStop, close_returns c hw.d2] at h
        obtain ⟨hsh, rfl⟩ := h
        refine kinv_advance s s' me _ hk' hoth hi hwin (by rw [← hsh]) (by rw [← hsh]) (by rw [← hsh]) ?_ (by intro j hj; cases hj; omega) (by intro hx; cases hx)
        rw [← hsh]
        refine ⟨fun _ _ => hwin, fun _ => ?_, by simp [stage], by simp [stage]⟩
        simp [stage, w7, effAt, w2, w3, w4]
      · -- wgStopped.Wait()
        simp [stopProgram, execStop] at h
        by_cases hwg : s.sh.wg = 0
        · simp [hwg] at h
          obtain ⟨hsh, rfl⟩ := h
          refine kinv_advance s s' me _ hk' hoth hi hwin (by rw [← hsh]) (by rw [← hsh]) (by rw [← hsh]) ?_ (by intro j hj; cases hj; omega) (by intro hx; cases hx)
          rw [← hsh]
          refine ⟨fun _ _ => hwin, fun _ => ?_, by simp [stage], by simp [stage]⟩
          simp [stage, w7, effAt, w2, w3, w4, w5, hwg]
        · simp [hwg] at h
      · -- unsubscribe
        simp [stopProgram, execStop] at h
        obtain ⟨hsh, rfl⟩ := h
        refine kinv_advance s s' me _ hk' hoth hi hwin (by rw [← hsh]) (by rw [← hsh]) (by rw [← hsh]) ?_ (by intro j hj; cases hj; omega) (by intro hx; cases hx)
        rw [← hsh]
        refine ⟨fun _ _ => hwin, fun _ => ?_, by simp [stage], by simp [stage]⟩
        simp [stage, w7, effAt, w2, w3, w4, w5, w6]
      · -- will
        simp [stopProgram, execStop] at h
        obtain ⟨hsh, rfl⟩ := h
        by_cases hf : s.sh.willFlag = true
        · simp [hf] at hsh
          refine kinv_advance s s' me _ hk' hoth hi hwin (by rw [← hsh]) (by rw [← hsh]) (by rw [← hsh]) ?_ (by intro j hj; cases hj; omega) (by intro hx; cases hx)
          rw [← hsh]
          refine ⟨fun _ _ => hwin, fun _ => ?_, by simp [stage], by simp [stage]⟩
          simp [stage, w7, effAt, w2, w3, w4, w5, w6, hf]
        · simp [hf] at hsh
          refine kinv_advance s s' me _ hk' hoth hi hwin (by rw [← hsh]) (by rw [← hsh]) (by rw [← hsh]) ?_ (by intro j hj; cases hj; omega) (by intro hx; cases hx)
          rw [← hsh]
          refine ⟨fun _ _ => hwin, fun _ => ?_, by simp [stage], by simp [stage]⟩
          simp [stage, w7, effAt, w2, w3, w4, w5, w6, hf]
      · -- session removal
        simp [stopProgram, execStop] at h
        obtain ⟨hsh, rfl⟩ := h
        by_cases hf : s.sh.clean = true
        · simp [hf] at hsh
          refine kinv_advance s s' me _ hk' hoth hi hwin (by rw [← hsh]) (by rw [← hsh]) (by rw [← hsh]) ?_ (by intro j hj; cases hj; omega) (by intro hx; cases hx)
          rw [← hsh]
          refine ⟨fun _ _ => hwin, fun _ => ?_, by simp [stage], by simp [stage]⟩
          by_cases hwf : s.sh.willFlag = true <;> simp [stage, w7, effAt, w2, w3, w4, w5, w6, hf, hwf]
        · simp [hf] at hsh
          refine kinv_advance s s' me _ hk' hoth hi hwin (by rw [← hsh]) (by rw [← hsh]) (by rw [← hsh]) ?_ (by intro j hj; cases hj; omega) (by intro hx; cases hx)
          rw [← hsh]
          refine ⟨fun _ _ => hwin, fun _ => ?_, by simp [stage], by simp [stage]⟩
          by_cases hwf : s.sh.willFlag = true <;> simp [stage, w7, effAt, w2, w3, w4, w5, w6, hf, hwf]
      · -- past the last statement: return
        have hi0 : i = 0 := by omega
        subst hi0
        simp [stopProgram] at h
        obtain ⟨hsh, rfl⟩ := h
        refine kinv_advance s s' me _ hk' hoth hi hwin (by rw [← hsh]) (by rw [← hsh]) (by rw [← hsh]) ?_ (by intro j hj; cases hj) (by intro hx; cases hx)
        rw [← hsh]
        refine ⟨by simp [stage], fun _ => ?_, fun _ => hcl, by simp [stage]⟩
        simp [stage, w7, effAt, w2, w3, w4, w5, w6]

theorem kOf_recv (s : St) (sh' : Sh) (pc' : RPc) (t : Tid) :
    kOf { s with sh := sh', recv := pc' } t = kOf s t := by cases t <;> rfl

theorem kOf_send (s : St) (sh' : Sh) (pc' : SPc) (t : Tid) :
    kOf { s with sh := sh', send := pc' } t = kOf s t := by cases t <;> rfl

theorem kOf_ws (s : St) (sh' : Sh) (ws' : List WTh) (t : Tid) :
    kOf { s with sh := sh', ws := ws' } t = kOf s t := by cases t <;> rfl

theorem kOf_sh (s : St) (sh' : Sh) (t : Tid) :
    kOf { s with sh := sh' } t = kOf s t := by cases t <;> rfl

/-- `InvK` is preserved by every step of every thread (the wait-group accounting of `InvA` is
what keeps a DISCONNECT from changing the will flag under a `stop()` that is past its Wait) -/
theorem invK_step (c : Cfg) (hw : WF c) (s s' : St) (t : Tid) (k : Nat) (hA : InvA c s) (hi : InvK s)
    (h : tstep c s t k = some s') : InvK s' := by
  cases t with
  | recv =>
    simp only [tstep] at h
    cases hr : rstep c s.sh k s.recv with
    | none => simp [hr] at h
    | some q =>
      obtain ⟨sh', pc'⟩ := q; simp [hr] at h; subst h
      refine invK_frame s _ (rstep_frameK c hw _ _ _ _ _ hr) ?_ ?_ hi
      · intro t k' hk'; left; rw [kOf_recv] at hk'; exact hk'
      · intro t k hk; exact ⟨k, by rw [kOf_recv]; exact hk⟩
  | send =>
    simp only [tstep] at h
    cases hr : sstep c s.sh s.send with
    | none => simp [hr] at h
    | some q =>
      obtain ⟨sh', pc'⟩ := q; simp [hr] at h; subst h
      refine invK_frame s _ (sstep_frameK c hw _ _ _ _ hr) ?_ ?_ hi
      · intro t k' hk'; left; rw [kOf_send] at hk'; exact hk'
      · intro t k hk; exact ⟨k, by rw [kOf_send]; exact hk⟩
  | w i =>
    simp only [tstep] at h
    cases hk : s.ws[i]? with
    | none => simp [hk] at h
    | some w =>
      cases hr : wstep c s.sh (.w i) w with
      | none => simp [hk, hr] at h
      | some q =>
        obtain ⟨sh', w'⟩ := q
        simp [hk, hr] at h; subst h
        refine invK_frame s _ (wstep_frameK c hw _ _ _ _ _ hr) ?_ ?_ hi
        · intro t k' hk'; left; rw [kOf_ws] at hk'; exact hk'
        · intro t k hk; exact ⟨k, by rw [kOf_ws]; exact hk⟩
  | k i =>
    simp only [tstep] at h
    cases hk : s.ks[i]? with
    | none => simp [hk] at h
    | some pc =>
      cases hr : kstep c s.sh (.k i) pc with
      | none => simp [hk, hr] at h
      | some q =>
        obtain ⟨sh', pc'⟩ := q
        simp [hk, hr] at h; subst h
        have hlt : i < s.ks.length := (List.getElem?_eq_some_iff.mp hk).1
        refine invK_kstep c hw s _ (.k i) pc pc' (by simp [kOf, hk]) (by simp [kOf, List.getElem?_set_self hlt]) ?_ hr hi
        intro t hne
        cases t with
        | k j =>
          have : i ≠ j := fun e => hne (by rw [e])
          simp [kOf, List.getElem?_set_ne this]
        | _ => rfl
  | proc =>
    simp only [tstep] at h
    cases hr : pstep c s.sh s.proc with
    | none => simp [hr] at h
    | some q =>
      obtain ⟨sh', pc'⟩ := q; simp [hr] at h; subst h
      cases hp : s.proc with
      | stop kk =>
        rw [hp] at hr
        simp only [pstep] at hr
        cases hks : kstep c s.sh .proc kk with
        | none => simp [hks] at hr
        | some q2 =>
          obtain ⟨sh2, k2⟩ := q2
          simp [hks] at hr; obtain ⟨rfl, rfl⟩ := hr
          refine invK_kstep c hw s _ .proc kk k2 (by simp [kOf, hp]) (by simp [kOf]) ?_ hks hi
          intro t hne
          cases t <;> first | rfl | exact absurd rfl hne
      | _ =>
        all_goals
          have hpast : PPc.past s.proc = false := by rw [hp]; rfl
          have hwg : s.sh.wg ≠ 0 := by
            have := hA.wg; simp [cnt, hpast] at this; omega
          have hf := pstep_frameK c hw _ _ _ _ hpast hwg hr
          have hkof : kOf s .proc = none := by simp [kOf, hp]
          refine invK_frame s _ hf ?_ ?_ hi
          · intro t k' hk'
            cases t with
            | proc =>
              -- only `wgDone` makes the processor a caller of stop(), at its first statement
              right
              rw [hp] at hr
              simp [kOf] at hk'
              first
              | (simp [pstep] at hr; obtain ⟨_, rfl⟩ := hr; simp at hk'; subst hk'; exact ⟨rfl, Or.inl hkof⟩)
              | (exfalso
                 have hnp : PPc.past pc' = false ∨ True := Or.inr trivial
                 revert hk'
                 have := pstep_frameA c hw _ _ _ _ hr
                 rcases this.2.2.2.2 with ⟨hx, _, _⟩ | ⟨_, hx⟩
                 · cases hx
                 · simp [PPc.past] at hx
                   cases pc' <;> simp [PPc.past] at hx ⊢)
            | _ => left; exact hk'
          · intro t k hk
            cases t with
            | proc => rw [hkof] at hk; cases hk
            | _ => exact ⟨k, hk⟩

theorem invK_env (c : Cfg) (hw : WF c) (s s' : St) (e : Env) (hi : InvK s)
    (h : estep c s e = some s') : InvK s' := by
  have same : ∀ sh', FrameK s.sh sh' → InvK { s with sh := sh' } := by
    intro sh' hf
    refine invK_frame s _ hf ?_ ?_ hi
    · intro t k' hk'; left; rw [kOf_sh] at hk'; exact hk'
    · intro t k hk; exact ⟨k, by rw [kOf_sh]; exact hk⟩
  cases e with
  | peerClose =>
    simp only [estep] at h
    by_cases h1 : s.sh.sock = .open ∨ s.sh.sock = .peerShut <;> simp [h1] at h
    subst h; apply same; constructor <;> simp [h1]
    rcases h1 with h1 | h1 <;> simp [h1]
  | peerShut =>
    simp only [estep] at h
    by_cases h1 : s.sh.sock = .open <;> simp [h1] at h
    subst h; apply same; constructor <;> simp [h1]
  | kaExpire =>
    simp only [estep] at h
    by_cases h1 : s.recv = .read ∧ s.sh.sock = .open
    · rw [if_pos h1] at h; injection h with h; subst h; apply same; constructor <;> simp
    · rw [if_neg h1] at h; cases h
  | peerReads b => simp [estep] at h; subst h; apply same; constructor <;> simp
  | extBlock b => simp [estep] at h; subst h; apply same; constructor <;> simp
  | preClose =>
    simp only [estep, close_returns c hw.d2] at h
    simp at h; subst h; apply same; constructor <;> simp
  | serverClose i =>
    simp only [estep] at h
    cases hk : s.ks[i]? with
    | none => simp [hk] at h
    | some pc =>
      cases pc <;> simp [hk] at h
      subst h
      have hlt : i < s.ks.length := (List.getElem?_eq_some_iff.mp hk).1
      refine invK_frame s _ (by constructor <;> simp) ?_ ?_ hi
      · intro t k' hk'
        cases t with
        | k j =>
          by_cases hij : i = j
          · subst hij
            simp [kOf, List.getElem?_set_self hlt] at hk'
            right; exact ⟨hk'.symm, Or.inr (by simp [kOf, hk])⟩
          · left; simpa [kOf, List.getElem?_set_ne hij] using hk'
        | _ => left; exact hk'
      · intro t k hk2
        cases t with
        | k j =>
          by_cases hij : i = j
          · subst hij; exact ⟨.run 0, by simp [kOf, List.getElem?_set_self hlt]⟩
          · exact ⟨k, by simpa [kOf, List.getElem?_set_ne hij] using hk2⟩
        | _ => exact ⟨k, hk2⟩

end Mqtt.Proofs.Lifecycle
