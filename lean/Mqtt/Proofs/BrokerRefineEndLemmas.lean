/-
The end of a connection, part 1: the state in which `stop` publishes the will
(`stopBase`: connection marked closed, the session's topics unsubscribed)
against the reference broker's state after `endConn` has removed the
connection (`endSpec`), and the two bookkeeping steps that follow the will
(`setSess` of a session no live connection uses, `storeDel` of a clean session).
-/
import Mqtt.Proofs.BrokerRefineSub

set_option linter.unusedSimpArgs false

namespace Mqtt.Proofs.BrokerRefine
open Mqtt.Iface.Broker Mqtt.Model.Broker
open Mqtt.Model.Topics (MemTopics RMsg RNode)
open Mqtt.Proofs.Topics (WF RWF abs absR good entryLevels)
open Mqtt.Spec.Match (split validName validFilter topicMatches)
open Mqtt.Proofs.Broker (HeldInv RetInv heldEntry)
open Mqtt.Proofs.BrokerQos (toOpen2)
open Mqtt.Proofs.BrokerLife (stopBase markDead)
open Mqtt.Spec.Broker (Accepts SOut Held)

/-! ### association lists -/

theorem lookup_filter_ne' {β} (l : List (Bytes × β)) (k y : Bytes) (h : y ≠ k) :
    (l.filter (fun p => p.1 != k)).lookup y = l.lookup y := by
  induction l with
  | nil => rfl
  | cons x xs ih =>
    obtain ⟨a, v⟩ := x
    rw [List.filter_cons]
    by_cases ha : a = k
    · subst ha
      have hy : (y == a) = false := by simpa using h
      simp only [bne_self_eq_false, Bool.false_eq_true, ↓reduceIte, List.lookup_cons, hy]
      exact ih
    · have : (a != k) = true := by simpa using ha
      simp only [this, ↓reduceIte, List.lookup_cons, ih]

theorem lookup_filter_self' {β} (l : List (Bytes × β)) (k : Bytes) :
    (l.filter (fun p => p.1 != k)).lookup k = none := by
  induction l with
  | nil => rfl
  | cons x xs ih =>
    obtain ⟨a, v⟩ := x
    rw [List.filter_cons]
    by_cases ha : a = k
    · subst ha
      simp only [bne_self_eq_false, Bool.false_eq_true, ↓reduceIte]
      exact ih
    · have : (a != k) = true := by simpa using ha
      have hk : (k == a) = false := by simpa using fun e => ha e.symm
      simp only [this, ↓reduceIte, List.lookup_cons, hk, ih]

/-! ### the reference broker's `endConn` -/

/-- the reference broker's state once connection `c` (record `k`) has ended, before its will -/
def endSpec (s : Spec.Broker.S) (c : Nat) (k : Spec.Broker.Conn) : Spec.Broker.S :=
  { s with held := s.held.filter (fun h => h.owner != c),
           conns := s.conns.filter (fun (x : Spec.Broker.Conn) => x.id != c),
           stored := if k.clean then s.stored.filter (fun p => p.1 != k.cid)
                     else (k.cid, Spec.Broker.heldOf s c, k.open2) :: s.stored.filter (fun p => p.1 != k.cid) }

theorem spec_endConn_eq (s : Spec.Broker.S) (c : Nat) (k : Spec.Broker.Conn) (g : Bool)
    (hk : Spec.Broker.getConn s c = some k) :
    Spec.Broker.endConn s c g =
      match k.will, g with
      | some w, false =>
        ((Spec.Broker.accept (endSpec s c k) { qos := w.qos, retain := w.retain, topic := w.topic, payload := w.payload }).1,
         .closed c :: (Spec.Broker.accept (endSpec s c k)
            { qos := w.qos, retain := w.retain, topic := w.topic, payload := w.payload }).2)
      | _, _ => (endSpec s c k, [.closed c]) := by
  unfold Spec.Broker.endConn
  simp only [hk]
  cases k.will <;> cases g <;> rfl

theorem spec_getConn_filter_self (s : Spec.Broker.S) (c : Nat) :
    (s.conns.filter (fun (x : Spec.Broker.Conn) => x.id != c)).find? (fun x => x.id == c) = none := by
  rw [List.find?_eq_none]
  intro x hx
  simp only [List.mem_filter] at hx
  simpa using hx.2

theorem spec_getConn_filter_ne (s : Spec.Broker.S) (c d : Nat) (h : d ≠ c) :
    (s.conns.filter (fun (x : Spec.Broker.Conn) => x.id != c)).find? (fun x => x.id == d) =
      s.conns.find? (fun x => x.id == d) := by
  induction s.conns with
  | nil => rfl
  | cons x xs ih =>
    rw [List.filter_cons]
    by_cases hx : x.id = c
    · have hd : (x.id == d) = false := by
        rw [beq_eq_false_iff_ne]; exact fun hd => h (hd ▸ hx)
      have hxc : (x.id != c) = false := by simp [hx]
      simp only [hxc, Bool.false_eq_true, ↓reduceIte, List.find?_cons, hd]
      exact ih
    · have : (x.id != c) = true := by simpa using hx
      simp only [this, ↓reduceIte, List.find?_cons, ih]

/-! ### the model's `stopBase` -/

theorem liveSess_stopBase (b : B) (c : Nat) (σ : Sess) (c' : Nat) :
    liveSess (stopBase b c σ) c' = if c' = c then none else liveSess b c' := by
  by_cases he : c' = c
  · subst he
    simp only [↓reduceIte]
    apply liveSess_dead
    exact Mqtt.Proofs.BrokerLife.markDead_alive_self b c'
  · simp only [he, ↓reduceIte]
    unfold liveSess
    have h1 : (stopBase b c σ).getConn c' = b.getConn c' :=
      Mqtt.Proofs.BrokerLife.getConn_markDead_ne b c c' he
    rw [h1]
    rfl

theorem alive_stopBase (b : B) (c : Nat) (σ : Sess) (c' : Nat) :
    (stopBase b c σ).alive c' = if c' = c then false else b.alive c' := by
  by_cases he : c' = c
  · subst he; simp only [↓reduceIte]; exact Mqtt.Proofs.BrokerLife.markDead_alive_self b c'
  · simp only [he, ↓reduceIte]; exact Mqtt.Proofs.BrokerLife.markDead_alive_ne b c c' he

theorem invs_stopBase {b : B} {s : Spec.Broker.S} (h : R b s) (c : Nat) (σ : Sess) :
    Mqtt.Proofs.Broker.Inv (stopBase b c σ) ∧ Mqtt.Proofs.BrokerLife.Inv (stopBase b c σ) ∧
    Mqtt.Proofs.BrokerQos.BInv (stopBase b c σ) := by
  obtain ⟨u1, u2⟩ := Mqtt.Proofs.Broker.unsubAll_frame c σ.topics b.topics h.inv.wf
  refine ⟨?_, ?_, ?_⟩
  · exact Mqtt.Proofs.Broker.Inv_of_frame _ _ (Mqtt.Proofs.Broker.Inv_markDead b c h.inv) rfl rfl u1 u2
  · exact Mqtt.Proofs.BrokerLife.inv_frame (Mqtt.Proofs.BrokerLife.frame_topics _ _)
      (Mqtt.Proofs.BrokerLife.inv_markDead h.linv c)
  · refine h.qinv.same ⟨rfl, rfl, ?_, fun _ => rfl⟩
    intro cn' hcn'
    obtain ⟨x, hx, e⟩ := List.mem_map.mp hcn'
    refine ⟨x, hx, ?_⟩
    rw [← e]; split <;> rfl

theorem mconns_markDead {b : B} {s : Spec.Broker.S} (h : R b s) (c : Nat) :
    ((markDead b c).conns.map (·.id)).Nodup := by
  have : (markDead b c).conns.map (·.id) = b.conns.map (·.id) := by
    simp only [markDead, List.map_map]
    apply List.map_congr_left
    intro x _
    simp only [Function.comp]
    split <;> rfl
  rw [this]; exact h.mconns

/-- the trie after `unsubAll` of the session's topics holds what the reference
broker holds once the connection's subscriptions have stopped -/
theorem held_stopBase {b : B} {s : Spec.Broker.S} (h : R b s) (c : Nat) (σ : Sess)
    (ht : TopicsRel σ.topics (Spec.Broker.heldOf s c)) :
    HeldInv (stopBase b c σ).topics.sroot (s.held.filter (fun h => h.owner != c)) := by
  have hfold := Mqtt.Proofs.Broker.unsubFold_abs c (σ.topics.map (·.1)) b.topics h.inv.wf
  rw [← Mqtt.Proofs.Broker.unsubAll_eq_fold] at hfold
  have hgood : ∀ t ∈ σ.topics.map (·.1), good t = true := by
    intro t ht'
    obtain ⟨p, hp, rfl⟩ := List.mem_map.mp ht'
    have := ht.ok p hp
    simp only [subOk, Bool.and_eq_true] at this
    exact this.1.1
  have e1 := Mqtt.Proofs.Broker.entriesAfterUnsub_held c (σ.topics.map (·.1)) hgood s.held h.held.valid
  have hfil : s.held.filter (fun x => !(x.owner == c && (σ.topics.map (·.1)).contains x.filter)) =
      s.held.filter (fun x => x.owner != c) := by
    apply List.filter_congr
    intro x hx
    by_cases hxc : x.owner = c
    · have hm : (x.filter, x.qos) ∈ Spec.Broker.heldOf s c := by
        unfold Spec.Broker.heldOf
        exact List.mem_map.mpr ⟨x, List.mem_filter.mpr ⟨hx, by simp [hxc]⟩, rfl⟩
      have hm' := ht.perm.mem_iff.mpr hm
      have : (σ.topics.map (·.1)).contains x.filter = true := by
        rw [List.contains_iff_mem]
        exact List.mem_map.mpr ⟨_, hm', rfl⟩
      rw [this]
      simp [hxc]
    · have : (x.owner == c) = false := by simpa using hxc
      simp [this, hxc]
  refine ⟨?_, fun x hx => h.held.valid x (List.mem_filter.mp hx).1⟩
  show (abs (unsubAll b.topics c σ.topics).sroot).Perm _
  refine (hfold.trans (Mqtt.Proofs.Broker.entriesAfterUnsub_perm c _ _ _ h.held.perm)).trans ?_
  rw [e1, hfil]

theorem realCid_of_cidRel {c : Nat} {m k : Bytes} {cl : Bool} (h : CidRel c m k cl) (hm : realCid m = true) :
    m = k := by
  rcases h with ⟨e, _⟩ | ⟨e, _, _⟩
  · exact e
  · rw [e, anonId_not_real] at hm; cases hm

theorem cidRel_key_ne {c : Nat} {m k : Bytes} {cl : Bool} (h : CidRel c m k cl) (x : Bytes) (hx : realCid x = true)
    (hne : m ≠ x) : x ≠ k := by
  rcases h with ⟨e, _⟩ | ⟨_, e, _⟩
  · rw [← e]; exact fun e' => hne e'.symm
  · intro e'; rw [e', e, anonSpec_not_real] at hx; cases hx

/-- **connection end, before the will** -/
theorem R_stopBase {b : B} {s : Spec.Broker.S} (h : R b s) {c : Nat} {cn : Conn} {σ : Sess} {k : Spec.Broker.Conn}
    (hc : b.getConn c = some cn) (ha : cn.alive = true) (hs : b.getSess cn.sess = some σ)
    (hk : Spec.Broker.getConn s c = some k) (hrel : LiveRel b s c σ k) :
    R (stopBase b c σ) (endSpec s c k) := by
  obtain ⟨i1, i2, i3⟩ := invs_stopBase h c σ
  obtain ⟨u1, u2⟩ := Mqtt.Proofs.Broker.unsubAll_frame c σ.topics b.topics h.inv.wf
  have hl := liveSess_eq hc ha hs
  have hrr : (stopBase b c σ).topics.rroot = b.topics.rroot := u2
  have hheldOf : ∀ c', c' ≠ c → Spec.Broker.heldOf (endSpec s c k) c' = Spec.Broker.heldOf s c' := by
    intro c' hne
    rw [heldOf_eq, heldOf_eq]
    show heldOfL (s.held.filter (fun h => h.owner != c)) c' = _
    rw [heldOfL_filter s.held _ c c' (fun _ => true) (fun x => by simp [bne])]
    simp [hne]
  refine ⟨i1, i2, i3, held_stopBase h c σ hrel.topics, ?_, ?_, by rw [hrr]; exact h.rets, h.retsOk,
    by unfold IdsOk; rw [hrr]; exact h.retIds, ?_, mconns_markDead h c, ?_, ?_, ?_, ?_, ?_⟩
  · intro x hx; exact h.heldGood x (List.mem_filter.mp hx).1
  · intro x hx hlt
    obtain ⟨hx1, hx2⟩ := List.mem_filter.mp hx
    have hne : x.owner ≠ c := by simpa using hx2
    rw [alive_stopBase]; simp only [hne, ↓reduceIte]
    exact h.owners x hx1 hlt
  · intro c' hc'
    rw [alive_stopBase] at hc'
    by_cases he : c' = c
    · simp [he] at hc'
    · simp only [he, ↓reduceIte] at hc'; exact h.connLt c' hc'
  · exact h.sconns.sublist ((List.filter_sublist).map _)
  · intro c'
    rw [alive_stopBase]
    unfold Spec.Broker.getConn endSpec
    by_cases he : c' = c
    · subst he; simp only [↓reduceIte]; rw [spec_getConn_filter_self]; rfl
    · simp only [he, ↓reduceIte]; rw [spec_getConn_filter_ne s c c' he]; exact h.connsIff c'
  · intro c' τ hτ
    rw [liveSess_stopBase] at hτ
    by_cases he : c' = c
    · simp [he] at hτ
    · simp only [he, ↓reduceIte] at hτ
      obtain ⟨k', hk', hrel'⟩ := h.live c' τ hτ
      refine ⟨k', ?_, hrel'.congr rfl (hheldOf c' he)⟩
      unfold Spec.Broker.getConn endSpec
      simp only
      rw [spec_getConn_filter_ne s c c' he]; exact hk'
  · intro c1 c2 τ1 τ2 h1 h2
    rw [liveSess_stopBase] at h1 h2
    by_cases e1 : c1 = c
    · simp [e1] at h1
    · by_cases e2 : c2 = c
      · simp [e2] at h2
      · simp only [e1, e2, ↓reduceIte] at h1 h2
        exact h.cidUniq c1 c2 τ1 τ2 h1 h2
  · intro x hx hfree
    have hres : resumable (stopBase b c σ) x = resumable b x := resumable_congr rfl rfl x
    by_cases hxc : σ.cid = x
    · -- the session of the connection that ended
      have hkc : k.cid = x := by rw [← hxc]; exact (realCid_of_cidRel hrel.cid (by rw [hxc]; exact hx)).symm
      have hrσ : resumable b x = if σ.clean then none else some σ := by
        unfold resumable
        rw [← hxc, hrel.store]
        simp only [Option.bind_some, liveSess_ref hl]
        cases hcl : σ.clean <;> simp [Option.filter, hcl]
      constructor
      · intro τ hτ
        rw [hres, hrσ] at hτ
        cases hcl : σ.clean with
        | true => simp [hcl] at hτ
        | false =>
          simp only [hcl, Bool.false_eq_true, ↓reduceIte, Option.some.injEq] at hτ
          subst hτ
          have hkcl : k.clean = false := by rw [← hrel.clean]; exact hcl
          refine ⟨Spec.Broker.heldOf s c, k.open2, ?_, hrel.topics, hrel.open2, hrel.q2ok⟩
          simp only [endSpec, hkcl, Bool.false_eq_true, ↓reduceIte, List.lookup_cons, hkc, BEq.rfl]
      · intro hn
        rw [hres, hrσ] at hn
        cases hcl : σ.clean with
        | false => simp [hcl] at hn
        | true =>
          have hkcl : k.clean = true := by rw [← hrel.clean]; exact hcl
          simp only [endSpec, hkcl, ↓reduceIte]
          rw [← hkc]; exact lookup_filter_self' _ _
    · -- any other identifier
      have hfree0 : ∀ c' τ, liveSess b c' = some τ → τ.cid ≠ x := by
        intro c' τ hτ
        by_cases he : c' = c
        · subst he; rw [hl] at hτ; cases hτ; exact hxc
        · exact hfree c' τ (by rw [liveSess_stopBase]; simp [he, hτ])
      have hxk : x ≠ k.cid := cidRel_key_ne hrel.cid x hx hxc
      refine (h.stored x hx hfree0).congr hres ?_
      simp only [endSpec]
      split
      · exact lookup_filter_ne' _ _ _ hxk
      · have : (x == k.cid) = false := by simpa using hxk
        simp only [List.lookup_cons, this]
        exact lookup_filter_ne' _ _ _ hxk

/-! ### after the will -/

/-- replacing will / will flag of a session object that no live connection uses -/
theorem R_setSess_dead {b : B} {s : Spec.Broker.S} (h : R b s) (σ0 σ' : Sess) (hσ : b.getSess σ'.ref = some σ0)
    (hcid : σ'.cid = σ0.cid) (hclean : σ'.clean = σ0.clean) (htop : σ'.topics = σ0.topics)
    (hq : σ'.pub2in = σ0.pub2in) (hw : σ'.willFlag = true → σ'.will.isSome = true)
    (hdead : ∀ c τ, liveSess b c = some τ → τ.ref ≠ σ'.ref) : R (b.setSess σ') s := by
  have hgs : ∀ r, (b.setSess σ').getSess r = if r = σ'.ref then some σ' else b.getSess r :=
    getSess_update (b := b) (b' := b.setSess σ') rfl
  have hls : ∀ c, liveSess (b.setSess σ') c = liveSess b c := by
    intro c
    unfold liveSess
    show (match b.getConn c with | some cn => if cn.alive then (b.setSess σ').getSess cn.sess else none | none => none) = _
    cases hc : b.getConn c with
    | none => rfl
    | some cn =>
      simp only
      cases ha : cn.alive with
      | false => rfl
      | true =>
        simp only [↓reduceIte]
        rw [hgs]
        by_cases hr : cn.sess = σ'.ref
        · exfalso
          have hl : liveSess b c = some σ0 := liveSess_eq hc ha (by rw [hr]; exact hσ)
          have := Mqtt.Proofs.BrokerLife.getSess_ref hσ
          exact hdead c σ0 hl this
        · simp [hr]
  have hqi : Mqtt.Proofs.BrokerQos.QInv σ'.pub2in := by
    have := h.qinv.queues σ'.ref
    simp only [Mqtt.Proofs.BrokerQos.pub2inOf, hσ] at this
    rw [hq]; exact this
  refine ⟨Mqtt.Proofs.Broker.Inv_setSess b σ' h.inv, Mqtt.Proofs.BrokerLife.inv_setSess h.linv hσ rfl hcid hw,
    Mqtt.Proofs.BrokerQos.BInv.setSess h.qinv hσ hqi, h.held, h.heldGood, h.owners, h.rets, h.retsOk, h.retIds,
    h.connLt, h.mconns, h.sconns, h.connsIff, ?_, ?_, ?_⟩
  · intro c τ hτ
    rw [hls] at hτ
    obtain ⟨k, hk, hrel⟩ := h.live c τ hτ
    exact ⟨k, hk, hrel.congr rfl rfl⟩
  · intro c c' τ τ' h1 h2
    rw [hls] at h1 h2
    exact h.cidUniq c c' τ τ' h1 h2
  · intro x hx hfree
    have hst := h.stored x hx (fun c τ hτ => hfree c τ (by rw [hls]; exact hτ))
    have hres : resumable (b.setSess σ') x =
        (resumable b x).map (fun τ => if τ.ref = σ'.ref then σ' else τ) := by
      unfold resumable
      show ((b.storeGet x).bind (b.setSess σ').getSess).filter _ = _
      cases hg : b.storeGet x with
      | none => rfl
      | some r =>
        simp only [Option.bind_some]
        rw [hgs]
        by_cases hr : r = σ'.ref
        · subst hr
          simp only [↓reduceIte, hσ]
          cases hcl : σ0.clean with
          | true => simp [Option.filter, hcl, hclean]
          | false =>
            have := Mqtt.Proofs.BrokerLife.getSess_ref hσ
            simp [Option.filter, hcl, hclean, this]
        · simp only [hr, ↓reduceIte]
          cases hg2 : b.getSess r with
          | none => rfl
          | some τ =>
            have hτr : τ.ref = r := Mqtt.Proofs.BrokerLife.getSess_ref hg2
            cases hcl : τ.clean with
            | true => simp [Option.filter, hcl]
            | false => simp [Option.filter, hcl, hτr, hr]
    constructor
    · intro τ hτ
      rw [hres] at hτ
      cases hr0 : resumable b x with
      | none => rw [hr0] at hτ; cases hτ
      | some τ0 =>
        rw [hr0] at hτ
        simp only [Option.map_some, Option.some.injEq] at hτ
        obtain ⟨subs, o2, e1, e2, e3, e4⟩ := hst.some τ0 hr0
        by_cases hr : τ0.ref = σ'.ref
        · simp only [hr, ↓reduceIte] at hτ
          subst hτ
          -- τ0 is the object being replaced
          have hτ0 : b.getSess τ0.ref = some τ0 := by
            unfold resumable at hr0
            cases hg : b.storeGet x with
            | none => rw [hg] at hr0; cases hr0
            | some r =>
              rw [hg] at hr0
              simp only [Option.bind_some] at hr0
              cases hg2 : b.getSess r with
              | none => rw [hg2] at hr0; cases hr0
              | some τ1 =>
                rw [hg2] at hr0
                have : τ1 = τ0 := by
                  simp only [Option.filter] at hr0
                  split at hr0
                  · exact Option.some.inj hr0
                  · cases hr0
                subst this
                rw [Mqtt.Proofs.BrokerLife.getSess_ref hg2]; exact hg2
          rw [hr, hσ] at hτ0
          cases hτ0
          exact ⟨subs, o2, e1, by rw [htop]; exact e2, by rw [hq]; exact e3, by rw [hq]; exact e4⟩
        · simp only [hr, ↓reduceIte] at hτ
          subst hτ
          exact ⟨subs, o2, e1, e2, e3, e4⟩
    · intro hn
      rw [hres] at hn
      cases hr0 : resumable b x with
      | none => exact hst.none hr0
      | some τ0 => rw [hr0] at hn; cases hn

/-- deleting the store entry of an identifier under which nothing can be resumed
and that no live connection uses -/
theorem R_storeDel {b : B} {s : Spec.Broker.S} (h : R b s) (x : Bytes) (hres : resumable b x = none)
    (hfree : ∀ c τ, liveSess b c = some τ → τ.cid ≠ x) : R (b.storeDel x) s := by
  refine ⟨Mqtt.Proofs.Broker.Inv_storeDel b x h.inv, Mqtt.Proofs.BrokerLife.inv_storeDel h.linv x,
    h.qinv.same (Mqtt.Proofs.BrokerQos.same_of_eq rfl rfl rfl), h.held, h.heldGood, h.owners, h.rets,
    h.retsOk, h.retIds, h.connLt, h.mconns, h.sconns, h.connsIff, ?_, h.cidUniq, ?_⟩
  · intro c τ hτ
    have hτ' : liveSess b c = some τ := hτ
    obtain ⟨k, hk, hrel⟩ := h.live c τ hτ'
    refine ⟨k, hk, hrel.cid, hrel.clean, hrel.willFlag, hrel.will, hrel.willOk, hrel.open2, hrel.q2ok, hrel.topics, ?_⟩
    rw [Mqtt.Proofs.BrokerLife.storeGet_storeDel_ne b x τ.cid (hfree c τ hτ')]
    exact hrel.store
  · intro y hy hfy
    have hfy' : ∀ c τ, liveSess b c = some τ → τ.cid ≠ y := hfy
    have hst := h.stored y hy hfy'
    by_cases hyx : y = x
    · subst hyx
      have : resumable (b.storeDel y) y = none := by
        unfold resumable
        rw [Mqtt.Proofs.BrokerLife.storeGet_storeDel_self]; rfl
      exact ⟨(by intro τ hτ; rw [this] at hτ; cases hτ), fun _ => hst.none hres⟩
    · refine hst.congr ?_ rfl
      unfold resumable
      rw [Mqtt.Proofs.BrokerLife.storeGet_storeDel_ne b x y hyx]
      rfl

end Mqtt.Proofs.BrokerRefine
