/-
Core F — helper lemmas for C16, part 2: invariants of the life-cycle model.

* `InvA` — wait-group accounting, the deferred ring closes, the receiver reads only into free space (at `.read`
           the incoming ring is not full, at `.commit n` the `n` bytes fit), the sender's window
* `InvW` — `wmu` is held exactly by the thread inside `writeMessage`'s critical section
* `InvK` — `stop()`: one winner of the CAS, how far it got, its effects exactly once and in order
-/
import Mqtt.Proofs.Lifecycle

set_option linter.unusedSimpArgs false
set_option linter.unusedVariables false

namespace Mqtt.Proofs.Lifecycle
open Mqtt.Model.Lifecycle

/-- the processor has called `wgStopped.Done()` -/
def PPc.past : PPc → Bool
  | .stop _ => true
  | _ => false

/-- goroutines that have not yet called `wgStopped.Done()` -/
def cnt (s : St) : Nat :=
  (if s.recv = .exited then 0 else 1) + (if s.send = .exited then 0 else 1) + (if PPc.past s.proc then 0 else 1)

def RPc.closedRing : RPc → Bool
  | .connClose => true | .wgDone => true | .exited => true | _ => false

def SPc.closedRing : SPc → Bool
  | .wgDone => true | .exited => true | _ => false

structure InvA (c : Cfg) (s : St) : Prop where
  wg : s.sh.wg = cnt s
  rdone : RPc.closedRing s.recv = true → s.sh.inR.done = true
  sdone : SPc.closedRing s.send = true → s.sh.outR.done = true
  rread : s.recv = .read → s.sh.inR.buf < c.cap                  -- a socket read is issued only into free space
  rcommit : ∀ n, s.recv = .commit n → s.sh.inR.buf + n ≤ c.cap   -- what was read fits: `WriteCommit` never waits
  swin : SWin s

/-- a state a connection starts in: the three goroutines at the top of their loops, any ring
contents, any traffic still to come, nobody has called stop -/
structure Init (c : Cfg) (s : St) : Prop where
  recv : s.recv = .space
  send : s.send = .peek
  proc : s.proc = .size
  wg : s.sh.wg = 3
  closed : s.sh.closed = false
  winner : s.sh.winner = none
  effects : s.sh.effects = []
  ringsNil : s.sh.ringsNil = false
  wmu : s.sh.wmu = none
  ks : ∀ k, k ∈ s.ks → k = .idle
  ws : ∀ w, w ∈ s.ws → w.pc = .check
  inOpen : s.sh.inR.done = false
  outOpen : s.sh.outR.done = false
  noTimeout : s.sh.timeout = false      -- no socket read is pending yet, so no read deadline has fired

theorem invA_init (c : Cfg) (s : St) (h : Init c s) : InvA c s := by
  refine ⟨?_, ?_, ?_, ?_, ?_, ?_⟩
  · simp [cnt, h.recv, h.send, h.proc, h.wg, PPc.past]
  · simp [h.recv, RPc.closedRing]
  · simp [h.send, SPc.closedRing]
  · simp [h.recv]
  · simp [h.recv]
  · intro m; simp [h.send]

/-- what a `stop()` operation leaves alone -/
theorem execStop_frameA (c : Cfg) (hw : WF c) (sh sh' : Sh) (me : Tid) (op : StopOp) (b : Bool)
    (h : execStop c sh me op = some (sh', b)) :
    sh'.wg = sh.wg ∧ sh'.inR.buf = sh.inR.buf ∧ sh'.outR.buf = sh.outR.buf ∧
    (sh.inR.done = true → sh'.inR.done = true) ∧ (sh.outR.done = true → sh'.outR.done = true) := by
  cases op <;> simp [execStop, close_returns c hw.d2] at h
  case cas =>
    by_cases hc : sh.closed = true <;> simp [hc] at h <;> obtain ⟨rfl, rfl⟩ := h <;> simp
  case closeDone => obtain ⟨rfl, rfl⟩ := h; simp
  case connClose => obtain ⟨rfl, rfl⟩ := h; simp
  case inClose => obtain ⟨rfl, rfl⟩ := h; simp
  case outClose => obtain ⟨rfl, rfl⟩ := h; simp
  case wgWait => obtain ⟨_, rfl, rfl⟩ := h; simp
  case unsub => obtain ⟨rfl, rfl⟩ := h; simp
  case will => obtain ⟨rfl, rfl⟩ := h; by_cases hf : sh.willFlag = true <;> simp [hf]
  case sessDel => obtain ⟨rfl, rfl⟩ := h; by_cases hf : sh.clean = true <;> simp [hf]
  case clearRings => obtain ⟨rfl, rfl⟩ := h; simp

theorem kstep_frameA (c : Cfg) (hw : WF c) (sh sh' : Sh) (me : Tid) (k k' : KPc)
    (h : kstep c sh me k = some (sh', k')) :
    sh'.wg = sh.wg ∧ sh'.inR.buf = sh.inR.buf ∧ sh'.outR.buf = sh.outR.buf ∧
    (sh.inR.done = true → sh'.inR.done = true) ∧ (sh.outR.done = true → sh'.outR.done = true) := by
  cases k with
  | idle => simp [kstep] at h
  | finished => simp [kstep] at h
  | run i =>
    simp only [kstep] at h
    cases hp : c.stopProg[i]? with
    | none => simp [hp] at h; obtain ⟨rfl, rfl⟩ := h; simp
    | some op =>
      cases he : execStop c sh me op with
      | none => simp [hp, he] at h
      | some q =>
        obtain ⟨sh1, b⟩ := q
        have hf := execStop_frameA c hw sh sh1 me op b he
        cases b <;> simp [hp, he] at h <;> obtain ⟨rfl, rfl⟩ := h <;> exact hf

theorem invA_recv (c : Cfg) (hw : WF c) (s : St) (sh' : Sh) (pc' : RPc) (k : Nat) (hi : InvA c s)
    (h : rstep c s.sh k s.recv = some (sh', pc')) : InvA c { s with sh := sh', recv := pc' } := by
  have hwg := hi.wg
  cases hpc : s.recv with
  | space =>
    rw [hpc] at h
    simp only [rstep] at h
    rw [spaceNeed_wf c hw] at h
    cases hs : s.sh.inR.waitSpace c 1 with
    | none => simp [hs] at h
    | some q =>
      obtain ⟨ret, r⟩ := q
      obtain ⟨rfl, hok, -, -⟩ := waitSpace_some c hw.d2 _ _ _ _ hs
      cases ret <;> simp [hs] at h <;> obtain ⟨rfl, rfl⟩ := h
      · refine ⟨?_, ?_, hi.sdone, ?_, ?_, hi.swin⟩
        · simpa [cnt, hpc] using hwg
        · simp [RPc.closedRing]
        · intro _; have := (hok rfl).2.2; simp only at this ⊢; omega
        · intro n hn; cases hn
      all_goals
        refine ⟨?_, ?_, hi.sdone, ?_, ?_, hi.swin⟩
        · simpa [cnt, hpc] using hwg
        · simp [RPc.closedRing]
        · intro hn; cases hn
        · intro n hn; cases hn
  | read =>
    rw [hpc] at h
    simp only [rstep] at h
    by_cases h1 : s.sh.sock ≠ .open ∨ s.sh.timeout = true
    · simp [h1] at h; obtain ⟨rfl, rfl⟩ := h
      refine ⟨?_, ?_, hi.sdone, ?_, ?_, hi.swin⟩
      · simpa [cnt, hpc] using hwg
      · simp [RPc.closedRing]
      · intro hn; cases hn
      · intro n hn; cases hn
    · by_cases h2 : s.sh.wire = 0
      · simp [h1, h2] at h
      · simp only [h1, h2, if_false] at h
        simp at h; obtain ⟨rfl, rfl⟩ := h
        refine ⟨?_, ?_, hi.sdone, ?_, ?_, hi.swin⟩
        · simpa [cnt, hpc] using hwg
        · simp [RPc.closedRing]
        · intro hn; cases hn
        · intro n hn
          have hr := hi.rread hpc
          simp at hn; subst hn
          rw [readMax_wf c hw]
          simp only
          omega
  | commit n =>
    rw [hpc] at h
    simp only [rstep] at h
    have hc := hi.rcommit n hpc
    cases hs : s.sh.inR.commitP c n with
    | none => simp [hs] at h
    | some q =>
      obtain ⟨ret, r⟩ := q
      have hcp := commitP_some c hw.d2 _ _ _ _ hs
      cases ret <;> simp [hs] at h <;> obtain ⟨rfl, rfl⟩ := h
      all_goals
        refine ⟨?_, ?_, hi.sdone, ?_, ?_, hi.swin⟩
        · simpa [cnt, hpc] using hwg
        · simp [RPc.closedRing]
        · intro hn; cases hn
        · intro n hn; cases hn
  | close =>
    rw [hpc] at h
    simp only [rstep, close_returns c hw.d2, hw.rc] at h
    simp at h; obtain ⟨rfl, rfl⟩ := h
    refine ⟨?_, ?_, hi.sdone, ?_, ?_, hi.swin⟩
    · simpa [cnt, hpc] using hwg
    · simp
    · intro hn; cases hn
    · intro n hn; cases hn
  | connClose =>
    rw [hpc] at h
    simp [rstep] at h; obtain ⟨rfl, rfl⟩ := h
    refine ⟨?_, ?_, hi.sdone, ?_, ?_, hi.swin⟩
    · simpa [cnt, hpc] using hwg
    · intro _; exact hi.rdone (by simp [hpc, RPc.closedRing])
    · intro hn; cases hn
    · intro n hn; cases hn
  | wgDone =>
    rw [hpc] at h
    simp [rstep] at h; obtain ⟨rfl, rfl⟩ := h
    refine ⟨?_, ?_, hi.sdone, ?_, ?_, hi.swin⟩
    · simp [cnt, hpc] at hwg ⊢; omega
    · intro _; exact hi.rdone (by simp [hpc, RPc.closedRing])
    · intro hn; cases hn
    · intro n hn; cases hn
  | exited => rw [hpc] at h; simp [rstep] at h

theorem invA_send (c : Cfg) (hw : WF c) (s : St) (sh' : Sh) (pc' : SPc) (hi : InvA c s)
    (h : sstep c s.sh s.send = some (sh', pc')) : InvA c { s with sh := sh', send := pc' } := by
  have hwg := hi.wg
  cases hpc : s.send with
  | peek =>
    rw [hpc] at h
    simp only [sstep] at h
    by_cases h1 : s.sh.outR.done = true
    · simp [h1] at h; obtain ⟨rfl, rfl⟩ := h
      refine ⟨?_, hi.rdone, ?_, hi.rread, hi.rcommit, ?_⟩
      · simpa [cnt, hpc] using hwg
      · simp [SPc.closedRing]
      · intro m hm; simp at hm
    · by_cases h2 : 0 < s.sh.outR.buf
      · simp [h1, h2] at h; obtain ⟨rfl, rfl⟩ := h
        refine ⟨?_, hi.rdone, ?_, hi.rread, hi.rcommit, ?_⟩
        · simpa [cnt, hpc] using hwg
        · simp [SPc.closedRing]
        · intro m hm
          have := hw.wblock
          simp at hm; subst hm
          simp; omega
      · simp [h1, h2] at h
  | write m =>
    rw [hpc] at h
    simp only [sstep] at h
    have hm := hi.swin m (Or.inl hpc)
    by_cases h1 : s.sh.sock.wfail = true
    · simp [h1] at h; obtain ⟨rfl, rfl⟩ := h
      refine ⟨?_, hi.rdone, ?_, hi.rread, hi.rcommit, ?_⟩
      · simpa [cnt, hpc] using hwg
      · simp [SPc.closedRing]
      · intro m hm; simp at hm
    · by_cases h2 : s.sh.peerReads = true
      · simp [h1, h2] at h; obtain ⟨rfl, rfl⟩ := h
        refine ⟨?_, hi.rdone, ?_, hi.rread, hi.rcommit, ?_⟩
        · simpa [cnt, hpc] using hwg
        · simp [SPc.closedRing]
        · intro m' hm'; simp at hm'; subst hm'; exact hm
      · simp [h1, h2] at h
  | commit m =>
    rw [hpc] at h
    simp only [sstep, commitC_returns c hw.d2] at h
    simp at h; obtain ⟨rfl, rfl⟩ := h
    refine ⟨?_, hi.rdone, ?_, hi.rread, hi.rcommit, ?_⟩
    · simpa [cnt, hpc] using hwg
    · simp [SPc.closedRing]
    · intro m hm; simp at hm
  | close =>
    rw [hpc] at h
    simp only [sstep, close_returns c hw.d2] at h
    simp at h; obtain ⟨rfl, rfl⟩ := h
    refine ⟨?_, hi.rdone, ?_, hi.rread, hi.rcommit, ?_⟩
    · simpa [cnt, hpc] using hwg
    · simp
    · intro m hm; simp at hm
  | wgDone =>
    rw [hpc] at h
    simp [sstep] at h; obtain ⟨rfl, rfl⟩ := h
    refine ⟨?_, hi.rdone, ?_, hi.rread, hi.rcommit, ?_⟩
    · simp [cnt, hpc] at hwg ⊢; omega
    · intro _; exact hi.sdone (by simp [hpc, SPc.closedRing])
    · intro m hm; simp at hm
  | exited => rw [hpc] at h; simp [sstep] at h

/-- what a processor step does to the state `InvA` talks about -/
theorem pstep_frameA (c : Cfg) (hw : WF c) (sh sh' : Sh) (pc pc' : PPc)
    (h : pstep c sh pc = some (sh', pc')) :
    sh'.inR.buf ≤ sh.inR.buf ∧ (sh.inR.done = true → sh'.inR.done = true) ∧
    sh.outR.buf ≤ sh'.outR.buf ∧ (sh.outR.done = true → sh'.outR.done = true) ∧
    ((pc = .wgDone ∧ sh'.wg = sh.wg - 1 ∧ PPc.past pc' = true) ∨
     (sh'.wg = sh.wg ∧ PPc.past pc' = PPc.past pc)) := by
  cases pc with
  | size =>
    simp only [pstep] at h
    generalize hdrNeed sh.stream = need at h
    cases hs : sh.inR.waitData c need with
    | none => simp [hs] at h
    | some q =>
      obtain ⟨ret, r⟩ := q
      obtain ⟨rfl, -⟩ := waitData_some c hw.d2 _ _ _ _ hs
      cases ret
      · cases hst : sh.stream with
        | nil => simp [hs, hst] at h; obtain ⟨rfl, rfl⟩ := h; simp [PPc.past]
        | cons p tl =>
          by_cases h5 : 5 < p.hdr <;> simp [hs, hst, h5] at h <;> obtain ⟨rfl, rfl⟩ := h <;> simp [PPc.past]
      · simp [hs] at h; obtain ⟨rfl, rfl⟩ := h; simp [PPc.past]
      · simp [hs] at h; obtain ⟨rfl, rfl⟩ := h; simp [PPc.past]
  | msg =>
    simp only [pstep] at h
    cases hst : sh.stream with
    | nil => simp [hst] at h; obtain ⟨rfl, rfl⟩ := h; simp [PPc.past]
    | cons p tl =>
      cases hs : sh.inR.waitData c p.total with
      | none => simp [hst, hs] at h
      | some q =>
        obtain ⟨ret, r⟩ := q
        obtain ⟨rfl, -⟩ := waitData_some c hw.d2 _ _ _ _ hs
        cases ret
        · cases hk : p.kind <;> simp [hst, hs, hk] at h <;> obtain ⟨rfl, rfl⟩ := h <;> simp [PPc.past]
        · simp [hst, hs] at h; obtain ⟨rfl, rfl⟩ := h; simp [PPc.past]
        · simp [hst, hs] at h; obtain ⟨rfl, rfl⟩ := h; simp [PPc.past]
  | acts as =>
    cases as with
    | nil => simp [pstep] at h; obtain ⟨rfl, rfl⟩ := h; simp [PPc.past]
    | cons a rest =>
      cases a with
      | foreign =>
        simp only [pstep] at h
        by_cases hb : sh.extBlocked = true <;> simp [hb] at h
        obtain ⟨rfl, rfl⟩ := h; simp [PPc.past]
      | own l =>
        simp only [pstep] at h
        by_cases hm : sh.wmu.isSome = true <;> simp [hm] at h
        obtain ⟨rfl, rfl⟩ := h; simp [PPc.past]
  | ownWait l rest =>
    simp only [pstep] at h
    cases hs : sh.outR.waitSpace c l with
    | none => simp [hs] at h
    | some q =>
      obtain ⟨ret, r⟩ := q
      obtain ⟨rfl, -⟩ := waitSpace_some c hw.d2 _ _ _ _ hs
      cases ret <;> simp [hs] at h <;> obtain ⟨rfl, rfl⟩ := h <;> simp [PPc.past]
  | ownCommit l rest =>
    simp only [pstep] at h
    cases hs : sh.outR.commitP c l with
    | none => simp [hs] at h
    | some q =>
      obtain ⟨ret, r⟩ := q
      simp [hs] at h; obtain ⟨rfl, rfl⟩ := h
      rcases commitP_some c hw.d2 _ _ _ _ hs with ⟨_, rfl, _⟩ | ⟨_, rfl, _⟩ <;> simp [PPc.past]
  | commit =>
    simp only [pstep] at h
    cases hst : sh.stream with
    | nil => simp [hst] at h; obtain ⟨rfl, rfl⟩ := h; simp [PPc.past]
    | cons p tl =>
      simp [hst, commitC_returns c hw.d2] at h; obtain ⟨rfl, rfl⟩ := h
      simp [PPc.past]
  | check =>
    simp only [pstep] at h
    by_cases hc : (sh.doneCh && sh.inR.buf == 0) = true <;> simp [hc] at h <;> obtain ⟨rfl, rfl⟩ := h <;> simp [PPc.past]
  | wgDone => simp [pstep] at h; obtain ⟨rfl, rfl⟩ := h; simp [PPc.past]
  | stop k =>
    simp only [pstep] at h
    cases hk : kstep c sh .proc k with
    | none => simp [hk] at h
    | some q =>
      obtain ⟨sh1, k1⟩ := q
      simp [hk] at h; obtain ⟨rfl, rfl⟩ := h
      obtain ⟨h1, h2, h3, h4, h5⟩ := kstep_frameA c hw sh sh1 .proc k k1 hk
      simp [PPc.past, h1, h2, h3]; exact ⟨h4, h5⟩

theorem invA_proc (c : Cfg) (hw : WF c) (s : St) (sh' : Sh) (pc' : PPc) (hi : InvA c s)
    (h : pstep c s.sh s.proc = some (sh', pc')) : InvA c { s with sh := sh', proc := pc' } := by
  obtain ⟨h1, h2, h3, h4, h5⟩ := pstep_frameA c hw _ _ _ _ h
  have hwg := hi.wg
  refine ⟨?_, fun hr => h2 (hi.rdone hr), fun hr => h4 (hi.sdone hr), ?_, ?_, ?_⟩
  · rcases h5 with ⟨hp, hw', hp'⟩ | ⟨hw', hp'⟩
    · simp [cnt, hp, PPc.past] at hwg
      simp [cnt, hp', hw']; omega
    · simp only [cnt] at hwg ⊢; simp only [hp', hw']; exact hwg
  · intro hr; have := hi.rread hr; simp only at this ⊢; omega
  · intro n hr; have := hi.rcommit n hr; simp only at this ⊢; omega
  · intro m hm; have := hi.swin m hm; simp only at this ⊢; omega

theorem wstep_frameA (c : Cfg) (hw : WF c) (sh sh' : Sh) (me : Tid) (w w' : WTh)
    (h : wstep c sh me w = some (sh', w')) :
    sh'.wg = sh.wg ∧ sh'.inR = sh.inR ∧ sh.outR.buf ≤ sh'.outR.buf ∧
    (sh.outR.done = true → sh'.outR.done = true) := by
  obtain ⟨pc, len⟩ := w
  cases pc with
  | check =>
    simp only [wstep] at h
    by_cases hn : sh.ringsNil = true <;> simp [hn] at h <;> obtain ⟨rfl, rfl⟩ := h <;> simp
  | lock =>
    simp only [wstep] at h
    by_cases hm : sh.wmu.isSome = true <;> simp [hm] at h
    obtain ⟨rfl, rfl⟩ := h; simp
  | wait =>
    simp only [wstep] at h
    by_cases hn : sh.ringsNil = true
    · simp [hn] at h; obtain ⟨rfl, rfl⟩ := h; simp
    · cases hs : sh.outR.waitSpace c len with
      | none => simp [hn, hs] at h
      | some q =>
        obtain ⟨ret, r⟩ := q
        obtain ⟨rfl, -⟩ := waitSpace_some c hw.d2 _ _ _ _ hs
        cases ret <;> simp [hn, hs] at h <;> obtain ⟨rfl, rfl⟩ := h <;> simp
  | commit =>
    simp only [wstep] at h
    by_cases hn : sh.ringsNil = true
    · simp [hn] at h; obtain ⟨rfl, rfl⟩ := h; simp
    · cases hs : sh.outR.commitP c len with
      | none => simp [hn, hs] at h
      | some q =>
        obtain ⟨ret, r⟩ := q
        simp [hn, hs] at h; obtain ⟨rfl, rfl⟩ := h
        rcases commitP_some c hw.d2 _ _ _ _ hs with ⟨_, rfl, _⟩ | ⟨_, rfl, _⟩ <;> simp
  | finished => simp [wstep] at h
  | panicked => simp [wstep] at h

/-- `InvA` is preserved by every step of every thread … -/
theorem invA_step (c : Cfg) (hw : WF c) (s s' : St) (t : Tid) (k : Nat) (hi : InvA c s)
    (h : tstep c s t k = some s') : InvA c s' := by
  cases t with
  | recv =>
    simp only [tstep] at h
    cases hr : rstep c s.sh k s.recv with
    | none => simp [hr] at h
    | some q => obtain ⟨sh', pc'⟩ := q; simp [hr] at h; subst h; exact invA_recv c hw s sh' pc' k hi hr
  | send =>
    simp only [tstep] at h
    cases hr : sstep c s.sh s.send with
    | none => simp [hr] at h
    | some q => obtain ⟨sh', pc'⟩ := q; simp [hr] at h; subst h; exact invA_send c hw s sh' pc' hi hr
  | proc =>
    simp only [tstep] at h
    cases hr : pstep c s.sh s.proc with
    | none => simp [hr] at h
    | some q => obtain ⟨sh', pc'⟩ := q; simp [hr] at h; subst h; exact invA_proc c hw s sh' pc' hi hr
  | k i =>
    simp only [tstep] at h
    cases hk : s.ks[i]? with
    | none => simp [hk] at h
    | some pc =>
      cases hr : kstep c s.sh (.k i) pc with
      | none => simp [hk, hr] at h
      | some q =>
        obtain ⟨sh', pc'⟩ := q
        simp [hk, hr] at h; subst h
        obtain ⟨h1, h2, h3, h4, h5⟩ := kstep_frameA c hw _ _ _ _ _ hr
        have hwg := hi.wg
        refine ⟨?_, fun hr => h4 (hi.rdone hr), fun hr => h5 (hi.sdone hr), ?_, ?_, ?_⟩
        · simp only [cnt] at hwg ⊢; simp only [h1]; exact hwg
        · intro hr; have := hi.rread hr; simp only at this ⊢; omega
        · intro n hr; have := hi.rcommit n hr; simp only at this ⊢; omega
        · intro m hm; have := hi.swin m hm; simp only at this ⊢; omega
  | w i =>
    simp only [tstep] at h
    cases hk : s.ws[i]? with
    | none => simp [hk] at h
    | some w =>
      cases hr : wstep c s.sh (.w i) w with
      | none => simp [hk, hr] at h
      | some q =>
        obtain ⟨sh', w'⟩ := q
        simp [hk, hr] at h; subst h
        obtain ⟨h1, h2, h3, h4⟩ := wstep_frameA c hw _ _ _ _ _ hr
        have hwg := hi.wg
        refine ⟨?_, ?_, fun hr => h4 (hi.sdone hr), ?_, ?_, ?_⟩
        · simp only [cnt] at hwg ⊢; simp only [h1]; exact hwg
        · intro hr; have := hi.rdone hr; simp only [h2] at this ⊢; exact this
        · intro hr; have := hi.rread hr; simp only [h2] at this ⊢; exact this
        · intro n hr; have := hi.rcommit n hr; simp only [h2] at this ⊢; exact this
        · intro m hm; have := hi.swin m hm; simp only at this ⊢; omega

/-- … and by every environment event -/
theorem invA_env (c : Cfg) (hw : WF c) (s s' : St) (e : Env) (hi : InvA c s)
    (h : estep c s e = some s') : InvA c s' := by
  have hwg := hi.wg
  cases e with
  | peerClose =>
    simp only [estep] at h
    by_cases h1 : s.sh.sock = .open ∨ s.sh.sock = .peerShut <;> simp [h1] at h
    subst h; exact ⟨hi.wg, hi.rdone, hi.sdone, hi.rread, hi.rcommit, hi.swin⟩
  | peerShut =>
    simp only [estep] at h
    by_cases h1 : s.sh.sock = .open <;> simp [h1] at h
    subst h; exact ⟨hi.wg, hi.rdone, hi.sdone, hi.rread, hi.rcommit, hi.swin⟩
  | kaExpire =>
    simp only [estep] at h
    by_cases h1 : s.recv = .read ∧ s.sh.sock = .open
    · rw [if_pos h1] at h; injection h with h
      subst h; exact ⟨hi.wg, hi.rdone, hi.sdone, hi.rread, hi.rcommit, hi.swin⟩
    · rw [if_neg h1] at h; cases h
  | peerReads b => simp [estep] at h; subst h; exact ⟨hi.wg, hi.rdone, hi.sdone, hi.rread, hi.rcommit, hi.swin⟩
  | extBlock b => simp [estep] at h; subst h; exact ⟨hi.wg, hi.rdone, hi.sdone, hi.rread, hi.rcommit, hi.swin⟩
  | serverClose i =>
    simp only [estep] at h
    cases hk : s.ks[i]? with
    | none => simp [hk] at h
    | some pc =>
      cases pc <;> simp [hk] at h
      subst h; exact ⟨hi.wg, hi.rdone, hi.sdone, hi.rread, hi.rcommit, hi.swin⟩
  | preClose =>
    simp only [estep, close_returns c hw.d2] at h
    simp at h; subst h
    exact ⟨hi.wg, hi.rdone, fun _ => rfl, hi.rread, hi.rcommit, hi.swin⟩

/-! ## `wmu` -/

def PPc.holdsWmu : PPc → Bool
  | .ownWait _ _ => true
  | .ownCommit _ _ => true
  | _ => false

def WPc.holdsWmu : WPc → Bool
  | .wait => true
  | .commit => true
  | _ => false

structure InvW (s : St) : Prop where
  proc : s.sh.wmu = some .proc ↔ PPc.holdsWmu s.proc = true
  w : ∀ i, s.sh.wmu = some (.w i) ↔ ∃ w, s.ws[i]? = some w ∧ WPc.holdsWmu w.pc = true
  other : ∀ t, s.sh.wmu = some t → t = .proc ∨ ∃ i, t = .w i

theorem invW_init (c : Cfg) (s : St) (h : Init c s) : InvW s := by
  refine ⟨?_, ?_, ?_⟩
  · simp [h.wmu, h.proc, PPc.holdsWmu]
  · intro i
    simp [h.wmu]
    intro w hw
    have := h.ws w (List.mem_iff_getElem?.mpr ⟨i, hw⟩)
    simp [this, WPc.holdsWmu]
  · intro t ht; simp [h.wmu] at ht

theorem rstep_wmu (c : Cfg) (hw : WF c) (sh sh' : Sh) (k : Nat) (pc pc' : RPc)
    (h : rstep c sh k pc = some (sh', pc')) : sh'.wmu = sh.wmu := by
  cases pc with
  | space =>
    simp only [rstep] at h
    cases hs : sh.inR.waitSpace c c.spaceNeed with
    | none => simp [hs] at h
    | some q => obtain ⟨ret, r⟩ := q; cases ret <;> simp [hs] at h <;> obtain ⟨rfl, rfl⟩ := h <;> rfl
  | read =>
    simp only [rstep] at h
    by_cases h1 : sh.sock ≠ .open ∨ sh.timeout = true
    · simp [h1] at h; obtain ⟨rfl, rfl⟩ := h; rfl
    · by_cases h2 : sh.wire = 0
      · simp [h1, h2] at h
      · simp only [h1, h2, if_false] at h; simp at h; obtain ⟨rfl, rfl⟩ := h; rfl
  | commit n =>
    simp only [rstep] at h
    cases hs : sh.inR.commitP c n with
    | none => simp [hs] at h
    | some q => obtain ⟨ret, r⟩ := q; cases ret <;> simp [hs] at h <;> obtain ⟨rfl, rfl⟩ := h <;> rfl
  | close => simp only [rstep, close_returns c hw.d2, hw.rc] at h; simp at h; obtain ⟨rfl, rfl⟩ := h; rfl
  | connClose => simp [rstep] at h; obtain ⟨rfl, rfl⟩ := h; rfl
  | wgDone => simp [rstep] at h; obtain ⟨rfl, rfl⟩ := h; rfl
  | exited => simp [rstep] at h

theorem sstep_wmu (c : Cfg) (hw : WF c) (sh sh' : Sh) (pc pc' : SPc)
    (h : sstep c sh pc = some (sh', pc')) : sh'.wmu = sh.wmu := by
  cases pc with
  | peek =>
    simp only [sstep] at h
    by_cases h1 : sh.outR.done = true
    · simp [h1] at h; obtain ⟨rfl, rfl⟩ := h; rfl
    · by_cases h2 : 0 < sh.outR.buf <;> simp [h1, h2] at h
      obtain ⟨rfl, rfl⟩ := h; rfl
  | write m =>
    simp only [sstep] at h
    by_cases h1 : sh.sock.wfail = true
    · simp [h1] at h; obtain ⟨rfl, rfl⟩ := h; rfl
    · by_cases h2 : sh.peerReads = true <;> simp [h1, h2] at h
      obtain ⟨rfl, rfl⟩ := h; rfl
  | commit m => simp only [sstep, commitC_returns c hw.d2] at h; simp at h; obtain ⟨rfl, rfl⟩ := h; rfl
  | close => simp only [sstep, close_returns c hw.d2] at h; simp at h; obtain ⟨rfl, rfl⟩ := h; rfl
  | wgDone => simp [sstep] at h; obtain ⟨rfl, rfl⟩ := h; rfl
  | exited => simp [sstep] at h

theorem kstep_wmu (c : Cfg) (sh sh' : Sh) (me : Tid) (k k' : KPc)
    (h : kstep c sh me k = some (sh', k')) : sh'.wmu = sh.wmu := by
  cases k with
  | idle => simp [kstep] at h
  | finished => simp [kstep] at h
  | run i =>
    simp only [kstep] at h
    cases hp : c.stopProg[i]? with
    | none => simp [hp] at h; obtain ⟨rfl, rfl⟩ := h; rfl
    | some op =>
      cases he : execStop c sh me op with
      | none => simp [hp, he] at h
      | some q =>
        obtain ⟨sh1, b⟩ := q
        have hf := execStop_frame c sh sh1 me op b he
        cases b <;> simp [hp, he] at h <;> obtain ⟨rfl, rfl⟩ := h <;> exact hf.2.2.2.2.1

/-- how a processor step moves `wmu` -/
theorem pstep_wmu (c : Cfg) (hw : WF c) (sh sh' : Sh) (pc pc' : PPc)
    (h : pstep c sh pc = some (sh', pc')) :
    (PPc.holdsWmu pc = false ∧ PPc.holdsWmu pc' = true ∧ sh.wmu = none ∧ sh'.wmu = some .proc) ∨
    (PPc.holdsWmu pc = true ∧ PPc.holdsWmu pc' = false ∧ sh'.wmu = none) ∨
    (PPc.holdsWmu pc' = PPc.holdsWmu pc ∧ sh'.wmu = sh.wmu) := by
  cases pc with
  | size =>
    simp only [pstep] at h
    generalize hdrNeed sh.stream = need at h
    cases hs : sh.inR.waitData c need with
    | none => simp [hs] at h
    | some q =>
      obtain ⟨ret, r⟩ := q
      cases ret
      · cases hst : sh.stream with
        | nil => simp [hs, hst] at h; obtain ⟨rfl, rfl⟩ := h; simp [PPc.holdsWmu]
        | cons p tl =>
          by_cases h5 : 5 < p.hdr <;> simp [hs, hst, h5] at h <;> obtain ⟨rfl, rfl⟩ := h <;> simp [PPc.holdsWmu]
      · simp [hs] at h; obtain ⟨rfl, rfl⟩ := h; simp [PPc.holdsWmu]
      · simp [hs] at h; obtain ⟨rfl, rfl⟩ := h; simp [PPc.holdsWmu]
  | msg =>
    simp only [pstep] at h
    cases hst : sh.stream with
    | nil => simp [hst] at h; obtain ⟨rfl, rfl⟩ := h; simp [PPc.holdsWmu]
    | cons p tl =>
      cases hs : sh.inR.waitData c p.total with
      | none => simp [hst, hs] at h
      | some q =>
        obtain ⟨ret, r⟩ := q
        cases ret
        · cases hk : p.kind <;> simp [hst, hs, hk] at h <;> obtain ⟨rfl, rfl⟩ := h <;> simp [PPc.holdsWmu]
        · simp [hst, hs] at h; obtain ⟨rfl, rfl⟩ := h; simp [PPc.holdsWmu]
        · simp [hst, hs] at h; obtain ⟨rfl, rfl⟩ := h; simp [PPc.holdsWmu]
  | acts as =>
    cases as with
    | nil => simp [pstep] at h; obtain ⟨rfl, rfl⟩ := h; simp [PPc.holdsWmu]
    | cons a rest =>
      cases a with
      | foreign =>
        simp only [pstep] at h
        by_cases hb : sh.extBlocked = true <;> simp [hb] at h
        obtain ⟨rfl, rfl⟩ := h; simp [PPc.holdsWmu]
      | own l =>
        simp only [pstep] at h
        by_cases hm : sh.wmu.isSome = true
        · simp [hm] at h
        · simp [hm] at h; obtain ⟨rfl, rfl⟩ := h
          left; simp [PPc.holdsWmu]
          cases hwm : sh.wmu with
          | none => rfl
          | some t => simp [hwm] at hm
  | ownWait l rest =>
    simp only [pstep] at h
    cases hs : sh.outR.waitSpace c l with
    | none => simp [hs] at h
    | some q =>
      obtain ⟨ret, r⟩ := q
      cases ret <;> simp [hs] at h <;> obtain ⟨rfl, rfl⟩ := h <;> simp [PPc.holdsWmu]
  | ownCommit l rest =>
    simp only [pstep] at h
    cases hs : sh.outR.commitP c l with
    | none => simp [hs] at h
    | some q =>
      obtain ⟨ret, r⟩ := q
      simp [hs] at h; obtain ⟨rfl, rfl⟩ := h; simp [PPc.holdsWmu]
  | commit =>
    simp only [pstep] at h
    cases hst : sh.stream with
    | nil => simp [hst] at h; obtain ⟨rfl, rfl⟩ := h; simp [PPc.holdsWmu]
    | cons p tl =>
      simp [hst, commitC_returns c hw.d2] at h; obtain ⟨rfl, rfl⟩ := h
      simp [PPc.holdsWmu]
  | check =>
    simp only [pstep] at h
    by_cases hc : (sh.doneCh && sh.inR.buf == 0) = true <;> simp [hc] at h <;> obtain ⟨rfl, rfl⟩ := h <;> simp [PPc.holdsWmu]
  | wgDone => simp [pstep] at h; obtain ⟨rfl, rfl⟩ := h; simp [PPc.holdsWmu]
  | stop k =>
    simp only [pstep] at h
    cases hk : kstep c sh .proc k with
    | none => simp [hk] at h
    | some q =>
      obtain ⟨sh1, k1⟩ := q
      simp [hk] at h; obtain ⟨rfl, rfl⟩ := h
      right; right; simp [PPc.holdsWmu, kstep_wmu c sh sh1 .proc k k1 hk]

theorem wstep_wmu (c : Cfg) (hw : WF c) (sh sh' : Sh) (me : Tid) (w w' : WTh)
    (h : wstep c sh me w = some (sh', w')) :
    (WPc.holdsWmu w.pc = false ∧ WPc.holdsWmu w'.pc = true ∧ sh.wmu = none ∧ sh'.wmu = some me) ∨
    (WPc.holdsWmu w.pc = true ∧ WPc.holdsWmu w'.pc = false ∧ sh'.wmu = none) ∨
    (WPc.holdsWmu w'.pc = WPc.holdsWmu w.pc ∧ sh'.wmu = sh.wmu) := by
  obtain ⟨pc, len⟩ := w
  cases pc with
  | check =>
    simp only [wstep] at h
    by_cases hn : sh.ringsNil = true <;> simp [hn] at h <;> obtain ⟨rfl, rfl⟩ := h <;> simp [WPc.holdsWmu]
  | lock =>
    simp only [wstep] at h
    by_cases hm : sh.wmu.isSome = true
    · simp [hm] at h
    · simp [hm] at h; obtain ⟨rfl, rfl⟩ := h
      left; simp [WPc.holdsWmu]
      cases hwm : sh.wmu with
      | none => rfl
      | some t => simp [hwm] at hm
  | wait =>
    simp only [wstep] at h
    by_cases hn : sh.ringsNil = true
    · simp [hn] at h; obtain ⟨rfl, rfl⟩ := h; simp [WPc.holdsWmu]
    · cases hs : sh.outR.waitSpace c len with
      | none => simp [hn, hs] at h
      | some q =>
        obtain ⟨ret, r⟩ := q
        cases ret <;> simp [hn, hs] at h <;> obtain ⟨rfl, rfl⟩ := h <;> simp [WPc.holdsWmu]
  | commit =>
    simp only [wstep] at h
    by_cases hn : sh.ringsNil = true
    · simp [hn] at h; obtain ⟨rfl, rfl⟩ := h; simp [WPc.holdsWmu]
    · cases hs : sh.outR.commitP c len with
      | none => simp [hn, hs] at h
      | some q =>
        obtain ⟨ret, r⟩ := q
        simp [hn, hs] at h; obtain ⟨rfl, rfl⟩ := h; simp [WPc.holdsWmu]
  | finished => simp [wstep] at h
  | panicked => simp [wstep] at h

theorem invW_step (c : Cfg) (hw : WF c) (s s' : St) (t : Tid) (k : Nat) (hi : InvW s)
    (h : tstep c s t k = some s') : InvW s' := by
  cases t with
  | recv =>
    simp only [tstep] at h
    cases hr : rstep c s.sh k s.recv with
    | none => simp [hr] at h
    | some q =>
      obtain ⟨sh', pc'⟩ := q; simp [hr] at h; subst h
      have e := rstep_wmu c hw _ _ _ _ _ hr
      exact ⟨by simpa [e] using hi.proc, by simpa [e] using hi.w, by simpa [e] using hi.other⟩
  | send =>
    simp only [tstep] at h
    cases hr : sstep c s.sh s.send with
    | none => simp [hr] at h
    | some q =>
      obtain ⟨sh', pc'⟩ := q; simp [hr] at h; subst h
      have e := sstep_wmu c hw _ _ _ _ hr
      exact ⟨by simpa [e] using hi.proc, by simpa [e] using hi.w, by simpa [e] using hi.other⟩
  | proc =>
    simp only [tstep] at h
    cases hr : pstep c s.sh s.proc with
    | none => simp [hr] at h
    | some q =>
      obtain ⟨sh', pc'⟩ := q; simp [hr] at h; subst h
      rcases pstep_wmu c hw _ _ _ _ hr with ⟨h1, h2, h3, h4⟩ | ⟨h1, h2, h3⟩ | ⟨h1, h2⟩
      · refine ⟨by simp [h4, h2], ?_, ?_⟩
        · intro i
          have := hi.w i
          simp [h3] at this
          simp [h4]
          intro w hw'; exact this w hw'
        · intro t ht; simp [h4] at ht; left; exact ht.symm
      · have hp := hi.proc.mpr h1
        refine ⟨by simp [h3, h2], ?_, ?_⟩
        · intro i
          have := hi.w i
          simp [hp] at this
          simp [h3]
          intro w hw'; exact this w hw'
        · intro t ht; simp [h3] at ht
      · exact ⟨by simpa [h1, h2] using hi.proc, by simpa [h2] using hi.w, by simpa [h2] using hi.other⟩
  | k i =>
    simp only [tstep] at h
    cases hk : s.ks[i]? with
    | none => simp [hk] at h
    | some pc =>
      cases hr : kstep c s.sh (.k i) pc with
      | none => simp [hk, hr] at h
      | some q =>
        obtain ⟨sh', pc'⟩ := q
        simp [hk, hr] at h; subst h
        have e := kstep_wmu c _ _ _ _ _ hr
        exact ⟨by simpa [e] using hi.proc, by simpa [e] using hi.w, by simpa [e] using hi.other⟩
  | w i =>
    simp only [tstep] at h
    cases hk : s.ws[i]? with
    | none => simp [hk] at h
    | some w =>
      cases hr : wstep c s.sh (.w i) w with
      | none => simp [hk, hr] at h
      | some q =>
        obtain ⟨sh', w'⟩ := q
        simp [hk, hr] at h; subst h
        have hlt : i < s.ws.length := (List.getElem?_eq_some_iff.mp hk).1
        rcases wstep_wmu c hw _ _ _ _ _ hr with ⟨h1, h2, h3, h4⟩ | ⟨h1, h2, h3⟩ | ⟨h1, h2⟩
        · -- acquires
          refine ⟨?_, ?_, ?_⟩
          · have := hi.proc; simp [h3] at this; simp [h4, this]
          · intro j
            by_cases hij : i = j
            · subst hij; simp [h4, List.getElem?_set_self hlt, h2]
            · have := hi.w j; simp [h3] at this
              simp [h4, List.getElem?_set_ne hij]
              constructor
              · intro e; exact absurd e hij
              · intro ⟨x, hx, hx'⟩; exact absurd hx' (by simpa using this x hx)
          · intro t ht; simp [h4] at ht; right; exact ⟨i, ht.symm⟩
        · -- releases
          have hwi : s.sh.wmu = some (.w i) := (hi.w i).mpr ⟨w, hk, h1⟩
          refine ⟨?_, ?_, ?_⟩
          · have := hi.proc; simp [hwi] at this; simp [h3, this]
          · intro j
            by_cases hij : i = j
            · subst hij; simp [h3, List.getElem?_set_self hlt, h2]
            · have := hi.w j; simp [hwi] at this
              simp [h3, List.getElem?_set_ne hij]
              intro x hx
              have := this.mp
              by_cases hh : WPc.holdsWmu x.pc = true
              · have := (hi.w j).mpr ⟨x, hx, hh⟩
                rw [hwi] at this; simp at this; exact absurd this hij
              · simpa using hh
          · intro t ht; simp [h3] at ht
        · refine ⟨by simpa [h2] using hi.proc, ?_, by simpa [h2] using hi.other⟩
          intro j
          by_cases hij : i = j
          · subst hij
            have := hi.w i
            simp [h2, List.getElem?_set_self hlt, h1]
            rw [this]; simp [hk]
          · simpa [h2, List.getElem?_set_ne hij] using hi.w j

theorem invW_env (c : Cfg) (hw : WF c) (s s' : St) (e : Env) (hi : InvW s)
    (h : estep c s e = some s') : InvW s' := by
  cases e with
  | peerClose =>
    simp only [estep] at h
    by_cases h1 : s.sh.sock = .open ∨ s.sh.sock = .peerShut <;> simp [h1] at h
    subst h; exact ⟨hi.proc, hi.w, hi.other⟩
  | peerShut =>
    simp only [estep] at h
    by_cases h1 : s.sh.sock = .open <;> simp [h1] at h
    subst h; exact ⟨hi.proc, hi.w, hi.other⟩
  | kaExpire =>
    simp only [estep] at h
    by_cases h1 : s.recv = .read ∧ s.sh.sock = .open
    · rw [if_pos h1] at h; injection h with h; subst h; exact ⟨hi.proc, hi.w, hi.other⟩
    · rw [if_neg h1] at h; cases h
  | peerReads b => simp [estep] at h; subst h; exact ⟨hi.proc, hi.w, hi.other⟩
  | extBlock b => simp [estep] at h; subst h; exact ⟨hi.proc, hi.w, hi.other⟩
  | serverClose i =>
    simp only [estep] at h
    cases hk : s.ks[i]? with
    | none => simp [hk] at h
    | some pc =>
      cases pc <;> simp [hk] at h
      subst h; exact ⟨hi.proc, hi.w, hi.other⟩
  | preClose =>
    simp only [estep, close_returns c hw.d2] at h
    simp at h; subst h; exact ⟨hi.proc, hi.w, hi.other⟩

end Mqtt.Proofs.Lifecycle
