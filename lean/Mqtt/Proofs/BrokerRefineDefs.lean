/-
The abstraction relation `R` between the code-shaped broker model (`Model.Broker.B`)
and the reference broker (`Spec.Broker.S`), and the decidable side condition
`okEv` of the refinement theorem (Proofs/BrokerRefine.lean).  See NOTES-brefine.md.
-/
import Mqtt.Proofs.BrokerRefinePublish
import Mqtt.Proofs.BrokerLifeWillKept
import Mqtt.Proofs.BrokerLifeTrie
import Mqtt.Proofs.BrokerQosSpec
import Mqtt.Proofs.BrokerQosPersist

set_option linter.unusedSimpArgs false

namespace Mqtt.Proofs.BrokerRefine
open Mqtt.Iface.Broker Mqtt.Model.Broker
open Mqtt.Model.Topics (MemTopics RMsg RNode)
open Mqtt.Proofs.Topics (WF RWF abs absR good entryLevels)
open Mqtt.Spec.Match (split validName validFilter topicMatches)
open Mqtt.Proofs.Broker (HeldInv RetInv heldEntry)
open Mqtt.Proofs.BrokerQos (toOpen2)

/-! ### vocabulary -/

/-- the session object of a live connection -/
def liveSess (b : B) (c : Nat) : Option Sess :=
  match b.getConn c with
  | some cn => if cn.alive then b.getSess cn.sess else none
  | none => none

/-- a client identifier a CONNECT can carry and be accepted with -/
def realCid (x : Bytes) : Bool := !x.isEmpty && x.all Spec.Broker.printable

/-- the identifier the reference broker files an anonymous client under -/
def anonSpec (c : Nat) : Bytes := "\x00anon".toUTF8.toList ++ (toString c).toUTF8.toList

/-- client identifier of a live connection: model side `m`, specification side `k` -/
def CidRel (c : Nat) (m k : Bytes) (clean : Bool) : Prop :=
  (m = k ∧ realCid k = true) ∨ (m = anonId c ∧ k = anonSpec c ∧ clean = true)

/-- the message object `Session.Init/Update` builds of a will with a valid topic -/
def willMsg (w : Will) : Msg :=
  ⟨{ qos := w.qos, retain := w.retain, topic := w.topic, payload := w.payload }, true⟩

def willOk (w : Will) : Bool := good w.topic && validName w.topic && decide (w.qos ≤ 2)

/-- an inbound PUBLISH: topic name without empty level / leading '$' / wildcard,
QoS ≤ 2, an identifier unless QoS 0 -/
def pubOk (p : Pub) : Bool :=
  good p.topic && validName p.topic && decide (p.qos ≤ 2) && (p.qos == 0 || p.pktid != 0)

/-- a subscription a session holds -/
def subOk (p : Bytes × Nat) : Bool := good p.1 && validFilter p.1 && decide (p.2 ≤ 2)

/-- `Session.topics` against the subscriptions the reference broker holds / stores for the client -/
structure TopicsRel (ts subs : List (Bytes × Nat)) : Prop where
  perm : ts.Perm subs
  nodup : (ts.map (·.1)).Nodup
  ok : ∀ p ∈ ts, subOk p = true

structure LiveRel (b : B) (s : Spec.Broker.S) (c : Nat) (σ : Sess) (k : Spec.Broker.Conn) : Prop where
  cid : CidRel c σ.cid k.cid k.clean
  clean : σ.clean = k.clean
  willFlag : σ.willFlag = k.will.isSome
  will : σ.will = k.will.map willMsg
  willOk : ∀ w, k.will = some w → willOk w = true
  open2 : k.open2 = toOpen2 σ.pub2in
  q2ok : ∀ e ∈ σ.pub2in, pubOk e.msg = true
  topics : TopicsRel σ.topics (Spec.Broker.heldOf s c)
  store : b.storeGet σ.cid = some σ.ref

/-- the session object a CleanSession=0 CONNECT under identifier `x` would resume -/
def resumable (b : B) (x : Bytes) : Option Sess :=
  ((b.storeGet x).bind b.getSess).filter (fun s => !s.clean)

structure StoredRel (b : B) (s : Spec.Broker.S) (x : Bytes) : Prop where
  some : ∀ σ, resumable b x = some σ → ∃ subs o2, s.stored.lookup x = some (subs, o2) ∧
    TopicsRel σ.topics subs ∧ o2 = toOpen2 σ.pub2in ∧ ∀ e ∈ σ.pub2in, pubOk e.msg = true
  none : resumable b x = none → s.stored.lookup x = none

/-- **the abstraction relation** -/
structure R (b : B) (s : Spec.Broker.S) : Prop where
  inv : Mqtt.Proofs.Broker.Inv b
  linv : Mqtt.Proofs.BrokerLife.Inv b
  qinv : Mqtt.Proofs.BrokerQos.BInv b
  held : HeldInv b.topics.sroot s.held
  heldGood : ∀ h ∈ s.held, good h.filter = true
  owners : ∀ h ∈ s.held, h.owner < cbBase → b.alive h.owner = true
  rets : RetInv b.topics.rroot s.rets
  retsOk : ∀ r ∈ s.rets, validName r.topic = true
  retIds : IdsOk b.topics.rroot
  connLt : ∀ c, b.alive c = true → c < cbBase
  mconns : (b.conns.map (·.id)).Nodup
  sconns : (s.conns.map (·.id)).Nodup
  connsIff : ∀ c, (Spec.Broker.getConn s c).isSome = b.alive c
  live : ∀ c σ, liveSess b c = some σ → ∃ k, Spec.Broker.getConn s c = some k ∧ LiveRel b s c σ k
  cidUniq : ∀ c c' σ σ', liveSess b c = some σ → liveSess b c' = some σ' → σ.cid = σ'.cid → c = c'
  stored : ∀ x, realCid x = true → (∀ c σ, liveSess b c = some σ → σ.cid ≠ x) → StoredRel b s x

/-! ### the side condition -/

/-- no live connection uses client identifier `cid` -/
def cidFree (b : B) (cid : Bytes) : Bool :=
  b.conns.all (fun cn => !cn.alive || (match b.getSess cn.sess with | some σ => σ.cid != cid | none => true))

/-- the events the refinement theorem speaks of, in state `b` -/
def okEv (b : B) : Ev → Bool
  | .first c f a =>
    decide (c < cbBase) && !b.alive c &&
    (match f with
     | .connect req =>
       !Mqtt.Proofs.BrokerLife.accepts (.connect req) a ||
         (match req.will with | some w => willOk w | none => true)
     | _ => true)
  | .packet _ (.publish p) => pubOk p
  | .packet _ (.subscribe _ ts) => ts.all (fun tq => good tq.1)
  | .packet _ (.unsubscribe _ ts) => ts.all (fun t => good t)
  | .packet _ _ => true
  | .close _ => true
  | .srvPub p => good p.topic && validName p.topic && decide (p.qos ≤ 2)
  | .srvSub cb f _ => decide (cbBase ≤ cb) && good f
  | .srvUnsub cb f => decide (cbBase ≤ cb) && good f

/-- `okEv` along the run of the model -/
def okRun (b : B) : List Ev → Bool
  | [] => true
  | e :: es => okEv b e && okRun (step b e).1 es

/-- the run of the reference broker -/
def specRun (s : Spec.Broker.S) : List Ev → Spec.Broker.S × List (List Spec.Broker.SOut)
  | [] => (s, [])
  | e :: es =>
    let r := Spec.Broker.step s e
    let rs := specRun r.1 es
    (rs.1, r.2 :: rs.2)

/-- event by event -/
inductive AcceptsAll : List (List Spec.Broker.SOut) → List (List Out) → Prop
  | nil : AcceptsAll [] []
  | cons {so : List Spec.Broker.SOut} {o : List Out} {sos : List (List Spec.Broker.SOut)} {os : List (List Out)} :
      Spec.Broker.Accepts so o → AcceptsAll sos os → AcceptsAll (so :: sos) (o :: os)

/-! ### basic facts -/

theorem spec_step_eq (s : Spec.Broker.S) (e : Ev) :
    Spec.Broker.step s e = Spec.Broker.step1 s e := rfl

theorem liveSess_eq {b : B} {c : Nat} {cn : Conn} {σ : Sess} (hc : b.getConn c = some cn) (ha : cn.alive = true)
    (hs : b.getSess cn.sess = some σ) : liveSess b c = some σ := by
  simp [liveSess, hc, ha, hs]

theorem liveSess_some {b : B} {c : Nat} {σ : Sess} (h : liveSess b c = some σ) :
    ∃ cn, b.getConn c = some cn ∧ cn.alive = true ∧ b.getSess cn.sess = some σ := by
  unfold liveSess at h
  cases hc : b.getConn c with
  | none => simp [hc] at h
  | some cn =>
    simp only [hc] at h
    cases ha : cn.alive with
    | false => simp [ha] at h
    | true => simp only [ha, ↓reduceIte] at h; exact ⟨cn, rfl, ha, h⟩

theorem liveSess_alive {b : B} {c : Nat} {σ : Sess} (h : liveSess b c = some σ) : b.alive c = true := by
  obtain ⟨cn, hc, ha, _⟩ := liveSess_some h
  unfold B.alive; rw [hc]; exact ha

theorem liveSess_of_alive {b : B} (hinv : Mqtt.Proofs.Broker.Inv b) {c : Nat} (h : b.alive c = true) :
    ∃ σ, liveSess b c = some σ := by
  obtain ⟨cn, σ, hc, ha, hs⟩ := hinv.live b c h
  exact ⟨σ, liveSess_eq hc ha hs⟩

theorem liveSess_dead {b : B} {c : Nat} (h : b.alive c = false) : liveSess b c = none := by
  unfold B.alive at h
  unfold liveSess
  cases hc : b.getConn c with
  | none => rfl
  | some cn => simp only [hc] at h; simp [h]

theorem liveSess_ref {b : B} {c : Nat} {σ : Sess} (h : liveSess b c = some σ) : b.getSess σ.ref = some σ := by
  obtain ⟨cn, _, _, hs⟩ := liveSess_some h
  have := Mqtt.Proofs.BrokerLife.getSess_ref hs
  rw [this]; exact hs

/-- same connection table and session objects: same live sessions -/
theorem liveSess_congr {b b' : B} (hc : b'.conns = b.conns) (hs : b'.sess = b.sess) (c : Nat) :
    liveSess b' c = liveSess b c := by
  unfold liveSess B.getConn B.getSess
  rw [hc, hs]

theorem resumable_congr {b b' : B} (hst : b'.store = b.store) (hs : b'.sess = b.sess) (x : Bytes) :
    resumable b' x = resumable b x := by
  unfold resumable B.storeGet B.getSess
  rw [hst, hs]

theorem storeGet_congr {b b' : B} (hst : b'.store = b.store) (x : Bytes) : b'.storeGet x = b.storeGet x := by
  unfold B.storeGet; rw [hst]

/-- two live connections with the same session object are the same connection -/
theorem R.refUniq {b : B} {s : Spec.Broker.S} (h : R b s) {c c' : Nat} {σ σ' : Sess}
    (h1 : liveSess b c = some σ) (h2 : liveSess b c' = some σ') (hr : σ.ref = σ'.ref) : c = c' := by
  have e1 := liveSess_ref h1
  have e2 := liveSess_ref h2
  rw [hr, e2] at e1
  cases e1
  exact h.cidUniq c c' _ _ h1 h2 rfl

theorem spec_getConn_mem {s : Spec.Broker.S} {c : Nat} {k : Spec.Broker.Conn} (h : Spec.Broker.getConn s c = some k) :
    k ∈ s.conns ∧ k.id = c := by
  unfold Spec.Broker.getConn at h
  exact ⟨List.mem_of_find?_eq_some h, by simpa using List.find?_some h⟩

theorem find_of_nodup (l : List Spec.Broker.Conn) (hn : (l.map (·.id)).Nodup) (k : Spec.Broker.Conn) (hk : k ∈ l) :
    l.find? (fun x => x.id == k.id) = some k := by
  induction l with
  | nil => cases hk
  | cons x xs ih =>
    simp only [List.map_cons, List.nodup_cons] at hn
    rw [List.find?_cons]
    rcases List.mem_cons.mp hk with rfl | hk'
    · simp
    · have hne : (x.id == k.id) = false := by
        rw [beq_eq_false_iff_ne]
        intro he
        exact hn.1 (he ▸ List.mem_map.mpr ⟨k, hk', rfl⟩)
      rw [hne]
      exact ih hn.2 hk'

theorem R.spec_getConn_of_mem {b : B} {s : Spec.Broker.S} (h : R b s) {k : Spec.Broker.Conn} (hk : k ∈ s.conns) :
    Spec.Broker.getConn s k.id = some k :=
  find_of_nodup s.conns h.sconns k hk

/-! ### generated identifiers are not suppliable -/

theorem facts_anon0 : "\x00anon".toUTF8.toList = [0, 97, 110, 111, 110] := by decide +kernel

theorem anonId_not_real (c : Nat) : realCid (anonId c) = false := by
  unfold realCid anonId
  simp [Spec.Broker.printable]

theorem anonSpec_not_real (c : Nat) : realCid (anonSpec c) = false := by
  unfold realCid anonSpec
  rw [facts_anon0]
  simp [Spec.Broker.printable]

/-- the two generated identifiers of a connection determine each other -/
theorem anonSpec_inj_anonId {c c' : Nat} (h : anonSpec c = anonSpec c') : anonId c = anonId c' := by
  unfold anonSpec at h
  have := List.append_cancel_left h
  unfold anonId
  rw [this]

/-! ### generated identifiers of different connections differ -/

theorem byteArray_loop_eq (bs : ByteArray) : ∀ (n i : Nat) (r : List UInt8), bs.size - i = n →
    ByteArray.toList.loop bs i r = r.reverse ++ bs.data.toList.drop i := by
  intro n
  induction n with
  | zero =>
    intro i r h
    unfold ByteArray.toList.loop
    have : ¬ i < bs.size := by omega
    simp only [this, ↓reduceIte]
    have hsz : bs.size = bs.data.toList.length := rfl
    have : bs.data.toList.drop i = [] := by
      apply List.drop_eq_nil_of_le
      omega
    rw [this, List.append_nil]
  | succ n ih =>
    intro i r h
    unfold ByteArray.toList.loop
    have hi : i < bs.size := by omega
    simp only [hi, ↓reduceIte]
    rw [ih (i + 1) _ (by omega)]
    have hsz : bs.size = bs.data.toList.length := rfl
    have hi' : i < bs.data.toList.length := by omega
    have hi'' : i < bs.data.size := hi
    rw [List.drop_eq_getElem_cons hi']
    simp only [List.reverse_cons, List.append_assoc, List.singleton_append]
    congr 2
    show bs.data[i]! = _
    rw [getElem!_pos bs.data i hi'']
    simp

theorem byteArray_toList_eq (bs : ByteArray) : bs.toList = bs.data.toList := by
  unfold ByteArray.toList
  rw [byteArray_loop_eq bs _ 0 [] rfl]
  simp

theorem byteArray_toList_inj {a b : ByteArray} (h : a.toList = b.toList) : a = b := by
  rw [byteArray_toList_eq, byteArray_toList_eq] at h
  apply ByteArray.ext
  exact Array.toList_inj.mp h

/-- the decimal numeral of a connection number, as bytes, determines the number -/
theorem toString_bytes_inj {a b : Nat} (h : (toString a).toUTF8.toList = (toString b).toUTF8.toList) : a = b := by
  have h1 := byteArray_toList_inj h
  have h2 : toString a = toString b := String.toByteArray_inj.mp h1
  have h3 : (toString a).toList = (toString b).toList := by rw [h2]
  have e : ∀ n : Nat, (toString n).toList = Nat.toDigits 10 n := fun n => by
    rw [Nat.toString_eq_ofList_toDigits, String.toList_ofList]
  rw [e, e] at h3
  have := congrArg (fun l => Nat.ofDigitChars 10 l 0) h3
  simpa [Nat.ofDigitChars_ten_toDigits] using this

theorem anonId_inj {a b : Nat} (h : anonId a = anonId b) : a = b := by
  unfold anonId at h
  exact toString_bytes_inj (List.append_cancel_left (List.cons.inj h).2)

/-! ### the initial states -/

theorem R_init : R {} {} := by
  refine ⟨Mqtt.Proofs.Broker.Inv_init, Mqtt.Proofs.BrokerLife.inv_init, Mqtt.Proofs.BrokerQos.inv_init,
    Mqtt.Proofs.Broker.HeldInv_empty, by simp, by simp, Mqtt.Proofs.Broker.RetInv_empty, by simp, ?_, ?_, by simp, by simp,
    ?_, ?_, ?_, ?_⟩
  · intro e he
    simp [MemTopics.new, Mqtt.Proofs.Topics.absR_empty] at he
  · intro c h; simp [B.alive, B.getConn] at h
  · intro c; simp [Spec.Broker.getConn, B.alive, B.getConn]
  · intro c σ h; simp [liveSess, B.getConn] at h
  · intro c c' σ σ' h; simp [liveSess, B.getConn] at h
  · intro x _ _
    exact ⟨by intro σ h; simp [resumable, B.storeGet] at h, by intro _; rfl⟩

/-- the generated identifier of a connection that is not live is used by no live connection -/
theorem R.anon_free {b : B} {s : Spec.Broker.S} (h : R b s) {c : Nat} (hdead : b.alive c = false) :
    ∀ c' τ, liveSess b c' = some τ → τ.cid ≠ anonId c := by
  intro c' τ hτ he
  obtain ⟨k, _, hrel⟩ := h.live c' τ hτ
  rcases hrel.cid with ⟨e1, hr⟩ | ⟨e1, _, _⟩
  · rw [← e1, he, anonId_not_real] at hr; cases hr
  · rw [e1] at he
    have := anonId_inj he
    subst this
    rw [liveSess_alive hτ] at hdead; cases hdead

end Mqtt.Proofs.BrokerRefine
