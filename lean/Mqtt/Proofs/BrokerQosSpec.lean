/-
The reference broker (`Spec/Broker.lean`, written from MQTT 3.1.1) keeps the open
inbound QoS 2 exchanges of a connection as `open2 : List (id, PUBREL seen, first
PUBLISH)`.  Under `toOpen2` the model's list operations are the reference
broker's: same registration rule, same marking, same released prefix.
-/
import Mqtt.Proofs.BrokerQosInv
import Mqtt.Spec.Broker

namespace Mqtt.Proofs.BrokerQos
open Mqtt.Iface.Broker Mqtt.Model.Broker
open Mqtt.Generated (tPUBREL)

/-- the reference broker's view of an inbound QoS 2 queue -/
def toOpen2 (q : List QEntry) : List (Nat × Bool × Pub) :=
  q.map (fun e => (e.id, e.state == tPUBREL, e.msg))

theorem open2_wait (q : List QEntry) (p : Pub) :
    (if (toOpen2 q).any (fun e => e.1 == p.pktid) then toOpen2 q else toOpen2 q ++ [(p.pktid, false, p)]) =
      toOpen2 (q2Wait q p) := by
  unfold toOpen2 q2Wait
  rw [List.any_map]
  have : ((fun (e : Nat × Bool × Pub) => e.1 == p.pktid) ∘ fun (e : QEntry) => (e.id, e.state == tPUBREL, e.msg)) =
      fun e => e.id == p.pktid := rfl
  rw [this]
  split
  · rfl
  · simp [tPUBREL]

theorem open2_mark (q : List QEntry) (id : Nat) :
    (toOpen2 q).map (fun e => if e.1 == id then (e.1, true, e.2.2) else e) = toOpen2 (q2Ack q id) := by
  unfold toOpen2 q2Ack
  rw [List.map_map, List.map_map]
  apply List.map_congr_left
  intro e _
  simp only [Function.comp_apply]
  split <;> simp

theorem open2_release (q : List QEntry) :
    (toOpen2 q).takeWhile (fun e => e.2.1) = toOpen2 (q2Acked q).2 ∧
    (toOpen2 q).dropWhile (fun e => e.2.1) = toOpen2 (q2Acked q).1 := by
  unfold toOpen2 q2Acked
  simp only
  induction q with
  | nil => exact ⟨rfl, rfl⟩
  | cons x xs ih =>
    simp only [List.map_cons, List.takeWhile_cons, List.dropWhile_cons]
    by_cases h : (x.state == tPUBREL) = true
    · simp only [h, ↓reduceIte, List.map_cons, ih.1, ih.2, and_self]
    · simp only [h, Bool.false_eq_true, ↓reduceIte, List.map_nil, List.map_cons, and_self]

/-! ### the reference broker's steps -/

open Mqtt.Spec.Broker in
theorem spec_getConn_setConn (s : S) (cn : Spec.Broker.Conn) :
    getConn (setConn s cn) cn.id = some cn := by
  unfold getConn setConn
  simp only
  rw [List.find?_append]
  have : List.find? (fun x => x.id == cn.id) (s.conns.filter fun (x : Spec.Broker.Conn) => x.id != cn.id) = none := by
    rw [List.find?_eq_none]
    intro x hx
    have := (List.mem_filter.mp hx).2
    simpa using this
  simp [this]

open Mqtt.Spec.Broker in
theorem spec_getConn_id {s : S} {c : Nat} {cn : Spec.Broker.Conn} (h : getConn s c = some cn) : cn.id = c := by
  unfold getConn at h
  have := List.find?_some h
  simpa using this

/-- the reference broker's hand-overs of a list of contents, in order -/
def specReleaseAll (s : Spec.Broker.S) : List Pub → Spec.Broker.S × List Spec.Broker.SOut
  | [] => (s, [])
  | p :: rest =>
    let (s1, o1) := Spec.Broker.accept s p
    let (s2, o2) := specReleaseAll s1 rest
    (s2, o1 ++ o2)

open Mqtt.Spec.Broker in
theorem spec_foldl_release (l : List (Nat × Bool × Pub)) (s : S) (acc : List SOut) :
    l.foldl (fun (a : S × List SOut) e =>
        let (s', o') := accept a.1 e.2.2
        (s', a.2 ++ o')) (s, acc) =
      ((specReleaseAll s (l.map (·.2.2))).1, acc ++ (specReleaseAll s (l.map (·.2.2))).2) := by
  induction l generalizing s acc with
  | nil => simp [specReleaseAll]
  | cons e rest ih =>
    simp only [List.foldl_cons, List.map_cons, specReleaseAll]
    rw [ih]
    simp [List.append_assoc]

open Mqtt.Spec.Broker in
theorem spec_accept_conns (s : S) (p : Pub) : (accept s p).1.conns = s.conns := by
  unfold accept Spec.Broker.retainStep
  simp only
  split
  · rfl
  · split <;> rfl

open Mqtt.Spec.Broker in
theorem specReleaseAll_conns (s : S) (l : List Pub) : (specReleaseAll s l).1.conns = s.conns := by
  induction l generalizing s with
  | nil => rfl
  | cons p rest ih =>
    simp only [specReleaseAll]
    rw [ih, spec_accept_conns]

theorem toOpen2_msgs (q : List QEntry) : (toOpen2 q).map (·.2.2) = q.map (·.msg) := by
  simp [toOpen2, List.map_map, Function.comp_def]

open Mqtt.Spec.Broker in
/-- QoS 2 PUBLISH on the reference broker: `[PUBREC id]`, and its `open2` moves as `q2Wait` -/
theorem spec_publish2 (s : S) (c : Nat) (cn : Spec.Broker.Conn) (q : List QEntry) (p : Pub)
    (hc : getConn s c = some cn) (ho : cn.open2 = toOpen2 q) (hq : p.qos = 2) :
    (step1 s (.packet c (.publish p))).2 = [.send c (.pubrec p.pktid)] ∧
    ∃ cn', getConn (step1 s (.packet c (.publish p))).1 c = some cn' ∧ cn'.open2 = toOpen2 (q2Wait q p) := by
  have hid := spec_getConn_id hc
  simp only [step1, hc, hq]
  refine ⟨rfl, { cn with open2 := toOpen2 (q2Wait q p) }, ?_, rfl⟩
  have h := spec_getConn_setConn s { cn with open2 := toOpen2 (q2Wait q p) }
  rw [← open2_wait, ← ho]
  rw [← open2_wait, ← ho] at h
  simpa [hid] using h

open Mqtt.Spec.Broker in
/-- PUBREL on the reference broker: the contents the model's list releases are
accepted in order, then `PUBCOMP id`; its `open2` moves as `q2Ack`+`q2Acked`. -/
theorem spec_pubrel (s : S) (c : Nat) (cn : Spec.Broker.Conn) (q : List QEntry) (id : Nat)
    (hc : getConn s c = some cn) (ho : cn.open2 = toOpen2 q) :
    (step1 s (.packet c (.pubrel id))).2 =
      (specReleaseAll (setConn s { cn with open2 := toOpen2 (q2Acked (q2Ack q id)).1 })
        ((q2Acked (q2Ack q id)).2.map (·.msg))).2 ++ [.send c (.pubcomp id)] ∧
    ∃ cn', getConn (step1 s (.packet c (.pubrel id))).1 c = some cn' ∧
      cn'.open2 = toOpen2 (q2Acked (q2Ack q id)).1 := by
  have hid := spec_getConn_id hc
  simp only [step1, hc]
  rw [ho, open2_mark, (open2_release _).1, (open2_release _).2, spec_foldl_release, toOpen2_msgs]
  refine ⟨by simp, { cn with open2 := toOpen2 (q2Acked (q2Ack q id)).1 }, ?_, rfl⟩
  simp only
  have h := spec_getConn_setConn s { cn with open2 := toOpen2 (q2Acked (q2Ack q id)).1 }
  unfold getConn at h ⊢
  rw [specReleaseAll_conns]
  simpa [hid] using h

end Mqtt.Proofs.BrokerQos
