/-
Core A (codec): what every `Decode` establishes — no panic, byte count within the
input, `dbuf` = the bytes of the packet, every returned field inside the packet.
-/
import Mqtt.Proofs.CodecBasic

set_option linter.unusedSimpArgs false
set_option linter.unusedVariables false

namespace Mqtt.Proofs.Codec

open Mqtt.Model.Codec Mqtt.Iface.Codec Mqtt.Generated

/-- the byte-slice fields a decoded message exposes, in the order of `Decoded.views` -/
def fieldVals : Msg → List Bytes
  | .connect _ c => [c.clientID, c.willTopic, c.willMessage, c.username, c.password]
  | .publish _ topic payload => [topic, payload]
  | .subscribe _ ts _ => ts
  | .suback _ codes => [codes]
  | .unsubscribe _ ts => ts
  | _ => []

/-- a view describes its field: the field is exactly those bytes of the input, and they lie in the first `n` -/
def ViewOk (src : Bytes) (n : Nat) (v : View) (f : Bytes) : Prop :=
  f = (src.drop v.1).take v.2 ∧ f.length = v.2 ∧ (v.2 = 0 ∨ v.1 + v.2 ≤ n)

/-- the views describe the fields, pairwise -/
inductive ViewsOk (src : Bytes) (n : Nat) : List View → List Bytes → Prop where
  | nil : ViewsOk src n [] []
  | cons {v : View} {f : Bytes} {vs : List View} {fs : List Bytes} :
      ViewOk src n v f → ViewsOk src n vs fs → ViewsOk src n (v :: vs) (f :: fs)

/-- postcondition of a successful `Decode` -/
structure DecOK (src : Bytes) (d : Decoded) : Prop where
  n_le : d.n ≤ src.length
  dbuf : d.msg.hdr.dbuf = src.take d.n
  clean : d.msg.hdr.dirty = false
  views : ViewsOk src d.n d.views (fieldVals d.msg)

/-- an outcome that is an error or a success satisfying `P` -/
def Total {α : Type} (o : Outcome α) (P : α → Prop) : Prop :=
  o = .err ∨ ∃ a, o = .ok a ∧ P a

theorem Total.ne_panic {α : Type} {o : Outcome α} {P : α → Prop} (h : Total o P) : o ≠ .panic := by
  rcases h with h | ⟨a, h, _⟩ <;> rw [h] <;> intro x <;> cases x

theorem Total.of_ok {α : Type} {o : Outcome α} {P : α → Prop} {a : α} (h : Total o P) (ha : o = .ok a) : P a := by
  rcases h with h | ⟨b, h, hb⟩
  · rw [h] at ha; cases ha
  · rw [h] at ha; cases ha; exact hb

theorem decodeBare_total (h : Hdr) (src : Bytes) : Total (decodeBare h src) (DecOK src) := by
  unfold decodeBare
  rcases hdr_decode_spec h src with he | ⟨h', n, hd, hh⟩
  · rw [he]; exact Or.inl rfl
  · rw [hd]; simp only [bind_ok]
    split
    · exact Or.inl rfl
    · rename_i h0
      simp only [Decidable.not_not] at h0
      right
      refine ⟨_, rfl, ?_⟩
      have := hh.fits
      constructor
      · simp only []; omega
      · simp only [Msg.hdr]; rw [hh.dbuf, h0]; rfl
      · rfl
      · exact ViewsOk.nil

theorem decodeAck_total (h : Hdr) (src : Bytes) : Total (decodeAck h src) (DecOK src) := by
  unfold decodeAck
  rw [sliceFrom_ok (Nat.zero_le _)]
  simp only [bind_ok, List.drop_zero]
  rcases hdr_decode_spec h src with he | ⟨h', n, hd, hh⟩
  · rw [he]; exact Or.inl rfl
  · rw [hd]; simp only [bind_ok]
    split
    · exact Or.inl rfl
    · rename_i h2
      simp only [Decidable.not_not] at h2
      have := hh.fits
      rw [slice_ok (by omega) (by omega)]
      simp only [bind_ok]
      right
      refine ⟨_, rfl, ?_⟩
      constructor
      · simp only []; omega
      · simp only [Msg.hdr]; rw [hh.dbuf, h2]
      · rfl
      · exact ViewsOk.nil

theorem index_ok {s : Bytes} {i : Nat} (h : i < s.length) : index s i = .ok s[i] := by
  unfold index; rw [List.getElem?_eq_getElem h]

theorem decodeConnack_total (h : Hdr) (src : Bytes) : Total (decodeConnack h src) (DecOK src) := by
  unfold decodeConnack
  rcases hdr_decode_spec h src with he | ⟨h', n, hd, hh⟩
  · rw [he]; exact Or.inl rfl
  · rw [hd]; simp only [bind_ok]
    split
    · exact Or.inl rfl
    · rename_i h2
      simp only [Decidable.not_not] at h2
      have := hh.fits
      rw [index_ok (by omega)]
      simp only [bind_ok]
      split
      · exact Or.inl rfl
      · rw [index_ok (by omega)]
        simp only [bind_ok]
        split
        · exact Or.inl rfl
        · right
          refine ⟨_, rfl, ?_⟩
          constructor
          · simp only []; omega
          · simp only [Msg.hdr]; rw [hh.dbuf, h2]
          · rfl
          · exact ViewsOk.nil

theorem take_drop_of_take (src : Bytes) (N a k : Nat) (h : a + k ≤ N) :
    ((src.take N).drop a).take k = (src.drop a).take k := by
  rw [List.drop_take, List.take_take]
  congr 1
  omega

theorem drop_drop' (src : Bytes) (a b : Nat) : (src.drop a).drop b = src.drop (a + b) := by
  rw [List.drop_drop]

theorem readLP_spec (buf : Bytes) :
    Total (readLPBytes buf) (fun r => ∃ k, r.2 = 2 + k ∧ r.1.length = k ∧ 2 + k ≤ buf.length ∧ r.1 = (buf.drop 2).take k) := by
  rcases buf with _ | ⟨a, _ | ⟨b, rest⟩⟩
  · exact Or.inl rfl
  · exact Or.inl rfl
  · unfold readLPBytes
    dsimp only
    split
    · exact Or.inl rfl
    · rename_i hlen
      rw [slice_ok (by omega) (by omega)]
      simp only [bind_ok]
      right
      refine ⟨_, rfl, beU16 a b, rfl, ?_, by omega, ?_⟩
      · simp only [List.length_take, List.length_drop]; omega
      · rw [Nat.add_sub_cancel_left]

theorem slice_ok' {s : Bytes} {lo hi : Nat} (h1 : lo ≤ hi) (h2 : hi ≤ s.length) :
    ∃ v, slice s lo hi = .ok v ∧ v.length = hi - lo ∧ v = (s.drop lo).take (hi - lo) := by
  refine ⟨_, slice_ok h1 h2, ?_, rfl⟩
  simp only [List.length_take, List.length_drop]; omega

/-- a field cut out of the confined packet `src[:N]` is described by its view -/
theorem viewOk_of_slice {src : Bytes} {N a k n : Nat} {f : Bytes}
    (hf : f = ((src.take N).drop a).take k) (hl : f.length = k) (hak : a + k ≤ N) (hn : N ≤ n) :
    ViewOk src n (a, f.length) f := by
  refine ⟨?_, rfl, Or.inr (by simp only []; omega)⟩
  simp only []
  rw [hl]
  rw [hf, take_drop_of_take _ _ _ _ hak]

theorem decodePublish_total (h : Hdr) (src : Bytes) : Total (decodePublish h src) (DecOK src) := by
  unfold decodePublish
  rw [sliceFrom_ok (Nat.zero_le _)]
  simp only [bind_ok, List.drop_zero]
  rcases hdr_decode_spec h src with he | ⟨h', hn, hd, hh⟩
  · rw [he]; exact Or.inl rfl
  · rw [hd]; simp only [bind_ok]
    have hfit := hh.fits
    rw [sliceTo_ok hfit]
    simp only [bind_ok]
    have hl : (List.take (hn + h'.remlen) src).length = hn + h'.remlen := by
      rw [List.length_take]; omega
    rw [sliceFrom_ok (by omega)]
    simp only [bind_ok]
    rcases readLP_spec (List.drop hn (List.take (hn + h'.remlen) src)) with he | ⟨lp, hlp, k, hk2, hk1, hkl, hkv⟩
    · rw [he]; exact Or.inl rfl
    · rw [hlp]; simp only [bind_ok]
      rw [List.length_drop, hl] at hkl
      rw [List.drop_drop] at hkv
      have vTopic : ViewOk src (hn + h'.remlen) (hn + 2, lp.1.length) lp.1 :=
        viewOk_of_slice hkv hk1 (by omega) (Nat.le_refl _)
      split
      · exact Or.inl rfl
      · -- the packet identifier part
        by_cases hq : pubQoS h' ≠ 0
        · rw [if_pos hq]
          rw [sliceFrom_ok (by omega)]
          simp only [bind_ok, List.length_drop, hl]
          split
          · exact Or.inl rfl
          · rename_i h2
            obtain ⟨pid, hpid, hpl, hpv⟩ := slice_ok' (s := List.take (hn + h'.remlen) src) (lo := hn + lp.2) (hi := hn + lp.2 + 2) (by omega) (by omega)
            rw [hpid]
            simp only [bind_ok]
            rw [if_neg (by omega)]
            obtain ⟨pl, hpl1, hpl2, hpl3⟩ := slice_ok' (s := List.take (hn + h'.remlen) src) (lo := hn + lp.2 + 2) (hi := hn + lp.2 + 2 + (h'.remlen - (hn + lp.2 + 2 - hn))) (by omega) (by omega)
            rw [hpl1]
            simp only [bind_ok]
            right
            refine ⟨_, rfl, ?_⟩
            have hN : hn + lp.2 + 2 + pl.length = hn + h'.remlen := by omega
            constructor
            · simp only []; omega
            · simp only [Msg.hdr]; rw [hN, hh.dbuf]
            · rfl
            · simp only [fieldVals]
              rw [hN]
              refine ViewsOk.cons vTopic (ViewsOk.cons ?_ ViewsOk.nil)
              exact viewOk_of_slice hpl3 hpl2 (by omega) (Nat.le_refl _)
        · rw [if_neg hq]
          simp only [bind_ok]
          rw [if_neg (by omega)]
          obtain ⟨pl, hpl1, hpl2, hpl3⟩ := slice_ok' (s := List.take (hn + h'.remlen) src) (lo := hn + lp.2) (hi := hn + lp.2 + (h'.remlen - (hn + lp.2 - hn))) (by omega) (by omega)
          rw [hpl1]
          simp only [bind_ok]
          right
          refine ⟨_, rfl, ?_⟩
          have hN : hn + lp.2 + pl.length = hn + h'.remlen := by omega
          constructor
          · simp only []; omega
          · simp only [Msg.hdr]; rw [hN, hh.dbuf]
          · rfl
          · simp only [fieldVals]
            rw [hN]
            refine ViewsOk.cons vTopic (ViewsOk.cons ?_ ViewsOk.nil)
            exact viewOk_of_slice hpl3 hpl2 (by omega) (Nat.le_refl _)

theorem decodeSuback_total (h : Hdr) (src : Bytes) : Total (decodeSuback h src) (DecOK src) := by
  unfold decodeSuback
  rw [sliceFrom_ok (Nat.zero_le _)]
  simp only [bind_ok, List.drop_zero]
  rcases hdr_decode_spec h src with he | ⟨h', hn, hd, hh⟩
  · rw [he]; exact Or.inl rfl
  · rw [hd]; simp only [bind_ok]
    have hfit := hh.fits
    rw [sliceTo_ok hfit]
    simp only [bind_ok]
    have hl : (List.take (hn + h'.remlen) src).length = hn + h'.remlen := by
      rw [List.length_take]; omega
    split
    · exact Or.inl rfl
    · rename_i h2
      obtain ⟨pid, hpid, hpl, hpv⟩ := slice_ok' (s := List.take (hn + h'.remlen) src) (lo := hn) (hi := hn + 2) (by omega) (by omega)
      rw [hpid]
      simp only [bind_ok]
      obtain ⟨cs, hc1, hc2, hc3⟩ := slice_ok' (s := List.take (hn + h'.remlen) src) (lo := hn + 2) (hi := hn + 2 + (h'.remlen - (hn + 2 - hn))) (by omega) (by omega)
      rw [hc1]
      simp only [bind_ok]
      split
      · right
        refine ⟨_, rfl, ?_⟩
        have hN : hn + 2 + cs.length = hn + h'.remlen := by omega
        constructor
        · simp only []; omega
        · simp only [Msg.hdr]; rw [hN, hh.dbuf]
        · rfl
        · simp only [fieldVals]
          rw [hN]
          exact ViewsOk.cons (viewOk_of_slice hc3 hc2 (by omega) (Nat.le_refl _)) ViewsOk.nil
      · exact Or.inl rfl



theorem ViewsOk.snoc {src : Bytes} {n : Nat} {vs : List View} {fs : List Bytes} {v : View} {f : Bytes}
    (h : ViewsOk src n vs fs) (hv : ViewOk src n v f) : ViewsOk src n (vs ++ [v]) (fs ++ [f]) := by
  induction h with
  | nil => exact ViewsOk.cons hv ViewsOk.nil
  | cons h1 _ ih => exact ViewsOk.cons h1 ih

theorem subStep_spec (src : Bytes) (N total : Nat) (hN : N ≤ src.length) (ht : total ≤ N) :
    Total (subStep (src.take N) total) (fun r =>
      total + r.2.2 + 1 ≤ N ∧ 2 ≤ r.2.2 ∧ ViewOk src N (total + 2, r.1.length) r.1) := by
  unfold subStep
  have hl : (List.take N src).length = N := by rw [List.length_take]; omega
  rw [sliceFrom_ok (by omega)]
  simp only [bind_ok]
  rcases readLP_spec (List.drop total (List.take N src)) with he | ⟨lp, hlp, k, hk2, hk1, hkl, hkv⟩
  · rw [he]; exact Or.inl rfl
  · rw [hlp]; simp only [bind_ok]
    rw [List.length_drop, hl] at hkl
    rw [List.drop_drop] at hkv
    rw [sliceFrom_ok (by omega)]
    simp only [bind_ok, List.length_drop, hl]
    split
    · exact Or.inl rfl
    · rw [index_ok (by omega)]
      simp only [bind_ok]
      right
      refine ⟨_, rfl, ?_, ?_, ?_⟩
      · simp only []; omega
      · simp only []; omega
      · exact viewOk_of_slice hkv hk1 (by omega) (Nat.le_refl _)

theorem subLoop_total (src : Bytes) (N : Nat) (hN : N ≤ src.length) :
    ∀ (remlen total : Nat) (ts : List Bytes) (qs : List UInt8) (vs : List View),
      total + remlen = N → ViewsOk src N vs ts → qs.length = ts.length →
      Total (subLoop (src.take N) total remlen ts qs vs) (fun r =>
        r.2.2.2 = N ∧ ViewsOk src N r.2.2.1 r.1 ∧ r.2.1.length = r.1.length) := by
  intro remlen
  induction remlen using Nat.strongRecOn with
  | ind remlen ih =>
    intro total ts qs vs htot hv hq
    rw [subLoop]
    split
    · rename_i h0
      right
      exact ⟨_, rfl, by simp only []; omega, hv, hq⟩
    · rename_i h0
      rcases subStep_spec src N total hN (by omega) with he | ⟨r, hr, h1, h2, h3⟩
      · rw [he]; exact Or.inl rfl
      · rw [hr]
        obtain ⟨t, q, n⟩ := r
        simp only [] at h1 h2 h3 ⊢
        apply ih (remlen - n - 1) (by omega) (total + n + 1) _ _ _ (by omega) (hv.snoc h3)
        simp only [List.length_append, List.length_cons, List.length_nil]; omega


theorem decodeSubscribe_total (h : Hdr) (src : Bytes) : Total (decodeSubscribe h [] [] src) (DecOK src) := by
  unfold decodeSubscribe
  rw [sliceFrom_ok (Nat.zero_le _)]
  simp only [bind_ok, List.drop_zero]
  rcases hdr_decode_spec h src with he | ⟨h', hn, hd, hh⟩
  · rw [he]; exact Or.inl rfl
  · rw [hd]; simp only [bind_ok]
    have hfit := hh.fits
    rw [sliceTo_ok hfit]
    simp only [bind_ok]
    have hl : (List.take (hn + h'.remlen) src).length = hn + h'.remlen := by
      rw [List.length_take]; omega
    split
    · exact Or.inl rfl
    · rename_i h2
      obtain ⟨pid, hpid, hpl, hpv⟩ := slice_ok' (s := List.take (hn + h'.remlen) src) (lo := hn) (hi := hn + 2) (by omega) (by omega)
      rw [hpid]
      simp only [bind_ok]
      rcases subLoop_total src (hn + h'.remlen) hfit (h'.remlen - (hn + 2 - hn)) (hn + 2) [] [] [] (by omega) ViewsOk.nil rfl with he | ⟨r, hr, h1, h2, h3⟩
      · rw [he]; exact Or.inl rfl
      · rw [hr]; simp only [bind_ok]
        split
        · exact Or.inl rfl
        · right
          refine ⟨_, rfl, ?_⟩
          constructor
          · simp only []; omega
          · simp only [Msg.hdr]; rw [h1, hh.dbuf]
          · rfl
          · simp only [fieldVals]; rw [h1]; exact h2

theorem unsubStep_spec (src : Bytes) (N total : Nat) (hN : N ≤ src.length) (ht : total ≤ N) :
    Total (unsubStep (src.take N) total) (fun r =>
      total + (2 + r.2) ≤ N ∧ ViewOk src N (total + 2, r.1.length) r.1) := by
  unfold unsubStep
  have hl : (List.take N src).length = N := by rw [List.length_take]; omega
  rw [sliceFrom_ok (by omega)]
  simp only [bind_ok]
  rcases readLP_spec (List.drop total (List.take N src)) with he | ⟨lp, hlp, k, hk2, hk1, hkl, hkv⟩
  · rw [he]; exact Or.inl rfl
  · rw [hlp]; simp only [bind_ok]
    rw [List.length_drop, hl] at hkl
    rw [List.drop_drop] at hkv
    right
    refine ⟨_, rfl, ?_, ?_⟩
    · simp only []; omega
    · exact viewOk_of_slice hkv hk1 (by omega) (Nat.le_refl _)

theorem unsubLoop_total (src : Bytes) (N : Nat) (hN : N ≤ src.length) :
    ∀ (remlen total : Nat) (ts : List Bytes) (vs : List View),
      total + remlen = N → ViewsOk src N vs ts →
      Total (unsubLoop (src.take N) total remlen ts vs) (fun r =>
        r.2.2 = N ∧ ViewsOk src N r.2.1 r.1) := by
  intro remlen
  induction remlen using Nat.strongRecOn with
  | ind remlen ih =>
    intro total ts vs htot hv
    rw [unsubLoop]
    split
    · rename_i h0
      right
      exact ⟨_, rfl, by simp only []; omega, hv⟩
    · rename_i h0
      rcases unsubStep_spec src N total hN (by omega) with he | ⟨r, hr, h1, h3⟩
      · rw [he]; exact Or.inl rfl
      · rw [hr]
        obtain ⟨t, k⟩ := r
        simp only [] at h1 h3 ⊢
        exact ih (remlen - (2 + k)) (by omega) (total + (2 + k)) _ _ (by omega) (hv.snoc h3)

theorem decodeUnsubscribe_total (h : Hdr) (src : Bytes) : Total (decodeUnsubscribe h [] src) (DecOK src) := by
  unfold decodeUnsubscribe
  rw [sliceFrom_ok (Nat.zero_le _)]
  simp only [bind_ok, List.drop_zero]
  rcases hdr_decode_spec h src with he | ⟨h', hn, hd, hh⟩
  · rw [he]; exact Or.inl rfl
  · rw [hd]; simp only [bind_ok]
    have hfit := hh.fits
    rw [sliceTo_ok hfit]
    simp only [bind_ok]
    have hl : (List.take (hn + h'.remlen) src).length = hn + h'.remlen := by
      rw [List.length_take]; omega
    split
    · exact Or.inl rfl
    · rename_i h2
      obtain ⟨pid, hpid, hpl, hpv⟩ := slice_ok' (s := List.take (hn + h'.remlen) src) (lo := hn) (hi := hn + 2) (by omega) (by omega)
      rw [hpid]
      simp only [bind_ok]
      rcases unsubLoop_total src (hn + h'.remlen) hfit (h'.remlen - (hn + 2 - hn)) (hn + 2) [] [] (by omega) ViewsOk.nil with he | ⟨r, hr, h1, h2⟩
      · rw [he]; exact Or.inl rfl
      · rw [hr]; simp only [bind_ok]
        split
        · exact Or.inl rfl
        · right
          refine ⟨_, rfl, ?_⟩
          constructor
          · simp only []; omega
          · simp only [Msg.hdr]; rw [h1, hh.dbuf]
          · rfl
          · simp only [fieldVals]; rw [h1]; exact h2

theorem readField_spec (src : Bytes) (N hn t : Nat) (hN : N ≤ src.length) (ht : hn + t ≤ N) :
    Total (readField ((src.take N).drop hn) t) (fun r =>
      hn + r.2.2 ≤ N ∧ t + 2 ≤ r.2.2 ∧ r.2.1 = (t + 2, r.1.length) ∧
      ViewOk src N (hn + (t + 2), r.1.length) r.1) := by
  unfold readField
  have hl : ((List.take N src).drop hn).length = N - hn := by rw [List.length_drop, List.length_take]; omega
  rw [sliceFrom_ok (by omega)]
  simp only [bind_ok]
  rcases readLP_spec (List.drop t ((List.take N src).drop hn)) with he | ⟨lp, hlp, k, hk2, hk1, hkl, hkv⟩
  · rw [he]; exact Or.inl rfl
  · rw [hlp]; simp only [bind_ok]
    rw [List.length_drop, hl] at hkl
    rw [List.drop_drop, List.drop_drop] at hkv
    right
    refine ⟨_, rfl, ?_, ?_, rfl, ?_⟩
    · simp only []; omega
    · simp only []; omega
    · have e : hn + (t + 2) = hn + t + 2 := by omega
      rw [e]
      exact viewOk_of_slice hkv hk1 (by omega) (Nat.le_refl _)

theorem viewOk_empty (src : Bytes) (n : Nat) : ViewOk src n (0, 0) [] := by
  refine ⟨?_, rfl, Or.inl rfl⟩
  simp
theorem index_ok' {s : Bytes} {i : Nat} (h : i < s.length) : ∃ b, index s i = .ok b := ⟨_, index_ok h⟩

theorem connectFixed_total (c : ConnectF) (src : Bytes) (N hn : Nat) (hN : N ≤ src.length) (hhn : hn ≤ N) :
    Total (connectFixed c ((src.take N).drop hn)) (fun r =>
      hn + r.2 ≤ N ∧ r.1.willTopic = c.willTopic ∧ r.1.willMessage = c.willMessage ∧
      r.1.username = c.username ∧ r.1.password = c.password) := by
  unfold connectFixed
  have hl : ((List.take N src).drop hn).length = N - hn := by rw [List.length_drop, List.length_take]; omega
  rcases readField_spec src N hn 0 hN (by omega) with he | ⟨f0, hf0, a1, a2, a3, a4⟩
  · rw [he]; exact Or.inl rfl
  rw [hf0]; simp only [bind_ok]
  rw [sliceFrom_ok (by omega)]
  simp only [bind_ok]
  rw [List.length_drop, hl]
  split
  · exact Or.inl rfl
  rename_i hv2
  obtain ⟨ver, hver⟩ := index_ok' (s := (List.take N src).drop hn) (i := f0.2.2) (by omega)
  rw [hver]
  simp only [bind_ok]
  split
  · exact Or.inl rfl
  obtain ⟨cf, hcf⟩ := index_ok' (s := (List.take N src).drop hn) (i := f0.2.2 + 1) (by omega)
  rw [hcf]
  simp only [bind_ok]
  split
  · exact Or.inl rfl
  split
  · exact Or.inl rfl
  split
  · exact Or.inl rfl
  rw [sliceFrom_ok (by omega)]
  simp only [bind_ok]
  rw [List.length_drop, hl]
  split
  · exact Or.inl rfl
  rename_i hka
  obtain ⟨ka, hka1, hka2, hka3⟩ := slice_ok' (s := (List.take N src).drop hn) (lo := f0.2.2 + 1 + 1) (hi := f0.2.2 + 1 + 1 + 2) (by omega) (by omega)
  rw [hka1]; simp only [bind_ok]
  right
  refine ⟨_, rfl, ?_, rfl, rfl, rfl, rfl⟩
  simp only []; omega

theorem connectClientID_total (c : ConnectF) (src : Bytes) (N hn total : Nat) (hN : N ≤ src.length) (ht : hn + total ≤ N) :
    Total (connectClientID c ((src.take N).drop hn) total hn) (fun r =>
      hn + r.2.2 ≤ N ∧ total ≤ r.2.2 ∧ ViewOk src N r.2.1 r.1.clientID ∧ r.1.willTopic = c.willTopic ∧ r.1.willMessage = c.willMessage ∧
      r.1.username = c.username ∧ r.1.password = c.password) := by
  unfold connectClientID
  rcases readField_spec src N hn total hN ht with he | ⟨f, hf, a1, a2, a3, a4⟩
  · rw [he]; exact Or.inl rfl
  rw [hf]; simp only [bind_ok]
  split
  · exact Or.inl rfl
  split
  · exact Or.inl rfl
  right
  refine ⟨_, rfl, ?_, ?_, ?_, rfl, rfl, rfl, rfl⟩
  · simp only []; omega
  · simp only []; omega
  · simp only []; rw [a3]; exact a4

theorem connectWill_total (c : ConnectF) (src : Bytes) (N hn total : Nat) (hN : N ≤ src.length) (ht : hn + total ≤ N)
    (hc : c.willTopic = [] ∧ c.willMessage = []) :
    Total (connectWill c ((src.take N).drop hn) total hn) (fun r =>
      hn + r.2.2.2 ≤ N ∧ total ≤ r.2.2.2 ∧ ViewOk src N r.2.1 r.1.willTopic ∧ ViewOk src N r.2.2.1 r.1.willMessage ∧
      r.1.clientID = c.clientID ∧ r.1.username = c.username ∧ r.1.password = c.password) := by
  unfold connectWill
  split
  · rcases readField_spec src N hn total hN ht with he | ⟨f, hf, a1, a2, a3, a4⟩
    · rw [he]; exact Or.inl rfl
    rw [hf]; simp only [bind_ok]
    rcases readField_spec src N hn f.2.2 hN a1 with he | ⟨g, hg, b1, b2, b3, b4⟩
    · rw [he]; exact Or.inl rfl
    rw [hg]; simp only [bind_ok]
    right
    refine ⟨_, rfl, ?_, ?_, ?_, ?_, rfl, rfl, rfl⟩
    · simp only []; omega
    · simp only []; omega
    · simp only []; rw [a3]; exact a4
    · simp only []; rw [b3]; exact b4
  · right
    refine ⟨_, rfl, ?_, ?_, ?_, ?_, rfl, rfl, rfl⟩
    · simp only []; omega
    · simp only []; omega
    · simp only []; rw [hc.1]; exact viewOk_empty _ _
    · simp only []; rw [hc.2]; exact viewOk_empty _ _

theorem connectUser_total (c : ConnectF) (src : Bytes) (N hn total : Nat) (hN : N ≤ src.length) (ht : hn + total ≤ N)
    (hc : c.username = []) :
    Total (connectUser c ((src.take N).drop hn) total hn) (fun r =>
      hn + r.2.2 ≤ N ∧ total ≤ r.2.2 ∧ ViewOk src N r.2.1 r.1.username ∧
      r.1.clientID = c.clientID ∧ r.1.willTopic = c.willTopic ∧ r.1.willMessage = c.willMessage ∧ r.1.password = c.password) := by
  unfold connectUser
  have hl : ((List.take N src).drop hn).length = N - hn := by rw [List.length_drop, List.length_take]; omega
  rw [sliceFrom_ok (by omega)]
  simp only [bind_ok]
  split
  · rcases readField_spec src N hn total hN ht with he | ⟨f, hf, a1, a2, a3, a4⟩
    · rw [he]; exact Or.inl rfl
    rw [hf]; simp only [bind_ok]
    right
    refine ⟨_, rfl, ?_, ?_, ?_, rfl, rfl, rfl, rfl⟩
    · simp only []; omega
    · simp only []; omega
    · simp only []; rw [a3]; exact a4
  · right
    refine ⟨_, rfl, ?_, ?_, ?_, rfl, rfl, rfl, rfl⟩
    · simp only []; omega
    · simp only []; omega
    · simp only []; rw [hc]; exact viewOk_empty _ _

theorem connectPass_total (c : ConnectF) (src : Bytes) (N hn total : Nat) (hN : N ≤ src.length) (ht : hn + total ≤ N)
    (hc : c.password = []) :
    Total (connectPass c ((src.take N).drop hn) total hn) (fun r =>
      hn + r.2.2 ≤ N ∧ total ≤ r.2.2 ∧ ViewOk src N r.2.1 r.1.password ∧
      r.1.clientID = c.clientID ∧ r.1.willTopic = c.willTopic ∧ r.1.willMessage = c.willMessage ∧ r.1.username = c.username) := by
  unfold connectPass
  have hl : ((List.take N src).drop hn).length = N - hn := by rw [List.length_drop, List.length_take]; omega
  rw [sliceFrom_ok (by omega)]
  simp only [bind_ok]
  split
  · rcases readField_spec src N hn total hN ht with he | ⟨f, hf, a1, a2, a3, a4⟩
    · rw [he]; exact Or.inl rfl
    rw [hf]; simp only [bind_ok]
    right
    refine ⟨_, rfl, ?_, ?_, ?_, rfl, rfl, rfl, rfl⟩
    · simp only []; omega
    · simp only []; omega
    · simp only []; rw [a3]; exact a4
  · right
    refine ⟨_, rfl, ?_, ?_, ?_, rfl, rfl, rfl, rfl⟩
    · simp only []; omega
    · simp only []; omega
    · simp only []; rw [hc]; exact viewOk_empty _ _


theorem decodeConnectMessage_total (c : ConnectF) (src : Bytes) (N hn : Nat) (hN : N ≤ src.length) (hhn : hn ≤ N)
    (hc : c.willTopic = [] ∧ c.willMessage = [] ∧ c.username = [] ∧ c.password = []) :
    Total (decodeConnectMessage c ((src.take N).drop hn) hn) (fun r =>
      hn + r.2.1 ≤ N ∧
      ViewsOk src N r.2.2 [r.1.clientID, r.1.willTopic, r.1.willMessage, r.1.username, r.1.password]) := by
  unfold decodeConnectMessage
  rcases connectFixed_total c src N hn hN hhn with he | ⟨r1, h1, a1, a2, a3, a4, a5⟩
  · rw [he]; exact Or.inl rfl
  rw [h1]; simp only [bind_ok]
  rcases connectClientID_total r1.1 src N hn r1.2 hN a1 with he | ⟨r2, h2, b1, b2, b3, b4, b5, b6, b7⟩
  · rw [he]; exact Or.inl rfl
  rw [h2]; simp only [bind_ok]
  rcases connectWill_total r2.1 src N hn r2.2.2 hN b1 ⟨by rw [b4, a2, hc.1], by rw [b5, a3, hc.2.1]⟩ with he | ⟨r3, h3, c1, c2, c3, c4, c5, c6, c7⟩
  · rw [he]; exact Or.inl rfl
  rw [h3]; simp only [bind_ok]
  rcases connectUser_total r3.1 src N hn r3.2.2.2 hN c1 (by rw [c6, b6, a4, hc.2.2.1]) with he | ⟨r4, h4, d1, d2, d3, d4, d5, d6, d7⟩
  · rw [he]; exact Or.inl rfl
  rw [h4]; simp only [bind_ok]
  rcases connectPass_total r4.1 src N hn r4.2.2 hN d1 (by rw [d7, c7, b7, a5, hc.2.2.2]) with he | ⟨r5, h5, e1, e2, e3, e4, e5, e6, e7⟩
  · rw [he]; exact Or.inl rfl
  rw [h5]; simp only [bind_ok]
  right
  refine ⟨_, rfl, e1, ?_⟩
  simp only []
  refine ViewsOk.cons ?_ (ViewsOk.cons ?_ (ViewsOk.cons ?_ (ViewsOk.cons ?_ (ViewsOk.cons e3 ViewsOk.nil))))
  · rw [e4, d4, c5]; exact b3
  · rw [e5, d5]; exact c3
  · rw [e6, d6]; exact c4
  · rw [e7]; exact d3

theorem decodeConnect_total (h : Hdr) (src : Bytes) : Total (decodeConnect h {} src) (DecOK src) := by
  unfold decodeConnect
  rw [sliceFrom_ok (Nat.zero_le _)]
  simp only [bind_ok, List.drop_zero]
  rcases hdr_decode_spec h src with he | ⟨h', hn, hd, hh⟩
  · rw [he]; exact Or.inl rfl
  · rw [hd]; simp only [bind_ok]
    have hfit := hh.fits
    rw [sliceTo_ok hfit]
    simp only [bind_ok]
    have hl : (List.take (hn + h'.remlen) src).length = hn + h'.remlen := by
      rw [List.length_take]; omega
    rw [sliceFrom_ok (by omega)]
    simp only [bind_ok]
    rcases decodeConnectMessage_total {} src (hn + h'.remlen) hn hfit (by omega) ⟨rfl, rfl, rfl, rfl⟩ with he | ⟨r, hr, h1, h2⟩
    · rw [he]; exact Or.inl rfl
    · rw [hr]; simp only [bind_ok]
      rw [hl]
      split
      · exact Or.inl rfl
      · rename_i hall
        simp only [Decidable.not_not] at hall
        right
        refine ⟨_, rfl, ?_⟩
        constructor
        · simp only []; omega
        · simp only [Msg.hdr]; rw [hall, hh.dbuf]
        · rfl
        · simp only [fieldVals]; rw [hall]; exact h2

/-- every decoder, started on a fresh message: error or success with `DecOK`; never a panic -/
theorem decodeNew_total (t : Nat) (src : Bytes) : Total (decodeNew t src) (DecOK src) := by
  unfold decodeNew
  cases hm : Msg.new t with
  | none => exact Or.inl rfl
  | some m =>
    simp only []
    unfold Msg.new at hm
    repeat' split at hm
    all_goals first
      | (cases hm; unfold decode; first
          | exact decodeConnect_total _ _
          | exact decodeConnack_total _ _
          | exact decodePublish_total _ _
          | exact decodeAck_total _ _
          | exact decodeSubscribe_total _ _
          | exact decodeSuback_total _ _
          | exact decodeUnsubscribe_total _ _
          | exact decodeBare_total _ _)
      | cases hm


end Mqtt.Proofs.Codec
