/-
Refinement step for a handshake whose answer cannot be written (`connectFail`:
the peer has gone after sending its first packet): the take-over has happened,
`getSession` has run - the stored session object was updated, or a new one was
created and filed -, no connection exists.  The reference broker keeps a
persistent session exactly as it was (`Spec.Broker.connectFail`).

`connectFail_refines` is the one-event statement; `EvX`/`stepX`/`runX` extend the
histories of Proofs/BrokerRefine.lean by such events and `BrokerX_refines_spec`
is the refinement theorem for them.
-/
import Mqtt.Proofs.BrokerRefine

set_option linter.unusedSimpArgs false

namespace Mqtt.Proofs.BrokerRefine
open Mqtt.Iface.Broker Mqtt.Model.Broker
open Mqtt.Model.Topics (MemTopics RMsg RNode)
open Mqtt.Proofs.Topics (WF RWF abs absR good entryLevels)
open Mqtt.Spec.Match (split validName validFilter topicMatches)
open Mqtt.Proofs.Broker (HeldInv RetInv heldEntry)
open Mqtt.Proofs.BrokerQos (toOpen2)
open Mqtt.Proofs.BrokerLife (effCid effClean resumed updSess newSess)
open Mqtt.Spec.Broker (Accepts SOut)

/-! ### the model's `firstFail` in closed form -/

/-- the state after `getSession` of an accepted CONNECT (no connection registered) -/
def failed (b : B) (c : Nat) (req : Connect) : B :=
  match resumed b c req with
  | some s => b.setSess (updSess s req)
  | none =>
    (({ b with nextRef := b.nextRef + 1 } : B).setSess (newSess b c req)).storeSet (effCid c req) b.nextRef

theorem firstFail_accepted (b : B) (c : Nat) (req : Connect) (a : Bool)
    (h : Mqtt.Proofs.BrokerLife.accepts (.connect req) a = true) :
    firstFail b c (.connect req) a = (failed b c req, [.closed c]) := by
  simp only [Mqtt.Proofs.BrokerLife.accepts, Bool.and_eq_true, Bool.not_eq_true'] at h
  obtain ⟨⟨⟨h1, h2⟩, h3⟩, h4⟩ := h
  simp only [firstFail]
  rw [Mqtt.Proofs.BrokerLife.connectDecode_eq]
  simp only [h1, h2, h3, h4, Bool.not_true, Bool.false_eq_true, ↓reduceIte]
  unfold failed resumed updSess newSess effClean effCid
  by_cases he : req.clientId.isEmpty = true
  · simp only [he, ↓reduceIte]
  · simp only [he, Bool.false_eq_true, ↓reduceIte]
    split <;> rename_i hr <;> simp only [hr]

theorem firstFail_refused (b : B) (c : Nat) (f : First) (a : Bool)
    (h : Mqtt.Proofs.BrokerLife.accepts f a = false) : firstFail b c f a = (b, [.closed c]) := by
  cases f with
  | garbage => rfl
  | other t => rfl
  | connect req =>
    simp only [firstFail]
    rw [Mqtt.Proofs.BrokerLife.connectDecode_eq]
    by_cases h1 : Mqtt.Proofs.BrokerLife.levelOk req = true
    · by_cases h2 : Mqtt.Proofs.BrokerLife.flagsBad req = true
      · simp [h1, h2]
      · by_cases h3 : Mqtt.Proofs.BrokerLife.idBad req = true
        · simp [h1, h2, h3]
        · cases a
          · simp [h1, h2, h3]
          · simp [Mqtt.Proofs.BrokerLife.accepts, h1, h2, h3] at h
    · simp [h1]

theorem connectFail_eq (b : B) (c : Nat) (f : First) (a : Bool) :
    connectFail b c f a =
      ((firstFail (takeOver b f a).1 c f a).1, (takeOver b f a).2 ++ (firstFail (takeOver b f a).1 c f a).2) := rfl

theorem failed_topics (b : B) (c : Nat) (req : Connect) : (failed b c req).topics = b.topics := by
  unfold failed; split <;> rfl

theorem failed_conns (b : B) (c : Nat) (req : Connect) : (failed b c req).conns = b.conns := by
  unfold failed; split <;> rfl

/-! ### the three invariants of the model after `getSession` -/

theorem Inv_failed {b : B} (h : Mqtt.Proofs.Broker.Inv b) (c : Nat) (req : Connect) :
    Mqtt.Proofs.Broker.Inv (failed b c req) := by
  unfold failed
  split
  · exact Mqtt.Proofs.Broker.Inv_setSess _ _ h
  · exact Mqtt.Proofs.Broker.Inv_storeSet _ _ _
      (Mqtt.Proofs.Broker.Inv_setSess _ _ (Mqtt.Proofs.Broker.Inv_nextRef b _ h))

theorem linv_failed {b : B} (h : Mqtt.Proofs.BrokerLife.Inv b) (c : Nat) (req : Connect) :
    Mqtt.Proofs.BrokerLife.Inv (failed b c req) := by
  unfold failed
  cases hres : resumed b c req with
  | some s =>
    obtain ⟨_, _, hs, _⟩ := Mqtt.Proofs.BrokerLife.resumed_some hres
    exact Mqtt.Proofs.BrokerLife.inv_setSess h hs rfl rfl
      (fun hf => by
        have h1 : (updSess s req).willFlag = req.will.isSome := rfl
        have h2 : (updSess s req).will = initWill req := rfl
        rw [h2, Mqtt.Proofs.BrokerLife.initWill_isSome, ← h1]; exact hf)
  | none =>
    dsimp only
    have hn : b.getSess b.nextRef = none := h.fresh _ (Nat.le_refl _)
    have hg : ∀ r, r ≠ b.nextRef →
        (B.setSess { b with nextRef := b.nextRef + 1 } (newSess b c req)).getSess r = b.getSess r :=
      fun r hr => Mqtt.Proofs.BrokerLife.getSess_setSess_ne { b with nextRef := b.nextRef + 1 } (newSess b c req) r hr
    have hg' : (B.setSess { b with nextRef := b.nextRef + 1 } (newSess b c req)).getSess b.nextRef =
        some (newSess b c req) :=
      Mqtt.Proofs.BrokerLife.getSess_setSess { b with nextRef := b.nextRef + 1 } (newSess b c req)
    refine h.transfer ?_ ?_ ?_ ?_ ?_
    · intro r s hs
      have hr : r ≠ b.nextRef := fun he => by rw [he, hn] at hs; cases hs
      exact ⟨s, (hg r hr).trans hs, rfl⟩
    · intro r hr
      have hr' : b.nextRef + 1 ≤ r := hr
      have : r ≠ b.nextRef := by omega
      exact (hg r this).trans (h.fresh r (by omega))
    · intro cn hcn
      exact .inl ⟨cn, hcn, rfl⟩
    · intro p hp
      have hp' : p ∈ (effCid c req, b.nextRef) :: b.store.filter (fun p => p.1 != effCid c req) := hp
      simp only [List.mem_cons, List.mem_filter] at hp'
      rcases hp' with rfl | ⟨h0, _⟩
      · exact .inr ⟨_, hg', rfl⟩
      · exact .inl h0
    · intro r t ht
      have ht' : (B.setSess { b with nextRef := b.nextRef + 1 } (newSess b c req)).getSess r = some t := ht
      by_cases he : r = b.nextRef
      · subst he
        rw [hg'] at ht'; cases ht'
        intro hf
        have h1 : (newSess b c req).willFlag = req.will.isSome := rfl
        have h2 : (newSess b c req).will = initWill req := rfl
        rw [h2, Mqtt.Proofs.BrokerLife.initWill_isSome, ← h1]; exact hf
      · rw [hg r he] at ht'; exact h.wills r t ht'

theorem qinv_failed {b : B} (h : Mqtt.Proofs.BrokerQos.BInv b) (c : Nat) (req : Connect) :
    Mqtt.Proofs.BrokerQos.BInv (failed b c req) := by
  unfold failed
  cases hres : resumed b c req with
  | some s =>
    obtain ⟨_, _, hs, _⟩ := Mqtt.Proofs.BrokerLife.resumed_some hres
    have hg' : b.getSess (updSess s req).ref = some s := hs
    exact h.same (Mqtt.Proofs.BrokerQos.same_setSess hg' rfl)
  | none =>
    dsimp only
    have hnr : (newSess b c req).ref = b.nextRef := rfl
    have hfresh : (newSess b c req).ref ∉ Mqtt.Proofs.BrokerQos.refs ({ b with nextRef := b.nextRef + 1 } : B) := by
      intro hm
      have := h.refsLt (newSess b c req).ref hm
      omega
    have hrefs : Mqtt.Proofs.BrokerQos.refs
        ((({ b with nextRef := b.nextRef + 1 } : B).setSess (newSess b c req)).storeSet (effCid c req) b.nextRef) =
        Mqtt.Proofs.BrokerQos.refs b ++ [b.nextRef] := by
      have := Mqtt.Proofs.BrokerQos.refs_setSess_new _ (newSess b c req) hfresh
      rw [hnr] at this
      exact this
    refine ⟨?_, ?_, ?_, ?_⟩
    · intro r hr'
      rw [hrefs] at hr'
      show r < b.nextRef + 1
      rcases List.mem_append.mp hr' with h1 | h1
      · have := h.refsLt r h1; omega
      · simp only [List.mem_singleton] at h1; omega
    · rw [hrefs, List.nodup_append]
      refine ⟨h.refsNodup, by simp, ?_⟩
      intro x hx y hy e
      simp only [List.mem_singleton] at hy
      have := h.refsLt x hx
      omega
    · intro cn hcn
      rw [hrefs]
      exact List.mem_append_left _ (h.connSess cn hcn)
    · intro r
      rw [Mqtt.Proofs.BrokerQos.pub2inOf_new h (newSess b c req) _ hnr rfl r]
      exact h.queues r

/-! ### the reference broker's `firstFail` in closed form -/

/-- the stored sessions after a failed handshake of an acceptable CONNECT -/
def failStored (s : Spec.Broker.S) (c : Nat) (req : Connect) :
    List (Bytes × List (Bytes × Nat) × List (Nat × Bool × Pub)) :=
  if specClean req then s.stored.filter (fun p => p.1 != specCid c req)
  else (specCid c req, (s.stored.lookup (specCid c req)).getD ([], [])) ::
    s.stored.filter (fun p => p.1 != specCid c req)

theorem spec_firstFail_accepted (s : Spec.Broker.S) (c : Nat) (req : Connect) (a : Bool)
    (h : Spec.Broker.refusals req a = []) :
    Spec.Broker.firstFail s c (.connect req) a =
      ({ s with stored := failStored s c req }, [.closed c]) := by
  unfold failStored specClean specCid anonSpec
  cases hcl : (req.clean || req.clientId.isEmpty) with
  | true =>
    simp only [Spec.Broker.firstFail, h, List.isEmpty_nil, Bool.not_true, Bool.false_eq_true, ↓reduceIte, hcl]
  | false =>
    simp only [Spec.Broker.firstFail, h, List.isEmpty_nil, Bool.not_true, Bool.false_eq_true, ↓reduceIte, hcl]

theorem spec_firstFail_refused (s : Spec.Broker.S) (c : Nat) (f : First) (a : Bool)
    (hacc : Mqtt.Proofs.BrokerLife.accepts f a = false) : Spec.Broker.firstFail s c f a = (s, [.closed c]) := by
  cases f with
  | garbage => rfl
  | other t => rfl
  | connect req =>
    have hne : Spec.Broker.refusals req a ≠ [] := by
      intro h0
      rw [(Mqtt.Proofs.BrokerLife.refusals_nil_iff req a).mp h0] at hacc; cases hacc
    unfold Spec.Broker.firstFail
    cases hr : Spec.Broker.refusals req a with
    | nil => exact absurd hr hne
    | cons _ _ => simp [hr]

theorem spec_connectFail_eq (s : Spec.Broker.S) (c : Nat) (f : First) (a : Bool) :
    Spec.Broker.connectFail s c f a =
      ((Spec.Broker.firstFail (Spec.Broker.takeOver s f a).1 c f a).1,
       (Spec.Broker.takeOver s f a).2 ++ (Spec.Broker.firstFail (Spec.Broker.takeOver s f a).1 c f a).2) := rfl

theorem failStored_lookup_ne (s : Spec.Broker.S) (c : Nat) (req : Connect) (x : Bytes) (hxs : x ≠ specCid c req) :
    (failStored s c req).lookup x = s.stored.lookup x := by
  unfold failStored
  split
  · exact lookup_filter_ne' _ _ _ hxs
  · have : (x == specCid c req) = false := by simpa using hxs
    simp only [List.lookup_cons, this]
    exact lookup_filter_ne' _ _ _ hxs

theorem failStored_lookup_clean (s : Spec.Broker.S) (c : Nat) (req : Connect) (h : specClean req = true) :
    (failStored s c req).lookup (specCid c req) = none := by
  unfold failStored
  rw [if_pos h]
  exact lookup_filter_self' _ _

theorem failStored_lookup_keep (s : Spec.Broker.S) (c : Nat) (req : Connect) (h : specClean req = false) :
    (failStored s c req).lookup (specCid c req) = some ((s.stored.lookup (specCid c req)).getD ([], [])) := by
  unfold failStored
  simp only [h, Bool.false_eq_true, ↓reduceIte, List.lookup_cons, BEq.rfl]

/-- a suppliable identifier other than the one in force is not the reference broker's either -/
theorem ne_specCid {c : Nat} {req : Connect} {x : Bytes} (hx : realCid x = true) (hxne : x ≠ effCid c req) :
    x ≠ specCid c req := by
  unfold specCid
  cases hemp : req.clientId.isEmpty with
  | true =>
    simp only [↓reduceIte]
    intro e; rw [e, anonSpec_not_real] at hx; cases hx
  | false =>
    simp only [Bool.false_eq_true, ↓reduceIte]
    have : effCid c req = req.clientId := by unfold effCid; simp [hemp]
    rw [← this]; exact hxne

/-! ### transfer of `R` when only session objects and the store change -/

theorem liveSess_sessOnly {b b' : B} (hc : b'.conns = b.conns)
    (hsame : ∀ c' cn', b.getConn c' = some cn' → cn'.alive = true → b'.getSess cn'.sess = b.getSess cn'.sess)
    (c' : Nat) : liveSess b' c' = liveSess b c' := by
  have hgc : b'.getConn c' = b.getConn c' := by unfold B.getConn; rw [hc]
  unfold liveSess
  rw [hgc]
  cases hcn : b.getConn c' with
  | none => rfl
  | some cn' =>
    simp only
    cases ha : cn'.alive with
    | false => rfl
    | true =>
      simp only [↓reduceIte]
      exact hsame c' cn' hcn ha

/-- no connection appears or ends, no subscription changes; the store and the stored sessions
change at one client identifier `X`, which no live connection uses -/
theorem R_fail {b b' : B} {s s' : Spec.Broker.S} (h : R b s) (X : Bytes)
    (inv' : Mqtt.Proofs.Broker.Inv b') (linv' : Mqtt.Proofs.BrokerLife.Inv b') (qinv' : Mqtt.Proofs.BrokerQos.BInv b')
    (htop : b'.topics = b.topics) (hc : b'.conns = b.conns)
    (hls : ∀ c', liveSess b' c' = liveSess b c')
    (hheld : s'.held = s.held) (hrets : s'.rets = s.rets) (hconns : s'.conns = s.conns)
    (hcidfree : ∀ c' τ, liveSess b c' = some τ → τ.cid ≠ X)
    (hstoreget : ∀ x, x ≠ X → b'.storeGet x = b.storeGet x)
    (hresum : ∀ x, realCid x = true → x ≠ X → resumable b' x = resumable b x)
    (hlookup : ∀ x, realCid x = true → x ≠ X → s'.stored.lookup x = s.stored.lookup x)
    (hX : realCid X = true → StoredRel b' s' X) : R b' s' := by
  have hal : ∀ c, b'.alive c = b.alive c := Mqtt.Proofs.Broker.alive_congr b b' hc
  refine ⟨inv', linv', qinv', by rw [htop, hheld]; exact h.held,
    by rw [hheld]; exact h.heldGood, ?_, by rw [htop, hrets]; exact h.rets, by rw [hrets]; exact h.retsOk,
    by rw [htop]; exact h.retIds, ?_, by rw [hc]; exact h.mconns, by rw [hconns]; exact h.sconns, ?_, ?_, ?_, ?_⟩
  · intro x hx hlt; rw [hal]; rw [hheld] at hx; exact h.owners x hx hlt
  · intro c hc'; rw [hal] at hc'; exact h.connLt c hc'
  · intro c; rw [hal, spec_getConn_congr hconns]; exact h.connsIff c
  · intro c σ hl
    rw [hls] at hl
    obtain ⟨k, hk, r0⟩ := h.live c σ hl
    refine ⟨k, by rw [spec_getConn_congr hconns]; exact hk, r0.cid, r0.clean, r0.willFlag, r0.will, r0.willOk,
      r0.open2, r0.q2ok, ?_, ?_⟩
    · rw [heldOf_congr hheld c]; exact r0.topics
    · rw [hstoreget _ (hcidfree c σ hl)]; exact r0.store
  · intro c c' σ σ' h1 h2
    rw [hls] at h1 h2
    exact h.cidUniq c c' σ σ' h1 h2
  · intro x hx hfree
    have hfree0 : ∀ c σ, liveSess b c = some σ → σ.cid ≠ x :=
      fun c σ hl => hfree c σ (by rw [hls]; exact hl)
    by_cases hxe : x = X
    · subst hxe; exact hX hx
    · exact (h.stored x hx hfree0).congr (hresum x hx hxe) (hlookup x hx hxe)

/-! ### the first packet, answer lost -/

/-- a first packet that is not an acceptable CONNECT: nothing happens but the close -/
theorem firstFail_refused_refines {b : B} {s : Spec.Broker.S} (h : R b s) (c : Nat) (f : First) (a : Bool)
    (hacc : Mqtt.Proofs.BrokerLife.accepts f a = false) :
    R (firstFail b c f a).1 (Spec.Broker.firstFail s c f a).1 ∧
    Accepts (Spec.Broker.firstFail s c f a).2 (firstFail b c f a).2 := by
  rw [firstFail_refused b c f a hacc, spec_firstFail_refused s c f a hacc]
  exact ⟨h, accepts_lits (.cons (.closed c) .nil)⟩

/-- an accepted CONNECT whose CONNACK cannot be written, in a state in which no live
connection uses its client identifier (after `takeOver`): the states stay related - a
persistent session is kept as it was on both sides - and both sides only close -/
theorem firstFail_accepted_refines {b : B} {s : Spec.Broker.S} (h : R b s) (c : Nat) (req : Connect) (a : Bool)
    (hacc : Mqtt.Proofs.BrokerLife.accepts (.connect req) a = true)
    (hcf : ∀ c' τ, liveSess b c' = some τ → τ.cid ≠ effCid c req) :
    R (firstFail b c (.connect req) a).1 (Spec.Broker.firstFail s c (.connect req) a).1 ∧
    (firstFail b c (.connect req) a).2 = [.closed c] ∧
    (Spec.Broker.firstFail s c (.connect req) a).2 = [.closed c] := by
  have href : Spec.Broker.refusals req a = [] := (Mqtt.Proofs.BrokerLife.refusals_nil_iff req a).mpr hacc
  have hreal : req.clientId.isEmpty = false → realCid req.clientId = true := realCid_of_accepts hacc
  rw [firstFail_accepted b c req a hacc, spec_firstFail_accepted s c req a href]
  refine ⟨?_, rfl, rfl⟩
  have i1 := Inv_failed h.inv c req
  have i2 := linv_failed h.linv c req
  have i3 := qinv_failed h.qinv c req
  have hcleq : specClean req = effClean req := by
    unfold specClean effClean
    cases req.clientId.isEmpty <;> simp
  show R (failed b c req) { s with stored := failStored s c req }
  cases hres : resumed b c req with
  | some σ =>
    -- the stored CleanSession=0 session object is updated
    obtain ⟨hcl, hst, hσ, hσcl⟩ := Mqtt.Proofs.BrokerLife.resumed_some hres
    have hemp : req.clientId.isEmpty = false := by
      unfold effClean at hcl
      cases he : req.clientId.isEmpty with
      | true => simp [he] at hcl
      | false => rfl
    have hX : effCid c req = req.clientId := by unfold effCid; simp [hemp]
    have hXs : specCid c req = req.clientId := by unfold specCid; simp [hemp]
    have hcls : specClean req = false := by rw [hcleq]; exact hcl
    have hσcid : σ.cid = req.clientId := by rw [← hX]; exact Mqtt.Proofs.BrokerLife.resumed_cid h.linv hres
    have hfail : failed b c req = b.setSess (updSess σ req) := by unfold failed; rw [hres]
    rw [hfail] at i1 i2 i3 ⊢
    rw [hX] at hst hcf
    have hXreal := hreal hemp
    have hresum : resumable b req.clientId = some σ := by
      unfold resumable; rw [hst]; simp [hσ, Option.filter, hσcl]
    obtain ⟨subs, o2, hlk, htr, ho2, hq2⟩ := (h.stored req.clientId hXreal hcf).some σ hresum
    have hσ'ref : (updSess σ req).ref = σ.ref := rfl
    refine R_fail h req.clientId i1 i2 i3 rfl rfl ?_ rfl rfl rfl hcf (fun x _ => rfl) ?_ ?_ ?_
    · refine liveSess_sessOnly rfl ?_
      intro c' cn' hcn' ha'
      apply Mqtt.Proofs.BrokerLife.getSess_setSess_ne
      intro hr
      have hl' : liveSess b c' = some σ := liveSess_eq hcn' ha' (by rw [hr]; exact hσ)
      exact hcf c' σ hl' hσcid
    · intro x _ hxne
      unfold resumable
      show ((b.storeGet x).bind (b.setSess (updSess σ req)).getSess).filter _ = _
      cases hg : b.storeGet x with
      | none => rfl
      | some r =>
        simp only [Option.bind_some]
        rw [Mqtt.Proofs.BrokerLife.getSess_setSess_ne b (updSess σ req) r]
        intro hr
        obtain ⟨t, ht, htc⟩ := h.linv.store (x, r) (Mqtt.Proofs.BrokerLife.mem_of_lookup (by exact hg))
        simp only at ht htc
        rw [hr, hσ'ref, hσ] at ht
        cases ht
        exact hxne (by rw [← htc, hσcid])
    · intro x hx hxne
      exact failStored_lookup_ne s c req x (by rw [hXs]; exact hxne)
    · intro _
      have hres' : resumable (b.setSess (updSess σ req)) req.clientId = some (updSess σ req) := by
        unfold resumable
        show ((b.storeGet req.clientId).bind (b.setSess (updSess σ req)).getSess).filter _ = _
        rw [hst]
        simp only [Option.bind_some]
        rw [← hσ'ref, Mqtt.Proofs.BrokerLife.getSess_setSess b (updSess σ req)]
        have : (updSess σ req).clean = false := hcl
        simp [Option.filter, this]
      have hlk' : (failStored s c req).lookup req.clientId = some (subs, o2) := by
        have := failStored_lookup_keep s c req hcls
        rw [hXs, hlk] at this
        exact this
      refine ⟨?_, ?_⟩
      · intro σ' hσ'
        rw [hres'] at hσ'
        cases hσ'
        exact ⟨subs, o2, hlk', htr, ho2, hq2⟩
      · intro hn
        rw [hres'] at hn; cases hn
  | none =>
    -- a new session object is created and filed
    have hfail : failed b c req =
        (({ b with nextRef := b.nextRef + 1 } : B).setSess (newSess b c req)).storeSet (effCid c req) b.nextRef := by
      unfold failed; rw [hres]
    rw [hfail] at i1 i2 i3 ⊢
    have hb1 : ((({ b with nextRef := b.nextRef + 1 } : B).setSess (newSess b c req)).storeSet (effCid c req)
        b.nextRef).getSess b.nextRef = some (newSess b c req) :=
      Mqtt.Proofs.BrokerLife.getSess_setSess ({ b with nextRef := b.nextRef + 1 } : B) (newSess b c req)
    have hfreshref : ∀ r τ, b.getSess r = some τ → r ≠ b.nextRef := by
      intro r τ hr he
      rw [he, h.linv.fresh b.nextRef (Nat.le_refl _)] at hr; cases hr
    have hgetne : ∀ r, r ≠ b.nextRef →
        ((({ b with nextRef := b.nextRef + 1 } : B).setSess (newSess b c req)).storeSet (effCid c req)
          b.nextRef).getSess r = b.getSess r := by
      intro r hr
      exact Mqtt.Proofs.BrokerLife.getSess_setSess_ne ({ b with nextRef := b.nextRef + 1 } : B) (newSess b c req) r hr
    refine R_fail h (effCid c req) i1 i2 i3 rfl rfl ?_ rfl rfl rfl hcf ?_ ?_ ?_ ?_
    · refine liveSess_sessOnly rfl ?_
      intro c' cn' hcn' _
      obtain ⟨τ, hτ⟩ := h.linv.conns cn' (by unfold B.getConn at hcn'; exact List.mem_of_find?_eq_some hcn')
      exact hgetne _ (hfreshref _ τ hτ)
    · intro x hxne
      exact Mqtt.Proofs.BrokerLife.storeGet_storeSet_ne _ (effCid c req) x b.nextRef hxne
    · intro x _ hxne
      unfold resumable
      rw [Mqtt.Proofs.BrokerLife.storeGet_storeSet_ne _ (effCid c req) x b.nextRef hxne]
      show ((b.storeGet x).bind _).filter _ = _
      cases hg : b.storeGet x with
      | none => rfl
      | some r =>
        simp only [Option.bind_some]
        obtain ⟨t, ht, _⟩ := h.linv.store (x, r) (Mqtt.Proofs.BrokerLife.mem_of_lookup (by exact hg))
        simp only at ht
        rw [hgetne r (hfreshref r t ht)]
    · intro x hx hxne
      exact failStored_lookup_ne s c req x (ne_specCid hx hxne)
    · intro hXreal
      have hemp : req.clientId.isEmpty = false := by
        cases he : req.clientId.isEmpty with
        | false => rfl
        | true =>
          have : effCid c req = anonId c := by unfold effCid; simp [he]
          rw [this, anonId_not_real] at hXreal; cases hXreal
      have hX : effCid c req = req.clientId := by unfold effCid; simp [hemp]
      have hXs : specCid c req = req.clientId := by unfold specCid; simp [hemp]
      have hres' : resumable ((({ b with nextRef := b.nextRef + 1 } : B).setSess (newSess b c req)).storeSet
          (effCid c req) b.nextRef) (effCid c req) = if effClean req then none else some (newSess b c req) := by
        unfold resumable
        rw [Mqtt.Proofs.BrokerLife.storeGet_storeSet_self]
        simp only [Option.bind_some]
        rw [hb1]
        have : (newSess b c req).clean = effClean req := rfl
        cases hcl : effClean req <;> simp [Option.filter, this, hcl]
      cases hcl : effClean req with
      | true =>
        rw [hcl] at hres'
        simp only [↓reduceIte] at hres'
        refine ⟨?_, ?_⟩
        · intro σ' hσ'; rw [hres'] at hσ'; cases hσ'
        · intro _
          have := failStored_lookup_clean s c req (by rw [hcleq]; exact hcl)
          rw [hXs] at this
          rw [hX]; exact this
      | false =>
        rw [hcl] at hres'
        simp only [Bool.false_eq_true, ↓reduceIte] at hres'
        have hprior : s.stored.lookup req.clientId = none := by
          rw [hX] at hcf
          refine (h.stored req.clientId (hreal hemp) hcf).none ?_
          have : resumed b c req = resumable b req.clientId := by
            unfold resumed resumable; simp [hcl, hX]
          rw [← this]; exact hres
        have hlk' : (failStored s c req).lookup req.clientId = some ([], []) := by
          have := failStored_lookup_keep s c req (by rw [hcleq]; exact hcl)
          rw [hXs, hprior] at this
          exact this
        refine ⟨?_, ?_⟩
        · intro σ' hσ'
          rw [hres'] at hσ'
          cases hσ'
          refine ⟨[], [], by rw [hX]; exact hlk', ⟨List.Perm.refl _, by simp [newSess], by simp [newSess]⟩, rfl, ?_⟩
          intro e he; cases he
        · intro hn
          rw [hres'] at hn; cases hn

/-- **a first packet whose answer cannot be written**, take-over included -/
theorem connectFail_refines {b : B} {s : Spec.Broker.S} (h : R b s) (c : Nat) (f : First) (a : Bool)
    (hok : okEv b (.first c f a) = true) :
    R (connectFail b c f a).1 (Spec.Broker.connectFail s c f a).1 ∧
    Accepts (Spec.Broker.connectFail s c f a).2 (connectFail b c f a).2 := by
  simp only [okEv, Bool.and_eq_true, decide_eq_true_eq, Bool.not_eq_true'] at hok
  obtain ⟨⟨_, hdead⟩, _⟩ := hok
  rw [connectFail_eq, spec_connectFail_eq]
  cases hacc : Mqtt.Proofs.BrokerLife.accepts f a with
  | false =>
    rw [Mqtt.Proofs.BrokerLife.takeOver_refused b f a hacc, spec_takeOver_refused s f a hacc]
    simpa using firstFail_refused_refines h c f a hacc
  | true =>
    cases f with
    | garbage => simp [Mqtt.Proofs.BrokerLife.accepts] at hacc
    | other t => simp [Mqtt.Proofs.BrokerLife.accepts] at hacc
    | connect req =>
      obtain ⟨r0, _, hcf0, hto⟩ := takeOver_refines h c req a hacc hdead
      obtain ⟨r1, e1, e2⟩ := firstFail_accepted_refines r0 c req a hacc hcf0
      refine ⟨r1, ?_⟩
      rw [e1, e2]
      rcases hto with ⟨t1, t2⟩ | ⟨c0, σ, fs, fo, _, _, _, t1, t2, o1, o2, fan⟩
      · rw [t1, t2]
        exact accepts_lits (.cons (.closed c) .nil)
      · rw [t1, t2, o1, o2]
        have := accepts_shape (.cons (.closed c0) .nil) fan (.cons (.closed c) .nil)
        simpa using this

/-! ### histories with failed handshakes -/

/-- an event of the broker, or a first packet whose answer cannot be written -/
inductive EvX where
  | ev (e : Ev)
  | failFirst (c : Nat) (f : First) (a : Bool)   -- a first packet whose answer cannot be written

def stepX (b : B) : EvX → B × List Out
  | .ev e => step b e
  | .failFirst c f a => connectFail b c f a

def specStepX (s : Spec.Broker.S) : EvX → Spec.Broker.S × List Spec.Broker.SOut
  | .ev e => Spec.Broker.step s e
  | .failFirst c f a => Spec.Broker.connectFail s c f a

def okEvX (b : B) : EvX → Bool
  | .ev e => okEv b e
  | .failFirst c f a => okEv b (.first c f a)

def runX (b : B) : List EvX → B × List (List Out)
  | [] => (b, [])
  | e :: es =>
    let (b1, o) := stepX b e
    let (b2, os) := runX b1 es
    (b2, o :: os)

def okRunX (b : B) : List EvX → Bool
  | [] => true
  | e :: es => okEvX b e && okRunX (stepX b e).1 es

def specRunX (s : Spec.Broker.S) : List EvX → Spec.Broker.S × List (List Spec.Broker.SOut)
  | [] => (s, [])
  | e :: es =>
    let r := specStepX s e
    let rs := specRunX r.1 es
    (rs.1, r.2 :: rs.2)

/-- **one event**, failed handshakes included -/
theorem stepX_refines (b : B) (s : Spec.Broker.S) (e : EvX) (h : R b s) (hok : okEvX b e = true) :
    R (stepX b e).1 (specStepX s e).1 ∧ Accepts (specStepX s e).2 (stepX b e).2 := by
  cases e with
  | ev e => exact step_refines b s e h hok
  | failFirst c f a => exact connectFail_refines h c f a hok

/-- **every history**, from related states -/
theorem runX_refines (es : List EvX) : ∀ (b : B) (s : Spec.Broker.S), R b s → okRunX b es = true →
    R (runX b es).1 (specRunX s es).1 ∧ AcceptsAll (specRunX s es).2 (runX b es).2 := by
  induction es with
  | nil => intro b s h _; exact ⟨h, .nil⟩
  | cons e rest ih =>
    intro b s h hok
    simp only [okRunX, Bool.and_eq_true] at hok
    obtain ⟨r1, a1⟩ := stepX_refines b s e h hok.1
    obtain ⟨r2, a2⟩ := ih (stepX b e).1 (specStepX s e).1 r1 hok.2
    exact ⟨r2, .cons a1 a2⟩

/-- **The broker model refines the reference broker, failed handshakes included**: along every
history of events and of first packets whose answer cannot be written, all admitted (`okRunX`),
started in the initial states, the output of every event is accepted by the reference broker's
output for it, and the states stay related. -/
theorem BrokerX_refines_spec (es : List EvX) (hok : okRunX {} es = true) :
    R (runX {} es).1 (specRunX {} es).1 ∧ AcceptsAll (specRunX {} es).2 (runX {} es).2 :=
  runX_refines es {} {} R_init hok

end Mqtt.Proofs.BrokerRefine
