/-
Core B: histories, retained part.  The retained trie reached by any list of
operations holds, up to permutation, the abstract store's retained messages
(last non-empty message per topic), and `Retained` answers as section 4.7
prescribes - for good operations (no empty level, not beginning with '$',
retained topics are valid names).  Helper lemmas only.
-/
import Mqtt.Proofs.TopicsHistory
import Mqtt.Proofs.TopicsRetained

set_option linter.unusedSimpArgs false

namespace Mqtt.Proofs.Topics
open Mqtt.Model.Topics Mqtt.Iface.Topics
open Mqtt.Spec.Match (SEP HASH PLUS DOLLAR split validFilter validFilterLevels validName topicMatches matchLevels dollar)
open Mqtt.Spec.TopicStore (S Sub Ret step maxQos)
open Mqtt.Driver.Topics (modelStep)

/-- what the driver stores for `retain t q p` -/
def toRMsg (r : Ret) : RMsg := { topic := r.topic, qos := r.qos, payload := r.payload }
/-- what the driver prints for a stored message -/
def toRet (m : RMsg) : Ret := ⟨m.topic, m.qos, m.payload⟩

theorem toRet_toRMsg (r : Ret) : toRet (toRMsg r) = r := rfl

def absRets (rets : List Ret) : List REntry := rets.map (fun r => (split r.topic, toRMsg r))

structure RInv (root : RNode) (rets : List Ret) : Prop where
  wf : RWF root
  perm : (absR root).Perm (absRets rets)

/-- a good operation: no empty level, not beginning with '$'; a retained topic is a valid name -/
def goodOp (op : Op) : Bool :=
  good (opTopic op) && (match op with | .retain t _ _ => validName t | _ => true)

/-! ### one operation -/

theorem modelStep_sub_rroot (mt : MemTopics) (f : List UInt8) (q s : Nat) :
    (modelStep mt (.sub f q s)).1.rroot = mt.rroot := by
  cases hd : checkTopic f with
  | true => rw [modelStep_sub_sys _ _ _ _ hd]
  | false =>
    simp only [modelStep, subscribe_of_not_sys _ _ _ _ _ hd, SNode.sinsert]
    cases validQos q
    · rfl
    · simp only [Bool.not_true, Bool.false_eq_true, ↓reduceIte]
      by_cases hx : (levels f).2 = true <;> simp [hx]

theorem modelStep_unsub_rroot (mt : MemTopics) (f : List UInt8) (s : Nat) :
    (modelStep mt (.unsub f s)).1.rroot = mt.rroot := by
  cases hd : checkTopic f with
  | true => rw [modelStep_unsub_sys _ _ _ hd]
  | false => simp [modelStep, unsubscribe_of_not_sys _ _ _ hd, SNode.sremove]

theorem modelStep_unsubAll_rroot (mt : MemTopics) (f : List UInt8) :
    (modelStep mt (.unsubAll f)).1.rroot = mt.rroot := by
  cases hd : checkTopic f with
  | true => rw [modelStep_unsubAll_sys _ _ hd]
  | false => simp [modelStep, unsubscribe_of_not_sys _ _ _ hd, SNode.sremove]

theorem modelStep_retain_rroot (mt : MemTopics) (t : List UInt8) (q : Nat) (p : List UInt8)
    (hd : checkTopic t = false) :
    (modelStep mt (.retain t q p)).1.rroot =
      if p.isEmpty then (mt.rroot.rremoveL (levels t).1 (levels t).2).1
      else mt.rroot.rinsertL (levels t).1 (levels t).2 { topic := t, qos := q, payload := p } := by
  have hd' : checkTopic ({ topic := t, qos := q, payload := p } : RMsg).topic = false := hd
  simp only [modelStep, retain_of_not_sys _ _ hd', RNode.rremove, RNode.rinsert]
  cases p.isEmpty <;> rfl

def specRets (rets : List Ret) : Op → List Ret
  | .retain t q p =>
      if dollar t || !validName t then rets
      else if p.isEmpty then rets.filter (fun r => !(r.topic == t))
      else rets.filter (fun r => !(r.topic == t)) ++ [⟨t, q, p⟩]
  | _ => rets

theorem step_rets (s : S) (op : Op) : (step s op).1.rets = specRets s.rets op := by
  cases op with
  | sub f q sub =>
    simp only [step, specRets]
    split
    · rfl
    · split
      · rfl
      · split <;> rfl
  | unsub f sub =>
    simp only [step, specRets]
    split
    · rfl
    · split <;> rfl
  | unsubAll f => rfl
  | subs t q =>
    simp only [step, specRets]
    split
    · rfl
    · split
      · rfl
      · split <;> rfl
  | retain t q p =>
    simp only [step, specRets]
    split
    · rfl
    · split <;> rfl
  | retained f =>
    simp only [step, specRets]
    split <;> rfl

theorem absRets_filter (rets : List Ret) (t : List UInt8) :
    (absRets rets).filter (fun e => !(e.1 == split t)) = absRets (rets.filter (fun r => !(r.topic == t))) := by
  unfold absRets
  rw [List.filter_map]
  congr 1
  apply List.filter_congr
  intro r _
  simp only [Function.comp]
  by_cases h : r.topic = t
  · subst h; simp
  · have : split r.topic ≠ split t := fun hs => h (split_inj _ _ hs)
    have hb : (split r.topic == split t) = false := by simpa using this
    have hb2 : (r.topic == t) = false := by simpa using h
    simp [hb, hb2]

theorem step_rinv (mt : MemTopics) (rets : List Ret) (op : Op) (hg : goodOp op = true)
    (h : RInv mt.rroot rets) : RInv (modelStep mt op).1.rroot (specRets rets op) := by
  cases op with
  | sub f q sub => rw [modelStep_sub_rroot]; exact h
  | unsub f sub => rw [modelStep_unsub_rroot]; exact h
  | unsubAll f => rw [modelStep_unsubAll_rroot]; exact h
  | subs t q => rw [modelStep_subs]; exact h
  | retained f => rw [modelStep_retained]; exact h
  | retain t q p =>
    simp only [goodOp, opTopic, Bool.and_eq_true] at hg
    obtain ⟨hgt, hn⟩ := hg
    have hd : dollar t = false := good_not_dollar t hgt
    obtain ⟨e1, e2⟩ := levels_valid t hgt (validName_validFilter t hn)
    rw [modelStep_retain_rroot _ _ _ _ (good_checkTopic t hgt), e1, e2]
    simp only [specRets, hd, hn, Bool.not_true, Bool.or_self, Bool.false_eq_true, ↓reduceIte]
    cases hp : p.isEmpty with
    | true =>
      simp only [↓reduceIte]
      refine ⟨rremoveL_RWF _ _ _ h.wf, (rremoveL_absR _ _ h.wf).trans ?_⟩
      have := h.perm.filter (fun e => !(e.1 == split t))
      rw [absRets_filter] at this
      exact this
    | false =>
      simp only [Bool.false_eq_true, ↓reduceIte]
      refine ⟨rinsertL_RWF _ _ _ _ h.wf, (rinsertL_absR _ _ _ h.wf).trans ?_⟩
      have := h.perm.filter (fun e => !(e.1 == split t))
      rw [absRets_filter] at this
      simp only [absRets, List.map_append, List.map_cons, List.map_nil]
      exact List.Perm.append_right _ this

theorem run_rinv_aux (ops : List Op) :
    ∀ (mt : MemTopics) (s : S), (∀ op ∈ ops, goodOp op = true) → RInv mt.rroot s.rets →
      RInv (ops.foldl (fun mt op => (modelStep mt op).1) mt).rroot
           (ops.foldl (fun s op => (step s op).1) s).rets := by
  induction ops with
  | nil => intro mt s _ h; exact h
  | cons op ops ih =>
    intro mt s hg h
    simp only [List.foldl_cons]
    apply ih _ _ (fun o ho => hg o (by simp [ho]))
    rw [step_rets]
    exact step_rinv mt s.rets op (hg op (by simp)) h

theorem run_rinv (ops : List Op) (hg : ∀ op ∈ ops, goodOp op = true) :
    RInv (mrun ops).rroot (srun ops).rets := by
  apply run_rinv_aux ops _ _ hg
  exact ⟨RWF_empty, by simp [MemTopics.new, absR_empty, absRets, Mqtt.Spec.TopicStore.empty]⟩

/-! ### histories that also contain topics beginning with '$' and the empty topic -/

/-- an operation the retained refinement admits: no empty level, or the empty
topic (which every entry point refuses and the specification ignores); a
retained topic is a valid name or empty (it may begin with '$': then both sides
ignore it) -/
def okOp (op : Op) : Bool :=
  admitted (opTopic op) && (match op with | .retain t _ _ => validName t || t.isEmpty | _ => true)

theorem goodOp_okOp (op : Op) (h : goodOp op = true) : okOp op = true := by
  simp only [goodOp, okOp, Bool.and_eq_true] at h ⊢
  refine ⟨admitted_of_noEmptyLevel _ (good_noEmptyLevel _ h.1), ?_⟩
  cases op <;> simp_all

theorem modelStep_retain_sys (mt : MemTopics) (t : List UInt8) (q : Nat) (p : List UInt8)
    (hd : checkTopic t = true) : (modelStep mt (.retain t q p)).1 = mt := by
  have hd' : checkTopic ({ topic := t, qos := q, payload := p } : RMsg).topic = true := hd
  simp only [modelStep, retain_of_sys _ _ hd']

theorem validName_nil : validName [] = false := by decide

theorem step_rinv_any (mt : MemTopics) (rets : List Ret) (op : Op) (hg : okOp op = true)
    (h : RInv mt.rroot rets) : RInv (modelStep mt op).1.rroot (specRets rets op) := by
  cases hc : checkTopic (opTopic op) with
  | false =>
    obtain ⟨hne, hd⟩ := (checkTopic_false_iff _).mp hc
    apply step_rinv mt rets op _ h
    simp only [okOp, Bool.and_eq_true] at hg
    simp only [goodOp, Bool.and_eq_true]
    rcases admitted_cases _ hg.1 with hn | hn
    · refine ⟨good_of _ hn hd, ?_⟩
      cases op with
      | retain t q p =>
        simp only [opTopic] at hne
        have : t.isEmpty = false := by simpa using hne
        simpa [this] using hg.2
      | _ => rfl
    · exact absurd hn hne
  | true =>
    cases op with
    | sub f q sub => rw [modelStep_sub_rroot]; exact h
    | unsub f sub => rw [modelStep_unsub_rroot]; exact h
    | unsubAll f => rw [modelStep_unsubAll_rroot]; exact h
    | subs t q => rw [modelStep_subs]; exact h
    | retained f => rw [modelStep_retained]; exact h
    | retain t q p =>
      simp only [opTopic] at hc
      rw [modelStep_retain_sys _ _ _ _ hc]
      have : (dollar t || !validName t) = true := by
        rw [checkTopic_eq, Bool.or_eq_true, List.isEmpty_iff] at hc
        rcases hc with rfl | hc
        · simp [validName_nil]
        · simp [hc]
      simp only [specRets, this, ↓reduceIte]
      exact h

theorem run_rinv_any_aux (ops : List Op) :
    ∀ (mt : MemTopics) (s : S), (∀ op ∈ ops, okOp op = true) → RInv mt.rroot s.rets →
      RInv (ops.foldl (fun mt op => (modelStep mt op).1) mt).rroot
           (ops.foldl (fun s op => (step s op).1) s).rets := by
  induction ops with
  | nil => intro mt s _ h; exact h
  | cons op ops ih =>
    intro mt s hg h
    simp only [List.foldl_cons]
    apply ih _ _ (fun o ho => hg o (by simp [ho]))
    rw [step_rets]
    exact step_rinv_any mt s.rets op (hg op (by simp)) h

/-- after any history of admitted topics (no empty level, or the empty topic)
whose retained topics are valid names or empty - operations on topics beginning
with '$' included - the retained trie refines the abstract store -/
theorem run_rinv_any (ops : List Op) (hg : ∀ op ∈ ops, okOp op = true) :
    RInv (mrun ops).rroot (srun ops).rets := by
  apply run_rinv_any_aux ops _ _ hg
  exact ⟨RWF_empty, by simp [MemTopics.new, absR_empty, absRets, Mqtt.Spec.TopicStore.empty]⟩

/-! ### the query -/

theorem selR_absRets (rets : List Ret) (fs : List Level) :
    (selR fs (absRets rets)).map toRet = rets.filter (fun r => rwalk fs (split r.topic)) := by
  unfold selR absRets
  rw [List.filterMap_map]
  induction rets with
  | nil => rfl
  | cons r rest ih =>
    simp only [List.filterMap_cons, List.filter_cons, Function.comp]
    cases rwalk fs (split r.topic)
    · simpa using ih
    · simp only [↓reduceIte, List.map_cons, toRet_toRMsg]
      rw [← ih]

theorem retained_refines (mt : MemTopics) (rets : List Ret) (f : List UInt8)
    (h : RInv mt.rroot rets) (hg : good f = true) (hv : validFilter f = true) :
    ∃ r, mt.retained f = some r ∧ (r.map toRet).Perm (rets.filter (fun r => topicMatches f r.topic)) := by
  obtain ⟨e1, e2⟩ := levels_valid f hg hv
  obtain ⟨r, hr, hp⟩ := rmatch_char mt.rroot (split f) h.wf
  have hvl : validFilterLevels (split f) = true := by
    simp only [validFilter, Bool.and_eq_true] at hv; exact hv.2
  refine ⟨r, ?_, ?_⟩
  · rw [retained_of_not_sys _ _ (good_checkTopic f hg)]
    simp only [RNode.rmatch]
    rw [← e1, ← e2] at hr
    exact hr
  · have h1 := (hp.trans (h.perm.filterMap _)).map toRet
    refine h1.trans ?_
    have := selR_absRets rets (split f)
    unfold selR at this
    rw [this]
    have : (fun r : Ret => rwalk (split f) (split r.topic)) = (fun r => topicMatches f r.topic) := by
      funext r
      rw [rwalk_eq_matchLevels (split f) hvl]; rfl
    rw [this]

end Mqtt.Proofs.Topics
