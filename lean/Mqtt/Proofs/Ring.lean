/-
Core D — helper lemmas for the byte ring: index arithmetic, array cells,
stream segments, the thread typing `ThOK`, and the safety invariant of the
concurrent program (`Model/Ring.lean`) with its preservation by every step.
Property theorems are in `Properties/C14.lean` and `Properties/C15.lean`.
-/
import Mqtt.Model.Ring
import Mqtt.Spec.Ring

set_option linter.unusedSimpArgs false
set_option linter.unusedVariables false

namespace Mqtt.Proofs.Ring
open Mqtt.Model.Ring Mqtt.Iface.Ring Mqtt.Spec.Ring

/-! ### index arithmetic -/

theorem size_pos (cfg : Cfg) : 0 < cfg.size := by
  unfold Cfg.size; exact Nat.two_pow_pos _

theorem idx_eq_mod (cfg : Cfg) (pos : Nat) : cfg.idx pos = pos % cfg.size := by
  unfold Cfg.idx Cfg.size
  exact Nat.and_two_pow_sub_one_eq_mod pos cfg.k

theorem idx_lt (cfg : Cfg) (pos : Nat) : cfg.idx pos < cfg.size := by
  rw [idx_eq_mod]; exact Nat.mod_lt _ (size_pos cfg)

/-- two different stream positions less than one ring length apart live in different cells -/
theorem idx_ne (cfg : Cfg) {a b : Nat} (hab : a < b) (hb : b < a + cfg.size) : cfg.idx a ≠ cfg.idx b := by
  rw [idx_eq_mod, idx_eq_mod]
  intro h
  have hs := size_pos cfg
  have h1 : (b - a) % cfg.size = 0 := by
    have : b = a + (b - a) := by omega
    have e : (a + (b - a)) % cfg.size = a % cfg.size := by rw [← this]; exact h.symm
    have := Nat.add_mod a (b - a) cfg.size
    rw [e] at this
    -- a % s = (a % s + (b-a) % s) % s
    have hlt := Nat.mod_lt a hs
    have hlt2 := Nat.mod_lt (b - a) hs
    by_cases hc : a % cfg.size + (b - a) % cfg.size < cfg.size
    · rw [Nat.mod_eq_of_lt hc] at this; omega
    · have : (a % cfg.size + (b - a) % cfg.size) % cfg.size = a % cfg.size + (b - a) % cfg.size - cfg.size := by
        rw [Nat.mod_eq_sub_mod (by omega)]
        exact Nat.mod_eq_of_lt (by omega)
      omega
  have h2 : (b - a) % cfg.size = b - a := Nat.mod_eq_of_lt (by omega)
  omega

theorem idx_ne' (cfg : Cfg) {a b : Nat} (hab : a ≠ b) (h1 : a < b + cfg.size) (h2 : b < a + cfg.size) :
    cfg.idx a ≠ cfg.idx b := by
  rcases Nat.lt_or_gt_of_ne hab with h | h
  · exact idx_ne cfg h h2
  · exact fun e => idx_ne cfg h h1 e.symm

/-! ### array cells -/

theorem wr_size (b : Array UInt8) (i : Nat) (v : UInt8) : (wr b i v).size = b.size := by
  unfold wr; simp

theorem rd_wr_same (b : Array UInt8) (i : Nat) (v : UInt8) (h : i < b.size) : rd (wr b i v) i = v := by
  unfold rd wr
  rw [Array.getD_eq_getD_getElem?, Array.getElem?_setIfInBounds_self_of_lt h]; rfl

theorem rd_wr_other (b : Array UInt8) (i j : Nat) (v : UInt8) (h : i ≠ j) : rd (wr b i v) j = rd b j := by
  unfold rd wr
  rw [Array.getD_eq_getD_getElem?, Array.getD_eq_getD_getElem?, Array.getElem?_setIfInBounds_ne h]

/-! ### stream segments -/

theorem segment_length (src : Nat → UInt8) (base k : Nat) : (segment src base k).length = k := by
  unfold segment; simp

theorem segment_zero (src : Nat → UInt8) (base : Nat) : segment src base 0 = [] := by
  unfold segment; simp

theorem segment_succ (src : Nat → UInt8) (base k : Nat) :
    segment src base (k + 1) = segment src base k ++ [src (base + k)] := by
  unfold segment; simp [List.range_succ]

theorem segment_append (src : Nat → UInt8) (base a b : Nat) :
    segment src base (a + b) = segment src base a ++ segment src (base + a) b := by
  induction b with
  | zero => simp [segment_zero]
  | succ b ih => rw [← Nat.add_assoc, segment_succ, ih, segment_succ, List.append_assoc, Nat.add_assoc]

theorem segment_take (src : Nat → UInt8) (base k n : Nat) (h : n ≤ k) :
    (segment src base k).take n = segment src base n := by
  have : k = n + (k - n) := by omega
  rw [this, segment_append, List.take_left' (segment_length _ _ _)]

/-! ### thread typing: which role executes a program counter, which calls a role makes -/

inductive Role where
  | prod | cons | any
deriving DecidableEq

def pcRole : Pc → Role
  | .idle | .x10 | .x11 | .x12 | .x13 | .x14 | .x15 | .x16 | .l20 | .l21 _ => .any
  | .s30 _ | .s31 _ | .s32 _ _ | .s33 _ _ | .s34 _ _ | .s35 _ _ | .s36 _ _ | .s36w _ _ | .s37 _ _
  | .s38 _ _ _ | .s39 _ _ | .w40 _ | .w41c _ _ _ | .w42 _ _ | .w43 _ | .w44 _ | .w45 _
  | .c50 _ _ | .c51 _ | .c52 _ | .c53 _ | .f0 _ _ _
  | .g110 _ _ | .g112 _ _ _ | .g111 _ _ _ _ | .g111c _ _ _ _ _ | .g111r _ _ _ => .prod
  | .r60 _ | .r61 _ | .r62 _ _ | .r63c _ _ _ _ _ | .r64 _ _ _ | .r65 _ _ _ | .r66 _ _ _ | .r67 _ _ _
  | .r73 _ _ | .r74 _ _ | .r75 _ _ | .r75r _ _ | .r76 _ _ | .r77 _ _ | .r77w _ _ | .r78 _ _ | .r79 _
  | .p84r _ _ _ | .p80 _ _ | .p81 _ _ _ | .p82 _ _ _ | .p83 _ _ _ | .p84 _ _ _ | .p85 _ _ _ | .p86 _ _ _ | .p86w _ _ _
  | .p87 _ _ _ | .p88 _ _ _ _ | .p89c _ _ _ _ _ _
  | .k100 _ | .k101 _ _ | .k102 _ _ | .k103 _ | .k104 _ | .k105 _ | .u0 _ _ _ _ => .cons

/-- may thread `t` be at a program counter of role `r` -/
def roleOK (t : Tid) (r : Role) : Bool :=
  match t, r with
  | _, .any => true
  | .p, .prod => true
  | .c, .cons => true
  | _, _ => false

/-- a thread is well-typed for its role: producer calls only on `p`, consumer calls only on `c` -/
structure ThOK (t : Tid) (th : Th) : Prop where
  prog : ∀ c ∈ th.prog, t.allowed c = true
  cur : ∀ c, th.cur = some c → t.allowed c = true
  role : roleOK t (pcRole th.pc) = true

/-- the part of the shared state the safety argument is about -/
structure Core where
  buf : Array UInt8
  pseq : Nat
  cseq : Nat
  gate : Nat
  gotRev : List UInt8

def _root_.Mqtt.Model.Ring.Sh.core (sh : Sh) : Core := ⟨sh.buf, sh.pseq, sh.cseq, sh.gate, sh.gotRev⟩

/-! ### normal forms of one step -/

theorem map_lock {β : Type} (sh : Sh) (m : Mx) (me : Tid) (b b' : β) (s' : Sh) :
    Option.map (fun x => (x, b)) (sh.lock m me) = some (s', b') ↔
      sh.owner m = none ∧ sh.setOwner m (some me) = s' ∧ b = b' := by
  unfold Sh.lock
  cases h : sh.owner m <;> simp

theorem map_resume {β : Type} (sh : Sh) (m : Mx) (me : Tid) (b b' : β) (s' : Sh) :
    Option.map (fun x => (x, b)) (sh.resume m me) = some (s', b') ↔
      sh.note m = true ∧ sh.owner m = none ∧ (sh.setOwner m (some me)).setNote m false = s' ∧ b = b' := by
  unfold Sh.resume Sh.lock
  cases hn : sh.note m <;> cases h : sh.owner m <;> simp

theorem ite_some {α : Type} (c : Prop) [Decidable c] (x y : Option α) (r : α) :
    (if c then x else y) = some r ↔ (c ∧ x = some r) ∨ (¬ c ∧ y = some r) := by
  split <;> simp [*]

theorem tstep_crash (cfg : Cfg) (sh : Sh) (me : Tid) (th : Th) (r : Sh × Th)
    (hs : tstep cfg sh me th = some r) : sh.crash = false := by
  unfold tstep at hs
  split at hs
  · simp at hs
  · simpa using ‹¬ sh.crash = true›

set_option hygiene false in
/-- normalise `hs : tstep … = some (sh', th')` after `cases` on the program counter
(needs `sh.crash = false` among the hypotheses) -/
macro "tstep_norm" : tactic => `(tactic| (
  simp only [tstep, Bool.false_eq_true, ↓reduceIte, map_lock, map_resume, ite_some,
    Option.some.injEq, Prod.mk.injEq, ‹Sh.crash _ = false›] at hs))

set_option hygiene false in
/-- eliminate the normal form: substitute `sh'` and `th'` in every branch -/
macro "tstep_elim" : tactic => `(tactic| (
  first
  | (have hs3 : _ ∨ _ ∨ _ := hs; clear hs; rcases hs3 with ⟨_, rfl, rfl⟩ | ⟨_, ⟨_, rfl, rfl⟩ | ⟨_, rfl, rfl⟩⟩)
  | (have hs2 : _ ∨ _ := hs; clear hs; rcases hs2 with ⟨_, rfl, rfl⟩ | ⟨_, rfl, rfl⟩)
  | (have hs4 : _ ∧ _ ∧ _ ∧ _ := hs; clear hs; obtain ⟨_, _, rfl, rfl⟩ := hs4)
  | (have hs3 : _ ∧ _ ∧ _ := hs; clear hs; obtain ⟨_, rfl, rfl⟩ := hs3)
  | (have hs2 : _ ∧ _ := hs; clear hs; obtain ⟨rfl, rfl⟩ := hs2)
  | skip))


/-! ### where the helper functions of the model leave the thread -/

theorem rfExit_pc (th : Th) (n : Nat) (e : Err) : (rfExit th n e).pc = .x10 := rfl

theorem wfsErr_pc (th : Th) (e : Err) : (wfsErr th e).pc = .idle ∨ (wfsErr th e).pc = .x10 := by
  unfold wfsErr
  split
  · exact Or.inr rfl
  · exact Or.inr rfl
  · exact Or.inl rfl

theorem enterWfs_pc (cfg : Cfg) (th : Th) (n : Nat) :
    (enterWfs cfg th n).pc = .s30 n ∨ (enterWfs cfg th n).pc = .idle ∨ (enterWfs cfg th n).pc = .x10 := by
  unfold enterWfs
  split
  · exact Or.inr (wfsErr_pc th _)
  · exact Or.inl rfl

theorem wcRet_pc (th : Th) (n : Nat) : (wcRet th n).pc = .idle ∨ ∃ tot ms, (wcRet th n).pc = .g110 tot ms := by
  unfold wcRet
  split
  · exact Or.inr ⟨_, _, rfl⟩
  · exact Or.inl rfl

theorem closeRet_pc (th : Th) : (closeRet th).pc = .idle := by
  unfold closeRet
  split <;> rfl

/-- an observation of the program counter that has the same value at `idle`, at the first
statement of `Close`, at the entry of `waitForWriteSpace` and at the head of `ReadFrom`'s loop has
that value after every helper of the model -/
theorem obs_helpers {α : Type} (f : Pc → α) (v : α) (h0 : f .idle = v) (h1 : f .x10 = v)
    (h2 : ∀ n, f (.s30 n) = v) (h3 : ∀ tot ms, f (.g110 tot ms) = v) (cfg : Cfg) (th : Th) :
    (∀ n e, f (rfExit th n e).pc = v) ∧ (∀ e, f (wfsErr th e).pc = v) ∧ (∀ n, f (enterWfs cfg th n).pc = v) ∧
    (∀ n, f (wcRet th n).pc = v) ∧ f (closeRet th).pc = v := by
  refine ⟨fun n e => h1, fun e => ?_, fun n => ?_, fun n => ?_, ?_⟩
  · rcases wfsErr_pc th e with h | h <;> rw [h] <;> assumption
  · rcases enterWfs_pc cfg th n with h | h | h <;> rw [h]
    · exact h2 n
    · exact h0
    · exact h1
  · rcases wcRet_pc th n with h | ⟨tot, ms, h⟩ <;> rw [h]
    · exact h0
    · exact h3 tot ms
  · rw [closeRet_pc]; exact h0

/-! ### typing is preserved by every step -/

theorem none_cur (t : Tid) : ∀ c, (none : Option Call) = some c → t.allowed c = true := fun _ h => nomatch h

theorem roleOK_any (t : Tid) : roleOK t .any = true := by cases t <;> rfl

theorem prod_is_p (t : Tid) (h : roleOK t .prod = true) : t = .p := by
  cases t <;> simp [roleOK] at h ⊢

theorem thOK_rfExit (t : Tid) (th : Th) (n : Nat) (e : Err) (hp : ∀ c ∈ th.prog, t.allowed c = true)
    (hr : roleOK t .prod = true) : ThOK t (rfExit th n e) := by
  have := prod_is_p t hr
  subst this
  refine ⟨hp, ?_, rfl⟩
  intro c h
  simp only [rfExit, Th.goto, Option.some.injEq] at h
  subst h; rfl

theorem thOK_wfsErr (t : Tid) (th : Th) (e : Err) (hp : ∀ c ∈ th.prog, t.allowed c = true)
    (hr : roleOK t .prod = true) : ThOK t (wfsErr th e) := by
  unfold wfsErr
  split
  · exact thOK_rfExit t th _ e hp hr
  · exact thOK_rfExit t th _ e hp hr
  · exact ⟨hp, none_cur t, roleOK_any t⟩

theorem thOK_enterWfs (cfg : Cfg) (t : Tid) (th : Th) (n : Nat) (hp : ∀ c ∈ th.prog, t.allowed c = true)
    (hc : ∀ c, th.cur = some c → t.allowed c = true) (hr : roleOK t .prod = true) : ThOK t (enterWfs cfg th n) := by
  unfold enterWfs
  split
  · exact thOK_wfsErr t th _ hp hr
  · exact ⟨hp, hc, hr⟩

theorem thOK_wcRet (t : Tid) (th : Th) (n : Nat) (hp : ∀ c ∈ th.prog, t.allowed c = true)
    (hr : roleOK t .prod = true) : ThOK t (wcRet th n) := by
  have := prod_is_p t hr
  subst this
  unfold wcRet
  split
  · refine ⟨hp, ?_, rfl⟩
    intro c h
    simp only [Th.goto, Option.some.injEq] at h
    subst h; rfl
  · exact ⟨hp, none_cur _, rfl⟩

theorem thOK_closeRet (t : Tid) (th : Th) (hp : ∀ c ∈ th.prog, t.allowed c = true) : ThOK t (closeRet th) := by
  unfold closeRet
  split <;> exact ⟨hp, none_cur t, roleOK_any t⟩

theorem thOK_wfsOk (cfg : Cfg) (t : Tid) (th : Th) (ppos n : Nat) (hp : ∀ c ∈ th.prog, t.allowed c = true)
    (hc : ∀ c, th.cur = some c → t.allowed c = true) (hr : roleOK t .prod = true) :
    ThOK t (wfsOk cfg th ppos n) := by
  unfold wfsOk
  dsimp only
  split
  · exact ⟨hp, hc, hr⟩
  · split <;> exact ⟨hp, none_cur t, roleOK_any t⟩
  · exact ⟨hp, hc, hr⟩
  · exact ⟨hp, hc, hr⟩
  · exact ⟨hp, hc, hr⟩
  · exact ⟨hp, none_cur t, roleOK_any t⟩

theorem thOK_startCall (cfg : Cfg) (t : Tid) (th : Th) (call : Call) (hp : ∀ c ∈ th.prog, t.allowed c = true)
    (hcur : th.cur = some call) (ha : t.allowed call = true) : ThOK t (startCall cfg th call) := by
  have hc : ∀ c, th.cur = some c → t.allowed c = true := by
    intro c h; rw [hcur] at h; cases h; exact ha
  cases call <;> simp only [startCall, Th.goto, Th.ret]
  all_goals (try (have hr : roleOK t .prod = true := by cases t <;> simp_all [Tid.allowed, Call.isProducer, Call.isConsumer, roleOK]))
  all_goals (try (have hr : roleOK t .cons = true := by cases t <;> simp_all [Tid.allowed, Call.isProducer, Call.isConsumer, roleOK]))
  case wwait n => exact thOK_enterWfs cfg t _ n hp hc hr
  case wcommit n => exact thOK_enterWfs cfg t _ _ hp hc hr
  all_goals (repeat' split)
  all_goals (first
    | exact ⟨hp, hc, hr⟩
    | exact ⟨hp, hc, roleOK_any t⟩
    | exact ⟨hp, none_cur t, roleOK_any t⟩)

theorem thOK_step (cfg : Cfg) (t : Tid) (sh sh' : Sh) (th th' : Th) (h : ThOK t th)
    (hs : tstep cfg sh t th = some (sh', th')) : ThOK t th' := by
  have hcr := tstep_crash _ _ _ _ _ hs
  obtain ⟨hp, hc, hr⟩ := h
  obtain ⟨pc, prog, cur, slice, filled, view, pending, res⟩ := th
  simp only at hp hc hr
  cases pc
  case idle =>
    simp only [tstep, Bool.false_eq_true, ↓reduceIte, hcr] at hs
    cases prog with
    | nil => simp at hs
    | cons call rest =>
      simp only [Option.some.injEq, Prod.mk.injEq] at hs
      obtain ⟨rfl, rfl⟩ := hs
      exact thOK_startCall cfg t _ call (fun c h => hp c (List.mem_cons_of_mem _ h)) rfl (hp call (List.mem_cons_self ..))
  case l21 cpos =>
    simp only [tstep, Bool.false_eq_true, ↓reduceIte, hcr] at hs
    split at hs
    · have ha := hc _ rfl
      have hr2 : roleOK t .cons = true := by cases t <;> simp_all [Tid.allowed, Call.isProducer, Call.isConsumer, roleOK]
      split at hs <;> simp only [Option.some.injEq, Prod.mk.injEq] at hs <;> obtain ⟨rfl, rfl⟩ := hs
      · exact ⟨hp, none_cur t, roleOK_any t⟩
      · exact ⟨hp, hc, hr2⟩
    · simp only [Option.some.injEq, Prod.mk.injEq] at hs
      obtain ⟨rfl, rfl⟩ := hs
      exact ⟨hp, none_cur t, roleOK_any t⟩
  case r62 n cpos =>
    simp only [tstep, Bool.false_eq_true, ↓reduceIte, hcr] at hs
    split at hs
    · simp only [Option.some.injEq, Prod.mk.injEq] at hs; obtain ⟨rfl, rfl⟩ := hs; exact ⟨hp, hc, hr⟩
    · split at hs <;> (simp only [Option.some.injEq, Prod.mk.injEq] at hs; obtain ⟨rfl, rfl⟩ := hs; exact ⟨hp, hc, hr⟩)
  case g110 tot ms =>
    have htp := prod_is_p t hr
    subst htp
    tstep_norm
    rcases hs with ⟨h1, rfl, rfl⟩ | ⟨h1, rfl, rfl⟩
    · exact thOK_rfExit _ _ _ _ hp hr
    · exact thOK_enterWfs cfg _ _ 1 hp (by intro c h; simp only [Option.some.injEq] at h; subst h; rfl) hr
  case g111r tot ms n =>
    have htp := prod_is_p t hr
    subst htp
    tstep_norm
    rcases hs with ⟨h1, rfl, rfl⟩ | ⟨h1, rfl, rfl⟩
    · exact thOK_enterWfs cfg _ _ n hp (by intro c h; simp only [Option.some.injEq] at h; subst h; rfl) hr
    · exact ⟨hp, hc, hr⟩
  all_goals tstep_norm
  all_goals tstep_elim
  all_goals (try simp only [Th.goto, Th.ret])
  all_goals (first
    | exact ⟨hp, hc, hr⟩
    | exact ⟨hp, hc, roleOK_any t⟩
    | exact ⟨hp, none_cur t, roleOK_any t⟩
    | exact thOK_wfsOk _ _ _ _ _ hp hc hr
    | exact thOK_wfsErr _ _ _ hp hr
    | exact thOK_enterWfs _ _ _ _ hp hc hr
    | exact thOK_wcRet _ _ _ hp hr
    | exact thOK_closeRet _ _ hp
    | exact thOK_rfExit _ _ _ _ hp hr
    | (split <;> first | exact ⟨hp, hc, hr⟩ | exact ⟨hp, none_cur t, roleOK_any t⟩))

end Mqtt.Proofs.Ring
