/-
Helper lemmas for Core A (codec): outcomes, Go slices, varints, the fixed header.
-/
import Mqtt.Model.Codec
import Mqtt.Spec.Wire

set_option linter.unusedSimpArgs false
set_option linter.unusedVariables false

namespace Mqtt.Proofs.Codec

open Mqtt.Model.Codec Mqtt.Iface.Codec Mqtt.Generated
open Mqtt.Spec

@[simp] theorem bind_ok {α β} (a : α) (f : α → Outcome β) : (Outcome.ok a).bind f = f a := rfl
@[simp] theorem bind_err {α β} (f : α → Outcome β) : (Outcome.err : Outcome α).bind f = .err := rfl
@[simp] theorem bind_panic {α β} (f : α → Outcome β) : (Outcome.panic : Outcome α).bind f = .panic := rfl

theorem uvarintAux_count (buf : Bytes) : ∀ (i x : Nat), 0 < (uvarintAux buf i x).2 →
    (i : Int) < (uvarintAux buf i x).2 ∧ (uvarintAux buf i x).2 ≤ (i : Int) + buf.length := by
  induction buf with
  | nil => intro i x h; simp [uvarintAux] at h
  | cons b rest ih =>
    intro i x h
    unfold uvarintAux at h ⊢
    split at h
    · simp at h; omega
    · rw [if_neg (by assumption)]
      split at h
      · rw [if_pos (by assumption)]
        split at h
        · simp at h; omega
        · rw [if_neg (by assumption)]; simp; omega
      · rw [if_neg (by assumption)]
        have := ih (i+1) _ h
        simp only [List.length_cons]
        omega

theorem uvarintAux_value (buf : Bytes) : ∀ (i x : Nat), x < 128 ^ i → 0 < (uvarintAux buf i x).2 →
    (uvarintAux buf i x).1 < 128 ^ (uvarintAux buf i x).2.toNat := by
  induction buf with
  | nil => intro i x _ h; simp [uvarintAux] at h
  | cons b rest ih =>
    intro i x hx h
    unfold uvarintAux at h ⊢
    split at h
    · simp at h; omega
    · rw [if_neg (by assumption)]
      split at h
      · rw [if_pos (by assumption)]
        split at h
        · simp at h; omega
        · rw [if_neg (by assumption)]
          simp only
          have e : ((i : Int) + 1).toNat = i + 1 := by omega
          rw [e, Nat.pow_succ]
          have hb : b.toNat * 128 ^ i ≤ 127 * 128 ^ i := Nat.mul_le_mul_right _ (by omega)
          have := Nat.mod_le (x + b.toNat * 128 ^ i) (2 ^ 64)
          omega
      · rw [if_neg (by assumption)]
        apply ih (i+1) _ _ h
        rw [Nat.pow_succ]
        have hb : b.toNat % 128 * 128 ^ i ≤ 127 * 128 ^ i := Nat.mul_le_mul_right _ (by omega)
        omega

theorem uvarint_bounds (buf : Bytes) (h1 : 0 < (uvarint buf).2) (h4 : (uvarint buf).2 ≤ 4) :
    (uvarint buf).1 < 2 ^ 28 ∧ (uvarint buf).2.toNat ≤ buf.length := by
  have c := uvarintAux_count buf 0 0 h1
  have v := uvarintAux_value buf 0 0 (by simp) h1
  unfold uvarint at *
  refine ⟨?_, by omega⟩
  have : (uvarintAux buf 0 0).2.toNat ≤ 4 := by omega
  calc (uvarintAux buf 0 0).1 < 128 ^ (uvarintAux buf 0 0).2.toNat := v
    _ ≤ 128 ^ 4 := Nat.pow_le_pow_right (by omega) this
    _ = 2 ^ 28 := by decide

theorem toInt32_small {v : Nat} (h : v < 2 ^ 28) : toInt32 v = (v : Int) := by
  unfold toInt32
  simp only []
  have : v % 2 ^ 32 = v := Nat.mod_eq_of_lt (by omega)
  rw [this, if_pos (by omega)]
  rfl

theorem sliceFrom_ok {s : Bytes} {lo : Nat} (h : lo ≤ s.length) : sliceFrom s lo = .ok (s.drop lo) := by
  unfold sliceFrom; rw [if_pos h]
theorem sliceTo_ok {s : Bytes} {hi : Nat} (h : hi ≤ s.length) : sliceTo s hi = .ok (s.take hi) := by
  unfold sliceTo; rw [if_pos h]
theorem slice_ok {s : Bytes} {lo hi : Nat} (h1 : lo ≤ hi) (h2 : hi ≤ s.length) :
    slice s lo hi = .ok ((s.drop lo).take (hi - lo)) := by
  unfold slice; rw [if_pos ⟨h1, h2⟩]

theorem u8_ofNat_toNat {n : Nat} (h : n < 256) : (UInt8.ofNat n).toNat = n := by
  simp [Nat.mod_eq_of_lt h]

theorem putUvarint_eq_varint (n : Nat) (h : n < 2 ^ 28) : putUvarint n = Wire.varint n := by
  unfold Wire.varint putUvarint
  split
  · unfold putUvarintAux; rw [if_neg (by omega)]
  · split
    · unfold putUvarintAux; rw [if_pos (by omega)]
      unfold putUvarintAux; rw [if_neg (by omega)]
    · split
      · unfold putUvarintAux; rw [if_pos (by omega)]
        unfold putUvarintAux; rw [if_pos (by omega)]
        unfold putUvarintAux; rw [if_neg (by omega)]
        rw [Nat.div_div_eq_div_mul]
      · unfold putUvarintAux; rw [if_pos (by omega)]
        unfold putUvarintAux; rw [if_pos (by omega)]
        unfold putUvarintAux; rw [if_pos (by omega)]
        unfold putUvarintAux; rw [if_neg (by omega)]
        rw [Nat.div_div_eq_div_mul, Nat.div_div_eq_div_mul]

theorem uvarint_varint (n : Nat) (h : n < 2 ^ 28) (tail : Bytes) :
    uvarint (Wire.varint n ++ tail) = (n, ((Wire.varint n).length : Int)) := by
  unfold Wire.varint uvarint
  split
  · rename_i h1
    simp [uvarintAux, u8_ofNat_toNat (show n < 256 by omega), h1]
    omega
  · split
    · simp [uvarintAux, u8_ofNat_toNat (show n % 128 + 128 < 256 by omega), u8_ofNat_toNat (show n / 128 < 256 by omega)]
      rw [if_neg (by omega), if_pos (by omega)]
      simp; omega
    · split
      · simp [uvarintAux, u8_ofNat_toNat (show n % 128 + 128 < 256 by omega), u8_ofNat_toNat (show n / 128 % 128 + 128 < 256 by omega), u8_ofNat_toNat (show n / 16384 < 256 by omega)]
        rw [if_neg (by omega), if_neg (by omega), if_pos (by omega)]
        simp; omega
      · simp [uvarintAux, u8_ofNat_toNat (show n % 128 + 128 < 256 by omega), u8_ofNat_toNat (show n / 128 % 128 + 128 < 256 by omega), u8_ofNat_toNat (show n / 16384 % 128 + 128 < 256 by omega), u8_ofNat_toNat (show n / 2097152 < 256 by omega)]
        rw [if_neg (by omega), if_neg (by omega), if_neg (by omega), if_pos (by omega)]
        simp; omega

/-! ## the fixed header -/

/-- what a successful `header.decode` establishes -/
structure HdrDecoded (h : Hdr) (src : Bytes) (h' : Hdr) (n : Nat) : Prop where
  n_lo : 2 ≤ n
  n_hi : n ≤ 5
  fits : n + h'.remlen ≤ src.length
  dbuf : h'.dbuf = src.take (n + h'.remlen)
  tf : src[0]? = some h'.tf
  tfInBuf : h'.tfInBuf = true
  pid : h'.pid = h.pid
  pidOff : h'.pidOff = h.pidOff
  dirty : h'.dirty = h.dirty
  type : h'.type = h.type
  valid : validType h'.type = true
  flagsOk : h'.type ≠ tPUBLISH → h'.flags = defaultFlagsOf h'.type
  qosOk : h'.type = tPUBLISH → validQos (h'.flags / 2 % 4) = true
  remlen_le : h'.remlen ≤ maxRemainingLength

theorem headD_take_one (src : Bytes) (h : 1 ≤ src.length) :
    src[0]? = some ((List.take (1 - 0) (List.drop 0 src)).headD 0) := by
  cases src with
  | nil => simp at h
  | cons a r => simp

/-- `header.decode` returns an error or succeeds with `HdrDecoded`; it never panics -/
theorem hdr_decode_spec (h : Hdr) (src : Bytes) :
    Hdr.decode h src = .err ∨ ∃ h' n, Hdr.decode h src = .ok (h', n) ∧ HdrDecoded h src h' n := by
  unfold Hdr.decode
  by_cases h0 : src.length < 1
  · rw [if_pos h0]; exact Or.inl rfl
  · rw [if_neg h0, slice_ok (by omega) (by omega)]
    simp only [bind_ok]
    split
    · exact Or.inl rfl
    · split
      · exact Or.inl rfl
      · split
        · exact Or.inl rfl
        · split
          · exact Or.inl rfl
          · rename_i hval hty hfl hq
            rw [sliceFrom_ok (by omega)]
            simp only [bind_ok]
            generalize hr : uvarint (List.drop 1 src) = r
            split
            · exact Or.inl rfl
            · rename_i hm
              simp only [not_or, Int.not_le, Int.not_lt, maxVarintBytes] at hm
              have hb := uvarint_bounds (src.drop 1) (by rw [hr]; exact hm.1) (by rw [hr]; exact hm.2)
              rw [hr] at hb
              rw [toInt32_small hb.1]
              have hlen : (List.drop 1 src).length = src.length - 1 := List.length_drop
              rw [hlen] at hb
              split
              · exact Or.inl rfl
              · rename_i hmax
                rw [sliceFrom_ok (by omega)]
                simp only [bind_ok]
                split
                · exact Or.inl rfl
                · rename_i hfit
                  simp only [List.length_drop, Int.toNat_natCast] at hfit ⊢
                  rw [sliceTo_ok (by omega)]
                  simp only [bind_ok]
                  right
                  refine ⟨_, _, rfl, ?_⟩
                  constructor
                  all_goals (try dsimp only)
                  all_goals (try omega)
                  · exact headD_take_one src (by omega)
                  · exact (Decidable.not_not.mp hty).symm
                  · simpa [Hdr.type] using hval
                  · intro hp
                    simp only [Bool.and_eq_true, decide_eq_true_eq, not_and, Decidable.not_not, Hdr.type, Hdr.flags] at hfl hp ⊢
                    have := hfl (decide_eq_true hp); simpa using this
                  · intro hp
                    simp only [Bool.and_eq_true, decide_eq_true_eq, not_and, Bool.not_eq_true', Bool.not_eq_false, Hdr.type, Hdr.flags] at hq hp ⊢
                    have := hq (decide_eq_true hp); simpa using this

theorem hdr_decode_ne_panic (h : Hdr) (src : Bytes) : Hdr.decode h src ≠ .panic := by
  rcases hdr_decode_spec h src with he | ⟨h', n, hd, _⟩
  · rw [he]; intro x; cases x
  · rw [hd]; intro x; cases x

theorem hdr_decode_ok {h : Hdr} {src : Bytes} {h' : Hdr} {n : Nat} (hd : Hdr.decode h src = .ok (h', n)) :
    HdrDecoded h src h' n := by
  rcases hdr_decode_spec h src with he | ⟨h2, n2, hd2, hh⟩
  · rw [he] at hd; cases hd
  · rw [hd2] at hd
    injection hd with e
    injection e with e1 e2
    subst e1; subst e2; exact hh

end Mqtt.Proofs.Codec
