/-
Core D → Core F — producer calls of the ring program at call level.

A plain producer call (`Write(l)`, `WriteWait(l)`, `WriteCommit(l)`) is followed from the state in which
thread `p` is about to start it, through any schedule, to its return:

* phases `PPre` (inside the call, cursor not yet stored) and `PPost` (cursor stored, Broadcast pending),
  with the one-step lemmas `pre_own`, `post_own`, `start_own`;
* `pcall_pre` / `pcall_start`: the call-level contract (enabledness, effect, linearisation point);
* `pphase_run`: where the producer is after any schedule — used for "parked = guard false".
-/
import Mqtt.Proofs.RingCall

set_option linter.unusedSimpArgs false
set_option linter.unusedVariables false

namespace Mqtt.Proofs.Ring
open Mqtt.Model.Ring Mqtt.Iface.Ring Mqtt.Spec.Ring

/-! ### the helpers of the model keep the rest of the thread program -/

@[simp] theorem prog_rfExit (th : Th) (n : Nat) (e : Err) : (rfExit th n e).prog = th.prog := rfl
@[simp] theorem prog_wfsErr (th : Th) (e : Err) : (wfsErr th e).prog = th.prog := by
  unfold wfsErr; split <;> rfl
@[simp] theorem prog_enterWfs (cfg : Cfg) (th : Th) (n : Nat) : (enterWfs cfg th n).prog = th.prog := by
  unfold enterWfs; split
  · exact prog_wfsErr _ _
  · rfl
@[simp] theorem prog_wcRet (th : Th) (n : Nat) : (wcRet th n).prog = th.prog := by
  unfold wcRet; split <;> rfl
@[simp] theorem prog_closeRet (th : Th) : (closeRet th).prog = th.prog := by
  unfold closeRet; split <;> rfl
@[simp] theorem prog_wfsOk (cfg : Cfg) (th : Th) (ppos n : Nat) : (wfsOk cfg th ppos n).prog = th.prog := by
  unfold wfsOk; dsimp only
  repeat' split
  all_goals rfl

/-- a step keeps the thread program, except the step that starts the next call -/
theorem tstep_prog (cfg : Cfg) (sh sh' : Sh) (me : Tid) (th th' : Th)
    (hs : tstep cfg sh me th = some (sh', th')) :
    (th.pc ≠ .idle ∧ th'.prog = th.prog) ∨ (th.pc = .idle ∧ ∃ c, th.prog = c :: th'.prog ∧ th' = startCall cfg { th with res := none, prog := th'.prog, cur := some c } c ∧ sh' = sh) := by
  have hcr := tstep_crash _ _ _ _ _ hs
  obtain ⟨pc, prog, cur, slice, filled, view, pending, res⟩ := th
  cases pc
  case idle =>
    simp only [tstep, Bool.false_eq_true, ↓reduceIte, hcr] at hs
    cases prog with
    | nil => simp at hs
    | cons call rest =>
      simp only [Option.some.injEq, Prod.mk.injEq] at hs
      obtain ⟨rfl, rfl⟩ := hs
      refine Or.inr ⟨rfl, call, ?_, ?_, rfl⟩
      · have : (startCall cfg { pc := Pc.idle, prog := rest, cur := some call, slice := slice, filled := filled, view := view, pending := pending, res := none } call).prog = rest := by
          cases call <;> simp only [startCall, Th.goto, Th.ret, prog_enterWfs]
          all_goals (repeat' split)
          all_goals rfl
        simp only [this]
      · have : (startCall cfg { pc := Pc.idle, prog := rest, cur := some call, slice := slice, filled := filled, view := view, pending := pending, res := none } call).prog = rest := by
          cases call <;> simp only [startCall, Th.goto, Th.ret, prog_enterWfs]
          all_goals (repeat' split)
          all_goals rfl
        simp only [this]
  case l21 cpos =>
    simp only [tstep, Bool.false_eq_true, ↓reduceIte, hcr] at hs
    repeat' split at hs
    all_goals (simp only [Option.some.injEq, Prod.mk.injEq] at hs; obtain ⟨rfl, rfl⟩ := hs; exact Or.inl ⟨nofun, rfl⟩)
  case r62 n cpos =>
    simp only [tstep, Bool.false_eq_true, ↓reduceIte, hcr] at hs
    repeat' split at hs
    all_goals (simp only [Option.some.injEq, Prod.mk.injEq] at hs; obtain ⟨rfl, rfl⟩ := hs; exact Or.inl ⟨nofun, rfl⟩)
  case p88 w n cpos ppos =>
    simp only [tstep, Bool.false_eq_true, ↓reduceIte, hcr] at hs
    repeat' split at hs
    all_goals (simp only [Option.some.injEq, Prod.mk.injEq] at hs; obtain ⟨rfl, rfl⟩ := hs; exact Or.inl ⟨nofun, rfl⟩)
  all_goals tstep_norm
  all_goals tstep_elim
  all_goals (refine Or.inl ⟨nofun, ?_⟩)
  all_goals (first | rfl | simp only [prog_rfExit, prog_wfsErr, prog_enterWfs, prog_wcRet, prog_closeRet, prog_wfsOk, Th.goto, Th.ret])

/-! ### phases of a plain producer call -/

def isWrite : Call → Bool
  | .write _ => true
  | _ => false
def isWcommit : Call → Bool
  | .wcommit _ => true
  | _ => false
/-- the call stores the producer cursor when it succeeds -/
def commits (call : Call) : Bool := isWrite call || isWcommit call

/-- `Write(l)`, `WriteWait(l)`, or a `WriteCommit` (whose amount `l` is fixed when it starts) -/
def plainP (call : Call) (l : Nat) : Prop := call = .write l ∨ call = .wwait l ∨ ∃ m, call = .wcommit m

/-- program counters of a plain producer call for `l` bytes before the cursor store -/
def prePc (call : Call) (l : Nat) : Pc → Bool
  | .s30 n | .s31 n | .s32 n _ | .s33 n _ | .s34 n _ | .s35 n _ | .s36 n _ | .s36w n _ | .s37 n _ | .s38 n _ _
  | .s39 n _ => n == l
  | .w40 n | .w41c n _ _ | .w42 n _ => n == l && isWrite call
  | .c50 n _ => n == l && isWcommit call
  | _ => false

/-- …after the cursor store (lock, Broadcast, unlock, return) -/
def postPc (call : Call) (l : Nat) : Pc → Bool
  | .w43 n | .w44 n | .w45 n => n == l && isWrite call
  | .c51 n | .c52 n | .c53 n => n == l && isWcommit call
  | _ => false

/-- at or before the `isDone` entry test of `waitForWriteSpace` -/
def entryPc : Pc → Bool
  | .w40 _ | .s30 _ => true
  | _ => false
/-- not yet past the LAST `isDone` test of the call (mark 39, after the last look at the consumer cursor): every
program counter of `waitForWriteSpace` and the entry of `Write`; after it come only the byte copy and the cursor store -/
def beforeFinal : Pc → Bool
  | .w40 _ | .s30 _ | .s31 _ | .s32 _ _ | .s33 _ _ | .s34 _ _ | .s35 _ _ | .s36 _ _ | .s36w _ _ | .s37 _ _ | .s38 _ _ _
  | .s39 _ _ => true
  | _ => false
def isW40 : Pc → Bool
  | .w40 _ => true
  | _ => false
def at35 : Pc → Bool
  | .s35 _ _ => true
  | _ => false

structure PPre (cfg : Cfg) (call : Call) (l : Nat) (rest : List Call) (sh : Sh) (th : Th) : Prop where
  cur : th.cur = some call
  prog : th.prog = rest
  pc : prePc call l th.pc = true
  d35 : at35 th.pc = true → sh.done = true
  fits : isW40 th.pc = false → l ≤ cfg.size

structure PPost (call : Call) (l : Nat) (rest : List Call) (th : Th) : Prop where
  cur : th.cur = some call
  prog : th.prog = rest
  pc : postPc call l th.pc = true

/-- what one own step of a plain producer call does while the cursor is not yet stored -/
inductive PreOut (cfg : Cfg) (call : Call) (l : Nat) (rest : List Call) (sh sh' : Sh) (th th' : Th) : Prop where
  | stay : PPre cfg call l rest sh' th' → sh'.pseq = sh.pseq →
      (entryPc th.pc = true → entryPc th'.pc = false → sh.done = false) →
      (entryPc th.pc = false → entryPc th'.pc = false) →
      (beforeFinal th.pc = false → beforeFinal th'.pc = false) →
      (beforeFinal th.pc = true → beforeFinal th'.pc = false → sh.done = false ∧ sh.pseq + l ≤ sh.cseq + cfg.size) →
      PreOut cfg call l rest sh sh' th th'
  | commit : commits call = true → PPost call l rest th' → sh'.pseq = sh.pseq + l → entryPc th.pc = false →
      beforeFinal th.pc = false → PreOut cfg call l rest sh sh' th th'
  | ret (r : Res) : th'.pc = .idle → th'.prog = rest → th'.res = some r → sh'.pseq = sh.pseq →
      ((r.err = .eof ∧ sh.done = true) ∨ (r.err = .full ∧ cfg.size < l) ∨
       (r.err = .ok ∧ commits call = false ∧ entryPc th.pc = false ∧ sh.done = false ∧ sh.pseq + l ≤ sh.cseq + cfg.size)) →
      PreOut cfg call l rest sh sh' th th'

theorem pre_own (cfg : Cfg) (base : Nat) (call : Call) (l : Nat) (rest : List Call) (sh sh' : Sh) (th th' : Th)
    (hk : plainP call l) (hg : Glob cfg base sh.core) (hp : pcP cfg sh.core th)
    (hpre : PPre cfg call l rest sh th) (hs : tstep cfg sh .p th = some (sh', th')) :
    PreOut cfg call l rest sh sh' th th' := by
  have hcr := tstep_crash _ _ _ _ _ hs
  obtain ⟨hcur, hprog, hpc, hd35, hfits⟩ := hpre
  obtain ⟨pc, prog, cur, slice, filled, view, pending, res⟩ := th
  simp only at hcur hprog hpc hd35 hfits
  subst hcur hprog
  have hgc : sh.gate ≤ sh.cseq := hg.gc
  cases pc <;> simp only [prePc, Bool.false_eq_true, Bool.and_eq_true, beq_iff_eq] at hpc
  case s30 n =>
    subst hpc
    have hfit : n ≤ cfg.size := hfits rfl
    tstep_norm
    rcases hs with ⟨h1, rfl, rfl⟩ | ⟨h1, rfl, rfl⟩
    · refine .ret { err := .eof } ?_ ?_ ?_ rfl (Or.inl ⟨rfl, h1⟩)
      all_goals (rcases hk with rfl | rfl | ⟨m, rfl⟩ <;> rfl)
    · exact .stay ⟨rfl, rfl, by simp [prePc, Th.goto], nofun, fun _ => hfit⟩ rfl (fun _ _ => by simpa using h1) nofun (fun h => by simp [beforeFinal] at h) (fun _ h => by simp [Th.goto, beforeFinal] at h)
  case s31 n =>
    subst hpc
    have hfit : n ≤ cfg.size := hfits rfl
    tstep_norm
    rcases hs with ⟨h1, rfl, rfl⟩ | ⟨h1, rfl, rfl⟩
    · exact .stay ⟨rfl, rfl, by simp [prePc, Th.goto], nofun, fun _ => hfit⟩ rfl nofun (fun _ => rfl) (fun h => by simp [beforeFinal] at h) (fun _ h => by simp [Th.goto, beforeFinal] at h)
    · exact .stay ⟨rfl, rfl, by simp [prePc, Th.goto], nofun, fun _ => hfit⟩ rfl nofun (fun _ => rfl) (fun h => by simp [beforeFinal] at h) (fun _ h => by simp [Th.goto, beforeFinal] at h)
  case s32 n ppos =>
    subst hpc
    have hfit : n ≤ cfg.size := hfits rfl
    tstep_norm
    obtain ⟨_, rfl, rfl⟩ := hs
    exact .stay ⟨rfl, rfl, by simp [prePc, Th.goto], nofun, fun _ => hfit⟩ (by simp) nofun (fun _ => rfl) (fun h => by simp [beforeFinal] at h) (fun _ h => by simp [Th.goto, beforeFinal] at h)
  case s33 n ppos =>
    subst hpc
    have hfit : n ≤ cfg.size := hfits rfl
    tstep_norm
    rcases hs with ⟨h1, rfl, rfl⟩ | ⟨h1, rfl, rfl⟩
    · exact .stay ⟨rfl, rfl, by simp [prePc, Th.goto], nofun, fun _ => hfit⟩ rfl nofun (fun _ => rfl) (fun h => by simp [beforeFinal] at h) (fun _ h => by simp [Th.goto, beforeFinal] at h)
    · exact .stay ⟨rfl, rfl, by simp [prePc, Th.goto], nofun, fun _ => hfit⟩ rfl nofun (fun _ => rfl) (fun h => by simp [beforeFinal] at h) (fun _ h => by simp [Th.goto, beforeFinal] at h)
  case s34 n ppos =>
    subst hpc
    have hfit : n ≤ cfg.size := hfits rfl
    tstep_norm
    rcases hs with ⟨h1, rfl, rfl⟩ | ⟨h1, rfl, rfl⟩
    · exact .stay ⟨rfl, rfl, by simp [prePc, Th.goto], fun _ => h1, fun _ => hfit⟩ rfl nofun (fun _ => rfl) (fun h => by simp [beforeFinal] at h) (fun _ h => by simp [Th.goto, beforeFinal] at h)
    · exact .stay ⟨rfl, rfl, by simp [prePc, Th.goto], nofun, fun _ => hfit⟩ rfl nofun (fun _ => rfl) (fun h => by simp [beforeFinal] at h) (fun _ h => by simp [Th.goto, beforeFinal] at h)
  case s35 n ppos =>
    subst hpc
    have hdn : sh.done = true := hd35 rfl
    tstep_norm
    obtain ⟨rfl, rfl⟩ := hs
    refine .ret { err := .eof } ?_ ?_ ?_ (by simp) (Or.inl ⟨rfl, hdn⟩)
    all_goals (rcases hk with rfl | rfl | ⟨m, rfl⟩ <;> rfl)
  case s36 n ppos =>
    subst hpc
    have hfit : n ≤ cfg.size := hfits rfl
    tstep_norm
    obtain ⟨rfl, rfl⟩ := hs
    exact .stay ⟨rfl, rfl, by simp [prePc, Th.goto], nofun, fun _ => hfit⟩ (by simp [Sh.park]) nofun (fun _ => rfl) (fun h => by simp [beforeFinal] at h) (fun _ h => by simp [Th.goto, beforeFinal] at h)
  case s36w n ppos =>
    subst hpc
    have hfit : n ≤ cfg.size := hfits rfl
    tstep_norm
    obtain ⟨_, _, rfl, rfl⟩ := hs
    exact .stay ⟨rfl, rfl, by simp [prePc, Th.goto], nofun, fun _ => hfit⟩ (by simp) nofun (fun _ => rfl) (fun h => by simp [beforeFinal] at h) (fun _ h => by simp [Th.goto, beforeFinal] at h)
  case s37 n ppos =>
    subst hpc
    have hfit : n ≤ cfg.size := hfits rfl
    tstep_norm
    rcases hs with ⟨h1, rfl, rfl⟩ | ⟨h1, rfl, rfl⟩
    · exact .stay ⟨rfl, rfl, by simp [prePc, Th.goto], nofun, fun _ => hfit⟩ rfl nofun (fun _ => rfl) (fun h => by simp [beforeFinal] at h) (fun _ h => by simp [Th.goto, beforeFinal] at h)
    · exact .stay ⟨rfl, rfl, by simp [prePc, Th.goto], nofun, fun _ => hfit⟩ rfl nofun (fun _ => rfl) (fun h => by simp [beforeFinal] at h) (fun _ h => by simp [Th.goto, beforeFinal] at h)
  case s38 n ppos cpos =>
    subst hpc
    have hfit : n ≤ cfg.size := hfits rfl
    tstep_norm
    obtain ⟨rfl, rfl⟩ := hs
    exact .stay ⟨rfl, rfl, by simp [prePc, Th.goto], nofun, fun _ => hfit⟩ (by simp) nofun (fun _ => rfl) (fun h => by simp [beforeFinal] at h) (fun _ h => by simp [Th.goto, beforeFinal] at h)
  case s39 n ppos =>
    subst hpc
    have hfit : n ≤ cfg.size := hfits rfl
    simp only [pcP] at hp
    obtain ⟨e1, e2, e3⟩ := hp
    have e1' : ppos = sh.pseq := e1
    have hsp : sh.pseq + n ≤ sh.cseq + cfg.size := by
      have e2' : ppos + n ≤ sh.cseq + cfg.size := e2
      omega
    tstep_norm
    rcases hs with ⟨h1, rfl, rfl⟩ | ⟨h1, rfl, rfl⟩
    · refine .ret { err := .eof } ?_ ?_ ?_ rfl (Or.inl ⟨rfl, h1⟩)
      all_goals (rcases hk with rfl | rfl | ⟨m, rfl⟩ <;> rfl)
    · have hdf : sh.done = false := by simpa using h1
      rcases hk with rfl | rfl | ⟨m, rfl⟩
      · exact .stay ⟨rfl, rfl, by simp [wfsOk, Th.goto, prePc, isWrite], nofun, fun _ => hfit⟩ rfl nofun (fun _ => rfl)
          (fun h => by simp [beforeFinal] at h) (fun _ _ => ⟨hdf, hsp⟩)
      · simp only [wfsOk]
        split
        · exact .ret _ rfl rfl rfl rfl (Or.inr (Or.inr ⟨rfl, rfl, rfl, hdf, hsp⟩))
        · exact .ret _ rfl rfl rfl rfl (Or.inr (Or.inr ⟨rfl, rfl, rfl, hdf, hsp⟩))
      · exact .stay ⟨rfl, rfl, by simp [wfsOk, Th.goto, prePc, isWcommit], nofun, fun _ => hfit⟩ rfl nofun (fun _ => rfl)
          (fun h => by simp [beforeFinal] at h) (fun _ _ => ⟨hdf, hsp⟩)
  case w40 n =>
    obtain ⟨rfl, hw⟩ := hpc
    have hcall : call = .write n := by
      rcases hk with rfl | rfl | ⟨m, rfl⟩ <;> simp [isWrite] at hw ⊢
    subst hcall
    tstep_norm
    rcases hs with ⟨h1, rfl, rfl⟩ | ⟨h1, rfl, rfl⟩
    · exact .ret { err := .eof } rfl rfl rfl rfl (Or.inl ⟨rfl, h1⟩)
    · simp only [enterWfs]
      split
      · rename_i hbig
        exact .ret { err := .full } rfl rfl rfl rfl (Or.inr (Or.inl ⟨rfl, hbig⟩))
      · rename_i hsm
        exact .stay ⟨rfl, rfl, by simp [prePc, Th.goto], nofun, fun _ => by omega⟩ rfl (fun _ h => by simp [Th.goto, entryPc] at h) nofun
          (fun h => by simp [beforeFinal] at h) (fun _ h => by simp [Th.goto, beforeFinal] at h)
  case w41c n ppos j =>
    obtain ⟨rfl, hw⟩ := hpc
    have hfit : n ≤ cfg.size := hfits rfl
    tstep_norm
    rcases hs with ⟨h1, rfl, rfl⟩ | ⟨h1, rfl, rfl⟩
    · exact .stay ⟨rfl, rfl, by simp [prePc, Th.goto, hw], nofun, fun _ => hfit⟩ rfl nofun (fun _ => rfl) (fun _ => rfl) (fun h => by simp [beforeFinal] at h)
    · exact .stay ⟨rfl, rfl, by simp [prePc, Th.goto, hw], nofun, fun _ => hfit⟩ rfl nofun (fun _ => rfl) (fun _ => rfl) (fun h => by simp [beforeFinal] at h)
  case w42 n ppos =>
    obtain ⟨rfl, hw⟩ := hpc
    simp only [pcP] at hp
    have e1' : ppos = sh.pseq := hp.1
    tstep_norm
    obtain ⟨rfl, rfl⟩ := hs
    exact .commit (by simp [commits, hw]) ⟨rfl, rfl, by simp [postPc, Th.goto, hw]⟩ (by show ppos + n = sh.pseq + n; rw [e1']) rfl rfl
  case c50 n ppos =>
    obtain ⟨rfl, hw⟩ := hpc
    simp only [pcP] at hp
    have e1' : ppos = sh.pseq := hp.1
    tstep_norm
    obtain ⟨rfl, rfl⟩ := hs
    exact .commit (by simp [commits, hw]) ⟨rfl, rfl, by simp [postPc, Th.goto, hw]⟩ (by show ppos + n = sh.pseq + n; rw [e1']) rfl rfl

theorem post_own (cfg : Cfg) (call : Call) (l : Nat) (rest : List Call) (sh sh' : Sh) (th th' : Th)
    (hk : plainP call l) (hpost : PPost call l rest th) (hs : tstep cfg sh .p th = some (sh', th')) :
    sh'.pseq = sh.pseq ∧
    (PPost call l rest th' ∨
     (th'.pc = .idle ∧ th'.prog = rest ∧ ∃ r, th'.res = some r ∧ r.err = .ok ∧ r.n = l)) := by
  have hcr := tstep_crash _ _ _ _ _ hs
  obtain ⟨hcur, hprog, hpc⟩ := hpost
  obtain ⟨pc, prog, cur, slice, filled, view, pending, res⟩ := th
  simp only at hcur hprog hpc
  subst hcur hprog
  cases pc <;> simp only [postPc, Bool.false_eq_true, Bool.and_eq_true, beq_iff_eq] at hpc
  case w43 n =>
    obtain ⟨rfl, hw⟩ := hpc
    tstep_norm
    obtain ⟨_, rfl, rfl⟩ := hs
    exact ⟨by simp, Or.inl ⟨rfl, rfl, by simp [postPc, Th.goto, hw]⟩⟩
  case w44 n =>
    obtain ⟨rfl, hw⟩ := hpc
    tstep_norm
    obtain ⟨rfl, rfl⟩ := hs
    exact ⟨by simp [Sh.bcast], Or.inl ⟨rfl, rfl, by simp [postPc, Th.goto, hw]⟩⟩
  case w45 n =>
    obtain ⟨rfl, hw⟩ := hpc
    tstep_norm
    obtain ⟨rfl, rfl⟩ := hs
    exact ⟨by simp, Or.inr ⟨rfl, rfl, _, rfl, rfl, rfl⟩⟩
  case c51 n =>
    obtain ⟨rfl, hw⟩ := hpc
    tstep_norm
    obtain ⟨_, rfl, rfl⟩ := hs
    exact ⟨by simp, Or.inl ⟨rfl, rfl, by simp [postPc, Th.goto, hw]⟩⟩
  case c52 n =>
    obtain ⟨rfl, hw⟩ := hpc
    tstep_norm
    obtain ⟨rfl, rfl⟩ := hs
    exact ⟨by simp [Sh.bcast], Or.inl ⟨rfl, rfl, by simp [postPc, Th.goto, hw]⟩⟩
  case c53 n =>
    obtain ⟨rfl, hw⟩ := hpc
    have hcall : ∃ m, call = .wcommit m := by
      rcases hk with rfl | rfl | ⟨m, rfl⟩ <;> simp [isWcommit] at hw ⊢
    obtain ⟨m, rfl⟩ := hcall
    tstep_norm
    obtain ⟨rfl, rfl⟩ := hs
    exact ⟨by simp, Or.inr ⟨rfl, rfl, _, rfl, rfl, rfl⟩⟩

/-- the number of bytes a plain producer call asks for (fixed when the call starts) -/
def amount (call : Call) (th : Th) : Nat :=
  match call with
  | .write n | .wwait n => n
  | .wcommit m => min m th.filled
  | _ => 0

theorem plainP_amount (call : Call) (th : Th) (h : (∃ n, call = .write n) ∨ (∃ n, call = .wwait n) ∨ ∃ m, call = .wcommit m) :
    plainP call (amount call th) := by
  rcases h with ⟨n, rfl⟩ | ⟨n, rfl⟩ | ⟨m, rfl⟩
  · exact Or.inl rfl
  · exact Or.inr (Or.inl rfl)
  · exact Or.inr (Or.inr ⟨m, rfl⟩)

/-- the first step of a plain producer call: the size test of `WriteWait` / `WriteCommit` -/
theorem start_own (cfg : Cfg) (call : Call) (rest : List Call) (sh sh' : Sh) (th th' : Th)
    (hk : (∃ n, call = .write n) ∨ (∃ n, call = .wwait n) ∨ ∃ m, call = .wcommit m)
    (hidle : th.pc = .idle) (hprog : th.prog = call :: rest) (hs : tstep cfg sh .p th = some (sh', th')) :
    sh' = sh ∧
    ((PPre cfg call (amount call th) rest sh th' ∧ entryPc th'.pc = true) ∨
     (th'.pc = .idle ∧ th'.prog = rest ∧ ∃ r, th'.res = some r ∧ r.err = .full ∧ cfg.size < amount call th)) := by
  have hcr := tstep_crash _ _ _ _ _ hs
  obtain ⟨pc, prog, cur, slice, filled, view, pending, res⟩ := th
  simp only at hidle hprog
  subst hidle hprog
  simp only [tstep, Bool.false_eq_true, ↓reduceIte, hcr, Option.some.injEq, Prod.mk.injEq] at hs
  obtain ⟨rfl, rfl⟩ := hs
  refine ⟨rfl, ?_⟩
  rcases hk with ⟨n, rfl⟩ | ⟨n, rfl⟩ | ⟨m, rfl⟩
  · left
    exact ⟨⟨rfl, rfl, by simp [startCall, Th.goto, prePc, amount, isWrite], nofun, fun h => by simp [startCall, Th.goto, isW40] at h⟩, rfl⟩
  · simp only [startCall, enterWfs, amount]
    split
    · rename_i hbig
      right
      exact ⟨rfl, rfl, _, rfl, rfl, hbig⟩
    · rename_i hsm
      left
      exact ⟨⟨rfl, rfl, by simp [Th.goto, prePc], nofun, fun _ => by omega⟩, rfl⟩
  · simp only [startCall, enterWfs, amount]
    split
    · rename_i hbig
      right
      exact ⟨rfl, rfl, _, rfl, rfl, hbig⟩
    · rename_i hsm
      left
      exact ⟨⟨rfl, rfl, by simp [Th.goto, prePc], nofun, fun _ => by omega⟩, rfl⟩

/-! ### following the producer through a schedule -/

/-- decomposition of a producer step -/
theorem step_p (cfg : Cfg) (s s' : St) (hs : step cfg s .p = some s') :
    tstep cfg s.sh .p s.P = some (s'.sh, s'.P) ∧ s'.C = s.C ∧ s'.K = s.K := by
  obtain ⟨th, sh', th', hth, hst, rfl⟩ := step_some cfg s s' .p hs
  simp only [St.getTh, Option.some.injEq] at hth
  subst hth
  exact ⟨hst, rfl, rfl⟩

theorem prog_len_run (cfg : Cfg) (s : St) (sched : List Tid) : (run cfg s sched).P.prog.length ≤ s.P.prog.length := by
  induction sched generalizing s with
  | nil => exact Nat.le_refl _
  | cons t ts ih =>
    rw [run_cons]
    cases hs : step cfg s t with
    | none => exact ih s
    | some s' =>
      refine Nat.le_trans (ih s') ?_
      by_cases hp : t = .p
      · subst hp
        obtain ⟨hst, _, _⟩ := step_p cfg s s' hs
        rcases tstep_prog cfg _ _ _ _ _ hst with ⟨_, e⟩ | ⟨_, c, e, _⟩
        · rw [e]; exact Nat.le_refl _
        · rw [e]; simp
      · rw [step_P_other cfg s s' t hs hp]; exact Nat.le_refl _

/-- a producer that is between two calls and still has the same program has not moved -/
theorem idle_frame (cfg : Cfg) (base : Nat) (s : St) (sched : List Tid) (h : RInv cfg base s) (hidle : s.P.pc = .idle)
    (hprog : (run cfg s sched).P.prog = s.P.prog) :
    (run cfg s sched).P = s.P ∧ (run cfg s sched).sh.pseq = s.sh.pseq := by
  induction sched generalizing s with
  | nil => exact ⟨rfl, rfl⟩
  | cons t ts ih =>
    rw [run_cons] at hprog ⊢
    cases hs : step cfg s t with
    | none => rw [hs] at hprog; exact ih s h hidle hprog
    | some s' =>
      rw [hs] at hprog
      simp only [Option.getD_some] at hprog ⊢
      by_cases hp : t = .p
      · subst hp
        exfalso
        obtain ⟨hst, _, _⟩ := step_p cfg s s' hs
        rcases tstep_prog cfg _ _ _ _ _ hst with ⟨e, _⟩ | ⟨_, c, e, _⟩
        · exact e hidle
        · have := prog_len_run cfg s' ts
          rw [hprog, e] at this
          simp at this
          omega
      · have e := step_P_other cfg s s' t hs hp
        have := ih s' (inv_step cfg base s s' t h hs) (by rw [e]; exact hidle) (by rw [e]; exact hprog)
        rw [e, step_pseq cfg base s s' t h hs hp] at this
        exact this

/-- thread `p` has returned from its call: between two calls, the rest of its program still to run, result `r` -/
def pRet (a : St) (rest : List Call) (r : Res) : Prop := a.P.pc = .idle ∧ a.P.prog = rest ∧ a.P.res = some r

instance (a : St) (rest : List Call) (r : Res) : Decidable (pRet a rest r) := by unfold pRet; infer_instance

/-- the linearisation step of a producer commit of `l` bytes: an own step `x → y` of thread `p` before which
`buf + l ≤ cap` holds and which adds `l` to the producer cursor and changes nothing else `absRing` sees -/
def LinP (cfg : Cfg) (l : Nat) (x y : St) : Prop :=
  step cfg x .p = some y ∧ x.sh.pseq + l ≤ x.sh.cseq + cfg.size ∧ y.sh.pseq = x.sh.pseq + l ∧
    y.sh.cseq = x.sh.cseq ∧ y.sh.done = x.sh.done

/-- the linearisation step of `waitForWriteSpace(l)` answering `ok`: an own step `x → y` of thread `p` — its LAST `isDone`
test — before which the ring is open and `buf + l ≤ cap` holds, and which changes nothing `absRing` sees -/
def LinW (cfg : Cfg) (l : Nat) (x y : St) : Prop :=
  step cfg x .p = some y ∧ x.sh.done = false ∧ x.sh.pseq + l ≤ x.sh.cseq + cfg.size ∧ y.sh.pseq = x.sh.pseq ∧
    y.sh.cseq = x.sh.cseq ∧ y.sh.done = x.sh.done

theorem pcall_post (cfg : Cfg) (base : Nat) (call : Call) (l : Nat) (rest : List Call) (hk : plainP call l)
    (s : St) (sched : List Tid) (h : RInv cfg base s) (hp : PPost call l rest s.P) (r : Res)
    (hret : pRet (run cfg s sched) rest r) :
    r.err = .ok ∧ r.n = l ∧ (run cfg s sched).sh.pseq = s.sh.pseq := by
  induction sched generalizing s with
  | nil =>
    exfalso
    have h1 : s.P.pc = .idle := hret.1
    have h2 := hp.pc
    rw [h1] at h2
    simp [postPc] at h2
  | cons t ts ih =>
    rw [run_cons] at hret ⊢
    cases hs : step cfg s t with
    | none => rw [hs] at hret; exact ih s h hp hret
    | some s' =>
      rw [hs] at hret
      simp only [Option.getD_some] at hret ⊢
      have h' := inv_step cfg base s s' t h hs
      by_cases htp : t = .p
      · subst htp
        obtain ⟨hst, _, _⟩ := step_p cfg s s' hs
        obtain ⟨e, hcase⟩ := post_own cfg call l rest _ _ _ _ hk hp hst
        rcases hcase with hpost | ⟨hi, hpr, r1, hr1, hok, hn⟩
        · obtain ⟨a, b, c⟩ := ih s' h' hpost hret
          exact ⟨a, b, by rw [c, e]⟩
        · obtain ⟨f1, f2⟩ := idle_frame cfg base s' ts h' hi (by rw [hret.2.1, hpr])
          have hr : (run cfg s' ts).P.res = some r := hret.2.2
          rw [f1, hr1] at hr
          cases hr
          exact ⟨hok, hn, by rw [f2, e]⟩
      · have e := step_P_other cfg s s' t hs htp
        obtain ⟨a, b, c⟩ := ih s' h' (by rw [e]; exact hp) hret
        exact ⟨a, b, by rw [c, step_pseq cfg base s s' t h hs htp]⟩

theorem prePc_not_x10 (call : Call) (l : Nat) (pc : Pc) (h : prePc call l pc = true) : pc ≠ .x10 := by
  intro e; rw [e] at h; simp [prePc] at h

/-- the call-level contract of a plain producer call, seen from a state `s` inside the call -/
structure PConcl (cfg : Cfg) (call : Call) (l : Nat) (s : St) (sched : List Tid) (r : Res) : Prop where
  err : r.err = .ok ∨ r.err = .eof ∨ r.err = .full
  eof : r.err = .eof → (run cfg s sched).sh.done = true ∧ (run cfg s sched).sh.pseq = s.sh.pseq
  full : r.err = .full → cfg.size < l ∧ (run cfg s sched).sh.pseq = s.sh.pseq
  okd : r.err = .ok → entryPc s.P.pc = true → s.sh.done = false
  okc : r.err = .ok → commits call = true → r.n = l ∧ (run cfg s sched).sh.pseq = s.sh.pseq + l ∧
      ∃ pre post, sched = pre ++ .p :: post ∧ LinP cfg l (run cfg s pre) (run cfg s (pre ++ [.p]))
  okw : r.err = .ok → commits call = false → (run cfg s sched).sh.pseq = s.sh.pseq ∧
      (run cfg s sched).sh.pseq + l ≤ (run cfg s sched).sh.cseq + cfg.size
  okt : r.err = .ok → beforeFinal s.P.pc = true →
      ∃ pre post, sched = pre ++ .p :: post ∧ LinW cfg l (run cfg s pre) (run cfg s (pre ++ [.p])) ∧
        (commits call = true → ∃ mid post', post = mid ++ .p :: post' ∧
          LinP cfg l (run cfg s (pre ++ .p :: mid)) (run cfg s (pre ++ .p :: mid ++ [.p])))

theorem pcall_pre (cfg : Cfg) (base : Nat) (call : Call) (l : Nat) (rest : List Call) (hk : plainP call l)
    (s : St) (sched : List Tid) (h : RInv cfg base s) (hp : PPre cfg call l rest s.sh s.P) (r : Res)
    (hret : pRet (run cfg s sched) rest r) : PConcl cfg call l s sched r := by
  induction sched generalizing s with
  | nil =>
    exfalso
    have h1 : s.P.pc = .idle := hret.1
    have h2 := hp.pc
    rw [h1] at h2
    simp [prePc] at h2
  | cons t ts ih =>
    -- prepending a step that is skipped, or taken, to a decomposition of the rest
    have liftT : ∀ (s' : St), (∀ pre : List Tid, run cfg s (t :: pre) = run cfg s' pre) →
        (∃ pre post, ts = pre ++ .p :: post ∧ LinW cfg l (run cfg s' pre) (run cfg s' (pre ++ [.p])) ∧
          (commits call = true → ∃ mid post', post = mid ++ .p :: post' ∧
            LinP cfg l (run cfg s' (pre ++ .p :: mid)) (run cfg s' (pre ++ .p :: mid ++ [.p])))) →
        (∃ pre post, t :: ts = pre ++ .p :: post ∧ LinW cfg l (run cfg s pre) (run cfg s (pre ++ [.p])) ∧
          (commits call = true → ∃ mid post', post = mid ++ .p :: post' ∧
            LinP cfg l (run cfg s (pre ++ .p :: mid)) (run cfg s (pre ++ .p :: mid ++ [.p])))) := by
      intro s' hpre1 ⟨pre, post, b3, b4, b5⟩
      refine ⟨t :: pre, post, by rw [b3]; rfl, ?_, fun hc => ?_⟩
      · rw [hpre1 pre, show t :: pre ++ [Tid.p] = t :: (pre ++ [Tid.p]) from rfl, hpre1]; exact b4
      · obtain ⟨mid, post', c1, c2⟩ := b5 hc
        refine ⟨mid, post', c1, ?_⟩
        rw [show t :: pre ++ Tid.p :: mid = t :: (pre ++ Tid.p :: mid) from rfl, hpre1,
          show t :: (pre ++ Tid.p :: mid) ++ [Tid.p] = t :: (pre ++ Tid.p :: mid ++ [Tid.p]) from rfl, hpre1]
        exact c2
    have liftC : ∀ (s' : St), (∀ pre : List Tid, run cfg s (t :: pre) = run cfg s' pre) →
        (∃ pre post, ts = pre ++ .p :: post ∧ LinP cfg l (run cfg s' pre) (run cfg s' (pre ++ [.p]))) →
        (∃ pre post, t :: ts = pre ++ .p :: post ∧ LinP cfg l (run cfg s pre) (run cfg s (pre ++ [.p]))) := by
      intro s' hpre1 ⟨pre, post, b3, b4⟩
      refine ⟨t :: pre, post, by rw [b3]; rfl, ?_⟩
      rw [hpre1 pre, show t :: pre ++ [Tid.p] = t :: (pre ++ [Tid.p]) from rfl, hpre1]; exact b4
    cases hs : step cfg s t with
    | none =>
      have hrun : run cfg s (t :: ts) = run cfg s ts := by rw [run_cons, hs]; rfl
      have hpre1 : ∀ pre : List Tid, run cfg s (t :: pre) = run cfg s pre := fun pre => by rw [run_cons, hs]; rfl
      rw [hrun] at hret
      obtain ⟨a1, a2, a3, a4, a5, a6, a7⟩ := ih s h hp hret
      refine ⟨a1, by rw [hrun]; exact a2, by rw [hrun]; exact a3, a4, ?_, by rw [hrun]; exact a6, ?_⟩
      · intro hok hc
        obtain ⟨b1, b2, hex⟩ := a5 hok hc
        exact ⟨b1, by rw [hrun]; exact b2, liftC s hpre1 hex⟩
      · intro hok hb
        exact liftT s hpre1 (a7 hok hb)
    | some s' =>
      have hrun : run cfg s (t :: ts) = run cfg s' ts := by rw [run_cons, hs]; rfl
      rw [hrun] at hret
      have h' := inv_step cfg base s s' t h hs
      have hpre1 : ∀ pre : List Tid, run cfg s (t :: pre) = run cfg s' pre := fun pre => by rw [run_cons, hs]; rfl
      -- lifting the conclusion for `s'` to `s` when the step kept the producer cursor and the phase before / after the last test
      have lift : s'.sh.pseq = s.sh.pseq → PConcl cfg call l s' ts r → (r.err = .ok → entryPc s.P.pc = true → s.sh.done = false) →
          (beforeFinal s.P.pc = true → beforeFinal s'.P.pc = true) →
          PConcl cfg call l s (t :: ts) r := by
        intro epseq ⟨a1, a2, a3, a4, a5, a6, a7⟩ hd hbf
        refine ⟨a1, ?_, ?_, hd, ?_, ?_, ?_⟩
        · intro he; rw [hrun]; obtain ⟨x, y⟩ := a2 he; exact ⟨x, by rw [y, epseq]⟩
        · intro he; rw [hrun]; obtain ⟨x, y⟩ := a3 he; exact ⟨x, by rw [y, epseq]⟩
        · intro hok hc
          obtain ⟨b1, b2, hex⟩ := a5 hok hc
          exact ⟨b1, by rw [hrun, b2, epseq], liftC s' hpre1 hex⟩
        · intro hok hc
          rw [hrun]; obtain ⟨x, y⟩ := a6 hok hc; exact ⟨by rw [x, epseq], y⟩
        · intro hok hb
          exact liftT s' hpre1 (a7 hok (hbf hb))
      by_cases htp : t = .p
      · subst htp
        obtain ⟨hst, _, _⟩ := step_p cfg s s' hs
        have hdn : s'.sh.done = s.sh.done := by
          rcases tstep_done cfg _ _ _ _ _ hst with e | ⟨e, _⟩
          · exact e
          · exact absurd e (prePc_not_x10 call l _ hp.pc)
        have hcs : s'.sh.cseq = s.sh.cseq := step_cseq cfg base s s' .p h hs (by simp)
        have hone : run cfg s ([] ++ [Tid.p]) = s' := by
          show run cfg s [Tid.p] = s'
          rw [run_one, hs]; rfl
        cases pre_own cfg base call l rest _ _ _ _ hk h.glob h.invP.pcinv hp hst with
        | stay hpre' epseq hent hnent hbf5 hbf6 =>
          have IH := ih s' h' hpre' hret
          by_cases hb' : beforeFinal s'.P.pc = true
          · refine lift epseq IH ?_ (fun _ => hb')
            intro hok he
            by_cases he' : entryPc s'.P.pc = true
            · have := IH.okd hok he'
              rw [← hdn]; exact this
            · exact hent he (by simpa using he')
          · -- this step is the last `isDone` test, passed
            have hb'' : beforeFinal s'.P.pc = false := by simpa using hb'
            obtain ⟨a1, a2, a3, a4, a5, a6, a7⟩ := IH
            refine ⟨a1, ?_, ?_, ?_, ?_, ?_, ?_⟩
            · intro he; rw [hrun]; obtain ⟨x, y⟩ := a2 he; exact ⟨x, by rw [y, epseq]⟩
            · intro he; rw [hrun]; obtain ⟨x, y⟩ := a3 he; exact ⟨x, by rw [y, epseq]⟩
            · intro hok he
              by_cases hbs : beforeFinal s.P.pc = true
              · exact (hbf6 hbs hb'').1
              · exact absurd (by cases hpc : s.P.pc <;> rw [hpc] at he <;> simp [entryPc, beforeFinal] at he ⊢) hbs
            · intro hok hc
              obtain ⟨b1, b2, hex⟩ := a5 hok hc
              exact ⟨b1, by rw [hrun, b2, epseq], liftC s' hpre1 hex⟩
            · intro hok hc
              rw [hrun]; obtain ⟨x, y⟩ := a6 hok hc; exact ⟨by rw [x, epseq], y⟩
            · intro hok hb
              obtain ⟨hd0, hsp⟩ := hbf6 hb hb''
              refine ⟨[], ts, rfl, ?_, fun hc => ?_⟩
              · rw [hone]; exact ⟨hs, hd0, hsp, epseq, hcs, hdn⟩
              · obtain ⟨_, _, pre', post', c1, c2⟩ := a5 hok hc
                refine ⟨pre', post', c1, ?_⟩
                rw [show ([] : List Tid) ++ Tid.p :: pre' = Tid.p :: pre' from rfl, hpre1,
                  show Tid.p :: pre' ++ [Tid.p] = Tid.p :: (pre' ++ [Tid.p]) from rfl, hpre1]
                exact c2
        | commit hc hpost epseq hnent hnb =>
          obtain ⟨b1, b2, b3⟩ := pcall_post cfg base call l rest hk s' ts h' hpost r hret
          have hguard : s.sh.pseq + l ≤ s.sh.cseq + cfg.size := by
            have := h'.glob.pc
            have this' : s'.sh.pseq ≤ s'.sh.cseq + cfg.size := this
            omega
          refine ⟨Or.inl b1, ?_, ?_, ?_, ?_, ?_, ?_⟩
          · intro he; rw [he] at b1; cases b1
          · intro he; rw [he] at b1; cases b1
          · intro _ he; rw [hnent] at he; cases he
          · intro _ _
            refine ⟨b2, by rw [hrun, b3, epseq], [], ts, rfl, ?_⟩
            rw [hone]
            exact ⟨hs, hguard, epseq, hcs, hdn⟩
          · intro _ hc'; rw [hc] at hc'; cases hc'
          · intro _ hb; rw [hnb] at hb; cases hb
        | ret r1 hi hpr hr1 epseq hcase =>
          obtain ⟨f1, f2⟩ := idle_frame cfg base s' ts h' hi (by rw [hret.2.1, hpr])
          have hr : (run cfg s' ts).P.res = some r := hret.2.2
          rw [f1, hr1] at hr
          cases hr
          have hm := run_mono cfg base s' ts h'
          refine ⟨?_, ?_, ?_, ?_, ?_, ?_, ?_⟩
          · rcases hcase with ⟨a, _⟩ | ⟨a, _⟩ | ⟨a, _⟩
            · exact Or.inr (Or.inl a)
            · exact Or.inr (Or.inr a)
            · exact Or.inl a
          · intro he
            rw [hrun]
            refine ⟨?_, by rw [f2, epseq]⟩
            rcases hcase with ⟨_, a⟩ | ⟨a, _⟩ | ⟨a, _⟩
            · exact run_done_mono cfg s' ts (by rw [hdn]; exact a)
            · rw [he] at a; cases a
            · rw [he] at a; cases a
          · intro he
            rw [hrun]
            refine ⟨?_, by rw [f2, epseq]⟩
            rcases hcase with ⟨a, _⟩ | ⟨_, a⟩ | ⟨a, _⟩
            · rw [he] at a; cases a
            · exact a
            · rw [he] at a; cases a
          · intro hok he
            rcases hcase with ⟨a, _⟩ | ⟨a, _⟩ | ⟨_, _, a, _⟩
            · rw [hok] at a; cases a
            · rw [hok] at a; cases a
            · rw [he] at a; cases a
          · intro hok hc
            rcases hcase with ⟨a, _⟩ | ⟨a, _⟩ | ⟨_, a, _, _⟩
            · rw [hok] at a; cases a
            · rw [hok] at a; cases a
            · rw [hc] at a; cases a
          · intro hok hc
            rw [hrun]
            rcases hcase with ⟨a, _⟩ | ⟨a, _⟩ | ⟨_, _, _, _, a⟩
            · rw [hok] at a; cases a
            · rw [hok] at a; cases a
            · refine ⟨by rw [f2, epseq], ?_⟩
              have := hm.2
              rw [f2, epseq]
              omega
          · intro hok hb
            rcases hcase with ⟨a, _⟩ | ⟨a, _⟩ | ⟨_, hnc, _, hd0, hsp⟩
            · rw [hok] at a; cases a
            · rw [hok] at a; cases a
            · refine ⟨[], ts, rfl, ?_, fun hc => ?_⟩
              · rw [hone]; exact ⟨hs, hd0, hsp, epseq, hcs, hdn⟩
              · rw [hnc] at hc; cases hc
      · have e := step_P_other cfg s s' t hs htp
        have epseq := step_pseq cfg base s s' t h hs htp
        have hpre' : PPre cfg call l rest s'.sh s'.P := by
          rw [e]
          exact ⟨hp.cur, hp.prog, hp.pc, fun h35 => step_done_mono cfg s s' t hs (hp.d35 h35), hp.fits⟩
        refine lift epseq (ih s' h' hpre' hret) ?_ (fun hb => by rw [e]; exact hb)
        intro hok he
        have := (ih s' h' hpre' hret).okd hok (by rw [e]; exact he)
        cases hd : s.sh.done with
        | false => rfl
        | true => rw [step_done_mono cfg s s' t hs hd] at this; cases this

/-- **`Close` makes a blocked or later producer call fail**: a call that has not yet passed its last `isDone` test when
`done` is set does not return `ok` -/
theorem pcall_closed (cfg : Cfg) (base : Nat) (call : Call) (l : Nat) (rest : List Call) (hk : plainP call l)
    (s : St) (sched : List Tid) (h : RInv cfg base s) (hp : PPre cfg call l rest s.sh s.P)
    (hb : beforeFinal s.P.pc = true) (hd : s.sh.done = true) (r : Res)
    (hret : pRet (run cfg s sched) rest r) : r.err ≠ .ok := by
  intro hok
  obtain ⟨pre, post, _, hlin, _⟩ := (pcall_pre cfg base call l rest hk s sched h hp r hret).okt hok hb
  have := run_done_mono cfg s pre hd
  rw [hlin.2.1] at this
  cases this

/-- the call-level contract of a plain producer call, from the state in which it is about to start -/
structure PStartConcl (cfg : Cfg) (call : Call) (l : Nat) (s : St) (sched : List Tid) (r : Res) : Prop where
  err : r.err = .ok ∨ r.err = .eof ∨ r.err = .full
  eof : r.err = .eof → (run cfg s sched).sh.done = true ∧ (run cfg s sched).sh.pseq = s.sh.pseq
  full : r.err = .full → cfg.size < l ∧ (run cfg s sched).sh.pseq = s.sh.pseq
  okd : r.err = .ok → s.sh.done = false
  okc : r.err = .ok → commits call = true → r.n = l ∧ (run cfg s sched).sh.pseq = s.sh.pseq + l ∧
      ∃ pre post, sched = pre ++ .p :: post ∧ LinP cfg l (run cfg s pre) (run cfg s (pre ++ [.p]))
  okw : r.err = .ok → commits call = false → (run cfg s sched).sh.pseq = s.sh.pseq ∧
      (run cfg s sched).sh.pseq + l ≤ (run cfg s sched).sh.cseq + cfg.size
  okt : r.err = .ok →
      ∃ pre post, sched = pre ++ .p :: post ∧ LinW cfg l (run cfg s pre) (run cfg s (pre ++ [.p])) ∧
        (commits call = true → ∃ mid post', post = mid ++ .p :: post' ∧
          LinP cfg l (run cfg s (pre ++ .p :: mid)) (run cfg s (pre ++ .p :: mid ++ [.p])))

theorem pcall_start (cfg : Cfg) (base : Nat) (call : Call) (rest : List Call)
    (hk : (∃ n, call = .write n) ∨ (∃ n, call = .wwait n) ∨ ∃ m, call = .wcommit m)
    (s : St) (sched : List Tid) (h : RInv cfg base s) (hidle : s.P.pc = .idle) (hprog : s.P.prog = call :: rest) (r : Res)
    (hret : pRet (run cfg s sched) rest r) : PStartConcl cfg call (amount call s.P) s sched r := by
  induction sched generalizing s with
  | nil =>
    exfalso
    have h2 : s.P.prog = rest := hret.2.1
    rw [hprog] at h2
    have := congrArg List.length h2
    simp at this
  | cons t ts ih =>
    have liftT : ∀ (s' : St) (l : Nat), (∀ pre : List Tid, run cfg s (t :: pre) = run cfg s' pre) →
        (∃ pre post, ts = pre ++ .p :: post ∧ LinW cfg l (run cfg s' pre) (run cfg s' (pre ++ [.p])) ∧
          (commits call = true → ∃ mid post', post = mid ++ .p :: post' ∧
            LinP cfg l (run cfg s' (pre ++ .p :: mid)) (run cfg s' (pre ++ .p :: mid ++ [.p])))) →
        (∃ pre post, t :: ts = pre ++ .p :: post ∧ LinW cfg l (run cfg s pre) (run cfg s (pre ++ [.p])) ∧
          (commits call = true → ∃ mid post', post = mid ++ .p :: post' ∧
            LinP cfg l (run cfg s (pre ++ .p :: mid)) (run cfg s (pre ++ .p :: mid ++ [.p])))) := by
      intro s' l hpre1 ⟨pre, post, b3, b4, b5⟩
      refine ⟨t :: pre, post, by rw [b3]; rfl, ?_, fun hc => ?_⟩
      · rw [hpre1 pre, show t :: pre ++ [Tid.p] = t :: (pre ++ [Tid.p]) from rfl, hpre1]; exact b4
      · obtain ⟨mid, post', c1, c2⟩ := b5 hc
        refine ⟨mid, post', c1, ?_⟩
        rw [show t :: pre ++ Tid.p :: mid = t :: (pre ++ Tid.p :: mid) from rfl, hpre1,
          show t :: (pre ++ Tid.p :: mid) ++ [Tid.p] = t :: (pre ++ Tid.p :: mid ++ [Tid.p]) from rfl, hpre1]
        exact c2
    have liftC : ∀ (s' : St) (l : Nat), (∀ pre : List Tid, run cfg s (t :: pre) = run cfg s' pre) →
        (∃ pre post, ts = pre ++ .p :: post ∧ LinP cfg l (run cfg s' pre) (run cfg s' (pre ++ [.p]))) →
        (∃ pre post, t :: ts = pre ++ .p :: post ∧ LinP cfg l (run cfg s pre) (run cfg s (pre ++ [.p]))) := by
      intro s' l hpre1 ⟨pre, post, b3, b4⟩
      refine ⟨t :: pre, post, by rw [b3]; rfl, ?_⟩
      rw [hpre1 pre, show t :: pre ++ [Tid.p] = t :: (pre ++ [Tid.p]) from rfl, hpre1]; exact b4
    cases hs : step cfg s t with
    | none =>
      have hrun : run cfg s (t :: ts) = run cfg s ts := by rw [run_cons, hs]; rfl
      have hpre1 : ∀ pre : List Tid, run cfg s (t :: pre) = run cfg s pre := fun pre => by rw [run_cons, hs]; rfl
      rw [hrun] at hret
      obtain ⟨a1, a2, a3, a4, a5, a6, a7⟩ := ih s h hidle hprog hret
      refine ⟨a1, by rw [hrun]; exact a2, by rw [hrun]; exact a3, a4, ?_, by rw [hrun]; exact a6, ?_⟩
      · intro hok hc
        obtain ⟨b1, b2, hex⟩ := a5 hok hc
        exact ⟨b1, by rw [hrun]; exact b2, liftC s _ hpre1 hex⟩
      · intro hok
        exact liftT s _ hpre1 (a7 hok)
    | some s' =>
      have hrun : run cfg s (t :: ts) = run cfg s' ts := by rw [run_cons, hs]; rfl
      rw [hrun] at hret
      have h' := inv_step cfg base s s' t h hs
      have hpre1 : ∀ pre : List Tid, run cfg s (t :: pre) = run cfg s' pre := fun pre => by rw [run_cons, hs]; rfl
      by_cases htp : t = .p
      · subst htp
        obtain ⟨hst, _, _⟩ := step_p cfg s s' hs
        obtain ⟨esh, hcase⟩ := start_own cfg call rest _ _ _ _ hk hidle hprog hst
        have esh' : s'.sh = s.sh := esh
        rcases hcase with ⟨hpre', hent⟩ | ⟨hi, hpr, r1, hr1, hfull, hbig⟩
        · have hbf : beforeFinal s'.P.pc = true := by
            cases hpc : s'.P.pc <;> rw [hpc] at hent <;> simp [entryPc, beforeFinal] at hent ⊢
          obtain ⟨a1, a2, a3, a4, a5, a6, a7⟩ := pcall_pre cfg base call _ rest (plainP_amount call s.P hk) s' ts h' (by rw [esh']; exact hpre') r hret
          refine ⟨a1, ?_, ?_, ?_, ?_, ?_, ?_⟩
          · intro he; rw [hrun]; obtain ⟨x, y⟩ := a2 he; exact ⟨x, by rw [y, esh']⟩
          · intro he; rw [hrun]; obtain ⟨x, y⟩ := a3 he; exact ⟨x, by rw [y, esh']⟩
          · intro hok; rw [← esh']; exact a4 hok hent
          · intro hok hc
            obtain ⟨b1, b2, hex⟩ := a5 hok hc
            exact ⟨b1, by rw [hrun, b2, esh'], liftC s' _ hpre1 hex⟩
          · intro hok hc
            rw [hrun]; obtain ⟨x, y⟩ := a6 hok hc; exact ⟨by rw [x, esh'], y⟩
          · intro hok
            exact liftT s' _ hpre1 (a7 hok hbf)
        · obtain ⟨f1, f2⟩ := idle_frame cfg base s' ts h' hi (by rw [hret.2.1, hpr])
          have hr : (run cfg s' ts).P.res = some r := hret.2.2
          rw [f1, hr1] at hr
          cases hr
          refine ⟨Or.inr (Or.inr hfull), ?_, ?_, ?_, ?_, ?_, ?_⟩
          · intro he; rw [he] at hfull; cases hfull
          · intro _; rw [hrun]; exact ⟨hbig, by rw [f2, esh']⟩
          · intro he; rw [he] at hfull; cases hfull
          · intro he; rw [he] at hfull; cases hfull
          · intro he; rw [he] at hfull; cases hfull
          · intro he; rw [he] at hfull; cases hfull
      · have e := step_P_other cfg s s' t hs htp
        have epseq := step_pseq cfg base s s' t h hs htp
        obtain ⟨a1, a2, a3, a4, a5, a6, a7⟩ := ih s' h' (by rw [e]; exact hidle) (by rw [e]; exact hprog) hret
        rw [e] at a3 a5 a6 a7
        refine ⟨a1, ?_, ?_, ?_, ?_, ?_, ?_⟩
        · intro he; rw [hrun]; obtain ⟨x, y⟩ := a2 he; exact ⟨x, by rw [y, epseq]⟩
        · intro he; rw [hrun]; obtain ⟨x, y⟩ := a3 he; exact ⟨x, by rw [y, epseq]⟩
        · intro hok
          have := a4 hok
          cases hd : s.sh.done with
          | false => rfl
          | true => rw [step_done_mono cfg s s' t hs hd] at this; cases this
        · intro hok hc
          obtain ⟨b1, b2, hex⟩ := a5 hok hc
          exact ⟨b1, by rw [hrun, b2, epseq], liftC s' _ hpre1 hex⟩
        · intro hok hc
          rw [hrun]; obtain ⟨x, y⟩ := a6 hok hc; exact ⟨by rw [x, epseq], y⟩
        · intro hok
          exact liftT s' _ hpre1 (a7 hok)

/-! ### where the producer is after any schedule -/

/-- the call is over: the producer is between this call and the next, or further on -/
def pOver (rest : List Call) (a : St) : Prop := (a.P.prog = rest ∧ a.P.pc = .idle) ∨ a.P.prog.length < rest.length

inductive PPhase (cfg : Cfg) (call : Call) (l : Nat) (rest : List Call) (a : St) : Prop where
  | notStarted : a.P.pc = .idle → a.P.prog = call :: rest → amount call a.P = l → PPhase cfg call l rest a
  | pre : PPre cfg call l rest a.sh a.P → PPhase cfg call l rest a
  | post : PPost call l rest a.P → PPhase cfg call l rest a
  | over : pOver rest a → PPhase cfg call l rest a

theorem plainP_kind (call : Call) (l : Nat) (h : plainP call l) :
    (∃ n, call = .write n) ∨ (∃ n, call = .wwait n) ∨ ∃ m, call = .wcommit m := by
  rcases h with rfl | rfl | ⟨m, rfl⟩
  · exact Or.inl ⟨_, rfl⟩
  · exact Or.inr (Or.inl ⟨_, rfl⟩)
  · exact Or.inr (Or.inr ⟨m, rfl⟩)

theorem pOver_step (cfg : Cfg) (rest : List Call) (s s' : St) (t : Tid) (hs : step cfg s t = some s')
    (ho : pOver rest s) : pOver rest s' := by
  by_cases htp : t = .p
  · subst htp
    obtain ⟨hst, _, _⟩ := step_p cfg s s' hs
    rcases tstep_prog cfg _ _ _ _ _ hst with ⟨hne, e⟩ | ⟨_, c, e, _⟩
    · rcases ho with ⟨_, hi⟩ | hlt
      · exact absurd hi hne
      · exact Or.inr (by rw [e]; exact hlt)
    · rcases ho with ⟨hpr, _⟩ | hlt
      · right; rw [← hpr, e]; simp
      · right; rw [e] at hlt; simp at hlt; omega
  · rw [pOver, step_P_other cfg s s' t hs htp]; exact ho

theorem pphase_step (cfg : Cfg) (base : Nat) (call : Call) (l : Nat) (rest : List Call) (hk : plainP call l)
    (s s' : St) (t : Tid) (h : RInv cfg base s) (hs : step cfg s t = some s') (hp : PPhase cfg call l rest s) :
    PPhase cfg call l rest s' := by
  by_cases htp : t = .p
  · subst htp
    obtain ⟨hst, _, _⟩ := step_p cfg s s' hs
    cases hp with
    | notStarted hidle hprog ham =>
      obtain ⟨esh, hcase⟩ := start_own cfg call rest _ _ _ _ (plainP_kind call l hk) hidle hprog hst
      have esh' : s'.sh = s.sh := esh
      rcases hcase with ⟨hpre', _⟩ | ⟨hi, hpr, _⟩
      · rw [ham] at hpre'; rw [← esh'] at hpre'; exact .pre hpre'
      · exact .over (Or.inl ⟨hpr, hi⟩)
    | pre hpre =>
      cases pre_own cfg base call l rest _ _ _ _ hk h.glob h.invP.pcinv hpre hst with
      | stay hpre' _ _ _ => exact .pre hpre'
      | commit _ hpost _ _ => exact .post hpost
      | ret r1 hi hpr _ _ _ => exact .over (Or.inl ⟨hpr, hi⟩)
    | post hpost =>
      rcases (post_own cfg call l rest _ _ _ _ hk hpost hst).2 with hpost' | ⟨hi, hpr, _⟩
      · exact .post hpost'
      · exact .over (Or.inl ⟨hpr, hi⟩)
    | over ho => exact .over (pOver_step cfg rest s s' .p hs ho)
  · have e := step_P_other cfg s s' t hs htp
    cases hp with
    | notStarted hidle hprog ham => exact .notStarted (by rw [e]; exact hidle) (by rw [e]; exact hprog) (by rw [e]; exact ham)
    | pre hpre =>
      refine .pre ?_
      rw [e]
      exact ⟨hpre.cur, hpre.prog, hpre.pc, fun h35 => step_done_mono cfg s s' t hs (hpre.d35 h35), hpre.fits⟩
    | post hpost => exact .post (by rw [e]; exact hpost)
    | over ho => exact .over (pOver_step cfg rest s s' t hs ho)

theorem pphase_run (cfg : Cfg) (base : Nat) (call : Call) (l : Nat) (rest : List Call) (hk : plainP call l)
    (s : St) (sched : List Tid) (h : RInv cfg base s) (hp : PPhase cfg call l rest s) :
    PPhase cfg call l rest (run cfg s sched) := by
  induction sched generalizing s with
  | nil => exact hp
  | cons t ts ih =>
    rw [run_cons]
    cases hs : step cfg s t with
    | none => exact ih s h hp
    | some s' => exact ih s' (inv_step cfg base s s' t h hs) (pphase_step cfg base call l rest hk s s' t h hs hp)

/-- the producer has not yet passed the last `isDone` test of this call: it has not started it, or it is inside
`waitForWriteSpace` (parked or not) or at the entry of `Write` -/
def notPastFinal (call : Call) (rest : List Call) (x : St) : Prop :=
  (x.P.pc = .idle ∧ x.P.prog = call :: rest) ∨ (x.P.cur = some call ∧ x.P.prog = rest ∧ beforeFinal x.P.pc = true)

instance (call : Call) (rest : List Call) (x : St) : Decidable (notPastFinal call rest x) := by
  unfold notPastFinal; infer_instance

/-- **`Close` makes every blocked or later producer call return end-of-stream (or `ErrBufferFull`), never `ok`**: if at
some point `x` of the execution `done` is set while the call has not yet passed its last `isDone` test — it has not
started, or it waits (parked or about to park), or it is anywhere else in `waitForWriteSpace` — it does not return `ok` -/
theorem pcall_start_closed (cfg : Cfg) (base : Nat) (call : Call) (rest : List Call)
    (hk : (∃ n, call = .write n) ∨ (∃ n, call = .wwait n) ∨ ∃ m, call = .wcommit m)
    (s : St) (pre post : List Tid) (h : RInv cfg base s) (hidle : s.P.pc = .idle) (hprog : s.P.prog = call :: rest) (r : Res)
    (hret : pRet (run cfg s (pre ++ post)) rest r)
    (hd : (run cfg s pre).sh.done = true) (hnp : notPastFinal call rest (run cfg s pre)) : r.err ≠ .ok := by
  have hx : RInv cfg base (run cfg s pre) := rinv_run cfg base s pre h
  rw [run_append] at hret
  have hk' := plainP_amount call s.P hk
  have hph := pphase_run cfg base call (amount call s.P) rest hk' s pre h (.notStarted hidle hprog rfl)
  rcases hnp with ⟨hi, hpr⟩ | ⟨hcur, hpr, hb⟩
  · intro hok
    have := (pcall_start cfg base call rest hk (run cfg s pre) post hx hi hpr r hret).okd hok
    rw [hd] at this; cases this
  · cases hph with
    | notStarted _ hprog' _ =>
      rw [hpr] at hprog'
      have := congrArg List.length hprog'
      simp at this
    | pre hpre => exact pcall_closed cfg base call _ rest hk' _ post hx hpre hb hd r hret
    | post hpost =>
      have := hpost.pc
      cases hpc : (run cfg s pre).P.pc <;> rw [hpc] at this hb <;> simp [postPc, beforeFinal] at this hb
    | over ho =>
      rcases ho with ⟨_, hi⟩ | hlt
      · rw [hi] at hb; simp [beforeFinal] at hb
      · rw [hpr] at hlt; exact absurd hlt (Nat.lt_irrefl _)

/-- **parked = guard false** for a plain producer call: in a state in which no thread can take a step, reached
by any schedule from the start of the call, the call is over, or the producer is parked inside THIS call's
`waitForWriteSpace(l)` with the ring open, `l ≤ size`, and not enough space: `size < (pseq - cseq) + l` -/
theorem pcall_quiescent (cfg : Cfg) (base : Nat) (call : Call) (l : Nat) (rest : List Call) (hk : plainP call l)
    (s : St) (sched : List Tid) (h : Live cfg base s) (hp : PPhase cfg call l rest s)
    (hq : ∀ t, step cfg (run cfg s sched) t = none) :
    let a := run cfg s sched
    pOver rest a ∨
    (∃ ppos, a.P.pc = .s36w l ppos ∧ a.P.cur = some call ∧ a.P.prog = rest ∧ a.sh.done = false ∧ l ≤ cfg.size ∧
      cfg.size < a.sh.pseq - a.sh.cseq + l) := by
  intro a
  have hl := live_run cfg base s sched h
  have hph := pphase_run cfg base call l rest hk s sched h.safe hp
  rcases quiescent_legit cfg base a hl.safe hl.lock hl.nlwc hl.nlwp hq .p a.P rfl with ⟨hi, hnil⟩ | ⟨hc, _⟩ | ⟨_, hpk, hns, hd⟩
  · cases hph with
    | notStarted _ hprog _ => rw [hnil] at hprog; cases hprog
    | pre hpre => have := hpre.pc; rw [hi] at this; simp [prePc] at this
    | post hpost => have := hpost.pc; rw [hi] at this; simp [postPc] at this
    | over ho => exact Or.inl ho
  · cases hc
  · cases hph with
    | notStarted hi _ _ => rw [hi] at hpk; simp [pParked] at hpk
    | pre hpre =>
      right
      have hpc := hpre.pc
      have hfit := hpre.fits
      have hpp := hl.safe.invP.pcinv
      have hcp : a.sh.cseq ≤ a.sh.pseq := hl.safe.glob.cp
      unfold pcP at hpp
      cases hpcs : a.P.pc <;> rw [hpcs] at hpk hns hpc hpp hfit <;> simp only [pParked, Bool.false_eq_true] at hpk
      rename_i n ppos
      simp only [prePc, beq_iff_eq] at hpc
      subst hpc
      have e1 : ppos = a.sh.pseq := hpp.1
      have hns' : ppos + n > a.sh.cseq + cfg.size := hns
      exact ⟨ppos, rfl, hpre.cur, hpre.prog, hd, hfit rfl, by omega⟩
    | post hpost =>
      have := hpost.pc
      cases hpcs : a.P.pc <;> rw [hpcs] at hpk this <;> simp [pParked, postPc] at hpk this
    | over ho => exact Or.inl ho

end Mqtt.Proofs.Ring
