/-
Core A (codec): the decoders accept the reference encoding of every well-formed
packet (`Spec/Wire.lean`) and return its fields.
-/
import Mqtt.Proofs.CodecDecode

set_option linter.unusedSimpArgs false
set_option linter.unusedVariables false

namespace Mqtt.Proofs.Codec

open Mqtt.Model.Codec Mqtt.Iface.Codec Mqtt.Generated
open Mqtt.Spec

theorem sliceFrom_eq {s a b : Bytes} {k : Nat} (h : s = a ++ b) (hk : k = a.length) : sliceFrom s k = .ok b := by
  subst h; subst hk
  rw [sliceFrom_ok (by simp)]; simp
theorem sliceTo_eq {s a b : Bytes} {k : Nat} (h : s = a ++ b) (hk : k = a.length) : sliceTo s k = .ok a := by
  subst h; subst hk
  rw [sliceTo_ok (by simp)]; simp
theorem slice_eq {s a m b : Bytes} {lo hi : Nat} (h : s = a ++ (m ++ b)) (hlo : lo = a.length) (hhi : hi = a.length + m.length) :
    slice s lo hi = .ok m := by
  subst h; subst hlo; subst hhi
  rw [slice_ok (by omega) (by simp)]; simp

/-- the fixed header of a packet whose body follows, decoded by `header.decode` -/
theorem hdr_decode_wire (h : Hdr) (t fl : Nat) (body rest : Bytes)
    (ht : h.type = t) (hv : validType t = true) (hfl : fl < 16)
    (hdf : t ≠ tPUBLISH → fl = defaultFlagsOf t) (hq : t = tPUBLISH → validQos (fl / 2 % 4) = true)
    (hb : body.length ≤ 268435455) :
    Hdr.decode h (UInt8.ofNat (t * 16 + fl) :: (Wire.varint body.length ++ (body ++ rest))) =
      .ok ({ h with tf := UInt8.ofNat (t * 16 + fl), tfInBuf := true, remlen := body.length,
                    dbuf := UInt8.ofNat (t * 16 + fl) :: (Wire.varint body.length ++ body) },
           1 + (Wire.varint body.length).length) := by
  have ht15 : t < 15 := by
    unfold validType at hv
    simp only [typeValidAbove, typeValidBelow, Bool.and_eq_true] at hv
    exact of_decide_eq_true hv.2
  have htf : (UInt8.ofNat (t * 16 + fl)).toNat = t * 16 + fl := u8_ofNat_toNat (by omega)
  have hdiv : (t * 16 + fl) / 16 = t := by omega
  have hmod : (t * 16 + fl) % 16 = fl := by omega
  have ht' : h.tf.toNat / 16 = t := ht
  unfold Hdr.decode
  rw [if_neg (by simp)]
  rw [slice_eq (a := []) (m := [UInt8.ofNat (t * 16 + fl)]) (b := Wire.varint body.length ++ (body ++ rest)) (by simp) (by simp) (by simp)]
  simp only [bind_ok, List.headD_cons, Hdr.type, Hdr.flags, htf, hdiv, hmod, ht']
  rw [if_neg (by simp [hv])]
  rw [if_neg (by simp)]
  rw [if_neg (by
    simp only [Bool.and_eq_true, decide_eq_true_eq, not_and, Decidable.not_not]
    exact hdf)]
  rw [if_neg (by
    simp only [Bool.and_eq_true, decide_eq_true_eq, not_and, Bool.not_eq_true', Bool.not_eq_false]
    intro e; simpa using hq e)]
  rw [sliceFrom_eq (a := [UInt8.ofNat (t * 16 + fl)]) (b := Wire.varint body.length ++ (body ++ rest)) (by simp) (by simp)]
  simp only [bind_ok]
  rw [uvarint_varint _ (by omega)]
  have hvl : 1 ≤ (Wire.varint body.length).length ∧ (Wire.varint body.length).length ≤ 4 := by
    unfold Wire.varint; repeat' split
    all_goals simp
  simp only [Int.toNat_natCast]
  rw [if_neg (by simp only [maxVarintBytes]; omega)]
  rw [toInt32_small (by omega)]
  rw [if_neg (by simp only [maxRemainingLength]; omega)]
  rw [sliceFrom_eq (a := UInt8.ofNat (t * 16 + fl) :: Wire.varint body.length) (b := body ++ rest) (by simp) (by simp; omega)]
  simp only [bind_ok]
  rw [if_neg (by simp; omega)]
  rw [sliceTo_eq (a := UInt8.ofNat (t * 16 + fl) :: (Wire.varint body.length ++ body)) (b := rest) (by simp) (by simp; omega)]
  simp only [bind_ok, Int.toNat_natCast]



theorem readLP_wire (s rest : Bytes) (hs : s.length ≤ 65535) :
    readLPBytes (Wire.str s ++ rest) = .ok (s, 2 + s.length) := by
  unfold Wire.str readLPBytes
  simp only [List.cons_append]
  have h1 : (UInt8.ofNat (s.length / 256)).toNat = s.length / 256 := u8_ofNat_toNat (by omega)
  have h2 : (UInt8.ofNat (s.length % 256)).toNat = s.length % 256 := u8_ofNat_toNat (by omega)
  have hb : beU16 (UInt8.ofNat (s.length / 256)) (UInt8.ofNat (s.length % 256)) = s.length := by
    unfold beU16; rw [h1, h2]; omega
  rw [hb]
  rw [if_neg (by simp)]
  rw [slice_eq (a := [UInt8.ofNat (s.length / 256), UInt8.ofNat (s.length % 256)]) (m := s) (b := rest) (by simp) (by simp) (by simp)]
  rfl

/-- two-byte identifier -/
def u16of (bs : Bytes) : UInt16 :=
  match bs with
  | [a, b] => UInt16.ofNat (beU16 a b)
  | _ => 0

/-- the packet a message object stands for (its fields as an MQTT packet) -/
def absMsg : Msg → Wire.Packet
  | .connect _ c =>
    .connect {
      level := c.version, clean := c.cleanSession, keepAlive := UInt16.ofNat c.keepAlive, clientId := c.clientID,
      will := if c.willFlag then some ⟨c.willTopic, c.willMessage, UInt8.ofNat c.willQos, c.willRetain⟩ else none,
      username := if c.usernameFlag then some c.username else none,
      password := if c.passwordFlag then some c.password else none }
  | .connack _ sp rc => .connack sp rc
  | .publish h topic payload =>
    .publish (pubDup h) (UInt8.ofNat (pubQoS h)) (pubRetain h) topic (if pubQoS h = 0 then 0 else u16of h.pid) payload
  | .ack h =>
    if h.type = 4 then .puback (u16of h.pid)
    else if h.type = 5 then .pubrec (u16of h.pid)
    else if h.type = 6 then .pubrel (u16of h.pid)
    else if h.type = 7 then .pubcomp (u16of h.pid)
    else .unsuback (u16of h.pid)
  | .subscribe h ts qs => .subscribe (u16of h.pid) (ts.zip qs)
  | .suback h codes => .suback (u16of h.pid) codes
  | .unsubscribe h ts => .unsubscribe (u16of h.pid) ts
  | .bare h => if h.type = 12 then .pingreq else if h.type = 13 then .pingresp else .disconnect

theorem encode_append (p : Wire.Packet) (rest : Bytes) :
    Wire.encode p ++ rest =
      UInt8.ofNat (p.type * 16 + p.flags) :: (Wire.varint p.body.length ++ (p.body ++ rest)) := by
  simp [Wire.encode]

theorem u16of_u16 (id : UInt16) : u16of (Wire.u16 id) = id := by
  unfold Wire.u16 u16of beU16
  simp only []
  have := id.toNat_lt
  rw [u8_ofNat_toNat (by omega), u8_ofNat_toNat (by omega)]
  have e : id.toNat / 256 * 256 + id.toNat % 256 = id.toNat := by omega
  rw [e]
  simp



/-- acceptance statement: the reference encoding of `p`, followed by anything, decodes to `p` -/
def Accepts (p : Wire.Packet) : Prop :=
  ∀ rest : Bytes, ∃ d, decodeNew p.type (Wire.encode p ++ rest) = .ok d ∧
    d.n = (Wire.encode p).length ∧ absMsg d.msg = p

theorem hdrNew_type (t : Nat) (h : 1 ≤ t ∧ t ≤ 14) : (Hdr.new t).type = t := by
  obtain ⟨h1, h2⟩ := h
  have : t = 1 ∨ t = 2 ∨ t = 3 ∨ t = 4 ∨ t = 5 ∨ t = 6 ∨ t = 7 ∨ t = 8 ∨ t = 9 ∨ t = 10 ∨ t = 11 ∨ t = 12 ∨ t = 13 ∨ t = 14 := by omega
  rcases this with rfl | rfl | rfl | rfl | rfl | rfl | rfl | rfl | rfl | rfl | rfl | rfl | rfl | rfl <;> decide

theorem accepts_ack (t : Nat) (id : UInt16) (p : Wire.Packet)
    (ht : t = 4 ∨ t = 5 ∨ t = 6 ∨ t = 7 ∨ t = 11)
    (hp : p.type = t ∧ p.flags = defaultFlagsOf t ∧ p.body = Wire.u16 id)
    (habs : ∀ h : Hdr, h.type = t → (absMsg (.ack h) = p ↔ u16of h.pid = id)) : Accepts p := by
  intro rest
  obtain ⟨hp1, hp2, hp3⟩ := hp
  have hnew : Msg.new t = some (.ack (Hdr.new t)) := by
    rcases ht with rfl | rfl | rfl | rfl | rfl <;> rfl
  have hbl : p.body.length = 2 := by rw [hp3]; rfl
  have hdec := hdr_decode_wire (Hdr.new t) t (defaultFlagsOf t) p.body rest
    (hdrNew_type t (by omega)) (by rcases ht with rfl | rfl | rfl | rfl | rfl <;> decide)
    (by rcases ht with rfl | rfl | rfl | rfl | rfl <;> decide) (fun _ => rfl)
    (by intro e; rcases ht with rfl | rfl | rfl | rfl | rfl <;> simp [tPUBLISH] at e) (by omega)
  unfold decodeNew
  rw [hp1, hnew]
  simp only [decode, decodeAck]
  rw [sliceFrom_ok (Nat.zero_le _)]
  simp only [bind_ok, List.drop_zero]
  rw [encode_append, hp1, hp2, hdec]
  simp only [bind_ok]
  rw [if_neg (by omega)]
  have hv : Wire.varint p.body.length = [2] := by rw [hbl]; rfl
  rw [hv, hp3]
  rw [slice_eq (a := [UInt8.ofNat (t * 16 + defaultFlagsOf t), 2]) (m := Wire.u16 id) (b := rest) (by simp) (by simp) (by simp [Wire.u16])]
  simp only [bind_ok]
  refine ⟨_, rfl, ?_, ?_⟩
  · simp [Wire.encode, hp1, hp2, hp3, hbl, Wire.u16, Wire.varint]
  · simp only []
    rw [habs]
    · simp only []; exact u16of_u16 id
    · simp only [Hdr.type]
      rw [u8_ofNat_toNat (by rcases ht with rfl | rfl | rfl | rfl | rfl <;> decide)]
      rcases ht with rfl | rfl | rfl | rfl | rfl <;> decide


theorem accepts_puback (id : UInt16) : Accepts (.puback id) :=
  accepts_ack 4 id _ (by omega) ⟨rfl, rfl, rfl⟩ (by intro h ht; simp [absMsg, ht])
theorem accepts_pubrec (id : UInt16) : Accepts (.pubrec id) :=
  accepts_ack 5 id _ (by omega) ⟨rfl, rfl, rfl⟩ (by intro h ht; simp [absMsg, ht])
theorem accepts_pubrel (id : UInt16) : Accepts (.pubrel id) :=
  accepts_ack 6 id _ (by omega) ⟨rfl, rfl, rfl⟩ (by intro h ht; simp [absMsg, ht])
theorem accepts_pubcomp (id : UInt16) : Accepts (.pubcomp id) :=
  accepts_ack 7 id _ (by omega) ⟨rfl, rfl, rfl⟩ (by intro h ht; simp [absMsg, ht])
theorem accepts_unsuback (id : UInt16) : Accepts (.unsuback id) :=
  accepts_ack 11 id _ (by omega) ⟨rfl, rfl, rfl⟩ (by intro h ht; simp [absMsg, ht])

theorem accepts_bare (t : Nat) (p : Wire.Packet) (ht : t = 12 ∨ t = 13 ∨ t = 14)
    (hp : p.type = t ∧ p.flags = 0 ∧ p.body = [])
    (habs : ∀ h : Hdr, h.type = t → absMsg (.bare h) = p) : Accepts p := by
  intro rest
  obtain ⟨hp1, hp2, hp3⟩ := hp
  have hnew : Msg.new t = some (.bare (Hdr.new t)) := by
    rcases ht with rfl | rfl | rfl <;> rfl
  have hdec := hdr_decode_wire (Hdr.new t) t 0 p.body rest
    (hdrNew_type t (by omega)) (by rcases ht with rfl | rfl | rfl <;> decide)
    (by omega) (by intro _; rcases ht with rfl | rfl | rfl <;> decide)
    (by intro e; rcases ht with rfl | rfl | rfl <;> simp [tPUBLISH] at e) (by rw [hp3]; simp)
  unfold decodeNew
  rw [hp1, hnew]
  simp only [decode, decodeBare]
  rw [encode_append, hp1, hp2, hdec]
  simp only [bind_ok]
  rw [if_neg (by rw [hp3]; simp)]
  refine ⟨_, rfl, ?_, ?_⟩
  · simp [Wire.encode, hp1, hp2, hp3, Wire.varint]
  · simp only []
    apply habs
    simp only [Hdr.type]
    rw [u8_ofNat_toNat (by rcases ht with rfl | rfl | rfl <;> decide)]
    omega

theorem accepts_pingreq : Accepts .pingreq :=
  accepts_bare 12 _ (by omega) ⟨rfl, rfl, rfl⟩ (by intro h ht; simp [absMsg, ht])
theorem accepts_pingresp : Accepts .pingresp :=
  accepts_bare 13 _ (by omega) ⟨rfl, rfl, rfl⟩ (by intro h ht; simp [absMsg, ht])
theorem accepts_disconnect : Accepts .disconnect :=
  accepts_bare 14 _ (by omega) ⟨rfl, rfl, rfl⟩ (by intro h ht; simp [absMsg, ht])

theorem accepts_connack (sp : Bool) (code : UInt8) (hc : code ≤ 5) : Accepts (.connack sp code) := by
  intro rest
  have hdec := hdr_decode_wire (Hdr.new 2) 2 0 (Wire.Packet.connack sp code).body rest
    (by decide) (by decide) (by omega) (by intro _; decide) (by intro e; simp [tPUBLISH] at e) (by simp [Wire.Packet.body])
  unfold decodeNew
  have hnew : Msg.new (Wire.Packet.connack sp code).type = some (.connack (Hdr.new 2) false 0) := rfl
  rw [hnew]
  simp only [decode, decodeConnack]
  rw [encode_append]
  have e1 : (Wire.Packet.connack sp code).type = 2 := rfl
  have e2 : (Wire.Packet.connack sp code).flags = 0 := rfl
  rw [e1, e2, hdec]
  simp only [bind_ok]
  rw [if_neg (by simp [Wire.Packet.body])]
  have hb : (Wire.Packet.connack sp code).body = [UInt8.ofNat (Wire.b2n sp), code] := rfl
  rw [hb]
  have hv : Wire.varint [UInt8.ofNat (Wire.b2n sp), code].length = [2] := rfl
  rw [hv]
  have hi1 : index (UInt8.ofNat (2 * 16 + 0) :: ([2] ++ ([UInt8.ofNat (Wire.b2n sp), code] ++ rest))) (1 + [(2:UInt8)].length) = .ok (UInt8.ofNat (Wire.b2n sp)) := rfl
  rw [hi1]
  simp only [bind_ok]
  have hsp : (UInt8.ofNat (Wire.b2n sp)).toNat = Wire.b2n sp := by cases sp <;> rfl
  rw [hsp]
  rw [if_neg (by cases sp <;> simp [Wire.b2n])]
  have hi2 : index (UInt8.ofNat (2 * 16 + 0) :: ([2] ++ ([UInt8.ofNat (Wire.b2n sp), code] ++ rest))) (1 + [(2:UInt8)].length + 1) = .ok code := rfl
  rw [hi2]
  simp only [bind_ok]
  have hc' : code.toNat ≤ 5 := hc
  rw [if_neg (by simp only [connackMaxCode]; omega)]
  refine ⟨_, rfl, rfl, ?_⟩
  simp only [absMsg]
  cases sp <;> simp [Wire.b2n]

theorem varint_len_bounds (n : Nat) : 1 ≤ (Wire.varint n).length ∧ (Wire.varint n).length ≤ 4 := by
  unfold Wire.varint; repeat' split
  all_goals simp

theorem accepts_suback (id : UInt16) (codes : List UInt8) (hwf : Wire.WF (.suback id codes)) :
    Accepts (.suback id codes) := by
  intro rest
  unfold Wire.WF Wire.wf at hwf
  simp only [Bool.and_eq_true, decide_eq_true_eq, Wire.maxRemaining] at hwf
  obtain ⟨⟨_, hcodes⟩, hlen⟩ := hwf
  have hb : (Wire.Packet.suback id codes).body = Wire.u16 id ++ codes := rfl
  have hlen := of_decide_eq_true hlen
  have hbl : (Wire.Packet.suback id codes).body.length = 2 + codes.length := by rw [hb]; simp [Wire.u16]; omega
  have hdec := hdr_decode_wire (Hdr.new 9) 9 0 (Wire.Packet.suback id codes).body rest
    (by decide) (by decide) (by omega) (by intro _; decide) (by intro e; simp [tPUBLISH] at e) (by omega)
  unfold decodeNew
  have hnew : Msg.new (Wire.Packet.suback id codes).type = some (.suback (Hdr.new 9) []) := rfl
  rw [hnew]
  simp only [decode, decodeSuback]
  rw [sliceFrom_ok (Nat.zero_le _)]
  simp only [bind_ok, List.drop_zero]
  rw [encode_append]
  have e1 : (Wire.Packet.suback id codes).type = 9 := rfl
  have e2 : (Wire.Packet.suback id codes).flags = 0 := rfl
  rw [e1, e2, hdec]
  simp only [bind_ok]
  generalize hV : Wire.varint (Wire.Packet.suback id codes).body.length = V
  have hVl := varint_len_bounds (Wire.Packet.suback id codes).body.length
  rw [hV] at hVl
  rw [hb]
  rw [sliceTo_eq (a := UInt8.ofNat (9 * 16 + 0) :: (V ++ (Wire.u16 id ++ codes))) (b := rest) (by simp) (by simp [Wire.u16]; omega)]
  simp only [bind_ok]
  rw [if_neg (by simp [Wire.u16])]
  rw [slice_eq (a := UInt8.ofNat (9 * 16 + 0) :: V) (m := Wire.u16 id) (b := codes) (by simp) (by simp; omega) (by simp [Wire.u16]; omega)]
  simp only [bind_ok]
  rw [slice_eq (a := UInt8.ofNat (9 * 16 + 0) :: (V ++ Wire.u16 id)) (m := codes) (b := []) (by simp) (by simp [Wire.u16]; omega) (by simp [Wire.u16]; omega)]
  simp only [bind_ok]
  have hall : (codes.all fun c => c = 0 || c = 1 || c = 2 || c = 0x80) = true := by
    rw [List.all_eq_true] at hcodes ⊢
    intro c hc
    have := hcodes c hc
    simpa [Wire.returnCodeOk] using this
  rw [if_pos hall]
  refine ⟨_, rfl, ?_, ?_⟩
  · have : (Wire.encode (.suback id codes)).length = 1 + V.length + (2 + codes.length) := by
      unfold Wire.encode; rw [List.length_cons, List.length_append, hV, hbl]; omega
    rw [this]; simp only []; omega
  · simp only [absMsg]
    rw [u16of_u16]


theorem validTopic_of_topicNameOk (t : Bytes) (h : Wire.topicNameOk t = true) : validTopic t = true := by
  unfold Wire.topicNameOk at h
  unfold validTopic
  simp only [Bool.and_eq_true, Bool.not_eq_true', decide_eq_true_eq] at h ⊢
  refine ⟨⟨?_, h.1.2⟩, h.2⟩
  cases t with
  | nil => simp at h
  | cons a r => simp

theorem accepts_publish (dup : Bool) (qos : UInt8) (ret : Bool) (topic : Bytes) (id : UInt16) (payload : Bytes)
    (hwf : Wire.WF (.publish dup qos ret topic id payload)) :
    Accepts (.publish dup qos ret topic id payload) := by
  intro rest
  unfold Wire.WF Wire.wf at hwf
  simp only [Bool.and_eq_true, decide_eq_true_eq, Wire.maxRemaining, Wire.strOk] at hwf
  obtain ⟨⟨⟨⟨hq, hts⟩, htn⟩, hid⟩, hlen⟩ := hwf
  have hq' : qos.toNat ≤ 2 := hq
  have hlen := of_decide_eq_true hlen
  generalize hp : Wire.Packet.publish dup qos ret topic id payload = p at *
  have e1 : p.type = 3 := by rw [← hp]; rfl
  have e2 : p.flags = Wire.b2n dup * 8 + qos.toNat * 2 + Wire.b2n ret := by rw [← hp]; rfl
  have hb : p.body = Wire.str topic ++ ((if qos = 0 then [] else Wire.u16 id) ++ payload) := by
    rw [← hp]; simp [Wire.Packet.body]
  have hidl : (if qos = 0 then [] else Wire.u16 id).length = (if qos = 0 then 0 else 2) := by
    split <;> simp [Wire.u16]
  have hbl : p.body.length = 2 + topic.length + (if qos = 0 then 0 else 2) + payload.length := by
    rw [hb]; simp only [List.length_append, hidl, Wire.str, List.length_cons]; omega
  have hfl : p.flags < 16 := by rw [e2]; cases dup <;> cases ret <;> simp [Wire.b2n] <;> omega
  have hfq : p.flags / 2 % 4 = qos.toNat := by rw [e2]; cases dup <;> cases ret <;> simp [Wire.b2n] <;> omega
  have hdec := hdr_decode_wire (Hdr.new 3) 3 p.flags p.body rest
    (by decide) (by decide) hfl (by intro e; exact absurd rfl e)
    (by intro _; rw [hfq]; simp [validQos, qosAtMostOnce, qosAtLeastOnce, qosExactlyOnce]; omega) (by omega)
  unfold decodeNew
  have hnew : Msg.new p.type = some (.publish (Hdr.new 3) [] []) := by rw [e1]; rfl
  rw [hnew]
  simp only [decode, decodePublish]
  rw [sliceFrom_ok (Nat.zero_le _)]
  simp only [bind_ok, List.drop_zero]
  rw [encode_append, e1, hdec]
  simp only [bind_ok]
  generalize hV : Wire.varint p.body.length = V
  have hVl := varint_len_bounds p.body.length
  rw [hV] at hVl
  rw [sliceTo_eq (a := UInt8.ofNat (3 * 16 + p.flags) :: (V ++ p.body)) (b := rest) (by simp) (by simp; omega)]
  simp only [bind_ok]
  rw [sliceFrom_eq (a := UInt8.ofNat (3 * 16 + p.flags) :: V) (b := p.body) (by simp) (by simp; omega)]
  simp only [bind_ok]
  rw [hb, readLP_wire _ _ hts]
  simp only [bind_ok]
  rw [if_neg (by simp [validTopic_of_topicNameOk topic htn])]
  have htfn : (UInt8.ofNat (3 * 16 + p.flags)).toNat = 3 * 16 + p.flags := u8_ofNat_toNat (by omega)
  have hmod : (3 * 16 + p.flags) % 16 = p.flags := by omega
  simp only [pubQoS, Hdr.flags, htfn, hmod, hfq]
  have henc : (Wire.encode p).length = 1 + V.length + p.body.length := by
    unfold Wire.encode; rw [List.length_cons, List.length_append, hV]; omega
  by_cases hq0 : qos = 0
  · have hqn : qos.toNat = 0 := by rw [hq0]; rfl
    have hz : UInt8.toNat 0 = 0 := rfl
    simp only [hqn, hq0, hz, if_true, ne_eq, not_true_eq_false, if_false, bind_ok, List.nil_append] at hbl hid ⊢
    rw [if_neg (by simp [Wire.str]; omega)]
    rw [slice_eq (a := UInt8.ofNat (3 * 16 + p.flags) :: (V ++ Wire.str topic)) (m := payload) (b := [])
      (by simp) (by simp [Wire.str]; omega) (by simp [Wire.str]; omega)]
    simp only [bind_ok]
    refine ⟨_, rfl, ?_, ?_⟩
    · rw [henc, hbl]; simp only []; omega
    · simp only [absMsg, pubQoS, pubDup, pubRetain, Hdr.flags, htfn, hmod, hfq, hqn]
      have hid' : id = 0 := of_decide_eq_true hid
      rw [e2, hqn, ← hp, hq0, hid']
      cases dup <;> cases ret <;> simp [Wire.b2n]
  · have hqn : qos.toNat ≠ 0 := by
      intro e; apply hq0; exact UInt8.toNat_inj.mp e
    simp only [hq0, if_false] at hbl hid ⊢
    rw [if_pos hqn]
    rw [sliceFrom_eq (a := UInt8.ofNat (3 * 16 + p.flags) :: (V ++ Wire.str topic)) (b := Wire.u16 id ++ payload)
      (by simp) (by simp [Wire.str]; omega)]
    simp only [bind_ok]
    rw [if_neg (by simp [Wire.u16])]
    rw [slice_eq (a := UInt8.ofNat (3 * 16 + p.flags) :: (V ++ Wire.str topic)) (m := Wire.u16 id) (b := payload)
      (by simp) (by simp [Wire.str]; omega) (by simp [Wire.str, Wire.u16]; omega)]
    simp only [bind_ok]
    rw [if_neg (by simp [Wire.str, Wire.u16]; omega)]
    rw [slice_eq (a := UInt8.ofNat (3 * 16 + p.flags) :: (V ++ (Wire.str topic ++ Wire.u16 id))) (m := payload) (b := [])
      (by simp) (by simp [Wire.str, Wire.u16]; omega) (by simp [Wire.str, Wire.u16]; omega)]
    simp only [bind_ok]
    refine ⟨_, rfl, ?_, ?_⟩
    · rw [henc, hbl]; simp only []; omega
    · simp only [absMsg, pubQoS, pubDup, pubRetain, Hdr.flags, htfn, hmod, hfq]
      have hqq : UInt8.ofNat qos.toNat = qos := by simp
      rw [if_neg hqn, u16of_u16, hqq, e2, ← hp]
      have h3 : qos.toNat = 1 ∨ qos.toNat = 2 := by omega
      rcases h3 with h3 | h3 <;> rw [h3] <;> cases dup <;> cases ret <;> simp [Wire.b2n]

theorem index_eq {s a b : Bytes} {x : UInt8} {k : Nat} (h : s = a ++ x :: b) (hk : k = a.length) : index s k = .ok x := by
  subst h; subst hk
  unfold index
  simp

def encFilters (fs : List (Bytes × UInt8)) : Bytes := fs.flatMap (fun f => Wire.str f.1 ++ [f.2])

theorem encFilters_cons (f : Bytes × UInt8) (fs : List (Bytes × UInt8)) :
    encFilters (f :: fs) = Wire.str f.1 ++ (f.2 :: encFilters fs) := by
  simp [encFilters, List.flatMap_cons]

theorem subLoop_wire (fs : List (Bytes × UInt8)) :
    ∀ (pre : Bytes) (ts : List Bytes) (qs : List UInt8) (vs : List View),
      (∀ f ∈ fs, f.1.length ≤ 65535) →
      ∃ vs', subLoop (pre ++ encFilters fs) pre.length (encFilters fs).length ts qs vs =
        .ok (ts ++ fs.map (·.1), qs ++ fs.map (·.2), vs', (pre ++ encFilters fs).length) := by
  induction fs with
  | nil =>
    intro pre ts qs vs _
    rw [subLoop]
    simp [encFilters]
  | cons f fs ih =>
    intro pre ts qs vs hs
    rw [subLoop]
    rw [encFilters_cons]
    rw [if_neg (by simp [Wire.str])]
    have hstep : subStep (pre ++ (Wire.str f.1 ++ f.2 :: encFilters fs)) pre.length = .ok (f.1, f.2, 2 + f.1.length) := by
      unfold subStep
      rw [sliceFrom_eq (a := pre) (b := Wire.str f.1 ++ f.2 :: encFilters fs) rfl rfl]
      simp only [bind_ok]
      rw [readLP_wire _ _ (hs f (by simp))]
      simp only [bind_ok]
      rw [sliceFrom_eq (a := pre ++ Wire.str f.1) (b := f.2 :: encFilters fs) (by simp) (by simp [Wire.str]; omega)]
      simp only [bind_ok]
      rw [if_neg (by simp)]
      rw [index_eq (a := pre ++ Wire.str f.1) (b := encFilters fs) (x := f.2) (by simp) (by simp [Wire.str]; omega)]
      simp only [bind_ok]
    rw [hstep]
    simp only []
    have := ih (pre ++ (Wire.str f.1 ++ [f.2])) (ts ++ [f.1]) (qs ++ [f.2]) (vs ++ [(pre.length + 2, f.1.length)])
      (fun g hg => hs g (by simp [hg]))
    obtain ⟨vs', hv⟩ := this
    refine ⟨vs', ?_⟩
    have e1 : pre ++ (Wire.str f.1 ++ [f.2]) ++ encFilters fs = pre ++ (Wire.str f.1 ++ f.2 :: encFilters fs) := by simp
    have e2 : (pre ++ (Wire.str f.1 ++ [f.2])).length = pre.length + (2 + f.1.length) + 1 := by simp [Wire.str]; omega
    have e3 : (Wire.str f.1 ++ f.2 :: encFilters fs).length - (2 + f.1.length) - 1 = (encFilters fs).length := by simp [Wire.str]; omega
    rw [e1, e2] at hv
    rw [e3, hv]
    simp

theorem zip_map_fst_snd {α β : Type} (l : List (α × β)) : (l.map (·.1)).zip (l.map (·.2)) = l := by
  induction l with
  | nil => rfl
  | cons a l ih => simp [ih]

theorem accepts_subscribe (id : UInt16) (fs : List (Bytes × UInt8)) (hwf : Wire.WF (.subscribe id fs)) :
    Accepts (.subscribe id fs) := by
  intro rest
  unfold Wire.WF Wire.wf at hwf
  simp only [Bool.and_eq_true, decide_eq_true_eq, Wire.maxRemaining, Wire.strOk] at hwf
  obtain ⟨⟨⟨_, hne⟩, hall⟩, hlen⟩ := hwf
  have hlen := of_decide_eq_true hlen
  generalize hp : Wire.Packet.subscribe id fs = p at *
  have e1 : p.type = 8 := by rw [← hp]; rfl
  have e2 : p.flags = 2 := by rw [← hp]; rfl
  have hb : p.body = Wire.u16 id ++ encFilters fs := by rw [← hp]; rfl
  have hbl : p.body.length = 2 + (encFilters fs).length := by rw [hb]; simp [Wire.u16]; omega
  have hs : ∀ f ∈ fs, f.1.length ≤ 65535 := by
    intro f hf
    rw [List.all_eq_true] at hall
    have := hall f hf
    simp only [Bool.and_eq_true, decide_eq_true_eq] at this
    exact this.1
  have hdec := hdr_decode_wire (Hdr.new 8) 8 2 p.body rest
    (by decide) (by decide) (by omega) (by intro _; decide) (by intro e; simp [tPUBLISH] at e) (by omega)
  unfold decodeNew
  have hnew : Msg.new p.type = some (.subscribe (Hdr.new 8) [] []) := by rw [e1]; rfl
  rw [hnew]
  simp only [decode, decodeSubscribe]
  rw [sliceFrom_ok (Nat.zero_le _)]
  simp only [bind_ok, List.drop_zero]
  rw [encode_append, e1, e2, hdec]
  simp only [bind_ok]
  generalize hV : Wire.varint p.body.length = V
  have hVl := varint_len_bounds p.body.length
  rw [hV] at hVl
  rw [sliceTo_eq (a := UInt8.ofNat (8 * 16 + 2) :: (V ++ p.body)) (b := rest) (by simp) (by simp; omega)]
  simp only [bind_ok]
  rw [if_neg (by omega)]
  rw [hb]
  rw [slice_eq (a := UInt8.ofNat (8 * 16 + 2) :: V) (m := Wire.u16 id) (b := encFilters fs) (by simp) (by simp; omega) (by simp [Wire.u16]; omega)]
  simp only [bind_ok]
  obtain ⟨vs', hloop⟩ := subLoop_wire fs (UInt8.ofNat (8 * 16 + 2) :: (V ++ Wire.u16 id)) [] [] [] hs
  have ea : UInt8.ofNat (8 * 16 + 2) :: (V ++ (Wire.u16 id ++ encFilters fs)) = (UInt8.ofNat (8 * 16 + 2) :: (V ++ Wire.u16 id)) ++ encFilters fs := by simp
  have eb : 1 + V.length + 2 = (UInt8.ofNat (8 * 16 + 2) :: (V ++ Wire.u16 id)).length := by simp [Wire.u16]; omega
  have ec : (Wire.u16 id ++ encFilters fs).length - (1 + V.length + 2 - (1 + V.length)) = (encFilters fs).length := by simp [Wire.u16]
  have hloop' : subLoop (UInt8.ofNat (8 * 16 + 2) :: (V ++ (Wire.u16 id ++ encFilters fs))) (1 + V.length + 2)
      ((Wire.u16 id ++ encFilters fs).length - (1 + V.length + 2 - (1 + V.length))) [] [] [] =
      .ok ([] ++ fs.map (·.1), [] ++ fs.map (·.2), vs', (UInt8.ofNat (8 * 16 + 2) :: (V ++ (Wire.u16 id ++ encFilters fs))).length) := by
    rw [ec, ea, eb]; exact hloop
  rw [hloop']
  simp only [bind_ok, List.nil_append]
  have hne' : fs ≠ [] := by
    intro e; rw [e] at hne; simp at hne
  rw [if_neg (by simp [hne'])]
  have henc : (Wire.encode p).length = 1 + V.length + p.body.length := by
    unfold Wire.encode; rw [List.length_cons, List.length_append, hV]; omega
  refine ⟨_, rfl, ?_, ?_⟩
  · rw [henc, hbl]; simp [Wire.u16]; omega
  · simp only [absMsg]
    rw [u16of_u16, zip_map_fst_snd, hp]


def encTopics (fs : List Bytes) : Bytes := fs.flatMap Wire.str

theorem encTopics_cons (f : Bytes) (fs : List Bytes) : encTopics (f :: fs) = Wire.str f ++ encTopics fs := by
  simp [encTopics, List.flatMap_cons]

theorem unsubLoop_wire (fs : List Bytes) :
    ∀ (pre : Bytes) (ts : List Bytes) (vs : List View),
      (∀ f ∈ fs, f.length ≤ 65535) →
      ∃ vs', unsubLoop (pre ++ encTopics fs) pre.length (encTopics fs).length ts vs =
        .ok (ts ++ fs, vs', (pre ++ encTopics fs).length) := by
  induction fs with
  | nil =>
    intro pre ts vs _
    rw [unsubLoop]
    simp [encTopics]
  | cons f fs ih =>
    intro pre ts vs hs
    rw [unsubLoop]
    rw [encTopics_cons]
    rw [if_neg (by simp [Wire.str])]
    have hstep : unsubStep (pre ++ (Wire.str f ++ encTopics fs)) pre.length = .ok (f, f.length) := by
      unfold unsubStep
      rw [sliceFrom_eq (a := pre) (b := Wire.str f ++ encTopics fs) rfl rfl]
      simp only [bind_ok]
      rw [readLP_wire _ _ (hs f (by simp))]
      simp only [bind_ok]
      congr 2; omega
    rw [hstep]
    simp only []
    obtain ⟨vs', hv⟩ := ih (pre ++ Wire.str f) (ts ++ [f]) (vs ++ [(pre.length + 2, f.length)])
      (fun g hg => hs g (by simp [hg]))
    refine ⟨vs', ?_⟩
    have e1 : pre ++ Wire.str f ++ encTopics fs = pre ++ (Wire.str f ++ encTopics fs) := by simp
    have e2 : (pre ++ Wire.str f).length = pre.length + (2 + f.length) := by simp [Wire.str]; omega
    have e3 : (Wire.str f ++ encTopics fs).length - (2 + f.length) = (encTopics fs).length := by simp [Wire.str]; omega
    rw [e1, e2] at hv
    rw [e3, hv]
    simp

theorem accepts_unsubscribe (id : UInt16) (fs : List Bytes) (hwf : Wire.WF (.unsubscribe id fs)) :
    Accepts (.unsubscribe id fs) := by
  intro rest
  unfold Wire.WF Wire.wf at hwf
  simp only [Bool.and_eq_true, decide_eq_true_eq, Wire.maxRemaining, Wire.strOk] at hwf
  obtain ⟨⟨⟨_, hne⟩, hall⟩, hlen⟩ := hwf
  have hlen := of_decide_eq_true hlen
  generalize hp : Wire.Packet.unsubscribe id fs = p at *
  have e1 : p.type = 10 := by rw [← hp]; rfl
  have e2 : p.flags = 2 := by rw [← hp]; rfl
  have hb : p.body = Wire.u16 id ++ encTopics fs := by rw [← hp]; rfl
  have hbl : p.body.length = 2 + (encTopics fs).length := by rw [hb]; simp [Wire.u16]; omega
  have hs : ∀ f ∈ fs, f.length ≤ 65535 := by
    intro f hf
    rw [List.all_eq_true] at hall
    have := hall f hf
    simpa [Wire.strOk] using this
  have hdec := hdr_decode_wire (Hdr.new 10) 10 2 p.body rest
    (by decide) (by decide) (by omega) (by intro _; decide) (by intro e; simp [tPUBLISH] at e) (by omega)
  unfold decodeNew
  have hnew : Msg.new p.type = some (.unsubscribe (Hdr.new 10) []) := by rw [e1]; rfl
  rw [hnew]
  simp only [decode, decodeUnsubscribe]
  rw [sliceFrom_ok (Nat.zero_le _)]
  simp only [bind_ok, List.drop_zero]
  rw [encode_append, e1, e2, hdec]
  simp only [bind_ok]
  generalize hV : Wire.varint p.body.length = V
  have hVl := varint_len_bounds p.body.length
  rw [hV] at hVl
  rw [sliceTo_eq (a := UInt8.ofNat (10 * 16 + 2) :: (V ++ p.body)) (b := rest) (by simp) (by simp; omega)]
  simp only [bind_ok]
  rw [if_neg (by omega)]
  rw [hb]
  rw [slice_eq (a := UInt8.ofNat (10 * 16 + 2) :: V) (m := Wire.u16 id) (b := encTopics fs) (by simp) (by simp; omega) (by simp [Wire.u16]; omega)]
  simp only [bind_ok]
  obtain ⟨vs', hloop⟩ := unsubLoop_wire fs (UInt8.ofNat (10 * 16 + 2) :: (V ++ Wire.u16 id)) [] [] hs
  have ea : UInt8.ofNat (10 * 16 + 2) :: (V ++ (Wire.u16 id ++ encTopics fs)) = (UInt8.ofNat (10 * 16 + 2) :: (V ++ Wire.u16 id)) ++ encTopics fs := by simp
  have eb : 1 + V.length + 2 = (UInt8.ofNat (10 * 16 + 2) :: (V ++ Wire.u16 id)).length := by simp [Wire.u16]; omega
  have ec : (Wire.u16 id ++ encTopics fs).length - (1 + V.length + 2 - (1 + V.length)) = (encTopics fs).length := by simp [Wire.u16]
  have hloop' : unsubLoop (UInt8.ofNat (10 * 16 + 2) :: (V ++ (Wire.u16 id ++ encTopics fs))) (1 + V.length + 2)
      ((Wire.u16 id ++ encTopics fs).length - (1 + V.length + 2 - (1 + V.length))) [] [] =
      .ok ([] ++ fs, vs', (UInt8.ofNat (10 * 16 + 2) :: (V ++ (Wire.u16 id ++ encTopics fs))).length) := by
    rw [ec, ea, eb]; exact hloop
  rw [hloop']
  simp only [bind_ok, List.nil_append]
  have hne' : fs ≠ [] := by
    intro e; rw [e] at hne; simp at hne
  rw [if_neg (by simp [hne'])]
  have henc : (Wire.encode p).length = 1 + V.length + p.body.length := by
    unfold Wire.encode; rw [List.length_cons, List.length_append, hV]; omega
  refine ⟨_, rfl, ?_, ?_⟩
  · rw [henc, hbl]; simp [Wire.u16]; omega
  · simp only [absMsg]
    rw [u16of_u16, hp]


end Mqtt.Proofs.Codec
