/-
Core A (codec): the decoders accept the reference encoding of every well-formed
packet (`Spec/Wire.lean`) and return its fields.
-/
import Mqtt.Proofs.CodecDecode

set_option linter.unusedSimpArgs false
set_option linter.unusedVariables false

namespace Mqtt.Proofs.Codec

open Mqtt.Model.Codec Mqtt.Iface.Codec Mqtt.Generated
open Mqtt.Spec

theorem sliceFrom_eq {s a b : Bytes} {k : Nat} (h : s = a ++ b) (hk : k = a.length) : sliceFrom s k = .ok b := by
  subst h; subst hk
  rw [sliceFrom_ok (by simp)]; simp
theorem sliceTo_eq {s a b : Bytes} {k : Nat} (h : s = a ++ b) (hk : k = a.length) : sliceTo s k = .ok a := by
  subst h; subst hk
  rw [sliceTo_ok (by simp)]; simp
theorem slice_eq {s a m b : Bytes} {lo hi : Nat} (h : s = a ++ (m ++ b)) (hlo : lo = a.length) (hhi : hi = a.length + m.length) :
    slice s lo hi = .ok m := by
  subst h; subst hlo; subst hhi
  rw [slice_ok (by omega) (by simp)]; simp

/-- the fixed header of a packet whose body follows, decoded by `header.decode` -/
theorem hdr_decode_wire (h : Hdr) (t fl : Nat) (body rest : Bytes)
    (ht : h.type = t) (hv : validType t = true) (hfl : fl < 16)
    (hdf : t ≠ tPUBLISH → fl = defaultFlagsOf t) (hq : t = tPUBLISH → validQos (fl / 2 % 4) = true)
    (hb : body.length ≤ 268435455) :
    Hdr.decode h (UInt8.ofNat (t * 16 + fl) :: (Wire.varint body.length ++ (body ++ rest))) =
      .ok ({ h with tf := UInt8.ofNat (t * 16 + fl), tfInBuf := true, remlen := body.length,
                    dbuf := UInt8.ofNat (t * 16 + fl) :: (Wire.varint body.length ++ body) },
           1 + (Wire.varint body.length).length) := by
  have ht15 : t < 15 := by
    unfold validType at hv
    simp only [typeValidAbove, typeValidBelow, Bool.and_eq_true] at hv
    exact of_decide_eq_true hv.2
  have htf : (UInt8.ofNat (t * 16 + fl)).toNat = t * 16 + fl := u8_ofNat_toNat (by omega)
  have hdiv : (t * 16 + fl) / 16 = t := by omega
  have hmod : (t * 16 + fl) % 16 = fl := by omega
  have ht' : h.tf.toNat / 16 = t := ht
  unfold Hdr.decode
  rw [if_neg (by simp)]
  rw [slice_eq (a := []) (m := [UInt8.ofNat (t * 16 + fl)]) (b := Wire.varint body.length ++ (body ++ rest)) (by simp) (by simp) (by simp)]
  simp only [bind_ok, List.headD_cons, Hdr.type, Hdr.flags, htf, hdiv, hmod, ht']
  rw [if_neg (by simp [hv])]
  rw [if_neg (by simp)]
  rw [if_neg (by
    simp only [Bool.and_eq_true, decide_eq_true_eq, not_and, Decidable.not_not]
    exact hdf)]
  rw [if_neg (by
    simp only [Bool.and_eq_true, decide_eq_true_eq, not_and, Bool.not_eq_true', Bool.not_eq_false]
    intro e; simpa using hq e)]
  rw [sliceFrom_eq (a := [UInt8.ofNat (t * 16 + fl)]) (b := Wire.varint body.length ++ (body ++ rest)) (by simp) (by simp)]
  simp only [bind_ok]
  rw [uvarint_varint _ (by omega)]
  have hvl : 1 ≤ (Wire.varint body.length).length ∧ (Wire.varint body.length).length ≤ 4 := by
    unfold Wire.varint; repeat' split
    all_goals simp
  simp only [Int.toNat_natCast]
  rw [if_neg (by simp only [maxVarintBytes]; omega)]
  rw [toInt32_small (by omega)]
  rw [if_neg (by simp only [maxRemainingLength]; omega)]
  rw [sliceFrom_eq (a := UInt8.ofNat (t * 16 + fl) :: Wire.varint body.length) (b := body ++ rest) (by simp) (by simp; omega)]
  simp only [bind_ok]
  rw [if_neg (by simp; omega)]
  rw [sliceTo_eq (a := UInt8.ofNat (t * 16 + fl) :: (Wire.varint body.length ++ body)) (b := rest) (by simp) (by simp; omega)]
  simp only [bind_ok, Int.toNat_natCast]



theorem readLP_wire (s rest : Bytes) (hs : s.length ≤ 65535) :
    readLPBytes (Wire.str s ++ rest) = .ok (s, 2 + s.length) := by
  unfold Wire.str readLPBytes
  simp only [List.cons_append]
  have h1 : (UInt8.ofNat (s.length / 256)).toNat = s.length / 256 := u8_ofNat_toNat (by omega)
  have h2 : (UInt8.ofNat (s.length % 256)).toNat = s.length % 256 := u8_ofNat_toNat (by omega)
  have hb : beU16 (UInt8.ofNat (s.length / 256)) (UInt8.ofNat (s.length % 256)) = s.length := by
    unfold beU16; rw [h1, h2]; omega
  rw [hb]
  rw [if_neg (by simp)]
  rw [slice_eq (a := [UInt8.ofNat (s.length / 256), UInt8.ofNat (s.length % 256)]) (m := s) (b := rest) (by simp) (by simp) (by simp)]
  rfl

/-- two-byte identifier -/
def u16of (bs : Bytes) : UInt16 :=
  match bs with
  | [a, b] => UInt16.ofNat (beU16 a b)
  | _ => 0

/-- the packet a message object stands for (its fields as an MQTT packet) -/
def absMsg : Msg → Wire.Packet
  | .connect _ c =>
    .connect {
      level := c.version, clean := c.cleanSession, keepAlive := UInt16.ofNat c.keepAlive, clientId := c.clientID,
      will := if c.willFlag then some ⟨c.willTopic, c.willMessage, UInt8.ofNat c.willQos, c.willRetain⟩ else none,
      username := if c.usernameFlag then some c.username else none,
      password := if c.passwordFlag then some c.password else none }
  | .connack _ sp rc => .connack sp rc
  | .publish h topic payload =>
    .publish (pubDup h) (UInt8.ofNat (pubQoS h)) (pubRetain h) topic (if pubQoS h = 0 then 0 else u16of h.pid) payload
  | .ack h =>
    if h.type = 4 then .puback (u16of h.pid)
    else if h.type = 5 then .pubrec (u16of h.pid)
    else if h.type = 6 then .pubrel (u16of h.pid)
    else if h.type = 7 then .pubcomp (u16of h.pid)
    else .unsuback (u16of h.pid)
  | .subscribe h ts qs => .subscribe (u16of h.pid) (ts.zip qs)
  | .suback h codes => .suback (u16of h.pid) codes
  | .unsubscribe h ts => .unsubscribe (u16of h.pid) ts
  | .bare h => if h.type = 12 then .pingreq else if h.type = 13 then .pingresp else .disconnect

theorem encode_append (p : Wire.Packet) (rest : Bytes) :
    Wire.encode p ++ rest =
      UInt8.ofNat (p.type * 16 + p.flags) :: (Wire.varint p.body.length ++ (p.body ++ rest)) := by
  simp [Wire.encode]

theorem u16of_u16 (id : UInt16) : u16of (Wire.u16 id) = id := by
  unfold Wire.u16 u16of beU16
  simp only []
  have := id.toNat_lt
  rw [u8_ofNat_toNat (by omega), u8_ofNat_toNat (by omega)]
  have e : id.toNat / 256 * 256 + id.toNat % 256 = id.toNat := by omega
  rw [e]
  simp



/-- acceptance statement: the reference encoding of `p`, followed by anything, decodes to `p` -/
def Accepts (p : Wire.Packet) : Prop :=
  ∀ rest : Bytes, ∃ d, decodeNew p.type (Wire.encode p ++ rest) = .ok d ∧
    d.n = (Wire.encode p).length ∧ absMsg d.msg = p

theorem hdrNew_type (t : Nat) (h : 1 ≤ t ∧ t ≤ 14) : (Hdr.new t).type = t := by
  obtain ⟨h1, h2⟩ := h
  have : t = 1 ∨ t = 2 ∨ t = 3 ∨ t = 4 ∨ t = 5 ∨ t = 6 ∨ t = 7 ∨ t = 8 ∨ t = 9 ∨ t = 10 ∨ t = 11 ∨ t = 12 ∨ t = 13 ∨ t = 14 := by omega
  rcases this with rfl | rfl | rfl | rfl | rfl | rfl | rfl | rfl | rfl | rfl | rfl | rfl | rfl | rfl <;> decide

theorem accepts_ack (t : Nat) (id : UInt16) (p : Wire.Packet)
    (ht : t = 4 ∨ t = 5 ∨ t = 6 ∨ t = 7 ∨ t = 11)
    (hp : p.type = t ∧ p.flags = defaultFlagsOf t ∧ p.body = Wire.u16 id)
    (habs : ∀ h : Hdr, h.type = t → (absMsg (.ack h) = p ↔ u16of h.pid = id)) : Accepts p := by
  intro rest
  obtain ⟨hp1, hp2, hp3⟩ := hp
  have hnew : Msg.new t = some (.ack (Hdr.new t)) := by
    rcases ht with rfl | rfl | rfl | rfl | rfl <;> rfl
  have hbl : p.body.length = 2 := by rw [hp3]; rfl
  have hdec := hdr_decode_wire (Hdr.new t) t (defaultFlagsOf t) p.body rest
    (hdrNew_type t (by omega)) (by rcases ht with rfl | rfl | rfl | rfl | rfl <;> decide)
    (by rcases ht with rfl | rfl | rfl | rfl | rfl <;> decide) (fun _ => rfl)
    (by intro e; rcases ht with rfl | rfl | rfl | rfl | rfl <;> simp [tPUBLISH] at e) (by omega)
  unfold decodeNew
  rw [hp1, hnew]
  simp only [decode, decodeAck]
  rw [sliceFrom_ok (Nat.zero_le _)]
  simp only [bind_ok, List.drop_zero]
  rw [encode_append, hp1, hp2, hdec]
  simp only [bind_ok]
  rw [if_neg (by omega)]
  have hv : Wire.varint p.body.length = [2] := by rw [hbl]; rfl
  rw [hv, hp3]
  rw [slice_eq (a := [UInt8.ofNat (t * 16 + defaultFlagsOf t), 2]) (m := Wire.u16 id) (b := rest) (by simp) (by simp) (by simp [Wire.u16])]
  simp only [bind_ok]
  refine ⟨_, rfl, ?_, ?_⟩
  · simp [Wire.encode, hp1, hp2, hp3, hbl, Wire.u16, Wire.varint]
  · simp only []
    rw [habs]
    · simp only []; exact u16of_u16 id
    · simp only [Hdr.type]
      rw [u8_ofNat_toNat (by rcases ht with rfl | rfl | rfl | rfl | rfl <;> decide)]
      rcases ht with rfl | rfl | rfl | rfl | rfl <;> decide


theorem accepts_puback (id : UInt16) : Accepts (.puback id) :=
  accepts_ack 4 id _ (by omega) ⟨rfl, rfl, rfl⟩ (by intro h ht; simp [absMsg, ht])
theorem accepts_pubrec (id : UInt16) : Accepts (.pubrec id) :=
  accepts_ack 5 id _ (by omega) ⟨rfl, rfl, rfl⟩ (by intro h ht; simp [absMsg, ht])
theorem accepts_pubrel (id : UInt16) : Accepts (.pubrel id) :=
  accepts_ack 6 id _ (by omega) ⟨rfl, rfl, rfl⟩ (by intro h ht; simp [absMsg, ht])
theorem accepts_pubcomp (id : UInt16) : Accepts (.pubcomp id) :=
  accepts_ack 7 id _ (by omega) ⟨rfl, rfl, rfl⟩ (by intro h ht; simp [absMsg, ht])
theorem accepts_unsuback (id : UInt16) : Accepts (.unsuback id) :=
  accepts_ack 11 id _ (by omega) ⟨rfl, rfl, rfl⟩ (by intro h ht; simp [absMsg, ht])

theorem accepts_bare (t : Nat) (p : Wire.Packet) (ht : t = 12 ∨ t = 13 ∨ t = 14)
    (hp : p.type = t ∧ p.flags = 0 ∧ p.body = [])
    (habs : ∀ h : Hdr, h.type = t → absMsg (.bare h) = p) : Accepts p := by
  intro rest
  obtain ⟨hp1, hp2, hp3⟩ := hp
  have hnew : Msg.new t = some (.bare (Hdr.new t)) := by
    rcases ht with rfl | rfl | rfl <;> rfl
  have hdec := hdr_decode_wire (Hdr.new t) t 0 p.body rest
    (hdrNew_type t (by omega)) (by rcases ht with rfl | rfl | rfl <;> decide)
    (by omega) (by intro _; rcases ht with rfl | rfl | rfl <;> decide)
    (by intro e; rcases ht with rfl | rfl | rfl <;> simp [tPUBLISH] at e) (by rw [hp3]; simp)
  unfold decodeNew
  rw [hp1, hnew]
  simp only [decode, decodeBare]
  rw [encode_append, hp1, hp2, hdec]
  simp only [bind_ok]
  rw [if_neg (by rw [hp3]; simp)]
  refine ⟨_, rfl, ?_, ?_⟩
  · simp [Wire.encode, hp1, hp2, hp3, Wire.varint]
  · simp only []
    apply habs
    simp only [Hdr.type]
    rw [u8_ofNat_toNat (by rcases ht with rfl | rfl | rfl <;> decide)]
    omega

theorem accepts_pingreq : Accepts .pingreq :=
  accepts_bare 12 _ (by omega) ⟨rfl, rfl, rfl⟩ (by intro h ht; simp [absMsg, ht])
theorem accepts_pingresp : Accepts .pingresp :=
  accepts_bare 13 _ (by omega) ⟨rfl, rfl, rfl⟩ (by intro h ht; simp [absMsg, ht])
theorem accepts_disconnect : Accepts .disconnect :=
  accepts_bare 14 _ (by omega) ⟨rfl, rfl, rfl⟩ (by intro h ht; simp [absMsg, ht])

theorem accepts_connack (sp : Bool) (code : UInt8) (hc : code ≤ 5) : Accepts (.connack sp code) := by
  intro rest
  have hdec := hdr_decode_wire (Hdr.new 2) 2 0 (Wire.Packet.connack sp code).body rest
    (by decide) (by decide) (by omega) (by intro _; decide) (by intro e; simp [tPUBLISH] at e) (by simp [Wire.Packet.body])
  unfold decodeNew
  have hnew : Msg.new (Wire.Packet.connack sp code).type = some (.connack (Hdr.new 2) false 0) := rfl
  rw [hnew]
  simp only [decode, decodeConnack]
  rw [encode_append]
  have e1 : (Wire.Packet.connack sp code).type = 2 := rfl
  have e2 : (Wire.Packet.connack sp code).flags = 0 := rfl
  rw [e1, e2, hdec]
  simp only [bind_ok]
  rw [if_neg (by simp [Wire.Packet.body])]
  have hb : (Wire.Packet.connack sp code).body = [UInt8.ofNat (Wire.b2n sp), code] := rfl
  rw [hb]
  have hv : Wire.varint [UInt8.ofNat (Wire.b2n sp), code].length = [2] := rfl
  rw [hv]
  have hi1 : index (UInt8.ofNat (2 * 16 + 0) :: ([2] ++ ([UInt8.ofNat (Wire.b2n sp), code] ++ rest))) (1 + [(2:UInt8)].length) = .ok (UInt8.ofNat (Wire.b2n sp)) := rfl
  rw [hi1]
  simp only [bind_ok]
  have hsp : (UInt8.ofNat (Wire.b2n sp)).toNat = Wire.b2n sp := by cases sp <;> rfl
  rw [hsp]
  rw [if_neg (by cases sp <;> simp [Wire.b2n])]
  have hi2 : index (UInt8.ofNat (2 * 16 + 0) :: ([2] ++ ([UInt8.ofNat (Wire.b2n sp), code] ++ rest))) (1 + [(2:UInt8)].length + 1) = .ok code := rfl
  rw [hi2]
  simp only [bind_ok]
  have hc' : code.toNat ≤ 5 := hc
  rw [if_neg (by simp only [connackMaxCode]; omega)]
  refine ⟨_, rfl, rfl, ?_⟩
  simp only [absMsg]
  cases sp <;> simp [Wire.b2n]

theorem varint_len_bounds (n : Nat) : 1 ≤ (Wire.varint n).length ∧ (Wire.varint n).length ≤ 4 := by
  unfold Wire.varint; repeat' split
  all_goals simp

theorem accepts_suback (id : UInt16) (codes : List UInt8) (hwf : Wire.WF (.suback id codes)) :
    Accepts (.suback id codes) := by
  intro rest
  unfold Wire.WF Wire.wf at hwf
  simp only [Bool.and_eq_true, decide_eq_true_eq, Wire.maxRemaining] at hwf
  obtain ⟨⟨_, hcodes⟩, hlen⟩ := hwf
  have hb : (Wire.Packet.suback id codes).body = Wire.u16 id ++ codes := rfl
  have hlen := of_decide_eq_true hlen
  have hbl : (Wire.Packet.suback id codes).body.length = 2 + codes.length := by rw [hb]; simp [Wire.u16]; omega
  have hdec := hdr_decode_wire (Hdr.new 9) 9 0 (Wire.Packet.suback id codes).body rest
    (by decide) (by decide) (by omega) (by intro _; decide) (by intro e; simp [tPUBLISH] at e) (by omega)
  unfold decodeNew
  have hnew : Msg.new (Wire.Packet.suback id codes).type = some (.suback (Hdr.new 9) []) := rfl
  rw [hnew]
  simp only [decode, decodeSuback]
  rw [sliceFrom_ok (Nat.zero_le _)]
  simp only [bind_ok, List.drop_zero]
  rw [encode_append]
  have e1 : (Wire.Packet.suback id codes).type = 9 := rfl
  have e2 : (Wire.Packet.suback id codes).flags = 0 := rfl
  rw [e1, e2, hdec]
  simp only [bind_ok]
  generalize hV : Wire.varint (Wire.Packet.suback id codes).body.length = V
  have hVl := varint_len_bounds (Wire.Packet.suback id codes).body.length
  rw [hV] at hVl
  rw [hb]
  rw [sliceTo_eq (a := UInt8.ofNat (9 * 16 + 0) :: (V ++ (Wire.u16 id ++ codes))) (b := rest) (by simp) (by simp [Wire.u16]; omega)]
  simp only [bind_ok]
  rw [if_neg (by simp [Wire.u16])]
  rw [slice_eq (a := UInt8.ofNat (9 * 16 + 0) :: V) (m := Wire.u16 id) (b := codes) (by simp) (by simp; omega) (by simp [Wire.u16]; omega)]
  simp only [bind_ok]
  rw [slice_eq (a := UInt8.ofNat (9 * 16 + 0) :: (V ++ Wire.u16 id)) (m := codes) (b := []) (by simp) (by simp [Wire.u16]; omega) (by simp [Wire.u16]; omega)]
  simp only [bind_ok]
  have hall : (codes.all fun c => c = 0 || c = 1 || c = 2 || c = 0x80) = true := by
    rw [List.all_eq_true] at hcodes ⊢
    intro c hc
    have := hcodes c hc
    simpa [Wire.returnCodeOk] using this
  rw [if_pos hall]
  refine ⟨_, rfl, ?_, ?_⟩
  · have : (Wire.encode (.suback id codes)).length = 1 + V.length + (2 + codes.length) := by
      unfold Wire.encode; rw [List.length_cons, List.length_append, hV, hbl]; omega
    rw [this]; simp only []; omega
  · simp only [absMsg]
    rw [u16of_u16]


theorem validTopic_of_topicNameOk (t : Bytes) (h : Wire.topicNameOk t = true) : validTopic t = true := by
  unfold Wire.topicNameOk at h
  unfold validTopic
  simp only [Bool.and_eq_true, Bool.not_eq_true', decide_eq_true_eq] at h ⊢
  refine ⟨⟨?_, h.1.2⟩, h.2⟩
  cases t with
  | nil => simp at h
  | cons a r => simp

theorem accepts_publish (dup : Bool) (qos : UInt8) (ret : Bool) (topic : Bytes) (id : UInt16) (payload : Bytes)
    (hwf : Wire.WF (.publish dup qos ret topic id payload)) :
    Accepts (.publish dup qos ret topic id payload) := by
  intro rest
  unfold Wire.WF Wire.wf at hwf
  simp only [Bool.and_eq_true, decide_eq_true_eq, Wire.maxRemaining, Wire.strOk] at hwf
  obtain ⟨⟨⟨⟨hq, hts⟩, htn⟩, hid⟩, hlen⟩ := hwf
  have hq' : qos.toNat ≤ 2 := hq
  have hlen := of_decide_eq_true hlen
  generalize hp : Wire.Packet.publish dup qos ret topic id payload = p at *
  have e1 : p.type = 3 := by rw [← hp]; rfl
  have e2 : p.flags = Wire.b2n dup * 8 + qos.toNat * 2 + Wire.b2n ret := by rw [← hp]; rfl
  have hb : p.body = Wire.str topic ++ ((if qos = 0 then [] else Wire.u16 id) ++ payload) := by
    rw [← hp]; simp [Wire.Packet.body]
  have hidl : (if qos = 0 then [] else Wire.u16 id).length = (if qos = 0 then 0 else 2) := by
    split <;> simp [Wire.u16]
  have hbl : p.body.length = 2 + topic.length + (if qos = 0 then 0 else 2) + payload.length := by
    rw [hb]; simp only [List.length_append, hidl, Wire.str, List.length_cons]; omega
  have hfl : p.flags < 16 := by rw [e2]; cases dup <;> cases ret <;> simp [Wire.b2n] <;> omega
  have hfq : p.flags / 2 % 4 = qos.toNat := by rw [e2]; cases dup <;> cases ret <;> simp [Wire.b2n] <;> omega
  have hdec := hdr_decode_wire (Hdr.new 3) 3 p.flags p.body rest
    (by decide) (by decide) hfl (by intro e; exact absurd rfl e)
    (by intro _; rw [hfq]; simp [validQos, qosAtMostOnce, qosAtLeastOnce, qosExactlyOnce]; omega) (by omega)
  unfold decodeNew
  have hnew : Msg.new p.type = some (.publish (Hdr.new 3) [] []) := by rw [e1]; rfl
  rw [hnew]
  simp only [decode, decodePublish]
  rw [sliceFrom_ok (Nat.zero_le _)]
  simp only [bind_ok, List.drop_zero]
  rw [encode_append, e1, hdec]
  simp only [bind_ok]
  generalize hV : Wire.varint p.body.length = V
  have hVl := varint_len_bounds p.body.length
  rw [hV] at hVl
  rw [sliceTo_eq (a := UInt8.ofNat (3 * 16 + p.flags) :: (V ++ p.body)) (b := rest) (by simp) (by simp; omega)]
  simp only [bind_ok]
  rw [sliceFrom_eq (a := UInt8.ofNat (3 * 16 + p.flags) :: V) (b := p.body) (by simp) (by simp; omega)]
  simp only [bind_ok]
  rw [hb, readLP_wire _ _ hts]
  simp only [bind_ok]
  rw [if_neg (by simp [validTopic_of_topicNameOk topic htn])]
  have htfn : (UInt8.ofNat (3 * 16 + p.flags)).toNat = 3 * 16 + p.flags := u8_ofNat_toNat (by omega)
  have hmod : (3 * 16 + p.flags) % 16 = p.flags := by omega
  simp only [pubQoS, Hdr.flags, htfn, hmod, hfq]
  have henc : (Wire.encode p).length = 1 + V.length + p.body.length := by
    unfold Wire.encode; rw [List.length_cons, List.length_append, hV]; omega
  by_cases hq0 : qos = 0
  · have hqn : qos.toNat = 0 := by rw [hq0]; rfl
    have hz : UInt8.toNat 0 = 0 := rfl
    simp only [hqn, hq0, hz, if_true, ne_eq, not_true_eq_false, if_false, bind_ok, List.nil_append] at hbl hid ⊢
    rw [if_neg (by simp [Wire.str]; omega)]
    rw [slice_eq (a := UInt8.ofNat (3 * 16 + p.flags) :: (V ++ Wire.str topic)) (m := payload) (b := [])
      (by simp) (by simp [Wire.str]; omega) (by simp [Wire.str]; omega)]
    simp only [bind_ok]
    refine ⟨_, rfl, ?_, ?_⟩
    · rw [henc, hbl]; simp only []; omega
    · simp only [absMsg, pubQoS, pubDup, pubRetain, Hdr.flags, htfn, hmod, hfq, hqn]
      have hid' : id = 0 := of_decide_eq_true hid
      rw [e2, hqn, ← hp, hq0, hid']
      cases dup <;> cases ret <;> simp [Wire.b2n]
  · have hqn : qos.toNat ≠ 0 := by
      intro e; apply hq0; exact UInt8.toNat_inj.mp e
    simp only [hq0, if_false] at hbl hid ⊢
    rw [if_pos hqn]
    rw [sliceFrom_eq (a := UInt8.ofNat (3 * 16 + p.flags) :: (V ++ Wire.str topic)) (b := Wire.u16 id ++ payload)
      (by simp) (by simp [Wire.str]; omega)]
    simp only [bind_ok]
    rw [if_neg (by simp [Wire.u16])]
    rw [slice_eq (a := UInt8.ofNat (3 * 16 + p.flags) :: (V ++ Wire.str topic)) (m := Wire.u16 id) (b := payload)
      (by simp) (by simp [Wire.str]; omega) (by simp [Wire.str, Wire.u16]; omega)]
    simp only [bind_ok]
    rw [if_neg (by simp [Wire.str, Wire.u16]; omega)]
    rw [slice_eq (a := UInt8.ofNat (3 * 16 + p.flags) :: (V ++ (Wire.str topic ++ Wire.u16 id))) (m := payload) (b := [])
      (by simp) (by simp [Wire.str, Wire.u16]; omega) (by simp [Wire.str, Wire.u16]; omega)]
    simp only [bind_ok]
    refine ⟨_, rfl, ?_, ?_⟩
    · rw [henc, hbl]; simp only []; omega
    · simp only [absMsg, pubQoS, pubDup, pubRetain, Hdr.flags, htfn, hmod, hfq]
      have hqq : UInt8.ofNat qos.toNat = qos := by simp
      rw [if_neg hqn, u16of_u16, hqq, e2, ← hp]
      have h3 : qos.toNat = 1 ∨ qos.toNat = 2 := by omega
      rcases h3 with h3 | h3 <;> rw [h3] <;> cases dup <;> cases ret <;> simp [Wire.b2n]

theorem index_eq {s a b : Bytes} {x : UInt8} {k : Nat} (h : s = a ++ x :: b) (hk : k = a.length) : index s k = .ok x := by
  subst h; subst hk
  unfold index
  simp

def encFilters (fs : List (Bytes × UInt8)) : Bytes := fs.flatMap (fun f => Wire.str f.1 ++ [f.2])

theorem encFilters_cons (f : Bytes × UInt8) (fs : List (Bytes × UInt8)) :
    encFilters (f :: fs) = Wire.str f.1 ++ (f.2 :: encFilters fs) := by
  simp [encFilters, List.flatMap_cons]

theorem subLoop_wire (fs : List (Bytes × UInt8)) :
    ∀ (pre : Bytes) (ts : List Bytes) (qs : List UInt8) (vs : List View),
      (∀ f ∈ fs, f.1.length ≤ 65535) →
      ∃ vs', subLoop (pre ++ encFilters fs) pre.length (encFilters fs).length ts qs vs =
        .ok (ts ++ fs.map (·.1), qs ++ fs.map (·.2), vs', (pre ++ encFilters fs).length) := by
  induction fs with
  | nil =>
    intro pre ts qs vs _
    rw [subLoop]
    simp [encFilters]
  | cons f fs ih =>
    intro pre ts qs vs hs
    rw [subLoop]
    rw [encFilters_cons]
    rw [if_neg (by simp [Wire.str])]
    have hstep : subStep (pre ++ (Wire.str f.1 ++ f.2 :: encFilters fs)) pre.length = .ok (f.1, f.2, 2 + f.1.length) := by
      unfold subStep
      rw [sliceFrom_eq (a := pre) (b := Wire.str f.1 ++ f.2 :: encFilters fs) rfl rfl]
      simp only [bind_ok]
      rw [readLP_wire _ _ (hs f (by simp))]
      simp only [bind_ok]
      rw [sliceFrom_eq (a := pre ++ Wire.str f.1) (b := f.2 :: encFilters fs) (by simp) (by simp [Wire.str]; omega)]
      simp only [bind_ok]
      rw [if_neg (by simp)]
      rw [index_eq (a := pre ++ Wire.str f.1) (b := encFilters fs) (x := f.2) (by simp) (by simp [Wire.str]; omega)]
      simp only [bind_ok]
    rw [hstep]
    simp only []
    have := ih (pre ++ (Wire.str f.1 ++ [f.2])) (ts ++ [f.1]) (qs ++ [f.2]) (vs ++ [(pre.length + 2, f.1.length)])
      (fun g hg => hs g (by simp [hg]))
    obtain ⟨vs', hv⟩ := this
    refine ⟨vs', ?_⟩
    have e1 : pre ++ (Wire.str f.1 ++ [f.2]) ++ encFilters fs = pre ++ (Wire.str f.1 ++ f.2 :: encFilters fs) := by simp
    have e2 : (pre ++ (Wire.str f.1 ++ [f.2])).length = pre.length + (2 + f.1.length) + 1 := by simp [Wire.str]; omega
    have e3 : (Wire.str f.1 ++ f.2 :: encFilters fs).length - (2 + f.1.length) - 1 = (encFilters fs).length := by simp [Wire.str]; omega
    rw [e1, e2] at hv
    rw [e3, hv]
    simp

theorem zip_map_fst_snd {α β : Type} (l : List (α × β)) : (l.map (·.1)).zip (l.map (·.2)) = l := by
  induction l with
  | nil => rfl
  | cons a l ih => simp [ih]

theorem accepts_subscribe (id : UInt16) (fs : List (Bytes × UInt8)) (hwf : Wire.WF (.subscribe id fs)) :
    Accepts (.subscribe id fs) := by
  intro rest
  unfold Wire.WF Wire.wf at hwf
  simp only [Bool.and_eq_true, decide_eq_true_eq, Wire.maxRemaining, Wire.strOk] at hwf
  obtain ⟨⟨⟨_, hne⟩, hall⟩, hlen⟩ := hwf
  have hlen := of_decide_eq_true hlen
  generalize hp : Wire.Packet.subscribe id fs = p at *
  have e1 : p.type = 8 := by rw [← hp]; rfl
  have e2 : p.flags = 2 := by rw [← hp]; rfl
  have hb : p.body = Wire.u16 id ++ encFilters fs := by rw [← hp]; rfl
  have hbl : p.body.length = 2 + (encFilters fs).length := by rw [hb]; simp [Wire.u16]; omega
  have hs : ∀ f ∈ fs, f.1.length ≤ 65535 := by
    intro f hf
    rw [List.all_eq_true] at hall
    have := hall f hf
    simp only [Bool.and_eq_true, decide_eq_true_eq] at this
    exact this.1
  have hdec := hdr_decode_wire (Hdr.new 8) 8 2 p.body rest
    (by decide) (by decide) (by omega) (by intro _; decide) (by intro e; simp [tPUBLISH] at e) (by omega)
  unfold decodeNew
  have hnew : Msg.new p.type = some (.subscribe (Hdr.new 8) [] []) := by rw [e1]; rfl
  rw [hnew]
  simp only [decode, decodeSubscribe]
  rw [sliceFrom_ok (Nat.zero_le _)]
  simp only [bind_ok, List.drop_zero]
  rw [encode_append, e1, e2, hdec]
  simp only [bind_ok]
  generalize hV : Wire.varint p.body.length = V
  have hVl := varint_len_bounds p.body.length
  rw [hV] at hVl
  rw [sliceTo_eq (a := UInt8.ofNat (8 * 16 + 2) :: (V ++ p.body)) (b := rest) (by simp) (by simp; omega)]
  simp only [bind_ok]
  rw [if_neg (by omega)]
  rw [hb]
  rw [slice_eq (a := UInt8.ofNat (8 * 16 + 2) :: V) (m := Wire.u16 id) (b := encFilters fs) (by simp) (by simp; omega) (by simp [Wire.u16]; omega)]
  simp only [bind_ok]
  obtain ⟨vs', hloop⟩ := subLoop_wire fs (UInt8.ofNat (8 * 16 + 2) :: (V ++ Wire.u16 id)) [] [] [] hs
  have ea : UInt8.ofNat (8 * 16 + 2) :: (V ++ (Wire.u16 id ++ encFilters fs)) = (UInt8.ofNat (8 * 16 + 2) :: (V ++ Wire.u16 id)) ++ encFilters fs := by simp
  have eb : 1 + V.length + 2 = (UInt8.ofNat (8 * 16 + 2) :: (V ++ Wire.u16 id)).length := by simp [Wire.u16]; omega
  have ec : (Wire.u16 id ++ encFilters fs).length - (1 + V.length + 2 - (1 + V.length)) = (encFilters fs).length := by simp [Wire.u16]
  have hloop' : subLoop (UInt8.ofNat (8 * 16 + 2) :: (V ++ (Wire.u16 id ++ encFilters fs))) (1 + V.length + 2)
      ((Wire.u16 id ++ encFilters fs).length - (1 + V.length + 2 - (1 + V.length))) [] [] [] =
      .ok ([] ++ fs.map (·.1), [] ++ fs.map (·.2), vs', (UInt8.ofNat (8 * 16 + 2) :: (V ++ (Wire.u16 id ++ encFilters fs))).length) := by
    rw [ec, ea, eb]; exact hloop
  rw [hloop']
  simp only [bind_ok, List.nil_append]
  have hne' : fs ≠ [] := by
    intro e; rw [e] at hne; simp at hne
  rw [if_neg (by simp [hne'])]
  have henc : (Wire.encode p).length = 1 + V.length + p.body.length := by
    unfold Wire.encode; rw [List.length_cons, List.length_append, hV]; omega
  refine ⟨_, rfl, ?_, ?_⟩
  · rw [henc, hbl]; simp [Wire.u16]; omega
  · simp only [absMsg]
    rw [u16of_u16, zip_map_fst_snd, hp]


def encTopics (fs : List Bytes) : Bytes := fs.flatMap Wire.str

theorem encTopics_cons (f : Bytes) (fs : List Bytes) : encTopics (f :: fs) = Wire.str f ++ encTopics fs := by
  simp [encTopics, List.flatMap_cons]

theorem unsubLoop_wire (fs : List Bytes) :
    ∀ (pre : Bytes) (ts : List Bytes) (vs : List View),
      (∀ f ∈ fs, f.length ≤ 65535) →
      ∃ vs', unsubLoop (pre ++ encTopics fs) pre.length (encTopics fs).length ts vs =
        .ok (ts ++ fs, vs', (pre ++ encTopics fs).length) := by
  induction fs with
  | nil =>
    intro pre ts vs _
    rw [unsubLoop]
    simp [encTopics]
  | cons f fs ih =>
    intro pre ts vs hs
    rw [unsubLoop]
    rw [encTopics_cons]
    rw [if_neg (by simp [Wire.str])]
    have hstep : unsubStep (pre ++ (Wire.str f ++ encTopics fs)) pre.length = .ok (f, f.length) := by
      unfold unsubStep
      rw [sliceFrom_eq (a := pre) (b := Wire.str f ++ encTopics fs) rfl rfl]
      simp only [bind_ok]
      rw [readLP_wire _ _ (hs f (by simp))]
      simp only [bind_ok]
      congr 2; omega
    rw [hstep]
    simp only []
    obtain ⟨vs', hv⟩ := ih (pre ++ Wire.str f) (ts ++ [f]) (vs ++ [(pre.length + 2, f.length)])
      (fun g hg => hs g (by simp [hg]))
    refine ⟨vs', ?_⟩
    have e1 : pre ++ Wire.str f ++ encTopics fs = pre ++ (Wire.str f ++ encTopics fs) := by simp
    have e2 : (pre ++ Wire.str f).length = pre.length + (2 + f.length) := by simp [Wire.str]; omega
    have e3 : (Wire.str f ++ encTopics fs).length - (2 + f.length) = (encTopics fs).length := by simp [Wire.str]; omega
    rw [e1, e2] at hv
    rw [e3, hv]
    simp

theorem accepts_unsubscribe (id : UInt16) (fs : List Bytes) (hwf : Wire.WF (.unsubscribe id fs)) :
    Accepts (.unsubscribe id fs) := by
  intro rest
  unfold Wire.WF Wire.wf at hwf
  simp only [Bool.and_eq_true, decide_eq_true_eq, Wire.maxRemaining, Wire.strOk] at hwf
  obtain ⟨⟨⟨_, hne⟩, hall⟩, hlen⟩ := hwf
  have hlen := of_decide_eq_true hlen
  generalize hp : Wire.Packet.unsubscribe id fs = p at *
  have e1 : p.type = 10 := by rw [← hp]; rfl
  have e2 : p.flags = 2 := by rw [← hp]; rfl
  have hb : p.body = Wire.u16 id ++ encTopics fs := by rw [← hp]; rfl
  have hbl : p.body.length = 2 + (encTopics fs).length := by rw [hb]; simp [Wire.u16]; omega
  have hs : ∀ f ∈ fs, f.length ≤ 65535 := by
    intro f hf
    rw [List.all_eq_true] at hall
    have := hall f hf
    simpa [Wire.strOk] using this
  have hdec := hdr_decode_wire (Hdr.new 10) 10 2 p.body rest
    (by decide) (by decide) (by omega) (by intro _; decide) (by intro e; simp [tPUBLISH] at e) (by omega)
  unfold decodeNew
  have hnew : Msg.new p.type = some (.unsubscribe (Hdr.new 10) []) := by rw [e1]; rfl
  rw [hnew]
  simp only [decode, decodeUnsubscribe]
  rw [sliceFrom_ok (Nat.zero_le _)]
  simp only [bind_ok, List.drop_zero]
  rw [encode_append, e1, e2, hdec]
  simp only [bind_ok]
  generalize hV : Wire.varint p.body.length = V
  have hVl := varint_len_bounds p.body.length
  rw [hV] at hVl
  rw [sliceTo_eq (a := UInt8.ofNat (10 * 16 + 2) :: (V ++ p.body)) (b := rest) (by simp) (by simp; omega)]
  simp only [bind_ok]
  rw [if_neg (by omega)]
  rw [hb]
  rw [slice_eq (a := UInt8.ofNat (10 * 16 + 2) :: V) (m := Wire.u16 id) (b := encTopics fs) (by simp) (by simp; omega) (by simp [Wire.u16]; omega)]
  simp only [bind_ok]
  obtain ⟨vs', hloop⟩ := unsubLoop_wire fs (UInt8.ofNat (10 * 16 + 2) :: (V ++ Wire.u16 id)) [] [] hs
  have ea : UInt8.ofNat (10 * 16 + 2) :: (V ++ (Wire.u16 id ++ encTopics fs)) = (UInt8.ofNat (10 * 16 + 2) :: (V ++ Wire.u16 id)) ++ encTopics fs := by simp
  have eb : 1 + V.length + 2 = (UInt8.ofNat (10 * 16 + 2) :: (V ++ Wire.u16 id)).length := by simp [Wire.u16]; omega
  have ec : (Wire.u16 id ++ encTopics fs).length - (1 + V.length + 2 - (1 + V.length)) = (encTopics fs).length := by simp [Wire.u16]
  have hloop' : unsubLoop (UInt8.ofNat (10 * 16 + 2) :: (V ++ (Wire.u16 id ++ encTopics fs))) (1 + V.length + 2)
      ((Wire.u16 id ++ encTopics fs).length - (1 + V.length + 2 - (1 + V.length))) [] [] =
      .ok ([] ++ fs, vs', (UInt8.ofNat (10 * 16 + 2) :: (V ++ (Wire.u16 id ++ encTopics fs))).length) := by
    rw [ec, ea, eb]; exact hloop
  rw [hloop']
  simp only [bind_ok, List.nil_append]
  have hne' : fs ≠ [] := by
    intro e; rw [e] at hne; simp at hne
  rw [if_neg (by simp [hne'])]
  have henc : (Wire.encode p).length = 1 + V.length + p.body.length := by
    unfold Wire.encode; rw [List.length_cons, List.length_append, hV]; omega
  refine ⟨_, rfl, ?_, ?_⟩
  · rw [henc, hbl]; simp [Wire.u16]; omega
  · simp only [absMsg]
    rw [u16of_u16, hp]


theorem readField_wire (pre s post : Bytes) (hs : s.length ≤ 65535) :
    readField (pre ++ (Wire.str s ++ post)) pre.length =
      .ok (s, (pre.length + 2, s.length), pre.length + (2 + s.length)) := by
  unfold readField
  rw [sliceFrom_eq (a := pre) (b := Wire.str s ++ post) rfl rfl]
  simp only [bind_ok]
  rw [readLP_wire _ _ hs]
  simp only [bind_ok]

theorem beU16_u16 (v : UInt16) :
    beU16 ((Wire.u16 v).headD 0) ((Wire.u16 v).getD 1 0) = v.toNat := by
  unfold Wire.u16 beU16
  have := v.toNat_lt
  simp only [List.headD_cons, List.getD_cons_succ, List.getD_cons_zero]
  rw [u8_ofNat_toNat (by omega), u8_ofNat_toNat (by omega)]
  omega

theorem connectFixed_wire (c0 : ConnectF) (name : Bytes) (level cf : UInt8) (ka : UInt16) (tail : Bytes)
    (hn : name.length ≤ 65535) (hv : versionName level.toNat = some name)
    (h0 : cf.toNat % 2 = 0) (hq : cf.toNat / 8 % 4 ≤ 2)
    (hw : cf.toNat / 4 % 2 = 1 ∨ (cf.toNat / 32 % 2 = 0 ∧ cf.toNat / 8 % 4 = 0)) :
    connectFixed c0 (Wire.str name ++ (level :: cf :: (Wire.u16 ka ++ tail))) =
      .ok ({ c0 with protoName := name, version := level, connectFlags := cf, keepAlive := ka.toNat },
           2 + name.length + 1 + 1 + 2) := by
  unfold connectFixed
  have hrf := readField_wire [] name (level :: cf :: (Wire.u16 ka ++ tail)) hn
  simp only [List.nil_append, List.length_nil, Nat.zero_add] at hrf
  rw [hrf]
  simp only [bind_ok]
  rw [sliceFrom_eq (a := Wire.str name) (b := level :: cf :: (Wire.u16 ka ++ tail)) rfl (by simp [Wire.str]; omega)]
  simp only [bind_ok]
  rw [if_neg (by simp)]
  rw [index_eq (a := Wire.str name) (b := cf :: (Wire.u16 ka ++ tail)) (x := level) rfl (by simp [Wire.str]; omega)]
  simp only [bind_ok]
  rw [if_neg (by simp [hv])]
  rw [index_eq (a := Wire.str name ++ [level]) (b := Wire.u16 ka ++ tail) (x := cf) (by simp) (by simp [Wire.str]; omega)]
  simp only [bind_ok]
  rw [if_neg (by omega)]
  rw [if_neg (by simp only [ConnectF.willQos, qosExactlyOnce]; omega)]
  rw [if_neg (by
    simp only [ConnectF.willFlag, ConnectF.willRetain, ConnectF.willQos, qosAtMostOnce, Bool.and_eq_true, Bool.not_eq_true',
      decide_eq_false_iff_not, Bool.or_eq_true, decide_eq_true_eq, not_and, not_or]
    intro hwf
    rcases hw with hw | hw
    · exact absurd hw hwf
    · exact ⟨by omega, by simp [hw.2]⟩)]
  rw [sliceFrom_eq (a := Wire.str name ++ [level, cf]) (b := Wire.u16 ka ++ tail) (by simp) (by simp [Wire.str]; omega)]
  simp only [bind_ok]
  rw [if_neg (by simp [Wire.u16])]
  rw [slice_eq (a := Wire.str name ++ [level, cf]) (m := Wire.u16 ka) (b := tail) (by simp) (by simp [Wire.str]; omega) (by simp [Wire.str, Wire.u16]; omega)]
  simp only [bind_ok]
  rw [beU16_u16]

theorem connectClientID_wire (c : ConnectF) (pre cid post : Bytes) (base : Nat) (hl : cid.length ≤ 65535)
    (h1 : ¬ (cid.length = 0 ∧ c.cleanSession = false))
    (h2 : cid.length > 0 → validClientID cid = true) :
    connectClientID c (pre ++ (Wire.str cid ++ post)) pre.length base =
      .ok ({ c with clientID := cid }, (base + (pre.length + 2), cid.length), pre.length + (2 + cid.length)) := by
  unfold connectClientID
  rw [readField_wire _ _ _ hl]
  simp only [bind_ok]
  have hcs : ({ c with clientID := cid } : ConnectF).cleanSession = c.cleanSession := rfl
  rw [if_neg (by
    simp only [Bool.and_eq_true, decide_eq_true_eq, Bool.not_eq_true', hcs]
    exact h1)]
  rw [if_neg (by
    simp only [Bool.and_eq_true, decide_eq_true_eq, Bool.not_eq_true', not_and, Bool.not_eq_false]
    exact h2)]

theorem connectWill_wire_some (c : ConnectF) (pre wt wm post : Bytes) (base : Nat)
    (hf : c.willFlag = true) (h1 : wt.length ≤ 65535) (h2 : wm.length ≤ 65535) :
    ∃ v1 v2, connectWill c (pre ++ (Wire.str wt ++ (Wire.str wm ++ post))) pre.length base =
      .ok ({ c with willTopic := wt, willMessage := wm }, v1, v2, pre.length + (2 + wt.length) + (2 + wm.length)) := by
  unfold connectWill
  rw [if_pos hf]
  rw [readField_wire _ _ _ h1]
  simp only [bind_ok]
  have e : pre ++ (Wire.str wt ++ (Wire.str wm ++ post)) = (pre ++ Wire.str wt) ++ (Wire.str wm ++ post) := by simp
  have el : pre.length + (2 + wt.length) = (pre ++ Wire.str wt).length := by simp [Wire.str]; omega
  rw [e, el, readField_wire _ _ _ h2]
  simp only [bind_ok]
  exact ⟨_, _, rfl⟩

theorem connectWill_wire_none (c : ConnectF) (src : Bytes) (total base : Nat) (hf : c.willFlag = false) :
    connectWill c src total base = .ok (c, (0, 0), (0, 0), total) := by
  unfold connectWill
  rw [if_neg (by simp [hf])]

theorem connectUser_wire_some (c : ConnectF) (pre u post : Bytes) (base : Nat)
    (hf : c.usernameFlag = true) (h1 : u.length ≤ 65535) :
    ∃ v, connectUser c (pre ++ (Wire.str u ++ post)) pre.length base =
      .ok ({ c with username := u }, v, pre.length + (2 + u.length)) := by
  unfold connectUser
  rw [sliceFrom_eq (a := pre) (b := Wire.str u ++ post) rfl rfl]
  simp only [bind_ok]
  rw [if_pos (by simp [hf, Wire.str])]
  rw [readField_wire _ _ _ h1]
  simp only [bind_ok]
  exact ⟨_, rfl⟩

theorem connectUser_wire_none (c : ConnectF) (src : Bytes) (total base : Nat) (ht : total ≤ src.length)
    (hf : c.usernameFlag = false) :
    connectUser c src total base = .ok (c, (0, 0), total) := by
  unfold connectUser
  rw [sliceFrom_ok ht]
  simp only [bind_ok]
  rw [if_neg (by simp [hf])]

theorem connectPass_wire_some (c : ConnectF) (pre u post : Bytes) (base : Nat)
    (hf : c.passwordFlag = true) (h1 : u.length ≤ 65535) :
    ∃ v, connectPass c (pre ++ (Wire.str u ++ post)) pre.length base =
      .ok ({ c with password := u }, v, pre.length + (2 + u.length)) := by
  unfold connectPass
  rw [sliceFrom_eq (a := pre) (b := Wire.str u ++ post) rfl rfl]
  simp only [bind_ok]
  rw [if_pos (by simp [hf, Wire.str])]
  rw [readField_wire _ _ _ h1]
  simp only [bind_ok]
  exact ⟨_, rfl⟩

theorem connectPass_wire_none (c : ConnectF) (src : Bytes) (total base : Nat) (ht : total ≤ src.length)
    (hf : c.passwordFlag = false) :
    connectPass c src total base = .ok (c, (0, 0), total) := by
  unfold connectPass
  rw [sliceFrom_ok ht]
  simp only [bind_ok]
  rw [if_neg (by simp [hf])]


def willQosOf (c : Wire.Connect) : Nat := match c.will with | some w => w.qos.toNat | none => 0
def willRetainOf (c : Wire.Connect) : Bool := match c.will with | some w => w.retain | none => false

theorem flags_bits (c : Wire.Connect) (hq : willQosOf c ≤ 2) :
    c.flags < 256 ∧ c.flags % 2 = 0 ∧ (c.flags / 2 % 2 = 1 ↔ c.clean = true) ∧
    (c.flags / 4 % 2 = 1 ↔ c.will.isSome = true) ∧ c.flags / 8 % 4 = willQosOf c ∧
    (c.flags / 32 % 2 = 1 ↔ willRetainOf c = true) ∧
    (c.flags / 64 % 2 = 1 ↔ c.password.isSome = true) ∧ (c.flags / 128 % 2 = 1 ↔ c.username.isSome = true) := by
  obtain ⟨level, clean, ka, cid, will, un, pw⟩ := c
  unfold Wire.Connect.flags willQosOf willRetainOf at *
  simp only [] at *
  cases will with
  | none =>
    cases clean <;> cases un <;> cases pw <;> simp [Wire.b2n]
  | some w =>
    obtain ⟨wt, wm, q, r⟩ := w
    simp only [] at hq ⊢
    have : q.toNat = 0 ∨ q.toNat = 1 ∨ q.toNat = 2 := by omega
    rcases this with h | h | h <;> rw [h] <;> cases clean <;> cases un <;> cases pw <;> cases r <;> simp [Wire.b2n]

def willBytes : Option Wire.Will → Bytes
  | some w => Wire.str w.topic ++ Wire.str w.message
  | none => []

def setWill (c : ConnectF) : Option Wire.Will → ConnectF
  | some x => { c with willTopic := x.topic, willMessage := x.message }
  | none => c
def setUser (c : ConnectF) : Option Bytes → ConnectF
  | some x => { c with username := x }
  | none => c
def setPass (c : ConnectF) : Option Bytes → ConnectF
  | some x => { c with password := x }
  | none => c

@[simp] theorem setWill_flags (c : ConnectF) (w : Option Wire.Will) : (setWill c w).connectFlags = c.connectFlags := by
  cases w <;> rfl
@[simp] theorem setUser_flags (c : ConnectF) (w : Option Bytes) : (setUser c w).connectFlags = c.connectFlags := by
  cases w <;> rfl
@[simp] theorem setPass_flags (c : ConnectF) (w : Option Bytes) : (setPass c w).connectFlags = c.connectFlags := by
  cases w <;> rfl

theorem connectWill_wire (c : ConnectF) (pre post : Bytes) (w : Option Wire.Will) (base : Nat)
    (hf : c.willFlag = w.isSome)
    (hok : ∀ x, w = some x → x.topic.length ≤ 65535 ∧ x.message.length ≤ 65535) :
    ∃ v1 v2, connectWill c (pre ++ (willBytes w ++ post)) pre.length base =
      .ok (setWill c w, v1, v2, pre.length + (willBytes w).length) := by
  cases w with
  | none =>
    refine ⟨(0, 0), (0, 0), ?_⟩
    rw [connectWill_wire_none _ _ _ _ (by simpa using hf)]
    simp [willBytes, setWill]
  | some x =>
    obtain ⟨h1, h2⟩ := hok x rfl
    obtain ⟨v1, v2, h⟩ := connectWill_wire_some c pre x.topic x.message post base (by simpa using hf) h1 h2
    refine ⟨v1, v2, ?_⟩
    simp only [willBytes, List.append_assoc]
    rw [h]
    simp [Wire.str, setWill]; omega

theorem connectUser_wire (c : ConnectF) (pre post : Bytes) (u : Option Bytes) (base : Nat)
    (hf : c.usernameFlag = u.isSome) (hok : ∀ x, u = some x → x.length ≤ 65535)
    (hpost : u = none → True) :
    ∃ v, connectUser c (pre ++ (Wire.optStr u ++ post)) pre.length base =
      .ok (setUser c u, v, pre.length + (Wire.optStr u).length) := by
  cases u with
  | none =>
    refine ⟨(0, 0), ?_⟩
    rw [connectUser_wire_none _ _ _ _ (by simp) (by simpa using hf)]
    simp [Wire.optStr, setUser]
  | some x =>
    obtain ⟨v, h⟩ := connectUser_wire_some c pre x post base (by simpa using hf) (hok x rfl)
    refine ⟨v, ?_⟩
    simp only [Wire.optStr]
    rw [h]
    simp [Wire.str, setUser, setPass]; omega

theorem connectPass_wire (c : ConnectF) (pre post : Bytes) (u : Option Bytes) (base : Nat)
    (hf : c.passwordFlag = u.isSome) (hok : ∀ x, u = some x → x.length ≤ 65535) :
    ∃ v, connectPass c (pre ++ (Wire.optStr u ++ post)) pre.length base =
      .ok (setPass c u, v, pre.length + (Wire.optStr u).length) := by
  cases u with
  | none =>
    refine ⟨(0, 0), ?_⟩
    rw [connectPass_wire_none _ _ _ _ (by simp) (by simpa using hf)]
    simp [Wire.optStr, setPass]
  | some x =>
    obtain ⟨v, h⟩ := connectPass_wire_some c pre x post base (by simpa using hf) (hok x rfl)
    refine ⟨v, ?_⟩
    simp only [Wire.optStr]
    rw [h]
    simp [Wire.str, setUser, setPass]; omega

theorem connect_body_eq (c : Wire.Connect) :
    (Wire.Packet.connect c).body =
      Wire.str (Wire.protoName c.level) ++ (c.level :: UInt8.ofNat c.flags :: (Wire.u16 c.keepAlive ++
        (Wire.str c.clientId ++ (willBytes c.will ++ (Wire.optStr c.username ++ (Wire.optStr c.password ++ [])))))) := by
  obtain ⟨level, clean, ka, cid, will, un, pw⟩ := c
  cases will <;> simp [Wire.Packet.body, willBytes]

theorem validClientID_of_ok (cid : Bytes) (clean : Bool) (h : Wire.clientIdOk cid clean = true) :
    cid.length ≤ 32 ∧ (cid.length > 0 → validClientID cid = true) ∧ ¬ (cid.length = 0 ∧ clean = false) := by
  unfold Wire.clientIdOk at h
  simp only [Bool.and_eq_true, decide_eq_true_eq, Bool.or_eq_true, Bool.not_eq_true'] at h
  obtain ⟨⟨h1, h2⟩, h3⟩ := h
  refine ⟨h1, ?_, ?_⟩
  · intro _
    unfold validClientID
    simp only [Bool.and_eq_true, clientIDMaxLen]
    refine ⟨decide_eq_true h1, ?_⟩
    rw [List.all_eq_true] at h2 ⊢
    intro b hb
    have := h2 b hb
    unfold Wire.printable at this
    simp only [Bool.and_eq_true, decide_eq_true_eq] at this ⊢
    exact ⟨this.1, this.2⟩
  · intro ⟨e1, e2⟩
    rcases h3 with h3 | h3
    · cases cid with
      | nil => simp at h3
      | cons a r => simp at e1
    · rw [h3] at e2; cases e2

theorem decodeConnectMessage_wire (c : Wire.Connect) (hwf : Wire.WF (.connect c)) (base : Nat) :
    ∃ c' vs, decodeConnectMessage {} (Wire.Packet.connect c).body base =
        .ok (c', (Wire.Packet.connect c).body.length, vs) ∧
      c'.version = c.level ∧ c'.connectFlags = UInt8.ofNat c.flags ∧ c'.keepAlive = c.keepAlive.toNat ∧
      c'.clientID = c.clientId ∧
      (∀ w, c.will = some w → c'.willTopic = w.topic ∧ c'.willMessage = w.message) ∧
      (∀ u, c.username = some u → c'.username = u) ∧ (∀ p, c.password = some p → c'.password = p) := by
  unfold Wire.WF Wire.wf at hwf
  simp only [Bool.and_eq_true, Bool.or_eq_true, decide_eq_true_eq] at hwf
  obtain ⟨⟨⟨⟨hlev, hcid⟩, hwill⟩, hun⟩, hpw⟩ := hwf
  have hq : willQosOf c ≤ 2 := by
    unfold willQosOf
    cases hw : c.will with
    | none => simp
    | some w =>
      rw [hw] at hwill
      simp only [Bool.and_eq_true, decide_eq_true_eq] at hwill
      exact hwill.2
  obtain ⟨fb1, fb2, fb3, fb4, fb5, fb6, fb7, fb8⟩ := flags_bits c hq
  have hF : (UInt8.ofNat c.flags).toNat = c.flags := u8_ofNat_toNat fb1
  obtain ⟨hc1, hc2, hc3⟩ := validClientID_of_ok _ _ hcid
  have hver : versionName c.level.toNat = some (Wire.protoName c.level) := by
    rcases hlev with h | h <;> rw [h] <;> decide
  have hnl : (Wire.protoName c.level).length ≤ 65535 := by
    rcases hlev with h | h <;> rw [h] <;> decide
  rw [connect_body_eq]
  unfold decodeConnectMessage
  rw [connectFixed_wire {} _ _ _ _ _ hnl hver (by rw [hF]; exact fb2) (by rw [hF, fb5]; exact hq)
    (by
      rw [hF, fb5]
      cases hw : c.will with
      | none =>
        right
        refine ⟨?_, by simp [willQosOf, hw]⟩
        have : ¬ (c.flags / 32 % 2 = 1) := by rw [fb6]; simp [willRetainOf, hw]
        omega
      | some w => left; rw [fb4, hw]; rfl)]
  simp only [bind_ok]
  obtain ⟨c1, hc1'⟩ : ∃ c1 : ConnectF, (ConnectF.mk (UInt8.ofNat c.flags) c.level c.keepAlive.toNat
    (Wire.protoName c.level) [] [] [] [] []) = c1 := ⟨_, rfl⟩
  have hc1'' : ({ connectFlags := UInt8.ofNat c.flags, version := c.level, keepAlive := c.keepAlive.toNat, protoName := Wire.protoName c.level } : ConnectF) = c1 := hc1'
  rw [hc1'']
  have c1_flags : c1.connectFlags = UInt8.ofNat c.flags := by rw [← hc1']
  have c1_ver : c1.version = c.level := by rw [← hc1']
  have c1_ka : c1.keepAlive = c.keepAlive.toNat := by rw [← hc1']
  generalize hN : Wire.protoName c.level = name at *
  generalize hB : (Wire.str name ++ c.level :: UInt8.ofNat c.flags :: (Wire.u16 c.keepAlive ++ (Wire.str c.clientId ++
      (willBytes c.will ++ (Wire.optStr c.username ++ (Wire.optStr c.password ++ [])))))) = B
  -- client identifier
  have eB1 : B = (Wire.str name ++ (c.level :: UInt8.ofNat c.flags :: Wire.u16 c.keepAlive)) ++ (Wire.str c.clientId ++
      (willBytes c.will ++ (Wire.optStr c.username ++ (Wire.optStr c.password ++ [])))) := by rw [← hB]; simp
  have eL1 : 2 + name.length + 1 + 1 + 2 = (Wire.str name ++ (c.level :: UInt8.ofNat c.flags :: Wire.u16 c.keepAlive)).length := by
    simp [Wire.str, Wire.u16]; omega
  have s2 := connectClientID_wire c1 (Wire.str name ++ (c.level :: UInt8.ofNat c.flags :: Wire.u16 c.keepAlive)) c.clientId
      (willBytes c.will ++ (Wire.optStr c.username ++ (Wire.optStr c.password ++ []))) base (by omega)
      (by
        intro ⟨e1, e2⟩
        apply hc3
        refine ⟨e1, ?_⟩
        have : c1.cleanSession = decide (c.flags / 2 % 2 = 1) := by
          unfold ConnectF.cleanSession; rw [c1_flags, hF]
        rw [this] at e2
        cases hcl : c.clean with
        | false => rfl
        | true => rw [decide_eq_false_iff_not, fb3, hcl] at e2; exact absurd rfl e2)
      hc2
  rw [← eB1, ← eL1] at s2
  rw [s2]; simp only [bind_ok]
  obtain ⟨c2, hc2'⟩ : ∃ c2 : ConnectF, ({ c1 with clientID := c.clientId } : ConnectF) = c2 := ⟨_, rfl⟩
  rw [hc2']
  have c2_flags : c2.connectFlags = UInt8.ofNat c.flags := by rw [← hc2']; exact c1_flags
  -- will
  have eB2 : B = (Wire.str name ++ (c.level :: UInt8.ofNat c.flags :: Wire.u16 c.keepAlive) ++ Wire.str c.clientId) ++
      (willBytes c.will ++ (Wire.optStr c.username ++ (Wire.optStr c.password ++ []))) := by rw [← hB]; simp
  have eL2 : 2 + name.length + 1 + 1 + 2 + (2 + c.clientId.length) =
      (Wire.str name ++ (c.level :: UInt8.ofNat c.flags :: Wire.u16 c.keepAlive) ++ Wire.str c.clientId).length := by
    simp [Wire.str, Wire.u16]; omega
  obtain ⟨v1, v2, s3⟩ := connectWill_wire c2 (Wire.str name ++ (c.level :: UInt8.ofNat c.flags :: Wire.u16 c.keepAlive) ++ Wire.str c.clientId)
      (Wire.optStr c.username ++ (Wire.optStr c.password ++ [])) c.will base
      (by
        unfold ConnectF.willFlag; rw [c2_flags, hF]
        cases hw : c.will.isSome with
        | false => rw [decide_eq_false_iff_not, fb4, hw]; simp
        | true => rw [decide_eq_true_eq, fb4, hw])
      (by
        intro x hx
        rw [hx] at hwill
        simp only [Bool.and_eq_true, decide_eq_true_eq, Wire.strOk] at hwill
        exact ⟨hwill.1.1, hwill.1.2⟩)
  rw [← eB2, ← eL2] at s3
  rw [s3]; simp only [bind_ok]
  obtain ⟨c3, hc3'⟩ : ∃ c3 : ConnectF, setWill c2 c.will = c3 := ⟨_, rfl⟩
  rw [hc3']
  have c3_flags : c3.connectFlags = UInt8.ofNat c.flags := by rw [← hc3', setWill_flags]; exact c2_flags
  -- user name
  have eB3 : B = (Wire.str name ++ (c.level :: UInt8.ofNat c.flags :: Wire.u16 c.keepAlive) ++ Wire.str c.clientId ++ willBytes c.will) ++
      (Wire.optStr c.username ++ (Wire.optStr c.password ++ [])) := by rw [← hB]; simp
  have eL3 : 2 + name.length + 1 + 1 + 2 + (2 + c.clientId.length) + (willBytes c.will).length =
      (Wire.str name ++ (c.level :: UInt8.ofNat c.flags :: Wire.u16 c.keepAlive) ++ Wire.str c.clientId ++ willBytes c.will).length := by
    simp [Wire.str, Wire.u16]; omega
  obtain ⟨v3, s4⟩ := connectUser_wire c3 (Wire.str name ++ (c.level :: UInt8.ofNat c.flags :: Wire.u16 c.keepAlive) ++ Wire.str c.clientId ++ willBytes c.will)
      (Wire.optStr c.password ++ []) c.username base
      (by
        unfold ConnectF.usernameFlag; rw [c3_flags, hF]
        cases hw : c.username.isSome with
        | false => rw [decide_eq_false_iff_not, fb8, hw]; simp
        | true => rw [decide_eq_true_eq, fb8, hw])
      (by
        intro x hx
        rw [hx] at hun
        simpa [Wire.strOk] using hun)
      (fun _ => trivial)
  rw [← eB3, ← eL3] at s4
  rw [s4]; simp only [bind_ok]
  obtain ⟨c4, hc4'⟩ : ∃ c4 : ConnectF, setUser c3 c.username = c4 := ⟨_, rfl⟩
  rw [hc4']
  have c4_flags : c4.connectFlags = UInt8.ofNat c.flags := by rw [← hc4', setUser_flags]; exact c3_flags
  -- password
  have eB4 : B = (Wire.str name ++ (c.level :: UInt8.ofNat c.flags :: Wire.u16 c.keepAlive) ++ Wire.str c.clientId ++ willBytes c.will ++ Wire.optStr c.username) ++
      (Wire.optStr c.password ++ []) := by rw [← hB]; simp
  have eL4 : 2 + name.length + 1 + 1 + 2 + (2 + c.clientId.length) + (willBytes c.will).length + (Wire.optStr c.username).length =
      (Wire.str name ++ (c.level :: UInt8.ofNat c.flags :: Wire.u16 c.keepAlive) ++ Wire.str c.clientId ++ willBytes c.will ++ Wire.optStr c.username).length := by
    simp [Wire.str, Wire.u16]; omega
  obtain ⟨v4, s5⟩ := connectPass_wire c4 (Wire.str name ++ (c.level :: UInt8.ofNat c.flags :: Wire.u16 c.keepAlive) ++ Wire.str c.clientId ++ willBytes c.will ++ Wire.optStr c.username)
      [] c.password base
      (by
        unfold ConnectF.passwordFlag; rw [c4_flags, hF]
        cases hw : c.password.isSome with
        | false => rw [decide_eq_false_iff_not, fb7, hw]; simp
        | true => rw [decide_eq_true_eq, fb7, hw])
      (by
        intro x hx
        rw [hx] at hpw
        simp only [Bool.and_eq_true, Wire.strOk, decide_eq_true_eq] at hpw
        exact hpw.1)
  rw [← eB4, ← eL4] at s5
  rw [s5]; simp only [bind_ok]
  have hlen : 2 + name.length + 1 + 1 + 2 + (2 + c.clientId.length) + (willBytes c.will).length + (Wire.optStr c.username).length +
      (Wire.optStr c.password).length = B.length := by
    rw [← hB]; simp [Wire.str, Wire.u16]; omega
  rw [hlen]
  refine ⟨setPass c4 c.password, _, rfl, ?_⟩
  rw [← hc4', ← hc3', ← hc2', ← hc1']
  refine ⟨?_, ?_, ?_, ?_, ?_, ?_, ?_⟩
  all_goals (cases c.will <;> cases c.username <;> cases c.password <;> simp [setWill, setUser, setPass])

theorem connect_body_le (c : Wire.Connect) (hwf : Wire.WF (.connect c)) :
    (Wire.Packet.connect c).body.length ≤ 268435455 := by
  unfold Wire.WF Wire.wf at hwf
  simp only [Bool.and_eq_true, Bool.or_eq_true, decide_eq_true_eq] at hwf
  obtain ⟨⟨⟨⟨hlev, hcid⟩, hwill⟩, hun⟩, hpw⟩ := hwf
  obtain ⟨hc1, _, _⟩ := validClientID_of_ok _ _ hcid
  rw [connect_body_eq]
  have hnl : (Wire.protoName c.level).length ≤ 6 := by
    rcases hlev with h | h <;> rw [h] <;> decide
  have hw : (willBytes c.will).length ≤ 131074 := by
    cases hw : c.will with
    | none => simp [willBytes]
    | some w =>
      rw [hw] at hwill
      simp only [Bool.and_eq_true, decide_eq_true_eq, Wire.strOk] at hwill
      simp [willBytes, Wire.str]; omega
  have hu : (Wire.optStr c.username).length ≤ 65537 := by
    cases hw : c.username with
    | none => simp [Wire.optStr]
    | some w =>
      rw [hw] at hun
      simp only [decide_eq_true_eq, Wire.strOk] at hun
      simp [Wire.optStr, Wire.str]; omega
  have hp : (Wire.optStr c.password).length ≤ 65537 := by
    cases hw : c.password with
    | none => simp [Wire.optStr]
    | some w =>
      rw [hw] at hpw
      simp only [Bool.and_eq_true, decide_eq_true_eq, Wire.strOk] at hpw
      simp [Wire.optStr, Wire.str]; omega
  simp [Wire.str, Wire.u16]; omega

theorem willQos_le_of_wf (c : Wire.Connect) (hwf : Wire.WF (.connect c)) : willQosOf c ≤ 2 := by
  unfold Wire.WF Wire.wf at hwf
  simp only [Bool.and_eq_true, Bool.or_eq_true, decide_eq_true_eq] at hwf
  obtain ⟨⟨⟨⟨hlev, hcid⟩, hwill⟩, hun⟩, hpw⟩ := hwf
  unfold willQosOf
  cases hw : c.will with
  | none => simp
  | some w =>
    rw [hw] at hwill
    simp only [Bool.and_eq_true, decide_eq_true_eq] at hwill
    exact hwill.2

theorem absConnect_eq (h : Hdr) (c : Wire.Connect) (c' : ConnectF) (hq : willQosOf c ≤ 2)
    (a1 : c'.version = c.level) (a2 : c'.connectFlags = UInt8.ofNat c.flags) (a3 : c'.keepAlive = c.keepAlive.toNat)
    (a4 : c'.clientID = c.clientId)
    (a5 : ∀ w, c.will = some w → c'.willTopic = w.topic ∧ c'.willMessage = w.message)
    (a6 : ∀ u, c.username = some u → c'.username = u) (a7 : ∀ p, c.password = some p → c'.password = p) :
    absMsg (.connect h c') = .connect c := by
  obtain ⟨fb1, fb2, fb3, fb4, fb5, fb6, fb7, fb8⟩ := flags_bits c hq
  have hF : (UInt8.ofNat c.flags).toNat = c.flags := u8_ofNat_toNat fb1
  simp only [absMsg, ConnectF.cleanSession, ConnectF.willFlag, ConnectF.willQos, ConnectF.willRetain,
    ConnectF.usernameFlag, ConnectF.passwordFlag, a1, a2, a3, a4, hF, fb5]
  obtain ⟨level, clean, ka, cid, will, un, pw⟩ := c
  simp only [] at *
  congr 1
  have e1 : decide (Wire.Connect.flags ⟨level, clean, ka, cid, will, un, pw⟩ / 2 % 2 = 1) = clean := by
    cases clean <;> simp [fb3]
  have e2 : UInt16.ofNat ka.toNat = ka := by simp
  rw [e1, e2]
  congr 1
  · cases will with
    | none =>
      have : ¬ (Wire.Connect.flags ⟨level, clean, ka, cid, none, un, pw⟩ / 4 % 2 = 1) := by rw [fb4]; simp
      simp [this]
    | some w =>
      have : (Wire.Connect.flags ⟨level, clean, ka, cid, some w, un, pw⟩ / 4 % 2 = 1) := by rw [fb4]; simp
      obtain ⟨t1, t2⟩ := a5 w rfl
      simp only [this, decide_true, if_true, t1, t2]
      obtain ⟨wt, wm, q, r⟩ := w
      simp only [willQosOf, willRetainOf] at fb6 ⊢
      congr 2
      · simp
      · cases r <;> simp [fb6]
  · cases un with
    | none =>
      have : ¬ (Wire.Connect.flags ⟨level, clean, ka, cid, will, none, pw⟩ / 128 % 2 = 1) := by rw [fb8]; simp
      simp [this]
    | some u =>
      have : (Wire.Connect.flags ⟨level, clean, ka, cid, will, some u, pw⟩ / 128 % 2 = 1) := by rw [fb8]; simp
      simp [this, a6 u rfl]
  · cases pw with
    | none =>
      have : ¬ (Wire.Connect.flags ⟨level, clean, ka, cid, will, un, none⟩ / 64 % 2 = 1) := by rw [fb7]; simp
      simp [this]
    | some u =>
      have : (Wire.Connect.flags ⟨level, clean, ka, cid, will, un, some u⟩ / 64 % 2 = 1) := by rw [fb7]; simp
      simp [this, a7 u rfl]

theorem accepts_connect (c : Wire.Connect) (hwf : Wire.WF (.connect c)) : Accepts (.connect c) := by
  intro rest
  have hble := connect_body_le c hwf
  generalize hp : Wire.Packet.connect c = p at *
  have e1 : p.type = 1 := by rw [← hp]; rfl
  have e2 : p.flags = 0 := by rw [← hp]; rfl
  have hdec := hdr_decode_wire (Hdr.new 1) 1 0 p.body rest
    (by decide) (by decide) (by omega) (by intro _; decide) (by intro e; simp [tPUBLISH] at e) hble
  unfold decodeNew
  have hnew : Msg.new p.type = some (.connect (Hdr.new 1) {}) := by rw [e1]; rfl
  rw [hnew]
  simp only [decode, decodeConnect]
  rw [sliceFrom_ok (Nat.zero_le _)]
  simp only [bind_ok, List.drop_zero]
  rw [encode_append, e1, e2, hdec]
  simp only [bind_ok]
  generalize hV : Wire.varint p.body.length = V
  have hVl := varint_len_bounds p.body.length
  rw [hV] at hVl
  rw [sliceTo_eq (a := UInt8.ofNat (1 * 16 + 0) :: (V ++ p.body)) (b := rest) (by simp) (by simp; omega)]
  simp only [bind_ok]
  rw [sliceFrom_eq (a := UInt8.ofNat (1 * 16 + 0) :: V) (b := p.body) (by simp) (by simp; omega)]
  simp only [bind_ok]
  rw [← hp] at hwf
  obtain ⟨c', vs, hm, a1, a2, a3, a4, a5, a6, a7⟩ := decodeConnectMessage_wire c (by rw [hp] at hwf; rw [← hp] at hwf; exact hwf) (1 + V.length)
  rw [hp] at hm
  rw [hm]
  simp only [bind_ok]
  rw [if_neg (by simp; omega)]
  have henc : (Wire.encode p).length = 1 + V.length + p.body.length := by
    unfold Wire.encode; rw [List.length_cons, List.length_append, hV]; omega
  refine ⟨_, rfl, ?_, ?_⟩
  · rw [henc]
  · rw [← hp]
    exact absConnect_eq _ c c' (willQos_le_of_wf c hwf) a1 a2 a3 a4 a5 a6 a7

/-- every decoder accepts the reference encoding of every well-formed packet of its type
(followed by arbitrary bytes) and returns exactly that packet's fields and length -/
theorem accepts_wf (p : Wire.Packet) (hwf : Wire.WF p) : Accepts p := by
  cases p with
  | connect c => exact accepts_connect c hwf
  | connack sp code =>
    apply accepts_connack
    unfold Wire.WF Wire.wf at hwf
    exact of_decide_eq_true hwf
  | publish dup qos ret topic id payload => exact accepts_publish _ _ _ _ _ _ hwf
  | puback id => exact accepts_puback id
  | pubrec id => exact accepts_pubrec id
  | pubrel id => exact accepts_pubrel id
  | pubcomp id => exact accepts_pubcomp id
  | subscribe id fs => exact accepts_subscribe id fs hwf
  | suback id codes => exact accepts_suback id codes hwf
  | unsubscribe id fs => exact accepts_unsubscribe id fs hwf
  | unsuback id => exact accepts_unsuback id
  | pingreq => exact accepts_pingreq
  | pingresp => exact accepts_pingresp
  | disconnect => exact accepts_disconnect

end Mqtt.Proofs.Codec
