/-
Core F — helper lemmas for C16, part 4: enabledness.  Which program counters a thread can be
stuck at, and what a state in which nothing can run looks like.
-/
import Mqtt.Proofs.LifecycleRecv

set_option linter.unusedSimpArgs false
set_option linter.unusedVariables false

namespace Mqtt.Proofs.Lifecycle
open Mqtt.Model.Lifecycle

/-- a producer call for `l` bytes waits: legitimate waiting in the sense of C15 (the ring is open,
the request fits the ring, the space is not there) -/
def OutBlocked (c : Cfg) (sh : Sh) (l : Nat) : Prop :=
  l ≤ c.cap ∧ sh.outR.done = false ∧ c.cap < sh.outR.buf + l

theorem en_recv (c : Cfg) (s : St) : en c s .recv = (rstep c s.sh 1 s.recv).isSome := by
  simp [en, tstep]

theorem en_send (c : Cfg) (s : St) : en c s .send = (sstep c s.sh s.send).isSome := by
  simp [en, tstep]

theorem en_proc (c : Cfg) (s : St) : en c s .proc = (pstep c s.sh s.proc).isSome := by
  simp [en, tstep]

/-- where the receiver can be stuck: waiting for space because the incoming ring is completely
full (and open), inside a socket read with nothing on the wire, or at its end -/
theorem recv_blocked (c : Cfg) (hw : WF c) (s : St) (hA : InvA c s) (h : en c s .recv = false) :
    (s.recv = .space ∧ s.sh.inR.done = false ∧ c.cap ≤ s.sh.inR.buf) ∨
    (s.recv = .read ∧ s.sh.sock = .open ∧ s.sh.timeout = false ∧ s.sh.wire = 0) ∨
    s.recv = .exited := by
  rw [en_recv] at h
  cases hpc : s.recv with
  | space =>
    left
    rw [hpc] at h
    simp only [rstep, spaceNeed_wf c hw] at h
    cases hs : s.sh.inR.waitSpace c 1 with
    | none =>
      have := ((waitSpace_none_iff c _ _).mp hs).2
      exact ⟨rfl, this.1, by omega⟩
    | some q => obtain ⟨ret, r⟩ := q; cases ret <;> simp [hs] at h
  | read =>
    right; left
    rw [hpc] at h
    simp only [rstep] at h
    by_cases h1 : s.sh.sock ≠ .open ∨ s.sh.timeout = true
    · simp [h1] at h
    · by_cases h2 : s.sh.wire = 0
      · simp at h1; exact ⟨rfl, h1.1, h1.2, h2⟩
      · simp only [h1, h2, if_false] at h; simp at h
  | commit n =>
    exfalso
    rw [hpc] at h
    simp only [rstep] at h
    have hc := hA.rcommit n hpc
    cases hs : s.sh.inR.commitP c n with
    | none =>
      have := (waitSpace_none_iff c _ _).mp ((commitP_none_iff c _ _).mp hs)
      omega
    | some q => obtain ⟨ret, r⟩ := q; cases ret <;> simp [hs] at h
  | close => rw [hpc] at h; simp [rstep, close_returns c hw.d2] at h
  | connClose => rw [hpc] at h; simp [rstep] at h
  | wgDone => rw [hpc] at h; simp [rstep] at h
  | exited => right; right; rfl

/-- where the sender can be stuck -/
theorem send_blocked (c : Cfg) (hw : WF c) (s : St) (h : en c s .send = false) :
    (s.send = .peek ∧ s.sh.outR.done = false ∧ s.sh.outR.buf = 0) ∨
    (∃ m, s.send = .write m ∧ s.sh.sock.wfail = false ∧ s.sh.peerReads = false) ∨
    s.send = .exited := by
  rw [en_send] at h
  cases hpc : s.send with
  | peek =>
    left
    rw [hpc] at h
    simp only [sstep] at h
    by_cases h1 : s.sh.outR.done = true
    · simp [h1] at h
    · by_cases h2 : 0 < s.sh.outR.buf
      · simp [h1, h2] at h
      · simp at h1; exact ⟨rfl, h1, by omega⟩
  | write m =>
    right; left
    rw [hpc] at h
    simp only [sstep] at h
    by_cases h1 : s.sh.sock.wfail = true
    · simp [h1] at h
    · by_cases h2 : s.sh.peerReads = true
      · simp [h1, h2] at h
      · simp at h1 h2; exact ⟨m, rfl, h1, h2⟩
  | commit m => rw [hpc] at h; simp [sstep, commitC_returns c hw.d2] at h
  | close => rw [hpc] at h; simp [sstep, close_returns c hw.d2] at h
  | wgDone => rw [hpc] at h; simp [sstep] at h
  | exited => right; right; rfl

/-- where a `stop()` call can be stuck: only at `wgStopped.Wait()` -/
theorem kstep_blocked (c : Cfg) (hw : WF c) (sh : Sh) (me : Tid) (i : Nat)
    (h : kstep c sh me (.run i) = none) : i = 5 ∧ sh.wg ≠ 0 := by
  simp only [kstep, hw.prog] at h
  rcases i with _ | _ | _ | _ | _ | _ | _ | _ | _ | i
  · simp [stopProgram, execStop] at h
    by_cases hc : sh.closed = true <;> simp [hc] at h
  · simp [stopProgram, execStop] at h
  · simp [stopProgram, execStop] at h
  · simp [stopProgram, execStop, close_returns c hw.d2] at h
  · simp [stopProgram, execStop, close_returns c hw.d2] at h
  · simp [stopProgram, execStop] at h
    by_cases hg : sh.wg = 0
    · simp [hg] at h
    · exact ⟨rfl, hg⟩
  · simp [stopProgram, execStop] at h
  · simp [stopProgram, execStop] at h
  · simp [stopProgram, execStop] at h
  · simp [stopProgram] at h

/-- where the processor can be stuck -/
theorem proc_blocked (c : Cfg) (hw : WF c) (s : St) (h : en c s .proc = false) :
    (s.proc = .size ∧ s.sh.inR.done = false ∧ s.sh.inR.buf < hdrNeed s.sh.stream) ∨
    (s.proc = .msg ∧ ∃ p tl, s.sh.stream = p :: tl ∧ s.sh.inR.buf < p.total ∧ p.total ≤ c.cap ∧ s.sh.inR.done = false) ∨
    (∃ rest, s.proc = .acts (.foreign :: rest) ∧ s.sh.extBlocked = true) ∨
    (∃ l rest, s.proc = .acts (.own l :: rest) ∧ s.sh.wmu.isSome = true) ∨
    (∃ l rest, (s.proc = .ownWait l rest ∨ s.proc = .ownCommit l rest) ∧ OutBlocked c s.sh l) ∨
    (s.proc = .stop (.run 5) ∧ s.sh.wg ≠ 0) ∨
    s.proc = .stop .idle ∨ s.proc = .stop .finished := by
  rw [en_proc] at h
  cases hpc : s.proc with
  | size =>
    left
    rw [hpc] at h
    simp only [pstep] at h
    cases hs : s.sh.inR.waitData c (hdrNeed s.sh.stream) with
    | none =>
      have := (waitData_none_iff c _ _).mp hs
      exact ⟨rfl, this.2.2, this.2.1⟩
    | some q =>
      exfalso
      obtain ⟨ret, r⟩ := q
      rw [hs] at h
      cases ret
      · cases hst : s.sh.stream with
        | nil => simp [hst] at h
        | cons p tl => by_cases h5 : 5 < p.hdr <;> simp [hst, h5] at h
      · simp at h
      · simp at h
  | msg =>
    right; left
    rw [hpc] at h
    simp only [pstep] at h
    cases hst : s.sh.stream with
    | nil => simp [hst] at h
    | cons p tl =>
      cases hs : s.sh.inR.waitData c p.total with
      | none =>
        have := (waitData_none_iff c _ _).mp hs
        exact ⟨rfl, p, tl, rfl, this.2.1, this.1, this.2.2⟩
      | some q =>
        exfalso
        obtain ⟨ret, r⟩ := q
        cases ret
        · cases hk : p.kind <;> simp [hst, hs, hk] at h
        · simp [hst, hs] at h
        · simp [hst, hs] at h
  | acts as =>
    rw [hpc] at h
    cases as with
    | nil => simp [pstep] at h
    | cons a rest =>
      cases a with
      | foreign =>
        right; right; left
        simp only [pstep] at h
        by_cases hb : s.sh.extBlocked = true
        · exact ⟨rest, rfl, hb⟩
        · simp [hb] at h
      | own l =>
        right; right; right; left
        simp only [pstep] at h
        by_cases hm : s.sh.wmu.isSome = true
        · exact ⟨l, rest, rfl, hm⟩
        · simp [hm] at h
  | ownWait l rest =>
    right; right; right; right; left
    rw [hpc] at h
    simp only [pstep] at h
    cases hs : s.sh.outR.waitSpace c l with
    | none => exact ⟨l, rest, Or.inl rfl, (waitSpace_none_iff c _ _).mp hs⟩
    | some q => obtain ⟨ret, r⟩ := q; cases ret <;> simp [hs] at h
  | ownCommit l rest =>
    right; right; right; right; left
    rw [hpc] at h
    simp only [pstep] at h
    cases hs : s.sh.outR.commitP c l with
    | none => exact ⟨l, rest, Or.inr rfl, (waitSpace_none_iff c _ _).mp ((commitP_none_iff c _ _).mp hs)⟩
    | some q => obtain ⟨ret, r⟩ := q; simp [hs] at h
  | commit =>
    rw [hpc] at h
    simp only [pstep] at h
    cases hst : s.sh.stream with
    | nil => simp [hst] at h
    | cons p tl => simp [hst, commitC_returns c hw.d2] at h
  | check =>
    rw [hpc] at h
    simp only [pstep] at h
    by_cases hc : (s.sh.doneCh && s.sh.inR.buf == 0) = true <;> simp [hc] at h
  | wgDone => rw [hpc] at h; simp [pstep] at h
  | stop k =>
    rw [hpc] at h
    simp only [pstep] at h
    cases k with
    | idle => right; right; right; right; right; right; left; rfl
    | finished => right; right; right; right; right; right; right; rfl
    | run i =>
      right; right; right; right; right; left
      cases hk : kstep c s.sh .proc (.run i) with
      | none =>
        obtain ⟨rfl, hg⟩ := kstep_blocked c hw _ _ _ hk
        exact ⟨rfl, hg⟩
      | some q => simp [hk] at h

/-- where an external stopper can be stuck -/
theorem k_blocked (c : Cfg) (hw : WF c) (s : St) (i : Nat) (k : KPc) (hk : s.ks[i]? = some k)
    (h : en c s (.k i) = false) : k = .idle ∨ k = .finished ∨ (k = .run 5 ∧ s.sh.wg ≠ 0) := by
  simp only [en, tstep, hk] at h
  cases k with
  | idle => left; rfl
  | finished => right; left; rfl
  | run j =>
    right; right
    cases hks : kstep c s.sh (.k i) (.run j) with
    | none => obtain ⟨rfl, hg⟩ := kstep_blocked c hw _ _ _ hks; exact ⟨rfl, hg⟩
    | some q => simp [hks] at h

/-- where an external writer can be stuck -/
theorem w_blocked (c : Cfg) (hw : WF c) (s : St) (i : Nat) (w : WTh) (hk : s.ws[i]? = some w)
    (h : en c s (.w i) = false) :
    (w.pc = .lock ∧ s.sh.wmu.isSome = true) ∨
    ((w.pc = .wait ∨ w.pc = .commit) ∧ OutBlocked c s.sh w.len) ∨
    w.pc = .finished ∨ w.pc = .panicked := by
  simp only [en, tstep, hk] at h
  obtain ⟨pc, len⟩ := w
  cases pc with
  | check =>
    simp only [wstep] at h
    by_cases hn : s.sh.ringsNil = true <;> simp [hn] at h
  | lock =>
    left
    simp only [wstep] at h
    by_cases hm : s.sh.wmu.isSome = true
    · exact ⟨rfl, hm⟩
    · simp [hm] at h
  | wait =>
    right; left
    simp only [wstep] at h
    by_cases hn : s.sh.ringsNil = true
    · simp [hn] at h
    · cases hs : s.sh.outR.waitSpace c len with
      | none => exact ⟨Or.inl rfl, (waitSpace_none_iff c _ _).mp hs⟩
      | some q => obtain ⟨ret, r⟩ := q; cases ret <;> simp [hn, hs] at h
  | commit =>
    right; left
    simp only [wstep] at h
    by_cases hn : s.sh.ringsNil = true
    · simp [hn] at h
    · cases hs : s.sh.outR.commitP c len with
      | none => exact ⟨Or.inr rfl, (waitSpace_none_iff c _ _).mp ((commitP_none_iff c _ _).mp hs)⟩
      | some q => obtain ⟨ret, r⟩ := q; simp [hn, hs] at h
  | finished => right; right; left; rfl
  | panicked => right; right; right; rfl

theorem hdrNeed_le (st : List Pkt) : hdrNeed st ≤ 5 := by
  cases st with
  | nil => simp [hdrNeed]
  | cons p tl => simp [hdrNeed]; omega

/-- whoever holds `wmu` in a state where nothing can run: the processor inside its own write, or a
writer legitimately waiting for space in the outgoing ring -/
theorem wmu_holder (c : Cfg) (hw : WF c) (s : St) (hW : InvW s) (hq : ∀ t, en c s t = false)
    (h : s.sh.wmu.isSome = true) :
    PPc.holdsWmu s.proc = true ∨
    ∃ j : Nat, ∃ w : WTh, s.ws[j]? = some w ∧ (w.pc = .wait ∨ w.pc = .commit) ∧ OutBlocked c s.sh w.len := by
  cases hm : s.sh.wmu with
  | none => simp [hm] at h
  | some t =>
    rcases hW.other t hm with rfl | ⟨j, rfl⟩
    · left; exact hW.proc.mp hm
    · right
      obtain ⟨w, hwj, hh⟩ := (hW.w j).mp hm
      rcases w_blocked c hw s j w hwj (hq (.w j)) with ⟨hp, _⟩ | ⟨hp, hb⟩ | hp | hp
      · rw [hp] at hh; simp [WPc.holdsWmu] at hh
      · exact ⟨j, w, hwj, hp, hb⟩
      · rw [hp] at hh; simp [WPc.holdsWmu] at hh
      · rw [hp] at hh; simp [WPc.holdsWmu] at hh

/-- once socket and both rings are closed, receiver and sender cannot be stuck anywhere but at their end -/
theorem closed_exits (c : Cfg) (hw : WF c) (s : St) (hA : InvA c s) (hq : ∀ t, en c s t = false)
    (h3 : s.sh.sock = .closed) (h4 : s.sh.inR.done = true) (h5 : s.sh.outR.done = true) :
    s.recv = .exited ∧ s.send = .exited := by
  constructor
  · rcases recv_blocked c hw s hA (hq .recv) with ⟨_, hd, _⟩ | ⟨_, hs, _⟩ | h
    · rw [h4] at hd; cases hd
    · rw [h3] at hs; cases hs
    · exact h
  · rcases send_blocked c hw s (hq .send) with ⟨_, hd, _⟩ | ⟨m, _, hs, _⟩ | h
    · rw [h5] at hd; cases hd
    · rw [h3] at hs; cases hs
    · exact h

/-- **what a state in which nothing can run looks like**: the teardown is complete (`Final`), or
the processor is inside a delivery held up by a still-open connection that has stopped reading
(`HeldByThird`: another connection — the property's exemption; `HeldBySelf`: its own, see
`self_held_not_ended`), or the connection simply has not ended (everybody legitimately waits for
traffic).  There is no state in which receiver and processor wait for each other (the F3 wedge before
8f682d1): a processor waiting for inbound data faces a ring that is not full (the data it waits for
fits the ring), and a receiver waits for space only while the ring is completely full. -/
theorem quiescent_cases (c : Cfg) (hw : WF c) (s : St) (hA : InvA c s) (hW : InvW s) (hK : InvK s)
    (hq : ∀ t, en c s t = false) :
    Final s = true ∨ HeldByThird s = true ∨ HeldBySelf s = true ∨ Ended s = false := by
  have hwg := hA.wg
  -- every external stopper is idle, finished, or at Wait
  have hks : ∀ i : Nat, ∀ k : KPc, s.ks[i]? = some k → k = .idle ∨ k = .finished ∨ (k = .run 5 ∧ s.sh.wg ≠ 0) :=
    fun i k hk => k_blocked c hw s i k hk (hq (.k i))
  -- a caller at Wait has closed socket and rings
  have at_wait : ∀ t, kOf s t = some (.run 5) → s.sh.sock = .closed ∧ s.sh.inR.done = true ∧ s.sh.outR.done = true := by
    intro t hk
    have kv := hK.ks t _ hk
    simp only [stage] at kv
    obtain ⟨_, _, w3, w4, w5, _, _⟩ := kv.won (kv.prog (by omega) (by omega))
    exact ⟨w3 (by omega), w4 (by omega), w5 (by omega)⟩
  -- with the outgoing ring closed nobody waits for space in it
  have no_outblocked : s.sh.outR.done = true → ∀ l, ¬ OutBlocked c s.sh l := by
    intro hd l hb; have := hb.2.1; rw [hd] at this; cases this
  rcases proc_blocked c hw s (hq .proc) with ⟨hpc, hnd, hbuf⟩ | ⟨hpc, p, tl, hst, hbuf, hcap, hnd⟩ |
      ⟨rest, hpc, hext⟩ | ⟨l, rest, hpc, hmu⟩ | ⟨l, rest, hpc | hpc, hob⟩ | ⟨hpc, hg⟩ | hpc | hpc
  case inr.inr.inl =>
    -- inside a delivery to another connection that is open, not reading, full
    right; left; simp [HeldByThird, hpc, hext]
  case inr.inr.inr.inr.inr.inl =>
    -- the processor itself at Wait: impossible, everybody else has exited
    exfalso
    obtain ⟨h3, h4, h5⟩ := at_wait .proc (by simp [kOf, hpc])
    obtain ⟨hr, hs⟩ := closed_exits c hw s hA hq h3 h4 h5
    simp [cnt, hr, hs, hpc, PPc.past] at hwg
    exact hg hwg
  case inr.inr.inr.inr.inr.inr.inl =>
    exact absurd (by simp [kOf, hpc]) hK.pidle
  case inr.inr.inr.inr.inr.inr.inr =>
    -- the processor has returned from stop(): everything is over
    left
    have kvp := hK.ks .proc .finished (by simp [kOf, hpc])
    have hcl : s.sh.closed = true := kvp.fin rfl
    -- nobody is at Wait
    have hks' : ∀ i : Nat, ∀ k : KPc, s.ks[i]? = some k → k = .idle ∨ k = .finished := by
      intro i k hk
      rcases hks i k hk with h | h | ⟨h, hg⟩
      · exact Or.inl h
      · exact Or.inr h
      · exfalso
        subst h
        obtain ⟨h3, h4, h5⟩ := at_wait (.k i) (by simp [kOf, hk])
        obtain ⟨hr, hs⟩ := closed_exits c hw s hA hq h3 h4 h5
        simp [cnt, hr, hs, hpc, PPc.past] at hwg
        exact hg hwg
    obtain ⟨t, kk, hwin, hkk⟩ := hK.cls hcl
    have kv := hK.ks t kk hkk
    have hkkf : kk = .finished := by
      have h1 := (kv.won hwin).1
      cases t with
      | proc => simp [kOf, hpc] at hkk; exact hkk.symm
      | k i =>
        rcases hks' i kk (by simpa [kOf] using hkk) with h | h
        · subst h; simp [stage] at h1
        · exact h
      | _ => simp [kOf] at hkk
    subst hkkf
    simp only [stage] at kv
    obtain ⟨_, _, w3, w4, w5, _, _⟩ := kv.won hwin
    obtain ⟨hr, hs⟩ := closed_exits c hw s hA hq (w3 (by omega)) (w4 (by omega)) (w5 (by omega))
    have hnb := no_outblocked (w5 (by omega))
    have hksf : s.ks.all KPc.isFinal = true := by
      rw [List.all_eq_true]
      intro k hk
      obtain ⟨i, hi⟩ := List.mem_iff_getElem?.mp hk
      rcases hks' i k hi with h | h <;> subst h <;> rfl
    have hwsf : (s.ws.all fun w => w.pc.isFinal) = true := by
      rw [List.all_eq_true]
      intro w hwm
      obtain ⟨i, hi⟩ := List.mem_iff_getElem?.mp hwm
      rcases w_blocked c hw s i w hi (hq (.w i)) with ⟨_, hm⟩ | ⟨_, hb⟩ | h | h
      · exfalso
        rcases wmu_holder c hw s hW hq hm with hh | ⟨j, w', _, _, hb⟩
        · simp [hpc, PPc.holdsWmu] at hh
        · exact hnb _ hb
      · exact absurd hb (hnb _)
      · simp [h, WPc.isFinal]
      · simp [h, WPc.isFinal]
    simp [Final, hr, hs, hpc, hksf, hwsf]
  all_goals
    -- the processor is inside its loop
    have hpast : PPc.past s.proc = false := by rw [hpc]; rfl
    have hwg1 : s.sh.wg ≠ 0 := by simp [cnt, hpast] at hwg; omega
    have hkofp : kOf s .proc = none := by simp [kOf, hpc]
    -- is some external stopper at Wait?
    by_cases hex : ∃ i : Nat, s.ks[i]? = some (KPc.run 5)
    · obtain ⟨i, hi⟩ := hex
      obtain ⟨h3, h4, h5⟩ := at_wait (.k i) (by simp [kOf, hi])
      have hnb := no_outblocked h5
      exfalso
      first
      | (rw [h4] at hnd; cases hnd)
      | (rcases wmu_holder c hw s hW hq hmu with hh | ⟨j, w', _, _, hb⟩
         · simp [hpc, PPc.holdsWmu] at hh
         · exact hnb _ hb)
      | exact hnb _ hob
    · -- nobody has called stop() successfully
      have hks' : ∀ i : Nat, ∀ k : KPc, s.ks[i]? = some k → k = .idle ∨ k = .finished := by
        intro i k hk
        rcases hks i k hk with h | h | ⟨h, _⟩
        · exact Or.inl h
        · exact Or.inr h
        · exact absurd ⟨i, by rw [← h]; exact hk⟩ hex
      have hopen : s.sh.closed = false := by
        cases hcl : s.sh.closed with
        | false => rfl
        | true =>
          exfalso
          obtain ⟨t, kk, hwin, hkk⟩ := hK.cls hcl
          have kv := hK.ks t kk hkk
          obtain ⟨h1, _, _, _, _, w6, _⟩ := kv.won hwin
          cases t with
          | proc => rw [hkofp] at hkk; cases hkk
          | k i =>
            rcases hks' i kk (by simpa [kOf] using hkk) with h | h
            · subst h; simp [stage] at h1
            · subst h; exact hwg1 (w6 (by simp [stage]))
          | _ => simp [kOf] at hkk
      first
      | -- waiting for inbound data
        (rcases recv_blocked c hw s hA (hq .recv) with ⟨hr, hrd, hrb⟩ | ⟨hr, hso, hto, _⟩ | hr
         · -- the receiver waits because the ring is full: then the processor has what it waits for
           exfalso
           have := hdrNeed_le s.sh.stream
           have := hw.room
           omega
         · right; right; right
           simp [Ended, hso, hto, hopen, hr, hpc, RPc.pastLoop, PPc.pastLoop]
         · exfalso
           have := hA.rdone (by simp [hr, RPc.closedRing])
           rw [this] at hnd; cases hnd)
      | -- waiting for the own outgoing ring (directly, or behind a writer that holds wmu)
        (have hob' : ∃ l', OutBlocked c s.sh l' := by
           first
           | exact ⟨_, hob⟩
           | (rcases wmu_holder c hw s hW hq hmu with hh | ⟨j, w', _, _, hb⟩
              · simp [hpc, PPc.holdsWmu] at hh
              · exact ⟨_, hb⟩)
         obtain ⟨l', hl1, hl2, hl3⟩ := hob'
         rcases send_blocked c hw s (hq .send) with ⟨_, _, hb0⟩ | ⟨m, _, hso, hpr⟩ | hse
         · exfalso; omega
         · right; right; left
           simp [HeldBySelf, hso, hpr, hpc, PPc.inOwnWrite]
         · exfalso
           have := hA.sdone (by simp [hse, SPc.closedRing])
           rw [this] at hl2; cases hl2)

/-! ## Reachable states, schedules, fair round-robin -/

/-- all four invariants -/
structure Inv (c : Cfg) (s : St) : Prop where
  a : InvA c s
  w : InvW s
  k : InvK s
  r : InvR s

theorem inv_init (c : Cfg) (s : St) (h : Init c s) : Inv c s :=
  ⟨invA_init c s h, invW_init c s h, invK_init c s h, invR_init c s h⟩

theorem inv_step (c : Cfg) (hw : WF c) (s s' : St) (l : Label) (hi : Inv c s) (h : step c s l = some s') :
    Inv c s' := by
  cases l with
  | th t k =>
    exact ⟨invA_step c hw s s' t k hi.a h, invW_step c hw s s' t k hi.w h, invK_step c hw s s' t k hi.a hi.k h,
      invR_step c hw s s' t k hi.r h⟩
  | env e =>
    exact ⟨invA_env c hw s s' e hi.a h, invW_env c hw s s' e hi.w h, invK_env c hw s s' e hi.k h,
      invR_env c hw s s' e hi.r h⟩

theorem inv_run (c : Cfg) (hw : WF c) (s : St) (sched : List Label) (hi : Inv c s) : Inv c (run c s sched) := by
  induction sched generalizing s with
  | nil => exact hi
  | cons l ls ih =>
    simp only [run]
    cases h : step c s l with
    | none => exact ih s hi
    | some s' => exact ih s' (inv_step c hw s s' l hi h)

/-- thread steps a schedule actually takes (environment events not counted) -/
def takenTh (c : Cfg) (s : St) : List Label → Nat
  | [] => 0
  | l :: ls => match step c s l with
    | some s' => takenTh c s' ls + (match l with | .th _ _ => 1 | .env _ => 0)
    | none => takenTh c s ls

/-- **no schedule takes more thread steps than the rank**: the rank pays for every step -/
theorem takenTh_le_rank (c : Cfg) (hw : WF c) (s : St) (sched : List Label) (hi : Inv c s) :
    takenTh c s sched + rank c (run c s sched) ≤ rank c s := by
  induction sched generalizing s with
  | nil => simp [takenTh, run]
  | cons l ls ih =>
    simp only [takenTh, run]
    cases h : step c s l with
    | none => exact ih s hi
    | some s' =>
      have := ih s' (inv_step c hw s s' l hi h)
      cases l with
      | th t k =>
        have := rank_step c hw s s' t k hi.a.swin h
        simp only; omega
      | env e =>
        have := rank_env c hw s s' e h
        simp only; omega

/-- whether a thread can step does not depend on the size of the piece a socket read returns -/
theorem tstep_isSome_k (c : Cfg) (s : St) (t : Tid) (k k' : Nat) :
    (tstep c s t k).isSome = (tstep c s t k').isSome := by
  cases t with
  | recv =>
    simp only [tstep, Option.isSome_map]
    cases hpc : s.recv <;> simp only [rstep]
    case read =>
      by_cases h1 : s.sh.sock ≠ .open ∨ s.sh.timeout = true
      · simp [h1]
      · by_cases h2 : s.sh.wire = 0 <;> simp [h1, h2]
  | _ => rfl

theorem ks_length_step (c : Cfg) (s s' : St) (l : Label) (h : step c s l = some s') :
    s'.ks.length = s.ks.length ∧ s'.ws.length = s.ws.length := by
  cases l with
  | th t k =>
    simp only [step] at h
    cases t with
    | recv => simp only [tstep] at h; cases hr : rstep c s.sh k s.recv <;> simp [hr] at h; subst h; simp
    | send => simp only [tstep] at h; cases hr : sstep c s.sh s.send <;> simp [hr] at h; subst h; simp
    | proc => simp only [tstep] at h; cases hr : pstep c s.sh s.proc <;> simp [hr] at h; subst h; simp
    | k i =>
      simp only [tstep] at h
      cases hk : s.ks[i]? with
      | none => simp [hk] at h
      | some pc => cases hr : kstep c s.sh (.k i) pc <;> simp [hk, hr] at h; subst h; simp
    | w i =>
      simp only [tstep] at h
      cases hk : s.ws[i]? with
      | none => simp [hk] at h
      | some w => cases hr : wstep c s.sh (.w i) w <;> simp [hk, hr] at h; subst h; simp
  | env e =>
    simp only [step] at h
    cases e with
    | peerClose => simp only [estep] at h; by_cases h1 : s.sh.sock = .open ∨ s.sh.sock = .peerShut <;> simp [h1] at h; subst h; simp
    | peerShut => simp only [estep] at h; by_cases h1 : s.sh.sock = .open <;> simp [h1] at h; subst h; simp
    | kaExpire =>
      simp only [estep] at h
      by_cases h1 : s.recv = .read ∧ s.sh.sock = .open
      · rw [if_pos h1] at h; injection h with h; subst h; simp
      · rw [if_neg h1] at h; cases h
    | peerReads b => simp [estep] at h; subst h; simp
    | extBlock b => simp [estep] at h; subst h; simp
    | serverClose i =>
      simp only [estep] at h
      cases hk : s.ks[i]? with
      | none => simp [hk] at h
      | some pc => cases pc <;> simp [hk] at h; subst h; simp
    | preClose =>
      simp only [estep] at h
      cases hc : s.sh.outR.close c <;> simp [hc] at h
      subst h; simp

/-- a thread that is not listed in `tids` does not exist and cannot step -/
theorem en_of_not_mem (c : Cfg) (s : St) (t : Tid) (h : t ∉ tids s) : en c s t = false := by
  cases t with
  | recv => simp [tids] at h
  | proc => simp [tids] at h
  | send => simp [tids] at h
  | k i =>
    have : ¬ i < s.ks.length := by
      intro hlt; apply h; simp [tids]; exact hlt
    simp [en, tstep, List.getElem?_eq_none (Nat.le_of_not_lt this)]
  | w i =>
    have : ¬ i < s.ws.length := by
      intro hlt; apply h; simp [tids]; exact hlt
    simp [en, tstep, List.getElem?_eq_none (Nat.le_of_not_lt this)]

theorem quiescent_iff (c : Cfg) (s : St) : quiescent c s = true ↔ ∀ t, en c s t = false := by
  constructor
  · intro hq t
    by_cases hm : t ∈ tids s
    · simp [quiescent, List.all_eq_true] at hq
      exact hq t hm
    · exact en_of_not_mem c s t hm
  · intro h
    simp [quiescent, List.all_eq_true]
    intro t _; exact h t

theorem run_append (c : Cfg) (s : St) (a b : List Label) : run c s (a ++ b) = run c (run c s a) b := by
  induction a generalizing s with
  | nil => rfl
  | cons l ls ih =>
    simp only [List.cons_append, run]
    cases h : step c s l with
    | none => exact ih s
    | some s' => exact ih s'

/-- a turn for every listed thread takes at least one step if one of them can step -/
theorem turns_take (c : Cfg) (s : St) (r : Nat) (ts : List Tid) (h : ∃ t, t ∈ ts ∧ en c s t = true) :
    1 ≤ takenTh c s (ts.map fun t => .th t r) := by
  induction ts with
  | nil => obtain ⟨t, hm, _⟩ := h; cases hm
  | cons t0 rest ih =>
    simp only [List.map_cons, takenTh]
    cases hs : step c s (.th t0 r) with
    | some s' => simp only; omega
    | none =>
      simp only
      apply ih
      obtain ⟨t, hm, he⟩ := h
      rcases List.mem_cons.mp hm with rfl | hm'
      · exfalso
        simp only [step] at hs
        have := tstep_isSome_k c s t r 1
        rw [hs] at this
        simp [en] at he
        rw [he] at this; cases this
      · exact ⟨t, hm', he⟩

theorem rank_pos_of_enabled (c : Cfg) (hw : WF c) (s : St) (hi : Inv c s) (t : Tid) (h : en c s t = true) :
    0 < rank c s := by
  simp only [en] at h
  cases hs : tstep c s t 1 with
  | none => rw [hs] at h; cases h
  | some s' => have := rank_step c hw s s' t 1 hi.a.swin hs; omega

theorem round_spec (c : Cfg) (hw : WF c) (s : St) (hi : Inv c s) (hq : quiescent c s = false) :
    Inv c (round c s) ∧ rank c (round c s) + 1 ≤ rank c s := by
  refine ⟨inv_run c hw s _ hi, ?_⟩
  have h1 : ∃ t, t ∈ tids s ∧ en c s t = true := by
    simp [quiescent] at hq
    obtain ⟨t, hm, he⟩ := hq
    exact ⟨t, hm, he⟩
  have h2 := turns_take c s c.rblock (tids s) h1
  have h3 := takenTh_le_rank c hw s ((tids s).map fun t => .th t c.rblock) hi
  simp only [round]
  omega

/-- **fair round-robin reaches a state in which nothing can run within `rank` rounds** -/
theorem drain_quiescent (c : Cfg) (hw : WF c) (n : Nat) (s : St) (hi : Inv c s) (hn : rank c s ≤ n) :
    quiescent c (drain c n s) = true := by
  induction n generalizing s with
  | zero =>
    simp only [drain]
    cases hq : quiescent c s with
    | true => rfl
    | false =>
      exfalso
      simp [quiescent] at hq
      obtain ⟨t, _, he⟩ := hq
      have := rank_pos_of_enabled c hw s hi t he
      omega
  | succ n ih =>
    simp only [drain]
    cases hq : quiescent c s with
    | true => simp [hq]
    | false =>
      simp
      obtain ⟨h1, h2⟩ := round_spec c hw s hi hq
      exact ih (round c s) h1 (by omega)

/-- the round-robin is a schedule of thread steps: what it reaches is reachable -/
theorem drain_is_run (c : Cfg) (n : Nat) (s : St) :
    ∃ sched, drain c n s = run c s sched ∧ ∀ l, l ∈ sched → ∃ t k, l = .th t k := by
  induction n generalizing s with
  | zero => exact ⟨[], rfl, fun l hl => by cases hl⟩
  | succ n ih =>
    simp only [drain]
    cases hq : quiescent c s with
    | true => exact ⟨[], by simp [run], fun l hl => by cases hl⟩
    | false =>
      obtain ⟨sched, h1, h2⟩ := ih (round c s)
      refine ⟨((tids s).map fun t => .th t c.rblock) ++ sched, ?_, ?_⟩
      · simp only [Bool.false_eq_true, if_false, run_append]; exact h1
      · intro l hl
        rcases List.mem_append.mp hl with hl | hl
        · simp at hl; obtain ⟨t, _, rfl⟩ := hl; exact ⟨t, _, rfl⟩
        · exact h2 l hl

theorem inv_drain (c : Cfg) (hw : WF c) (n : Nat) (s : St) (hi : Inv c s) : Inv c (drain c n s) := by
  obtain ⟨sched, h, _⟩ := drain_is_run c n s
  rw [h]; exact inv_run c hw s sched hi

end Mqtt.Proofs.Lifecycle
