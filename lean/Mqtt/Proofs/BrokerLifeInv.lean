/-
Representation invariant of the broker model's session bookkeeping, kept by
every event: references held by connections and by the store resolve, the store
maps an identifier to a session object of that identifier, and references not
yet issued do not resolve.
-/
import Mqtt.Proofs.BrokerLifeStop

namespace Mqtt.Proofs.BrokerLife
open Mqtt.Iface.Broker Mqtt.Model.Broker
open Mqtt.Model.Topics (MemTopics)

structure Inv (b : B) : Prop where
  /-- every connection's session reference resolves -/
  conns : ∀ cn ∈ b.conns, ∃ s, b.getSess cn.sess = some s
  /-- references not yet issued do not resolve -/
  fresh : ∀ r, b.nextRef ≤ r → b.getSess r = none
  /-- the store points to existing session objects carrying the identifier they are filed under -/
  store : ∀ p ∈ b.store, ∃ s, b.getSess p.2 = some s ∧ s.cid = p.1
  /-- a set will flag comes with a will message (`stop` never meets the nil will it would recover from) -/
  wills : ∀ r s, b.getSess r = some s → s.willFlag = true → s.will.isSome = true

theorem inv_init : Inv {} :=
  ⟨fun _ h => by simp at h, fun _ _ => rfl, fun _ h => by simp at h, fun _ _ h => by simp [B.getSess] at h⟩

theorem initWill_isSome (req : Connect) : (initWill req).isSome = req.will.isSome := by
  unfold initWill; cases req.will <;> rfl

theorem Inv.transfer {b b' : B} (h : Inv b)
    (hs : ∀ r s, b.getSess r = some s → ∃ s', b'.getSess r = some s' ∧ s'.cid = s.cid)
    (hf : ∀ r, b'.nextRef ≤ r → b'.getSess r = none)
    (hc : ∀ cn ∈ b'.conns, (∃ cn0 ∈ b.conns, cn0.sess = cn.sess) ∨ ∃ s, b'.getSess cn.sess = some s)
    (hst : ∀ p ∈ b'.store, p ∈ b.store ∨ ∃ s, b'.getSess p.2 = some s ∧ s.cid = p.1)
    (hw : ∀ r s, b'.getSess r = some s → s.willFlag = true → s.will.isSome = true) : Inv b' := by
  refine ⟨?_, hf, ?_, hw⟩
  · intro cn hcn
    rcases hc cn hcn with ⟨cn0, h0, he⟩ | h1
    · obtain ⟨s, hs0⟩ := h.conns cn0 h0
      obtain ⟨s', hs', _⟩ := hs _ _ hs0
      exact ⟨s', he ▸ hs'⟩
    · exact h1
  · intro p hp
    rcases hst p hp with h0 | h1
    · obtain ⟨s, hs0, hcid⟩ := h.store p h0
      obtain ⟨s', hs', hc'⟩ := hs _ _ hs0
      exact ⟨s', hs', hc'.trans hcid⟩
    · exact h1

theorem inv_frame {b b' : B} (hf : Frame b b') (h : Inv b) : Inv b' := by
  refine h.transfer (fun r s hs => ⟨s, (hf.getSess r).trans hs, rfl⟩) ?_ ?_ ?_
    (fun r s hs => h.wills r s ((hf.getSess r).symm.trans hs))
  · intro r hr; rw [hf.getSess]; exact h.fresh r (hf.nextRef ▸ hr)
  · intro cn hcn; exact .inl ⟨cn, hf.conns ▸ hcn, rfl⟩
  · intro p hp; exact .inl (hf.store ▸ hp)

/-- replacing a session object by one of the same reference and identifier -/
theorem inv_setSess {b : B} (h : Inv b) {r : Nat} {s s' : Sess} (hs : b.getSess r = some s)
    (hr : s'.ref = r) (hcid : s'.cid = s.cid) (hwl : s'.willFlag = true → s'.will.isSome = true) :
    Inv (b.setSess s') := by
  refine h.transfer ?_ ?_ ?_ ?_ ?_
  · intro r0 s0 h0
    by_cases he : r0 = s'.ref
    · subst he
      refine ⟨s', getSess_setSess b s', ?_⟩
      rw [hr] at h0; rw [hs] at h0; cases h0; exact hcid
    · exact ⟨s0, (getSess_setSess_ne b s' r0 he).trans h0, rfl⟩
  · intro r0 hr0
    have hnone := h.fresh r0 hr0
    by_cases he : r0 = s'.ref
    · subst he; rw [hr, hs] at hnone; cases hnone
    · rw [getSess_setSess_ne b s' r0 he]; exact hnone
  · intro cn hcn; exact .inl ⟨cn, hcn, rfl⟩
  · intro p hp; exact .inl hp
  · intro r0 t ht
    by_cases he : r0 = s'.ref
    · subst he
      rw [getSess_setSess] at ht; cases ht; exact hwl
    · rw [getSess_setSess_ne b s' r0 he] at ht; exact h.wills r0 t ht

theorem inv_markDead {b : B} (h : Inv b) (c : Nat) : Inv (markDead b c) := by
  refine h.transfer (fun r s hs => ⟨s, hs, rfl⟩) h.fresh ?_ (fun p hp => .inl hp) h.wills
  intro cn hcn
  simp only [markDead, List.mem_map] at hcn
  obtain ⟨x, hx, rfl⟩ := hcn
  refine .inl ⟨x, hx, ?_⟩
  split <;> rfl

theorem inv_storeDel {b : B} (h : Inv b) (cid : Bytes) : Inv (b.storeDel cid) := by
  refine h.transfer (fun r s hs => ⟨s, hs, rfl⟩) h.fresh (fun cn hcn => .inl ⟨cn, hcn, rfl⟩) ?_ h.wills
  intro p hp
  simp only [B.storeDel, List.mem_filter] at hp
  exact .inl hp.1

theorem inv_stop {b : B} (h : Inv b) (c : Nat) : Inv (stop b c).1 := by
  cases hal : b.alive c with
  | false => rw [stop_dead b c hal]; exact h
  | true =>
    obtain ⟨cn, hc, ha⟩ := (alive_true_iff b c).mp hal
    cases hs : b.getSess cn.sess with
    | none => rw [stop_live_nosess b c cn hc ha hs]; exact inv_markDead h c
    | some s =>
      rw [stop_live b c cn s hc ha hs]
      have hb : Inv (stopBase b c s) := inv_frame (frame_topics _ _) (inv_markDead h c)
      have hsb : (stopBase b c s).getSess cn.sess = some s := hs
      have hr : s.ref = cn.sess := getSess_ref hs
      split
      · split
        · exact hb
        · rename_i w hw
          have hf := onPublish_frame (stopBase b c s) w
          have h2 : Inv (onPublish (stopBase b c s) w).1 := inv_frame hf hb
          have hs2 : (onPublish (stopBase b c s) w).1.getSess cn.sess = some s := (hf.getSess _).trans hsb
          have h3 := inv_setSess (s := s) (s' := { s with will := some (onPublish (stopBase b c s) w).2.1 })
            h2 hs2 hr rfl (fun _ => rfl)
          dsimp only
          split
          · exact inv_storeDel h3 _
          · exact h3
      · dsimp only
        split
        · exact inv_storeDel hb _
        · exact hb

theorem mem_of_lookup {α β} [BEq α] [LawfulBEq α] {l : List (α × β)} {k : α} {v : β} (h : l.lookup k = some v) :
    (k, v) ∈ l := by
  induction l with
  | nil => simp at h
  | cons x xs ih =>
    obtain ⟨a, v'⟩ := x
    rw [List.lookup_cons] at h
    by_cases hk : (k == a) = true
    · simp only [hk] at h
      cases h
      have : k = a := by simpa using hk
      simp [this]
    · have hk' : (k == a) = false := by simpa using hk
      simp only [hk'] at h
      exact List.mem_cons_of_mem _ (ih h)

/-- what `resumed` returns: the non-clean session object the store holds for the identifier in force -/
theorem resumed_some {b : B} {c : Nat} {req : Connect} {s : Sess} (h : resumed b c req = some s) :
    effClean req = false ∧ b.storeGet (effCid c req) = some s.ref ∧ b.getSess s.ref = some s ∧ s.clean = false := by
  unfold resumed at h
  cases hcl : effClean req with
  | true => simp [hcl] at h
  | false =>
    simp only [hcl, Bool.false_eq_true, ↓reduceIte] at h
    cases hg : b.storeGet (effCid c req) with
    | none => simp [hg] at h
    | some r =>
      simp only [hg, Option.bind_some] at h
      cases hs : b.getSess r with
      | none => simp [hs] at h
      | some s0 =>
        simp only [hs, Option.filter] at h
        split at h
        · cases h
          rename_i hc
          have hr := getSess_ref hs
          subst hr
          exact ⟨rfl, rfl, hs, by simpa using hc⟩
        · cases h

theorem inv_accepted {b : B} (h : Inv b) (c : Nat) (req : Connect) : Inv (accepted b c req).1 := by
  unfold accepted
  cases hres : resumed b c req with
  | some s =>
    obtain ⟨_, _, hs, _⟩ := resumed_some hres
    have h1 : Inv (b.setSess (updSess s req)) := inv_setSess h hs rfl rfl
      (fun hf => by
        have h1 : (updSess s req).willFlag = req.will.isSome := rfl
        have h2 : (updSess s req).will = initWill req := rfl
        rw [h2, initWill_isSome, ← h1]; exact hf)
    have hg : (b.setSess (updSess s req)).getSess s.ref = some (updSess s req) := getSess_setSess b (updSess s req)
    dsimp only
    refine inv_frame (frame_topics _ _) (h1.transfer (fun r s hs => ⟨s, hs, rfl⟩) h1.fresh ?_ (fun p hp => .inl hp) h1.wills)
    intro cn hcn
    simp only [addConn, List.mem_append, List.mem_filter, List.mem_singleton] at hcn
    rcases hcn with ⟨h0, _⟩ | rfl
    · exact .inl ⟨cn, h0, rfl⟩
    · exact .inr ⟨_, hg⟩
  | none =>
    dsimp only
    have hn : b.getSess b.nextRef = none := h.fresh _ (Nat.le_refl _)
    have hg : ∀ r, r ≠ b.nextRef → (B.setSess { b with nextRef := b.nextRef + 1 } (newSess b c req)).getSess r = b.getSess r :=
      fun r hr => getSess_setSess_ne { b with nextRef := b.nextRef + 1 } (newSess b c req) r hr
    have hg' : (B.setSess { b with nextRef := b.nextRef + 1 } (newSess b c req)).getSess b.nextRef = some (newSess b c req) :=
      getSess_setSess { b with nextRef := b.nextRef + 1 } (newSess b c req)
    refine h.transfer ?_ ?_ ?_ ?_ ?_
    · intro r s hs
      have hr : r ≠ b.nextRef := fun he => by rw [he, hn] at hs; cases hs
      exact ⟨s, (hg r hr).trans hs, rfl⟩
    · intro r hr
      have hr' : b.nextRef + 1 ≤ r := hr
      have : r ≠ b.nextRef := by omega
      exact (hg r this).trans (h.fresh r (by omega))
    · intro cn hcn
      simp only [addConn, List.mem_append, List.mem_filter, List.mem_singleton] at hcn
      rcases hcn with ⟨h0, _⟩ | rfl
      · exact .inl ⟨cn, h0, rfl⟩
      · exact .inr ⟨_, hg'⟩
    · intro p hp
      have hp' : p ∈ (effCid c req, b.nextRef) :: b.store.filter (fun p => p.1 != effCid c req) := hp
      simp only [List.mem_cons, List.mem_filter] at hp'
      rcases hp' with rfl | ⟨h0, _⟩
      · exact .inr ⟨_, hg', rfl⟩
      · exact .inl h0
    · intro r t ht
      have ht' : (B.setSess { b with nextRef := b.nextRef + 1 } (newSess b c req)).getSess r = some t := ht
      by_cases he : r = b.nextRef
      · subst he
        rw [hg'] at ht'; cases ht'
        intro hf
        have h1 : (newSess b c req).willFlag = req.will.isSome := rfl
        have h2 : (newSess b c req).will = initWill req := rfl
        rw [h2, initWill_isSome, ← h1]; exact hf
      · rw [hg r he] at ht'; exact h.wills r t ht'

theorem inv_first {b : B} (h : Inv b) (c : Nat) (f : First) (a : Bool) : Inv (first b c f a).1 := by
  cases hacc : accepts f a with
  | false =>
    rcases first_refused b c f a hacc with h1 | ⟨k, _, h1⟩ <;> rw [h1] <;> exact h
  | true =>
    cases f with
    | garbage => simp [accepts] at hacc
    | other t => simp [accepts] at hacc
    | connect req => rw [first_accepted b c req a hacc]; exact inv_accepted h c req

theorem inv_packet {b : B} (h : Inv b) (c : Nat) (p : Packet) : Inv (packet b c p).1 := by
  cases hal : b.alive c with
  | false => rw [packet_dead b c p hal]; exact h
  | true =>
    obtain ⟨cn, hc, ha⟩ := (alive_true_iff b c).mp hal
    cases hs : b.getSess cn.sess with
    | none => unfold packet; simp only [hc, ha, hs]; exact h
    | some s =>
      have hr := getSess_ref hs
      cases p with
      | publish pub =>
        unfold packet
        simp only [hc, ha, hs, Bool.not_true, Bool.false_eq_true, ↓reduceIte]
        split
        · exact inv_setSess h hs hr rfl (h.wills _ s hs)
        · split
          · exact inv_frame (onPublish_frame _ _) h
          · exact inv_frame (onPublish_frame _ _) h
      | pubrel id =>
        unfold packet
        simp only [hc, ha, hs, Bool.not_true, Bool.false_eq_true, ↓reduceIte]
        exact inv_frame (releaseAll_frame _ _) (inv_setSess h hs hr rfl (h.wills _ s hs))
      | subscribe id topics =>
        unfold packet
        simp only [hc, ha, hs, Bool.not_true, Bool.false_eq_true, ↓reduceIte]
        have hl := subscribeLoop_frame c topics b s [] []
        have h1 : Inv (subscribeLoop b c s topics [] []).1 := inv_frame hl.1 h
        have hs1 : (subscribeLoop b c s topics [] []).1.getSess cn.sess = some s := (hl.1.getSess _).trans hs
        refine inv_frame (sendRetained_frame _ _ _) (inv_setSess h1 hs1 (hl.2.1.trans hr) hl.2.2.1 ?_)
        rw [hl.2.2.2.2.1, hl.2.2.2.2.2]
        exact h.wills _ s hs
      | unsubscribe id topics =>
        unfold packet
        simp only [hc, ha, hs, Bool.not_true, Bool.false_eq_true, ↓reduceIte]
        have h1 : Inv { b with topics := topics.foldl (fun ts t => (ts.unsubscribe t (some c)).1) b.topics } :=
          inv_frame (frame_topics _ _) h
        have hs1 : B.getSess { b with topics := topics.foldl (fun ts t => (ts.unsubscribe t (some c)).1) b.topics }
            cn.sess = some s := hs
        exact inv_setSess (s := s) h1 hs1 hr rfl (h.wills _ s hs)
      | disconnect =>
        rw [packet_disconnect_eq b c cn s hc ha hs]
        exact inv_stop (inv_setSess (s := s) (s' := { s with willFlag := false }) h hs hr rfl
          (fun hf => by cases hf)) c
      | connack sp code => unfold packet; simp only [hc, ha, hs]; exact h
      | puback id => unfold packet; simp only [hc, ha, hs]; exact h
      | pubrec id => unfold packet; simp only [hc, ha, hs]; exact h
      | pubcomp id => unfold packet; simp only [hc, ha, hs]; exact h
      | suback id codes => unfold packet; simp only [hc, ha, hs]; exact h
      | unsuback id => unfold packet; simp only [hc, ha, hs]; exact h
      | pingreq => unfold packet; simp only [hc, ha, hs]; exact h
      | pingresp => unfold packet; simp only [hc, ha, hs]; exact h
      | connectAgain => unfold packet; simp only [hc, ha, hs]; exact h

theorem inv_step {b : B} (h : Inv b) (e : Ev) : Inv (step b e).1 := by
  cases e with
  | first c f a =>
    exact Mqtt.Proofs.Connect.connect_state Inv (fun b c h => inv_stop h c) (fun b c f a h => inv_first h c f a) b c f a h
  | packet c p => exact inv_packet h c p
  | close c => exact inv_stop h c
  | srvPub p =>
    simp only [step, srvPub]
    exact inv_frame (onPublish_frame _ _) h
  | srvSub cb f q =>
    simp only [step, srvSub]
    split
    · exact inv_frame (frame_topics _ _) h
    · exact inv_frame (frame_topics _ _) h
  | srvUnsub cb f =>
    simp only [step, srvUnsub]
    exact inv_frame (frame_topics _ _) h

theorem inv_run (evs : List Ev) : ∀ {b : B}, Inv b → Inv (run b evs).1 := by
  induction evs with
  | nil => intro b h; exact h
  | cons e es ih => intro b h; simp only [run]; exact ih (inv_step h e)

/-- every state the broker can reach from its initial state satisfies the invariant -/
theorem inv_reachable (evs : List Ev) : Inv (run {} evs).1 := inv_run evs inv_init

/-- under the invariant a live connection has a resolvable session object -/
theorem Inv.live {b : B} (h : Inv b) {c : Nat} (hal : b.alive c = true) :
    ∃ cn s, b.getConn c = some cn ∧ cn.alive = true ∧ b.getSess cn.sess = some s := by
  obtain ⟨cn, hc, ha⟩ := (alive_true_iff b c).mp hal
  have hm : cn ∈ b.conns := by
    unfold B.getConn at hc
    exact List.mem_of_find?_eq_some hc
  obtain ⟨s, hs⟩ := h.conns cn hm
  exact ⟨cn, s, hc, ha, hs⟩

end Mqtt.Proofs.BrokerLife
