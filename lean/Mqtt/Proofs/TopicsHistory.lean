/-
Core B: histories.  The subscription trie reached by any list of operations
(the driver's `modelStep`, i.e. exactly what the differential runs execute)
holds, up to permutation, the entries of the abstract store reached by the
specification's `step` - for operations whose topic argument has no empty
level and does not begin with '$' (`good`).  Helper lemmas only.
-/
import Mqtt.Proofs.TopicsStore
import Mqtt.Proofs.TopicsLevels
import Mqtt.Driver.Topics

set_option linter.unusedSimpArgs false

namespace Mqtt.Proofs.Topics
open Mqtt.Model.Topics Mqtt.Iface.Topics
open Mqtt.Spec.Match (SEP HASH PLUS DOLLAR split validFilter validFilterLevels validName topicMatches matchLevels dollar)
open Mqtt.Spec.TopicStore (S Sub step maxQos)
open Mqtt.Driver.Topics (modelStep)

/-- the topic argument of an operation -/
def opTopic : Op → List UInt8
  | .sub f _ _ => f
  | .unsub f _ => f
  | .unsubAll f => f
  | .subs t _ => t
  | .retain t _ _ => t
  | .retained f => f

/-- the model after a history (the function the driver folds over the op lines) -/
def mrun (ops : List Op) : MemTopics := ops.foldl (fun mt op => (modelStep mt op).1) MemTopics.new
/-- the specification after the same history -/
def srun (ops : List Op) : S := ops.foldl (fun s op => (step s op).1) Mqtt.Spec.TopicStore.empty

/-- the abstract store's subscriptions as trie entries -/
def absS (subs : List Sub) : List Entry := subs.map (fun e => (split e.filter, e.sub, e.qos))

structure Inv (root : SNode) (subs : List Sub) : Prop where
  wf : WF root
  perm : (abs root).Perm (absS subs)
  valid : ∀ e ∈ subs, validFilter e.filter = true

/-! ### what one operation does to the trie and to the abstract store -/

theorem validQos_iff (q : Nat) : validQos q = decide (q ≤ 2) := by
  unfold validQos
  by_cases h : q ≤ 2
  · have : q = 0 ∨ q = 1 ∨ q = 2 := by omega
    rcases this with rfl | rfl | rfl <;> rfl
  · have h0 : (q == 0) = false := by simp; omega
    have h1 : (q == 1) = false := by simp; omega
    have h2 : (q == 2) = false := by simp; omega
    simp [h0, h1, h2, h]

theorem modelStep_sub (mt : MemTopics) (f : List UInt8) (q s : Nat) (hd : checkTopic f = false) :
    (modelStep mt (.sub f q s)).1.sroot =
      if q ≤ 2 then mt.sroot.sinsertL (levels f).1 (levels f).2 s q else mt.sroot := by
  simp only [modelStep, subscribe_of_not_sys _ _ _ _ _ hd, validQos_iff, SNode.sinsert]
  by_cases h : q ≤ 2
  · have h' : ¬ q > 2 := by omega
    simp only [h, decide_true, Bool.not_true, Bool.false_eq_true, ↓reduceIte, h']
    cases (levels f).2 <;> rfl
  · simp [h]

/-- a subscription to a topic beginning with '$', or to the empty topic, leaves the store alone -/
theorem modelStep_sub_sys (mt : MemTopics) (f : List UInt8) (q s : Nat) (hd : checkTopic f = true) :
    (modelStep mt (.sub f q s)).1 = mt := by
  simp only [modelStep, subscribe_of_sys _ _ _ _ _ hd]

theorem modelStep_unsub (mt : MemTopics) (f : List UInt8) (s : Nat) (hd : checkTopic f = false) :
    (modelStep mt (.unsub f s)).1.sroot = (mt.sroot.sremoveL (levels f).1 (levels f).2 (some s)).1 := by
  simp [modelStep, unsubscribe_of_not_sys _ _ _ hd, SNode.sremove]

theorem modelStep_unsub_sys (mt : MemTopics) (f : List UInt8) (s : Nat) (hd : checkTopic f = true) :
    (modelStep mt (.unsub f s)).1 = mt := by
  simp [modelStep, unsubscribe_of_sys _ _ _ hd]

theorem modelStep_unsubAll (mt : MemTopics) (f : List UInt8) (hd : checkTopic f = false) :
    (modelStep mt (.unsubAll f)).1.sroot = (mt.sroot.sremoveL (levels f).1 (levels f).2 none).1 := by
  simp [modelStep, unsubscribe_of_not_sys _ _ _ hd, SNode.sremove]

theorem modelStep_unsubAll_sys (mt : MemTopics) (f : List UInt8) (hd : checkTopic f = true) :
    (modelStep mt (.unsubAll f)).1 = mt := by
  simp [modelStep, unsubscribe_of_sys _ _ _ hd]

theorem modelStep_subs (mt : MemTopics) (t : List UInt8) (q : Nat) :
    (modelStep mt (.subs t q)).1 = mt := by
  unfold modelStep
  simp only
  split <;> rfl

theorem modelStep_retain (mt : MemTopics) (t : List UInt8) (q : Nat) (p : List UInt8) :
    (modelStep mt (.retain t q p)).1.sroot = mt.sroot := by
  unfold modelStep
  simp only [MemTopics.retain]
  split
  · rfl
  · split <;> rfl

theorem modelStep_retained (mt : MemTopics) (f : List UInt8) :
    (modelStep mt (.retained f)).1 = mt := by
  unfold modelStep
  simp only
  split <;> rfl

/-- the subscriptions the abstract store holds after one operation -/
def specSubs (subs : List Sub) : Op → List Sub
  | .sub f q sub =>
      if dollar f then subs
      else if q > 2 then subs
      else if !validFilter f then subs
      else subs.filter (fun e => !(e.sub == sub && e.filter == f)) ++ [⟨sub, f, min q maxQos⟩]
  | .unsub f sub => if dollar f then subs else subs.filter (fun e => !(e.sub == sub && e.filter == f))
  | .unsubAll f => subs.filter (fun e => !(e.filter == f))
  | _ => subs

theorem filter_self_of_not_any {α} (l : List α) (p : α → Bool) (h : ¬ l.any p = true) :
    l.filter (fun e => !p e) = l := by
  rw [List.filter_eq_self]
  intro a ha
  cases hp : p a with
  | false => rfl
  | true => exact absurd (List.any_eq_true.mpr ⟨a, ha, hp⟩) h

theorem step_subs (s : S) (op : Op) : (step s op).1.subs = specSubs s.subs op := by
  cases op with
  | sub f q sub =>
    simp only [step, specSubs]
    split
    · rfl
    · split
      · rfl
      · split <;> rfl
  | unsub f sub =>
    simp only [step, specSubs]
    split
    · rfl
    · split
      · rfl
      · rename_i h
        exact (filter_self_of_not_any s.subs (fun e => e.sub == sub && e.filter == f) h).symm
  | unsubAll f => rfl
  | subs t q =>
    simp only [step, specSubs]
    split
    · rfl
    · split
      · rfl
      · split <;> rfl
  | retain t q p =>
    simp only [step, specSubs]
    split
    · rfl
    · split <;> rfl
  | retained f =>
    simp only [step, specSubs]
    split <;> rfl

/-! ### abstract store and `hit` -/

theorem absS_filter_some (subs : List Sub) (f : List UInt8) (sub : Nat) :
    (absS subs).filter (fun e => !hit (split f) (some sub) e) =
      absS (subs.filter (fun e => !(e.sub == sub && e.filter == f))) := by
  unfold absS
  rw [List.filter_map]
  congr 1
  apply List.filter_congr
  intro e _
  simp only [Function.comp, hit, subHit]
  by_cases h : e.filter = f
  · subst h; simp [Bool.and_comm]
  · have : split e.filter ≠ split f := fun hs => h (split_inj _ _ hs)
    have hb : (split e.filter == split f) = false := by simpa using this
    have hb2 : (e.filter == f) = false := by simpa using h
    simp [hb, hb2]

theorem absS_filter_none (subs : List Sub) (f : List UInt8) :
    (absS subs).filter (fun e => !hit (split f) none e) = absS (subs.filter (fun e => !(e.filter == f))) := by
  unfold absS
  rw [List.filter_map]
  congr 1
  apply List.filter_congr
  intro e _
  simp only [Function.comp, hit, subHit]
  by_cases h : e.filter = f
  · subst h; simp
  · have : split e.filter ≠ split f := fun hs => h (split_inj _ _ hs)
    have hb : (split e.filter == split f) = false := by simpa using this
    have hb2 : (e.filter == f) = false := by simpa using h
    simp [hb, hb2]

theorem filter_invalid_some (subs : List Sub) (f : List UInt8) (sub : Nat)
    (hv : ∀ e ∈ subs, validFilter e.filter = true) (hf : validFilter f = false) :
    subs.filter (fun e => !(e.sub == sub && e.filter == f)) = subs := by
  rw [List.filter_eq_self]
  intro e he
  have : e.filter ≠ f := by intro h; rw [← h, hv e he] at hf; exact absurd hf (by simp)
  simp [this]

theorem filter_invalid_none (subs : List Sub) (f : List UInt8)
    (hv : ∀ e ∈ subs, validFilter e.filter = true) (hf : validFilter f = false) :
    subs.filter (fun e => !(e.filter == f)) = subs := by
  rw [List.filter_eq_self]
  intro e he
  have : e.filter ≠ f := by intro h; rw [← h, hv e he] at hf; exact absurd hf (by simp)
  simp [this]

/-! ### one step preserves the refinement -/

theorem levels_valid (f : List UInt8) (hg : good f = true) (hv : validFilter f = true) :
    (levels f).1 = split f ∧ (levels f).2 = true := by
  rw [(levels_spec f (good_noEmptyLevel f hg)).1 hv]; exact ⟨rfl, rfl⟩

theorem levels_invalid (f : List UInt8) (hg : good f = true) (hv : validFilter f = false) :
    (levels f).2 = false := (levels_spec f (good_noEmptyLevel f hg)).2 hv

theorem entryLevels_valid (f : List UInt8) (hg : good f = true) (hv : validFilter f = true) :
    (entryLevels f).1 = split f ∧ (entryLevels f).2 = true := by
  rw [entryLevels_good f hg]; exact levels_valid f hg hv

theorem entryLevels_invalid (f : List UInt8) (hg : good f = true) (hv : validFilter f = false) :
    (entryLevels f).2 = false := by
  rw [entryLevels_good f hg]; exact levels_invalid f hg hv

theorem step_inv (mt : MemTopics) (subs : List Sub) (op : Op) (hg : good (opTopic op) = true)
    (h : Inv mt.sroot subs) : Inv (modelStep mt op).1.sroot (specSubs subs op) := by
  cases op with
  | sub f q sub =>
    have hd : dollar f = false := good_not_dollar f hg
    rw [modelStep_sub _ _ _ _ (good_checkTopic f hg)]
    simp only [specSubs, hd, Bool.false_eq_true, ↓reduceIte]
    by_cases hq : q ≤ 2
    · have hq' : ¬ q > 2 := by omega
      simp only [hq, hq', ↓reduceIte]
      cases hv : validFilter f with
      | false =>
        simp only [Bool.not_false, ↓reduceIte]
        rw [levels_invalid f hg hv]
        exact ⟨sinsertL_WF _ _ _ _ _ h.wf, (sinsertL_abs_false _ _ _ _ h.wf).trans h.perm, h.valid⟩
      | true =>
        simp only [Bool.not_true, Bool.false_eq_true, ↓reduceIte]
        obtain ⟨e1, e2⟩ := levels_valid f hg hv
        rw [e1, e2]
        have hmin : min q maxQos = q := by simp [maxQos]; omega
        refine ⟨sinsertL_WF _ _ _ _ _ h.wf, ?_, ?_⟩
        · refine (sinsertL_abs _ _ _ _ h.wf).trans ?_
          have := (h.perm.filter (fun e => !hit (split f) (some sub) e))
          rw [absS_filter_some] at this
          rw [hmin]
          simp only [absS, List.map_append, List.map_cons, List.map_nil]
          exact List.Perm.append_right _ this
        · intro e he
          simp only [List.mem_append, List.mem_filter, List.mem_singleton] at he
          rcases he with he | rfl
          · exact h.valid e he.1
          · exact hv
    · have hq' : q > 2 := by omega
      simp only [hq, hq', ↓reduceIte]
      exact h
  | unsub f sub =>
    have hd : dollar f = false := good_not_dollar f hg
    rw [modelStep_unsub _ _ _ (good_checkTopic f hg)]
    simp only [specSubs, hd, Bool.false_eq_true, ↓reduceIte]
    cases hv : validFilter f with
    | false =>
      rw [levels_invalid f hg hv, sremoveL_abs_false _ _ _ h.wf, filter_invalid_some subs f sub h.valid hv]
      exact h
    | true =>
      obtain ⟨e1, e2⟩ := levels_valid f hg hv
      rw [e1, e2]
      refine ⟨sremoveL_WF _ _ _ _ h.wf, ?_, fun e he => h.valid e (List.mem_filter.mp he).1⟩
      refine (sremoveL_abs _ _ _ h.wf).trans ?_
      have := (h.perm.filter (fun e => !hit (split f) (some sub) e))
      rw [absS_filter_some] at this
      exact this
  | unsubAll f =>
    rw [modelStep_unsubAll _ _ (good_checkTopic f hg)]
    simp only [specSubs]
    cases hv : validFilter f with
    | false =>
      rw [levels_invalid f hg hv, sremoveL_abs_false _ _ _ h.wf, filter_invalid_none subs f h.valid hv]
      exact h
    | true =>
      obtain ⟨e1, e2⟩ := levels_valid f hg hv
      rw [e1, e2]
      refine ⟨sremoveL_WF _ _ _ _ h.wf, ?_, fun e he => h.valid e (List.mem_filter.mp he).1⟩
      refine (sremoveL_abs _ _ _ h.wf).trans ?_
      have := (h.perm.filter (fun e => !hit (split f) none e))
      rw [absS_filter_none] at this
      exact this
  | subs t q => rw [modelStep_subs]; exact h
  | retain t q p => rw [modelStep_retain]; exact h
  | retained f => rw [modelStep_retained]; exact h

theorem run_inv_aux (ops : List Op) :
    ∀ (mt : MemTopics) (s : S), (∀ op ∈ ops, good (opTopic op) = true) → Inv mt.sroot s.subs →
      Inv (ops.foldl (fun mt op => (modelStep mt op).1) mt).sroot
          (ops.foldl (fun s op => (step s op).1) s).subs := by
  induction ops with
  | nil => intro mt s _ h; exact h
  | cons op ops ih =>
    intro mt s hg h
    simp only [List.foldl_cons]
    apply ih _ _ (fun o ho => hg o (by simp [ho]))
    rw [step_subs]
    exact step_inv mt s.subs op (hg op (by simp)) h

/-- after any history of good operations the trie refines the abstract store -/
theorem run_inv (ops : List Op) (hg : ∀ op ∈ ops, good (opTopic op) = true) :
    Inv (mrun ops).sroot (srun ops).subs := by
  apply run_inv_aux ops _ _ hg
  exact ⟨WF_empty, by simp [MemTopics.new, abs_empty, absS, Mqtt.Spec.TopicStore.empty],
    by simp [Mqtt.Spec.TopicStore.empty]⟩

/-! ### histories that also contain topics beginning with '$' and the empty topic

Operations on a topic beginning with '$' change neither side: the entry points
turn them away (`checkTopic`), the specification ignores them.  The same holds
for the empty topic (no topic name and no filter, MQTT-4.7.3-1; finding B6,
repaired): `checkTopic` turns it away, the specification rejects it as an
invalid filter and never holds it.  So the refinement holds over every history
whose topics have no empty level or are empty (`admitted`); the abstract store
never holds a filter beginning with '$'. -/

/-- what a history may contain: topics without empty level (everything outside
finding B3) and the empty topic -/
def admitted (s : List UInt8) : Bool := noEmptyLevel s || s.isEmpty

theorem admitted_of_noEmptyLevel (s : List UInt8) (h : noEmptyLevel s = true) : admitted s = true := by
  simp [admitted, h]

theorem admitted_nil : admitted [] = true := rfl

theorem admitted_cases (s : List UInt8) (h : admitted s = true) : noEmptyLevel s = true ∨ s = [] := by
  simp only [admitted, Bool.or_eq_true, List.isEmpty_iff] at h
  exact h

theorem good_of (t : List UInt8) (h1 : noEmptyLevel t = true) (h2 : dollar t = false) : good t = true := by
  simp [good, h1, h2]

theorem validFilter_nil : validFilter [] = false := by decide

/-- one operation on a topic the entry points refuse: the trie stays, and so do
the abstract store's subscriptions -/
theorem step_inv_refused (mt : MemTopics) (subs : List Sub) (op : Op) (hc : checkTopic (opTopic op) = true)
    (h : Inv mt.sroot subs) (hnd : ∀ e ∈ subs, dollar e.filter = false) :
    (modelStep mt op).1.sroot = mt.sroot ∧ specSubs subs op = subs := by
  have hno : ∀ e ∈ subs, e.filter ≠ opTopic op := by
    intro e he x
    rw [checkTopic_eq, Bool.or_eq_true, List.isEmpty_iff] at hc
    rcases hc with hc | hc
    · have := h.valid e he
      rw [x, hc] at this
      exact absurd this (by decide)
    · rw [← x, hnd e he] at hc; exact absurd hc (by simp)
  cases op with
  | sub f q sub =>
    simp only [opTopic] at hc hno
    rw [modelStep_sub_sys _ _ _ _ hc]
    refine ⟨rfl, ?_⟩
    simp only [specSubs]
    split
    · rfl
    · split
      · rfl
      · split
        · rfl
        · rename_i hd _ hv
          -- a valid filter not beginning with '$' passes `checkTopic`
          have hd' : dollar f = false := by simpa using hd
          have hv' : validFilter f = true := by simpa using hv
          rw [checkTopic_of_validFilter f hv' hd'] at hc
          exact absurd hc (by simp)
  | unsub f sub =>
    simp only [opTopic] at hc hno
    rw [modelStep_unsub_sys _ _ _ hc]
    refine ⟨rfl, ?_⟩
    simp only [specSubs]
    split
    · rfl
    · rw [List.filter_eq_self]
      intro e he
      simp [hno e he]
  | unsubAll f =>
    simp only [opTopic] at hc hno
    rw [modelStep_unsubAll_sys _ _ hc]
    refine ⟨rfl, ?_⟩
    simp only [specSubs]
    rw [List.filter_eq_self]
    intro e he
    simp [hno e he]
  | subs t q => rw [modelStep_subs]; exact ⟨rfl, rfl⟩
  | retain t q p => rw [modelStep_retain]; exact ⟨rfl, rfl⟩
  | retained f => rw [modelStep_retained]; exact ⟨rfl, rfl⟩

theorem specSubs_no_dollar (subs : List Sub) (op : Op) (hnd : ∀ e ∈ subs, dollar e.filter = false) :
    ∀ e ∈ specSubs subs op, dollar e.filter = false := by
  cases op with
  | sub f q sub =>
    simp only [specSubs]
    split
    · exact hnd
    · split
      · exact hnd
      · split
        · exact hnd
        · rename_i hd _ _
          intro e he
          simp only [List.mem_append, List.mem_filter, List.mem_singleton] at he
          rcases he with he | rfl
          · exact hnd e he.1
          · simpa using hd
  | unsub f sub =>
    simp only [specSubs]
    split
    · exact hnd
    · intro e he; exact hnd e (List.mem_filter.mp he).1
  | unsubAll f => intro e he; exact hnd e (List.mem_filter.mp he).1
  | subs t q => exact hnd
  | retain t q p => exact hnd
  | retained f => exact hnd

theorem step_inv_any (mt : MemTopics) (subs : List Sub) (op : Op) (hg : admitted (opTopic op) = true)
    (h : Inv mt.sroot subs) (hnd : ∀ e ∈ subs, dollar e.filter = false) :
    Inv (modelStep mt op).1.sroot (specSubs subs op) ∧ ∀ e ∈ specSubs subs op, dollar e.filter = false := by
  refine ⟨?_, specSubs_no_dollar subs op hnd⟩
  cases hc : checkTopic (opTopic op) with
  | true =>
    obtain ⟨e1, e2⟩ := step_inv_refused mt subs op hc h hnd
    rw [e1, e2]; exact h
  | false =>
    obtain ⟨hne, hd⟩ := (checkTopic_false_iff _).mp hc
    rcases admitted_cases _ hg with hg | hg
    · exact step_inv mt subs op (good_of _ hg hd) h
    · exact absurd hg hne

theorem run_inv_any_aux (ops : List Op) :
    ∀ (mt : MemTopics) (s : S), (∀ op ∈ ops, admitted (opTopic op) = true) → Inv mt.sroot s.subs →
      (∀ e ∈ s.subs, dollar e.filter = false) →
      Inv (ops.foldl (fun mt op => (modelStep mt op).1) mt).sroot
          (ops.foldl (fun s op => (step s op).1) s).subs ∧
      ∀ e ∈ (ops.foldl (fun s op => (step s op).1) s).subs, dollar e.filter = false := by
  induction ops with
  | nil => intro mt s _ h hnd; exact ⟨h, hnd⟩
  | cons op ops ih =>
    intro mt s hg h hnd
    simp only [List.foldl_cons]
    obtain ⟨h1, h2⟩ := step_inv_any mt s.subs op (hg op (by simp)) h hnd
    apply ih _ _ (fun o ho => hg o (by simp [ho]))
    · rw [step_subs]; exact h1
    · rw [step_subs]; exact h2

/-- after any history of admitted topics (no empty level, or the empty topic) -
operations on topics beginning with '$' included - the trie refines the
abstract store -/
theorem run_inv_any (ops : List Op) (hg : ∀ op ∈ ops, admitted (opTopic op) = true) :
    Inv (mrun ops).sroot (srun ops).subs :=
  (run_inv_any_aux ops _ _ hg
    ⟨WF_empty, by simp [MemTopics.new, abs_empty, absS, Mqtt.Spec.TopicStore.empty],
      by simp [Mqtt.Spec.TopicStore.empty]⟩ (by simp [Mqtt.Spec.TopicStore.empty])).1

/-! ### the query -/

/-- the specification's answer to `subscribers t q` -/
def specAnswer (subs : List Sub) (t : List UInt8) (q : Nat) : List (Nat × Nat) :=
  (subs.filter (fun e => topicMatches e.filter t)).map (fun e => (e.sub, min q e.qos))

theorem sel_absS (subs : List Sub) (t : List UInt8) (q : Nat) :
    sel q (split t) (absS subs) = specAnswer subs t q := by
  unfold sel absS specAnswer
  rw [List.filterMap_map]
  simp only [Function.comp_def, walk_eq_matchLevels, topicMatches]
  induction subs with
  | nil => rfl
  | cons e rest ih =>
    simp only [List.filterMap_cons, List.filter_cons]
    rw [ih]
    cases matchLevels (split e.filter) (split t) <;> simp

theorem subscribers_refines (mt : MemTopics) (subs : List Sub) (t : List UInt8) (q : Nat)
    (h : Inv mt.sroot subs) (hg : good t = true) (hn : validName t = true) (hq : q ≤ 2) :
    ∃ r, mt.subscribers t q = some r ∧ r.Perm (specAnswer subs t q) := by
  obtain ⟨e1, e2⟩ := levels_valid t hg (validName_validFilter t hn)
  have hvq : validQos q = true := by rw [validQos_iff]; simpa using hq
  obtain ⟨r, hr, hp⟩ := smatch_char mt.sroot (split t) q h.wf
  refine ⟨r, ?_, ?_⟩
  · rw [subscribers_of_not_sys _ _ _ (good_checkTopic t hg)]
    simp only [hvq, Bool.not_true, Bool.false_eq_true, ↓reduceIte, SNode.smatch]
    rw [← e1, ← e2] at hr
    exact hr
  · refine hp.trans ?_
    have := h.perm.filterMap (fun e => if walk e.1 (split t) then some (e.2.1, min q e.2.2) else none)
    refine this.trans ?_
    have := sel_absS subs t q
    unfold sel at this
    rw [this]

/-! ### outcomes of subscribe / unsubscribe -/

theorem subscribe_outcome (mt : MemTopics) (f : List UInt8) (q s : Nat) (hg : good f = true) :
    (mt.subscribe 2 f q s).2 = if q ≤ 2 ∧ validFilter f = true then some q else none := by
  rw [subscribe_of_not_sys _ _ _ _ _ (good_checkTopic f hg)]
  simp only [validQos_iff, SNode.sinsert]
  by_cases hq : q ≤ 2
  · have hq' : ¬ q > 2 := by omega
    simp only [hq, decide_true, Bool.not_true, Bool.false_eq_true, ↓reduceIte, hq', true_and]
    cases hv : validFilter f with
    | true => rw [(levels_valid f hg hv).2]
    | false => rw [levels_invalid f hg hv]
  · simp [hq]

theorem unsubscribe_outcome (mt : MemTopics) (subs : List Sub) (f : List UInt8) (s : Nat)
    (h : Inv mt.sroot subs) (hg : good f = true) :
    (mt.unsubscribe f (some s)).2 = subs.any (fun e => e.sub == s && e.filter == f) := by
  rw [unsubscribe_of_not_sys _ _ _ (good_checkTopic f hg)]
  simp only [SNode.sremove]
  cases hv : validFilter f with
  | false =>
    rw [levels_invalid f hg hv, sremoveL_false_snd]
    symm
    rw [List.any_eq_false]
    intro e he
    have : e.filter ≠ f := by intro x; rw [← x, h.valid e he] at hv; exact absurd hv (by simp)
    simp [this]
  | true =>
    obtain ⟨e1, e2⟩ := levels_valid f hg hv
    rw [e1, e2, sremoveL_snd _ _ _ h.wf, h.perm.any_eq]
    unfold absS
    rw [List.any_map]
    congr 1
    funext e
    simp only [Function.comp, hit, subHit]
    by_cases hf : e.filter = f
    · subst hf; simp [Bool.and_comm]
    · have : split e.filter ≠ split f := fun hs => hf (split_inj _ _ hs)
      have hb : (split e.filter == split f) = false := by simpa using this
      have hb2 : (e.filter == f) = false := by simpa using hf
      simp [hb, hb2]

end Mqtt.Proofs.Topics
