/-
C05 helper lemmas: what `Model/Framing` makes of a byte stream on connection `c`
is a list of events *of `c`* — packets, and at most one close, last — and the
bytes left over are a suffix of the stream.
-/
import Mqtt.Proofs.Framing
import Mqtt.Proofs.BrokerIso

set_option linter.unusedSimpArgs false
set_option linter.unusedVariables false

namespace Mqtt.Proofs.Framing

open Mqtt.Model.Framing
open Mqtt.Iface.Broker (Ev Packet)
open Mqtt.Proofs.BrokerIso (onConn)

/-- packets of `c`, then possibly the end of `c`, nothing behind it -/
def StreamShape (c : Nat) (evs : List Ev) : Prop :=
  ∃ ps : List Packet, evs = ps.map (Ev.packet c) ∨ evs = ps.map (Ev.packet c) ++ [Ev.close c]

theorem postEvents_shape (sz c : Nat) : ∀ (fuel : Nat) (avail : Bytes),
    StreamShape c (postEvents sz c fuel avail).1 ∧ ∃ k, (postEvents sz c fuel avail).2 = avail.drop k := by
  intro fuel
  induction fuel with
  | zero => intro avail; exact ⟨⟨[], .inl rfl⟩, 0, rfl⟩
  | succ fuel ih =>
    intro avail
    unfold postEvents
    cases ho : (nextPacket sz avail).outcome with
    | packet d total =>
      simp only
      obtain ⟨⟨ps, hps⟩, k, hk⟩ := ih (avail.drop total)
      refine ⟨⟨toPacket d.msg :: ps, ?_⟩, total + k, ?_⟩
      · rcases hps with h | h
        · exact .inl (by rw [h]; rfl)
        · exact .inr (by rw [h]; rfl)
      · rw [hk, List.drop_drop]
    | needMore => exact ⟨⟨[], .inl rfl⟩, 0, rfl⟩
    | closeThis => exact ⟨⟨[], .inr rfl⟩, avail.length, by simp⟩
    | panicked => exact ⟨⟨[], .inr rfl⟩, avail.length, by simp⟩
    | stuck => exact ⟨⟨[], .inr rfl⟩, avail.length, by simp⟩

theorem shape_onConn {c : Nat} {evs : List Ev} (h : StreamShape c evs) : ∀ e ∈ evs, onConn c e = true := by
  obtain ⟨ps, h | h⟩ := h <;> subst h <;> intro e he
  · simp only [List.mem_map] at he
    obtain ⟨p, _, rfl⟩ := he
    simp [onConn]
  · simp only [List.mem_append, List.mem_map, List.mem_singleton] at he
    rcases he with ⟨p, _, rfl⟩ | rfl <;> simp [onConn]

theorem postEvents_onConn (sz c fuel : Nat) (avail : Bytes) :
    ∀ e ∈ (postEvents sz c fuel avail).1, onConn c e = true :=
  shape_onConn (postEvents_shape sz c fuel avail).1

/-- the model's packet bound is not a restriction: more fuel than bytes changes nothing
(every packet takes at least one byte) -/
theorem postEvents_fuel (sz c : Nat) : ∀ (fuel : Nat) (avail : Bytes), avail.length < fuel →
    postEvents sz c (fuel + 1) avail = postEvents sz c fuel avail := by
  intro fuel
  induction fuel with
  | zero => intro avail h; omega
  | succ fuel ih =>
    intro avail h
    rw [postEvents, postEvents]
    cases ho : (nextPacket sz avail).outcome with
    | packet d total =>
      obtain ⟨h1, h2, _, _⟩ := (nextPacket_spec sz avail).2.2.1 d total ho
      simp only
      rw [ih (avail.drop total) (by rw [List.length_drop]; omega)]
    | needMore => rfl
    | closeThis => rfl
    | panicked => rfl
    | stuck => rfl

/-- only a decoded PUBLISH becomes a `publish` packet, with the fields of its fixed header -/
theorem toPacket_publish {m : Mqtt.Model.Codec.Msg} {p : Mqtt.Iface.Broker.Pub} (h : toPacket m = .publish p) :
    ∃ hd topic payload, m = .publish hd topic payload ∧ p.qos = Mqtt.Model.Codec.pubQoS hd ∧
      p.pktid = (if Mqtt.Model.Codec.pubQoS hd = 0 then 0 else hd.packetID) := by
  cases m with
  | publish hd topic payload =>
    simp only [toPacket, Packet.publish.injEq] at h
    subst h
    exact ⟨hd, topic, payload, rfl, rfl, rfl⟩
  | connect hd c => simp [toPacket] at h
  | connack hd sp rc => simp [toPacket] at h
  | ack hd => simp only [toPacket] at h; (repeat' split at h) <;> cases h
  | subscribe hd ts qs => simp [toPacket] at h
  | suback hd codes => simp [toPacket] at h
  | unsubscribe hd ts => simp [toPacket] at h
  | bare hd => simp only [toPacket] at h; (repeat' split at h) <;> cases h

/-- every PUBLISH the framing hands to the broker model carries a packet identifier when its
QoS needs one ([MQTT-2.3.1-1]): QoS 0, or a non-zero identifier -/
theorem postEvents_publish_ids (sz c : Nat) : ∀ (fuel : Nat) (avail : Bytes) (p : Mqtt.Iface.Broker.Pub),
    Ev.packet c (.publish p) ∈ (postEvents sz c fuel avail).1 → p.qos = 0 ∨ p.pktid ≠ 0 := by
  intro fuel
  induction fuel with
  | zero => intro avail p h; cases h
  | succ fuel ih =>
    intro avail p h
    unfold postEvents at h
    cases ho : (nextPacket sz avail).outcome with
    | packet d total =>
      rw [ho] at h
      simp only [List.mem_cons, Ev.packet.injEq, true_and] at h
      rcases h with h | h
      · obtain ⟨_, _, _, _, hm⟩ := (nextPacket_spec sz avail).2.2.1 d total ho
        obtain ⟨hd, topic, payload, hmsg, hq, hid⟩ := toPacket_publish h.symm
        rw [hmsg] at hm
        simp only [publishIdMissing, Bool.and_eq_false_imp, bne_iff_ne, ne_eq, beq_eq_false_iff_ne,
          Mqtt.Generated.qosAtMostOnce] at hm
        by_cases hq0 : Mqtt.Model.Codec.pubQoS hd = 0
        · exact .inl (hq.trans hq0)
        · right
          rw [hid, if_neg hq0]
          exact hm hq0
      · exact ih _ p h
    | needMore => rw [ho] at h; cases h
    | closeThis => rw [ho] at h; simp at h
    | panicked => rw [ho] at h; simp at h
    | stuck => rw [ho] at h; simp at h

theorem firstEvent_shape (c : Nat) (auth : Auth) (stream : Bytes) (ends : Bool) (e : Ev) (rest : Bytes)
    (h : firstEvent c auth stream ends = some (e, rest)) :
    (∃ f a, e = .first c f a) ∧ ∃ k, rest = stream.drop k := by
  unfold firstEvent at h
  simp only at h
  split at h
  · split at h
    · injection h with h; injection h with h1 h2; subst h1 h2
      exact ⟨⟨_, _, rfl⟩, stream.length, by simp⟩
    · cases h
  · injection h with h; injection h with h1 h2; subst h1 h2
    exact ⟨⟨_, _, rfl⟩, _, rfl⟩
  · injection h with h; injection h with h1 h2; subst h1 h2
    exact ⟨⟨_, _, rfl⟩, _, rfl⟩
  · injection h with h; injection h with h1 h2; subst h1 h2
    exact ⟨⟨_, _, rfl⟩, stream.length, by simp⟩
  · injection h with h; injection h with h1 h2; subst h1 h2
    exact ⟨⟨_, _, rfl⟩, stream.length, by simp⟩

end Mqtt.Proofs.Framing
