/-
C05 helper lemmas: what `Model/Framing` makes of a byte stream on connection `c`
is a list of events *of `c`* — packets, and at most one close, last — and the
bytes left over are a suffix of the stream.
-/
import Mqtt.Proofs.Framing
import Mqtt.Proofs.BrokerIso

set_option linter.unusedSimpArgs false
set_option linter.unusedVariables false

namespace Mqtt.Proofs.Framing

open Mqtt.Model.Framing
open Mqtt.Iface.Broker (Ev Packet)
open Mqtt.Proofs.BrokerIso (onConn)

/-- packets of `c`, then possibly the end of `c`, nothing behind it -/
def StreamShape (c : Nat) (evs : List Ev) : Prop :=
  ∃ ps : List Packet, evs = ps.map (Ev.packet c) ∨ evs = ps.map (Ev.packet c) ++ [Ev.close c]

theorem postEvents_shape (sz c : Nat) : ∀ (fuel : Nat) (avail : Bytes),
    StreamShape c (postEvents sz c fuel avail).1 ∧ ∃ k, (postEvents sz c fuel avail).2 = avail.drop k := by
  intro fuel
  induction fuel with
  | zero => intro avail; exact ⟨⟨[], .inl rfl⟩, 0, rfl⟩
  | succ fuel ih =>
    intro avail
    unfold postEvents
    cases ho : (nextPacket sz avail).outcome with
    | packet d total =>
      simp only
      obtain ⟨⟨ps, hps⟩, k, hk⟩ := ih (avail.drop total)
      refine ⟨⟨toPacket d.msg :: ps, ?_⟩, total + k, ?_⟩
      · rcases hps with h | h
        · exact .inl (by rw [h]; rfl)
        · exact .inr (by rw [h]; rfl)
      · rw [hk, List.drop_drop]
    | needMore => exact ⟨⟨[], .inl rfl⟩, 0, rfl⟩
    | closeThis => exact ⟨⟨[], .inr rfl⟩, avail.length, by simp⟩
    | panicked => exact ⟨⟨[], .inr rfl⟩, avail.length, by simp⟩
    | stuck => exact ⟨⟨[], .inr rfl⟩, avail.length, by simp⟩

theorem shape_onConn {c : Nat} {evs : List Ev} (h : StreamShape c evs) : ∀ e ∈ evs, onConn c e = true := by
  obtain ⟨ps, h | h⟩ := h <;> subst h <;> intro e he
  · simp only [List.mem_map] at he
    obtain ⟨p, _, rfl⟩ := he
    simp [onConn]
  · simp only [List.mem_append, List.mem_map, List.mem_singleton] at he
    rcases he with ⟨p, _, rfl⟩ | rfl <;> simp [onConn]

theorem postEvents_onConn (sz c fuel : Nat) (avail : Bytes) :
    ∀ e ∈ (postEvents sz c fuel avail).1, onConn c e = true :=
  shape_onConn (postEvents_shape sz c fuel avail).1

/-- the model's packet bound is not a restriction: more fuel than bytes changes nothing
(every packet takes at least one byte) -/
theorem postEvents_fuel (sz c : Nat) : ∀ (fuel : Nat) (avail : Bytes), avail.length < fuel →
    postEvents sz c (fuel + 1) avail = postEvents sz c fuel avail := by
  intro fuel
  induction fuel with
  | zero => intro avail h; omega
  | succ fuel ih =>
    intro avail h
    rw [postEvents, postEvents]
    cases ho : (nextPacket sz avail).outcome with
    | packet d total =>
      obtain ⟨h1, h2, _, _⟩ := (nextPacket_spec sz avail).2.2.1 d total ho
      simp only
      rw [ih (avail.drop total) (by rw [List.length_drop]; omega)]
    | needMore => rfl
    | closeThis => rfl
    | panicked => rfl
    | stuck => rfl

theorem firstEvent_shape (c : Nat) (auth : Auth) (stream : Bytes) (ends : Bool) (e : Ev) (rest : Bytes)
    (h : firstEvent c auth stream ends = some (e, rest)) :
    (∃ f a, e = .first c f a) ∧ ∃ k, rest = stream.drop k := by
  unfold firstEvent at h
  simp only at h
  split at h
  · split at h
    · injection h with h; injection h with h1 h2; subst h1 h2
      exact ⟨⟨_, _, rfl⟩, stream.length, by simp⟩
    · cases h
  · injection h with h; injection h with h1 h2; subst h1 h2
    exact ⟨⟨_, _, rfl⟩, _, rfl⟩
  · injection h with h; injection h with h1 h2; subst h1 h2
    exact ⟨⟨_, _, rfl⟩, _, rfl⟩
  · injection h with h; injection h with h1 h2; subst h1 h2
    exact ⟨⟨_, _, rfl⟩, stream.length, by simp⟩
  · injection h with h; injection h with h1 h2; subst h1 h2
    exact ⟨⟨_, _, rfl⟩, stream.length, by simp⟩

end Mqtt.Proofs.Framing
