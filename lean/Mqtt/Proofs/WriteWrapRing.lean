/-
C17, wrap path — facts about the ring as a list of cells: `ringPut` (= the translated
`service.ringCopy`: `ringPut_is_source` in `Proofs/WriteWrapRingSource.lean`), `encodeAt`, `readRing`,
and the index arithmetic behind "a reservation inside `[pseq, cseq + size)` meets no cell of
`[cseq, pseq)`".  Model side only: not built from the regenerated translation.
-/
import Mqtt.Model.WriteWrap
import Mqtt.Proofs.RingCopied

namespace Mqtt.Proofs.WriteWrap
open Mqtt.Model.WriteWrap

/-! ## `ringPut` is `copied` (which the translated `ringCopy` returns: `WriteWrapRingSource`) -/

theorem ringPut_eq_copied (dst src : List UInt8) (s : Nat) :
    ringPut dst src s = Mqtt.Proofs.XlateRingCopy.copied dst src s := rfl

theorem ringPut_spec (size : Nat) (hsz : 0 < size) (ring src : List UInt8) (pos : Nat)
    (hlen : ring.length = size) (hS : src.length ≤ size) :
    (ringPut ring src (pos % size)).length = size ∧
    (∀ j : Nat, j < src.length → (ringPut ring src (pos % size))[(pos + j) % size]? = src[j]?) ∧
    (∀ p : Nat, (∀ j : Nat, j < src.length → p ≠ (pos + j) % size) →
      (ringPut ring src (pos % size))[p]? = ring[p]?) := by
  have hlt : pos % size < size := Nat.mod_lt _ hsz
  obtain ⟨hl, hw, hu⟩ := Mqtt.Proofs.XlateRingCopy.copied_spec ring src (pos % size) (by omega) (by omega)
  rw [ringPut_eq_copied]
  have hmod : ∀ j : Nat, (pos % size + j) % ring.length = (pos + j) % size := by
    intro j; rw [hlen, Nat.mod_add_mod]
  refine ⟨by omega, ?_, ?_⟩
  · intro j hj; rw [← hmod j]; exact hw j hj
  · intro p hp; apply hu; intro j hj; rw [hmod j]; exact hp j hj

/-- `Encode` into a slice that does not reach the end of the ring is the same copy -/
theorem encodeAt_eq_ringPut (ring m : List UInt8) (p : Nat) (h : p + m.length ≤ ring.length) :
    encodeAt ring p m = ringPut ring m p := by
  unfold encodeAt ringPut
  rw [if_pos (by omega)]

/-! ## index arithmetic -/

/-- two stream positions less than `size` apart lie in different cells -/
theorem mod_ne_of_lt {size x y : Nat} (hxy : x < y) (hd : y < x + size) : x % size ≠ y % size := by
  intro h
  have h0 : (y - x) % size = 0 := Nat.sub_mod_eq_zero_of_mod_eq h.symm
  rw [Nat.mod_eq_of_lt (by omega)] at h0
  omega

/-! ## `readRing` -/

theorem readRing_length (ring : List UInt8) (size pos n : Nat) : (readRing ring size pos n).length = n := by
  simp [readRing]

theorem readRing_zero (ring : List UInt8) (size pos : Nat) : readRing ring size pos 0 = [] := rfl

theorem readRing_add (ring : List UInt8) (size pos a b : Nat) :
    readRing ring size pos (a + b) = readRing ring size pos a ++ readRing ring size (pos + a) b := by
  simp only [readRing, List.range_add, List.map_append, List.map_map]
  congr 1
  apply List.map_congr_left
  intro i _
  simp only [Function.comp, Nat.add_assoc]

theorem readRing_getElem? (ring : List UInt8) (size pos n i : Nat) (hi : i < n) :
    (readRing ring size pos n)[i]? = some (ring.getD ((pos + i) % size) 0) := by
  simp [readRing, List.getElem?_map, List.getElem?_range hi]

/-- reading depends only on the cells read -/
theorem readRing_congr (r1 r2 : List UInt8) (size pos n : Nat)
    (h : ∀ i, i < n → r1[(pos + i) % size]? = r2[(pos + i) % size]?) :
    readRing r1 size pos n = readRing r2 size pos n := by
  simp only [readRing]
  apply List.map_congr_left
  intro i hi
  rw [List.getD_eq_getElem?_getD, List.getD_eq_getElem?_getD, h i (List.mem_range.mp hi)]

/-- the bytes just copied in are read back -/
theorem readRing_ringPut_same (size : Nat) (hsz : 0 < size) (ring m : List UInt8) (pos : Nat)
    (hlen : ring.length = size) (hS : m.length ≤ size) :
    readRing (ringPut ring m (pos % size)) size pos m.length = m := by
  obtain ⟨_, hw, _⟩ := ringPut_spec size hsz ring m pos hlen hS
  apply List.ext_getElem?
  intro i
  by_cases hi : i < m.length
  · rw [readRing_getElem? _ _ _ _ _ hi, List.getD_eq_getElem?_getD, hw i hi,
      List.getElem?_eq_getElem hi]
    rfl
  · rw [List.getElem?_eq_none (by rw [readRing_length]; omega), List.getElem?_eq_none (by omega)]

/-- a copy of `m` to the positions `[q, q + |m|)` leaves a window `[pos, pos + n)` alone when
`pos + n ≤ q` and `q + |m| ≤ pos + size` -/
theorem readRing_ringPut_other (size : Nat) (hsz : 0 < size) (ring m : List UInt8) (q pos n : Nat)
    (hlen : ring.length = size) (hS : m.length ≤ size) (h1 : pos + n ≤ q) (h2 : q + m.length ≤ pos + size) :
    readRing (ringPut ring m (q % size)) size pos n = readRing ring size pos n := by
  obtain ⟨_, _, hu⟩ := ringPut_spec size hsz ring m q hlen hS
  apply readRing_congr
  intro i hi
  apply hu
  intro j hj
  exact mod_ne_of_lt (by omega) (by omega)

end Mqtt.Proofs.WriteWrap
