/-
The will stored in a session object stays what the CONNECT put there until an
event that is entitled to change it: a CONNECT resuming that object, or the
DISCONNECT / end of a connection served by it.  Helper lemmas for C09 (the will
published at the end is the one of the connection's own CONNECT, over any
history in between).
-/
import Mqtt.Proofs.BrokerLifeWill
import Mqtt.Proofs.BrokerLifeSession

namespace Mqtt.Proofs.BrokerLife
open Mqtt.Iface.Broker Mqtt.Model.Broker
open Mqtt.Model.Topics (MemTopics)

/-- session reference of connection `c`, if `c` is in the table -/
def sessRefOf (b : B) (c : Nat) : Option Nat := (b.getConn c).map (·.sess)

/-- `first` (the handshake after the take-over) replaces the will of session object `r`: an
accepted CONNECT that resumes `r` -/
def resumesRef (b : B) (r c : Nat) : First → Bool → Prop
  | .connect req, a => accepts (.connect req) a = true ∧ (resumed b c req).map (·.ref) = some r
  | _, _ => False

/-- the connections a first packet takes over (MQTT-3.1.4-2): the live connections of the client
whose identifier an acceptable CONNECT supplies -/
def takenOver (b : B) : First → Bool → List Nat
  | .connect req, a => if accepts (.connect req) a && !req.clientId.isEmpty then sameClient b req.clientId else []
  | _, _ => []

theorem takeOver_eq (b : B) (f : First) (a : Bool) : takeOver b f a = stopAll b (takenOver b f a) := by
  cases f with
  | garbage => rfl
  | other t => rfl
  | connect req =>
    cases hacc : accepts (.connect req) a with
    | false => rw [takeOver_refused b _ a hacc]; simp [takenOver, hacc, stopAll]
    | true =>
      rw [takeOver_accepted b req a hacc]
      cases he : req.clientId.isEmpty <;> simp [takenOver, hacc, he, stopAll]

/-- events that may change the will / will flag of session object `r`: the end of a connection
bound to it - by itself, or because a CONNECT with its client identifier takes it over - and a
CONNECT that resumes it -/
def affectsWill (b : B) (r : Nat) : Ev → Prop
  | .close c => sessRefOf b c = some r
  | .packet c .disconnect => sessRefOf b c = some r
  | .first c f a => (∃ c' ∈ takenOver b f a, sessRefOf b c' = some r) ∨ resumesRef (takeOver b f a).1 r c f a
  | _ => False

instance (b : B) (r c : Nat) (f : First) (a : Bool) : Decidable (resumesRef b r c f a) := by
  cases f <;> simp only [resumesRef] <;> infer_instance

instance (b : B) (r : Nat) (e : Ev) : Decidable (affectsWill b r e) := by
  cases e with
  | packet c p => cases p <;> simp only [affectsWill] <;> infer_instance
  | first c f a => simp only [affectsWill]; infer_instance
  | close c => simp only [affectsWill]; infer_instance
  | srvPub p => simp only [affectsWill]; infer_instance
  | srvSub cb f q => simp only [affectsWill]; infer_instance
  | srvUnsub cb f => simp only [affectsWill]; infer_instance

/-- same will message and will flag -/
def sameWill (s s' : Sess) : Prop := s'.will = s.will ∧ s'.willFlag = s.willFlag

theorem setSess_will_kept (b : B) (s1 s1' : Sess) (r : Nat) (s : Sess) (hs : b.getSess r = some s)
    (h1 : b.getSess s1'.ref = some s1) (hw : sameWill s1 s1') :
    ∃ s', (b.setSess s1').getSess r = some s' ∧ sameWill s s' := by
  by_cases he : r = s1'.ref
  · subst he
    rw [hs] at h1; cases h1
    exact ⟨s1', getSess_setSess b s1', hw⟩
  · exact ⟨s, (getSess_setSess_ne b s1' r he).trans hs, rfl, rfl⟩

theorem stop_getSess_ne (b : B) (c r : Nat) (h : ∀ cn, b.getConn c = some cn → cn.sess ≠ r) :
    (stop b c).1.getSess r = b.getSess r := by
  cases hal : b.alive c with
  | false => rw [stop_dead b c hal]
  | true =>
    obtain ⟨cn, hc, ha⟩ := (alive_true_iff b c).mp hal
    have hne := h cn hc
    cases hs : b.getSess cn.sess with
    | none => rw [stop_live_nosess b c cn hc ha hs]; rfl
    | some s =>
      have hr : s.ref = cn.sess := getSess_ref hs
      rw [stop_live b c cn s hc ha hs]
      split
      · split
        · rfl
        · rename_i w hw
          have hf := onPublish_frame (stopBase b c s) w
          have hne' : r ≠ ({ s with will := some (onPublish (stopBase b c s) w).2.1 } : Sess).ref :=
            fun e => hne (hr.symm.trans e.symm)
          dsimp only
          split
          · show B.getSess (B.setSess _ _) r = _
            rw [getSess_setSess_ne _ _ r hne', hf.getSess]; rfl
          · show B.getSess (B.setSess _ _) r = _
            rw [getSess_setSess_ne _ _ r hne', hf.getSess]; rfl
      · dsimp only
        split <;> rfl

theorem packet_will_kept (b : B) (c : Nat) (p : Packet) (r : Nat) (s : Sess) (hs : b.getSess r = some s)
    (h : p = .disconnect → sessRefOf b c ≠ some r) :
    ∃ s', (packet b c p).1.getSess r = some s' ∧ sameWill s s' := by
  cases hal : b.alive c with
  | false => rw [packet_dead b c p hal]; exact ⟨s, hs, rfl, rfl⟩
  | true =>
    obtain ⟨cn, hc, ha⟩ := (alive_true_iff b c).mp hal
    cases hs1 : b.getSess cn.sess with
    | none =>
      unfold packet
      simp only [hc, ha, hs1, Bool.not_true, Bool.false_eq_true, ↓reduceIte]
      exact ⟨s, hs, rfl, rfl⟩
    | some s1 =>
      have hr1 : s1.ref = cn.sess := getSess_ref hs1
      have hs1' : b.getSess s1.ref = some s1 := hr1 ▸ hs1
      cases p with
      | disconnect =>
        have hne : cn.sess ≠ r := by
          intro e
          exact h rfl (by unfold sessRefOf; rw [hc, ← e]; rfl)
        rw [packet_disconnect_eq b c cn s1 hc ha hs1]
        rw [stop_getSess_ne _ c r (fun cn' hcn' => by
          have : cn' = cn := by
            have : (b.setSess { s1 with willFlag := false }).getConn c = b.getConn c := rfl
            rw [this, hc] at hcn'; cases hcn'; rfl
          rw [this]; exact hne)]
        have hne' : r ≠ ({ s1 with willFlag := false } : Sess).ref := fun e => hne (hr1.symm.trans e.symm)
        exact ⟨s, (getSess_setSess_ne b _ r hne').trans hs, rfl, rfl⟩
      | publish pub =>
        unfold packet
        simp only [hc, ha, hs1, Bool.not_true, Bool.false_eq_true, ↓reduceIte]
        split
        · exact setSess_will_kept b s1 { s1 with pub2in := q2Wait s1.pub2in pub } r s hs hs1' ⟨rfl, rfl⟩
        · split
          · exact ⟨s, ((onPublish_frame _ _).getSess r).trans hs, rfl, rfl⟩
          · exact ⟨s, ((onPublish_frame _ _).getSess r).trans hs, rfl, rfl⟩
      | pubrel id =>
        unfold packet
        simp only [hc, ha, hs1, Bool.not_true, Bool.false_eq_true, ↓reduceIte]
        obtain ⟨s', h1, h2⟩ := setSess_will_kept b s1 { s1 with pub2in := (q2Acked (q2Ack s1.pub2in id)).1 } r s hs
          hs1' ⟨rfl, rfl⟩
        exact ⟨s', ((releaseAll_frame _ _).getSess r).trans h1, h2⟩
      | subscribe id topics =>
        unfold packet
        simp only [hc, ha, hs1, Bool.not_true, Bool.false_eq_true, ↓reduceIte]
        have hl := subscribeLoop_frame c topics b s1 [] []
        have hsb : (subscribeLoop b c s1 topics [] []).1.getSess r = some s := (hl.1.getSess r).trans hs
        have hsb1 : (subscribeLoop b c s1 topics [] []).1.getSess (subscribeLoop b c s1 topics [] []).2.1.ref = some s1 := by
          rw [hl.2.1]; exact (hl.1.getSess _).trans hs1'
        obtain ⟨s', h1, h2⟩ := setSess_will_kept _ s1 (subscribeLoop b c s1 topics [] []).2.1 r s hsb hsb1
          ⟨hl.2.2.2.2.2, hl.2.2.2.2.1⟩
        exact ⟨s', ((sendRetained_frame _ _ _).getSess r).trans h1, h2⟩
      | unsubscribe id topics =>
        unfold packet
        simp only [hc, ha, hs1, Bool.not_true, Bool.false_eq_true, ↓reduceIte]
        exact setSess_will_kept { b with topics := topics.foldl (fun ts t => (ts.unsubscribe t (some c)).1) b.topics }
          s1 { s1 with topics := s1.topics.filter (fun p => !topics.contains p.1) } r s (by exact hs) (by exact hs1')
          ⟨rfl, rfl⟩
      | connack sp code => unfold packet; simp only [hc, ha, hs1]; exact ⟨s, hs, rfl, rfl⟩
      | puback id => unfold packet; simp only [hc, ha, hs1]; exact ⟨s, hs, rfl, rfl⟩
      | pubrec id => unfold packet; simp only [hc, ha, hs1]; exact ⟨s, hs, rfl, rfl⟩
      | pubcomp id => unfold packet; simp only [hc, ha, hs1]; exact ⟨s, hs, rfl, rfl⟩
      | suback id codes => unfold packet; simp only [hc, ha, hs1]; exact ⟨s, hs, rfl, rfl⟩
      | unsuback id => unfold packet; simp only [hc, ha, hs1]; exact ⟨s, hs, rfl, rfl⟩
      | pingreq => unfold packet; simp only [hc, ha, hs1]; exact ⟨s, hs, rfl, rfl⟩
      | pingresp => unfold packet; simp only [hc, ha, hs1]; exact ⟨s, hs, rfl, rfl⟩
      | connectAgain => unfold packet; simp only [hc, ha, hs1]; exact ⟨s, hs, rfl, rfl⟩

theorem first_will_kept {b : B} (hi : Inv b) (c : Nat) (f : First) (a : Bool) (r : Nat) (s : Sess)
    (hs : b.getSess r = some s) (h : ¬ resumesRef b r c f a) :
    (first b c f a).1.getSess r = some s := by
  cases hacc : accepts f a with
  | false =>
    rcases first_refused b c f a hacc with h1 | ⟨k, _, h1⟩ <;> rw [h1] <;> exact hs
  | true =>
    cases f with
    | garbage => simp [accepts] at hacc
    | other t => simp [accepts] at hacc
    | connect req =>
      rw [first_accepted b c req a hacc]
      cases hres : resumed b c req with
      | some s0 =>
        rw [(accepted_resumed b c req s0 hres).1]
        have hne : r ≠ (updSess s0 req).ref := by
          intro e
          apply h
          exact ⟨hacc, by rw [hres]; simp [e]; rfl⟩
        exact (getSess_setSess_ne b (updSess s0 req) r hne).trans hs
      | none =>
        rw [(accepted_fresh b c req hres).1]
        have hne : r ≠ (newSess b c req).ref := by
          intro e
          rw [e] at hs
          have := hi.fresh b.nextRef (Nat.le_refl _)
          rw [show (newSess b c req).ref = b.nextRef from rfl] at hs
          rw [this] at hs; cases hs
        exact (getSess_setSess_ne { b with nextRef := b.nextRef + 1 } (newSess b c req) r hne).trans hs

/-- `stop` leaves the session reference of every table entry as it is -/
theorem stop_sessRefOf (b : B) (c d : Nat) : sessRefOf (stop b c).1 d = sessRefOf b d := by
  cases hal : b.alive c with
  | false => rw [stop_dead b c hal]
  | true =>
    unfold sessRefOf B.getConn
    rw [(stop_conns b c hal).1]
    simp only [markDead, find_markDead]
    cases b.conns.find? (fun x => x.id == d) with
    | none => rfl
    | some cn => simp only [Option.map_some]; split <;> rfl

theorem stopAll_getSess_ne (r : Nat) : ∀ (cs : List Nat) (b : B),
    (∀ c ∈ cs, ∀ cn, b.getConn c = some cn → cn.sess ≠ r) → (stopAll b cs).1.getSess r = b.getSess r := by
  intro cs
  induction cs with
  | nil => intro b _; rfl
  | cons c cs ih =>
    intro b h
    rw [Mqtt.Proofs.Connect.stopAll_cons]
    show (stopAll (stop b c).1 cs).1.getSess r = _
    rw [ih, stop_getSess_ne b c r (h c (List.mem_cons_self ..))]
    intro c' hc' cn hcn e
    have h1 : sessRefOf (stop b c).1 c' = some r := by unfold sessRefOf; rw [hcn, ← e]; rfl
    rw [stop_sessRefOf] at h1
    unfold sessRefOf at h1
    cases hg : b.getConn c' with
    | none => rw [hg] at h1; cases h1
    | some cn' =>
      rw [hg] at h1
      simp only [Option.map_some, Option.some.injEq] at h1
      exact h c' (List.mem_cons_of_mem _ hc') cn' hg h1

/-- One step keeps the will and will flag of session object `r`, unless the
event is entitled to change them. -/
theorem step_will_kept {b : B} (hi : Inv b) (e : Ev) (r : Nat) (s : Sess) (hs : b.getSess r = some s)
    (h : ¬ affectsWill b r e) :
    ∃ s', (step b e).1.getSess r = some s' ∧ sameWill s s' := by
  cases e with
  | first c f a =>
    have h1 : ¬ ∃ c' ∈ takenOver b f a, sessRefOf b c' = some r := fun h1 => h (.inl h1)
    have h2 : ¬ resumesRef (takeOver b f a).1 r c f a := fun h2 => h (.inr h2)
    have hi0 : Inv (takeOver b f a).1 :=
      Mqtt.Proofs.Connect.takeOver_state Inv (fun b c h => inv_stop h c) b f a hi
    have hs0 : (takeOver b f a).1.getSess r = some s := by
      rw [takeOver_eq, stopAll_getSess_ne]
      · exact hs
      · intro c' hc' cn hcn e
        exact h1 ⟨c', hc', by unfold sessRefOf; rw [hcn, ← e]; rfl⟩
    rw [Mqtt.Proofs.Connect.step_first_eq, Mqtt.Proofs.Connect.connect_eq]
    exact ⟨s, first_will_kept hi0 c f a r s hs0 h2, rfl, rfl⟩
  | packet c p =>
    refine packet_will_kept b c p r s hs ?_
    intro hp; subst hp; exact h
  | close c =>
    refine ⟨s, ?_, rfl, rfl⟩
    show (stop b c).1.getSess r = some s
    rw [stop_getSess_ne b c r]
    · exact hs
    · intro cn hcn e
      apply h
      show sessRefOf b c = some r
      unfold sessRefOf; rw [hcn, ← e]; rfl
  | srvPub p =>
    refine ⟨s, ?_, rfl, rfl⟩
    show (srvPub b p).1.getSess r = some s
    unfold srvPub
    exact ((onPublish_frame _ _).getSess r).trans hs
  | srvSub cb f q =>
    refine ⟨s, ?_, rfl, rfl⟩
    show (srvSub b cb f q).1.getSess r = some s
    unfold srvSub
    split <;> exact hs
  | srvUnsub cb f => exact ⟨s, hs, rfl, rfl⟩

/-! ### the connection stays live -/

/-- events that end connection `c` or replace its table entry -/
def endsConn (b : B) (c : Nat) : Ev → Prop
  | .close c' => c' = c
  | .packet c' .disconnect => c' = c
  | .first c' f a => c' = c ∨ c ∈ takenOver b f a
  | _ => False

instance (b : B) (c : Nat) (e : Ev) : Decidable (endsConn b c e) := by
  cases e with
  | packet c' p => cases p <;> simp only [endsConn] <;> infer_instance
  | first c' f a => simp only [endsConn]; infer_instance
  | close c' => simp only [endsConn]; infer_instance
  | srvPub p => simp only [endsConn]; infer_instance
  | srvSub cb f q => simp only [endsConn]; infer_instance
  | srvUnsub cb f => simp only [endsConn]; infer_instance

theorem getConn_markDead_ne (b : B) (c d : Nat) (h : d ≠ c) : (markDead b c).getConn d = b.getConn d := by
  unfold B.getConn markDead
  simp only [find_markDead]
  cases hf : b.conns.find? (fun x => x.id == d) with
  | none => rfl
  | some cn =>
    have : cn.id = d := by simpa using List.find?_some hf
    have hne : ¬ d = c := h
    simp [this, hne]

theorem packet_getConn (b : B) (c : Nat) (p : Packet) (d : Nat) (h : p = .disconnect → c ≠ d) :
    (packet b c p).1.getConn d = b.getConn d := by
  cases hal : b.alive c with
  | false => rw [packet_dead b c p hal]
  | true =>
    obtain ⟨cn, hc, ha⟩ := (alive_true_iff b c).mp hal
    cases hs1 : b.getSess cn.sess with
    | none =>
      unfold packet
      simp only [hc, ha, hs1, Bool.not_true, Bool.false_eq_true, ↓reduceIte]
    | some s1 =>
      cases p with
      | disconnect =>
        rw [packet_disconnect_eq b c cn s1 hc ha hs1]
        have hne : d ≠ c := fun e => h rfl e.symm
        have hal' : (b.setSess { s1 with willFlag := false }).alive c = true := hal
        have h1 : (stop (b.setSess { s1 with willFlag := false }) c).1.getConn d =
            (markDead (b.setSess { s1 with willFlag := false }) c).getConn d := by
          unfold B.getConn
          rw [(stop_conns _ c hal').1]
        rw [h1, getConn_markDead_ne _ c d hne]
        rfl
      | publish pub =>
        unfold packet
        simp only [hc, ha, hs1, Bool.not_true, Bool.false_eq_true, ↓reduceIte]
        split
        · rfl
        · split
          · exact (onPublish_frame _ _).getConn d
          · exact (onPublish_frame _ _).getConn d
      | pubrel id =>
        unfold packet
        simp only [hc, ha, hs1, Bool.not_true, Bool.false_eq_true, ↓reduceIte]
        exact (releaseAll_frame _ _).getConn d
      | subscribe id topics =>
        unfold packet
        simp only [hc, ha, hs1, Bool.not_true, Bool.false_eq_true, ↓reduceIte]
        have hl := subscribeLoop_frame c topics b s1 [] []
        exact ((sendRetained_frame _ _ _).getConn d).trans (hl.1.getConn d)
      | unsubscribe id topics =>
        unfold packet
        simp only [hc, ha, hs1, Bool.not_true, Bool.false_eq_true, ↓reduceIte]
        rfl
      | connack sp code => unfold packet; simp only [hc, ha, hs1]; rfl
      | puback id => unfold packet; simp only [hc, ha, hs1]; rfl
      | pubrec id => unfold packet; simp only [hc, ha, hs1]; rfl
      | pubcomp id => unfold packet; simp only [hc, ha, hs1]; rfl
      | suback id codes => unfold packet; simp only [hc, ha, hs1]; rfl
      | unsuback id => unfold packet; simp only [hc, ha, hs1]; rfl
      | pingreq => unfold packet; simp only [hc, ha, hs1]; rfl
      | pingresp => unfold packet; simp only [hc, ha, hs1]; rfl
      | connectAgain => unfold packet; simp only [hc, ha, hs1]; rfl

theorem stop_getConn_ne (b : B) (c' c : Nat) (hne : c ≠ c') : (stop b c').1.getConn c = b.getConn c := by
  cases hal : b.alive c' with
  | false => rw [stop_dead b c' hal]
  | true =>
    have h1 : (stop b c').1.getConn c = (markDead b c').getConn c := by
      unfold B.getConn
      rw [(stop_conns b c' hal).1]
    rw [h1, getConn_markDead_ne b c' c hne]

theorem stopAll_getConn_ne (c : Nat) : ∀ (cs : List Nat) (b : B), c ∉ cs → (stopAll b cs).1.getConn c = b.getConn c := by
  intro cs
  induction cs with
  | nil => intro b _; rfl
  | cons c' cs ih =>
    intro b h
    rw [Mqtt.Proofs.Connect.stopAll_cons]
    show (stopAll (stop b c').1 cs).1.getConn c = _
    rw [ih _ (fun hm => h (List.mem_cons_of_mem _ hm)), stop_getConn_ne b c' c (fun e => h (by simp [e]))]

theorem step_conn_kept (b : B) (e : Ev) (c : Nat) (h : ¬ endsConn b c e) :
    (step b e).1.getConn c = b.getConn c := by
  cases e with
  | first c' f a =>
    have hne : c ≠ c' := fun e => h (.inl e.symm)
    have hto : (takeOver b f a).1.getConn c = b.getConn c := by
      rw [takeOver_eq]; exact stopAll_getConn_ne c _ b (fun hm => h (.inr hm))
    rw [Mqtt.Proofs.Connect.step_first_eq, Mqtt.Proofs.Connect.connect_eq, ← hto]
    generalize (takeOver b f a).1 = b
    show (first b c' f a).1.getConn c = b.getConn c
    cases hacc : accepts f a with
    | false =>
      rcases first_refused b c' f a hacc with h1 | ⟨k, _, h1⟩ <;> rw [h1]
    | true =>
      cases f with
      | garbage => simp [accepts] at hacc
      | other t => simp [accepts] at hacc
      | connect req => rw [first_accepted b c' req a hacc]; exact accepted_getConn_ne b c' c req hne
  | packet c' p =>
    refine packet_getConn b c' p c ?_
    intro hp; subst hp; exact h
  | close c' => exact stop_getConn_ne b c' c (fun e => h e.symm)
  | srvPub p =>
    show (srvPub b p).1.getConn c = b.getConn c
    unfold srvPub
    exact (onPublish_frame _ _).getConn c
  | srvSub cb f q =>
    show (srvSub b cb f q).1.getConn c = b.getConn c
    unfold srvSub
    split <;> rfl
  | srvUnsub cb f => rfl

/-- along `evs` from `b`, no event is entitled to change the will of session
object `r`, and none ends connection `c` or replaces its table entry -/
def quiet (r c : Nat) : B → List Ev → Prop
  | _, [] => True
  | b, e :: es => ¬ affectsWill b r e ∧ ¬ endsConn b c e ∧ quiet r c (step b e).1 es

theorem run_will_kept (evs : List Ev) : ∀ {b : B}, Inv b → ∀ (r c : Nat) (cn : Conn) (s : Sess),
    b.getConn c = some cn → b.getSess r = some s → quiet r c b evs →
    (run b evs).1.getConn c = some cn ∧ ∃ s', (run b evs).1.getSess r = some s' ∧ sameWill s s' := by
  induction evs with
  | nil => intro b _ r c cn s hc hs _; exact ⟨hc, s, hs, rfl, rfl⟩
  | cons e es ih =>
    intro b hi r c cn s hc hs hq
    obtain ⟨h1, h2, h3⟩ := hq
    obtain ⟨s1, hs1, hw1⟩ := step_will_kept hi e r s hs h1
    have hc1 : (step b e).1.getConn c = some cn := (step_conn_kept b e c h2).trans hc
    obtain ⟨hc2, s2, hs2, hw2⟩ := ih (inv_step hi e) r c cn s1 hc1 hs1 h3
    simp only [run]
    exact ⟨hc2, s2, hs2, hw2.1.trans hw1.1, hw2.2.trans hw1.2⟩

end Mqtt.Proofs.BrokerLife
