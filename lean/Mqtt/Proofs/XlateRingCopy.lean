/-
Specification of the translated `service.ringCopy` (`service/buffer.go:644`):
`Service.ringCopy fuel dst src start` copies `src` into the ring `dst` beginning at
`start` and wrapping around at the end of `dst`.
-/
import Mqtt.Proofs.RingCopied
import Mqtt.Generated.Xlate
import Mqtt.Model.Ring

namespace Mqtt.Proofs.XlateRingCopy
open Mqtt.Generated.Xlate

/-! ### one turn of the loop -/

theorem loop1_done (f : Nat) (dst src : List UInt8) (start n : Int) (i l : Nat) (hn : n ≤ 0) :
    Service.ringCopy.loop1 (f + 1) dst src start n i l = Res.ok (dst, i) := by
  rw [Service.ringCopy.loop1]
  have : ¬ n > 0 := by omega
  simp [this]

theorem loop1_step (f : Nat) (dst src : List UInt8) (s : Nat) (n : Int) (i l : Nat)
    (hn : 0 < n) (hi : i ≤ src.length) (hs : s ≤ dst.length) :
    Service.ringCopy.loop1 (f + 1) dst src (s : Int) n i l =
      Service.ringCopy.loop1 f
        (dst.take s ++ ((src.drop i).take (dst.length - s) ++ dst.drop (s + (src.length - i))))
        src
        (if n - ((min (dst.length - s) (src.length - i) : Nat) : Int) > 0 then 0 else (s : Int))
        (n - ((min (dst.length - s) (src.length - i) : Nat) : Int))
        (i + min (dst.length - s) (src.length - i))
        (min (dst.length - s) (src.length - i)) := by
  rw [Service.ringCopy.loop1]
  simp [hn, hi, hs]

theorem loop1_step0 (f : Nat) (dst src : List UInt8) (n : Int) (i l : Nat)
    (hn : 0 < n) (hi : i ≤ src.length) :
    Service.ringCopy.loop1 (f + 1) dst src 0 n i l =
      Service.ringCopy.loop1 f
        ((src.drop i).take dst.length ++ dst.drop (src.length - i))
        src
        (if n - ((min dst.length (src.length - i) : Nat) : Int) > 0 then 0 else 0)
        (n - ((min dst.length (src.length - i) : Nat) : Int))
        (i + min dst.length (src.length - i))
        (min dst.length (src.length - i)) := by
  have := loop1_step f dst src 0 n i l hn hi (by omega)
  simpa using this

theorem ringCopy_eq (fuel : Nat) (hf : 3 ≤ fuel) (dst src : List UInt8) (s : Nat)
    (hD : 0 < dst.length) (hS : src.length ≤ dst.length) (hs : s ≤ dst.length) :
    Service.ringCopy fuel dst src (s : Int) = Res.ok (copied dst src s, src.length) := by
  obtain ⟨f, rfl⟩ : ∃ f, fuel = f + 3 := ⟨fuel - 3, by omega⟩
  unfold Service.ringCopy
  simp only []
  by_cases h0 : src.length = 0
  · rw [loop1_done _ _ _ _ _ _ _ (by omega)]
    have : src = [] := List.eq_nil_of_length_eq_zero h0
    subst this
    simp [copied]
  · rw [loop1_step _ _ _ _ _ _ _ (by omega) (by omega) hs]
    by_cases hc : src.length ≤ dst.length - s
    · have hmin : min (dst.length - s) (src.length - 0) = src.length := by omega
      rw [hmin, loop1_done _ _ _ _ _ _ _ (by omega)]
      simp [copied, hc, List.take_of_length_le hc]
    · have hmin : min (dst.length - s) (src.length - 0) = dst.length - s := by omega
      rw [hmin]
      have hpos : (src.length : Int) - ((dst.length - s : Nat) : Int) > 0 := by omega
      rw [if_pos hpos]
      have hl : (List.take s dst ++ (List.take (dst.length - s) (List.drop 0 src) ++
          List.drop (s + (src.length - 0)) dst)).length = dst.length := by
        simp; omega
      generalize hd1 : (List.take s dst ++ (List.take (dst.length - s) (List.drop 0 src) ++
          List.drop (s + (src.length - 0)) dst)) = dst1 at hl
      rw [loop1_step0 _ _ _ _ _ _ hpos (by omega)]
      have hmin2 : min dst1.length (src.length - (0 + (dst.length - s))) =
          src.length - (dst.length - s) := by omega
      rw [hmin2, loop1_done _ _ _ _ _ _ _ (by omega)]
      have e1 : List.drop (s + (src.length - 0)) dst = [] := List.drop_eq_nil_of_le (by omega)
      have e2 : List.take dst1.length (List.drop (0 + (dst.length - s)) src) =
          List.drop (dst.length - s) src := by
        rw [Nat.zero_add]; exact List.take_of_length_le (by simp; omega)
      have e3 : 0 + (dst.length - s) + (src.length - (dst.length - s)) = src.length := by omega
      rw [e2, e3, ← hd1, e1, List.append_nil, Nat.zero_add, List.drop_zero,
        List.drop_append_of_le_length (by simp; omega)]
      simp [copied, hc]

/-! ### the specification -/

/-- `ringCopy dst src start` with `src` not longer than the (non-empty) ring `dst` and
`0 ≤ start ≤ len(dst)`: returns `len(src)`; byte `j` of `src` lands at `(start + j) % len(dst)`,
every other cell keeps its value. Three turns of the loop suffice (the third one only
sees `n = 0`); `ringCopy_fuel_sharp` shows that two do not. -/
theorem ringCopy_spec (fuel : Nat) (hf : 3 ≤ fuel) (dst src : List UInt8) (start : Int)
    (hD : 0 < dst.length) (hS : src.length ≤ dst.length)
    (h0 : 0 ≤ start) (hlt : start ≤ (dst.length : Int)) :
    ∃ dst', Service.ringCopy fuel dst src start = Res.ok (dst', src.length) ∧
      dst'.length = dst.length ∧
      (∀ j : Nat, j < src.length → dst'[(start.toNat + j) % dst.length]? = src[j]?) ∧
      (∀ p : Nat, (∀ j : Nat, j < src.length → p ≠ (start.toNat + j) % dst.length) →
        dst'[p]? = dst[p]?) := by
  obtain ⟨s, rfl⟩ : ∃ s : Nat, start = (s : Int) := ⟨start.toNat, by omega⟩
  have hs : s ≤ dst.length := by omega
  have hlen := copied_length dst src s hS hs
  refine ⟨copied dst src s, ringCopy_eq fuel hf dst src s hD hS hs, hlen, ?_, ?_⟩
  · intro j hj
    rw [Int.toNat_natCast, add_mod_wrap hs (by omega)]
    by_cases h : s + j < dst.length
    · rw [if_pos h, copied_getElem? dst src s hS hs _ h, if_pos ⟨by omega, by omega⟩]
      congr 1; omega
    · rw [if_neg h, copied_getElem? dst src s hS hs _ (by omega), if_neg (by omega),
        if_pos (by omega)]
      congr 1; omega
  · intro p hp
    rw [Int.toNat_natCast] at hp
    by_cases hpD : p < dst.length
    · rw [copied_getElem? dst src s hS hs p hpD]
      by_cases h1 : s ≤ p ∧ p < s + src.length
      · exfalso
        apply hp (p - s) (by omega)
        rw [add_mod_wrap hs (by omega), if_pos (by omega)]; omega
      · rw [if_neg h1]
        by_cases h2 : p + dst.length < s + src.length
        · exfalso
          apply hp (p + dst.length - s) (by omega)
          rw [add_mod_wrap hs (by omega), if_neg (by omega)]; omega
        · rw [if_neg h2]
    · rw [List.getElem?_eq_none (by omega), List.getElem?_eq_none (by omega)]

/-- two turns are not enough when the copy wraps around -/
theorem ringCopy_fuel_sharp : Service.ringCopy 2 [0, 0] [1, 2] 1 = Res.fuel := by decide

/-! ### outside the precondition -/

theorem loop1_empty_dst (src : List UInt8) (fuel : Nat) (n : Int) (i l : Nat)
    (hn : 0 < n) (hi : i ≤ src.length) :
    Service.ringCopy.loop1 fuel [] src 0 n i l = Res.fuel := by
  induction fuel generalizing i l with
  | zero => rw [Service.ringCopy.loop1]
  | succ f ih =>
    rw [loop1_step0 f [] src n i l hn hi]
    simp only [List.length_nil, Nat.zero_min, Int.natCast_zero, Int.sub_zero, ite_self,
      List.take_zero, List.drop_nil, List.append_nil, Nat.add_zero]
    exact ih i 0 hi

/-- an empty `dst` with a non-empty `src`: `copy` moves nothing, `n` stays positive, the Go
loop spins forever — the translation runs out of every budget -/
theorem ringCopy_empty_dst (fuel : Nat) (src : List UInt8) (hsrc : src ≠ []) :
    Service.ringCopy fuel [] src 0 = Res.fuel := by
  unfold Service.ringCopy
  have : 0 < src.length := List.length_pos_iff.2 hsrc
  exact loop1_empty_dst src fuel _ 0 0 (by omega) (by omega)

/-- `start` outside `0 … len(dst)` with something to copy: `dst[start:]` panics -/
theorem ringCopy_panic (fuel : Nat) (hf : 1 ≤ fuel) (dst src : List UInt8) (start : Int)
    (hsrc : src ≠ []) (hstart : start < 0 ∨ (dst.length : Int) < start) :
    Service.ringCopy fuel dst src start = Res.panic := by
  obtain ⟨f, rfl⟩ : ∃ f, fuel = f + 1 := ⟨fuel - 1, by omega⟩
  have hpos : 0 < src.length := List.length_pos_iff.2 hsrc
  unfold Service.ringCopy
  rw [Service.ringCopy.loop1]
  rcases hstart with h | h
  · have : ¬ 0 ≤ start := by omega
    simp [this, hsrc]
  · have : ¬ start.toNat ≤ dst.length := by omega
    simp [this, hsrc]

/-- nothing to copy: `dst` is returned untouched, whatever `start` is -/
theorem ringCopy_nil (fuel : Nat) (hf : 1 ≤ fuel) (dst : List UInt8) (start : Int) :
    Service.ringCopy fuel dst [] start = Res.ok (dst, 0) := by
  obtain ⟨f, rfl⟩ : ∃ f, fuel = f + 1 := ⟨fuel - 1, by omega⟩
  unfold Service.ringCopy
  exact loop1_done _ _ _ _ _ _ _ (by simp)

/-! ### the ring model: `size = 2^k`, cell of stream position `pos` is `cfg.idx pos` -/

open Mqtt.Model.Ring in
theorem ring_idx_eq_mod (cfg : Cfg) (pos : Nat) : cfg.idx pos = pos % cfg.size := by
  unfold Cfg.idx Cfg.size
  exact Nat.and_two_pow_sub_one_eq_mod pos cfg.k

open Mqtt.Model.Ring in
/-- `ringCopy(bf.buf, p, ppos & bf.mask)` does what the model's byte-by-byte copy does:
byte `j` goes to cell `cfg.idx (ppos + j)`, the other cells are left alone. -/
theorem ringCopy_ring (cfg : Cfg) (fuel : Nat) (hf : 3 ≤ fuel) (dst src : List UInt8) (ppos : Nat)
    (hlen : dst.length = cfg.size) (hS : src.length ≤ cfg.size) :
    ∃ dst', Service.ringCopy fuel dst src ((cfg.idx ppos : Nat) : Int) = Res.ok (dst', src.length) ∧
      dst'.length = cfg.size ∧
      (∀ j : Nat, j < src.length → dst'[cfg.idx (ppos + j)]? = src[j]?) ∧
      (∀ p : Nat, (∀ j : Nat, j < src.length → p ≠ cfg.idx (ppos + j)) → dst'[p]? = dst[p]?) := by
  have hpos : 0 < cfg.size := by unfold Cfg.size; exact Nat.two_pow_pos _
  have hidx : cfg.idx ppos < cfg.size := by rw [ring_idx_eq_mod]; exact Nat.mod_lt _ hpos
  obtain ⟨dst', hr, hl, hw, hu⟩ := ringCopy_spec fuel hf dst src ((cfg.idx ppos : Nat) : Int)
    (by omega) (by omega) (by omega) (by omega)
  have hmod : ∀ j : Nat, (((cfg.idx ppos : Nat) : Int).toNat + j) % dst.length = cfg.idx (ppos + j) := by
    intro j
    rw [Int.toNat_natCast, hlen, ring_idx_eq_mod, ring_idx_eq_mod, Nat.mod_add_mod]
  refine ⟨dst', hr, by omega, ?_, ?_⟩
  · intro j hj; rw [← hmod j]; exact hw j hj
  · intro p hp; apply hu; intro j hj; rw [hmod j]; exact hp j hj

end Mqtt.Proofs.XlateRingCopy
